module verifharness

go 1.21.0

require (
	Havoc v0.0.0
	github.com/gin-gonic/gin v1.10.0
	github.com/gorilla/websocket v1.5.3
	github.com/mattn/go-sqlite3 v1.14.23
	github.com/zclconf/go-cty v1.15.0
	golang.org/x/crypto v0.27.0
	golang.org/x/image v0.20.0
	golang.org/x/text v0.18.0
)

require (
	github.com/agext/levenshtein v1.2.3 // indirect
	github.com/apparentlymart/go-textseg/v13 v13.0.0 // indirect
	github.com/apparentlymart/go-textseg/v15 v15.0.0 // indirect
	github.com/fatih/color v1.17.0 // indirect
	github.com/fatih/structs v1.1.0 // indirect
	github.com/gabriel-vasile/mimetype v1.4.5 // indirect
	github.com/gin-contrib/sse v0.1.0 // indirect
	github.com/go-playground/locales v0.14.1 // indirect
	github.com/go-playground/universal-translator v0.18.1 // indirect
	github.com/go-playground/validator/v10 v10.22.0 // indirect
	github.com/google/go-cmp v0.6.0 // indirect
	github.com/leodido/go-urn v1.4.0 // indirect
	github.com/mattn/go-colorable v0.1.13 // indirect
	github.com/mattn/go-isatty v0.0.20 // indirect
	github.com/mattn/go-runewidth v0.0.16 // indirect
	github.com/mitchellh/go-wordwrap v1.0.1 // indirect
	github.com/olekukonko/tablewriter v0.0.5 // indirect
	github.com/pelletier/go-toml/v2 v2.2.3 // indirect
	github.com/rivo/uniseg v0.4.7 // indirect
	github.com/ugorji/go/codec v1.2.12 // indirect
	golang.org/x/net v0.29.0 // indirect
	golang.org/x/sys v0.25.0 // indirect
	google.golang.org/protobuf v1.34.2 // indirect
	gopkg.in/yaml.v3 v3.0.1 // indirect
)

replace Havoc => /repo/teamserver
