module verifharness

go 1.21.0

require Havoc v0.0.0

require (
	github.com/fatih/color v1.17.0 // indirect
	github.com/mattn/go-colorable v0.1.13 // indirect
	github.com/mattn/go-isatty v0.0.20 // indirect
	golang.org/x/image v0.20.0 // indirect
	golang.org/x/sys v0.25.0 // indirect
	golang.org/x/text v0.18.0 // indirect
)

replace Havoc => /repo/teamserver
