// Package mockts: a recording implementation of agent.TeamServer.  It keeps an
// in-memory session table (same lookup rule as cmd/server/agent.go: NameID parsed
// as hex) and logs every call made across the interface as one effect line.
package mockts

import (
	"fmt"
	"sort"
	"strconv"
	"strings"
	"sync"

	"Havoc/pkg/agent"
	"Havoc/pkg/packager"
)

type TS struct {
	mu       sync.Mutex
	Agents   []*agent.Agent
	Effects  []string
	Logs     bool // SendLogs()
	Services map[int]agent.ServiceAgentInterface
	Links    map[[2]int]bool
	Quiet    map[string]bool // effect kinds not recorded
	LastConsole map[string]string // the fields of the last console message, as given
}

func New() *TS {
	return &TS{Services: map[int]agent.ServiceAgentInterface{}, Links: map[[2]int]bool{},
		Quiet: map[string]bool{"lastcalled": true, "update": true}}
}

func (t *TS) eff(kind string, format string, a ...any) {
	if t.Quiet[kind] {
		return
	}
	t.mu.Lock()
	t.Effects = append(t.Effects, kind+":"+fmt.Sprintf(format, a...))
	t.mu.Unlock()
}

// Take returns and clears the effect log.
func (t *TS) Take() []string {
	t.mu.Lock()
	defer t.mu.Unlock()
	e := t.Effects
	t.Effects = nil
	return e
}

func idOf(a *agent.Agent) int {
	v, _ := strconv.ParseInt(a.NameID, 16, 64)
	return int(v)
}

func canonMap(m map[string]string) string {
	keys := make([]string, 0, len(m))
	for k := range m {
		keys = append(keys, k)
	}
	sort.Strings(keys)
	var sb strings.Builder
	for i, k := range keys {
		if i > 0 {
			sb.WriteByte(';')
		}
		sb.WriteString(k + "=" + strconv.Quote(m[k]))
	}
	return sb.String()
}

func (t *TS) AgentUpdate(a *agent.Agent) { t.eff("update", "%s", a.NameID) }
func (t *TS) Died(a *agent.Agent) {
	a.Active = false
	t.eff("died", "%s", a.NameID)
}
func (t *TS) ParentOf(a *agent.Agent) (int, error) {
	for k := range t.Links {
		if k[1] == idOf(a) {
			return k[0], nil
		}
	}
	return 0, fmt.Errorf("no parent")
}
func (t *TS) LinksOf(a *agent.Agent) []int {
	var r []int
	for k := range t.Links {
		if k[0] == idOf(a) {
			r = append(r, k[1])
		}
	}
	sort.Ints(r)
	return r
}
func (t *TS) LinkRemove(p *agent.Agent, l *agent.Agent, upd bool) {
	t.eff("linkremove", "%s>%s", p.NameID, l.NameID)
	delete(t.Links, [2]int{idOf(p), idOf(l)})
	l.Active = false
	l.Reason = "Disconnected"
	if l.Pivots.Parent == p { // as cmd/server LinkRemove: the link is gone in both directions
		l.Pivots.Parent = nil
	}
	if upd {
		for i := range p.Pivots.Links {
			if p.Pivots.Links[i].NameID == l.NameID {
				p.Pivots.Links = append(p.Pivots.Links[:i], p.Pivots.Links[i+1:]...)
				break
			}
		}
	}
}
func (t *TS) LinkAdd(p *agent.Agent, l *agent.Agent) error {
	t.eff("linkadd", "%s>%s", p.NameID, l.NameID)
	t.Links[[2]int{idOf(p), idOf(l)}] = true
	return nil
}
func (t *TS) AgentHasDied(a *agent.Agent) bool { return !a.Active }
func (t *TS) AgentAdd(a *agent.Agent) []*agent.Agent {
	t.eff("add", "%s", a.NameID)
	t.Agents = append(t.Agents, a)
	return t.Agents
}
func (t *TS) PythonModuleCallback(ClientID string, AgentID string, CommandID int, Output map[string]string) {
	t.eff("pycallback", "%s cmd=%d %s", AgentID, CommandID, canonMap(Output))
}
func (t *TS) AgentSendNotify(a *agent.Agent)          { t.eff("notify", "%s", a.NameID) }
func (t *TS) AgentCallbackSize(a *agent.Agent, i int) { t.eff("cbsize", "%s %d", a.NameID, i) }
func (t *TS) AgentInstance(AgentID int) *agent.Agent {
	for _, d := range t.Agents {
		if AgentID == idOf(d) {
			return d
		}
	}
	return nil
}
func (t *TS) AgentLastTimeCalled(AgentID string, LastCallback string, Sleep int, Jitter int, KillDate int64, WorkingHours int32) {
	t.eff("lastcalled", "%s", AgentID)
}
func (t *TS) AgentExist(AgentID int) bool {
	for _, d := range t.Agents {
		v, err := strconv.ParseInt(d.NameID, 16, 64)
		if err != nil {
			return false
		}
		if AgentID == int(v) {
			return true
		}
	}
	return false
}
func (t *TS) AgentConsole(DemonID string, CommandID int, Output map[string]string) {
	t.LastConsole = map[string]string{}
	for k, v := range Output {
		t.LastConsole[k] = v
	}
	t.eff("console", "%s cmd=%d %s", DemonID, CommandID, canonMap(Output))
}
func (t *TS) EventAppend(event packager.Package) []packager.Package {
	t.eff("eventappend", "%d/%d", event.Head.Event, event.Body.SubEvent)
	return nil
}
func (t *TS) EventBroadcast(ExceptClient string, pk packager.Package) {
	t.eff("broadcast", "%d/%d", pk.Head.Event, pk.Body.SubEvent)
}
func (t *TS) EventNewDemon(a *agent.Agent) packager.Package {
	t.eff("newdemon", "%s", a.NameID)
	return packager.Package{}
}
func (t *TS) EventAgentMark(AgentID, Mark string) { t.eff("mark", "%s %s", AgentID, Mark) }
func (t *TS) EventListenerError(ListenerName string, Error error) {
	t.eff("listenererror", "%s", ListenerName)
}
func (t *TS) ListenerAdd(FromUser string, Type int, Config any) packager.Package {
	t.eff("listeneradd", "%s %d", FromUser, Type)
	return packager.Package{}
}
func (t *TS) ServiceAgent(MagicValue int) agent.ServiceAgentInterface { return t.Services[MagicValue] }
func (t *TS) ServiceAgentExist(MagicValue int) bool {
	_, ok := t.Services[MagicValue]
	return ok
}
func (t *TS) GetDotNetPipeTemplate() string { return "mojo.{pid}.{tid}.####################" }
func (t *TS) SendLogs() bool                { return t.Logs }
