// Package gen: deterministic PRNG (splitmix64) and small generator helpers.
// Every random choice of every harness sub-command derives from one Rng seeded
// by VERIF_SEED, so a disagreement replays exactly.
package gen

type Rng struct{ s uint64 }

// New: the state is a mixed function of the seed.  (It must not be seed*gamma: U64 advances the
// state by gamma, so consecutive seeds would walk the same sequence one step apart.)
func New(seed uint64) *Rng {
	z := seed ^ 0xD1B54A32D192ED03
	z = (z ^ (z >> 32)) * 0xD6E8FEB86659FD93
	z = (z ^ (z >> 32)) * 0xD6E8FEB86659FD93
	z ^= z >> 32
	return &Rng{s: z}
}

func (r *Rng) U64() uint64 {
	r.s += 0x9E3779B97F4A7C15
	z := r.s
	z = (z ^ (z >> 30)) * 0xBF58476D1CE4E5B9
	z = (z ^ (z >> 27)) * 0x94D049BB133111EB
	return z ^ (z >> 31)
}

// Intn returns a value in [0,n).
func (r *Rng) Intn(n int) int {
	if n <= 0 {
		return 0
	}
	return int(r.U64() % uint64(n))
}

func (r *Rng) Bool() bool { return r.U64()&1 == 1 }

// Chance returns true with probability num/den.
func (r *Rng) Chance(num, den int) bool { return r.Intn(den) < num }

func (r *Rng) Bytes(n int) []byte {
	b := make([]byte, n)
	for i := range b {
		b[i] = byte(r.U64())
	}
	return b
}

// U32 returns boundary-biased 32-bit values.
func (r *Rng) U32() uint32 {
	switch r.Intn(8) {
	case 0:
		return 0
	case 1:
		return 0xFFFFFFFF
	case 2:
		return 0x80000000
	case 3:
		return 0x7FFFFFFF
	case 4:
		return uint32(r.Intn(256))
	case 5:
		return uint32(1) << uint(r.Intn(32))
	default:
		return uint32(r.U64())
	}
}

func (r *Rng) U64b() uint64 {
	switch r.Intn(8) {
	case 0:
		return 0
	case 1:
		return 0xFFFFFFFFFFFFFFFF
	case 2:
		return 0x8000000000000000
	case 3:
		return uint64(r.U32())
	case 4:
		return uint64(1) << uint(r.Intn(64))
	default:
		return r.U64()
	}
}

// Pick returns one of the choices.
func Pick[T any](r *Rng, xs []T) T { return xs[r.Intn(len(xs))] }
