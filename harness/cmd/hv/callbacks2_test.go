//go:build verif

package main

// TestCallbacks2: every template of moreCallbacks goes, alone, to a fresh agent that has exactly one outstanding
// task (same command id, known request id).  Recorded per template: panic?, is the request id still outstanding
// afterwards, effects seen by the mock teamserver.  The table goes to $CB2_OUT (default /tmp/cbwork/cb2_results.tsv);
// nothing is asserted about agreement between `final` and the teamserver (REPORT.md lists the disagreements),
// only that the generator is sane: enough templates, unique labels, valid `final` values.

import (
	"fmt"
	"os"
	"strings"
	"testing"

	"Havoc/pkg/agent"
	"Havoc/pkg/handlers"

	"verifharness/internal/gen"
	"verifharness/internal/mockts"
)

func cb2HasTask(a *agent.Agent, req uint32) bool {
	for _, t := range a.Tasks {
		if t.RequestID == req {
			return true
		}
	}
	return false
}

func TestCallbacks2(t *testing.T) {
	root := newLootRoot("cb2")
	defer os.RemoveAll(root)

	outPath := os.Getenv("CB2_OUT")
	if outPath == "" {
		outPath = "/tmp/cbwork/cb2_results.tsv"
	}
	var sb strings.Builder
	sb.WriteString("label\tcmd\tfinal\tremoved\teffects\tpanic\tkinds\tfirst\n")

	ts := moreCallbacks(gen.New(1))
	if len(ts) < 40 {
		t.Fatalf("only %d templates", len(ts))
	}
	seen := map[string]bool{}
	count := map[string]int{}
	for i, tpl := range ts {
		if seen[tpl.label] {
			t.Errorf("duplicate label %s", tpl.label)
		}
		seen[tpl.label] = true
		if tpl.final != "0" && tpl.final != "1" && tpl.final != "?" {
			t.Errorf("%s: bad final %q", tpl.label, tpl.final)
		}
		count[tpl.final]++

		// (1) fresh world and agent, as the C05 `agent` line does
		id := uint32(0x1000 + i)
		key := make([]byte, 32)
		for k := range key {
			key[k] = byte(id) + byte(k)
		}
		iv := []byte("0123456789abcdef")
		w := mockts.New()
		a := newAgent(id, key, iv)
		w.Agents = append(w.Agents, a)

		// (2) one outstanding task with that command and a known request id
		req := uint32(0xA0000000 + i)
		a.AddJobToQueue(agent.Job{Command: tpl.cmd, RequestID: req, Data: []any{}})
		if !cb2HasTask(a, req) {
			t.Fatalf("%s: task not outstanding after issue", tpl.label)
		}
		w.Take()

		// (3) the callback, panics recovered
		reqb := demonRequest(id, key, iv, []dpkg{{cmd: tpl.cmd, req: req, body: tpl.body}})
		res := guard(func() string {
			_, ok := handlers.VerifParseAgentRequest(w, reqb, "127.0.0.1")
			if !ok {
				return "REJECTED"
			}
			return "ok"
		})

		// (4) observations
		fx := w.Take()
		removed := !cb2HasTask(a, req)
		kinds := map[string]int{}
		var order []string
		for _, e := range fx {
			k := e
			if j := strings.IndexByte(e, ':'); j >= 0 {
				k = e[:j]
			}
			if kinds[k] == 0 {
				order = append(order, k)
			}
			kinds[k]++
		}
		var ks []string
		for _, k := range order {
			ks = append(ks, fmt.Sprintf("%s=%d", k, kinds[k]))
		}
		first := "-"
		if len(fx) > 0 {
			first = fx[0]
			if len(first) > 160 {
				first = first[:160] + "…"
			}
			first = strings.NewReplacer("\t", " ", "\n", "\\n").Replace(first)
		}
		panicked := "no"
		if res != "ok" {
			panicked = res
		}
		rm := "kept"
		if removed {
			rm = "removed"
		}
		fmt.Fprintf(&sb, "%s\t%d\t%s\t%s\t%d\t%s\t%s\t%s\n", tpl.label, tpl.cmd, tpl.final, rm, len(fx), panicked, strings.Join(ks, ","), first)
	}
	fmt.Fprintf(&sb, "#total\t%d\tfinal1=%d\tfinal0=%d\tfinal?=%d\n", len(ts), count["1"], count["0"], count["?"])
	if err := os.WriteFile(outPath, []byte(sb.String()), 0o644); err != nil {
		t.Fatal(err)
	}
	t.Logf("CB2 templates=%d final1=%d final0=%d final?=%d -> %s", len(ts), count["1"], count["0"], count["?"], outPath)
}
