package main

// C06 — nothing is given to, or accepted from, an unauthenticated connection.
// Real websocket connections to the operator endpoint of a real teamserver: first messages
// of every shape, follow-up messages, broadcasts and agent registrations injected at every
// point of the handshake.  Per operation: the frames every connection received.

import (
	"encoding/json"
	"fmt"
	"strings"

	"Havoc/pkg/events"
	"Havoc/pkg/handlers"
	"Havoc/pkg/packager"

	"github.com/gorilla/websocket"

	"verifharness/internal/gen"
)

func init() { commands["C06"] = runC06 }

type c06World struct {
	*sysWorld
	names []string
	nreg  uint32
}

func (w *c06World) state() string {
	n := 0
	w.ts.Clients.Range(func(k, v any) bool { n++; return true })
	var sa []string
	for _, a := range w.ts.Service.Agents {
		sa = append(sa, hx([]byte(a.Name)))
	}
	return fmt.Sprintf("clients=%d listeners=%d events=%d sagents=%s", n, len(w.ts.Listeners), len(w.ts.EventsList), strings.Join(sa, ","))
}

func (w *c06World) line(c *Ctx, in string) {
	c.Pending(in)
	parts := strings.Fields(in)
	switch parts[0] {
	case "reset":
		w.resetVolatile()
		w.names = nil
		c.Emit("reset")
	case "conn": // conn <name>
		wc, err := w.dial("havoc/")
		if err != nil {
			c.Emit("%s => DIALERR", in)
			return
		}
		w.conns[parts[1]] = wc
		w.names = append(w.names, parts[1])
		c.Emit("%s => %s %s", in, w.obsAll(w.names, ms(25)), w.state())
	case "send": // send <name> <texthex> [msg=…]: the summary of the message is (re)computed here
		if wc := w.conns[parts[1]]; wc != nil {
			wc.c.WriteMessage(websocket.TextMessage, unhx(parts[2]))
		}
		c.Emit("send %s %s msg=%s => %s %s", parts[1], parts[2], msgSummary(unhx(parts[2])), w.obsAll(w.names, ms(40)), w.state())
	case "sconn": // sconn <name>: a connection to the service endpoint
		wc, err := w.dial("svc")
		if err != nil {
			c.Emit("%s => DIALERR", in)
			return
		}
		w.conns[parts[1]] = wc
		w.names = append(w.names, parts[1])
		c.Emit("%s => %s %s", in, w.obsAll(w.names, ms(25)), w.state())
	case "ssend": // ssend <name> <texthex>: both readings of the message are computed here
		if wc := w.conns[parts[1]]; wc != nil {
			wc.c.WriteMessage(websocket.TextMessage, unhx(parts[2]))
		}
		hello, req := svcSummary(unhx(parts[2]))
		c.Emit("ssend %s %s hello=%s req=%s => %s %s", parts[1], parts[2], hello, req, w.obsAll(w.names, ms(40)), w.state())
	case "world":
		c.Emit("%s", in)
	case "bcast": // bcast <marker>: a chat event recorded and broadcast by the server
		pk := events.ChatLog.NewUserConnected("marker-" + parts[1])
		w.ts.EventAppend(pk)
		w.ts.EventBroadcast("", pk)
		c.Emit("%s => %s %s", in, w.obsAll(w.names, ms(25)), w.state())
	case "register": // an agent registers: NewSession event (with keys) is broadcast
		w.nreg++
		id := 0x00c06000 + w.nreg
		handlers.VerifParseAgentRequest(w.ts, initPackage(id, id, make([]byte, 32), make([]byte, 16), regInfo{Hostname: "h", ProcName: "p"}), "1.1.1.1")
		c.Emit("%s => %s %s", in, w.obsAll(w.names, ms(25)), w.state())
	case "close":
		if wc := w.conns[parts[1]]; wc != nil {
			wc.c.Close()
		}
		c.Emit("%s => %s %s", in, w.obsAll(w.names, ms(25)), w.state())
	default:
		panic("C06: unknown op " + parts[0])
	}
}

// msgSummary: the fields of a message the handshake looks at, as Go's encoding/json sees them.
func msgSummary(text []byte) string {
	var pk packager.Package
	if err := json.Unmarshal(text, &pk); err != nil {
		return "nonjson"
	}
	kind, pw := "none", ""
	if v, ok := pk.Body.Info["Password"]; ok {
		if s, ok := v.(string); ok {
			kind, pw = "str", s
		} else {
			kind = "other"
		}
	}
	return fmt.Sprintf("%d:%d:%s:%s:%s", pk.Head.Event, pk.Body.SubEvent, hx([]byte(pk.Head.User)), kind, hx([]byte(pw)))
}

// svcSummary: a service message as `authenticate` decodes it (ReadJSON = json.Decoder into the
// request struct) and as `dispatch` reads it (only RegisterAgent with a string name is summarised).
func svcSummary(text []byte) (string, string) {
	var hello struct {
		Head struct {
			Type string `json:"Type"`
		} `json:"Head"`
		Body struct {
			Pass string `json:"Password"`
		} `json:"Body"`
	}
	hs := "nonjson"
	if err := json.NewDecoder(strings.NewReader(string(text))).Decode(&hello); err == nil {
		hs = hx([]byte(hello.Head.Type)) + ":" + hx([]byte(hello.Body.Pass))
	}
	req := "other"
	var m map[string]map[string]any
	if err := json.Unmarshal(text, &m); err == nil && m["Head"]["Type"] == "RegisterAgent" {
		if a, ok := m["Body"]["Agent"].(map[string]any); ok {
			if n, ok := a["Name"].(string); ok {
				req = "regagent:" + hx([]byte(n))
			}
		}
	}
	return hs, req
}

func svcRegAgent(name string) string {
	return fmt.Sprintf(`{"Head":{"Type":"RegisterAgent"},"Body":{"Agent":{"Name":%q,"MagicValue":"0x41414141","Author":"x","SupportedOS":["linux"],"Description":"d","Commands":[],"BuildingConfig":{}}}}`, name)
}

func runC06(c *Ctx) {
	w := &c06World{sysWorld: startSystem("c06")}
	if c.Replay != "" {
		for _, l := range replayLines(c.Replay) {
			w.line(c, l)
		}
		return
	}
	r := c.R
	E, S := packager.Type.InitConnection.Type, packager.Type.InitConnection.OAuthRequest
	users := map[string]string{"alice": "pw-alice", "bob": "pw-bob"}
	world := fmt.Sprintf("world %d %d %s:%s,%s:%s", E, S, hx([]byte("alice")), hx([]byte(pwHash("pw-alice"))), hx([]byte("bob")), hx([]byte(pwHash("pw-bob")))) + " " + hx([]byte("svc-pw"))
	// the battery: every variant of the structured first-message kinds is sent once at the start of a run
	forcedKind, forcedIdx, exhausted := -1, -1, false
	pick := func(xs []string) string {
		if forcedIdx >= 0 {
			if forcedIdx >= len(xs) {
				exhausted = true
				return xs[0]
			}
			return xs[forcedIdx]
		}
		return gen.Pick(r, xs)
	}
	firstMessages := func() (string, string) { // (label, text)
		u := gen.Pick(r, []string{"alice", "bob"})
		kind := r.Intn(26)
		if forcedKind >= 0 {
			kind = forcedKind
		}
		switch kind {
		case 16, 17, 18, 19: // the digest field in every length and spelling around the right one
			d := pwHash(users[u])
			pw := pick([]string{strings.ToUpper(d), d + "00", d[:63], " " + d, d + " ", d[:32], strings.Repeat("ab", 33), strings.Repeat("0", 65),
				strings.Repeat("f", 128), strings.Repeat("a1", 500), strings.Repeat("z", 64), "", strings.Repeat("é", 32), d[1:] + d[:1], strings.Repeat(d, 40)})
			return "pwshape", loginJSON(u, pw, E, S, "")
		case 20, 21: // the user name in odd spellings (JSON escapes decode to the same name)
			un := pick([]string{"", u + " ", " " + u, u + "\x00", strings.Repeat("u", 5000), "älice", u + "/../bob"})
			if forcedKind < 0 && r.Chance(1, 3) {
				esc := fmt.Sprintf("\\u%04x%s", u[0], u[1:])
				return "escuser", fmt.Sprintf(`{"Head":{"Event":%d,"User":"%s"},"Body":{"SubEvent":%d,"Info":{"User":"%s","Password":%q}}}`, E, esc, S, esc, pwHash(users[u]))
			}
			return "usershape", loginJSON(un, pwHash(users[u]), E, S, "")
		case 22, 23: // ill-typed members at every level
			d := pwHash(users[u])
			return "illtyped", pick([]string{
				fmt.Sprintf(`{"Head":{"Event":%d,"User":5},"Body":{"SubEvent":%d,"Info":{"User":%q,"Password":%q}}}`, E, S, u, d),
				fmt.Sprintf(`{"Head":{"Event":"%d","User":%q},"Body":{"SubEvent":%d,"Info":{"User":%q,"Password":%q}}}`, E, u, S, u, d),
				fmt.Sprintf(`{"Head":{"Event":%d,"User":%q},"Body":{"SubEvent":%d,"Info":[%q,%q]}}`, E, u, S, u, d),
				fmt.Sprintf(`{"Head":{"Event":%d,"User":%q},"Body":{"SubEvent":%d,"Info":null}}`, E, u, S),
				fmt.Sprintf(`{"Head":{"Event":%d,"User":%q},"Body":{"SubEvent":%d,"Info":"x"}}`, E, u, S),
				fmt.Sprintf(`{"Head":{"Event":%d,"User":%q},"Body":[1,2]}`, E, u),
				fmt.Sprintf(`{"Head":[],"Body":{"SubEvent":%d,"Info":{"User":%q,"Password":%q}}}`, S, u, d),
				fmt.Sprintf(`{"Head":{"Event":%d,"User":%q},"Body":{"SubEvent":%d,"Info":{"User":%q,"Password":[%q]}}}`, E, u, S, u, d),
				fmt.Sprintf(`{"Head":{"Event":%d,"User":%q},"Body":{"SubEvent":%d,"Info":{"User":%q,"Password":{"x":%q}}}}`, E, u, S, u, d),
				fmt.Sprintf(`{"Head":{"Event":%d,"User":%q},"Body":{"SubEvent":%d,"Info":{"User":%q,"Password":null}}}`, E, u, S, u),
				fmt.Sprintf(`{"Head":{"Event":%d,"User":%q},"Body":{"SubEvent":%d,"Info":{"User":%q,"Password":true}}}`, E, u, S, u),
				fmt.Sprintf(`{"Head":{"Event":%d.5,"User":%q},"Body":{"SubEvent":%d,"Info":{"User":%q,"Password":%q}}}`, E, u, S, u, d),
				fmt.Sprintf(`{"Head":{"Event":-%d,"User":%q},"Body":{"SubEvent":%d,"Info":{"User":%q,"Password":%q}}}`, E, u, S, u, d),
				fmt.Sprintf(`{"Head":{"Event":%d,"User":null},"Body":{"SubEvent":%d,"Info":{"Password":%q}}}`, E, S, d),
			})
		case 24: // big and deep messages
			d := pwHash(users[u])
			return "big", pick([]string{
				strings.Repeat(" ", 200000) + loginJSON(u, d, E, S, ""),
				loginJSON(u, d, E, S, `,"Pad":"`+strings.Repeat("p", 300000)+`"`),
				strings.Repeat("[", 20000),
				strings.Repeat(`{"a":`, 12000) + "1" + strings.Repeat("}", 12000),
				`{"Head":{"Event":` + strings.Repeat("9", 400) + `}}`,
			})
		case 25: // repeated members: the last one counts for encoding/json
			d := pwHash(users[u])
			return "dupkeys", pick([]string{
				fmt.Sprintf(`{"Head":{"Event":0,"User":"x"},"Head":{"Event":%d,"User":%q},"Body":{"SubEvent":%d,"Info":{"User":%q,"Password":"no","Password":%q}}}`, E, u, S, u, d),
				fmt.Sprintf(`{"Head":{"Event":%d,"User":%q},"Body":{"SubEvent":%d,"Info":{"User":%q,"Password":%q,"Password":"no"}}}`, E, u, S, u, d),
			})
		case 0, 1, 2, 3:
			return "valid", loginJSON(u, pwHash(users[u]), E, S, "")
		case 4:
			return "wrongpw", loginJSON(u, pwHash("nope"), E, S, "")
		case 5:
			return "plainpw", loginJSON(u, users[u], E, S, "")
		case 6:
			return "unknownuser", loginJSON("mallory", pwHash("x"), E, S, "")
		case 7:
			return "caseuser", loginJSON(strings.ToUpper(u), "", E, S, "")
		case 8:
			return "nopassword", fmt.Sprintf(`{"Head":{"Event":%d,"User":%q},"Body":{"SubEvent":%d,"Info":{"User":%q}}}`, E, u, S, u)
		case 9:
			return "numpassword", fmt.Sprintf(`{"Head":{"Event":%d,"User":%q},"Body":{"SubEvent":%d,"Info":{"User":%q,"Password":12345}}}`, E, u, S, u)
		case 10:
			return "noinfo", fmt.Sprintf(`{"Head":{"Event":%d,"User":%q},"Body":{"SubEvent":%d}}`, E, u, S)
		case 11:
			return "wrongevent", loginJSON(u, pwHash(users[u]), gen.Pick(r, []int{0, 2, 7, 99}), S, "")
		case 12:
			return "wrongsub", loginJSON(u, pwHash(users[u]), E, gen.Pick(r, []int{0, 2, 3, 77}), "")
		case 13:
			return "nonjson", gen.Pick(r, []string{"hello", "{", "[]", "null", "\"x\"", "{\"Head\":5}", ""})
		case 14:
			return "nouserfield", fmt.Sprintf(`{"Head":{"Event":%d,"User":%q},"Body":{"SubEvent":%d,"Info":{"Password":%q}}}`, E, u, S, pwHash(users[u]))
		default:
			return "extrafields", loginJSON(u, pwHash(users[u]), E, S, `,"Extra":{"a":[1,2]},"X":null`)
		}
	}
	followUps := []string{
		fmt.Sprintf(`{"Head":{"Event":%d,"User":"alice"},"Body":{"SubEvent":%d,"Info":{"Name":"evil","Protocol":"Http","Hosts":"127.0.0.1","HostBind":"127.0.0.1","PortBind":"1","PortConn":"1","Secure":"false","HostRotation":"round-robin","Headers":"","Uris":"","HostHeader":"","UserAgent":"x"}}}`, packager.Type.Listener.Type, packager.Type.Listener.Add),
		fmt.Sprintf(`{"Head":{"Event":%d,"User":"alice"},"Body":{"SubEvent":%d,"Info":{"Text":"aGk=","User":"alice"}}}`, packager.Type.Chat.Type, packager.Type.Chat.NewMessage),
		fmt.Sprintf(`{"Head":{"Event":%d,"User":"alice"},"Body":{"SubEvent":%d,"Info":{"AgentID":"00000001","Marked":"Dead"}}}`, packager.Type.Session.Type, packager.Type.Session.MarkAsDead),
		"garbage",
	}
	svcHello := func() (string, string) {
		switch r.Intn(12) {
		case 0, 1, 2, 3:
			return "valid", `{"Head":{"Type":"Register"},"Body":{"Password":"svc-pw"}}`
		case 4:
			return "wrongpw", `{"Head":{"Type":"Register"},"Body":{"Password":"svc-pW"}}`
		case 5:
			return "hashpw", fmt.Sprintf(`{"Head":{"Type":"Register"},"Body":{"Password":%q}}`, pwHash("svc-pw"))
		case 6:
			return "nopw", `{"Head":{"Type":"Register"},"Body":{}}`
		case 7:
			return "numpw", `{"Head":{"Type":"Register"},"Body":{"Password":5}}`
		case 8:
			return "wrongtype", fmt.Sprintf(`{"Head":{"Type":%q},"Body":{"Password":"svc-pw"}}`, gen.Pick(r, []string{"RegisterAgent", "register", "", "Agent"}))
		case 9:
			return "nonjson", gen.Pick(r, []string{"hello", "{", "[]", "null", "7"})
		case 10:
			return "trailing", `{"Head":{"Type":"Register"},"Body":{"Password":"svc-pw"}} trailing`
		default:
			return "regagent-first", svcRegAgent(fmt.Sprintf("T%d", r.Intn(3)))
		}
	}
	for _, k := range []int{16, 20, 22, 24, 25} {
		for idx := 0; ; idx++ {
			forcedKind, forcedIdx, exhausted = k, idx, false
			label, first := firstMessages()
			if exhausted {
				break
			}
			c.Count("battery." + label)
			w.line(c, "reset")
			w.line(c, world)
			w.line(c, "conn w")
			w.line(c, "send w "+hx([]byte(loginJSON("bob", pwHash("pw-bob"), E, S, ""))))
			w.line(c, "conn a")
			w.line(c, "send a "+hx([]byte(first)))
			w.line(c, fmt.Sprintf("bcast m%d", idx))
		}
	}
	forcedKind, forcedIdx = -1, -1
	for c.Lines < c.N {
		w.line(c, "reset")
		w.line(c, world)
		if r.Chance(1, 3) { // a service-endpoint session
			c.Count("session.service")
			if r.Chance(1, 2) { // an operator watching: a registration is broadcast to it
				w.line(c, "conn w")
				w.line(c, "send w "+hx([]byte(loginJSON("bob", pwHash("pw-bob"), E, S, ""))))
			}
			for _, n := range []string{"s", "t"}[:1+r.Intn(2)] {
				w.line(c, "sconn "+n)
				label, first := svcHello()
				c.Count("svcfirst." + label)
				w.line(c, "ssend "+n+" "+hx([]byte(first)))
				for k, nf := 0, r.Intn(6); k < nf; k++ {
					c.Count("svcfollowup")
					w.line(c, "ssend "+n+" "+hx([]byte(gen.Pick(r, []string{svcRegAgent(fmt.Sprintf("T%d", r.Intn(3))), svcRegAgent(fmt.Sprintf("T%d", r.Intn(3))), "garbage",
						`{"Head":{"Type":"Register"},"Body":{"Password":"guess"}}`, `{"Head":{"Type":"Register"},"Body":{"Password":"guess"}}`,
						`{"Head":{"Type":"Listener"},"Body":{"Type":"nothing"}}`}))))
				}
			}
			if r.Chance(1, 2) {
				w.line(c, "close s")
			}
			continue
		}
		c.Count("session.operator")
		// sometimes an authenticated operator is present as a witness
		if r.Chance(1, 2) {
			w.line(c, "conn w")
			w.line(c, "send w "+hx([]byte(loginJSON("bob", pwHash("pw-bob"), E, S, ""))))
		}
		w.line(c, "conn a")
		inject := func() {
			switch r.Intn(4) {
			case 0:
				c.Count("inject.bcast")
				w.line(c, fmt.Sprintf("bcast m%d", r.Intn(1000)))
			case 1:
				c.Count("inject.register")
				w.line(c, "register")
			}
		}
		inject()
		label, first := firstMessages()
		if label == "valid" && r.Chance(1, 2) && len(w.names) > 1 {
			first = loginJSON("alice", pwHash("pw-alice"), E, S, "") // not the witness's user
		}
		c.Count("first." + label)
		w.line(c, "send a "+hx([]byte(first)))
		inject()
		// "nouserfield" authenticates too: the handshake reads the operator from Head.User
		// whether a message logs in is read off the message itself (the fields the handshake looks at), never off the label
		loggedIn := func(text string) bool {
			f := strings.Split(msgSummary([]byte(text)), ":")
			if len(f) != 5 || f[0] != fmt.Sprint(E) || f[1] != fmt.Sprint(S) || f[3] != "str" {
				return false
			}
			pw, ok := users[string(unhx(f[2]))]
			return ok && string(unhx(f[4])) == pwHash(pw)
		}
		for k := 0; k < r.Intn(3) && !loggedIn(first); k++ {
			// only connections that did NOT log in: what an operator may send is not C06's subject
			c.Count("followup")
			w.line(c, "send a "+hx([]byte(gen.Pick(r, followUps))))
			inject()
		}
		if r.Chance(1, 3) {
			w.line(c, "close a")
			inject()
		}
	}
}
