package main

// C08 — tasks and callbacks for pivot agents are routed to the right session.
// Downward: tasks queued on agents behind chains of SMB pivots (depth 1..5, distinct
// keys, boundary ids) are fetched at the root's check-in; the Lean side plays every
// hop.  Upward: callbacks relayed by a parent in a DEMON_PIVOT_SMB_COMMAND package.

import (
	"encoding/binary"
	"fmt"
	"strconv"
	"strings"

	"Havoc/pkg/agent"
	"Havoc/pkg/handlers"

	"verifharness/internal/gen"
	"verifharness/internal/mockts"
)

func init() { commands["C08"] = runC08 }

type c08World struct {
	prefix string // set when these operations are embedded in another property's run (C02: "p8.")
	ts     *mockts.TS
	keys   map[string][2][]byte
	agents map[string]*agent.Agent
}

func newC08World() *c08World {
	return &c08World{ts: mockts.New(), keys: map[string][2][]byte{}, agents: map[string]*agent.Agent{}}
}

func (w *c08World) line(c *Ctx, in string) {
	parts := strings.Fields(in)
	in = w.prefix + in
	switch parts[0] {
	case "reset":
		*w = *newC08World()
		c.Emit("reset")
	case "agent": // agent <id> <key> <iv> <ks> [parent]
		id64, _ := strconv.ParseUint(parts[1], 16, 32)
		key, iv := unhx(parts[2]), unhx(parts[3])
		a := newAgent(uint32(id64), key, iv)
		if len(parts) > 5 {
			p := w.agents[parts[5]]
			a.Pivots.Parent = p
			p.Pivots.Links = append(p.Pivots.Links, a)
		}
		w.ts.Agents = append(w.ts.Agents, a)
		w.agents[parts[1]] = a
		w.keys[parts[1]] = [2][]byte{key, iv}
		c.Emit("%s", in)
	case "reconnect": // reconnect <parent> <child>: the parent reports a successful SMB connect to an agent that exists already
		pid, _ := strconv.ParseUint(parts[1], 16, 32)
		cid, _ := strconv.ParseUint(parts[2], 16, 32)
		kp, kc := w.keys[parts[1]], w.keys[parts[2]]
		pa := w.agents[parts[1]]
		req := uint32(0x5000 + len(pa.Tasks))
		pa.AddRequest(agent.Job{Command: agent.COMMAND_PIVOT, RequestID: req})
		inner := initPackage(uint32(cid), uint32(cid), kc[0], kc[1], regInfo{})
		outer := demonRequest(uint32(pid), kp[0], kp[1], []dpkg{{cmd: agent.COMMAND_PIVOT, req: req, body: body(fI(agent.DEMON_PIVOT_SMB_CONNECT), fI(1), fY(inner))}})
		out := guard(func() string {
			_, ok := handlers.VerifParseAgentRequest(w.ts, outer, "127.0.0.1")
			if !ok {
				return "REJECTED"
			}
			return "ok"
		})
		w.ts.Take()
		c.Emit("%s => %s", in, out)
	case "ptask": // ptask <target> <cmd> <req> <args>
		a := w.agents[parts[1]]
		cmd, _ := strconv.ParseUint(parts[2], 10, 32)
		req, _ := strconv.ParseUint(parts[3], 10, 32)
		out := guard(func() string {
			a.AddJobToQueue(agent.Job{Command: uint32(cmd), RequestID: uint32(req), Data: parseArgsStr(parts[4])})
			return "ok"
		})
		c.Emit("%s => %s", in, out)
	case "issue": // issue <id> <req>
		a := w.agents[parts[1]]
		req, _ := strconv.ParseUint(parts[2], 10, 32)
		a.AddRequest(agent.Job{Command: 11, RequestID: uint32(req)})
		c.Emit("%s", in)
	case "rootcheckin":
		id64, _ := strconv.ParseUint(parts[1], 16, 32)
		k := w.keys[parts[1]]
		req := demonRequest(uint32(id64), k[0], k[1], []dpkg{{cmd: agent.COMMAND_GET_JOB, req: 0, nobody: true}})
		out := guard(func() string {
			resp, ok := handlers.VerifParseAgentRequest(w.ts, req, "127.0.0.1")
			if !ok {
				return "REJECTED"
			}
			return hx(resp.Bytes())
		})
		w.ts.Take()
		c.Emit("%s => %s", in, out)
	case "relay": // relay <parent> <child> <wrapreq> <cmd> <req> <final> <body>
		pid, _ := strconv.ParseUint(parts[1], 16, 32)
		cid, _ := strconv.ParseUint(parts[2], 16, 32)
		wrapreq, _ := strconv.ParseUint(parts[3], 10, 32)
		cmd, _ := strconv.ParseUint(parts[4], 10, 32)
		req, _ := strconv.ParseUint(parts[5], 10, 32)
		kp, kc := w.keys[parts[1]], w.keys[parts[2]]
		inner := demonRequest(uint32(cid), kc[0], kc[1], []dpkg{{cmd: uint32(cmd), req: uint32(req), body: unhx(parts[7])}})
		pbody := binary.BigEndian.AppendUint32(nil, agent.DEMON_PIVOT_SMB_COMMAND)
		pbody = binary.BigEndian.AppendUint32(pbody, uint32(len(inner)))
		pbody = append(pbody, inner...)
		outer := demonRequest(uint32(pid), kp[0], kp[1], []dpkg{{cmd: agent.COMMAND_PIVOT, req: uint32(wrapreq), body: pbody}})
		w.ts.Take()
		out := guard(func() string {
			_, ok := handlers.VerifParseAgentRequest(w.ts, outer, "127.0.0.1")
			if !ok {
				return "REJECTED"
			}
			n := 0
			for _, e := range w.ts.Take() {
				if strings.HasPrefix(e, "console:"+parts[2]+" ") || strings.HasPrefix(e, "died:"+parts[2]) {
					n++
				}
			}
			return fmt.Sprintf("childfx=%d tasksC=%s tasksP=%s", n, tasksOf(w.agents[parts[2]]), tasksOf(w.agents[parts[1]]))
		})
		c.Emit("%s => %s", in, out)
	case "relayn": // relayn <parent> <child> <wrapreq> (<cmd> <req> <final> <body>)+ : several packages of the child in ONE relayed frame
		pid, _ := strconv.ParseUint(parts[1], 16, 32)
		cid, _ := strconv.ParseUint(parts[2], 16, 32)
		wrapreq, _ := strconv.ParseUint(parts[3], 10, 32)
		kp, kc := w.keys[parts[1]], w.keys[parts[2]]
		var pk []dpkg
		for i := 4; i+3 < len(parts); i += 4 {
			cmd, _ := strconv.ParseUint(parts[i], 10, 32)
			req, _ := strconv.ParseUint(parts[i+1], 10, 32)
			pk = append(pk, dpkg{cmd: uint32(cmd), req: uint32(req), body: unhx(parts[i+3])})
		}
		inner := demonRequest(uint32(cid), kc[0], kc[1], pk)
		pbody := binary.BigEndian.AppendUint32(nil, agent.DEMON_PIVOT_SMB_COMMAND)
		pbody = binary.BigEndian.AppendUint32(pbody, uint32(len(inner)))
		pbody = append(pbody, inner...)
		outer := demonRequest(uint32(pid), kp[0], kp[1], []dpkg{{cmd: agent.COMMAND_PIVOT, req: uint32(wrapreq), body: pbody}})
		w.ts.Take()
		out := guard(func() string {
			_, ok := handlers.VerifParseAgentRequest(w.ts, outer, "127.0.0.1")
			if !ok {
				return "REJECTED"
			}
			n := 0
			for _, e := range w.ts.Take() {
				if strings.HasPrefix(e, "console:"+parts[2]+" ") || strings.HasPrefix(e, "died:"+parts[2]) {
					n++
				}
			}
			return fmt.Sprintf("childfx=%d tasksC=%s tasksP=%s", n, tasksOf(w.agents[parts[2]]), tasksOf(w.agents[parts[1]]))
		})
		c.Emit("%s => %s", in, out)
	default:
		panic("C08: unknown op " + parts[0])
	}
}

func runC08(c *Ctx) {
	w := newC08World()
	if c.Replay != "" {
		for _, l := range replayLines(c.Replay) {
			w.line(c, l)
		}
		return
	}
	r := c.R
	boundary := []uint32{1, 0x7fffffff, 0x80000000, 0xffffffff, 0x80000001, 0xdeadbeef, 0x0badf00d, 0x10}
	for c.Lines < c.N {
		w.line(c, "reset")
		used := map[string]bool{}
		newID := func() string {
			for {
				v := r.U32()
				if r.Chance(1, 3) {
					v = gen.Pick(r, boundary)
				}
				if v == 0 {
					continue
				}
				id := fmt.Sprintf("%08x", v)
				if !used[id] {
					used[id] = true
					return id
				}
			}
		}
		mk := func(id, parent string) {
			key, iv := r.Bytes(32), r.Bytes(16)
			if r.Chance(1, 8) { // the all-zero key ("no encryption" at registration): the Demon still decrypts every layer with it
				key = make([]byte, 32)
				c.Count("key.zero")
			}
			l := fmt.Sprintf("agent %s %s %s %s", id, hx(key), hx(iv), hx(keystream(key, iv, 3000)))
			if parent != "" {
				l += " " + parent
			}
			w.line(c, l)
		}
		root := newID()
		mk(root, "")
		// a tree: 1-2 chains of depth 1..5 below the root
		var all []string
		parents := map[string]string{}
		for ch := 0; ch < 1+r.Intn(2); ch++ {
			depth := 1 + r.Intn(5)
			c.Count(fmt.Sprintf("depth%d", depth))
			prev := root
			for d := 0; d < depth; d++ {
				id := newID()
				mk(id, prev)
				parents[id] = prev
				all = append(all, id)
				prev = id
			}
		}
		for rd := 0; rd < 1+r.Intn(3); rd++ {
			for k := 0; k < 1+r.Intn(3); k++ {
				tgt := all[r.Intn(len(all))]
				if r.Chance(1, 6) {
					tgt = root
				}
				var args []any
				for i := 0; i < r.Intn(4); i++ {
					args = append(args, genArg(r))
				}
				w.line(c, fmt.Sprintf("ptask %s %d %d %s", tgt, gen.Pick(r, []uint32{11, 12, 15, 21, 100}), r.U32(), argsStr(args)))
			}
			w.line(c, "rootcheckin "+root)
		}
		// re-linking: an agent that exists is connected again - through the parent it has, through another agent, or (refused)
		// through itself or one of its own pivots; tasks afterwards must take the new route
		if r.Chance(1, 2) {
			x := all[r.Intn(len(all))]
			cands := append([]string{root, parents[x], parents[x]}, all...)
			np := cands[r.Intn(len(cands))]
			cyclic := false
			for a := np; a != ""; a = parents[a] {
				if a == x {
					cyclic = true
				}
			}
			c.Count(map[bool]string{true: "reconnect.cyclic", false: "reconnect"}[cyclic])
			if np == parents[x] {
				c.Count("reconnect.same-parent")
			}
			w.line(c, fmt.Sprintf("reconnect %s %s", np, x))
			if !cyclic {
				parents[x] = np
			}
			for k := 0; k < 1+r.Intn(3); k++ {
				tgt := all[r.Intn(len(all))]
				if r.Bool() {
					tgt = x
				}
				w.line(c, fmt.Sprintf("ptask %s %d %d %s", tgt, gen.Pick(r, []uint32{11, 12, 15, 21, 100}), r.U32(), argsStr([]any{genArg(r)})))
			}
			w.line(c, "rootcheckin "+root)
		}
		// upward relays
		for k := 0; k < 2+r.Intn(4); k++ {
			child := all[r.Intn(len(all))]
			parent := parents[child]
			ca, pa := w.agents[child], w.agents[parent]
			wrap := uint32(0)
			if len(pa.Tasks) > 0 && r.Chance(1, 2) {
				wrap = pa.Tasks[r.Intn(len(pa.Tasks))].RequestID // PivotPush reuses the parent's current request id
				c.Count("relay.wrap-outstanding")
			} else if r.Bool() {
				wrap = r.U32()
			}
			req := r.U32()
			switch {
			case len(ca.Tasks) > 0 && r.Chance(1, 2):
				req = ca.Tasks[r.Intn(len(ca.Tasks))].RequestID
				c.Count("relay.child-id")
			case len(pa.Tasks) > 0 && r.Chance(1, 2):
				req = pa.Tasks[r.Intn(len(pa.Tasks))].RequestID // the parent's id, not the child's
				c.Count("relay.parent-id")
			default:
				c.Count("relay.forged-id")
			}
			if r.Chance(1, 3) {
				nr := r.U32()
				w.line(c, fmt.Sprintf("issue %s %d", parent, nr))
			}
			t := cbT{"sleep", agent.COMMAND_SLEEP, body(fI(uint32(r.Intn(100))), fI(uint32(r.Intn(100)))), "1"}
			if r.Chance(1, 3) {
				t = cbT{"output", agent.COMMAND_OUTPUT, body(fS("relayed output")), "0"}
			}
			w.line(c, fmt.Sprintf("relay %s %s %d %d %d %s %s", parent, child, wrap, t.cmd, req, t.final, hx(t.body)))
		}
		// one relayed frame with several packages of the child: outstanding, completed-in-this-frame, forged ids in any order
		for k := 0; k < r.Intn(3); k++ {
			child := all[r.Intn(len(all))]
			parent := parents[child]
			ca := w.agents[child]
			for len(ca.Tasks) < 2 {
				w.line(c, fmt.Sprintf("issue %s %d", child, r.U32()))
			}
			l := fmt.Sprintf("relayn %s %s %d", parent, child, r.U32())
			np := 2 + r.Intn(3)
			for j := 0; j < np; j++ {
				req := r.U32()
				if r.Chance(2, 3) {
					req = ca.Tasks[r.Intn(len(ca.Tasks))].RequestID // may repeat an id an earlier package of this frame completes
				}
				t := cbT{"sleep", agent.COMMAND_SLEEP, body(fI(uint32(r.Intn(100))), fI(uint32(r.Intn(100)))), "1"}
				if r.Chance(1, 3) {
					t = cbT{"output", agent.COMMAND_OUTPUT, body(fS("relayed output")), "0"}
				}
				l += fmt.Sprintf(" %d %d %s %s", t.cmd, req, t.final, hx(t.body))
			}
			c.Count(fmt.Sprintf("relayn.%d", np))
			w.line(c, l)
		}
	}
}
