package main

// C11 — operators get the full event stream in order; a dead one blocks nobody.
// Real websocket operators against the real teamserver: logins at every point of a history
// of recorded / one-shot / excluded broadcasts, operator chat, listener add + remove,
// agent registrations and deaths; connections cut abruptly, closed, or stalled (the client
// stops reading while large events are broadcast).  After every operation: the frames each
// connection received, in order, and the retained event log.

import (
	"encoding/json"
	"fmt"
	"strconv"
	"strings"
	"sync"
	"time"

	server "Havoc/cmd/server"
	"Havoc/pkg/handlers"
	"Havoc/pkg/packager"

	"github.com/gorilla/websocket"

	"verifharness/internal/gen"
)

func init() { commands["C11"] = runC11 }

type c11World struct {
	*sysWorld
	names []string
	nreg  uint32
}

func (w *c11World) retained() string {
	var out []string
	for _, pk := range w.ts.EventsList {
		b, _ := json.Marshal(pk)
		out = append(out, frameSummary(b))
	}
	if len(out) == 0 {
		return "-"
	}
	return strings.Join(out, ",")
}

func (w *c11World) state() string {
	n := 0
	w.ts.Clients.Range(func(k, v any) bool { n++; return true })
	return fmt.Sprintf("clients=%d retained=%s", n, w.retained())
}

// clientID of a harness connection: the entry of the client table with our local address
func (w *c11World) clientID(name string) string {
	wc := w.conns[name]
	if wc == nil {
		return ""
	}
	id := ""
	w.ts.Clients.Range(func(k, v any) bool {
		if cl, ok := v.(*server.Client); ok && cl.GlobalIP == wc.c.LocalAddr().String() {
			id = k.(string)
			return false
		}
		return true
	})
	return id
}

func chatPackage(marker string, oneTime bool, pad int) packager.Package {
	var pk packager.Package
	pk.Head.Event = packager.Type.Chat.Type
	pk.Head.Time = "t"
	if oneTime {
		pk.Head.OneTime = "true"
	}
	pk.Body.SubEvent = packager.Type.Chat.NewMessage
	pk.Body.Info = map[string]any{"Marker": marker}
	if pad > 0 {
		pk.Body.Info["Pad"] = strings.Repeat("x", pad)
	}
	return pk
}

func (w *c11World) obs(c *Ctx, in string, wait time.Duration) {
	c.Emit("%s => %s %s", in, w.obsAll(w.names, wait), w.state())
}

func (w *c11World) line(c *Ctx, in string) {
	c.Pending(in)
	parts := strings.Fields(in)
	switch parts[0] {
	case "reset":
		// the server may still be working on the last operator message: touch its tables only when it is quiet
		w.quiesce()
		guard(func() string {
			var ls []string
			for _, l := range w.ts.Listeners {
				ls = append(ls, l.Name)
			}
			for _, l := range ls {
				w.ts.ListenerRemove(l)
			}
			return ""
		})
		for _, a := range w.ts.Agents.Agents {
			if id, err := strconv.ParseUint(a.NameID, 16, 32); err == nil {
				w.ts.DB.AgentRemove(int(id))
			}
		}
		w.resetVolatile()
		w.names = nil
		w.nreg = 0
		c.Emit("reset")
		T := packager.Type
		c.Emit("world success=%d.%d/Successful_Authenticated chat=%d.%d useron=%d.%d useroff=%d.%d ladd=%d.%d lremove=%d.%d session=%d.%d mark=%d.%d agentbase=%d",
			T.InitConnection.Type, T.InitConnection.Success, T.Chat.Type, T.Chat.NewMessage, T.Chat.Type, T.Chat.NewUser, T.Chat.Type, T.Chat.UserDisconnected,
			T.Listener.Type, T.Listener.Add, T.Listener.Type, T.Listener.Remove, T.Session.Type, T.Session.NewSession, T.Session.Type, T.Session.MarkAsDead, 0x00c11000)
	case "world": // emitted by reset; a replayed copy is skipped
	case "conn": // conn <name>
		wc, err := w.dial("havoc/")
		if err != nil {
			c.Emit("%s => DIALERR", in)
			return
		}
		w.conns[parts[1]] = wc
		w.names = append(w.names, parts[1])
		w.obs(c, in, ms(25))
	case "login": // login <name> <user>
		pw := map[string]string{"alice": "pw-alice", "bob": "pw-bob", "carol": "pw-carol"}[parts[2]]
		if wc := w.conns[parts[1]]; wc != nil {
			wc.c.WriteMessage(websocket.TextMessage, []byte(loginJSON(parts[2], pwHash(pw), packager.Type.InitConnection.Type, packager.Type.InitConnection.OAuthRequest, "")))
		}
		w.obs(c, in, ms(45))
	case "record": // record <marker> <onetime 0|1|v:<text>> <except name|->  — EventAppend + EventBroadcast, as every server-side event does
		pk := chatPackage(parts[1], parts[2] == "1", 0)
		if strings.HasPrefix(parts[2], "v:") { // any other spelling of the one-shot flag: only "true" means one-shot
			pk.Head.OneTime = parts[2][2:]
		}
		ex := ""
		if parts[3] != "-" {
			ex = w.clientID(parts[3])
		}
		r := guardT(4*time.Second, func() string {
			w.ts.EventAppend(pk)
			w.ts.EventBroadcast(ex, pk)
			return "done"
		})
		c.Emit("%s => call=%s %s %s", in, r, w.obsAll(w.names, ms(30)), w.state())
	case "flood": // flood <marker> <count> <kb>: <count> one-shot broadcasts of <kb> KiB each (fills the buffers of a stalled client)
		var cnt, kb int
		fmt.Sscan(parts[2], &cnt)
		fmt.Sscan(parts[3], &kb)
		r := guardT(70*time.Second, func() string { // every stalled operator costs one write deadline (15 s)
			for i := 0; i < cnt; i++ {
				pk := chatPackage(fmt.Sprintf("%s.%d", parts[1], i), true, kb*1024)
				w.ts.EventAppend(pk)
				w.ts.EventBroadcast("", pk)
			}
			return "done"
		})
		w.settle()
		c.Emit("%s => call=%s %s %s", in, r, w.obsAll(w.names, ms(10)), w.state())
	case "slowreplay": // slowreplay <new> <user> <remover> <listener> <marker> <count> <kb>: a newcomer's replay is slow (it does not
		// read for a while); while it is under way another operator removes a listener whose add event is early in the log
		var cnt, kb int
		fmt.Sscan(parts[6], &cnt)
		fmt.Sscan(parts[7], &kb)
		r := guardT(40*time.Second, func() string {
			for i := 0; i < cnt; i++ {
				pk := chatPackage(fmt.Sprintf("%s.%d", parts[5], i), false, kb*1024)
				w.ts.EventAppend(pk)
				w.ts.EventBroadcast("", pk)
			}
			wc, err := w.dial("havoc/")
			if err != nil {
				return "DIALERR"
			}
			wc.pause()
			w.conns[parts[1]] = wc
			w.names = append(w.names, parts[1])
			pw := map[string]string{"alice": "pw-alice", "bob": "pw-bob", "carol": "pw-carol"}[parts[2]]
			wc.c.WriteMessage(websocket.TextMessage, []byte(loginJSON(parts[2], pwHash(pw), packager.Type.InitConnection.Type, packager.Type.InitConnection.OAuthRequest, "")))
			time.Sleep(ms(200))
			if rm := w.conns[parts[3]]; rm != nil {
				rm.c.WriteMessage(websocket.TextMessage, []byte(fmt.Sprintf(`{"Head":{"Event":%d,"User":"x","Time":"t"},"Body":{"SubEvent":%d,"Info":{"Name":%q}}}`,
					packager.Type.Listener.Type, packager.Type.Listener.Remove, parts[4])))
			}
			time.Sleep(ms(200))
			wc.resume()
			return "done"
		})
		w.settle()
		c.Emit("%s => call=%s %s %s", in, r, w.obsAll(w.names, ms(10)), w.state())
	case "cutburst": // cutburst <name> <marker> <k>: the transport is cut and k events are recorded at once, before the server has noticed
		var k int
		fmt.Sscan(parts[3], &k)
		for _, n := range strings.Split(parts[1], "+") { // one operator, or several at the same moment
			if wc := w.conns[n]; wc != nil {
				wc.c.UnderlyingConn().Close()
			}
		}
		r := guardT(20*time.Second, func() string {
			for i := 0; i < k; i++ {
				pk := chatPackage(fmt.Sprintf("%s.%d", parts[2], i), false, 0)
				w.ts.EventAppend(pk)
				w.ts.EventBroadcast("", pk)
			}
			return "done"
		})
		w.settle()
		c.Emit("%s => call=%s %s %s", in, r, w.obsAll(w.names, ms(10)), w.state())
	case "burst": // burst <marker> <g> <k>: g goroutines record k events each, concurrently
		var g, k int
		fmt.Sscan(parts[2], &g)
		fmt.Sscan(parts[3], &k)
		r := guardT(20*time.Second, func() string {
			var wg sync.WaitGroup
			for gi := 0; gi < g; gi++ {
				wg.Add(1)
				go func(gi int) {
					defer wg.Done()
					for i := 0; i < k; i++ {
						pk := chatPackage(fmt.Sprintf("%s.%d.%d", parts[1], gi, i), false, 0)
						w.ts.EventAppend(pk)
						w.ts.EventBroadcast("", pk)
					}
				}(gi)
			}
			wg.Wait()
			return "done"
		})
		w.settle()
		c.Emit("%s => call=%s %s %s", in, r, w.obsAll(w.names, ms(10)), w.state())
	case "chat": // chat <name> <marker>: an authenticated operator sends a chat message
		if wc := w.conns[parts[1]]; wc != nil {
			wc.c.WriteMessage(websocket.TextMessage, []byte(fmt.Sprintf(`{"Head":{"Event":%d,"User":"x","Time":"t"},"Body":{"SubEvent":%d,"Info":{"Marker":%q}}}`,
				packager.Type.Chat.Type, packager.Type.Chat.NewMessage, parts[2])))
		}
		w.obs(c, in, ms(35))
	case "ladd": // ladd <name> <listener>: operator adds an SMB pivot listener
		if wc := w.conns[parts[1]]; wc != nil {
			wc.c.WriteMessage(websocket.TextMessage, []byte(fmt.Sprintf(`{"Head":{"Event":%d,"User":"x","Time":"t"},"Body":{"SubEvent":%d,"Info":{"Name":%q,"Protocol":%q,"PipeName":"p"}}}`,
				packager.Type.Listener.Type, packager.Type.Listener.Add, parts[2], handlers.AGENT_PIVOT_SMB)))
		}
		w.obs(c, in, ms(40))
	case "lnotify": // lnotify <listener>: the listener reports its status (what a service listener does): another add event is recorded
		w.ts.ListenerStartNotify(map[string]any{"Name": parts[1], "Protocol": "x", "Host": "h", "Port": "1", "Error": "", "Status": "Online", "Info": "i"})
		w.obs(c, in, ms(25))
	case "lremove": // lremove <name> <listener>
		if wc := w.conns[parts[1]]; wc != nil {
			wc.c.WriteMessage(websocket.TextMessage, []byte(fmt.Sprintf(`{"Head":{"Event":%d,"User":"x","Time":"t"},"Body":{"SubEvent":%d,"Info":{"Name":%q}}}`,
				packager.Type.Listener.Type, packager.Type.Listener.Remove, parts[2])))
		}
		w.obs(c, in, ms(40))
	case "register": // an agent registers over the (hooked) agent path: NewSession broadcast
		w.nreg++
		id := 0x00c11000 + w.nreg
		r := guardT(4*time.Second, func() string {
			handlers.VerifParseAgentRequest(w.ts, initPackage(id, id, make([]byte, 32), make([]byte, 16), regInfo{Hostname: "h", ProcName: "p"}), "1.1.1.1")
			return "done"
		})
		c.Emit("%s => call=%s %s %s", in, r, w.obsAll(w.names, ms(30)), w.state())
	case "dead": // dead <name> <n>: operator marks the n-th registered agent dead
		var n uint32
		fmt.Sscan(parts[2], &n)
		if wc := w.conns[parts[1]]; wc != nil {
			wc.c.WriteMessage(websocket.TextMessage, []byte(fmt.Sprintf(`{"Head":{"Event":%d,"User":"x","Time":"t"},"Body":{"SubEvent":%d,"Info":{"AgentID":"%08x","Marked":"Dead"}}}`,
				packager.Type.Session.Type, packager.Type.Session.MarkAsDead, 0x00c11000+n)))
		}
		w.obs(c, in, ms(40))
	case "close": // orderly websocket close
		if wc := w.conns[parts[1]]; wc != nil {
			wc.c.WriteControl(websocket.CloseMessage, websocket.FormatCloseMessage(websocket.CloseNormalClosure, ""), time.Now().Add(time.Second))
			wc.c.Close()
		}
		w.obs(c, in, ms(40))
	case "cut": // the transport goes away without a close frame
		if wc := w.conns[parts[1]]; wc != nil {
			wc.c.UnderlyingConn().Close()
		}
		w.obs(c, in, ms(40))
	case "stall": // the client stops reading
		if wc := w.conns[parts[1]]; wc != nil {
			wc.pause()
		}
		w.obs(c, in, ms(10))
	default:
		panic("C11: unknown op " + parts[0])
	}
}

func runC11(c *Ctx) {
	w := &c11World{sysWorld: startSystem("c11")}
	if c.Replay != "" {
		for _, l := range replayLines(c.Replay) {
			w.line(c, l)
		}
		return
	}
	r := c.R
	slowBudget := 3 // slow replays move ~8 MB each: a few per run
	if c.Tier == "thorough" {
		slowBudget = 12
	}
	// two operators stall at the same time while a third one watches: distribution to the third goes on, both are dropped
	w.line(c, "reset")
	for i, u := range []string{"alice", "bob", "carol"} {
		n := string(rune('a' + i))
		w.line(c, "conn "+n)
		w.line(c, "login "+n+" "+u)
	}
	w.line(c, "record m0 0 -")
	w.line(c, "stall a")
	w.line(c, "stall b")
	w.line(c, "flood f0 24 512")
	w.line(c, "record m1 0 -")
	c.Count("prelude.two-stalled")
	for c.Lines < c.N {
		w.line(c, "reset")
		var open []string   // connected, not yet logged in
		var authed []string // logged in and healthy
		var listeners []string
		users := []string{"alice", "bob", "carol"}
		used := map[string]bool{}
		nconn, nreg, mark := 0, 0, 0
		stalled := false
		_ = slowBudget
		doConn := func() {
			n := string(rune('a' + nconn))
			nconn++
			w.line(c, "conn "+n)
			open = append(open, n)
			c.Count("op.conn")
		}
		freeUsers := func() []string {
			var free []string
			for _, u := range users {
				if !used[u] {
					free = append(free, u)
				}
			}
			return free
		}
		doLogin := func() {
			u := gen.Pick(r, freeUsers())
			used[u] = true
			n := open[0]
			open = open[1:]
			w.line(c, fmt.Sprintf("login %s %s", n, u))
			authed = append(authed, n)
			c.Count("op.login")
		}
		// prelude: most histories start with somebody logged in
		if r.Chance(3, 4) {
			doConn()
			doLogin()
			if r.Chance(1, 2) {
				doConn()
				if r.Chance(1, 2) {
					doLogin()
				}
			}
		}
		steps := 6 + r.Intn(14)
		for s := 0; s < steps; s++ {
			type cand struct {
				w  int
				op string
			}
			var cs []cand
			add := func(ok bool, wt int, op string) {
				if ok {
					cs = append(cs, cand{wt, op})
				}
			}
			add(nconn < 4, 2, "conn")
			add(len(open) > 0 && len(freeUsers()) > 0, 3, "login")
			add(true, 4, "record")
			add(len(authed) > 0, 2, "chat")
			add(len(authed) > 0, 3, "ladd")
			add(len(authed) > 0 && len(listeners) > 0, 3, "lremove")
			add(len(authed) > 0 && len(listeners) > 0 && len(freeUsers()) > 0 && !stalled && slowBudget > 0, 2, "slowreplay")
			add(true, 2, "register")
			add(len(authed) > 0 && nreg > 0, 2, "dead")
			add(len(authed) > 0, 2, "leave")
			add(true, 1, "burst")
			add(len(authed) > 1 && !stalled && c.Tier == "thorough", 1, "stall")
			tot := 0
			for _, x := range cs {
				tot += x.w
			}
			pick := r.Intn(tot)
			op := ""
			for _, x := range cs {
				if pick < x.w {
					op = x.op
					break
				}
				pick -= x.w
			}
			switch op {
			case "conn":
				doConn()
			case "login":
				doLogin()
			case "record":
				mark++
				ex := "-"
				if len(authed) > 0 && r.Chance(1, 3) {
					ex = gen.Pick(r, authed)
				}
				one := 0
				if r.Chance(1, 4) {
					one = 1
				}
				ones := fmt.Sprint(one)
				if one == 0 && r.Chance(1, 4) { // the flag is free text from the client: anything but "true" is retained
					ones = "v:" + gen.Pick(r, []string{"True", "TRUE", "1", "t", "T", "false", "0", "yes", "tru", "true1"})
				}
				w.line(c, fmt.Sprintf("record m%d %s %s", mark, ones, ex))
				c.Count(fmt.Sprintf("op.record.onetime%d", one))
			case "chat":
				mark++
				w.line(c, fmt.Sprintf("chat %s c%d", gen.Pick(r, authed), mark))
				c.Count("op.chat")
			case "ladd":
				n := fmt.Sprintf("L%d", r.Intn(3))
				w.line(c, fmt.Sprintf("ladd %s %s", gen.Pick(r, authed), n))
				listeners = append(listeners, n)
				c.Count("op.ladd")
			case "lremove":
				ln := gen.Pick(r, listeners)
				if r.Chance(1, 2) { // status reports of a listener that exists: more add events of it, back to back
					for k := 0; k < 1+r.Intn(2); k++ {
						w.line(c, "lnotify "+ln)
						c.Count("op.lnotify")
					}
				}
				w.line(c, fmt.Sprintf("lremove %s %s", gen.Pick(r, authed), ln))
				c.Count("op.lremove")
			case "register":
				nreg++
				w.line(c, "register")
				c.Count("op.register")
			case "dead":
				w.line(c, fmt.Sprintf("dead %s %d", gen.Pick(r, authed), 1+r.Intn(nreg)))
				c.Count("op.dead")
			case "leave":
				i := r.Intn(len(authed))
				n := authed[i]
				authed = append(authed[:i], authed[i+1:]...)
				how := gen.Pick(r, []string{"close", "cut", "cutburst"})
				if how == "cutburst" {
					mark++
					if len(authed) >= 2 && r.Chance(1, 2) { // two operators go away at the same moment, a third is watching
						j := r.Intn(len(authed))
						n2 := authed[j]
						authed = append(authed[:j], authed[j+1:]...)
						w.line(c, fmt.Sprintf("cutburst %s+%s b%d %d", n, n2, mark, 2+r.Intn(12)))
						c.Count("op.cutburst.two")
					} else {
						w.line(c, fmt.Sprintf("cutburst %s b%d %d", n, mark, 2+r.Intn(12)))
					}
				} else {
					w.line(c, how+" "+n)
				}
				c.Count("op." + how)
			case "slowreplay":
				mark++
				u := freeUsers()[0]
				used[u] = true
				n := string(rune('a' + nconn))
				nconn++
				ln := gen.Pick(r, listeners)
				w.line(c, fmt.Sprintf("slowreplay %s %s %s %s z%d %d 256", n, u, gen.Pick(r, authed), ln, mark, 24+r.Intn(16)))
				slowBudget--
				authed = append(authed, n)
				c.Count("op.slowreplay")
			case "burst":
				mark++
				w.line(c, fmt.Sprintf("burst g%d %d %d", mark, 4+r.Intn(5), 20+r.Intn(40)))
				c.Count("op.burst")
			case "stall":
				// a stalled operator: stops reading, then large one-shot events are broadcast
				i := r.Intn(len(authed))
				n := authed[i]
				authed = append(authed[:i], authed[i+1:]...)
				w.line(c, "stall "+n)
				w.line(c, fmt.Sprintf("flood f%d 40 512", mark))
				stalled = true
				c.Count("op.stall")
			}
		}
	}
}
