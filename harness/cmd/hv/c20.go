package main

// C20 — rewriting a configuration file never damages it.
// Source files are generated (attributes with numbers, strings, templates, heredocs, lists,
// traversals; nested and labelled blocks; #, // and /* */ comments; blank lines; odd spacing and
// tabs), loaded into the real hclwrite, and
//   * serialised again (File.Bytes) — compared with the input,
//   * formatted (hclwrite.Format) — token text, idempotence, tree and values compared,
//   * edited by a generated sequence of SetAttributeValue / RemoveAttribute / AppendNewBlock /
//     RemoveBlock calls on bodies addressed by block-index paths; the output is re-parsed by
//     hclsyntax and dumped as an event list (comments, attributes, blocks in source order).

import (
	"bytes"
	"fmt"
	"os"
	"sort"
	"strconv"
	"strings"

	hcl "Havoc/pkg/profile/yaotl"
	"Havoc/pkg/profile/yaotl/hclsyntax"
	"Havoc/pkg/profile/yaotl/hclwrite"

	"github.com/zclconf/go-cty/cty"

	"verifharness/internal/gen"
)

func init() { commands["C20"] = runC20 }

// ---- events of a source text (what re-parsing shows) ----

type ev struct {
	pos int
	s   string
}

func exprCanon(e hclsyntax.Expression, src []byte) string {
	v, d := e.Value(nil)
	if !d.HasErrors() && v.IsWhollyKnown() {
		return "v" + valStr(v)
	}
	r := e.Range()
	toks, _ := hclsyntax.LexExpression(src[r.Start.Byte:r.End.Byte], "", hcl.InitialPos)
	var b []byte
	for _, t := range toks {
		if t.Type == hclsyntax.TokenEOF {
			continue
		}
		b = append(b, t.Bytes...)
	}
	return "t" + hx(b)
}

// a comment token with its role: L = lead comment of the item that follows (no blank line between),
// T = on the line where the previous item ends, C = on its own
type c20Comment struct {
	tok  hclsyntax.Token
	kind string
}

func bodyEvents(b *hclsyntax.Body, src []byte, comments []c20Comment, lo, hi int) string {
	var evs []ev
	for _, a := range b.Attributes {
		evs = append(evs, ev{a.SrcRange.Start.Byte, "A" + a.Name + "=" + exprCanon(a.Expr, src)})
	}
	type span struct{ lo, hi int }
	var childSpans []span
	for _, bl := range b.Blocks {
		var ls []string
		for _, l := range bl.Labels {
			ls = append(ls, hx([]byte(l)))
		}
		r := bl.Range()
		inner := bodyEvents(bl.Body, src, comments, bl.OpenBraceRange.End.Byte, bl.CloseBraceRange.Start.Byte)
		evs = append(evs, ev{r.Start.Byte, "B" + bl.Type + "[" + strings.Join(ls, ",") + "]{" + inner + "}"})
		childSpans = append(childSpans, span{bl.OpenBraceRange.End.Byte, bl.CloseBraceRange.Start.Byte})
	}
	// a comment between the tokens of an attribute (name … value) or of a block header (type … "{") belongs to that
	// item: it goes when the item goes and is not an item of its own
	for _, a := range b.Attributes {
		childSpans = append(childSpans, span{a.SrcRange.Start.Byte, a.SrcRange.End.Byte})
	}
	for _, bl := range b.Blocks {
		childSpans = append(childSpans, span{bl.Range().Start.Byte, bl.OpenBraceRange.Start.Byte})
		// ... and so does a comment behind the closing brace, on its line
		e := bl.CloseBraceRange.End.Byte
		eol := e
		for eol < len(src) && src[eol] != '\n' {
			eol++
		}
		childSpans = append(childSpans, span{e, eol + 1})
	}
	for _, c := range comments {
		p := c.tok.Range.Start.Byte
		if p < lo || p >= hi {
			continue
		}
		inChild := false
		for _, s := range childSpans {
			if p >= s.lo && p < s.hi {
				inChild = true
			}
		}
		if !inChild {
			evs = append(evs, ev{p, c.kind + hx(bytes.TrimRight(c.tok.Bytes, "\r\n"))})
		}
	}
	sort.Slice(evs, func(i, j int) bool { return evs[i].pos < evs[j].pos })
	var out []string
	for _, e := range evs {
		out = append(out, e.s)
	}
	return strings.Join(out, ",")
}

func eventsOf(src []byte) string {
	return guard(func() string {
		f, diags := hclsyntax.ParseConfig(src, "x.hcl", hcl.InitialPos)
		if diags.HasErrors() {
			return "SYNTAXERR:" + hx([]byte(diags[0].Summary))
		}
		toks, _ := hclsyntax.LexConfig(src, "x.hcl", hcl.InitialPos)
		var comments []c20Comment
		for i, t := range toks {
			if t.Type != hclsyntax.TokenComment {
				continue
			}
			kind := "C"
			// on the line of the previous item? (the previous token is not a newline / comment-with-newline / brace)
			if i > 0 {
				pt := toks[i-1]
				endsLine := pt.Type == hclsyntax.TokenNewline || (pt.Type == hclsyntax.TokenComment && bytes.HasSuffix(pt.Bytes, []byte("\n"))) || pt.Type == hclsyntax.TokenOBrace
				if !endsLine {
					kind = "T"
				}
			}
			if kind == "C" {
				j := i + 1
				for j < len(toks) && toks[j].Type == hclsyntax.TokenComment {
					j++
				}
				if j < len(toks) && toks[j].Type == hclsyntax.TokenIdent {
					kind = "L"
				}
			}
			comments = append(comments, c20Comment{t, kind})
		}
		return "{" + bodyEvents(f.Body.(*hclsyntax.Body), src, comments, 0, len(src)+1) + "}"
	})
}

func tokenText(src []byte) string {
	toks, _ := hclsyntax.LexConfig(src, "x.hcl", hcl.InitialPos)
	var parts []string
	for _, t := range toks {
		switch t.Type {
		case hclsyntax.TokenEOF:
			continue
		case hclsyntax.TokenComment:
			// the indentation in front of a continuation line of a block comment is spacing too
			parts = append(parts, hx(t.Bytes))
		default:
			parts = append(parts, hx(t.Bytes))
		}
	}
	return strings.Join(parts, ".")
}

// ---- generated source ----

type c20Item struct {
	attr     bool
	name     string // attribute name / block type
	valSrc   string
	labels   []string
	body     []*c20Item
	lead     []string // comment lines in front
	trailing string   // comment after the value on the same line
	blank    bool     // a blank line in front
}

type c20Gen struct {
	r   *gen.Rng
	uid int
}

func (g *c20Gen) value() string {
	r := g.r
	if r.Chance(1, 3) { // any expression of the grammar (single line), every kind of index key and traversal
		for k := 0; k < 4; k++ {
			v := exprSrc(r, 1+r.Intn(3))
			if strings.Contains(v, "\n") {
				continue
			}
			// the grammar also emits some malformed text on purpose (for the parsers' robustness); a file for the writer must be valid
			if _, d := hclsyntax.ParseExpression([]byte(v), "v.hcl", hcl.InitialPos); !d.HasErrors() {
				if _, d2 := hclsyntax.ParseConfig([]byte("a = "+v+"\n"), "v.hcl", hcl.InitialPos); !d2.HasErrors() {
					return v
				}
			}
		}
	}
	switch r.Intn(12) {
	case 0:
		return fmt.Sprint(r.Intn(1000))
	case 1:
		return gen.Pick(r, []string{"true", "false", "null"})
	case 2:
		return quoteHCL(gen.Pick(r, []string{"", "plain", "two words", "q\"uote", "back\\slash", "tab\there", "ünï"}))
	case 3:
		return `"pre-${var.x}-post"`
	case 4:
		return `"${var.y}"`
	case 5:
		return "[1, 2,3]"
	case 6:
		return `["a",  "b"]`
	case 7:
		return "var.name.attr"
	case 8:
		return `{ a = 1, b = "two" }`
	case 9:
		return "<<EOT\nhello\n  world ${var.z}\nEOT"
	case 10:
		return "1 + 2*3"
	default:
		return gen.Pick(r, []string{"<<-EOT\n    indented\n    ${var.q} text\n  EOT", "<<EOT\n${var.first}\nEOT", "upper(var.s)", "[for x in var.l : x]", `"%{ if var.c }yes%{ endif }"`})
	}
}

func (g *c20Gen) comment() string {
	return gen.Pick(g.r, []string{"# hash comment", "// slash comment", "#no-space", "# with \"quote\" and = sign", "/* inline block comment */"})
}

func (g *c20Gen) items(depth int) []*c20Item {
	r := g.r
	n := r.Intn(5)
	if depth == 0 {
		n = 1 + r.Intn(5)
	}
	var out []*c20Item
	for i := 0; i < n; i++ {
		g.uid++
		it := &c20Item{blank: r.Chance(1, 4)}
		for k := 0; k < r.Intn(3); k++ {
			if r.Chance(1, 2) {
				it.lead = append(it.lead, g.comment())
			}
		}
		if r.Chance(2, 3) || depth >= 2 {
			it.attr = true
			it.name = fmt.Sprintf("%s%d", gen.Pick(r, []string{"a", "name", "long_attribute", "x-y"}), g.uid)
			if r.Chance(1, 20) { // the formatter aligns the equals signs of neighbouring attributes
				it.name = "n" + strings.Repeat(gen.Pick(r, []string{"_very_long", "x", "-y"}), 5+r.Intn(12)) + strconv.Itoa(g.uid)
			}
			it.valSrc = g.value()
			if r.Chance(1, 4) && !strings.Contains(it.valSrc, "\n") {
				it.trailing = gen.Pick(r, []string{"# trailing", "// t2"})
			}
		} else {
			it.name = gen.Pick(r, []string{"block", "resource", "b"})
			for k := 0; k < r.Intn(3); k++ {
				it.labels = append(it.labels, gen.Pick(r, []string{"l1", "two words", "x"}))
			}
			it.body = g.items(depth + 1)
			if depth == 0 && r.Chance(1, 30) { // nesting deeper than the formatter's prepared indentation
				inner := it
				for k := 0; k < 18+r.Intn(12); k++ {
					g.uid++
					nb := &c20Item{name: "b"}
					inner.body = append(inner.body, nb)
					inner = nb
				}
				g.uid++
				inner.body = []*c20Item{{attr: true, name: fmt.Sprintf("deep%d", g.uid), valSrc: "1"}}
			}
		}
		out = append(out, it)
	}
	return out
}

func (g *c20Gen) write(items []*c20Item, ind string, sb *strings.Builder) {
	r := g.r
	ws := func() string {
		if r.Chance(1, 10) { // an inline comment is allowed between any two tokens of a header or an attribute
			return gen.Pick(r, []string{" /* c */ ", "/**/", " /* two words */ "})
		}
		if r.Chance(1, 25) { // a wide gap
			return strings.Repeat(gen.Pick(r, []string{" ", " ", "\t"}), 38+r.Intn(90))
		}
		return gen.Pick(r, []string{" ", " ", "  ", "\t", " \t "})
	}
	for _, it := range items {
		if it.blank {
			sb.WriteString("\n")
		}
		for _, c := range it.lead {
			sb.WriteString(ind + c + "\n")
		}
		if it.attr {
			sb.WriteString(ind + it.name + ws() + "=" + ws() + it.valSrc)
			if it.trailing != "" {
				sb.WriteString(gen.Pick(r, []string{" ", "  ", "\t"}) + it.trailing)
			}
			sb.WriteString("\n")
		} else {
			sb.WriteString(ind + it.name)
			for _, l := range it.labels {
				sb.WriteString(ws() + quoteHCL(l))
			}
			sb.WriteString(ws() + "{\n")
			g.write(it.body, ind+gen.Pick(r, []string{"  ", "    ", "\t", ""}), sb)
			sb.WriteString(ind + "}")
			if r.Chance(1, 6) { // a comment behind the closing brace, on its line
				sb.WriteString(gen.Pick(r, []string{" ", "", "\t"}) + gen.Pick(r, []string{"/* end */", "# end", "// end", "/* a */ /* b */", "/* end */ # and more"}))
			}
			sb.WriteString("\n")
		}
	}
}

// ---- edits ----

func bodyAt(f *hclwrite.File, path []int) *hclwrite.Body {
	b := f.Body()
	for _, i := range path {
		bl := b.Blocks()
		if i >= len(bl) {
			return nil
		}
		b = bl[i].Body()
	}
	return b
}

func parsePath(s string) []int {
	if s == "-" || s == "" {
		return nil
	}
	var out []int
	for _, p := range strings.Split(s, ".") {
		n, _ := strconv.Atoi(p)
		out = append(out, n)
	}
	return out
}

func c20Value(s string) cty.Value {
	switch {
	case strings.HasPrefix(s, "n"):
		if v, err := cty.ParseNumberVal(s[1:]); err == nil { // any size, negative too
			return v
		}
		n, _ := strconv.Atoi(s[1:])
		return cty.NumberIntVal(int64(n))
	case s == "t":
		return cty.True
	case s == "f":
		return cty.False
	case strings.HasPrefix(s, "s"):
		return cty.StringVal(string(unhx(orDash(s[1:]))))
	case strings.HasPrefix(s, "l"):
		var vs []cty.Value
		for _, p := range strings.Split(s[1:], "+") {
			if p != "" {
				vs = append(vs, cty.StringVal(string(unhx(p))))
			}
		}
		if len(vs) == 0 {
			return cty.EmptyTupleVal
		}
		return cty.TupleVal(vs)
	}
	return cty.NullVal(cty.DynamicPseudoType)
}

func c20Line(c *Ctx, in string) {
	c.Pending(in)
	parts := strings.Fields(in)
	if parts[0] == "reset" {
		c.Emit("reset")
		return
	}
	m := kvs(parts[1:])
	src := unhx(m["src"])
	res := guard(func() string {
		f, diags := hclwrite.ParseConfig(src, "x.hcl", hcl.InitialPos)
		if diags.HasErrors() {
			return "PARSEERR"
		}
		// 1. serialising the untouched file
		// the unformatted token stream (a tab between tokens counts as one space)
		out0 := f.BuildTokens(nil).Bytes()
		same := bytes.Equal(out0, src) || bytes.Equal(detab(out0), detab(src))
		fbytes := bytes.Equal(f.Bytes(), hclwrite.Format(src))
		// 2. formatting
		fm := hclwrite.Format(src)
		fm2 := hclwrite.Format(fm)
		fmtRes := fmt.Sprintf("fbytes=%v idem=%v toks=%v tree=%v", fbytes, bytes.Equal(fm, fm2), tokenTextNoSpace(src) == tokenTextNoSpace(fm), eventsOf(src) == eventsOf(fm))
		// 3. edits
		ops := "-"
		if m["ops"] != "-" && m["ops"] != "" {
			var done []string
			for _, op := range strings.Split(m["ops"], ";") {
				p := strings.Split(op, ":")
				b := bodyAt(f, parsePath(p[1]))
				if b == nil {
					done = append(done, "nobody")
					continue
				}
				switch p[0] {
				case "set":
					if strings.HasPrefix(p[3], "r") { // a reference: SetAttributeTraversal
						names := strings.Split(string(unhx(p[3][1:])), ".")
						tr := hcl.Traversal{hcl.TraverseRoot{Name: names[0]}}
						for _, n := range names[1:] {
							tr = append(tr, hcl.TraverseAttr{Name: n})
						}
						b.SetAttributeTraversal(p[2], tr)
					} else {
						b.SetAttributeValue(p[2], c20Value(p[3]))
					}
					done = append(done, "ok")
				case "rm":
					if b.RemoveAttribute(p[2]) != nil {
						done = append(done, "ok")
					} else {
						done = append(done, "absent")
					}
				case "addblock":
					var ls []string
					if p[3] != "" {
						for _, l := range strings.Split(p[3], "+") {
							ls = append(ls, string(unhx(l)))
						}
					}
					b.AppendNewBlock(p[2], ls)
					done = append(done, "ok")
				case "rmblock":
					i, _ := strconv.Atoi(p[2])
					bl := b.Blocks()
					if i < len(bl) && b.RemoveBlock(bl[i]) {
						done = append(done, "ok")
					} else {
						done = append(done, "absent")
					}
				}
			}
			ops = strings.Join(done, ",")
		}
		out := f.Bytes()
		if os.Getenv("VERIF_DEBUG") != "" {
			fmt.Fprintf(os.Stderr, "OUT0=%q\nOUT=%q\n", out0, out)
		}
		return fmt.Sprintf("same=%v %s ops=%s in=%s out=%s", same, fmtRes, ops, eventsOf(src), eventsOf(out))
	})
	c.Emit("%s => %s", in, res)
}

// detab: the spacing between two tokens on a line is kept as a count of blanks
func detab(b []byte) []byte { return bytes.ReplaceAll(b, []byte("\t"), []byte(" ")) }

func tokenTextNoSpace(src []byte) string {
	toks, _ := hclsyntax.LexConfig(src, "x.hcl", hcl.InitialPos)
	var b []byte
	for _, t := range toks {
		if t.Type == hclsyntax.TokenEOF {
			continue
		}
		bs := t.Bytes
		if t.Type == hclsyntax.TokenComment {
			// leading blanks of the continuation lines of a block comment are indentation
			var ls [][]byte
			for _, l := range bytes.Split(bs, []byte("\n")) {
				ls = append(ls, bytes.TrimLeft(l, " \t"))
			}
			bs = bytes.Join(ls, []byte("\n"))
		}
		b = append(b, bs...)
		b = append(b, 0)
	}
	return string(b)
}

func runC20(c *Ctx) {
	if c.Replay != "" {
		for _, l := range replayLines(c.Replay) {
			c20Line(c, l)
		}
		return
	}
	r := c.R
	for c.Lines < c.N {
		g := &c20Gen{r: r}
		items := g.items(0)
		var sb strings.Builder
		g.write(items, "", &sb)
		src := sb.String()
		if r.Chance(1, 8) && !strings.HasSuffix(src, "EOT\n") {
			src = strings.TrimSuffix(src, "\n") // no newline at the end of the file
			c.Count("file.no-final-newline")
		}
		// edits addressed by block-index paths of the ORIGINAL tree; the model tracks the indices
		var ops []string
		nops := r.Intn(5)
		var paths [][]int
		var walk func(its []*c20Item, p []int)
		walk = func(its []*c20Item, p []int) {
			paths = append(paths, append([]int{}, p...))
			bi := 0
			for _, it := range its {
				if !it.attr {
					walk(it.body, append(p, bi))
					bi++
				}
			}
		}
		walk(items, nil)
		var attrNames func(its []*c20Item) []string
		attrNames = func(its []*c20Item) []string {
			var out []string
			for _, it := range its {
				if it.attr {
					out = append(out, it.name)
				} else {
					out = append(out, attrNames(it.body)...)
				}
			}
			return out
		}
		names := append(attrNames(items), "fresh", "fresh2")
		// strings for set values and labels: template markers after ASCII and non-ASCII text, lone $ % {, quotes, backslashes
		composed := func(nl bool) string {
			parts := []string{"a", "é", "€", "日本", "${x}", "%{y}", "${", "%{", "$", "%", "{", "}", "$$", "%%", "$${", "\"", "\\", " ", "x y", "\t"}
			if nl {
				parts = append(parts, "\n")
			}
			var b strings.Builder
			for i := 0; i < 1+r.Intn(4); i++ {
				b.WriteString(gen.Pick(r, parts))
			}
			return b.String()
		}
		for k := 0; k < nops; k++ {
			p := gen.Pick(r, paths)
			var ps []string
			for _, i := range p {
				ps = append(ps, strconv.Itoa(i))
			}
			path := "-"
			if len(ps) > 0 {
				path = strings.Join(ps, ".")
			}
			switch r.Intn(8) {
			case 0, 1, 2:
				v := gen.Pick(r, []string{"n7", "n0", "n-3", "n9223372036854775807", "n9223372036854775808", "n18446744073709551615", "n-9223372036854775809", "n123456789012345678901234567890", "t", "f", "s" + hx([]byte("new value")), "s" + hx([]byte("q\"uote")), "s-", "l" + hx([]byte("a")) + "+" + hx([]byte("b")), "l"})
				if r.Chance(1, 3) {
					v = "s" + hx([]byte(composed(true)))
				} else if r.Chance(1, 4) { // a reference instead of a value (SetAttributeTraversal); later edits hit the same attribute
					v = "r" + hx([]byte(gen.Pick(r, []string{"var.name", "local.x.y", "a", "module.m.out.id"})))
				}
				ops = append(ops, "set:"+path+":"+gen.Pick(r, names)+":"+v)
				c.Count("op.set")
			case 3, 4:
				ops = append(ops, "rm:"+path+":"+gen.Pick(r, names))
				c.Count("op.rm")
			case 5, 6:
				ls := gen.Pick(r, []string{"", hx([]byte("lbl")), hx([]byte("two words")) + "+" + hx([]byte("x"))})
				if r.Chance(1, 3) {
					ls = hx([]byte(composed(false)))
					if r.Bool() {
						ls += "+" + hx([]byte(composed(false)))
					}
				}
				ops = append(ops, "addblock:"+path+":"+gen.Pick(r, []string{"added", "block"})+":"+ls)
				c.Count("op.addblock")
			default:
				ops = append(ops, "rmblock:"+path+":"+strconv.Itoa(r.Intn(3)))
				c.Count("op.rmblock")
			}
		}
		opss := "-"
		if len(ops) > 0 {
			opss = strings.Join(ops, ";")
		}
		c20Line(c, fmt.Sprintf("edit ops=%s src=%s", opss, hx([]byte(src))))
	}
}
