package main

// C03 part 2 — registrations, re-registrations and check-ins against a real
// server.Teamserver (temp SQLite DB), through handlers.parseAgentRequest.

import (
	"encoding/binary"
	"fmt"
	"strconv"
	"strings"

	"Havoc/pkg/agent"
	"Havoc/pkg/handlers"

	"verifharness/internal/gen"
)

var c03w *realWorld

func sessObs(w *realWorld) string {
	if len(w.ts.Agents.Agents) == 0 {
		return "-"
	}
	var ss []string
	for _, a := range w.ts.Agents.Agents {
		i := a.Info
		ss = append(ss, strings.Join([]string{a.NameID, hx(a.Encryption.AESKey), hx(a.Encryption.AESIv), hx([]byte(i.Hostname)),
			hx([]byte(i.Username)), hx([]byte(i.DomainName)), hx([]byte(i.InternalIP)), hx([]byte(i.ProcessPath)),
			strconv.FormatUint(uint64(uint32(i.ProcessPID)), 10), strconv.FormatUint(uint64(uint32(i.ProcessTID)), 10),
			strconv.FormatUint(uint64(uint32(i.ProcessPPID)), 10), strconv.FormatUint(uint64(uint32(i.SleepDelay)), 10),
			strconv.FormatUint(uint64(uint32(i.SleepJitter)), 10), strconv.FormatUint(uint64(i.KillDate), 10),
			strconv.FormatUint(uint64(uint32(i.WorkingHours)), 10), strconv.FormatUint(uint64(i.BaseAddress), 10)}, "/"))
	}
	return strings.Join(ss, ";")
}

// c03sLine handles the stateful session ops.
//
//	sreset
//	sreg <hdr> <ks> <buf> <inner> <info-fields>      buf = bytes after [cmd][req] of a DEMON_INIT request
//	sraw <hdr> <ks> <buf>                             same, no structured meaning
//	sget <id>                                         plain COMMAND_GET_JOB check-in
//	schk <id> <ks> <req> <body> <inner> <info-fields> COMMAND_CHECKIN callback (req is made outstanding first)
func c03sLine(c *Ctx, in string) {
	parts := strings.Fields(in)
	switch parts[0] {
	case "sreset":
		c03w.close()
		c03w = newRealWorld("c03")
		c.Emit("reset")
		return
	}
	w := c03w
	id64, _ := strconv.ParseUint(parts[1], 16, 32)
	var req []byte
	switch parts[0] {
	case "sreg", "sraw":
		b := binary.BigEndian.AppendUint32(nil, demonMagic)
		b = binary.BigEndian.AppendUint32(b, uint32(id64))
		b = binary.BigEndian.AppendUint32(b, agent.DEMON_INIT)
		b = binary.BigEndian.AppendUint32(b, 0)
		b = append(b, unhx(parts[3])...)
		req = append(binary.BigEndian.AppendUint32(nil, uint32(len(b))), b...)
	case "sget":
		a := w.ts.AgentInstance(int(id64))
		if a == nil {
			c.Emit("%s => NOAGENT sessions=%s", in, sessObs(w))
			return
		}
		req = demonRequest(uint32(id64), a.Encryption.AESKey, a.Encryption.AESIv, []dpkg{{cmd: agent.COMMAND_GET_JOB, nobody: true}})
	case "schk":
		a := w.ts.AgentInstance(int(id64))
		if a == nil {
			c.Emit("%s => NOAGENT sessions=%s", in, sessObs(w))
			return
		}
		r64, _ := strconv.ParseUint(parts[3], 10, 32)
		a.AddRequest(agent.Job{Command: agent.COMMAND_CHECKIN, RequestID: uint32(r64)})
		req = demonRequest(uint32(id64), a.Encryption.AESKey, a.Encryption.AESIv,
			[]dpkg{{cmd: agent.COMMAND_CHECKIN, req: uint32(r64), body: unhx(parts[4])}})
	case "sdie": // sdie <id> exit|mark: the session goes inactive - the agent reports that it exits, or an operator marks it dead
		a := w.ts.AgentInstance(int(id64))
		if a == nil {
			c.Emit("%s => NOAGENT sessions=%s", in, sessObs(w))
			return
		}
		if parts[2] == "mark" {
			out := guard(func() string {
				a.Active = false
				a.Reason = "marked dead"
				w.ts.AgentUpdate(a)
				return "ok sessions=" + sessObs(w)
			})
			c.Emit("%s => %s", in, out)
			return
		}
		a.AddRequest(agent.Job{Command: agent.COMMAND_EXIT, RequestID: 0x0e17})
		req = demonRequest(uint32(id64), a.Encryption.AESKey, a.Encryption.AESIv,
			[]dpkg{{cmd: agent.COMMAND_EXIT, req: 0x0e17, body: be32b(1)}})
	default:
		panic("C03: unknown session op " + parts[0])
	}
	out := guard(func() string {
		resp, ok := handlers.VerifParseAgentRequest(w.ts, req, "10.9.8.7")
		r := "REJECTED"
		if ok {
			r = hx(resp.Bytes())
		}
		return r + " sessions=" + sessObs(w)
	})
	c.Emit("%s => %s", in, out)
}

func genRegInfo(r *gen.Rng) regInfo {
	str := func() string {
		n := r.Intn(12)
		b := make([]byte, n)
		for i := range b {
			b[i] = byte(0x21 + r.Intn(0x5d))
		}
		if r.Chance(1, 8) {
			return string(b) + "é漢"
		}
		return string(b)
	}
	m := regInfo{Hostname: str(), Username: str(), Domain: str(), IP: fmt.Sprintf("10.%d.%d.%d", r.Intn(256), r.Intn(256), r.Intn(256)),
		ProcName: "C:\\Windows\\" + str() + ".exe", PID: r.U32(), TID: r.U32(), PPID: r.U32(), Arch: uint32(r.Intn(5)), Elevated: uint32(r.Intn(2)),
		Base: r.U64b(), OSArch: uint32(gen.Pick(r, []int{0, 5, 6, 9, 12, 77})), Sleep: uint32(r.Intn(100)), Jitter: uint32(r.Intn(100)),
		KillDate: r.U64b(), WorkingHours: r.U32()}
	m.OS = [5]uint32{uint32(gen.Pick(r, []int{6, 10, 5})), uint32(r.Intn(4)), uint32(r.Intn(3)), uint32(r.Intn(3)), uint32(gen.Pick(r, []int{20348, 17763, 22000, 19045, 7601}))}
	if r.Chance(1, 6) {
		m.ProcName = string(genScalars(r))
	}
	return m
}

func fieldsStr(fs []fld) string {
	var ss []string
	for _, f := range fs {
		ss = append(ss, f.String())
	}
	return strings.Join(ss, ",")
}

// genSessionCase emits one history of registrations / re-registrations / check-ins.
func genSessionCase(c *Ctx) {
	r := c.R
	c03sLine(c, "sreset")
	type known struct {
		id      uint32
		key, iv []byte
	}
	var regs []known
	ids := []uint32{r.U32() | 1, r.U32() | 1, 0x0badf00d, 1, 0xdeadbeef, 0x7fffffff}
	steps := 3 + r.Intn(8)
	for s := 0; s < steps; s++ {
		switch k := r.Intn(10); {
		case k < 5 || len(regs) == 0: // registration (fresh id, or an id already registered)
			id := gen.Pick(r, ids)
			key, iv := r.Bytes(32), r.Bytes(16)
			if r.Chance(1, 8) {
				key = make([]byte, 32)
				c.Count("sreg.zerokey")
			}
			m := genRegInfo(r)
			inner := id
			hdr := id
			switch r.Intn(12) {
			case 0:
				inner = r.U32() // decrypt-check must fail
				c.Count("sreg.inner-mismatch")
			case 1:
				hdr = 0 // header id 0 with some inner id
				c.Count("sreg.hdr0")
			}
			pkt := initPackage(hdr, inner, key, iv, m)
			buf := pkt[20:] // after size, magic, id, cmd, req
			c.Count("sreg")
			c03sLine(c, fmt.Sprintf("sreg %08x %s %s %08x %s", hdr, hx(keystream(key, iv, len(buf)+16)), hx(buf), inner, fieldsStr(m.fields(inner)[1:])))
			regs = append(regs, known{id, key, iv})
		case k < 7: // corrupted / truncated registration payloads
			id := gen.Pick(r, ids)
			key, iv := r.Bytes(32), r.Bytes(16)
			pkt := initPackage(id, id, key, iv, genRegInfo(r))
			buf := append([]byte{}, pkt[20:]...)
			switch r.Intn(3) {
			case 0:
				buf = buf[:r.Intn(len(buf)+1)]
			case 1:
				buf[r.Intn(len(buf))] ^= byte(1 << uint(r.Intn(8)))
			default:
				buf = r.Bytes(r.Intn(120))
			}
			c.Count("sraw")
			ks := []byte{}
			if len(buf) >= 48 {
				ks = keystream(buf[:32], buf[32:48], len(buf)+16)
			}
			c03sLine(c, fmt.Sprintf("sraw %08x %s %s", id, hx(ks), hx(buf)))
		case k < 8:
			if r.Chance(1, 2) { // the session dies (agent exit / operator mark); the same id may come back with DEMON_INIT later
				c.Count("sdie")
				c03sLine(c, fmt.Sprintf("sdie %08x %s", gen.Pick(r, regs).id, gen.Pick(r, []string{"exit", "mark"})))
				continue
			}
			c.Count("sget")
			c03sLine(c, fmt.Sprintf("sget %08x", gen.Pick(r, regs).id))
		default: // COMMAND_CHECKIN callback with fresh metadata (same or different inner id / keys)
			kn := gen.Pick(r, regs)
			m := genRegInfo(r)
			inner := kn.id
			key, iv := kn.key, kn.iv
			switch r.Intn(6) {
			case 0:
				inner = gen.Pick(r, ids) // a check-in claiming another id
				c.Count("schk.other-id")
			case 1:
				key, iv = r.Bytes(32), r.Bytes(16)
				c.Count("schk.new-key")
			}
			bodyb := append(append([]byte{}, key...), iv...)
			bodyb = append(bodyb, encFields(m.fields(inner))...)
			if r.Chance(1, 6) {
				bodyb = bodyb[:48+r.Intn(len(bodyb)-48)]
				c.Count("schk.truncated")
			}
			c.Count("schk")
			c03sLine(c, fmt.Sprintf("schk %08x %s %d %s %08x %s", kn.id, hx(keystream(key, iv, 64)), r.U32(), hx(bodyb), inner, fieldsStr(m.fields(inner)[1:])))
		}
	}
}
