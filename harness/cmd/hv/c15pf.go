package main

// C15, port-forward half: the agent reports a client on a reverse port forward (OPEN), sends what the client
// wrote (READ), the teamserver dials the forward target on the first data, writes to it, relays what the target
// answers as socket-write tasks, and drops the entry when the agent reports the removal.  The forward targets
// are real loopback listeners that can be down at first and come up later.

import (
	"bytes"
	"fmt"
	"io"
	"net"
	"sort"
	"strconv"
	"strings"
	"sync"
	"time"

	"Havoc/pkg/agent"

	"verifharness/internal/mockts"
)

type pfTarget struct {
	port   int
	ln     net.Listener
	mu     sync.Mutex
	got    []byte
	conns  []net.Conn
	closed int // connections on which the target has seen EOF
}

func (t *pfTarget) start() {
	if t.ln != nil {
		return
	}
	ln, err := net.Listen("tcp", fmt.Sprintf("127.0.0.1:%d", t.port))
	if err != nil {
		return
	}
	t.ln = ln
	go func() {
		for {
			cn, err := ln.Accept()
			if err != nil {
				return
			}
			t.mu.Lock()
			t.conns = append(t.conns, cn)
			t.mu.Unlock()
			go func() {
				buf := make([]byte, 4096)
				for {
					n, err := cn.Read(buf)
					t.mu.Lock()
					t.got = append(t.got, buf[:n]...)
					if err != nil {
						t.closed++
						t.mu.Unlock()
						return
					}
					t.mu.Unlock()
				}
			}()
		}
	}()
}

func (t *pfTarget) stop() {
	if t.ln != nil {
		t.ln.Close()
	}
	t.mu.Lock()
	for _, c := range t.conns {
		c.Close()
	}
	t.mu.Unlock()
}

type c15pf struct {
	ts      *mockts.TS
	a       *agent.Agent
	targets map[int]*pfTarget
	seen    int
}

func (w *c15pf) table() string {
	var out []string
	w.a.PortFwdsMtx.Lock()
	for _, p := range w.a.PortFwds {
		st := "closed"
		if p.Conn != nil {
			st = "open"
		}
		out = append(out, fmt.Sprintf("%d:%s", p.SocktID, st))
	}
	w.a.PortFwdsMtx.Unlock()
	sort.Strings(out)
	if len(out) == 0 {
		return "-"
	}
	return strings.Join(out, ",")
}

func (w *c15pf) dispatch(sub uint32, fields ...fld) string {
	return guardT(ms(4000), func() string {
		b := append(be32b(sub), encFields(fields)...)
		req := uint32(0x7000 + len(w.a.Tasks))
		w.a.AddRequest(agent.Job{Command: agent.COMMAND_SOCKET, RequestID: req})
		w.a.TaskDispatch(req, agent.COMMAND_SOCKET, newParser(b), w.ts)
		return "ok"
	})
}

func (w *c15pf) errs() int {
	n := 0
	for _, e := range w.ts.Take() {
		if strings.Contains(e, "Erro") {
			n++
		}
	}
	return n
}

func (w *c15pf) line(c *Ctx, in string) {
	c.Pending(in)
	parts := strings.Fields(in)
	i32 := func(v int) fld { return fld{kind: 'i', u: uint64(uint32(v))} }
	switch parts[0] {
	case "pfreset":
		for _, t := range w.targets {
			t.stop()
		}
		if w.a != nil { // stop the reader goroutines of the previous case
			var ids []int
			w.a.PortFwdsMtx.Lock()
			for _, p := range w.a.PortFwds {
				ids = append(ids, p.SocktID)
			}
			w.a.PortFwdsMtx.Unlock()
			for _, id := range ids {
				w.a.PortFwdClose(id)
			}
		}
		w.ts = mockts.New()
		w.a = newAgent(0x15bb, bytes.Repeat([]byte{5}, 32), bytes.Repeat([]byte{6}, 16))
		w.ts.Agents = append(w.ts.Agents, w.a)
		w.targets = map[int]*pfTarget{}
		w.seen = 0
		c.Emit("pfreset")
	case "pfopen": // pfopen <sid> <up 0|1>
		sid, _ := strconv.Atoi(parts[1])
		if w.targets[sid] == nil {
			w.targets[sid] = &pfTarget{port: freePort()}
		}
		t := w.targets[sid]
		if parts[2] == "1" {
			t.start()
		}
		res := w.dispatch(agent.SOCKET_COMMAND_OPEN, i32(sid), i32(0x0100007f), i32(4444), i32(0x0100007f), i32(t.port))
		c.Emit("%s => res=%s table=%s", in, res, w.table())
	case "pfup": // pfup <sid>: the forward target starts listening now
		sid, _ := strconv.Atoi(parts[1])
		if t := w.targets[sid]; t != nil {
			t.start()
		}
		c.Emit("%s => ok", in)
	case "pfread": // pfread <sid> <data>: the agent relays what the forwarded client wrote
		sid, _ := strconv.Atoi(parts[1])
		w.ts.Take()
		res := w.dispatch(agent.SOCKET_COMMAND_READ, i32(sid), i32(agent.SOCKET_TYPE_CLIENT), i32(1), fld{kind: 'y', data: unhx(parts[2])})
		got := "-"
		if t := w.targets[sid]; t != nil {
			want := len(unhx(parts[2]))
			for k := 0; k < 40; k++ { // what was written arrives within a moment
				t.mu.Lock()
				n := len(t.got)
				t.mu.Unlock()
				if n >= want && k > 1 {
					break
				}
				time.Sleep(ms(5))
			}
			t.mu.Lock()
			if len(t.got) > 0 {
				got = hx(t.got)
			}
			t.mu.Unlock()
		}
		c.Emit("%s => res=%s got=%s errs=%d table=%s", in, res, got, w.errs(), w.table())
	case "pfreply": // pfreply <sid> <data>: the forward target answers and closes its side
		sid, _ := strconv.Atoi(parts[1])
		if t := w.targets[sid]; t != nil {
			t.mu.Lock()
			for _, cn := range t.conns {
				cn.Write(unhx(parts[2]))
				if tc, ok := cn.(*net.TCPConn); ok {
					tc.CloseWrite()
				}
			}
			t.mu.Unlock()
		}
		var outs []string
		for k := 0; k < 60 && len(outs) == 0; k++ {
			time.Sleep(ms(5))
			q := w.a.JobQueue
			for _, j := range q[min(w.seen, len(q)):] {
				if j.Command == agent.COMMAND_SOCKET && len(j.Data) == 3 {
					if d, ok := j.Data[2].([]byte); ok {
						outs = append(outs, fmt.Sprintf("%v:%s", j.Data[1], hx(d)))
					}
				}
			}
			w.seen = len(q)
		}
		o := "-"
		if len(outs) > 0 {
			o = strings.Join(outs, ",")
		}
		c.Emit("%s => jobs=%s", in, o)
	case "pfremove": // pfremove <sid>: the agent reports that the forward's socket is gone
		sid, _ := strconv.Atoi(parts[1])
		before := 0
		if t := w.targets[sid]; t != nil {
			t.mu.Lock()
			before = len(t.conns) - t.closed
			t.mu.Unlock()
		}
		typ := agent.SOCKET_TYPE_REVERSE_PORTFWD // the socket type the agent reports: the forward itself, or (3) a forwarded client's socket
		if len(parts) > 2 {
			typ, _ = strconv.Atoi(parts[2])
		}
		res := w.dispatch(agent.SOCKET_COMMAND_RPORTFWD_REMOVE, i32(sid), i32(typ), i32(0x0100007f), i32(4444), i32(0x0100007f), i32(1))
		left := 0
		if t := w.targets[sid]; t != nil {
			for k := 0; k < 40; k++ {
				t.mu.Lock()
				left = len(t.conns) - t.closed
				t.mu.Unlock()
				if left == 0 {
					break
				}
				time.Sleep(ms(5))
			}
		}
		c.Emit("%s => res=%s live=%d->%d table=%s", in, res, before, left, w.table())
	default:
		panic("C15pf: unknown op " + parts[0])
	}
}

var _ = io.EOF
