// hv: correspondence harness. `hv <property> -seed S -n N -tier quick|thorough -out DIR`
// runs the real Havoc code (linked from /repo/teamserver, build tag verif) on
// generated inputs and writes DIR/ops.txt: one operation per line,
//
//	<op> <args...> => <what the implementation did>
//
// plus DIR/stats.json (input distribution).  The Lean driver reads the same file.
package main

import (
	"bufio"
	"encoding/hex"
	"encoding/json"
	"flag"
	"fmt"
	"os"
	"path/filepath"
	"sort"
	"strings"
	"time"

	"io"

	"Havoc/pkg/logger"

	"verifharness/internal/gen"
)

func init() { logger.LoggerInstance = logger.NewLogger(io.Discard) }

type Ctx struct {
	R      *gen.Rng
	N      int
	Tier   string
	Dir    string
	w      *bufio.Writer
	Stats  map[string]int
	Lines  int
	Replay string
}

func (c *Ctx) Emit(format string, a ...any) {
	fmt.Fprintf(c.w, format, a...)
	c.w.WriteByte('\n')
	c.w.Flush() // a process exit inside the code under test must not lose the history so far
	c.Lines++
}

// Pending records the operation about to run, so that a process exit (log.Fatal, os.Exit,
// fatal runtime error) inside the code under test leaves a reproducer behind.
func (c *Ctx) Pending(in string) {
	os.WriteFile(filepath.Join(c.Dir, "pending.txt"), []byte(in+"\n"), 0o644)
}

func (c *Ctx) Count(key string) { c.Stats[key]++ }

func hx(b []byte) string {
	if len(b) == 0 {
		return "-"
	}
	return hex.EncodeToString(b)
}

func unhx(s string) []byte {
	if s == "-" {
		return []byte{}
	}
	b, err := hex.DecodeString(s)
	if err != nil {
		panic("bad hex in replay: " + s)
	}
	return b
}

// guard runs f and converts a panic into a printable result.
func guard(f func() string) (out string) {
	defer func() {
		if r := recover(); r != nil {
			msg := fmt.Sprint(r)
			msg = strings.ReplaceAll(msg, " ", "_")
			out = "PANIC:" + msg
		}
	}()
	return f()
}

// guardT is guard with a watchdog: a call that does not return within d yields "TIMEOUT"
// (its goroutine is abandoned).
func guardT(d time.Duration, f func() string) string {
	ch := make(chan string, 1)
	go func() { ch <- guard(f) }()
	select {
	case s := <-ch:
		return s
	case <-time.After(d):
		return "TIMEOUT"
	}
}

var commands = map[string]func(*Ctx){}

// repoRoot: the repository under test (VERIF_REPO, default /repo).
func repoRoot() string {
	if v := os.Getenv("VERIF_REPO"); v != "" {
		return v
	}
	return "/repo"
}

func main() {
	if len(os.Args) < 2 {
		fmt.Fprintln(os.Stderr, "usage: hv <property> [-seed S] [-n N] [-tier T] [-out DIR] [-replay FILE]")
		os.Exit(2)
	}
	prop := os.Args[1]
	fs := flag.NewFlagSet("hv", flag.ExitOnError)
	seed := fs.Uint64("seed", 1, "PRNG seed")
	n := fs.Int("n", 1000, "number of generated cases")
	tier := fs.String("tier", "quick", "quick|thorough")
	out := fs.String("out", ".", "output directory")
	replay := fs.String("replay", "", "replay the inputs of this ops file instead of generating")
	fs.Parse(os.Args[2:])

	f, ok := commands[prop]
	if !ok {
		var names []string
		for k := range commands {
			names = append(names, k)
		}
		sort.Strings(names)
		fmt.Fprintln(os.Stderr, "unknown property", prop, "known:", names)
		os.Exit(2)
	}
	os.MkdirAll(*out, 0o755)
	fh, err := os.Create(filepath.Join(*out, "ops.txt"))
	if err != nil {
		panic(err)
	}
	ctx := &Ctx{R: gen.New(*seed), N: *n, Tier: *tier, Dir: *out, w: bufio.NewWriterSize(fh, 1<<20),
		Stats: map[string]int{}, Replay: *replay}
	f(ctx)
	if theSys != nil && theSys.dir != "" { // the running teamserver's scratch directory (the process ends here)
		os.Chdir("/")
		os.RemoveAll(theSys.dir)
	}
	os.Remove(filepath.Join(*out, "pending.txt"))
	ctx.w.Flush()
	fh.Close()
	st, _ := json.MarshalIndent(map[string]any{"lines": ctx.Lines, "dist": ctx.Stats}, "", " ")
	os.WriteFile(filepath.Join(*out, "stats.json"), st, 0o644)
}

// replayLines returns the input part (left of " => ") of every line of the replay file.
func replayLines(path string) []string {
	data, err := os.ReadFile(path)
	if err != nil {
		panic(err)
	}
	var res []string
	for _, l := range strings.Split(string(data), "\n") {
		l = strings.TrimSpace(l)
		if l == "" || strings.HasPrefix(l, "#") {
			continue
		}
		if i := strings.Index(l, " => "); i >= 0 {
			l = l[:i]
		}
		res = append(res, l)
	}
	return res
}

// ms: an observation window of n milliseconds, stretched by VERIF_SLOW (vcheck re-runs a
// failing case with stretched windows before it believes a timing-dependent observation).
func ms(n int) time.Duration {
	f := 1
	if v := os.Getenv("VERIF_SLOW"); v != "" {
		fmt.Sscan(v, &f)
		if f < 1 {
			f = 1
		}
	}
	return time.Duration(n*f) * time.Millisecond
}
