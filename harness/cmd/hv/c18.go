package main

// C18 — yaotl expressions and templates evaluate as the language defines.
// Expression trees are generated, printed twice (minimal parentheses / redundant parentheses
// and whitespace), parsed by the real hclsyntax.ParseExpression and evaluated with Value(ctx)
// over a generated variable environment.  Per spelling: the syntax tree the real parser built
// (parentheses nodes dropped) and the value or "ERR".

import (
	"fmt"
	"math/big"
	"os"
	"sort"
	"strings"

	hcl "Havoc/pkg/profile/yaotl"
	"Havoc/pkg/profile/yaotl/hclsyntax"

	"github.com/zclconf/go-cty/cty"
	"github.com/zclconf/go-cty/cty/function"

	"verifharness/internal/gen"
)

func init() { commands["C18"] = runC18 }

// ---- generated trees ----

type xnode struct {
	k    string // N T F Z S V U B C L O I A R P
	s    string // number text / string / var name / operator / attr name
	kids []*xnode
	keys []string // object keys
}

var binPrec = map[string]int{"or": 1, "and": 2, "eq": 3, "ne": 3, "lt": 4, "le": 4, "gt": 4, "ge": 4, "add": 5, "sub": 5, "mul": 6, "div": 6, "mod": 6}
var binSym = map[string]string{"or": "||", "and": "&&", "eq": "==", "ne": "!=", "lt": "<", "le": "<=", "gt": ">", "ge": ">=", "add": "+", "sub": "-", "mul": "*", "div": "/", "mod": "%"}

func (n *xnode) sexp() string {
	switch n.k {
	case "N":
		return "N" + n.s
	case "T", "F", "Z":
		return n.k
	case "S":
		return "S" + hx([]byte(n.s))
	case "V":
		return "V" + n.s
	case "U":
		return "U" + n.s + "(" + n.kids[0].sexp() + ")"
	case "M": // an interpolation with strip markers: s = "10" / "01" / "11"
		return "M" + n.s + "(" + n.kids[0].sexp() + ")"
	case "B":
		return "B" + n.s + "(" + n.kids[0].sexp() + "," + n.kids[1].sexp() + ")"
	case "A":
		return "A(" + n.kids[0].sexp() + "," + n.s + ")"
	case "O":
		var ps []string
		for i, k := range n.keys {
			ps = append(ps, hx([]byte(k))+"="+n.kids[i].sexp())
		}
		return "O(" + strings.Join(ps, ",") + ")"
	case "R", "Q":
		var ps []string
		for _, k := range n.kids {
			ps = append(ps, k.sexp())
		}
		head := n.k
		if n.k == "Q" && len(n.keys) > 0 {
			head = "G" // grouped
		}
		return head + n.s + "(" + strings.Join(ps, ",") + ")"
	case "X":
		each := "@"
		for _, st := range n.keys {
			if st[0] == 'a' {
				each = "A(" + each + "," + st[2:] + ")"
			} else {
				each = "I(" + each + ",N" + st[2:] + ")"
			}
		}
		return "X(" + n.kids[0].sexp() + "," + each + ")"
	case "D":
		els := "S-"
		if len(n.kids) > 2 {
			els = n.kids[2].sexp()
		}
		return "C(" + n.kids[0].sexp() + "," + n.kids[1].sexp() + "," + els + ")"
	case "J":
		return "J(R" + n.s + "(" + n.kids[0].sexp() + "," + n.kids[1].sexp() + "))"
	case "K": // a function call: s = name, keys = ["..."] when the last argument is expanded
		var ps []string
		for _, k := range n.kids {
			ps = append(ps, k.sexp())
		}
		return "K" + n.s + strings.Join(n.keys, "") + "(" + strings.Join(ps, ",") + ")"
	case "H": // a heredoc: s = "1" flush; the kids are the template tokens as the scanner yields them
		var ps []string
		for _, k := range n.kids {
			ps = append(ps, k.sexp())
		}
		return "H" + n.s + "(" + strings.Join(ps, ",") + ")"
	case "PB": // the body of a directive: always a template of its own
		switch {
		case len(n.kids) == 0:
			return "S-"
		case len(n.kids) == 1 && n.kids[0].k == "S":
			return n.kids[0].sexp()
		case len(n.kids) == 1:
			return "W(" + n.kids[0].sexp() + ")"
		}
		var ps []string
		for _, k := range n.kids {
			ps = append(ps, k.sexp())
		}
		return "P(" + strings.Join(ps, ",") + ")"
	case "P":
		if len(n.kids) == 1 && (n.kids[0].k == "D" || n.kids[0].k == "J") { // a template that is one directive is not passed through
			return "W(" + n.kids[0].sexp() + ")"
		}
		var ps []string
		for _, k := range n.kids {
			ps = append(ps, k.sexp())
		}
		return "P(" + strings.Join(ps, ",") + ")"
	default: // C L I
		var ps []string
		for _, k := range n.kids {
			ps = append(ps, k.sexp())
		}
		return n.k + "(" + strings.Join(ps, ",") + ")"
	}
}

func quoteHCL(s string) string {
	var b strings.Builder
	b.WriteByte('"')
	for _, r := range s {
		switch r {
		case '"':
			b.WriteString(`\"`)
		case '\\':
			b.WriteString(`\\`)
		case '\n':
			b.WriteString(`\n`)
		case '$':
			b.WriteString("$") // a lone $ is literal; "${" is never generated in literals
		default:
			b.WriteRune(r)
		}
	}
	b.WriteByte('"')
	return b.String()
}

// level of the node as an operand: 7 = term
func (n *xnode) level() int {
	switch n.k {
	case "B":
		return binPrec[n.s]
	case "C":
		return 0
	case "U":
		return 7
	case "X": // a traversal written after a splat continues the splat: as the base of an index / attribute it needs parentheses
		return 7
	}
	return 8
}

// print with the parentheses the grammar needs (redundant=false) or with extra parentheses and blanks
func (n *xnode) src(r *gen.Rng, redundant bool) string {
	sp := func() string {
		if redundant {
			return strings.Repeat(" ", r.Intn(3))
		}
		return ""
	}
	wrap := func(s string) string {
		if redundant && r.Chance(1, 3) {
			return "(" + sp() + s + sp() + ")"
		}
		return s
	}
	paren := func(k *xnode, need bool) string {
		s := k.src(r, redundant)
		if need {
			return "(" + s + ")"
		}
		return s
	}
	switch n.k {
	case "N":
		return wrap(n.s)
	case "T":
		return wrap("true")
	case "F":
		return wrap("false")
	case "Z":
		return wrap("null")
	case "S":
		return wrap(quoteHCL(n.s))
	case "V":
		return wrap(n.s)
	case "U":
		k := n.kids[0]
		// the operand of a unary operator is a term (with traversals)
		need := k.level() < 8
		sym := "-"
		if n.s == "!" {
			sym = "!"
		}
		return wrap(sym + sp() + paren(k, need))
	case "B":
		p := binPrec[n.s]
		l, rr := n.kids[0], n.kids[1]
		ls := paren(l, l.level() < p)    // left associative: same level needs none on the left
		rs := paren(rr, rr.level() <= p) // ... and does on the right
		if !redundant {
			return ls + " " + binSym[n.s] + " " + rs
		}
		return wrap(ls + sp() + " " + binSym[n.s] + " " + sp() + rs)
	case "C":
		c, t, f := n.kids[0], n.kids[1], n.kids[2]
		return wrap(paren(c, c.level() < 1) + sp() + " ? " + t.src(r, redundant) + sp() + " : " + f.src(r, redundant))
	case "L":
		var ps []string
		for _, k := range n.kids {
			ps = append(ps, k.src(r, redundant))
		}
		return wrap("[" + sp() + strings.Join(ps, ","+sp()) + sp() + "]")
	case "O":
		var ps []string
		for i, k := range n.keys {
			vs := n.kids[i].src(r, redundant)
			if strings.Contains(vs, "EOT\n") { // the line end after the closing marker would end the item before the comma
				vs = "(" + vs + ")"
			}
			ps = append(ps, quoteHCL(k)+sp()+" = "+vs)
		}
		return wrap("{" + sp() + strings.Join(ps, ", ") + sp() + "}")
	case "I":
		k := n.kids[0]
		return wrap(paren(k, k.level() < 8) + "[" + sp() + n.kids[1].src(r, redundant) + sp() + "]")
	case "A":
		k := n.kids[0]
		return wrap(paren(k, k.level() < 8) + "." + n.s)
	case "R":
		s := "[" + sp() + "for " + strings.Replace(n.s, ":", ", ", 1) + " in " + n.kids[0].src(r, redundant) + " : " + n.kids[1].src(r, redundant)
		if len(n.kids) > 2 {
			s += " if " + n.kids[2].src(r, redundant)
		}
		return wrap(s + sp() + "]")
	case "Q":
		s := "{" + sp() + "for " + strings.Replace(n.s, ":", ", ", 1) + " in " + n.kids[0].src(r, redundant) + " : " + n.kids[1].src(r, redundant) + " => " + n.kids[2].src(r, redundant)
		if len(n.keys) > 0 {
			s += "..."
		}
		if len(n.kids) > 3 {
			s += " if " + n.kids[3].src(r, redundant)
		}
		return wrap(s + sp() + "}")
	case "X":
		k := n.kids[0]
		out := paren(k, k.level() < 8)
		if n.s == "full" {
			out += "[" + sp() + "*" + sp() + "]"
		} else {
			out += ".*"
		}
		for _, st := range n.keys {
			if st[0] == 'a' {
				out += "." + st[2:]
			} else {
				out += "[" + st[2:] + "]"
			}
		}
		return wrap(out)
	case "PB", "D", "J":
		return n.tmplInner(r, redundant)
	case "K":
		var ps []string
		for _, k := range n.kids {
			ps = append(ps, k.src(r, redundant))
		}
		return wrap(n.s + sp() + "(" + sp() + strings.Join(ps, ","+sp()) + strings.Join(n.keys, "") + sp() + ")")
	case "H":
		var b strings.Builder
		b.WriteString("<<")
		if n.s == "1" {
			b.WriteString("-")
		}
		b.WriteString("EOT\n")
		for _, k := range n.kids {
			if k.k == "S" && (k.s == "${" || k.s == "%{") {
				b.WriteString(k.s[:1] + k.s) // written escaped: $${ / %%{
			} else if k.k == "S" {
				b.WriteString(k.s) // no other escapes in a heredoc; the generator keeps lone $ % out of the text
			} else {
				b.WriteString("${" + sp() + k.src(r, redundant) + sp() + "}")
			}
		}
		b.WriteString(n.keys[0] + "EOT\n")
		if redundant && r.Chance(1, 3) {
			return "(" + b.String() + ")"
		}
		return b.String()
	case "P":
		var b strings.Builder
		b.WriteByte('"')
		for _, k := range n.kids {
			if k.k == "D" || k.k == "J" {
				b.WriteString(k.tmplInner(r, redundant))
				continue
			}
			if k.k == "S" {
				q := quoteHCL(k.s)
				b.WriteString(q[1 : len(q)-1])
			} else if k.k == "M" {
				o, cl := "${", "}"
				if k.s[0] == '1' {
					o = "${~"
				}
				if k.s[1] == '1' {
					cl = "~}"
				}
				b.WriteString(o + " " + sp() + k.kids[0].src(r, redundant) + sp() + " " + cl)
			} else {
				b.WriteString("${" + sp() + k.src(r, redundant) + sp() + "}")
			}
		}
		b.WriteByte('"')
		return wrap(b.String())
	}
	panic("src: " + n.k)
}

// tmplInner prints template content (no surrounding quotes): literal text, interpolations, directives.
func (n *xnode) tmplInner(r *gen.Rng, redundant bool) string {
	sp := func() string {
		if redundant {
			return strings.Repeat(" ", r.Intn(3))
		}
		return ""
	}
	switch n.k {
	case "S":
		q := quoteHCL(n.s)
		return q[1 : len(q)-1]
	case "PB":
		var b strings.Builder
		for _, k := range n.kids {
			b.WriteString(k.tmplInner(r, redundant))
		}
		return b.String()
	case "D":
		out := "%{" + sp() + " if " + n.kids[0].src(r, redundant) + sp() + " }" + n.kids[1].tmplInner(r, redundant)
		if len(n.kids) > 2 {
			out += "%{" + sp() + " else" + sp() + " }" + n.kids[2].tmplInner(r, redundant)
		}
		return out + "%{" + sp() + " endif" + sp() + " }"
	case "J":
		return "%{" + sp() + " for " + strings.Replace(n.s, ":", ", ", 1) + " in " + n.kids[0].src(r, redundant) + sp() + " }" +
			n.kids[1].tmplInner(r, redundant) + "%{" + sp() + " endfor" + sp() + " }"
	case "M":
		o, cl := "${", "}"
		if n.s[0] == '1' {
			o = "${~"
		}
		if n.s[1] == '1' {
			cl = "~}"
		}
		return o + " " + sp() + n.kids[0].src(r, redundant) + sp() + " " + cl
	}
	return "${" + sp() + n.src(r, redundant) + sp() + "}"
}

// ---- the real parser's tree, in the same notation ----

var opNames = map[*hclsyntax.Operation]string{
	hclsyntax.OpLogicalOr: "or", hclsyntax.OpLogicalAnd: "and", hclsyntax.OpEqual: "eq", hclsyntax.OpNotEqual: "ne",
	hclsyntax.OpLessThan: "lt", hclsyntax.OpLessThanOrEqual: "le", hclsyntax.OpGreaterThan: "gt", hclsyntax.OpGreaterThanOrEqual: "ge",
	hclsyntax.OpAdd: "add", hclsyntax.OpSubtract: "sub", hclsyntax.OpMultiply: "mul", hclsyntax.OpDivide: "div", hclsyntax.OpModulo: "mod",
}

func ctyLit(v cty.Value) string {
	switch {
	case !v.IsKnown():
		return "?unknown"
	case v.IsNull():
		return "Z"
	case v.Type() == cty.Number:
		return "N" + v.AsBigFloat().Text('f', -1)
	case v.Type() == cty.Bool:
		if v.True() {
			return "T"
		}
		return "F"
	case v.Type() == cty.String:
		return "S" + hx([]byte(v.AsString()))
	}
	return "?lit"
}

func astSexp(e hclsyntax.Expression) string {
	switch x := e.(type) {
	case *hclsyntax.ParenthesesExpr:
		return astSexp(x.Expression)
	case *hclsyntax.LiteralValueExpr:
		return ctyLit(x.Val)
	case *hclsyntax.ScopeTraversalExpr:
		s := "V" + x.Traversal.RootName()
		for _, st := range x.Traversal[1:] {
			switch t := st.(type) {
			case hcl.TraverseAttr:
				s = "A(" + s + "," + t.Name + ")"
			case hcl.TraverseIndex:
				s = "I(" + s + "," + ctyLit(t.Key) + ")"
			default:
				s = "?trav(" + s + ")"
			}
		}
		return s
	case *hclsyntax.RelativeTraversalExpr:
		s := astSexp(x.Source)
		for _, st := range x.Traversal {
			switch t := st.(type) {
			case hcl.TraverseAttr:
				s = "A(" + s + "," + t.Name + ")"
			case hcl.TraverseIndex:
				s = "I(" + s + "," + ctyLit(t.Key) + ")"
			default:
				s = "?trav(" + s + ")"
			}
		}
		return s
	case *hclsyntax.UnaryOpExpr:
		if x.Op == hclsyntax.OpNegate {
			return "U-(" + astSexp(x.Val) + ")"
		}
		return "U!(" + astSexp(x.Val) + ")"
	case *hclsyntax.BinaryOpExpr:
		return "B" + opNames[x.Op] + "(" + astSexp(x.LHS) + "," + astSexp(x.RHS) + ")"
	case *hclsyntax.ConditionalExpr:
		return "C(" + astSexp(x.Condition) + "," + astSexp(x.TrueResult) + "," + astSexp(x.FalseResult) + ")"
	case *hclsyntax.TupleConsExpr:
		var ps []string
		for _, k := range x.Exprs {
			ps = append(ps, astSexp(k))
		}
		return "L(" + strings.Join(ps, ",") + ")"
	case *hclsyntax.ObjectConsExpr:
		var ps []string
		for _, it := range x.Items {
			k := "?key"
			if ke, ok := it.KeyExpr.(*hclsyntax.ObjectConsKeyExpr); ok {
				if t, ok := ke.Wrapped.(*hclsyntax.TemplateExpr); ok && len(t.Parts) == 1 {
					if l, ok := t.Parts[0].(*hclsyntax.LiteralValueExpr); ok && l.Val.Type() == cty.String {
						k = hx([]byte(l.Val.AsString()))
					}
				} else if t, ok := ke.Wrapped.(*hclsyntax.TemplateExpr); ok && len(t.Parts) == 0 {
					k = hx(nil)
				}
			}
			ps = append(ps, k+"="+astSexp(it.ValueExpr))
		}
		return "O(" + strings.Join(ps, ",") + ")"
	case *hclsyntax.IndexExpr:
		return "I(" + astSexp(x.Collection) + "," + astSexp(x.Key) + ")"
	case *hclsyntax.ForExpr:
		vars := x.ValVar
		if x.KeyVar != "" {
			vars = x.KeyVar + ":" + x.ValVar
		}
		head := "R"
		if x.KeyExpr != nil {
			head = "Q"
			if x.Group {
				head = "G"
			}
		}
		s := head + vars + "(" + astSexp(x.CollExpr)
		if x.KeyExpr != nil {
			s += "," + astSexp(x.KeyExpr)
		}
		s += "," + astSexp(x.ValExpr)
		if x.CondExpr != nil {
			s += "," + astSexp(x.CondExpr)
		}
		return s + ")"
	case *hclsyntax.SplatExpr:
		return "X(" + astSexp(x.Source) + "," + astSexp(x.Each) + ")"
	case *hclsyntax.AnonSymbolExpr:
		return "@"
	case *hclsyntax.TemplateJoinExpr:
		return "J(" + astSexp(x.Tuple) + ")"
	case *hclsyntax.TemplateExpr:
		// a quoted string without interpolation is a template of one literal (or of none)
		if len(x.Parts) == 0 {
			return "S-"
		}
		if len(x.Parts) == 1 {
			if l, ok := x.Parts[0].(*hclsyntax.LiteralValueExpr); ok && l.Val.Type() == cty.String {
				return ctyLit(l.Val)
			}
			return "W(" + astSexp(x.Parts[0]) + ")" // one part that is not a literal and was not passed through: still a string template
		}
		var ps []string
		for _, k := range x.Parts {
			ps = append(ps, astSexp(k))
		}
		return "P(" + strings.Join(ps, ",") + ")"
	case *hclsyntax.TemplateWrapExpr:
		return "P(" + astSexp(x.Wrapped) + ")"
	case *hclsyntax.FunctionCallExpr:
		var ps []string
		for _, k := range x.Args {
			ps = append(ps, astSexp(k))
		}
		ex := ""
		if x.ExpandFinal {
			ex = "..."
		}
		return "K" + x.Name + ex + "(" + strings.Join(ps, ",") + ")"
	}
	return fmt.Sprintf("?%T", e)
}

func valStr(v cty.Value) string {
	if !v.IsKnown() {
		return "unknown"
	}
	if v.IsNull() {
		return "z"
	}
	t := v.Type()
	switch {
	case t == cty.Number:
		bf := v.AsBigFloat()
		if bf.IsInt() {
			i, _ := bf.Int(nil)
			return "n" + i.String()
		}
		// exact decimal text when there is one
		r, _ := new(big.Rat).SetString(bf.Text('f', -1))
		if r != nil && r.IsInt() {
			return "n" + r.Num().String()
		}
		return "q" + bf.Text('g', 40)
	case t == cty.Bool:
		if v.True() {
			return "t"
		}
		return "f"
	case t == cty.String:
		return "s" + hx([]byte(v.AsString()))
	case t.IsTupleType() || t.IsListType() || t.IsSetType():
		var ps []string
		for it := v.ElementIterator(); it.Next(); {
			_, e := it.Element()
			ps = append(ps, valStr(e))
		}
		return "l(" + strings.Join(ps, ",") + ")"
	case t.IsObjectType() || t.IsMapType():
		m := v.AsValueMap()
		var ks []string
		for k := range m {
			ks = append(ks, k)
		}
		sort.Strings(ks)
		var ps []string
		for _, k := range ks {
			ps = append(ps, hx([]byte(k))+"="+valStr(m[k]))
		}
		return "o(" + strings.Join(ps, ",") + ")"
	}
	return "?val"
}

// the functions of the evaluation context (modelled in Model/Expr.lean: funSig, applyFun)
var c18Funcs = map[string]function.Function{
	"add2": function.New(&function.Spec{
		Params: []function.Parameter{{Name: "a", Type: cty.Number}, {Name: "b", Type: cty.Number}},
		Type:   function.StaticReturnType(cty.Number),
		Impl:   func(args []cty.Value, _ cty.Type) (cty.Value, error) { return args[0].Add(args[1]), nil },
	}),
	"neg1": function.New(&function.Spec{
		Params: []function.Parameter{{Name: "b", Type: cty.Bool}},
		Type:   function.StaticReturnType(cty.Bool),
		Impl:   func(args []cty.Value, _ cty.Type) (cty.Value, error) { return args[0].Not(), nil },
	}),
	"cat": function.New(&function.Spec{
		VarParam: &function.Parameter{Name: "parts", Type: cty.String},
		Type:     function.StaticReturnType(cty.String),
		Impl: func(args []cty.Value, _ cty.Type) (cty.Value, error) {
			var b strings.Builder
			for _, a := range args {
				b.WriteString(a.AsString())
			}
			return cty.StringVal(b.String()), nil
		},
	}),
	"pick": function.New(&function.Spec{
		Params:   []function.Parameter{{Name: "i", Type: cty.Number}},
		VarParam: &function.Parameter{Name: "xs", Type: cty.DynamicPseudoType, AllowNull: true, AllowDynamicType: true},
		Type: func(args []cty.Value) (cty.Type, error) {
			bf := args[0].AsBigFloat()
			if !bf.IsInt() {
				return cty.DynamicPseudoType, fmt.Errorf("index must be a whole number")
			}
			i, _ := bf.Int64()
			if bf.Sign() < 0 || !bf.IsInt() || i >= int64(len(args)-1) || bf.Cmp(big.NewFloat(1e9)) > 0 {
				return cty.DynamicPseudoType, fmt.Errorf("index out of range")
			}
			return args[1+i].Type(), nil
		},
		Impl: func(args []cty.Value, _ cty.Type) (cty.Value, error) {
			i, _ := args[0].AsBigFloat().Int64()
			return args[1+i], nil
		},
	}),
}

func evalSrc(src string, ctx *hcl.EvalContext) string {
	return guard(func() string {
		e, diags := hclsyntax.ParseExpression([]byte(src), "x.hcl", hcl.Pos{Line: 1, Column: 1})
		if diags.HasErrors() {
			return "ast=SYNTAXERR val=ERR"
		}
		v, vd := e.Value(ctx)
		if os.Getenv("VERIF_DEBUG") != "" {
			for _, d := range vd {
				fmt.Fprintln(os.Stderr, "DIAG:", d.Summary, "|", d.Detail)
			}
		}
		val := "ERR"
		if !vd.HasErrors() {
			val = valStr(v)
		}
		return "ast=" + astSexp(e) + " val=" + val
	})
}

// ---- values of the environment ----

type xval struct {
	k    string // n t f z s l o
	s    string
	kids []*xval
	keys []string
}

func (v *xval) str() string {
	switch v.k {
	case "n":
		return "n" + v.s
	case "s":
		return "s" + hx([]byte(v.s))
	case "l":
		var ps []string
		for _, k := range v.kids {
			ps = append(ps, k.str())
		}
		return "l(" + strings.Join(ps, ",") + ")"
	case "o", "m":
		var ps []string
		for i, k := range v.keys {
			ps = append(ps, hx([]byte(k))+"="+v.kids[i].str())
		}
		return v.k + "(" + strings.Join(ps, ",") + ")"
	case "L":
		var ps []string
		for _, k := range v.kids {
			ps = append(ps, k.str())
		}
		return "L(" + strings.Join(ps, ",") + ")"
	}
	return v.k
}

func (v *xval) cty() cty.Value {
	switch v.k {
	case "n":
		bf, _, _ := big.ParseFloat(v.s, 10, 512, big.ToNearestEven)
		return cty.NumberVal(bf)
	case "t":
		return cty.True
	case "f":
		return cty.False
	case "z":
		return cty.NullVal(cty.DynamicPseudoType)
	case "s":
		return cty.StringVal(v.s)
	case "l":
		var es []cty.Value
		for _, k := range v.kids {
			es = append(es, k.cty())
		}
		return cty.TupleVal(es)
	case "o":
		m := map[string]cty.Value{}
		for i, k := range v.keys {
			m[k] = v.kids[i].cty()
		}
		return cty.ObjectVal(m)
	case "L": // a list-typed value: elements of one type, at least one
		var es []cty.Value
		for _, k := range v.kids {
			es = append(es, k.cty())
		}
		return cty.ListVal(es)
	case "m": // a map-typed value
		m := map[string]cty.Value{}
		for i, k := range v.keys {
			m[k] = v.kids[i].cty()
		}
		if len(m) == 0 {
			return cty.MapValEmpty(cty.Number)
		}
		return cty.MapVal(m)
	}
	panic("cty")
}

func runC18(c *Ctx) {
	if c.Replay != "" {
		for _, l := range replayLines(c.Replay) {
			c18Line(c, l)
		}
		return
	}
	r := c.R
	bigNums := []string{"0", "1", "2", "7", "12", "100", "255", "65536", "4294967296", "4294967297", "1000000000000000000", "4611686018427387905", "9223372036854775807", "9223372036854775807", "18446744073709551616", "123456789012345678901234567890"}
	num := func() string {
		if r.Chance(1, 4) {
			return gen.Pick(r, bigNums)
		}
		return fmt.Sprint(r.Intn(50))
	}
	strs := []string{"", "a", "hello", "x y", "q\"uote", "back\\slash", "line\nbreak", "ünï", "5", "true", " z", "y ", "  ", " \n w \n"}
	var genVal func(d int) *xval
	genVal = func(d int) *xval {
		switch k := r.Intn(10); {
		case k < 4:
			return &xval{k: "n", s: num()}
		case k < 6:
			return &xval{k: "s", s: gen.Pick(r, strs)}
		case k < 7:
			return &xval{k: gen.Pick(r, []string{"t", "f"})}
		case k < 8 && d > 0:
			n := r.Intn(4)
			v := &xval{k: "l"}
			for i := 0; i < n; i++ {
				v.kids = append(v.kids, genVal(d-1))
			}
			return v
		case k < 9 && d > 0:
			v := &xval{k: "o"}
			for _, key := range []string{"a", "b", "name"}[:r.Intn(4)] {
				v.keys = append(v.keys, key)
				v.kids = append(v.kids, genVal(d-1))
			}
			return v
		default:
			return &xval{k: "n", s: num()}
		}
	}
	// the environment: typed variables so that mostly well-typed expressions can be generated
	type envT struct {
		names []string
		vals  map[string]*xval
	}
	mkEnv := func() envT {
		e := envT{vals: map[string]*xval{}}
		add := func(n string, v *xval) { e.names = append(e.names, n); e.vals[n] = v }
		add("n1", &xval{k: "n", s: num()})
		add("n2", &xval{k: "n", s: num()})
		add("b1", &xval{k: gen.Pick(r, []string{"t", "f"})})
		add("s1", &xval{k: "s", s: gen.Pick(r, strs)})
		tl := &xval{k: "l"}
		for i := 0; i < r.Intn(4); i++ {
			tl.kids = append(tl.kids, &xval{k: "n", s: num()})
		}
		add("nums", tl)
		add("any", genVal(2))
		ob := &xval{k: "o", keys: []string{"a", "name"}, kids: []*xval{{k: "n", s: num()}, {k: "s", s: gen.Pick(r, strs)}}}
		add("obj", ob)
		// a tuple of objects, a list-typed and a map-typed value, a tuple of strings
		objs := &xval{k: "l"}
		for i := 0; i < r.Intn(4); i++ {
			o := &xval{k: "o", keys: []string{"a", "name"}, kids: []*xval{{k: "n", s: fmt.Sprint(r.Intn(4))}, {k: "s", s: gen.Pick(r, []string{"x", "y", "x y", "5"})}}}
			if r.Chance(1, 6) {
				o = &xval{k: "o", keys: []string{"name"}, kids: []*xval{{k: "s", s: "only-name"}}} // lacks .a
			}
			objs.kids = append(objs.kids, o)
		}
		add("objs", objs)
		lst := &xval{k: "L"}
		for i := 0; i < 1+r.Intn(3); i++ {
			lst.kids = append(lst.kids, &xval{k: "n", s: fmt.Sprint(r.Intn(9))})
		}
		add("lst", lst)
		mp := &xval{k: "m"}
		for _, key := range []string{"a", "b", "zz"}[:r.Intn(4)] {
			mp.keys = append(mp.keys, key)
			mp.kids = append(mp.kids, &xval{k: "n", s: fmt.Sprint(r.Intn(9))})
		}
		add("mp", mp)
		ss := &xval{k: "l"}
		for i := 0; i < r.Intn(4); i++ {
			ss.kids = append(ss.kids, &xval{k: "s", s: gen.Pick(r, []string{"p", "q", "p", " r "})})
		}
		add("strs", ss)
		return e
	}
	var genNum, genBool, genStr, genAny, genColl func(d int) *xnode
	var genCall func(d int, kind string) *xnode
	var collVar func() *xnode
	leafNum := func() *xnode {
		if r.Chance(1, 3) {
			return &xnode{k: "V", s: gen.Pick(r, []string{"n1", "n2"})}
		}
		return &xnode{k: "N", s: num()}
	}
	genNum = func(d int) *xnode {
		if d <= 0 {
			return leafNum()
		}
		switch k := r.Intn(13); {
		case k == 12:
			return genCall(d, "n")
		case k < 6:
			return &xnode{k: "B", s: gen.Pick(r, []string{"add", "sub", "mul", "add", "sub", "mul", "mod", "div"}), kids: []*xnode{genNum(d - 1), genNum(d - 1)}}
		case k < 7:
			return &xnode{k: "U", s: "-", kids: []*xnode{genNum(d - 1)}}
		case k < 8:
			return &xnode{k: "C", kids: []*xnode{genBool(d - 1), genNum(d - 1), genNum(d - 1)}}
		case k < 9:
			return &xnode{k: "I", kids: []*xnode{{k: "V", s: "nums"}, genNum(d - 1)}}
		case k < 10:
			return &xnode{k: "A", s: "a", kids: []*xnode{{k: "V", s: "obj"}}}
		default:
			return leafNum()
		}
	}
	genBool = func(d int) *xnode {
		if d <= 0 {
			return gen.Pick(r, []*xnode{{k: "T"}, {k: "F"}, {k: "V", s: "b1"}})
		}
		switch k := r.Intn(11); {
		case k == 10:
			return genCall(d, "b")
		case k < 3:
			return &xnode{k: "B", s: gen.Pick(r, []string{"and", "or"}), kids: []*xnode{genBool(d - 1), genBool(d - 1)}}
		case k < 6:
			return &xnode{k: "B", s: gen.Pick(r, []string{"lt", "le", "gt", "ge"}), kids: []*xnode{genNum(d - 1), genNum(d - 1)}}
		case k < 8:
			return &xnode{k: "B", s: gen.Pick(r, []string{"eq", "ne"}), kids: []*xnode{genAny(d - 1), genAny(d - 1)}}
		case k < 9:
			return &xnode{k: "U", s: "!", kids: []*xnode{genBool(d - 1)}}
		default:
			return &xnode{k: "V", s: "b1"}
		}
	}
	// function calls: well-typed by result kind, or ("x") deliberately loose: unknown names, arity, argument
	// types and conversions, null arguments, the expanding final argument
	genCall = func(d int, kind string) *xnode {
		call := func(name string, expand bool, args ...*xnode) *xnode {
			n := &xnode{k: "K", s: name, kids: args}
			if expand {
				n.keys = []string{"..."}
			}
			return n
		}
		lit := func(k, s string) *xnode { return &xnode{k: k, s: s} }
		switch kind {
		case "n":
			switch r.Intn(4) {
			case 0, 1:
				return call("add2", false, genNum(d-1), genNum(d-1))
			case 2:
				return call("pick", false, lit("N", fmt.Sprint(r.Intn(3))), genNum(d-1), genNum(d-1), genNum(d-1))
			default:
				return call("pick", true, lit("N", fmt.Sprint(r.Intn(3))), lit("V", gen.Pick(r, []string{"nums", "lst"})))
			}
		case "b":
			return call("neg1", false, genBool(d-1))
		case "s":
			switch r.Intn(3) {
			case 0:
				var args []*xnode
				for i := 0; i < r.Intn(4); i++ {
					args = append(args, gen.Pick(r, []func(int) *xnode{genStr, genNum, genBool, genStr})(d-1))
				}
				return call("cat", false, args...)
			case 1:
				return call("cat", true, lit("S", "<"), lit("V", "strs"))
			default:
				return call("cat", true, &xnode{k: "L", kids: []*xnode{genStr(d - 1), genNum(0), genBool(0)}})
			}
		}
		numStr := func() *xnode {
			return lit("S", gen.Pick(r, []string{"12", "-3", "007", "0", "1e2", "0x10", " 5", "Inf", "x", "", "1.5"}))
		}
		switch r.Intn(16) {
		case 0:
			return call(gen.Pick(r, []string{"nosuch", "add", "Add2", "cat2"}), false, genAny(d-1))
		case 1:
			return call("add2", false, genAny(d-1))
		case 2:
			return call("add2", false, genNum(0), genNum(0), genAny(d-1))
		case 3:
			return call("add2", false, genAny(d-1), genAny(d-1))
		case 4:
			return call("add2", false, numStr(), genNum(d-1))
		case 5:
			return call("add2", false, &xnode{k: "P", kids: []*xnode{lit("V", "n1"), lit("S", "0")}}, lit("N", "1"))
		case 6:
			return call("neg1", false, gen.Pick(r, []*xnode{lit("S", "true"), lit("S", "1"), lit("S", "0"), lit("S", "false"), lit("S", "TRUE"), lit("S", "yes"), lit("N", "1"), lit("Z", ""), genAny(d - 1)}))
		case 7:
			return call("cat", true, genAny(d-1))
		case 8:
			return call("cat", false, genAny(d-1), genAny(d-1))
		case 9:
			return call("pick", false, genAny(d-1), genAny(d-1), genAny(d-1))
		case 10:
			return call("pick", true, genNum(0), genAny(d-1))
		case 11:
			return call("pick", true, gen.Pick(r, []*xnode{{k: "U", s: "-", kids: []*xnode{lit("N", "1")}}, lit("N", "5"), lit("N", "2"), lit("N", "0")}), lit("V", gen.Pick(r, []string{"nums", "lst", "strs", "objs"})))
		case 12:
			return call("add2", true, lit("V", gen.Pick(r, []string{"nums", "lst", "strs", "any", "obj"})))
		case 13:
			return call("add2", true, lit("N", "1"), lit("V", gen.Pick(r, []string{"nums", "lst"})))
		case 14:
			return call("neg1", true, &xnode{k: "L"})
		default:
			return call(gen.Pick(r, []string{"cat", "pick", "neg1"}), false)
		}
	}
	// a heredoc, plain or flush: lines with their own indentation, blank lines, lines that start with an interpolation
	genHeredoc := func(d int) *xnode {
		h := &xnode{k: "H", s: gen.Pick(r, []string{"0", "1", "1", "1"}), keys: []string{strings.Repeat(" ", r.Intn(5))}}
		cur := ""
		flushLit := func() {
			if cur != "" {
				h.kids = append(h.kids, &xnode{k: "S", s: cur})
				cur = ""
			}
		}
		base := gen.Pick(r, []string{"", "  ", "    ", "\t", "   "})
		for ln := 0; ln < r.Intn(5); ln++ {
			if r.Chance(1, 6) { // a blank line
				cur = gen.Pick(r, []string{"", "", " ", "      ", "\t"}) + "\n"
				flushLit()
				continue
			}
			cur = gen.Pick(r, []string{base, base, base, base + "  ", base + " ", "", " ", "\t ", "\u00a0 "})
			if r.Chance(1, 4) {
				cur = ""
			}
			lit := r.Chance(2, 3)
			for i := 0; i < 1+r.Intn(3); i++ {
				if lit && r.Chance(1, 6) {
					// an escaped marker: the scanner yields it as a literal of its own, which reads "${" / "%{"
					flushLit()
					h.kids = append(h.kids, &xnode{k: "S", s: gen.Pick(r, []string{"${", "%{"})})
					cur = gen.Pick(r, []string{"x}", "y} z", "k"}) // (text follows on the line: a line end right behind the escape joins its token)
				} else if lit {
					cur += gen.Pick(r, []string{"a", "b c", "x=", "-", "é", "line", " ", "\"q\"", "t\tu"})
				} else {
					flushLit()
					h.kids = append(h.kids, gen.Pick(r, []func() *xnode{
						func() *xnode { return &xnode{k: "V", s: gen.Pick(r, []string{"s1", "n1", "b1", "v"})} },
						func() *xnode { return genNum(d - 1) },
						func() *xnode { return genStr(d - 1) },
						func() *xnode { return genAny(d - 1) },
					})())
					if last := h.kids[len(h.kids)-1]; last.k == "S" { // a kid S is literal text
						h.kids[len(h.kids)-1] = &xnode{k: "V", s: "s1"}
					}
				}
				lit = !lit
			}
			cur += "\n"
			flushLit()
		}
		return h
	}
	genStr = func(d int) *xnode {
		if d <= 0 || r.Chance(1, 3) {
			if r.Chance(1, 3) {
				return &xnode{k: "V", s: "s1"}
			}
			return &xnode{k: "S", s: gen.Pick(r, strs)}
		}
		if r.Chance(1, 5) {
			return genHeredoc(d)
		}
		if r.Chance(1, 8) {
			return genCall(d, "s")
		}
		n := &xnode{k: "P"}
		for i := 0; i < 1+r.Intn(3); i++ {
			if r.Chance(1, 2) {
				if len(n.kids) > 0 && n.kids[len(n.kids)-1].k == "S" {
					continue // adjacent literals would be one literal
				}
				s := gen.Pick(r, strs)
				if s == "" {
					continue
				}
				n.kids = append(n.kids, &xnode{k: "S", s: s})
			} else if r.Chance(1, 4) { // a directive
				branch := func() *xnode {
					b := &xnode{k: "PB"}
					for j := 0; j < r.Intn(3); j++ {
						if r.Bool() && (len(b.kids) == 0 || b.kids[len(b.kids)-1].k != "S") {
							b.kids = append(b.kids, &xnode{k: "S", s: gen.Pick(r, []string{"a", "yes ", " no", "-", "x y"})})
						} else {
							b.kids = append(b.kids, gen.Pick(r, []*xnode{{k: "V", s: "s1"}, {k: "V", s: "n1"}, {k: "V", s: "v"}, {k: "V", s: "b1"}, {k: "V", s: "nums"}}))
						}
					}
					return b
				}
				if r.Bool() {
					dn := &xnode{k: "D", kids: []*xnode{genBool(d - 1), branch()}}
					if r.Bool() {
						dn.kids = append(dn.kids, branch())
					}
					n.kids = append(n.kids, dn)
				} else {
					n.kids = append(n.kids, &xnode{k: "J", s: gen.Pick(r, []string{"v", "k:v"}), kids: []*xnode{collVar(), branch()}})
				}
			} else {
				k := gen.Pick(r, []func(int) *xnode{genNum, genBool, genStr, genAny})(d - 1)
				if k.k != "S" && r.Chance(1, 3) { // a string literal as a part is literal text, never an interpolation
					k = &xnode{k: "M", s: gen.Pick(r, []string{"10", "01", "11"}), kids: []*xnode{k}}
				}
				n.kids = append(n.kids, k)
			}
		}
		var merged []*xnode
		for _, k := range n.kids {
			if k.k == "S" && len(merged) > 0 && merged[len(merged)-1].k == "S" {
				merged[len(merged)-1] = &xnode{k: "S", s: merged[len(merged)-1].s + k.s}
				continue
			}
			if k.k == "S" && k.s == "" {
				continue
			}
			merged = append(merged, k)
		}
		n.kids = merged
		if len(n.kids) == 0 {
			return &xnode{k: "S", s: "lit"}
		}
		if len(n.kids) == 1 && n.kids[0].k == "S" {
			return n.kids[0]
		}
		return n
	}
	// splats and for-expressions over every kind of collection
	collVar = func() *xnode {
		return &xnode{k: "V", s: gen.Pick(r, []string{"nums", "objs", "objs", "obj", "lst", "mp", "strs", "n1", "s1", "any"})}
	}
	genColl = func(d int) *xnode {
		// type-directed: the collection decides which element expressions make sense; 1 in 5 is deliberately loose
		type collT struct {
			name  string
			elem  string // n s o (object with a, name) x (mixed)
			keyed bool   // iterating yields string keys
		}
		colls := []collT{{"nums", "n", false}, {"lst", "n", false}, {"objs", "o", false}, {"strs", "s", false}, {"obj", "x", true}, {"mp", "n", true}}
		ct := gen.Pick(r, colls)
		loose := r.Chance(1, 5)
		src := &xnode{k: "V", s: ct.name}
		if loose {
			src = collVar()
			if r.Chance(1, 6) {
				src = &xnode{k: "Z"}
			}
		}
		elemExprs := func(vv string) []*xnode {
			v := func() *xnode { return &xnode{k: "V", s: vv} }
			switch {
			case loose:
				return []*xnode{v(), {k: "A", s: gen.Pick(r, []string{"a", "name", "nope"}), kids: []*xnode{v()}}, {k: "B", s: "add", kids: []*xnode{v(), genNum(0)}},
					{k: "P", kids: []*xnode{{k: "S", s: "<"}, v(), {k: "S", s: ">"}}}}
			case ct.elem == "n":
				return []*xnode{v(), {k: "B", s: gen.Pick(r, []string{"add", "mul", "sub"}), kids: []*xnode{v(), genNum(0)}}, {k: "P", kids: []*xnode{{k: "S", s: "<"}, v(), {k: "S", s: ">"}}},
					{k: "C", kids: []*xnode{{k: "B", s: "lt", kids: []*xnode{v(), genNum(0)}}, v(), {k: "N", s: "0"}}},
					{k: "K", s: "add2", kids: []*xnode{v(), genNum(0)}}, {k: "K", s: "pick", kids: []*xnode{{k: "N", s: "1"}, genNum(0), v()}}}
			case ct.elem == "s":
				return []*xnode{v(), {k: "P", kids: []*xnode{v(), {k: "S", s: "!"}}}, {k: "B", s: "eq", kids: []*xnode{v(), {k: "S", s: "p"}}},
					{k: "K", s: "cat", kids: []*xnode{v(), {k: "S", s: "+"}, v()}}}
			case ct.elem == "o":
				return []*xnode{v(), {k: "A", s: "a", kids: []*xnode{v()}}, {k: "A", s: "name", kids: []*xnode{v()}},
					{k: "P", kids: []*xnode{{k: "A", s: "name", kids: []*xnode{v()}}, {k: "S", s: "="}, {k: "A", s: "a", kids: []*xnode{v()}}}}}
			}
			return []*xnode{v(), {k: "P", kids: []*xnode{{k: "S", s: "v="}, v()}}}
		}
		keyExprs := func(kv, vv string) []*xnode {
			v := func() *xnode { return &xnode{k: "V", s: vv} }
			var out []*xnode
			if kv != "" {
				out = append(out, &xnode{k: "V", s: kv}, &xnode{k: "P", kids: []*xnode{{k: "S", s: "k-"}, {k: "V", s: kv}}})
			}
			switch {
			case loose:
				out = append(out, v(), &xnode{k: "Z"}, &xnode{k: "A", s: "name", kids: []*xnode{v()}})
			case ct.elem == "n":
				out = append(out, v(), &xnode{k: "B", s: "mod", kids: []*xnode{v(), {k: "N", s: "2"}}}, &xnode{k: "P", kids: []*xnode{{k: "S", s: "n"}, v()}})
			case ct.elem == "s":
				out = append(out, v())
			case ct.elem == "o":
				out = append(out, &xnode{k: "A", s: "name", kids: []*xnode{v()}}, &xnode{k: "A", s: "a", kids: []*xnode{v()}})
			default:
				out = append(out, &xnode{k: "S", s: "same"})
			}
			return out
		}
		conds := func(kv, vv string) []*xnode {
			v := func() *xnode { return &xnode{k: "V", s: vv} }
			out := []*xnode{{k: "T"}, {k: "F"}, {k: "V", s: "b1"}}
			switch {
			case ct.elem == "n" || loose:
				out = append(out, &xnode{k: "B", s: gen.Pick(r, []string{"lt", "ge", "ne", "eq"}), kids: []*xnode{v(), genNum(0)}})
			case ct.elem == "s":
				out = append(out, &xnode{k: "B", s: "ne", kids: []*xnode{v(), {k: "S", s: "p"}}})
			case ct.elem == "o":
				out = append(out, &xnode{k: "B", s: "gt", kids: []*xnode{{k: "A", s: "a", kids: []*xnode{v()}}, {k: "N", s: "1"}}})
			}
			if kv != "" {
				out = append(out, &xnode{k: "B", s: "ne", kids: []*xnode{{k: "V", s: kv}, gen.Pick(r, []*xnode{{k: "N", s: "0"}, {k: "S", s: "a"}})}})
			}
			return out
		}
		switch k := r.Intn(10); {
		case k < 3: // splat
			n := &xnode{k: "X", s: gen.Pick(r, []string{"full", "full", "attr"}), kids: []*xnode{src}}
			switch {
			case loose:
				for i := 0; i < r.Intn(3); i++ {
					if n.s == "full" && r.Chance(1, 4) {
						n.keys = append(n.keys, "i:"+fmt.Sprint(r.Intn(2)))
					} else {
						n.keys = append(n.keys, "a:"+gen.Pick(r, []string{"a", "name", "name", "nope"}))
					}
				}
			case ct.elem == "o" || ct.name == "obj":
				if r.Chance(3, 4) {
					n.keys = append(n.keys, "a:"+gen.Pick(r, []string{"a", "name"}))
				}
			case ct.name == "mp":
				if r.Bool() {
					n.keys = append(n.keys, "a:"+gen.Pick(r, []string{"a", "b", "zz"}))
				}
			}
			c.Count("coll.splat")
			return n
		case k < 6: // tuple for, with or without the key
			vars := gen.Pick(r, []string{"v", "k:v", "i:x"})
			vv := vars[strings.IndexByte(vars, ':')+1:]
			kv := ""
			if i := strings.IndexByte(vars, ':'); i > 0 {
				kv = vars[:i]
			}
			body := gen.Pick(r, elemExprs(vv))
			if kv != "" && r.Bool() {
				body = &xnode{k: "L", kids: []*xnode{{k: "V", s: kv}, body}}
			}
			f := &xnode{k: "R", s: vars, kids: []*xnode{src, body}}
			if r.Chance(1, 3) {
				f.kids = append(f.kids, gen.Pick(r, conds(kv, vv)))
			}
			c.Count("coll.for-tuple")
			return f
		default: // object for, with grouping or without
			vars := gen.Pick(r, []string{"v", "k:v"})
			vv := vars[strings.IndexByte(vars, ':')+1:]
			kv := ""
			if i := strings.IndexByte(vars, ':'); i > 0 {
				kv = vars[:i]
			}
			f := &xnode{k: "Q", s: vars, kids: []*xnode{src, gen.Pick(r, keyExprs(kv, vv)), gen.Pick(r, elemExprs(vv))}}
			if r.Chance(1, 2) {
				f.keys = []string{"g"}
			}
			if r.Chance(1, 4) {
				f.kids = append(f.kids, gen.Pick(r, conds(kv, vv)))
			}
			c.Count("coll.for-object")
			return f
		}
	}
	genAny = func(d int) *xnode {
		if d > 0 && r.Chance(1, 9) {
			return genCall(d, gen.Pick(r, []string{"x", "x", "x", "n", "s", "b"}))
		}
		switch k := r.Intn(14); {
		case k < 3:
			return genNum(d)
		case k < 5:
			return genBool(d)
		case k < 7:
			return genStr(d)
		case k < 8:
			return &xnode{k: "Z"}
		case k < 9 && d > 0:
			n := &xnode{k: "L"}
			for i := 0; i < r.Intn(4); i++ {
				n.kids = append(n.kids, genAny(d-1))
			}
			return n
		case k < 10 && d > 0:
			n := &xnode{k: "O"}
			for _, key := range []string{"a", "b", "c d"}[:r.Intn(4)] {
				n.keys = append(n.keys, key)
				n.kids = append(n.kids, genAny(d-1))
			}
			return n
		case k < 11 && d > 0:
			f := &xnode{k: "R", s: "v", kids: []*xnode{{k: "V", s: "nums"}, {k: "B", s: gen.Pick(r, []string{"add", "mul"}), kids: []*xnode{{k: "V", s: "v"}, genNum(d - 1)}}}}
			if r.Chance(1, 2) {
				f.kids = append(f.kids, &xnode{k: "B", s: gen.Pick(r, []string{"lt", "ge", "ne"}), kids: []*xnode{{k: "V", s: "v"}, genNum(0)}})
			}
			return f
		case k < 12:
			if d > 0 && r.Chance(2, 3) {
				return genColl(d)
			}
			return &xnode{k: "V", s: gen.Pick(r, []string{"any", "obj", "nums", "missing", "objs", "lst", "mp", "strs"})}
		case k < 13 && d > 0: // deliberately loosely typed
			return &xnode{k: "B", s: gen.Pick(r, []string{"add", "lt", "and", "eq"}), kids: []*xnode{genAny(d - 1), genAny(d - 1)}}
		default:
			if d > 0 {
				return gen.Pick(r, []*xnode{
					{k: "I", kids: []*xnode{{k: "V", s: "any"}, genNum(0)}},
					// keys that are templates: a literal prefix and an interpolation, an interpolation only, a literal only
					{k: "I", kids: []*xnode{{k: "V", s: gen.Pick(r, []string{"obj", "obj", "mp", "any"})}, {k: "P", kids: []*xnode{{k: "S", s: gen.Pick(r, []string{"na", "z", "a"})}, {k: "C", kids: []*xnode{{k: "V", s: "b1"}, {k: "S", s: gen.Pick(r, []string{"me", "z", ""})}, {k: "S", s: "q"}}}}}}},
					{k: "I", kids: []*xnode{{k: "V", s: gen.Pick(r, []string{"obj", "mp"})}, {k: "P", kids: []*xnode{{k: "V", s: "s1"}}}}},
					{k: "I", kids: []*xnode{{k: "V", s: gen.Pick(r, []string{"obj", "mp"})}, {k: "C", kids: []*xnode{genBool(0), {k: "S", s: "a"}, {k: "S", s: "name"}}}}},
					{k: "A", s: gen.Pick(r, []string{"a", "name", "nope"}), kids: []*xnode{{k: "V", s: gen.Pick(r, []string{"obj", "any"})}}},
					{k: "C", kids: []*xnode{genBool(d - 1), gen.Pick(r, []func(int) *xnode{genNum, genBool, genStr})(d - 1), gen.Pick(r, []func(int) *xnode{genNum, genBool, genStr, func(int) *xnode { return &xnode{k: "Z"} }})(d - 1)}},
				})
			}
			return genNum(0)
		}
	}
	for c.Lines < c.N {
		env := mkEnv()
		var t *xnode
		switch r.Intn(13) {
		case 12: // exact arithmetic on literals and variables that need more than 64 bits together
			var big func(d int) *xnode
			big = func(d int) *xnode {
				if d <= 0 {
					if r.Chance(1, 4) {
						return &xnode{k: "V", s: gen.Pick(r, []string{"n1", "n2"})}
					}
					return &xnode{k: "N", s: gen.Pick(r, bigNums[7:])}
				}
				return &xnode{k: "B", s: gen.Pick(r, []string{"mul", "mul", "add", "sub"}), kids: []*xnode{big(d - 1), big(d - 1)}}
			}
			t = big(1 + r.Intn(2))
			if r.Chance(1, 3) {
				t = &xnode{k: "B", s: gen.Pick(r, []string{"eq", "lt", "mod"}), kids: []*xnode{t, big(1)}}
			}
			c.Count("root.bigarith")
		case 4, 5, 6, 7:
			t = genColl(2)
			if r.Chance(1, 3) { // used inside something else
				t = gen.Pick(r, []*xnode{
					{k: "I", kids: []*xnode{t, {k: "N", s: "0"}}},
					{k: "B", s: "eq", kids: []*xnode{t, genAny(1)}},
					{k: "L", kids: []*xnode{t, genNum(0)}},
					{k: "P", kids: []*xnode{{k: "S", s: "r="}, t}},
				})
			}
			c.Count("root.collection")
		case 0, 8:
			t = genNum(2 + r.Intn(3))
			c.Count("root.number")
		case 1, 9:
			t = genBool(2 + r.Intn(3))
			c.Count("root.bool")
		case 2, 10:
			t = genStr(2 + r.Intn(2))
			c.Count("root.template")
		default:
			t = genAny(2 + r.Intn(3))
			c.Count("root.any")
		}
		var es []string
		for _, n := range env.names {
			es = append(es, n+":"+env.vals[n].str())
		}
		c18Line(c, fmt.Sprintf("expr %s env=%s min=%s red=%s", t.sexp(), strings.Join(es, ";"), hx([]byte(t.src(r, false))), hx([]byte(t.src(r, true)))))
	}
}

func parseXval(s string) (*xval, string) {
	switch s[0] {
	case 'n':
		i := 1
		for i < len(s) && (s[i] == '-' || (s[i] >= '0' && s[i] <= '9')) {
			i++
		}
		return &xval{k: "n", s: s[1:i]}, s[i:]
	case 't', 'f', 'z':
		return &xval{k: s[:1]}, s[1:]
	case 's':
		if len(s) > 1 && s[1] == '-' { // the empty string
			return &xval{k: "s", s: ""}, s[2:]
		}
		i := 1
		for i < len(s) && strings.IndexByte("0123456789abcdef", s[i]) >= 0 {
			i++
		}
		return &xval{k: "s", s: string(unhx(orDash(s[1:i])))}, s[i:]
	case 'l', 'L':
		v := &xval{k: s[:1]}
		rest := s[2:]
		for rest[0] != ')' {
			var k *xval
			k, rest = parseXval(rest)
			v.kids = append(v.kids, k)
			if rest[0] == ',' {
				rest = rest[1:]
			}
		}
		return v, rest[1:]
	case 'o', 'm':
		v := &xval{k: s[:1]}
		rest := s[2:]
		for rest[0] != ')' {
			eq := strings.IndexByte(rest, '=')
			key := string(unhx(orDash(rest[:eq])))
			var k *xval
			k, rest = parseXval(rest[eq+1:])
			v.keys = append(v.keys, key)
			v.kids = append(v.kids, k)
			if rest[0] == ',' {
				rest = rest[1:]
			}
		}
		return v, rest[1:]
	}
	panic("parseXval: " + s)
}

func orDash(s string) string {
	if s == "" {
		return "-"
	}
	return s
}

func c18Line(c *Ctx, in string) {
	c.Pending(in)
	parts := strings.Fields(in)
	if parts[0] == "reset" {
		c.Emit("reset")
		return
	}
	m := kvs(parts[2:])
	vars := map[string]cty.Value{}
	if m["env"] != "" {
		for _, b := range strings.Split(m["env"], ";") {
			i := strings.IndexByte(b, ':')
			v, _ := parseXval(b[i+1:])
			vars[b[:i]] = v.cty()
		}
	}
	ctx := &hcl.EvalContext{Variables: vars, Functions: c18Funcs}
	c.Emit("%s => min:%s red:%s", in, strings.ReplaceAll(evalSrc(string(unhx(m["min"])), ctx), " ", ";"), strings.ReplaceAll(evalSrc(string(unhx(m["red"])), ctx), " ", ";"))
}
