package main

// C04 — every queued task is delivered exactly once, in order, in bounded batches.
// Jobs are described by symbolic argument specs (kind[@len]) so that 30 MB jobs are
// cheap to write down; the harness decodes each check-in response itself (own
// AES-CTR reference) into cmd:req:bodylen triples.

import (
	"bytes"
	"encoding/base64"
	"encoding/binary"
	"fmt"
	"regexp"
	"runtime"
	"strconv"
	"strings"
	"sync"
	"sync/atomic"

	"Havoc/pkg/agent"
	"Havoc/pkg/handlers"

	"verifharness/internal/gen"
	"verifharness/internal/mockts"
)

func init() { commands["C04"] = runC04 }

type c04World struct {
	ts     *mockts.TS
	keys   map[string][2][]byte
	agents map[string]*agent.Agent
}

func newC04World() *c04World {
	return &c04World{ts: mockts.New(), keys: map[string][2][]byte{}, agents: map[string]*agent.Agent{}}
}

func dataFromSpec(spec string) []any {
	if spec == "-" {
		return []any{}
	}
	var out []any
	for _, t := range strings.Split(spec, ",") {
		kv := strings.SplitN(t, "@", 2)
		n := 0
		if len(kv) == 2 {
			n, _ = strconv.Atoi(kv[1])
		}
		switch kv[0] {
		case "int":
			out = append(out, int(7))
		case "int32":
			out = append(out, int32(7))
		case "uint32":
			out = append(out, uint32(7))
		case "bool":
			out = append(out, true)
		case "int64":
			out = append(out, int64(7))
		case "uint64":
			out = append(out, uint64(7))
		case "int16":
			out = append(out, int16(7))
		case "uint16":
			out = append(out, uint16(7))
		case "byte":
			out = append(out, byte(7))
		case "bytes":
			out = append(out, make([]byte, n))
		case "str":
			out = append(out, strings.Repeat("a", n))
		case "strz":
			out = append(out, strings.Repeat("a", n-1)+"\x00")
		default:
			panic("bad spec " + t)
		}
	}
	return out
}

// decodeResponse walks [cmd][req][len][body] frames (little endian).
func decodeResponse(resp []byte) string {
	var outs []string
	p := resp
	for len(p) >= 12 {
		cmd := binary.LittleEndian.Uint32(p[0:4])
		req := binary.LittleEndian.Uint32(p[4:8])
		n := int(binary.LittleEndian.Uint32(p[8:12]))
		if 12+n > len(p) {
			return "MALFORMED"
		}
		outs = append(outs, fmt.Sprintf("%d:%d:%d", cmd, req, n))
		p = p[12+n:]
	}
	if len(p) != 0 {
		return "MALFORMED"
	}
	if len(outs) == 1 && strings.HasPrefix(outs[0], fmt.Sprintf("%d:", agent.COMMAND_NOJOB)) {
		return "N"
	}
	return "J " + strings.Join(outs, ";")
}

var clearedRe = regexp.MustCompile(`Cleared task queue \[(\d+)\]`)

func (w *c04World) line(c *Ctx, in string) {
	parts := strings.Fields(in)
	switch parts[0] {
	case "reset":
		*w = *newC04World()
		c.Emit("reset")
	case "agent":
		id64, _ := strconv.ParseUint(parts[1], 16, 32)
		key, iv := bytes.Repeat([]byte{byte(id64), 0x5a}, 16), bytes.Repeat([]byte{0x33}, 16)
		a := newAgent(uint32(id64), key, iv)
		w.ts.Agents = append(w.ts.Agents, a)
		w.agents[parts[1]] = a
		w.keys[parts[1]] = [2][]byte{key, iv}
		c.Emit("%s", in)
	case "enq": // enq <id> <cmd> <req> <spec>
		a := w.agents[parts[1]]
		cmd, _ := strconv.ParseUint(parts[2], 10, 32)
		req, _ := strconv.ParseUint(parts[3], 10, 32)
		out := guard(func() string {
			a.AddJobToQueue(agent.Job{Command: uint32(cmd), RequestID: uint32(req), Data: dataFromSpec(parts[4])})
			return "ok"
		})
		c.Emit("%s => %s", in, out)
	case "clear":
		a := w.agents[parts[1]]
		out := guard(func() string {
			res := "0"
			a.TeamserverTaskPrepare("task::clear", func(id string, m map[string]string) {
				if mm := clearedRe.FindStringSubmatch(m["Message"]); mm != nil {
					res = mm[1]
				}
			})
			return res
		})
		c.Emit("%s => %s", in, out)
	case "checkin": // checkin <id> <pkgs>
		id64, _ := strconv.ParseUint(parts[1], 16, 32)
		k := w.keys[parts[1]]
		var pk []dpkg
		for i, t := range strings.Split(parts[2], ",") {
			switch t {
			case "G":
				pk = append(pk, dpkg{cmd: agent.COMMAND_GET_JOB, req: uint32(i), nobody: true})
			case "O": // an output callback for a request id nobody issued: dropped by the gate
				pk = append(pk, dpkg{cmd: agent.COMMAND_OUTPUT, req: 0xEEEE0000 + uint32(i), body: []byte{0, 0, 0, 2, 'h', 'i'}})
			}
		}
		req := demonRequest(uint32(id64), k[0], k[1], pk)
		out := guard(func() string {
			resp, ok := handlers.VerifParseAgentRequest(w.ts, req, "127.0.0.1")
			if !ok {
				return "REJECTED"
			}
			return decodeResponse(resp.Bytes())
		})
		w.ts.Take()
		c.Emit("%s => %s", in, out)
	case "chunks": // chunks <size> <chunk>: real TaskPrepare(COMMAND_FS upload) + AddJobToQueue as dispatch.go does
		size, _ := strconv.Atoi(parts[1])
		out := guard(func() string {
			a := newAgent(0x77, bytes.Repeat([]byte{1}, 32), bytes.Repeat([]byte{2}, 16))
			file := make([]byte, size)
			for i := range file {
				file[i] = byte((i*7 + 3) % 251)
			}
			info := map[string]interface{}{
				"TaskID": "0000abcd", "CommandLine": "upload", "SubCommand": "upload",
				"Arguments": base64.StdEncoding.EncodeToString([]byte("C:\\x.bin")) + ";" + base64.StdEncoding.EncodeToString(file),
			}
			var msg map[string]string
			job, err := a.TaskPrepare(agent.COMMAND_FS, info, &msg, "client", w.ts)
			if err != nil {
				return "ERR:" + strings.ReplaceAll(err.Error(), " ", "_")
			}
			a.AddJobToQueue(*job)
			useID, _ := job.Data[2].(uint32)
			var lens []string
			var cat []byte
			sameid, total, before := true, true, true
			seenUse := false
			for _, j := range a.JobQueue {
				if j.Command == agent.COMMAND_MEM_FILE {
					if seenUse {
						before = false
					}
					id, _ := j.Data[0].(uint32)
					tot, _ := j.Data[1].(uint64)
					ch, _ := j.Data[2].([]byte)
					if id != useID {
						sameid = false
					}
					if tot != uint64(size) {
						total = false
					}
					lens = append(lens, strconv.Itoa(len(ch)))
					cat = append(cat, ch...)
				} else {
					seenUse = true
				}
			}
			b := func(x bool) string {
				if x {
					return "1"
				}
				return "0"
			}
			ls := strings.Join(lens, ",")
			if ls == "" {
				ls = "-"
			}
			return fmt.Sprintf("%s sameid=%s total=%s concat=%s before=%s", ls, b(sameid), b(total), b(bytes.Equal(cat, file)), b(before && seenUse))
		})
		c.Emit("%s => %s", in, out)
	case "conc": // conc <id> <producers> <each> [pivot tasks]: real goroutines; producers queue through AddJobToQueue while the listener side checks in;
		// with a fourth argument one more producer tasks an SMB pivot below the agent: the wrapped jobs (request id 0) go to this agent's queue too
		a := w.agents[parts[1]]
		npv := 0
		if len(parts) > 4 {
			npv, _ = strconv.Atoi(parts[4])
		}
		id64, _ := strconv.ParseUint(parts[1], 16, 32)
		k := w.keys[parts[1]]
		np, _ := strconv.Atoi(parts[2])
		each, _ := strconv.Atoi(parts[3])
		out := guardT(ms(20000), func() string {
			var wg sync.WaitGroup
			start := make(chan struct{})
			var perr atomic.Value
			for p := 0; p < np; p++ {
				wg.Add(1)
				go func(p int) {
					defer wg.Done()
					defer func() {
						if r := recover(); r != nil {
							perr.Store("PANIC:producer:" + strings.ReplaceAll(fmt.Sprint(r), " ", "_"))
						}
					}()
					<-start
					for i := 0; i < each; i++ {
						a.AddJobToQueue(agent.Job{Command: 11, RequestID: uint32(p+1)<<16 | uint32(i), Data: []interface{}{int32(i)}})
						if i%7 == 3 {
							runtime.Gosched()
						}
					}
				}(p)
			}
			if npv > 0 {
				child := newAgent(uint32(id64)^0x00a50000, bytes.Repeat([]byte{0x17, 0x71}, 16), bytes.Repeat([]byte{0x44}, 16))
				child.Pivots.Parent = a
				a.Pivots.Links = append(a.Pivots.Links, child)
				wg.Add(1)
				go func() {
					defer wg.Done()
					defer func() {
						if r := recover(); r != nil {
							perr.Store("PANIC:pivot-producer:" + strings.ReplaceAll(fmt.Sprint(r), " ", "_"))
						}
					}()
					<-start
					for i := 0; i < npv; i++ {
						child.AddJobToQueue(agent.Job{Command: 11, RequestID: 0x7f000000 | uint32(i), Data: []interface{}{int32(i)}})
						if i%5 == 2 {
							runtime.Gosched()
						}
					}
				}()
			}
			done := make(chan struct{})
			go func() { wg.Wait(); close(done) }()
			close(start)
			var got []string
			req := demonRequest(uint32(id64), k[0], k[1], []dpkg{{cmd: agent.COMMAND_GET_JOB, req: 1, nobody: true}})
			finished, idle := false, 0
			for idle < 2 {
				if !finished {
					select {
					case <-done:
						finished = true
					default:
					}
				}
				resp, ok := handlers.VerifParseAgentRequest(w.ts, req, "127.0.0.1")
				w.ts.Take()
				if !ok {
					return "REJECTED"
				}
				d := decodeResponse(resp.Bytes())
				if d == "N" {
					if finished {
						idle++
					}
					continue
				}
				if !strings.HasPrefix(d, "J ") {
					return d
				}
				for _, t := range strings.Split(d[2:], ";") {
					f := strings.Split(t, ":")
					r, _ := strconv.ParseUint(f[1], 10, 32)
					got = append(got, fmt.Sprintf("%d.%d", r>>16, r&0xffff))
				}
			}
			if e := perr.Load(); e != nil {
				return e.(string)
			}
			ls := strings.Join(got, ",")
			if ls == "" {
				ls = "-"
			}
			return fmt.Sprintf("tasks=%d %s", len(a.Tasks), ls)
		})
		c.Emit("%s => %s", in, out)
	default:
		panic("C04: unknown op " + parts[0])
	}
}

func genSpec(r *gen.Rng, big bool) string {
	const max = 0x1e00000
	if big {
		n := gen.Pick(r, []int{max - 5, max - 4, max - 3, max, max + 1, max / 2, max/2 + 1, max/2 - 4, max / 3, max * 2})
		if r.Bool() {
			return fmt.Sprintf("bytes@%d", n)
		}
		return fmt.Sprintf("int,bytes@%d", n)
	}
	k := r.Intn(4)
	if k == 0 {
		return "-"
	}
	var ts []string
	for i := 0; i < k; i++ {
		switch r.Intn(8) {
		case 0:
			ts = append(ts, "int")
		case 1:
			ts = append(ts, "uint64")
		case 2:
			ts = append(ts, "int16")
		case 3:
			ts = append(ts, "byte")
		case 4:
			ts = append(ts, fmt.Sprintf("str@%d", r.Intn(40)))
		case 5:
			ts = append(ts, fmt.Sprintf("strz@%d", 1+r.Intn(40)))
		case 6:
			ts = append(ts, "bool")
		default:
			ts = append(ts, fmt.Sprintf("bytes@%d", r.Intn(2000)))
		}
	}
	return strings.Join(ts, ",")
}

func runC04(c *Ctx) {
	w := newC04World()
	if c.Replay != "" {
		for _, l := range replayLines(c.Replay) {
			w.line(c, l)
		}
		return
	}
	r := c.R
	const max = 0x1e00000
	// chunking around multiples of the chunk size (each costs a 30-60 MB file): a few per run
	sizes := []int{0, 1, 4096, max - 1, max, max + 1, 2 * max, 2*max + 7}
	nchunks := 3
	if c.Tier == "thorough" {
		nchunks = len(sizes)
	}
	for i := 0; i < nchunks; i++ {
		sz := sizes[(int(r.U64()%uint64(len(sizes)))+i)%len(sizes)]
		if i == 0 {
			sz = max // the exact multiple is always covered
		}
		c.Count("chunks")
		w.line(c, "reset")
		w.line(c, fmt.Sprintf("chunks %d %d", sz, max))
	}
	// real goroutines: producers against the checking-in listener side
	nconc := 6
	if c.Tier == "thorough" {
		nconc = 60
	}
	for i := 0; i < nconc; i++ {
		c.Count("conc")
		w.line(c, "reset")
		id := fmt.Sprintf("%08x", 0x4000+uint32(r.Intn(0xffff)))
		w.line(c, "agent "+id)
		if r.Chance(1, 2) {
			w.line(c, fmt.Sprintf("conc %s %d %d %d", id, 1+r.Intn(3), 200+r.Intn(1800), 200+r.Intn(1800)))
		} else {
			w.line(c, fmt.Sprintf("conc %s %d %d", id, 2+r.Intn(5), 200+r.Intn(1800)))
		}
	}
	for c.Lines < c.N {
		w.line(c, "reset")
		na := 1 + r.Intn(3)
		var ids []string
		for i := 0; i < na; i++ {
			id := fmt.Sprintf("%08x", 0x100+uint32(r.Intn(0xffff))*8+uint32(i))
			ids = append(ids, id)
			w.line(c, "agent "+id)
		}
		bigCase := r.Chance(1, 12)
		steps := 4 + r.Intn(14)
		for s := 0; s < steps; s++ {
			id := ids[r.Intn(len(ids))]
			switch k := r.Intn(10); {
			case k < 5:
				big := bigCase && r.Chance(1, 2)
				if big {
					c.Count("enq.big")
				} else {
					c.Count("enq.small")
				}
				cmd := []uint32{11, 12, 15, 21, 100, 2500, 2540, 2560}[r.Intn(8)]
				w.line(c, fmt.Sprintf("enq %s %d %d %s", id, cmd, r.U32(), genSpec(r, big)))
			case k < 9:
				pk := gen.Pick(r, []string{"G", "G", "G", "O,G", "G,O", "O", "G,G", "O,G,O", "G,O,O"})
				c.Count("checkin." + pk)
				w.line(c, fmt.Sprintf("checkin %s %s", id, pk))
			default:
				c.Count("clear")
				w.line(c, "clear "+id)
			}
		}
		for _, id := range ids {
			for i := 0; i < 3; i++ {
				w.line(c, "checkin "+id+" G")
			}
		}
	}
}
