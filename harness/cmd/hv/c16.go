package main

// C16 — listener and service registries never hold duplicates or leftovers.
// A real teamserver; an authenticated operator adds / edits / removes HTTP, SMB and External
// listeners through the operator protocol (duplicates, unknown names, ports that are already
// taken); real service connections register agent types, listener kinds and External-C2
// endpoints and go away in every order.  After every operation: the running set
// (Teamserver.Listeners), the persisted set (TS_Listeners), the advertised set (retained
// Listener/Add events), the endpoint table, the service registries, and process liveness.

import (
	"bytes"
	"fmt"
	"net"
	"net/http"
	"sort"
	"strings"
	"time"

	"Havoc/pkg/handlers"
	"Havoc/pkg/packager"

	"github.com/gorilla/websocket"

	"verifharness/internal/gen"
)

func init() { commands["C16"] = runC16 }

type c16World struct {
	*sysWorld
	names  []string
	ports  map[string]int // listener name -> port it was asked to bind
	busy   map[string]bool
	blocks []net.Listener // sockets held by the harness to make a start fail
	nprobe uint32
}

func csvOr(xs []string) string {
	if len(xs) == 0 {
		return "-"
	}
	return strings.Join(xs, ",")
}

func (w *c16World) state() string {
	var mem, adv, eps, sa, sl []string
	for _, l := range w.ts.Listeners {
		mem = append(mem, fmt.Sprintf("%s:%d", l.Name, l.Type))
	}
	db := w.ts.DB.ListenerNames()
	sort.Strings(db)
	for _, pk := range w.ts.EventsList {
		if pk.Head.Event == packager.Type.Listener.Type && pk.Body.SubEvent == packager.Type.Listener.Add {
			if n, ok := pk.Body.Info["Name"].(string); ok {
				adv = append(adv, n)
			}
		}
	}
	for _, e := range w.ts.Endpoints {
		eps = append(eps, e.Endpoint)
	}
	for _, a := range w.ts.Service.Agents {
		sa = append(sa, a.Name)
	}
	for _, l := range w.ts.Service.Listeners {
		sl = append(sl, l.Name)
	}
	// External listeners: name@endpoint, "!" when a service connection owns it
	var exts []string
	for _, l := range w.ts.Listeners {
		if e, ok := l.Config.(*handlers.External); ok {
			x := l.Name + "@" + e.Config.Endpoint
			if e.Data != nil && e.Data["client"] != nil {
				x += "!"
			}
			exts = append(exts, x)
		}
	}
	return fmt.Sprintf("mem=%s db=%s adv=%s endpoints=%s exts=%s sagents=%s slisteners=%s agents=%d",
		csvOr(mem), csvOr(db), csvOr(adv), csvOr(eps), csvOr(exts), csvOr(sa), csvOr(sl), len(w.ts.Agents.Agents))
}

func (w *c16World) opSend(text string) {
	if wc := w.conns["op"]; wc != nil {
		wc.c.WriteMessage(websocket.TextMessage, []byte(text))
	}
}

func (w *c16World) svcSend(name, text string) {
	if wc := w.conns[name]; wc != nil {
		wc.c.WriteMessage(websocket.TextMessage, []byte(text))
	}
}

// httpAddJSON: uris is "-" or "/a+/b", hdr is "-" or "Name:value" (tokens without blanks; the operator's message
// separates list entries with ", " and a header's name from its value with ": ")
func httpAddJSON(sub int, name string, port int, ua, uris, hdr string) string {
	us, hs := "", ""
	if uris != "-" {
		us = strings.ReplaceAll(uris, "+", ", ")
	}
	if hdr != "-" {
		hs = strings.Replace(hdr, ":", ": ", 1)
	}
	return fmt.Sprintf(`{"Head":{"Event":%d,"User":"alice","Time":"t"},"Body":{"SubEvent":%d,"Info":{"Name":%q,"Protocol":"Http","Hosts":"127.0.0.1","HostBind":"127.0.0.1","HostRotation":"round-robin","PortBind":"%d","PortConn":"%d","Headers":%q,"Uris":%q,"HostHeader":"","UserAgent":%q,"Secure":"false"}}}`,
		packager.Type.Listener.Type, sub, name, port, port, hs, us, ua)
}

func (w *c16World) tcpOpen(port int) string {
	cn, err := net.DialTimeout("tcp", fmt.Sprintf("127.0.0.1:%d", port), ms(300))
	if err != nil {
		return "refused"
	}
	cn.Close()
	return "accepts"
}

func (w *c16World) line(c *Ctx, in string) {
	c.Pending(in)
	parts := strings.Fields(in)
	T := packager.Type
	switch parts[0] {
	case "reset":
		// the server may still be working on the last operator message: touch its tables only when it is quiet
		w.quiesce()
		guard(func() string {
			var ls []string
			for _, l := range w.ts.Listeners {
				ls = append(ls, l.Name)
			}
			for _, l := range ls {
				w.ts.ListenerRemove(l)
			}
			return ""
		})
		for _, n := range w.ts.DB.ListenerNames() {
			w.ts.DB.ListenerRemove(n)
		}
		w.ts.Listeners = nil
		w.ts.Endpoints = nil
		for _, b := range w.blocks {
			b.Close()
		}
		w.blocks = nil
		w.resetVolatile()
		time.Sleep(ms(30))
		w.ts.Service.Agents = nil
		w.ts.Service.Listeners = nil
		w.names = nil
		w.ports = map[string]int{}
		w.busy = map[string]bool{}
		// the operator every listener request comes from
		wc, err := w.dial("havoc/")
		if err != nil {
			panic("C16: cannot connect operator")
		}
		w.conns["op"] = wc
		wc.c.WriteMessage(websocket.TextMessage, []byte(loginJSON("alice", pwHash("pw-alice"), T.InitConnection.Type, T.InitConnection.OAuthRequest, "")))
		time.Sleep(ms(40))
		wc.drain()
		c.Emit("reset")
		c.Emit("world http=%d smb=%d ext=%d", handlers.LISTENER_HTTP, handlers.LISTENER_PIVOT_SMB, handlers.LISTENER_EXTERNAL)
	case "world":
	case "ladd": // ladd <kind smb|ext|http|httpbusy> <name> [endpoint]
		switch parts[1] {
		case "smb":
			w.opSend(fmt.Sprintf(`{"Head":{"Event":%d,"User":"alice","Time":"t"},"Body":{"SubEvent":%d,"Info":{"Name":%q,"Protocol":%q,"PipeName":"p"}}}`,
				T.Listener.Type, T.Listener.Add, parts[2], handlers.AGENT_PIVOT_SMB))
		case "ext":
			w.opSend(fmt.Sprintf(`{"Head":{"Event":%d,"User":"alice","Time":"t"},"Body":{"SubEvent":%d,"Info":{"Name":%q,"Protocol":%q,"Endpoint":%q}}}`,
				T.Listener.Type, T.Listener.Add, parts[2], handlers.AGENT_EXTERNAL, parts[3]))
		case "http", "httpbusy":
			port := freePort()
			if parts[1] == "httpbusy" { // the port is taken: the start fails
				l, err := net.Listen("tcp", fmt.Sprintf("127.0.0.1:%d", port))
				if err == nil {
					w.blocks = append(w.blocks, l)
				}
			}
			if _, dup := w.ports[parts[2]]; !dup {
				w.ports[parts[2]] = port
				w.busy[parts[2]] = parts[1] == "httpbusy"
			}
			w.opSend(httpAddJSON(T.Listener.Add, parts[2], port, "ua-1", "-", "-"))
		}
		time.Sleep(ms(80))
		extra := ""
		if parts[1] == "http" {
			extra = " tcp=" + w.tcpOpen(w.ports[parts[2]])
		}
		c.Emit("%s => %s%s", in, w.state(), extra)
	case "ledit": // ledit <name> <ua> [uris hdr]: the operator edits the listener's user agent, URI list and request header
		uris, hdr := "-", "-"
		if len(parts) > 4 {
			uris, hdr = parts[3], parts[4]
		}
		w.opSend(httpAddJSON(T.Listener.Edit, parts[1], w.ports[parts[1]], parts[2], uris, hdr))
		time.Sleep(ms(50))
		c.Emit("%s => %s", in, w.state())
	case "probe": // probe <name> <ua>: a fresh agent registers through the listener with this user agent
		port, ok := w.ports[parts[1]]
		if !ok {
			c.Emit("%s => nolistener %s", in, w.state())
			return
		}
		w.nprobe++
		id := 0x00c16000 + w.nprobe
		body := initPackage(id, id, bytes.Repeat([]byte{0x11}, 32), bytes.Repeat([]byte{0x22}, 16), regInfo{Hostname: "h", ProcName: "p"})
		path := "/"
		if len(parts) > 3 {
			path = parts[3]
		}
		rq, _ := http.NewRequest("POST", fmt.Sprintf("http://127.0.0.1:%d%s", port, path), bytes.NewReader(body))
		rq.Header.Set("User-Agent", parts[2])
		if len(parts) > 4 && parts[4] != "-" {
			kv := strings.SplitN(parts[4], ":", 2)
			rq.Header.Set(kv[0], kv[1])
		}
		before := len(w.ts.Agents.Agents)
		cl := &http.Client{Timeout: 3 * time.Second, Transport: &http.Transport{DisableKeepAlives: true}}
		res := "noconn"
		if resp, err := cl.Do(rq); err == nil {
			resp.Body.Close()
			res = "rejected"
			if len(w.ts.Agents.Agents) > before {
				res = "served"
			}
		}
		c.Emit("%s => %s %s", in, res, w.state())
	case "lremove": // lremove <name>
		w.opSend(fmt.Sprintf(`{"Head":{"Event":%d,"User":"alice","Time":"t"},"Body":{"SubEvent":%d,"Info":{"Name":%q}}}`, T.Listener.Type, T.Listener.Remove, parts[1]))
		// an HTTP listener's Stop waits for its 5 s shutdown window
		wait := ms(80)
		for _, l := range w.ts.Listeners {
			if l.Name == parts[1] && l.Type == handlers.LISTENER_HTTP {
				wait = 5500 * time.Millisecond
			}
		}
		time.Sleep(wait)
		extra := ""
		if p, ok := w.ports[parts[1]]; ok {
			extra = " tcp=" + w.tcpOpen(p)
			if w.busy[parts[1]] {
				extra = " tcp=busy"
			}
			delete(w.ports, parts[1])
			delete(w.busy, parts[1])
		}
		c.Emit("%s => %s%s", in, w.state(), extra)
	case "halfopen": // halfopen <name>: a client that has sent half a request when the listener is removed
		if p, ok := w.ports[parts[1]]; ok {
			if cn, err := net.DialTimeout("tcp", fmt.Sprintf("127.0.0.1:%d", p), ms(300)); err == nil {
				cn.Write([]byte("POST / HTTP/1.1\r\nHost: x\r\n"))
				go func() { time.Sleep(20 * time.Second); cn.Close() }()
			}
		}
		c.Emit("%s => %s", in, w.state())
	case "sconn": // sconn <name>: a service connection that authenticates
		wc, err := w.dial("svc")
		if err != nil {
			c.Emit("%s => DIALERR", in)
			return
		}
		w.conns[parts[1]] = wc
		w.names = append(w.names, parts[1])
		w.svcSend(parts[1], `{"Head":{"Type":"Register"},"Body":{"Password":"svc-pw"}}`)
		time.Sleep(ms(40))
		wc.drain()
		c.Emit("%s => %s", in, w.state())
	case "sreg": // sreg <conn> agent <T> | listener <L> | exc2 <name> <endpoint>
		switch parts[2] {
		case "agent":
			w.svcSend(parts[1], svcRegAgent(parts[3]))
		case "listener":
			w.svcSend(parts[1], fmt.Sprintf(`{"Head":{"Type":"Listener"},"Body":{"Type":"ListenerAdd","Listener":{"Name":%q,"Agent":"X","Items":[]}}}`, parts[3]))
		case "exc2":
			w.svcSend(parts[1], fmt.Sprintf(`{"Head":{"Type":"Listener","RequestID":"r1"},"Body":{"Type":"ListenerAddExC2","Name":%q,"Endpoint":%q}}`, parts[3], parts[4]))
		}
		time.Sleep(ms(50))
		c.Emit("%s => %s", in, w.state())
	case "sclose": // sclose <conn>
		if wc := w.conns[parts[1]]; wc != nil {
			wc.c.Close()
		}
		time.Sleep(ms(60))
		c.Emit("%s => %s", in, w.state())
	case "scloseall": // every service connection goes away at the same moment
		for _, n := range w.names {
			if wc := w.conns[n]; wc != nil {
				go wc.c.UnderlyingConn().Close()
			}
		}
		time.Sleep(ms(80))
		c.Emit("%s => %s", in, w.state())
	default:
		panic("C16: unknown op " + parts[0])
	}
}

func runC16(c *Ctx) {
	w := &c16World{sysWorld: startSystem("c16"), ports: map[string]int{}, busy: map[string]bool{}}
	if c.Replay != "" {
		for _, l := range replayLines(c.Replay) {
			w.line(c, l)
		}
		return
	}
	r := c.R
	httpBudget := c.N / 120 // every HTTP removal costs 5.5 s
	nhist := 0
	for c.Lines < c.N {
		w.line(c, "reset")
		var have []string // listener names used so far in this history
		var httpNames []string
		var svc []string
		nsvc := 0
		// a few histories start with a shape that is known to matter
		pre := r.Intn(10)
		if nhist < 6 { // every run starts with each of them once
			pre = nhist
		}
		nhist++
		switch pre {
		case 0: // two External listeners asking for the same endpoint
			w.line(c, "ladd ext L0 e0")
			w.line(c, "ladd ext L1 e0")
			w.line(c, gen.Pick(r, []string{"lremove L1", "lremove L0"}))
			have = append(have, "L0", "L1")
			c.Count("prelude.shared-endpoint")
		case 3: // two service connections ask for External-C2 listeners on the SAME endpoint; the refused one goes away
			w.line(c, "sconn s0")
			w.line(c, "sconn s1")
			nsvc = 2
			w.line(c, "sreg s0 exc2 L0 x1")
			w.line(c, "sreg s1 exc2 L1 x1")
			if r.Bool() {
				w.line(c, "sreg s1 exc2 L0 x2") // and the other's name on a free endpoint
			}
			if r.Bool() {
				w.line(c, "sclose s1")
				svc = append(svc, "s0")
			} else {
				w.line(c, "sclose s0")
				svc = append(svc, "s1")
			}
			have = append(have, "L0", "L1")
			c.Count("prelude.service-shared-endpoint")
		case 4: // one service connection with several External-C2 listeners next to each other in the registry, then it goes away
			w.line(c, "sconn s0")
			nsvc = 1
			w.line(c, "sreg s0 exc2 L0 x0")
			w.line(c, "sreg s0 exc2 L1 x1")
			w.line(c, "sreg s0 exc2 L2 x2")
			w.line(c, "sclose s0")
			have = append(have, "L0", "L1", "L2")
			c.Count("prelude.service-adjacent")
		case 5: // an HTTP listener whose port is taken: the start fails after the request was accepted
			w.line(c, "ladd httpbusy H0")
			w.line(c, "ladd smb L0")
			w.line(c, "ladd httpbusy H1")
			have = append(have, "H0", "L0", "H1")
			httpNames = append(httpNames, "H0", "H1")
			c.Count("prelude.failed-start")
		case 1: // a service's External-C2 listener and an operator request for the same name
			w.line(c, "sconn s0")
			nsvc = 1
			svc = append(svc, "s0")
			w.line(c, "sreg s0 exc2 L2 x0")
			w.line(c, "ladd smb L2")
			w.line(c, "ladd ext L3 x0")
			c.Count("prelude.service-name-clash")
		case 2: // several services with registrations, then all of them go away
			w.line(c, "sconn s0")
			w.line(c, "sconn s1")
			nsvc = 2
			svc = append(svc, "s0", "s1")
			w.line(c, "sreg s0 agent T0")
			w.line(c, "sreg s0 agent T1")
			w.line(c, "sreg s1 listener K0")
			w.line(c, "sreg s0 listener K1")
			w.line(c, "sreg s1 exc2 L1 x1")
			// the connection that registered its listener FIRST is not the first connection: one of them goes, then the other
			if r.Bool() {
				w.line(c, "sclose s1")
				svc = []string{"s0"}
			} else {
				w.line(c, "sclose s0")
				svc = []string{"s1"}
			}
			c.Count("prelude.services")
		}
		steps := 5 + r.Intn(12)
		for s := 0; s < steps; s++ {
			name := fmt.Sprintf("L%d", r.Intn(4))
			if r.Chance(1, 4) { // names that differ in case only, or that read as a pattern over the others
				name = gen.Pick(r, []string{"l0", "l1", "L_", "L%", "L-", "%", "_0"})
			}
			switch k := r.Intn(20); {
			case k < 5:
				kind := gen.Pick(r, []string{"smb", "ext"})
				if kind == "ext" {
					w.line(c, fmt.Sprintf("ladd ext %s %s", name, gen.Pick(r, []string{"e0", "e1", "e0", "e1", "/s0", "/s1"}))) // endpoints with and without a leading slash
				} else {
					w.line(c, "ladd smb "+name)
				}
				have = append(have, name)
				c.Count("op.ladd." + kind)
			case k < 6 && httpBudget > 0:
				kind := gen.Pick(r, []string{"http", "http", "httpbusy"})
				hn := fmt.Sprintf("H%d", r.Intn(2))
				w.line(c, fmt.Sprintf("ladd %s %s", kind, hn))
				have = append(have, hn)
				httpNames = append(httpNames, hn)
				c.Count("op.ladd." + kind)
				if kind == "http" {
					w.line(c, fmt.Sprintf("probe %s ua-1", hn))
					if r.Chance(1, 2) {
						w.line(c, fmt.Sprintf("ledit %s ua-2", hn))
						w.line(c, fmt.Sprintf("probe %s ua-2", hn))
						w.line(c, fmt.Sprintf("probe %s ua-1", hn))
						c.Count("op.ledit")
					}
					if r.Chance(1, 2) { // edits of the URI list and the required header: set, replace, clear - each applies to the next request
						ua := "ua-3"
						for k := 0; k < 2+r.Intn(3); k++ {
							uris := gen.Pick(r, []string{"-", "/a", "/a+/b", "/c"})
							hdr := gen.Pick(r, []string{"-", "X-K:v1", "X-K:v2"})
							w.line(c, fmt.Sprintf("ledit %s %s %s %s", hn, ua, uris, hdr))
							c.Count("op.ledit.lists")
							for q := 0; q < 2; q++ {
								w.line(c, fmt.Sprintf("probe %s %s %s %s", hn, ua, gen.Pick(r, []string{"/", "/a", "/b", "/c"}), gen.Pick(r, []string{"-", "X-K:v1", "X-K:v2"})))
							}
						}
						w.line(c, fmt.Sprintf("ledit %s %s - -", hn, ua))
						w.line(c, fmt.Sprintf("probe %s %s /zzz -", hn, ua))
					}
				}
			case k < 10 && len(have) > 0:
				n := gen.Pick(r, have)
				if strings.HasPrefix(n, "H") {
					if httpBudget <= 0 {
						continue
					}
					httpBudget--
					if r.Chance(1, 3) {
						w.line(c, "halfopen "+n)
						c.Count("op.halfopen")
					}
				}
				w.line(c, "lremove "+n)
				c.Count("op.lremove")
			case k < 11:
				w.line(c, "lremove "+name) // possibly unknown
				c.Count("op.lremove.any")
			case k < 13 && nsvc < 3:
				n := fmt.Sprintf("s%d", nsvc)
				nsvc++
				w.line(c, "sconn "+n)
				svc = append(svc, n)
				c.Count("op.sconn")
			case k < 18 && len(svc) > 0:
				sc := gen.Pick(r, svc)
				switch r.Intn(3) {
				case 0:
					w.line(c, fmt.Sprintf("sreg %s agent T%d", sc, r.Intn(4)))
					c.Count("op.sreg.agent")
				case 1:
					w.line(c, fmt.Sprintf("sreg %s listener K%d", sc, r.Intn(4)))
					c.Count("op.sreg.listener")
				default:
					w.line(c, fmt.Sprintf("sreg %s exc2 %s %s", sc, name, gen.Pick(r, []string{"x0", "x1", "x2", "/y0", "/y1"})))
					c.Count("op.sreg.exc2")
				}
			case len(svc) > 1 && r.Chance(1, 3):
				w.line(c, "scloseall")
				svc = nil
				c.Count("op.scloseall")
			case len(svc) > 0:
				i := r.Intn(len(svc))
				w.line(c, "sclose "+svc[i])
				svc = append(svc[:i], svc[i+1:]...)
				c.Count("op.sclose")
			}
		}
		_ = httpNames
	}
}
