package main

// C12 — an HTTP listener serves only requests that match its profile.
// Real listeners ((*HTTP).Start on a loopback port, all interfaces so that IPv4 and IPv6
// peers can connect) with generated configurations; real HTTP requests over TCP.  The body of
// every request is a fresh, valid DEMON_INIT registration, so "reached the agent protocol"
// is observable as a new session whose recorded ExternalIP is printed.

import (
	"bytes"
	"fmt"
	"io"
	"net"
	"net/http"
	"os"
	"sort"
	"strconv"
	"strings"
	"time"

	"Havoc/pkg/agent"
	"Havoc/pkg/handlers"
	"Havoc/pkg/packager"
	"Havoc/pkg/profile"

	"github.com/gin-gonic/gin"

	"verifharness/internal/gen"
	"verifharness/internal/mockts"
)

func init() { commands["C12"] = runC12 }

type c12World struct {
	ts   *mockts.TS
	h    *handlers.HTTP
	real *realWorld // the listener was added by an operator's request to a real Teamserver
	port int
	next uint32
}

func (w *c12World) agentCount() int {
	if w.real != nil {
		return len(w.real.ts.Agents.Agents)
	}
	return len(w.ts.Agents)
}

func (w *c12World) lastExternalIP() string {
	if w.real != nil {
		return w.real.ts.Agents.Agents[len(w.real.ts.Agents.Agents)-1].Info.ExternalIP
	}
	return w.ts.Agents[len(w.ts.Agents)-1].Info.ExternalIP
}

func freePort() int {
	l, err := net.Listen("tcp", "127.0.0.1:0")
	if err != nil {
		panic(err)
	}
	p := l.Addr().(*net.TCPAddr).Port
	l.Close()
	return p
}

func splitList(s string) []string {
	if s == "-" {
		return nil
	}
	var out []string
	for _, x := range strings.Split(s, ",") {
		out = append(out, string(unhx(x)))
	}
	return out
}

func (w *c12World) stop() {
	if w.h != nil && w.h.Server != nil {
		w.h.Server.Close()
	}
	w.h = nil
	if w.real != nil {
		w.real.close()
		w.real = nil
	}
}

func (w *c12World) line(c *Ctx, in string) {
	c.Pending(in)
	parts := strings.Fields(in)
	switch parts[0] {
	case "reset":
		w.stop()
		c.Emit("reset")
	case "listener": // listener <uris> <headers> <ua> <respheaders> <redir 0|1> [op]    lists: comma separated hex items, "-" = none
		w.stop()
		if len(parts) > 6 && parts[6] == "op" {
			// added the way an operator does: a Listener/Add request to a real Teamserver (lists travel as ", "-joined text)
			rw := newRealWorld("c12op")
			rw.ts.Profile.Config.Demon = &profile.Demon{TrustXForwardedFor: parts[5] == "1"}
			w.port = freePort()
			var pk packager.Package
			pk.Head.Event = packager.Type.Listener.Type
			pk.Head.User = "alice"
			pk.Body.SubEvent = packager.Type.Listener.Add
			uris := splitList(parts[1])
			if parts[1] == "e" {
				uris = nil
			}
			pk.Body.Info = map[string]any{"Name": "l", "Protocol": "Http", "Hosts": "127.0.0.1", "HostBind": "", "HostRotation": "round-robin",
				"PortBind": strconv.Itoa(w.port), "PortConn": strconv.Itoa(w.port), "Headers": strings.Join(splitList(parts[2]), ", "),
				"Uris": strings.Join(uris, ", "), "HostHeader": "", "UserAgent": string(unhx(parts[3])), "Secure": "false"}
			out := guardT(ms(8000), func() string { rw.ts.DispatchEvent(pk); return "ok" })
			var h *handlers.HTTP
			for _, l := range rw.ts.Listeners {
				if hh, ok := l.Config.(*handlers.HTTP); ok {
					h = hh
				}
			}
			if out != "ok" || h == nil {
				rw.close()
				c.Emit("%s => NOLISTEN", in)
				return
			}
			w.h, w.real = h, rw
			ok := false
			for i := 0; i < 200 && !ok; i++ {
				if cn, err := net.DialTimeout("tcp", fmt.Sprintf("127.0.0.1:%d", w.port), ms(50)); err == nil {
					cn.Close()
					ok = true
				} else {
					time.Sleep(ms(5))
				}
			}
			if !ok {
				c.Emit("%s => NOLISTEN", in)
				return
			}
			c.Emit("%s", in)
			return
		}
		w.ts = mockts.New()
		h := handlers.NewConfigHttp()
		h.Teamserver = w.ts
		w.port = freePort()
		h.Config = handlers.HTTPConfig{Name: "l", Hosts: []string{"127.0.0.1"}, HostBind: "", PortBind: strconv.Itoa(w.port), PortConn: strconv.Itoa(w.port),
			Headers: splitList(parts[2]), UserAgent: string(unhx(parts[3])), BehindRedir: parts[5] == "1"}
		if parts[1] == "e" { // the [""] configuration
			h.Config.Uris = []string{""}
		} else {
			h.Config.Uris = splitList(parts[1])
		}
		h.Config.Response.Headers = splitList(parts[4])
		w.h = h
		h.Start()
		ok := false
		for i := 0; i < 200; i++ { // wait for the socket
			if cn, err := net.DialTimeout("tcp", fmt.Sprintf("127.0.0.1:%d", w.port), ms(50)); err == nil {
				cn.Close()
				ok = true
				break
			}
			time.Sleep(ms(5))
		}
		if !ok {
			c.Emit("%s => NOLISTEN", in)
			return
		}
		c.Emit("%s", in)
	case "viaserver": // viaserver <redir 0|1> <edits n>: a listener started and then edited n times through a real Teamserver whose
		// profile says (or not) that it sits behind a redirector; then an agent registers with a forwarded-for header
		out := guardT(ms(15000), func() string {
			rw := newRealWorld("c12")
			defer rw.close()
			rw.ts.Profile.Config.Demon = &profile.Demon{TrustXForwardedFor: parts[1] == "1"}
			port := freePort()
			cfg := handlers.HTTPConfig{Name: "viaserver", Hosts: []string{"127.0.0.1"}, HostBind: "127.0.0.1", HostRotation: "round-robin",
				PortBind: strconv.Itoa(port), PortConn: strconv.Itoa(port), UserAgent: "ua-v", BehindRedir: parts[1] == "1"}
			if err := rw.ts.ListenerStart(handlers.LISTENER_HTTP, cfg); err != nil {
				return "STARTERR"
			}
			up := false
			for i := 0; i < 200 && !up; i++ {
				if cn, err := net.DialTimeout("tcp", fmt.Sprintf("127.0.0.1:%d", port), ms(50)); err == nil {
					cn.Close()
					up = true
				} else {
					time.Sleep(ms(5))
				}
			}
			if !up {
				return "NOLISTEN"
			}
			n, _ := strconv.Atoi(parts[2])
			for i := 0; i < n; i++ { // what the operator's edit request becomes (dispatch.go): name, user agent, lists, proxy
				rw.ts.ListenerEdit(handlers.LISTENER_HTTP, handlers.HTTPConfig{Name: "viaserver", UserAgent: "ua-v"})
			}
			body := initPackage(0x00c12001, 0x00c12001, bytes.Repeat([]byte{0x31}, 32), bytes.Repeat([]byte{0x32}, 16), regInfo{Hostname: "h", ProcName: "p"})
			rq, _ := http.NewRequest("POST", fmt.Sprintf("http://127.0.0.1:%d/", port), bytes.NewReader(body))
			rq.Header.Set("User-Agent", "ua-v")
			rq.Header.Set("X-Forwarded-For", "203.0.113.8")
			cl := &http.Client{Timeout: 3 * time.Second, Transport: &http.Transport{DisableKeepAlives: true}}
			resp, err := cl.Do(rq)
			if err != nil {
				return "NOCONN"
			}
			resp.Body.Close()
			if len(rw.ts.Agents.Agents) == 0 {
				return "NOAGENT"
			}
			return "sender=" + rw.ts.Agents.Agents[0].Info.ExternalIP
		})
		c.Emit("%s => %s", in, out)
	case "req": // req <peer 4|6> <method> <urihex> <headers name=valuehex,…>
		if w.h == nil {
			c.Emit("%s => NOLISTENER", in)
			return
		}
		host := "127.0.0.1"
		if parts[1] == "6" {
			host = "[::1]"
		}
		w.next++
		id := 0x00c12000 + w.next
		key, iv := bytes.Repeat([]byte{0x11}, 32), bytes.Repeat([]byte{0x22}, 16)
		bodyb := initPackage(id, id, key, iv, regInfo{Hostname: "h", Username: "u", Domain: "d", IP: "1.1.1.1", ProcName: "p"})
		if len(parts) > 5 { // a body the agent protocol cannot use: the answer to an admitted request is the decoy then, with the profile's headers
			switch parts[5] {
			case "short":
				bodyb = bodyb[:8]
			case "magic":
				bodyb = append([]byte{}, bodyb...)
				bodyb[4], bodyb[5] = 0x12, 0x34
			case "stranger": // a package of an agent that never registered
				bodyb = demonRequest(id, key, iv, []dpkg{{cmd: agent.COMMAND_GET_JOB, nobody: true}})
			case "empty":
				bodyb = nil
			}
		}
		rq, err := http.NewRequest(string(unhx(parts[2])), fmt.Sprintf("http://%s:%d", host, w.port), bytes.NewReader(bodyb))
		if err != nil {
			c.Emit("%s => BADREQ", in)
			return
		}
		rq.URL.Opaque = string(unhx(parts[3])) // sent verbatim as the request target
		rq.Header = http.Header{}
		if parts[4] != "-" {
			for _, kv := range strings.Split(parts[4], ",") {
				p := strings.SplitN(kv, "=", 2)
				rq.Header[string(unhx(p[0]))] = append(rq.Header[string(unhx(p[0]))], string(unhx(p[1])))
			}
		}
		if _, ok := rq.Header["User-Agent"]; !ok {
			rq.Header["User-Agent"] = []string{""} // suppress Go's default UA
		}
		before := w.agentCount()
		cl := &http.Client{Timeout: 5 * time.Second, Transport: &http.Transport{DisableKeepAlives: true}}
		resp, err := cl.Do(rq)
		if err != nil {
			c.Emit("%s => ERR:%s", in, strings.ReplaceAll(err.Error(), " ", "_"))
			return
		}
		rb, _ := io.ReadAll(resp.Body)
		resp.Body.Close()
		class := "other"
		switch {
		case resp.StatusCode == 404 && resp.Header.Get("X-Havoc") == "true" && resp.Header.Get("Server") == "nginx":
			class = "decoy"
		case resp.StatusCode == 404 && strings.Contains(string(rb), "404 page not found"):
			class = "engine404"
		case resp.StatusCode == 200:
			class = "reply"
		}
		reached, ext := "0", "-"
		if w.agentCount() > before {
			reached = "1"
			ext = hx([]byte(w.lastExternalIP()))
		}
		var hs []string
		for k, vs := range resp.Header {
			switch k {
			case "Date", "Content-Length":
				continue
			}
			for _, v := range vs {
				hs = append(hs, hx([]byte(k))+"="+hx([]byte(v)))
			}
		}
		sort.Strings(hs)
		hstr := "-"
		if len(hs) > 0 {
			hstr = strings.Join(hs, ",")
		}
		c.Emit("%s => status=%d class=%s reached=%s extip=%s headers=%s", in, resp.StatusCode, class, reached, ext, hstr)
	default:
		panic("C12: unknown op " + parts[0])
	}
}

func hxList(xs []string) string {
	if len(xs) == 0 {
		return "-"
	}
	var o []string
	for _, x := range xs {
		o = append(o, hx([]byte(x)))
	}
	return strings.Join(o, ",")
}

func runC12(c *Ctx) {
	gin.SetMode(gin.ReleaseMode)
	gin.DefaultWriter = io.Discard
	os.Chdir(repoRoot()) // fake404 reads teamserver/pkg/handlers/404.html relative to the working directory
	w := &c12World{}
	defer w.stop()
	if c.Replay != "" {
		for _, l := range replayLines(c.Replay) {
			w.line(c, l)
		}
		return
	}
	r := c.R
	uriPool := []string{"/api/v1", "/index.php", "/a%20b", "/x?y=1", "/", "/feed/2024,10/items", "/a,b"}
	hdrPool := []string{"X-Token: secret", "X-Multi: a: b", "Accept-Encoding: gzip", "Connection: close", "X-Case: MiXeD", "X-Colon: k:v", "Cookie: a=b; c=d", "NoSpace:here", "X-Empty: ", "Accept-Language: en-US,en;q=0.9", "X-List: a,b,c"}
	respPool := []string{"Server: Apache", "Location: http://x.example/p?a=b", "X-Time: 12:30:45", "Cache-Control: no-cache", "X-Trim:   padded  ", "Set-Cookie: a=b; Path=/", "Broken", "X-Frame-Options:DENY", "X-Loc:https://cdn.example.com/app", "X-Tight:a:b"}
	for _, redir := range []string{"0", "1"} { // through a real Teamserver: started, edited 0-2 times, then a registration with a forwarded-for header
		for _, edits := range []int{0, 1, 2} {
			c.Count("viaserver")
			w.line(c, fmt.Sprintf("viaserver %s %d", redir, edits))
		}
	}
	for c.Lines < c.N {
		var uris, hdrs, resp []string
		switch r.Intn(4) {
		case 0:
		case 1:
			uris = []string{gen.Pick(r, uriPool)}
		default:
			for i := 0; i < 1+r.Intn(3); i++ {
				uris = append(uris, gen.Pick(r, uriPool))
			}
		}
		for i := 0; i < r.Intn(4); i++ {
			hdrs = append(hdrs, gen.Pick(r, hdrPool))
		}
		for i := 0; i < r.Intn(4); i++ {
			resp = append(resp, gen.Pick(r, respPool))
		}
		ua := ""
		if r.Bool() {
			ua = gen.Pick(r, []string{"Mozilla/5.0 (X)", "curl/8", "A: B"})
		}
		redir := "0"
		if r.Chance(1, 3) {
			redir = "1"
		}
		us := hxList(uris)
		if len(uris) == 0 && r.Chance(1, 4) {
			us = "e"
			uris = []string{""}
		}
		c.Count("listener")
		w.line(c, "reset")
		viaOp := us != "e" && r.Chance(1, 4)
		for _, x := range append(append([]string{}, uris...), hdrs...) {
			if strings.Contains(x, ", ") || x == "" {
				viaOp = false // the operator's request joins list items with ", ": such an item cannot be said that way
			}
		}
		if viaOp {
			c.Count("listener.operator")
			resp = nil
			w.line(c, fmt.Sprintf("listener %s %s %s - %s op", us, hxList(hdrs), hx([]byte(ua)), redir))
		} else {
			w.line(c, fmt.Sprintf("listener %s %s %s %s %s", us, hxList(hdrs), hx([]byte(ua)), hxList(resp), redir))
		}
		nreq := 8 + r.Intn(10)
		for q := 0; q < nreq; q++ {
			method := gen.Pick(r, []string{"POST", "POST", "POST", "POST", "POST", "GET", "PUT", "HEAD", "OPTIONS", "DELETE", "PATCH", "post", "TRACE", "PROPFIND", "MKCOL", "PURGE", "REPORT", "FOO", "CONNECT"})
			uri := gen.Pick(r, uriPool)
			if len(uris) > 0 && uris[0] != "" && r.Chance(3, 5) {
				uri = gen.Pick(r, uris)
			}
			if strings.Contains(uri, ",") && r.Chance(1, 3) {
				uri = strings.SplitN(uri, ",", 2)[0] // a configured path cut at its comma is another path
			}
			if r.Chance(1, 8) {
				uri += "?q=1"
			}
			var hs []string
			sent := map[string]bool{}
			// mostly satisfy the configuration, then perturb one aspect
			for _, hline := range hdrs {
				nv := strings.SplitN(hline, ": ", 2)
				if len(nv) < 2 || sent[strings.ToLower(nv[0])] {
					continue // one value per header name in a request
				}
				sent[strings.ToLower(nv[0])] = true
				name, val := nv[0], nv[1]
				switch r.Intn(10) {
				case 0: // drop it
					continue
				case 1:
					val = strings.SplitN(val, ": ", 2)[0] // only the first piece of the value
				case 2:
					val = val + "x"
				case 3:
					val = strings.ToUpper(val)
				case 4:
					name = strings.ToLower(name)
				case 5:
					val = strings.SplitN(val, ",", 2)[0] // only what stands before the first comma
				}
				hs = append(hs, hx([]byte(name))+"="+hx([]byte(val)))
			}
			if ua != "" {
				u := ua
				switch r.Intn(6) {
				case 0:
					u = ""
				case 1:
					u = strings.ToLower(ua)
				}
				if u != "" {
					hs = append(hs, hx([]byte("User-Agent"))+"="+hx([]byte(u)))
				}
			} else if r.Chance(1, 3) {
				hs = append(hs, hx([]byte("User-Agent"))+"="+hx([]byte("whatever")))
			}
			if r.Chance(1, 3) {
				hs = append(hs, hx([]byte("X-Forwarded-For"))+"="+hx([]byte(gen.Pick(r, []string{"9.9.9.9", "2001:db8::7", "evil"}))))
			}
			peer := "4"
			if r.Chance(1, 3) {
				peer = "6"
			}
			hstr := "-"
			if len(hs) > 0 {
				hstr = strings.Join(hs, ",")
			}
			c.Count("req." + method)
			if r.Chance(1, 5) {
				w.line(c, fmt.Sprintf("req %s %s %s %s %s", peer, hx([]byte(method)), hx([]byte(uri)), hstr, gen.Pick(r, []string{"short", "magic", "stranger", "empty"})))
				c.Count("req.bad-body")
			} else {
				w.line(c, fmt.Sprintf("req %s %s %s %s", peer, hx([]byte(method)), hx([]byte(uri)), hstr))
			}
		}
	}
}
