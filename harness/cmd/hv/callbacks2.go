package main

// More Demon callback body templates: the (command, sub-command / callback type) paths of
// Agent.TaskDispatch that genCallback (callbacks.go) does not cover with a known `final` label.
//
// Every body is the big-endian field list the Demon's PackageAdd* calls produce for that
// response (payloads/Demon/src/core/{Command,Jobs,Token,Socket,Dotnet,CoffeeLdr,Memory,Win32}.c),
// i.e. exactly what the teamserver's handler checks with Parser.CanIRead before reading.
//
// `final` is decided from the DEMON's behaviour only:
//   "1"  the handler sends this package as the last one for the request id
//   "0"  the Demon always sends at least one more package with the same request id afterwards
//   "?"  depends on context / sent asynchronously with a stale request id / never sent by this Demon
// The reasons are given next to each group; the comparison with what the teamserver does is made by
// callbacks2_test.go (REPORT.md), never by adjusting a label.

import (
	"Havoc/pkg/agent"

	"verifharness/internal/gen"
)

// PackageAddString / PackageAddWString add the bytes WITHOUT a terminator (Package.c:147-155).
func dS(s string) fld { return fld{kind: 'y', data: []byte(s)} }
func dW(s string) fld { return fld{kind: 'y', data: utf16le([]rune(s))} }

var cb2Procs = []string{"svchost.exe", "explorer.exe", "lsass.exe", "notepad.exe", "C:\\Windows\\System32\\cmd.exe", "ünï.exe", "a b.exe"}
var cb2Users = []string{"LAB\\bob", "NT AUTHORITY\\SYSTEM", "WORKGROUP\\alice", "", "DOM\\ünï"}
var cb2Hosts = []string{"DC01", "\\\\srv01", "localhost", "WS-7", ""}
var cb2Paths = []string{"C:\\Users\\bob\\notes.txt", "C:\\Temp\\a.bin", "notes.txt", "\\\\srv\\share\\f.doc", "C:\\Users\\ünï\\x"}
var cb2Dlls = []string{"C:\\Windows\\System32\\ntdll.dll", "C:\\Windows\\System32\\KERNEL32.DLL", "C:\\Program Files\\x y\\z.dll"}

func cb2Pid(r *gen.Rng) uint32 { return uint32(4 + 4*r.Intn(8000)) }
func cb2Ptr(r *gen.Rng) uint64 { return 0x00007ff600000000 + uint64(r.Intn(0x7fffffff))&^0xfff }
func cb2Ip(r *gen.Rng) uint32 {
	return gen.Pick(r, []uint32{0x0100007f, 0x00000000, 0x0a00000a, 0x0101a8c0})
}
func cb2Bool(r *gen.Rng) uint32 { return uint32(r.Intn(2)) }

const (
	cb2DemonInfoProcCreate = 21     // DEMON_INFO_PROC_CREATE (Command.h), no constant use in TaskDispatch
	cb2InjSpawnFailed      = 0x1003 // ERROR_INJECT_FAILED_TO_SPAWN_TARGET_PROCESS (InjectUtil.h:27)
)

// moreCallbacks: templates for the commands genCallback does not cover with a known `final` label.
func moreCallbacks(r *gen.Rng) []cbT {
	var out []cbT
	add := func(label string, cmd uint32, final string, fs ...fld) {
		out = append(out, cbT{label, cmd, encFields(fs), final})
	}
	rep := func(n int, f func() []fld) []fld {
		var fs []fld
		for i := 0; i < n; i++ {
			fs = append(fs, f()...)
		}
		return fs
	}
	cat := func(head []fld, tail []fld) []fld { return append(append([]fld{}, head...), tail...) }

	// ---------------------------------------------------------------- COMMAND_PROC (CommandProc, Command.c:263-552)
	// one PackageTransmit( Package ) at the end (552) for every sub-command => final, except
	// Proc::Create with pipes: ProcessCreate registers a JOB_TYPE_TRACK_PROCESS job under the request id
	// (Win32.c:778); JobCheckList later sends DEMON_OUTPUT and DEMON_COMMAND_JOB/JOB_DIED with that id (Jobs.c:114-119,159-161).
	add("proc.modules", agent.COMMAND_PROC, "1", cat([]fld{fI(agent.DEMON_COMMAND_PROC_MODULES), fI(cb2Pid(r))},
		rep(1+r.Intn(4), func() []fld { return []fld{dS(gen.Pick(r, cb2Dlls)), fQ(cb2Ptr(r))} }))...)
	add("proc.modules.fail", agent.COMMAND_PROC, "1", fI(agent.DEMON_COMMAND_PROC_MODULES)) // ProcessOpen failed: error package, then only the sub-command (283-284)
	add("proc.grep", agent.COMMAND_PROC, "1", cat([]fld{fI(agent.DEMON_COMMAND_PROC_GREP)},
		rep(1+r.Intn(3), func() []fld {
			return []fld{dW(gen.Pick(r, cb2Procs)), fI(cb2Pid(r)), fI(cb2Pid(r)), fY(utf16le([]rune(gen.Pick(r, cb2Users)))), fI(gen.Pick(r, []uint32{64, 86}))}
		}))...)
	add("proc.grep.none", agent.COMMAND_PROC, "1", fI(agent.DEMON_COMMAND_PROC_GREP))
	add("proc.create.nopipe", agent.COMMAND_PROC, "1", fI(agent.DEMON_COMMAND_PROC_CREATE), dW(gen.Pick(r, cb2Procs)), fI(cb2Pid(r)), fI(1), fI(0), fI(cb2Bool(r)))
	add("proc.create.piped", agent.COMMAND_PROC, "0", fI(agent.DEMON_COMMAND_PROC_CREATE), dW(gen.Pick(r, cb2Procs)), fI(cb2Pid(r)), fI(1), fI(1), fI(cb2Bool(r)))
	add("proc.create.fail", agent.COMMAND_PROC, "1", fI(agent.DEMON_COMMAND_PROC_CREATE), dW(gen.Pick(r, cb2Procs)), fI(0), fI(0), fI(1), fI(1))
	add("proc.memory", agent.COMMAND_PROC, "1", cat([]fld{fI(agent.DEMON_COMMAND_PROC_MEMORY), fI(cb2Pid(r)), fI(gen.Pick(r, []uint32{0, 0x40, 0x04}))},
		rep(r.Intn(4), func() []fld {
			return []fld{fQ(cb2Ptr(r)), fI(uint32(0x1000 * (1 + r.Intn(64)))), fI(gen.Pick(r, []uint32{0x02, 0x04, 0x20, 0x40, 0x77})), fI(0x1000), fI(gen.Pick(r, []uint32{0x20000, 0x40000, 0x1000000}))}
		}))...)
	add("proc.memory.fail", agent.COMMAND_PROC, "1", fI(agent.DEMON_COMMAND_PROC_MEMORY)) // ProcessOpen failed: nothing added after the sub-command (477-478,551)
	add("proc.kill.ok", agent.COMMAND_PROC, "1", fI(agent.DEMON_COMMAND_PROC_KILL), fI(1), fI(cb2Pid(r)))
	add("proc.kill.fail", agent.COMMAND_PROC, "1", fI(agent.DEMON_COMMAND_PROC_KILL), fI(0), fI(cb2Pid(r)))
	add("proc.blockdll", agent.COMMAND_PROC, "?", fI(5), fI(cb2Bool(r))) // no such case in CommandProc: never sent

	// ---------------------------------------------------------------- COMMAND_PROC_LIST (CommandProcList, Command.c:562-673): one package (661)
	procRow := func() []fld {
		return []fld{fY(utf16le([]rune(gen.Pick(r, cb2Procs)))), fI(cb2Pid(r)), fI(cb2Bool(r)), fI(cb2Pid(r)), fI(uint32(r.Intn(3))), fI(uint32(1 + r.Intn(40))), fY(utf16le([]rune(gen.Pick(r, cb2Users))))}
	}
	add("proclist.console", agent.COMMAND_PROC_LIST, "1", cat([]fld{fI(0)}, rep(1+r.Intn(5), procRow))...)
	add("proclist.ui", agent.COMMAND_PROC_LIST, "1", cat([]fld{fI(1)}, rep(1+r.Intn(5), procRow))...)

	// ---------------------------------------------------------------- COMMAND_PROC_PPIDSPOOF: not in DemonCommands[] (Command.c:16-42): never sent
	add("ppidspoof", agent.COMMAND_PROC_PPIDSPOOF, "?", fI(cb2Pid(r)))

	// ---------------------------------------------------------------- COMMAND_INLINEEXECUTE (CoffeeLdr.c)
	// VehDebugger sends EXCEPTION and resumes at CoffeeFunctionReturn (32-60): CoffeeExecuteFunction returns TRUE and
	// CoffeeLdr sends RAN_OK afterwards (770-781).  SYMBOL_NOT_FOUND is sent by CoffeeProcessSymbol (232-238) or
	// CoffeeExecuteFunction (350-360), both return FALSE, and CoffeeLdr then sends COULD_NO_RUN (782-787).
	add("ie.exception", agent.COMMAND_INLINEEXECUTE, "0", fI(agent.COMMAND_INLINEEXECUTE_EXCEPTION), fI(gen.Pick(r, []uint32{0xC0000005, 0xC0000094, 0x80000003})), fQ(cb2Ptr(r)))
	add("ie.symbol-not-found", agent.COMMAND_INLINEEXECUTE, "0", fI(agent.COMMAND_INLINEEXECUTE_SYMBOL_NOT_FOUND), dS(gen.Pick(r, []string{"__imp_KERNEL32$NoSuchFunction", "go", "__imp_BeaconNope"})))
	add("ie.ran-ok", agent.COMMAND_INLINEEXECUTE, "1", fI(agent.COMMAND_INLINEEXECUTE_RAN_OK))
	add("ie.could-not-run", agent.COMMAND_INLINEEXECUTE, "1", fI(agent.COMMAND_INLINEEXECUTE_COULD_NO_RUN))
	// BOF output travels as BEACON_OUTPUT (ObjectApi.c:264-299,313-321); COMMAND_INLINEEXECUTE with a CALLBACK_* type is never sent
	add("ie.output", agent.COMMAND_INLINEEXECUTE, "?", fI(agent.CALLBACK_OUTPUT), dS("bof says hi"))
	add("ie.error", agent.COMMAND_INLINEEXECUTE, "?", fI(agent.CALLBACK_ERROR), dS("bof says no"))
	// BEACON_OUTPUT types genCallback has not: emitted while the BOF runs, RAN_OK / COULD_NO_RUN always follows
	add("bo.output.oem", agent.BEACON_OUTPUT, "0", fI(agent.CALLBACK_OUTPUT_OEM), dW("oem text ü"))
	add("bo.error", agent.BEACON_OUTPUT, "0", fI(agent.CALLBACK_ERROR), dS("beacon error text"))
	add("bo.output.utf8", agent.BEACON_OUTPUT, "0", fI(agent.CALLBACK_OUTPUT_UTF8), dS("utf8 text ü"))

	// ---------------------------------------------------------------- COMMAND_ASSEMBLY_INLINE_EXECUTE (Dotnet.c, Command.c:1708-1790)
	// PATCHED (Dotnet.c:92-126) is always followed by NET_VERSION (138-141).  After NET_VERSION: FAILED, DEMON_OUTPUT or nothing.
	// ENTRYPOINT_EXECUTED (291-294, inside the comment 226-306) and FINISHED (363-365, inside the comment 359-369) only exist in commented-out code: never sent.
	// FAILED (Command.c:1777-1779) is the last package: DotnetClose sends nothing.
	add("dotnet.patched", agent.COMMAND_ASSEMBLY_INLINE_EXECUTE, "0", fI(agent.DOTNET_INFO_PATCHED))
	add("dotnet.netversion", agent.COMMAND_ASSEMBLY_INLINE_EXECUTE, "?", fI(agent.DOTNET_INFO_NET_VERSION), dW(gen.Pick(r, []string{"v4.0.30319", "v2.0.50727"})))
	add("dotnet.entrypoint", agent.COMMAND_ASSEMBLY_INLINE_EXECUTE, "?", fI(agent.DOTNET_INFO_ENTRYPOINT), fI(cb2Pid(r)))
	add("dotnet.finished", agent.COMMAND_ASSEMBLY_INLINE_EXECUTE, "?", fI(agent.DOTNET_INFO_FINISHED))
	add("dotnet.failed", agent.COMMAND_ASSEMBLY_INLINE_EXECUTE, "1", fI(agent.DOTNET_INFO_FAILED))
	// COMMAND_ASSEMBLY_LIST_VERSIONS (Command.c:1792-1863): one package (1862)
	add("dotnet.versions", agent.COMMAND_ASSEMBLY_LIST_VERSIONS, "1", rep(1+r.Intn(3), func() []fld { return []fld{dW(gen.Pick(r, []string{"v4.0.30319", "v2.0.50727"}))} })...)
	add("dotnet.versions.none", agent.COMMAND_ASSEMBLY_LIST_VERSIONS, "1")

	// ---------------------------------------------------------------- COMMAND_JOB (CommandJob, Command.c:188-261: one package at 260; Jobs.c:114-119 for JOB_DIED)
	add("job.list", agent.COMMAND_JOB, "1", cat([]fld{fI(agent.DEMON_COMMAND_JOB_LIST)},
		rep(r.Intn(4), func() []fld { return []fld{fI(cb2Pid(r)), fI(uint32(1 + r.Intn(3))), fI(uint32(1 + r.Intn(3)))} }))...)
	add("job.suspend", agent.COMMAND_JOB, "1", fI(agent.DEMON_COMMAND_JOB_SUSPEND), fI(cb2Pid(r)), fI(cb2Bool(r)))
	add("job.resume", agent.COMMAND_JOB, "1", fI(agent.DEMON_COMMAND_JOB_RESUME), fI(cb2Pid(r)), fI(cb2Bool(r)))
	add("job.kill", agent.COMMAND_JOB, "1", fI(agent.DEMON_COMMAND_JOB_KILL_REMOVE), fI(cb2Pid(r)), fI(cb2Bool(r)))
	add("job.died", agent.COMMAND_JOB, "1", fI(agent.DEMON_COMMAND_JOB_DIED)) // after the last AnonPipesRead; the job is removed (Jobs.c:114-139)

	// ---------------------------------------------------------------- injection
	// CommandInjectDLL (Command.c:1203-1245): status package is the last one (1243-1244).
	// CommandInjectShellcode (1266-1371): last one (1369-1370); the spawned process is NOT piped (1323: Piped=FALSE).
	// CommandSpawnDLL (1247-1264): DllSpawnReflective creates the target with Piped=TRUE (Inject.c:338) => the process is a
	// tracked job of this request id (Win32.c:777-778): DEMON_OUTPUT / JOB_DIED follow (Jobs.c:102-139), also when the
	// injection into the created process failed.  Only "could not spawn" (0x1003) leaves no job behind.
	add("inject.dll.ok", agent.COMMAND_INJECT_DLL, "1", fI(0))
	add("inject.dll.fail", agent.COMMAND_INJECT_DLL, "1", fI(gen.Pick(r, []uint32{1, 0x1001, 0x1002})))
	add("inject.shellcode", agent.COMMAND_INJECT_SHELLCODE, "1", fI(uint32(r.Intn(4))))
	add("spawndll.ok", agent.COMMAND_SPAWNDLL, "0", fI(0))
	add("spawndll.injectfail", agent.COMMAND_SPAWNDLL, "0", fI(gen.Pick(r, []uint32{1, 0x1001, 0x1002})))
	add("spawndll.spawnfail", agent.COMMAND_SPAWNDLL, "1", fI(cb2InjSpawnFailed))

	// ---------------------------------------------------------------- DEMON_INFO (verbose mode): sent from inside MmVirtualAlloc / MmVirtualProtect /
	// ProcessCreate (Memory.c:111-118,175-183; Win32.c:601-602,737-763) while a handler is still running; every caller
	// (inject, spawn, BOF loader, proc create) sends its own result package afterwards.  MEM_EXEC is never sent.
	add("info.memalloc", agent.DEMON_INFO, "0", fI(agent.DEMON_INFO_MEM_ALLOC), fQ(cb2Ptr(r)), fI(uint32(0x1000*(1+r.Intn(16)))), fI(gen.Pick(r, []uint32{0x04, 0x20, 0x40})))
	add("info.memprotect", agent.DEMON_INFO, "0", fI(agent.DEMON_INFO_MEM_PROTECT), fQ(cb2Ptr(r)), fI(uint32(0x1000*(1+r.Intn(16)))), fI(0x04), fI(0x20))
	add("info.proccreate", agent.DEMON_INFO, "0", fI(cb2DemonInfoProcCreate), dW(gen.Pick(r, cb2Procs)), fI(cb2Pid(r)))
	add("info.memexec", agent.DEMON_INFO, "?", fI(agent.DEMON_INFO_MEM_EXEC), fQ(cb2Ptr(r)), fI(cb2Pid(r)))

	// ---------------------------------------------------------------- COMMAND_TOKEN (CommandToken, Command.c:1373-1706): one package at 1705
	// (Token::Steal returns without any package on failure: 1421-1439)
	add("token.impersonate.ok", agent.COMMAND_TOKEN, "1", fI(agent.DEMON_COMMAND_TOKEN_IMPERSONATE), fI(1), dS(gen.Pick(r, cb2Users)))
	add("token.impersonate.fail", agent.COMMAND_TOKEN, "1", fI(agent.DEMON_COMMAND_TOKEN_IMPERSONATE), fI(0), dS(gen.Pick(r, cb2Users)))
	add("token.impersonate.notfound", agent.COMMAND_TOKEN, "1", fI(agent.DEMON_COMMAND_TOKEN_IMPERSONATE), fI(0), fI(0)) // 1399-1400, after the ERROR_TOKEN package
	add("token.steal", agent.COMMAND_TOKEN, "1", fI(agent.DEMON_COMMAND_TOKEN_STEAL), fY(utf16le([]rune(gen.Pick(r, cb2Users)))), fI(uint32(r.Intn(9))), fI(cb2Pid(r)))
	add("token.list", agent.COMMAND_TOKEN, "1", cat([]fld{fI(agent.DEMON_COMMAND_TOKEN_LIST)},
		rep(1+r.Intn(3), func() []fld {
			return []fld{fI(uint32(r.Intn(9))), fI(uint32(0x100 + 4*r.Intn(200))), dW(gen.Pick(r, cb2Users)), fI(cb2Pid(r)), fI(uint32(1 + r.Intn(3))), fI(cb2Bool(r))}
		}))...)
	add("token.list.empty", agent.COMMAND_TOKEN, "1", fI(agent.DEMON_COMMAND_TOKEN_LIST))
	add("token.privs.list", agent.COMMAND_TOKEN, "1", cat([]fld{fI(agent.DEMON_COMMAND_TOKEN_PRIVSGET_OR_LIST), fI(1)},
		rep(1+r.Intn(4), func() []fld {
			return []fld{dS(gen.Pick(r, []string{"SeDebugPrivilege", "SeImpersonatePrivilege", "SeShutdownPrivilege"})), fI(gen.Pick(r, []uint32{0, 2, 3}))}
		}))...)
	add("token.privs.get", agent.COMMAND_TOKEN, "1", fI(agent.DEMON_COMMAND_TOKEN_PRIVSGET_OR_LIST), fI(0), fI(cb2Bool(r)), dS("SeDebugPrivilege"))
	add("token.make.ok", agent.COMMAND_TOKEN, "1", fI(agent.DEMON_COMMAND_TOKEN_MAKE), dW(gen.Pick(r, []string{"LAB\\svc", "DOM\\admin"})))
	add("token.make.fail", agent.COMMAND_TOKEN, "1", fI(agent.DEMON_COMMAND_TOKEN_MAKE)) // nothing added (1550-1590)
	add("token.getuid", agent.COMMAND_TOKEN, "1", fI(agent.DEMON_COMMAND_TOKEN_GET_UID), fI(cb2Bool(r)), fY(utf16le([]rune(gen.Pick(r, cb2Users)))))
	add("token.getuid.fail", agent.COMMAND_TOKEN, "1", fI(agent.DEMON_COMMAND_TOKEN_GET_UID)) // TokenCurrentHandle failed: error package, nothing added (1614-1617)
	add("token.revert.ok", agent.COMMAND_TOKEN, "1", fI(agent.DEMON_COMMAND_TOKEN_REVERT), fI(1))
	add("token.revert.fail", agent.COMMAND_TOKEN, "1", fI(agent.DEMON_COMMAND_TOKEN_REVERT), fI(0)) // the error package is queued BEFORE this one (1641-1642 vs 1705)
	add("token.remove", agent.COMMAND_TOKEN, "1", fI(agent.DEMON_COMMAND_TOKEN_REMOVE), fI(cb2Bool(r)), fI(uint32(r.Intn(9))))
	add("token.clear", agent.COMMAND_TOKEN, "1", fI(agent.DEMON_COMMAND_TOKEN_CLEAR))
	add("token.find.ok", agent.COMMAND_TOKEN, "1", func() []fld {
		n := r.Intn(4)
		return cat([]fld{fI(agent.DEMON_COMMAND_TOKEN_FIND_TOKENS), fI(1), fI(uint32(n))}, rep(n, func() []fld {
			return []fld{dW(gen.Pick(r, cb2Users)), fI(cb2Pid(r)), fI(uint32(4 * r.Intn(300))), fI(gen.Pick(r, []uint32{0x1000, 0x2000, 0x3000, 0x4000})), fI(uint32(r.Intn(4))), fI(uint32(1 + r.Intn(2)))}
		}))
	}()...)
	add("token.find.fail", agent.COMMAND_TOKEN, "1", fI(agent.DEMON_COMMAND_TOKEN_FIND_TOKENS), fI(0)) // ListTokens failed: only Success (1679-1681)

	// ---------------------------------------------------------------- COMMAND_ERROR (PackageTransmitError, Package.c:471-484)
	// ERROR_TOKEN: sent by Token::Impersonate for an unknown token id, and the handler then still sends its own package
	// (Command.c:1398-1400,1705).  (The other sender, ImpersonateTokenFromVault (Token.c:1267), is only called with an id TokenAdd just returned.)
	// ERROR_WIN32: last package for FS cd/remove/mkdir/download/upload, Net domain/logons/sessions, ProcList (handler destroys its own
	// package), but followed by the handler's package for FS copy/move/pwd, Proc modules, Token getuid/revert, InjectDLL, Config, Net group/users, Job kill.
	add("error.token", agent.COMMAND_ERROR, "0", fI(agent.ERROR_TOKEN), fI(1))
	add("error.win32", agent.COMMAND_ERROR, "?", fI(agent.ERROR_WIN32_LASTERROR), fI(gen.Pick(r, []uint32{2, 5, 87, 126, 1168, 0xdead})))

	// ---------------------------------------------------------------- COMMAND_CONFIG (CommandConfig, Command.c:1865-2082): one package (2081)
	add("config.memalloc", agent.COMMAND_CONFIG, "1", fI(agent.CONFIG_MEMORY_ALLOC), fI(uint32(r.Intn(3))))
	add("config.memexec", agent.COMMAND_CONFIG, "1", fI(agent.CONFIG_MEMORY_EXECUTE), fI(uint32(r.Intn(3))))
	add("config.spawn64", agent.COMMAND_CONFIG, "1", fI(agent.CONFIG_INJECT_SPAWN64), dW("C:\\Windows\\System32\\notepad.exe"))
	add("config.spawn32", agent.COMMAND_CONFIG, "1", fI(agent.CONFIG_INJECT_SPAWN32), dW("C:\\Windows\\SysWOW64\\notepad.exe"))
	add("config.killdate", agent.COMMAND_CONFIG, "1", fI(agent.CONFIG_KILLDATE), fQ(gen.Pick(r, []uint64{0, 133500000000000000})))
	add("config.workinghours", agent.COMMAND_CONFIG, "1", fI(agent.CONFIG_WORKINGHOURS), fI(gen.Pick(r, []uint32{0, 1<<22 | 9<<17 | 17<<6})))
	add("config.spfthreadstart", agent.COMMAND_CONFIG, "1", fI(agent.CONFIG_IMPLANT_SPFTHREADSTART), dS("ntdll.dll"), dS("RtlUserThreadStart"))
	add("config.sleeptechnique", agent.COMMAND_CONFIG, "1", fI(agent.CONFIG_IMPLANT_SLEEP_TECHNIQUE), fI(uint32(r.Intn(4))))
	add("config.verbose", agent.COMMAND_CONFIG, "1", fI(agent.CONFIG_IMPLANT_VERBOSE), fI(cb2Bool(r)))
	add("config.coffeethreaded", agent.COMMAND_CONFIG, "1", fI(agent.CONFIG_IMPLANT_COFFEE_THREADED), fI(cb2Bool(r)))
	add("config.coffeeveh", agent.COMMAND_CONFIG, "1", fI(agent.CONFIG_IMPLANT_COFFEE_VEH), fI(cb2Bool(r)))
	add("config.injecttechnique", agent.COMMAND_CONFIG, "1", fI(agent.CONFIG_INJECT_TECHNIQUE), fI(uint32(r.Intn(4))))
	add("config.spoofaddr", agent.COMMAND_CONFIG, "1", fI(agent.CONFIG_INJECT_SPOOFADDR), dS("kernel32.dll"), dS("BaseThreadInitThunk"))
	add("config.unknown", agent.COMMAND_CONFIG, "1", fI(uint32(200+r.Intn(50))), fI(0)) // default: PackageAddInt32( Package, 0 ) (2076-2078)

	// ---------------------------------------------------------------- COMMAND_SCREENSHOT (CommandScreenshot, Command.c:2084-2106): one package
	add("screenshot.ok", agent.COMMAND_SCREENSHOT, "1", fI(1), fY(append([]byte("BM"), r.Bytes(30+r.Intn(60))...)))
	add("screenshot.empty", agent.COMMAND_SCREENSHOT, "1", fI(1), fY(nil))
	add("screenshot.fail", agent.COMMAND_SCREENSHOT, "1", fI(0))

	// ---------------------------------------------------------------- COMMAND_NET (CommandNet, Command.c:2109-2461): one package (2460); on
	// errors in domain/logons/sessions only the error package is sent
	host := func() fld { return dW(gen.Pick(r, cb2Hosts)) }
	add("net.domain", agent.COMMAND_NET, "1", fI(agent.DEMON_NET_COMMAND_DOMAIN), dS("lab.local"))
	add("net.domain.none", agent.COMMAND_NET, "1", fI(agent.DEMON_NET_COMMAND_DOMAIN), dS(""))
	add("net.logons", agent.COMMAND_NET, "1", cat([]fld{fI(agent.DEMON_NET_COMMAND_LOGONS), host()},
		rep(r.Intn(4), func() []fld { return []fld{dW(gen.Pick(r, []string{"bob", "alice", "WS-7$"}))} }))...)
	add("net.sessions", agent.COMMAND_NET, "1", cat([]fld{fI(agent.DEMON_NET_COMMAND_SESSIONS), host()},
		rep(r.Intn(3), func() []fld {
			return []fld{dW("\\\\10.0.0.7"), dW("bob"), fI(uint32(r.Intn(100000))), fI(uint32(r.Intn(1000)))}
		}))...)
	add("net.computer", agent.COMMAND_NET, "1", fI(agent.DEMON_NET_COMMAND_COMPUTER))
	add("net.dclist", agent.COMMAND_NET, "1", fI(agent.DEMON_NET_COMMAND_DCLIST))
	add("net.share", agent.COMMAND_NET, "1", cat([]fld{fI(agent.DEMON_NET_COMMAND_SHARE), host()},
		rep(r.Intn(3), func() []fld {
			return []fld{dW(gen.Pick(r, []string{"ADMIN$", "C$", "IPC$"})), dW("C:\\Windows"), dW("Remote Admin"), fI(uint32(r.Intn(4)))}
		}))...)
	add("net.localgroup", agent.COMMAND_NET, "1", cat([]fld{fI(agent.DEMON_NET_COMMAND_LOCALGROUP), host()},
		rep(r.Intn(3), func() []fld { return []fld{dW("Administrators"), dW("full access")} }))...)
	add("net.group", agent.COMMAND_NET, "1", cat([]fld{fI(agent.DEMON_NET_COMMAND_GROUP), host()},
		rep(r.Intn(3), func() []fld { return []fld{dW("Domain Admins"), dW("")} }))...)
	add("net.users", agent.COMMAND_NET, "1", cat([]fld{fI(agent.DEMON_NET_COMMAND_USERS), host()},
		rep(r.Intn(4), func() []fld { return []fld{dW(gen.Pick(r, []string{"bob", "Administrator", "Guest"})), fI(cb2Bool(r))} }))...)

	// ---------------------------------------------------------------- COMMAND_TRANSFER (CommandTransfer, Command.c:2608-2737): one package (2736), except
	// Transfer::remove of a known file id, which first queues Package2 = [remove][FileID][DOWNLOAD_REASON_REMOVED] (2722-2730)
	// and then the result [remove][Found][FileID].
	fid := r.U32() | 0x100
	add("transfer.list", agent.COMMAND_TRANSFER, "1", cat([]fld{fI(agent.DEMON_COMMAND_TRANSFER_LIST)},
		rep(r.Intn(3), func() []fld { return []fld{fI(r.U32()), fI(uint32(r.Intn(100000))), fI(uint32(1 + r.Intn(3)))} }))...)
	add("transfer.stop", agent.COMMAND_TRANSFER, "1", fI(agent.DEMON_COMMAND_TRANSFER_STOP), fI(cb2Bool(r)), fI(fid))
	add("transfer.resume", agent.COMMAND_TRANSFER, "1", fI(agent.DEMON_COMMAND_TRANSFER_RESUME), fI(cb2Bool(r)), fI(fid))
	add("transfer.remove.notfound", agent.COMMAND_TRANSFER, "1", fI(agent.DEMON_COMMAND_TRANSFER_REMOVE), fI(0), fI(fid))
	add("transfer.remove.notice", agent.COMMAND_TRANSFER, "0", fI(agent.DEMON_COMMAND_TRANSFER_REMOVE), fI(fid), fI(1))
	add("transfer.remove.found", agent.COMMAND_TRANSFER, "1", fI(agent.DEMON_COMMAND_TRANSFER_REMOVE), fI(1), fI(fid))

	// ---------------------------------------------------------------- COMMAND_KERBEROS (CommandKerberos, Command.c:3077-3235): one package (3234)
	add("krb.luid.ok", agent.COMMAND_KERBEROS, "1", fI(agent.KERBEROS_COMMAND_LUID), fI(1), fI(0), fI(uint32(0x3e7+r.Intn(0x10000))))
	add("krb.luid.fail", agent.COMMAND_KERBEROS, "1", fI(agent.KERBEROS_COMMAND_LUID), fI(0))
	ticket := func() []fld {
		return []fld{dW("bob"), dW("LAB.LOCAL"), dW("krbtgt/LAB.LOCAL"), dW("LAB.LOCAL"),
			fI(0xd53e8000), fI(0x01da0000), fI(0xd53e8000), fI(0x01da0001), fI(0xd53e8000), fI(0x01da0002),
			fI(gen.Pick(r, []uint32{18, 17, 23})), fI(0x40e10000), fY(r.Bytes(r.Intn(24)))}
	}
	session := func() []fld {
		nt := r.Intn(3)
		s := []fld{dW("bob"), dW("LAB"), fI(uint32(0x3e7 + r.Intn(0x10000))), fI(0), fI(uint32(r.Intn(3))), dW("S-1-5-21-1-2-3-1104"),
			fI(0xd53e8000), fI(0x01da0000), fI(gen.Pick(r, []uint32{2, 3, 5, 9})), dW("Kerberos"), dW("DC01"), dW("LAB.LOCAL"), dW("bob@lab.local"), fI(uint32(nt))}
		return append(s, rep(nt, ticket)...)
	}
	add("krb.klist.ok", agent.COMMAND_KERBEROS, "1", func() []fld {
		ns := 1 + r.Intn(2)
		return cat([]fld{fI(agent.KERBEROS_COMMAND_KLIST), fI(1), fI(uint32(ns))}, rep(ns, session))
	}()...)
	add("krb.klist.fail", agent.COMMAND_KERBEROS, "1", fI(agent.KERBEROS_COMMAND_KLIST), fI(0), fI(0)) // Sessions == NULL: [FALSE][NumSessions = 0] (3137-3141)
	add("krb.purge", agent.COMMAND_KERBEROS, "1", fI(agent.KERBEROS_COMMAND_PURGE), fI(cb2Bool(r)))
	add("krb.ptt", agent.COMMAND_KERBEROS, "1", fI(agent.KERBEROS_COMMAND_PTT), fI(cb2Bool(r)))

	// ---------------------------------------------------------------- COMMAND_MEM_FILE (CommandMemFile, Command.c:3237-3261): one package per chunk task
	add("memfile", agent.COMMAND_MEM_FILE, "1", fI(r.U32()), fI(cb2Bool(r)))
	// COMMAND_PACKAGE_DROPPED replaces ONE too large package of a request (Package.c:298-314): final only if that package was
	add("pkgdropped", agent.COMMAND_PACKAGE_DROPPED, "?", fI(uint32(0x10000+r.Intn(0x100000))), fI(0x10000))

	// ---------------------------------------------------------------- COMMAND_FS (CommandFS, Command.c:675-1112): one package at 1107
	p1, p2 := gen.Pick(r, cb2Paths), gen.Pick(r, cb2Paths)
	add("fs.copy.ok", agent.COMMAND_FS, "1", fI(agent.DEMON_COMMAND_FS_COPY), fI(1), dW(p1), dW(p2))
	add("fs.copy.fail", agent.COMMAND_FS, "1", fI(agent.DEMON_COMMAND_FS_COPY), fI(0), dW(p1), dW(p2)) // error package first (1024-1030)
	add("fs.move.ok", agent.COMMAND_FS, "1", fI(agent.DEMON_COMMAND_FS_MOVE), fI(1), dW(p1), dW(p2))
	add("fs.move.fail", agent.COMMAND_FS, "1", fI(agent.DEMON_COMMAND_FS_MOVE), fI(0), dW(p1), dW(p2))
	add("fs.cat.ok", agent.COMMAND_FS, "1", fI(agent.DEMON_COMMAND_FS_CAT), dW(p1), fI(1), fY([]byte("line 1\r\nline 2\r\n")))
	add("fs.cat.fail", agent.COMMAND_FS, "1", fI(agent.DEMON_COMMAND_FS_CAT), dW(p1), fI(0), fY(nil))
	add("fs.pwd.fail", agent.COMMAND_FS, "1", fI(agent.DEMON_COMMAND_FS_GET_PWD)) // GetCurrentDirectoryW failed: error package, then only the sub-command (1065-1072,1107)
	add("fs.dir.fail", agent.COMMAND_FS, "1", fI(agent.DEMON_COMMAND_FS_DIR), fI(cb2Bool(r)), fI(cb2Bool(r)), dW("C:\\nope\\*"), fI(0))
	add("fs.dir.empty", agent.COMMAND_FS, "1", fI(agent.DEMON_COMMAND_FS_DIR), fI(0), fI(0), dW("C:\\empty\\*"), fI(1), dW("C:\\empty\\*"), fI(0), fI(0), fQ(0))
	dirItem := func(listOnly bool) func() []fld {
		return func() []fld {
			f := []fld{dW(gen.Pick(r, []string{"a.txt", "sub", "ünï.doc"}))}
			if !listOnly {
				f = append(f, fI(cb2Bool(r)), fQ(uint64(r.Intn(900000))), fI(uint32(1+r.Intn(28))), fI(uint32(1+r.Intn(12))), fI(2024), fI(uint32(r.Intn(60))), fI(uint32(r.Intn(24))))
			}
			return f
		}
	}
	add("fs.dir.explorer", agent.COMMAND_FS, "1", cat([]fld{fI(agent.DEMON_COMMAND_FS_DIR), fI(1), fI(0), dW("C:\\Users\\*"), fI(1), dW("C:\\Users\\*"), fI(2), fI(1), fQ(4242)}, rep(3, dirItem(false)))...)
	add("fs.dir.listonly", agent.COMMAND_FS, "1", cat([]fld{fI(agent.DEMON_COMMAND_FS_DIR), fI(0), fI(1), dW("C:\\Users\\*"), fI(1), dW("C:\\Users\\*"), fI(1), fI(1)}, rep(2, dirItem(true)))...)
	add("fs.dir.console", agent.COMMAND_FS, "1", cat([]fld{fI(agent.DEMON_COMMAND_FS_DIR), fI(0), fI(0), dW("C:\\Users\\*"), fI(1), dW("C:\\Users\\*"), fI(1), fI(1), fQ(77)}, rep(2, dirItem(false)))...)

	// ---------------------------------------------------------------- COMMAND_PIVOT (CommandPivot, Command.c:2463-2606): one package (2605) for list / connect /
	// disconnect.  (PivotPush sends SMB_DISCONNECT / SMB_COMMAND on its own with whatever request id was dispatched last: Pivot.c:270-311.)
	add("pivot.list", agent.COMMAND_PIVOT, "1", cat([]fld{fI(agent.DEMON_PIVOT_LIST)},
		rep(1+r.Intn(3), func() []fld { return []fld{fI(r.U32()), dW("\\\\.\\pipe\\demon_" + gen.Pick(r, []string{"a", "b", "c"}))} }))...)
	add("pivot.list.empty", agent.COMMAND_PIVOT, "1", fI(agent.DEMON_PIVOT_LIST))
	add("pivot.disconnect.ok", agent.COMMAND_PIVOT, "1", fI(agent.DEMON_PIVOT_SMB_DISCONNECT), fI(1), fI(uint32(0x500000+r.Intn(0xfff))))
	add("pivot.disconnect.fail", agent.COMMAND_PIVOT, "1", fI(agent.DEMON_PIVOT_SMB_DISCONNECT), fI(0), fI(uint32(0x500000+r.Intn(0xfff))))
	add("pivot.connect.fail", agent.COMMAND_PIVOT, "1", fI(agent.DEMON_PIVOT_SMB_CONNECT), fI(0), fI(gen.Pick(r, []uint32{2, 5, 53, 231})))
	kid := uint32(0x600000 + r.Intn(0xfff))
	add("pivot.connect.new", agent.COMMAND_PIVOT, "1", fI(agent.DEMON_PIVOT_SMB_CONNECT), fI(1), fY(initPackage(kid, kid, r.Bytes(32), r.Bytes(16), genRegInfo(r))))

	// ---------------------------------------------------------------- COMMAND_SOCKET (CommandSocket, Command.c:2739-3075; Socket.c)
	// rportfwd add / list, socks connect, failed write: one package (3074).  rportfwd remove / clear: the handler sends NOTHING
	// (2845-2847, 2867-2868); SocketFree later sends one RPORTFWD_REMOVE per freed socket with the request id dispatched last
	// (Socket.c:435-451); RPORTFWD_CLEAR is never sent.  OPEN / READ / CLOSE come from SocketPush (Socket.c:248-263,380-408,459-467), same stale id.
	sid := uint32(0x50 + r.Intn(4))
	add("socket.rportfwd.add.ok", agent.COMMAND_SOCKET, "1", fI(agent.SOCKET_COMMAND_RPORTFWD_ADD), fI(1), fI(sid), fI(cb2Ip(r)), fI(uint32(4000+r.Intn(999))), fI(cb2Ip(r)), fI(uint32(1+r.Intn(1000))))
	add("socket.rportfwd.add.fail", agent.COMMAND_SOCKET, "1", fI(agent.SOCKET_COMMAND_RPORTFWD_ADD), fI(0), fI(0), fI(cb2Ip(r)), fI(uint32(4000+r.Intn(999))), fI(cb2Ip(r)), fI(uint32(1+r.Intn(1000))))
	add("socket.rportfwd.list", agent.COMMAND_SOCKET, "1", cat([]fld{fI(agent.SOCKET_COMMAND_RPORTFWD_LIST)},
		rep(r.Intn(3), func() []fld { return []fld{fI(uint32(0x50 + r.Intn(4))), fI(cb2Ip(r)), fI(4444), fI(cb2Ip(r)), fI(80)} }))...)
	add("socket.rportfwd.clear", agent.COMMAND_SOCKET, "?", fI(agent.SOCKET_COMMAND_RPORTFWD_CLEAR), fI(cb2Bool(r)))
	add("socket.connect.ok", agent.COMMAND_SOCKET, "1", fI(agent.SOCKET_COMMAND_CONNECT), fI(1), fI(sid), fI(0))
	add("socket.connect.fail", agent.COMMAND_SOCKET, "1", fI(agent.SOCKET_COMMAND_CONNECT), fI(0), fI(sid), fI(10065))
	// failed write: [id][type][FALSE][WSA error] and, because the case has no break (2940-2942), the fields of Socket::Connect after it
	add("socket.write.fail", agent.COMMAND_SOCKET, "1", fI(agent.SOCKET_COMMAND_WRITE), fI(sid), fI(agent.SOCKET_TYPE_REVERSE_PROXY), fI(0), fI(10054), fI(0), fI(0), fI(10065))
	add("socket.read.fail", agent.COMMAND_SOCKET, "?", fI(agent.SOCKET_COMMAND_READ), fI(sid), fI(agent.SOCKET_TYPE_REVERSE_PROXY), fI(0), fI(10054))
	add("socket.close.proxy", agent.COMMAND_SOCKET, "?", fI(agent.SOCKET_COMMAND_CLOSE), fI(sid), fI(agent.SOCKET_TYPE_REVERSE_PROXY))

	return out
}
