package main

// C19 — equivalent configurations decode to the same result.
// A schema (attributes of four types, required or optional; nested, labelled, single or repeated
// blocks to depth 3) and a configuration for it are generated; the configuration is written in
// five forms — native syntax, native with shuffled items / comments / odd spacing, JSON syntax,
// split over two files that are merged, and with runs of repeated blocks replaced by `dynamic`
// blocks — and each form is decoded by the spec-driven decoder (hcldec) and by the tag-driven
// decoder (gohcl, into a struct type built with reflect.StructOf).  One fault may be planted
// (required attribute missing, unknown attribute, label missing): then every form must fail.

import (
	"encoding/json"
	"fmt"
	"reflect"
	"sort"
	"strings"

	hcl "Havoc/pkg/profile/yaotl"
	"Havoc/pkg/profile/yaotl/ext/dynblock"
	"Havoc/pkg/profile/yaotl/gohcl"
	"Havoc/pkg/profile/yaotl/hcldec"
	"Havoc/pkg/profile/yaotl/hclsyntax"
	"Havoc/pkg/profile/yaotl/hclwrite"
	hjson "Havoc/pkg/profile/yaotl/json"

	"github.com/zclconf/go-cty/cty"

	"verifharness/internal/gen"
)

func init() { commands["C19"] = runC19 }

type sAttr struct {
	name string
	ty   string // s n b l
	req  bool
}

type sBlock struct {
	ty      string
	labeled bool
	list    bool
	sch     *schema
}

type schema struct {
	attrs  []sAttr
	blocks []sBlock
}

type cBlock struct {
	ty    string
	label string
	body  *cBody
}

type cBody struct {
	attrs  map[string]string // name -> value in the notation s<hex> n<int> b0/b1 l(<s..>,..)
	order  []string
	blocks []*cBlock
}

// ---- notation (for the Lean side) ----

func (s *schema) str() string {
	var ps []string
	for _, a := range s.attrs {
		r := "o"
		if a.req {
			r = "r"
		}
		ps = append(ps, "a:"+a.name+":"+a.ty+":"+r)
	}
	for _, b := range s.blocks {
		f := ""
		if b.labeled {
			f += "L"
		}
		if b.list {
			f += "*"
		}
		ps = append(ps, "b:"+b.ty+":"+f+b.sch.str())
	}
	return "{" + strings.Join(ps, ",") + "}"
}

func (b *cBody) str() string {
	var ps []string
	for _, n := range b.order {
		ps = append(ps, "a:"+n+"="+b.attrs[n])
	}
	for _, bl := range b.blocks {
		ps = append(ps, "b:"+bl.ty+"["+hx([]byte(bl.label))+"]"+bl.body.str())
	}
	return "{" + strings.Join(ps, ",") + "}"
}

// ---- writing ----

// quoteLit: a quoted string literal that means exactly s (template markers escaped)
func quoteLit(s string) string {
	q := quoteHCL(s)
	q = strings.ReplaceAll(q, "${", "$${")
	q = strings.ReplaceAll(q, "%{", "%%{")
	return q
}

func valNative(v string) string {
	switch v[0] {
	case 's':
		return quoteLit(string(unhx(orDash(v[1:]))))
	case 'n':
		return v[1:]
	case 'b':
		if v == "b1" {
			return "true"
		}
		return "false"
	case 'l':
		var ps []string
		inner := v[2 : len(v)-1]
		if inner != "" {
			for _, p := range strings.Split(inner, ",") {
				ps = append(ps, valNative(p))
			}
		}
		return "[" + strings.Join(ps, ", ") + "]"
	}
	return "null"
}

// jsonTemplates: strings are written so that they mean themselves when read as templates (with an evaluation context)
var jsonTemplates bool

func valJSON(v string) any {
	switch v[0] {
	case 's':
		if jsonTemplates {
			t := string(unhx(orDash(v[1:])))
			t = strings.ReplaceAll(t, "${", "$${")
			return strings.ReplaceAll(t, "%{", "%%{")
		}
		return string(unhx(orDash(v[1:])))
	case 'n':
		var n json.Number = json.Number(v[1:])
		return n
	case 'b':
		return v == "b1"
	case 'l':
		out := []any{}
		inner := v[2 : len(v)-1]
		if inner != "" {
			for _, p := range strings.Split(inner, ",") {
				out = append(out, valJSON(p))
			}
		}
		return out
	}
	return nil
}

// heredocOf: a heredoc that means exactly t (t ends with a line end); the first line may begin with an interpolation
// of a string literal in column one, the flush form indents the other lines
func heredocOf(r *gen.Rng, t string) string {
	esc := func(l string) string {
		l = strings.ReplaceAll(l, "${", "$${")
		return strings.ReplaceAll(l, "%{", "%%{")
	}
	lines := strings.Split(strings.TrimSuffix(t, "\n"), "\n")
	flush := r.Bool()
	var b strings.Builder
	if flush {
		b.WriteString("<<-EOT\n")
	} else {
		b.WriteString("<<EOT\n")
	}
	ind := ""
	if flush && r.Bool() { // the flush form may be indented as a whole (every line, interpolated ones too): the loader takes it off again
		ind = strings.Repeat(" ", 1+r.Intn(6))
	}
	for i, l := range lines {
		switch {
		case (i == 0 || ind != "") && r.Chance(2, 3): // an interpolation (or a directive) at the start of the line
			if r.Bool() {
				b.WriteString(ind + "${" + quoteLit(l) + "}\n")
			} else {
				b.WriteString(ind + "%{ if true }" + esc(l) + "%{ endif }\n")
			}
		default:
			if ind != "" && strings.TrimSpace(l) == "" {
				b.WriteString(l + "\n") // a blank line stays as it is
			} else {
				b.WriteString(ind + esc(l) + "\n")
			}
		}
	}
	if flush {
		b.WriteString(ind + "  ")
	}
	b.WriteString("EOT\n")
	return b.String()
}

type writer struct {
	r       *gen.Rng
	shuffle bool
}

func (w *writer) body(b *cBody, ind string, sb *strings.Builder) {
	type item struct {
		f func()
	}
	var items []func()
	for _, n := range b.order {
		n := n
		items = append(items, func() {
			if w.shuffle && w.r.Chance(1, 4) {
				sb.WriteString(ind + gen.Pick(w.r, []string{"# c\n", "// c\n", "/* c */\n", "\n"}))
			}
			eq := " = "
			if w.shuffle {
				eq = gen.Pick(w.r, []string{" = ", "=", "   =\t"})
			}
			if v := b.attrs[n]; w.shuffle && v[0] == 's' && w.r.Chance(1, 2) {
				if t := string(unhx(orDash(v[1:]))); strings.HasSuffix(t, "\n") && !strings.Contains(t, "\r") {
					sb.WriteString(ind + n + eq + heredocOf(w.r, t))
					return
				}
			}
			sb.WriteString(ind + n + eq + valNative(b.attrs[n]) + "\n")
		})
	}
	// blocks of one type keep their relative order; groups by type move as a whole
	byType := map[string][]*cBlock{}
	var types []string
	for _, bl := range b.blocks {
		if _, ok := byType[bl.ty]; !ok {
			types = append(types, bl.ty)
		}
		byType[bl.ty] = append(byType[bl.ty], bl)
	}
	if !w.shuffle {
		for _, bl := range b.blocks {
			bl := bl
			items = append(items, func() { w.block(bl, ind, sb) })
		}
	} else {
		for _, t := range types {
			t := t
			items = append(items, func() {
				for _, bl := range byType[t] {
					w.block(bl, ind, sb)
				}
			})
		}
		for i := len(items) - 1; i > 0; i-- {
			j := w.r.Intn(i + 1)
			items[i], items[j] = items[j], items[i]
		}
	}
	for _, f := range items {
		f()
	}
}

func (w *writer) block(bl *cBlock, ind string, sb *strings.Builder) {
	hdr := ind + bl.ty
	if bl.label != "\x00none" {
		hdr += " " + quoteLit(bl.label)
	}
	sb.WriteString(hdr + " {\n")
	w.body(bl.body, ind+"  ", sb)
	sb.WriteString(ind + "}\n")
}

// JSON: blocks of a type are an array of objects (with a label level when labelled)
func jsonBody(b *cBody, s *schema) map[string]any {
	out := map[string]any{}
	for _, n := range b.order {
		out[n] = valJSON(b.attrs[n])
	}
	for _, sb := range s.blocks {
		var arr []any
		for _, bl := range b.blocks {
			if bl.ty != sb.ty {
				continue
			}
			inner := jsonBody(bl.body, sb.sch)
			if sb.labeled && bl.label != "\x00none" {
				arr = append(arr, map[string]any{bl.label: inner})
			} else {
				arr = append(arr, inner)
			}
		}
		if len(arr) > 0 {
			out[sb.ty] = arr
		}
	}
	// blocks of a type the schema does not know (planted faults) are not representable here
	return out
}

// dynamic form: a maximal run of >= 1 consecutive blocks of a repeated type becomes one dynamic block
func (w *writer) dynBody(b *cBody, s *schema, ind string, sb *strings.Builder, depth int) {
	for _, n := range b.order {
		sb.WriteString(ind + n + " = " + valNative(b.attrs[n]) + "\n")
	}
	i := 0
	for i < len(b.blocks) {
		bl := b.blocks[i]
		var sbk *sBlock
		for k := range s.blocks {
			if s.blocks[k].ty == bl.ty {
				sbk = &s.blocks[k]
			}
		}
		j := i
		for j < len(b.blocks) && b.blocks[j].ty == bl.ty {
			j++
		}
		run := b.blocks[i:j]
		if sbk != nil && sbk.list && w.r.Chance(2, 3) && dynOK(run, sbk.sch) {
			// for_each over objects holding the attribute values (and the label) of each block of the run
			it := fmt.Sprintf("it%d", depth)
			if w.r.Chance(1, 2) {
				it = bl.ty // the default iterator name: nested dynamic blocks of the same type shadow it
			}
			var objs []string
			for _, rb := range run {
				var fs []string
				for _, n := range rb.body.order {
					fs = append(fs, n+" = "+valNative(rb.body.attrs[n]))
				}
				fs = append(fs, "label__ = "+quoteLit(strings.TrimPrefix(rb.label, "\x00")))
				fs = append(fs, "inner__ = "+w.innerList(rb.body, sbk.sch))
				objs = append(objs, "{ "+strings.Join(fs, ", ")+" }")
			}
			sb.WriteString(ind + "dynamic " + quoteHCL(bl.ty) + " {\n")
			sb.WriteString(ind + "  for_each = [" + strings.Join(objs, ", ") + "]\n")
			if it != bl.ty {
				sb.WriteString(ind + "  iterator = " + it + "\n")
			}
			if sbk.labeled && run[0].label != "\x00none" {
				sb.WriteString(ind + "  labels = [" + it + ".value.label__]\n")
			}
			sb.WriteString(ind + "  content {\n")
			for _, n := range run[0].body.order {
				sb.WriteString(ind + "    " + n + " = " + it + ".value." + n + "\n")
			}
			// nested repeated blocks of the run's bodies: a nested dynamic block over inner__
			w.dynInner(run[0].body, sbk.sch, it, ind+"    ", sb, depth+1)
			sb.WriteString(ind + "  }\n" + ind + "}\n")
		} else {
			for _, rb := range run {
				hdr := ind + rb.ty
				if rb.label != "\x00none" {
					hdr += " " + quoteLit(rb.label)
				}
				sb.WriteString(hdr + " {\n")
				nsch := &schema{}
				if sbk != nil {
					nsch = sbk.sch
				}
				w.dynBody(rb.body, nsch, ind+"  ", sb, depth+1)
				sb.WriteString(ind + "}\n")
			}
		}
		i = j
	}
}

// a run can become a dynamic block when all its bodies have the same attributes and their nested
// blocks are all of one leaf list type (or there are none)
func dynOK(run []*cBlock, inner *schema) bool {
	first := strings.Join(run[0].body.order, ",")
	for _, rb := range run {
		// nested blocks are generated from inner__ only when their type is repeatable
		for _, nb := range rb.body.blocks {
			for _, isb := range inner.blocks {
				if isb.ty == nb.ty && !isb.list {
					return false
				}
			}
		}
		if strings.Join(rb.body.order, ",") != first {
			return false
		}
		if (rb.label == "\x00none") != (run[0].label == "\x00none") {
			return false
		}
		for _, nb := range rb.body.blocks {
			if len(nb.body.blocks) > 0 || nb.ty != rb.body.blocks[0].ty || nb.label != "\x00none" {
				return false
			}
			if strings.Join(nb.body.order, ",") != strings.Join(rb.body.blocks[0].body.order, ",") {
				return false
			}
		}
		if len(rb.body.blocks) > 0 != (len(run[0].body.blocks) > 0) {
			return false
		}
		if len(rb.body.blocks) > 0 && (rb.body.blocks[0].ty != run[0].body.blocks[0].ty ||
			strings.Join(rb.body.blocks[0].body.order, ",") != strings.Join(run[0].body.blocks[0].body.order, ",")) {
			return false
		}
	}
	return true
}

func (w *writer) innerList(b *cBody, s *schema) string {
	var objs []string
	for _, nb := range b.blocks {
		var fs []string
		for _, n := range nb.body.order {
			fs = append(fs, n+" = "+valNative(nb.body.attrs[n]))
		}
		objs = append(objs, "{ "+strings.Join(fs, ", ")+" }")
	}
	return "[" + strings.Join(objs, ", ") + "]"
}

func (w *writer) dynInner(first *cBody, s *schema, outerIt, ind string, sb *strings.Builder, depth int) {
	if len(first.blocks) == 0 {
		return
	}
	nb := first.blocks[0]
	var nsb *sBlock
	for k := range s.blocks {
		if s.blocks[k].ty == nb.ty {
			nsb = &s.blocks[k]
		}
	}
	if nsb == nil || !nsb.list {
		// not repeatable: cannot be generated dynamically; dynOK guarantees a single leaf type, so this
		// only happens for single blocks: written out (same content in every element is required)
		sb.WriteString(ind + nb.ty + " {\n")
		for _, n := range nb.body.order {
			sb.WriteString(ind + "  " + n + " = " + valNative(nb.body.attrs[n]) + "\n")
		}
		sb.WriteString(ind + "}\n")
		return
	}
	it := nb.ty // default iterator name; equal to the outer one when the types are equal: it must shadow
	sb.WriteString(ind + "dynamic " + quoteHCL(nb.ty) + " {\n")
	sb.WriteString(ind + "  for_each = " + outerIt + ".value.inner__\n")
	sb.WriteString(ind + "  content {\n")
	for _, n := range nb.body.order {
		sb.WriteString(ind + "    " + n + " = " + it + ".value." + n + "\n")
	}
	sb.WriteString(ind + "  }\n" + ind + "}\n")
}

// ---- decoding ----

func ctyType(t string) cty.Type {
	switch t {
	case "s":
		return cty.String
	case "n":
		return cty.Number
	case "b":
		return cty.Bool
	}
	return cty.List(cty.String)
}

func specOf(s *schema, labeled bool) hcldec.Spec {
	o := hcldec.ObjectSpec{}
	for _, a := range s.attrs {
		o[a.name] = &hcldec.AttrSpec{Name: a.name, Type: ctyType(a.ty), Required: a.req}
	}
	if labeled {
		o["label__"] = &hcldec.BlockLabelSpec{Index: 0, Name: "label"}
	}
	for _, b := range s.blocks {
		nested := specOf(b.sch, b.labeled)
		if b.list {
			o[b.ty] = &hcldec.BlockTupleSpec{TypeName: b.ty, Nested: nested}
		} else {
			o[b.ty] = &hcldec.BlockSpec{TypeName: b.ty, Nested: nested}
		}
	}
	return o
}

func goType(t string) reflect.Type {
	switch t {
	case "s":
		return reflect.TypeOf("")
	case "n":
		return reflect.TypeOf(0)
	case "b":
		return reflect.TypeOf(false)
	}
	return reflect.TypeOf([]string{})
}

func structOf(s *schema, labeled bool) reflect.Type {
	var fs []reflect.StructField
	i := 0
	add := func(t reflect.Type, tag string) {
		fs = append(fs, reflect.StructField{Name: fmt.Sprintf("F%d", i), Type: t, Tag: reflect.StructTag(`yaotl:"` + tag + `"`)})
		i++
	}
	if labeled {
		add(reflect.TypeOf(""), "label__,label")
	}
	for _, a := range s.attrs {
		k := "optional"
		if a.req {
			k = "attr"
		}
		t := goType(a.ty)
		if !a.req && a.ty != "l" {
			t = reflect.PtrTo(t) // distinguishes absent from zero
		}
		add(t, a.name+","+k)
	}
	for _, b := range s.blocks {
		nt := structOf(b.sch, b.labeled)
		if b.list {
			add(reflect.SliceOf(nt), b.ty+",block")
		} else {
			add(reflect.PtrTo(nt), b.ty+",block")
		}
	}
	return reflect.StructOf(fs)
}

// both decoders' results in one notation: {name=value,…} with absent optional attributes left out
func dumpCty(v cty.Value, s *schema, labeled bool) string {
	if v.IsNull() {
		return "null"
	}
	var ps []string
	m := v.AsValueMap()
	if labeled {
		ps = append(ps, "label__="+valStr(m["label__"]))
	}
	for _, a := range s.attrs {
		av := m[a.name]
		if av.IsNull() {
			continue
		}
		ps = append(ps, a.name+"="+valStr(av))
	}
	for _, b := range s.blocks {
		bv := m[b.ty]
		if b.list {
			var es []string
			for it := bv.ElementIterator(); it.Next(); {
				_, e := it.Element()
				es = append(es, dumpCty(e, b.sch, b.labeled))
			}
			ps = append(ps, b.ty+"=["+strings.Join(es, ",")+"]")
		} else if !bv.IsNull() {
			ps = append(ps, b.ty+"="+dumpCty(bv, b.sch, b.labeled))
		}
	}
	return "{" + strings.Join(ps, ",") + "}"
}

func dumpGoVal(v reflect.Value) string {
	switch v.Kind() {
	case reflect.String:
		return "s" + hx([]byte(v.String()))
	case reflect.Int:
		return fmt.Sprintf("n%d", v.Int())
	case reflect.Bool:
		if v.Bool() {
			return "t"
		}
		return "f"
	case reflect.Slice:
		var es []string
		for i := 0; i < v.Len(); i++ {
			es = append(es, dumpGoVal(v.Index(i)))
		}
		return "l(" + strings.Join(es, ",") + ")"
	}
	return "?"
}

func dumpGo(v reflect.Value, s *schema, labeled bool) string {
	var ps []string
	i := 0
	next := func() reflect.Value { f := v.Field(i); i++; return f }
	if labeled {
		ps = append(ps, "label__="+dumpGoVal(next()))
	}
	for _, a := range s.attrs {
		f := next()
		if f.Kind() == reflect.Ptr {
			if f.IsNil() {
				continue
			}
			f = f.Elem()
		}
		if a.ty == "l" && !a.req && f.IsNil() {
			continue
		}
		ps = append(ps, a.name+"="+dumpGoVal(f))
	}
	for _, b := range s.blocks {
		f := next()
		if b.list {
			var es []string
			for k := 0; k < f.Len(); k++ {
				es = append(es, dumpGo(f.Index(k), b.sch, b.labeled))
			}
			ps = append(ps, b.ty+"=["+strings.Join(es, ",")+"]")
		} else if !f.IsNil() {
			ps = append(ps, b.ty+"="+dumpGo(f.Elem(), b.sch, b.labeled))
		}
	}
	return "{" + strings.Join(ps, ",") + "}"
}

func decodeBoth(body hcl.Body, s *schema) string { return decodeBothCtx(body, s, nil) }

func decodeBothCtx(body hcl.Body, s *schema, ctx *hcl.EvalContext) string {
	return guard(func() string {
		v, d1 := hcldec.Decode(body, specOf(s, false), ctx)
		r1 := "ERR"
		if !d1.HasErrors() {
			r1 = dumpCty(v, s, false)
		}
		target := reflect.New(structOf(s, false))
		d2 := gohcl.DecodeBody(body, ctx, target.Interface())
		r2 := "ERR"
		if !d2.HasErrors() {
			r2 = dumpGo(target.Elem(), s, false)
		}
		// the tag-driven decoder once more, in two steps: blocks (and labels) first, the attributes from the left-over body
		t3 := reflect.New(structOfSplit(s, false))
		d3 := gohcl.DecodeBody(body, ctx, t3.Interface())
		r3 := "ERR"
		if !d3.HasErrors() {
			if out, ok := dumpGoSplit(t3.Elem(), s, false, ctx); ok {
				r3 = out
			}
		}
		return r1 + "|" + r2 + "|" + r3
	})
}

var bodyType = reflect.TypeOf((*hcl.Body)(nil)).Elem()

// structOfSplit: like structOf, but the attributes are not fields: they stay in a `remain` body, decoded afterwards
func structOfSplit(s *schema, labeled bool) reflect.Type {
	var fs []reflect.StructField
	i := 0
	add := func(t reflect.Type, tag string) {
		fs = append(fs, reflect.StructField{Name: fmt.Sprintf("F%d", i), Type: t, Tag: reflect.StructTag(`yaotl:"` + tag + `"`)})
		i++
	}
	if labeled {
		add(reflect.TypeOf(""), "label__,label")
	}
	for _, b := range s.blocks {
		nt := structOfSplit(b.sch, b.labeled)
		if b.list {
			add(reflect.SliceOf(nt), b.ty+",block")
		} else {
			add(reflect.PtrTo(nt), b.ty+",block")
		}
	}
	add(bodyType, ",remain")
	return reflect.StructOf(fs)
}

func dumpGoSplit(v reflect.Value, s *schema, labeled bool, ctx *hcl.EvalContext) (string, bool) {
	var ps []string
	i := 0
	next := func() reflect.Value { f := v.Field(i); i++; return f }
	if labeled {
		ps = append(ps, "label__="+dumpGoVal(next()))
	}
	var bs []string
	for _, b := range s.blocks {
		f := next()
		if b.list {
			var es []string
			for k := 0; k < f.Len(); k++ {
				e, ok := dumpGoSplit(f.Index(k), b.sch, b.labeled, ctx)
				if !ok {
					return "", false
				}
				es = append(es, e)
			}
			bs = append(bs, b.ty+"=["+strings.Join(es, ",")+"]")
		} else if !f.IsNil() {
			e, ok := dumpGoSplit(f.Elem(), b.sch, b.labeled, ctx)
			if !ok {
				return "", false
			}
			bs = append(bs, b.ty+"="+e)
		}
	}
	rest, _ := next().Interface().(hcl.Body)
	attrsOnly := &schema{attrs: s.attrs}
	target := reflect.New(structOf(attrsOnly, false))
	if rest != nil {
		if d := gohcl.DecodeBody(rest, ctx, target.Interface()); d.HasErrors() {
			return "", false
		}
	} else if len(s.attrs) > 0 {
		return "", false
	}
	inner := dumpGo(target.Elem(), attrsOnly, false) // "{a=…,b=…}"
	if inner != "{}" {
		ps = append(ps, strings.Split(inner[1:len(inner)-1], "\x00")...)
	}
	ps = append(ps, bs...)
	return "{" + strings.Join(ps, ",") + "}", true
}

func parseNative(src string) (hcl.Body, bool) {
	f, d := hclsyntax.ParseConfig([]byte(src), "x.hcl", hcl.InitialPos)
	if d.HasErrors() {
		return nil, false
	}
	return f.Body, true
}

// ---- generation ----

func runC19(c *Ctx) {
	if c.Replay != "" {
		for _, l := range replayLines(c.Replay) {
			c19Line(c, l)
		}
		return
	}
	r := c.R
	strs := []string{"", "a", "two words", "q\"uote", "ünï", "${x}", "line\nbreak", "5", "true", "%{y}", "100%{done}", "a %{ if c }b%{ endif }", "%%{", "$${", "two\nlines\n", "${x} first\n  indented\n", "one\n", "\n", " lead\n%{z}\n"}
	var genSchema func(d int) *schema
	genSchema = func(d int) *schema {
		s := &schema{}
		na := r.Intn(4)
		for i := 0; i < na; i++ {
			s.attrs = append(s.attrs, sAttr{fmt.Sprintf("at%d", i), gen.Pick(r, []string{"s", "n", "b", "l"}), r.Chance(1, 2)})
		}
		if d < 3 {
			nb := r.Intn(3)
			names := []string{"blk", "item", "blk"}
			used := map[string]bool{}
			for i := 0; i < nb; i++ {
				n := gen.Pick(r, names)
				if used[n] {
					continue
				}
				used[n] = true
				s.blocks = append(s.blocks, sBlock{n, r.Chance(1, 3), r.Chance(2, 3), genSchema(d + 1)})
			}
		}
		return s
	}
	val := func(t string) string {
		switch t {
		case "s":
			return "s" + hx([]byte(gen.Pick(r, strs)))
		case "n":
			return fmt.Sprintf("n%d", gen.Pick(r, []int{0, 1, 7, 42, 65536, -3, 4294967296, 9007199254740992, 9007199254740993, 9223372036854775807, -9223372036854775808, -9007199254740993}))
		case "b":
			return gen.Pick(r, []string{"b0", "b1"})
		}
		var ps []string
		for i := 0; i < r.Intn(3); i++ {
			ps = append(ps, "s"+hx([]byte(gen.Pick(r, strs))))
		}
		return "l(" + strings.Join(ps, ",") + ")"
	}
	var genBody func(s *schema) *cBody
	genBody = func(s *schema) *cBody {
		b := &cBody{attrs: map[string]string{}}
		for _, a := range s.attrs {
			if a.req || r.Chance(1, 2) {
				b.attrs[a.name] = val(a.ty)
				b.order = append(b.order, a.name)
			}
		}
		for _, sb := range s.blocks {
			n := 1
			if sb.list {
				n = r.Intn(4)
			} else if r.Chance(1, 3) {
				n = 0
			}
			for i := 0; i < n; i++ {
				lbl := "\x00none"
				if sb.labeled {
					lbl = gen.Pick(r, []string{"l1", "two words", "x"})
				}
				b.blocks = append(b.blocks, &cBlock{sb.ty, lbl, genBody(sb.sch)})
			}
		}
		return b
	}
	for c.Lines < c.N {
		s := genSchema(0)
		b := genBody(s)
		fault := "none"
		if r.Chance(1, 5) {
			switch r.Intn(3) {
			case 0: // a required attribute of the top level goes missing
				for _, a := range s.attrs {
					if a.req {
						delete(b.attrs, a.name)
						var o []string
						for _, n := range b.order {
							if n != a.name {
								o = append(o, n)
							}
						}
						b.order = o
						fault = "missing:" + a.name
						break
					}
				}
			case 1:
				b.attrs["nosuch"] = "n1"
				b.order = append(b.order, "nosuch")
				fault = "unknown:nosuch"
			default: // a labelled block without its label
				for _, bl := range b.blocks {
					if bl.label != "\x00none" {
						bl.label = "\x00none"
						fault = "nolabel:" + bl.ty
						break
					}
				}
			}
		}
		c.Count("fault." + strings.SplitN(fault, ":", 2)[0])
		total := len(b.order) + len(b.blocks)
		cut := 0
		if total > 0 {
			cut = r.Intn(total + 1)
		}
		c19Line(c, fmt.Sprintf("equiv schema=%s cfg=%s fault=%s cut=%d seed=%d", s.str(), b.str(), fault, cut, r.Intn(1<<30)))
	}
}

// ---- parsing the notation back (replay) ----

func splitTopLevel(s string) []string {
	var out []string
	depth, start := 0, 0
	for i := 0; i < len(s); i++ {
		switch s[i] {
		case '{', '(', '[':
			depth++
		case '}', ')', ']':
			depth--
		case ',':
			if depth == 0 {
				out = append(out, s[start:i])
				start = i + 1
			}
		}
	}
	if start < len(s) {
		out = append(out, s[start:])
	}
	return out
}

func parseSchema(t string) *schema {
	s := &schema{}
	for _, it := range splitTopLevel(t[1 : len(t)-1]) {
		if strings.HasPrefix(it, "a:") {
			p := strings.Split(it, ":")
			s.attrs = append(s.attrs, sAttr{p[1], p[2], p[3] == "r"})
		} else {
			rest := it[2:]
			i := strings.IndexByte(rest, ':')
			ty := rest[:i]
			rest = rest[i+1:]
			j := strings.IndexByte(rest, '{')
			flags := rest[:j]
			s.blocks = append(s.blocks, sBlock{ty, strings.Contains(flags, "L"), strings.Contains(flags, "*"), parseSchema(rest[j:])})
		}
	}
	return s
}

func parseCfg(t string) *cBody {
	b := &cBody{attrs: map[string]string{}}
	for _, it := range splitTopLevel(t[1 : len(t)-1]) {
		if strings.HasPrefix(it, "a:") {
			i := strings.IndexByte(it, '=')
			n := it[2:i]
			b.attrs[n] = it[i+1:]
			b.order = append(b.order, n)
		} else {
			rest := it[2:]
			i := strings.IndexByte(rest, '[')
			j := strings.IndexByte(rest, ']')
			b.blocks = append(b.blocks, &cBlock{rest[:i], string(unhx(orDash(rest[i+1 : j]))), parseCfg(rest[j+1:])})
		}
	}
	return b
}

func c19Line(c *Ctx, in string) {
	c.Pending(in)
	parts := strings.Fields(in)
	if parts[0] == "reset" {
		c.Emit("reset")
		return
	}
	m := kvs(parts[1:])
	s := parseSchema(m["schema"])
	b := parseCfg(m["cfg"])
	fault := m["fault"]
	var cut, seed int
	fmt.Sscan(m["cut"], &cut)
	fmt.Sscan(m["seed"], &seed)
	r := gen.New(uint64(seed))
	{
		w := &writer{r: r}
		var f0, f1, f4 strings.Builder
		w.body(b, "", &f0)
		(&writer{r: r, shuffle: true}).body(b, "", &f1)
		js, _ := json.Marshal(jsonBody(b, s))
		w.dynBody(b, s, "", &f4, 0)
		// split: the first k items of the canonical order in file A, the rest in file B
		var fa, fb strings.Builder
		ba := &cBody{attrs: b.attrs}
		bb := &cBody{attrs: b.attrs}
		for i, n := range b.order {
			if i < cut {
				ba.order = append(ba.order, n)
			} else {
				bb.order = append(bb.order, n)
			}
		}
		for i, bl := range b.blocks {
			if len(b.order)+i < cut {
				ba.blocks = append(ba.blocks, bl)
			} else {
				bb.blocks = append(bb.blocks, bl)
			}
		}
		w.body(ba, "", &fa)
		w.body(bb, "", &fb)

		res := map[string]string{}
		if body, ok := parseNative(f0.String()); ok {
			res["native"] = decodeBoth(body, s)
		} else {
			res["native"] = "SYNTAX"
		}
		if body, ok := parseNative(f1.String()); ok {
			res["shuffled"] = decodeBoth(body, s)
		} else {
			res["shuffled"] = "SYNTAX"
		}
		if strings.HasPrefix(fault, "nolabel") {
			res["json"] = "skip" // a missing label cannot be written in the JSON form
		} else if jf, d := hjson.Parse(js, "x.json"); !d.HasErrors() {
			res["json"] = decodeBoth(jf.Body, s)
		} else {
			res["json"] = "SYNTAX"
		}
		fA, dA := hclsyntax.ParseConfig([]byte(fa.String()), "a.hcl", hcl.InitialPos)
		fB, dB := hclsyntax.ParseConfig([]byte(fb.String()), "b.hcl", hcl.InitialPos)
		if dA.HasErrors() || dB.HasErrors() {
			res["merged"] = "SYNTAX"
		} else {
			res["merged"] = decodeBoth(hcl.MergeFiles([]*hcl.File{fA, fB}), s)
		}
		// the JSON form read with an evaluation context: strings are templates there, written escaped
		if !strings.HasPrefix(fault, "nolabel") {
			jsonTemplates = true
			jst, _ := json.Marshal(jsonBody(b, s))
			jsonTemplates = false
			if jf, d := hjson.Parse(jst, "x.json"); !d.HasErrors() {
				res["jsont"] = decodeBothCtx(jf.Body, s, &hcl.EvalContext{})
			} else {
				res["jsont"] = "SYNTAX"
			}
		}
		// the shuffled form after the formatter
		if body, ok := parseNative(string(hclwrite.Format([]byte(f1.String())))); ok {
			res["formatted"] = decodeBoth(body, s)
		} else {
			res["formatted"] = "SYNTAX"
		}
		if body, ok := parseNative(f4.String()); ok {
			res["dynamic"] = decodeBoth(dynblock.Expand(body, nil), s)
		} else {
			res["dynamic"] = "SYNTAX"
		}
		var ks []string
		for k := range res {
			ks = append(ks, k)
		}
		sort.Strings(ks)
		var out []string
		for _, k := range ks {
			out = append(out, k+"="+res[k])
		}
		dyn := "0"
		if strings.Contains(f4.String(), "dynamic ") {
			dyn = "1"
			c.Count("form.dynamic-used")
		}
		c.Emit("%s => dyn=%s %s", in, dyn, strings.Join(out, " "))
	}
}
