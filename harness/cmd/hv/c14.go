package main

// C14 — a profile file means what it says.
// Teamserver configurations are generated from the profile's own struct schema (reflection over
// profile.HavocConfig and its yaotl tags), written as profile text with randomly chosen spellings
// (attribute order, comments, blank lines, string spellings, numbers / flags as strings) and loaded
// by the real loader (profile.SetProfile -> hclsimple.DecodeFile).  The loaded struct is dumped as
// sorted `path=value` entries.  A second stream applies one fault to a valid profile.

import (
	"fmt"
	"os"
	"reflect"
	"sort"
	"strings"
	"unicode"
	"unicode/utf8"

	"Havoc/pkg/profile"
	hcl "Havoc/pkg/profile/yaotl"

	"golang.org/x/text/unicode/norm"

	"verifharness/internal/gen"
)

func init() { commands["C14"] = runC14 }

type tagInfo struct {
	name string
	kind string // attr optional block label
}

func yaotlTag(f reflect.StructField) (tagInfo, bool) {
	t := f.Tag.Get("yaotl")
	if t == "" {
		return tagInfo{}, false
	}
	p := strings.Split(t, ",")
	k := "attr"
	if len(p) > 1 {
		k = p[1]
	}
	return tagInfo{p[0], k}, true
}

// ---- dump of a loaded (or generated) configuration ----

var dumpStrMap = func(s string) string { return s }

func dumpConfigWith(c *profile.HavocConfig, f func(string) string) string {
	old := dumpStrMap
	dumpStrMap = f
	defer func() { dumpStrMap = old }()
	return dumpConfig(c)
}

func dumpVal(v reflect.Value) string {
	switch v.Kind() {
	case reflect.String:
		return "s" + hx([]byte(dumpStrMap(v.String())))
	case reflect.Int:
		return fmt.Sprintf("i%d", v.Int())
	case reflect.Bool:
		if v.Bool() {
			return "b1"
		}
		return "b0"
	case reflect.Slice:
		var ps []string
		for i := 0; i < v.Len(); i++ {
			ps = append(ps, dumpVal(v.Index(i)))
		}
		return "l(" + strings.Join(ps, ",") + ")"
	case reflect.Map:
		var ks []string
		for _, k := range v.MapKeys() {
			ks = append(ks, k.String())
		}
		sort.Strings(ks)
		var ps []string
		for _, k := range ks {
			ps = append(ps, hx([]byte(dumpStrMap(k)))+":"+hx([]byte(dumpStrMap(v.MapIndex(reflect.ValueOf(k)).String()))))
		}
		return "m(" + strings.Join(ps, ",") + ")"
	}
	return "?"
}

func dumpStruct(path string, v reflect.Value, out *[]string) {
	t := v.Type()
	for i := 0; i < t.NumField(); i++ {
		ti, ok := yaotlTag(t.Field(i))
		if !ok {
			continue
		}
		fv := v.Field(i)
		switch ti.kind {
		case "attr", "optional", "label":
			*out = append(*out, path+"."+ti.name+"="+dumpVal(fv))
		case "block":
			switch fv.Kind() {
			case reflect.Ptr:
				if !fv.IsNil() {
					p := path + "." + ti.name
					*out = append(*out, p+"={}")
					dumpStruct(p, fv.Elem(), out)
				}
			case reflect.Slice:
				for j := 0; j < fv.Len(); j++ {
					e := fv.Index(j)
					if e.Kind() == reflect.Ptr {
						e = e.Elem()
					}
					p := fmt.Sprintf("%s.%s#%d", path, ti.name, j)
					*out = append(*out, p+"={}")
					dumpStruct(p, e, out)
				}
			}
		}
	}
}

func dumpConfig(c *profile.HavocConfig) string {
	var out []string
	dumpStruct("", reflect.ValueOf(c).Elem(), &out)
	sort.Strings(out)
	if len(out) == 0 {
		return "-"
	}
	return strings.Join(out, ";")
}

// ---- generation ----

type c14Gen struct {
	nonNFC bool // this configuration may contain a string that is not in normalisation form C
	r      *gen.Rng
	lits   []string // name:spellinghex:valuehex of every quoted string literal written
}

var c14Strings = []string{"", "a", "127.0.0.1", "C:\\Windows\\System32\\notepad.exe", "pa ss\"word", "line1\nline2", "tab\there", "${not.interp}", "%{ if x }", "100%", "$HOME", "a$${b",
	"ünïcödé", "日本語", "😀 smile", "trailing\\", "5", "true", "null", "cr\rlf\n", "{\"json\": [1,2]}", "# not a comment", "// nor this", "/* nor */ this", "<<EOT", "x = y", "$$", "%%", "$${", "a${\"b\"}c", "price: 5$$\nnext line\n", "100%%\n", "a $ b % c\n", "first\nsecond\n", "a\n\nb\n", "x\n  indented\n\nlast\n", "top\n\n", "\nafter an empty first line\n"}

func (g *c14Gen) str() string {
	if g.nonNFC && g.r.Chance(1, 8) {
		return gen.Pick(g.r, []string{"e\u0301 (combining)", "A\u030a", "\u1100\u1161"})
	}
	if g.r.Chance(1, 6) {
		n := g.r.Intn(12)
		var sb strings.Builder
		for i := 0; i < n; i++ {
			switch g.r.Intn(10) {
			case 0:
				sb.WriteRune(rune(gen.Pick(g.r, []int{0xa1, 0x400})) + rune(g.r.Intn(0x5f))) // Latin-1 / Cyrillic: stable under normalisation
			case 1:
				sb.WriteRune(rune(0x4e00 + g.r.Intn(0x100)))
			case 2:
				sb.WriteString(gen.Pick(g.r, []string{"$", "%", "{", "}", "\"", "\\", "\n", "${", "%{"}))
			default:
				sb.WriteByte(byte(0x20 + g.r.Intn(0x5f)))
			}
		}
		return sb.String()
	}
	return gen.Pick(g.r, c14Strings)
}

func (g *c14Gen) fill(v reflect.Value, depth int) {
	t := v.Type()
	for i := 0; i < t.NumField(); i++ {
		ti, ok := yaotlTag(t.Field(i))
		if !ok {
			continue
		}
		fv := v.Field(i)
		switch ti.kind {
		case "attr", "label":
			g.fillVal(fv)
		case "optional":
			if g.r.Chance(1, 2) {
				g.fillVal(fv)
			}
		case "block":
			switch fv.Kind() {
			case reflect.Ptr:
				if depth == 0 || g.r.Chance(2, 3) {
					nv := reflect.New(fv.Type().Elem())
					g.fill(nv.Elem(), depth+1)
					fv.Set(nv)
				}
			case reflect.Slice:
				n := g.r.Intn(3)
				for j := 0; j < n; j++ {
					et := fv.Type().Elem()
					if et.Kind() == reflect.Ptr {
						nv := reflect.New(et.Elem())
						g.fill(nv.Elem(), depth+1)
						fv.Set(reflect.Append(fv, nv))
					} else {
						nv := reflect.New(et).Elem()
						g.fill(nv, depth+1)
						fv.Set(reflect.Append(fv, nv))
					}
				}
			}
		}
	}
}

func (g *c14Gen) fillVal(fv reflect.Value) {
	switch fv.Kind() {
	case reflect.String:
		fv.SetString(g.str())
	case reflect.Int:
		fv.SetInt(int64(gen.Pick(g.r, []int{0, 1, 5, 80, 443, 40056, 65535, -1, 2147483647, g.r.Intn(100000), 1000, 250000, 4294967296, 1 << 53, 1<<53 + 1, 9007199254740993, 9223372036854775807, -9223372036854775808, -9007199254740993})))
	case reflect.Bool:
		fv.SetBool(g.r.Bool())
	case reflect.Slice:
		n := g.r.Intn(4)
		s := reflect.MakeSlice(fv.Type(), 0, n)
		for i := 0; i < n; i++ {
			s = reflect.Append(s, reflect.ValueOf(g.str()))
		}
		if n > 0 { // an empty list decodes to a nil slice just as an absent one does
			fv.Set(s)
		}
	case reflect.Map:
		n := g.r.Intn(3)
		if n > 0 {
			m := reflect.MakeMap(fv.Type())
			for i := 0; i < n; i++ {
				m.SetMapIndex(reflect.ValueOf(fmt.Sprintf("k%d %s", i, gen.Pick(g.r, []string{"", "x", "ü"}))), reflect.ValueOf(g.str()))
			}
			fv.Set(m)
		}
	}
}

// ---- writing ----

func hexEsc(b byte) string { return fmt.Sprintf("\\x%02x", b) }

// quote writes a string literal with a randomly chosen spelling per character
func (g *c14Gen) quote(name, s string) string {
	mode := g.r.Intn(4) // 0 plain, 1 all hex, 2/3 mixed
	var b strings.Builder
	bs := []byte(s)
	prevHex := false
	for i := 0; i < len(bs); {
		c := bs[i]
		_, size := utf8.DecodeRune(bs[i:])
		isHexDigit := (c >= '0' && c <= '9') || (c >= 'a' && c <= 'f') || (c >= 'A' && c <= 'F')
		useHex := mode == 1 || (mode >= 2 && g.r.Chance(1, 5)) || (prevHex && isHexDigit) // a hex run is greedy
		switch {
		case useHex:
			for k := 0; k < size; k++ { // all bytes of the character: the file itself has to be UTF-8
				b.WriteString(hexEsc(bs[i+k]))
			}
			i += size
			prevHex = true
			continue
		case c == '\n':
			b.WriteString(`\n`)
		case c == '\r':
			b.WriteString(`\r`)
		case c == '\t':
			b.WriteString(`\t`)
		case c == '"':
			b.WriteString(`\"`)
		case c == '\\':
			b.WriteString(`\\`)
		case (c == '$' || c == '%') && i+1 < len(bs) && bs[i+1] == '{':
			b.WriteByte(c)
			b.WriteByte(c)
			b.WriteByte('{')
			i += 2
			prevHex = false
			continue
		case (c == '$' || c == '%') && i+1 < len(bs) && bs[i+1] == c:
			b.WriteString(hexEsc(c)) // "$$" would be read together with a following "{"
			i++
			prevHex = true
			continue
		default:
			b.Write(bs[i : i+size])
			i += size
			prevHex = false
			continue
		}
		i++
		prevHex = false
	}
	g.lits = append(g.lits, name+":"+hx([]byte(b.String()))+":"+hx(bs))
	return `"` + b.String() + `"`
}

func (g *c14Gen) noise(ind string) string {
	switch g.r.Intn(8) {
	case 0:
		return ind + "# a comment with \"quotes\" and ${stuff}\n"
	case 1:
		return ind + "// another = comment\n"
	case 2:
		return ind + "/* block\n" + ind + "   comment */\n"
	case 3:
		return "\n"
	}
	return ""
}

func (g *c14Gen) writeVal(name string, fv reflect.Value) string {
	switch fv.Kind() {
	case reflect.String:
		s := fv.String()
		// a heredoc for multi-line text that ends with a newline and has nothing a template would interpret
		if strings.HasSuffix(s, "\n") && !strings.Contains(s, "\r") && !strings.Contains(s, "${") && !strings.Contains(s, "%{") && !strings.Contains(s, "EOT") && utf8.ValidString(s) && g.r.Chance(1, 2) {
			// the flush form: every line that is not blank gets the same extra indentation, which the loader takes off again;
			// possible when some non-blank line starts at column 0 (the common indentation is then exactly what was added)
			lines := strings.SplitAfter(s, "\n")
			col0 := false
			for _, l := range lines {
				if t := strings.TrimLeftFunc(l, unicode.IsSpace); t != "" && t == l {
					col0 = true
				}
			}
			if col0 && g.r.Chance(1, 2) {
				ind := strings.Repeat(" ", 1+g.r.Intn(6))
				var b strings.Builder
				b.WriteString("<<-EOT\n")
				for _, l := range lines {
					if strings.TrimLeftFunc(l, unicode.IsSpace) == "" {
						b.WriteString(l) // a blank line stays as it is
					} else {
						b.WriteString(ind + l)
					}
				}
				return b.String() + strings.Repeat(" ", g.r.Intn(4)) + "EOT"
			}
			return "<<EOT\n" + s + "EOT"
		}
		return g.quote(name, s)
	case reflect.Int:
		if g.r.Chance(1, 4) {
			return fmt.Sprintf("\"%d\"", fv.Int())
		}
		if n := fv.Int(); n != 0 && n%1000 == 0 && g.r.Chance(1, 2) { // other spellings of a whole number
			return gen.Pick(g.r, []string{fmt.Sprintf("%de3", n/1000), fmt.Sprintf("%dE+3", n/1000), fmt.Sprintf("%d.0", n)})
		}
		return fmt.Sprintf("%d", fv.Int())
	case reflect.Bool:
		if g.r.Chance(1, 4) {
			return fmt.Sprintf("\"%v\"", fv.Bool())
		}
		return fmt.Sprintf("%v", fv.Bool())
	case reflect.Slice:
		var ps []string
		for i := 0; i < fv.Len(); i++ {
			ps = append(ps, g.quote(name, fv.Index(i).String()))
		}
		sep := ", "
		if g.r.Chance(1, 3) {
			sep = ",\n        "
		}
		return "[" + strings.Join(ps, sep) + "]"
	case reflect.Map:
		var ks []string
		for _, k := range fv.MapKeys() {
			ks = append(ks, k.String())
		}
		sort.Strings(ks)
		var ps []string
		for _, k := range ks {
			ps = append(ps, g.quote(name, k)+" = "+g.quote(name, fv.MapIndex(reflect.ValueOf(k)).String()))
		}
		return "{\n" + strings.Join(ps, "\n") + "\n}"
	}
	return "null"
}

type mutation struct {
	kind, path string // dropattr | dupblock | unknownattr | wrongkind | none
	done       bool
	line       int // 1-based line of the file where the fault was written
}

func lineOf(sb *strings.Builder) int { return strings.Count(sb.String(), "\n") + 1 }

func (g *c14Gen) writeStruct(path, ind string, v reflect.Value, mu *mutation, sb *strings.Builder) {
	t := v.Type()
	var items []func()
	for i := 0; i < t.NumField(); i++ {
		ti, ok := yaotlTag(t.Field(i))
		if !ok || ti.kind == "label" {
			continue
		}
		fv := v.Field(i)
		fpath := path + "." + ti.name
		switch ti.kind {
		case "attr", "optional":
			zero := fv.IsZero()
			if ti.kind == "optional" && zero && g.r.Chance(2, 3) {
				continue // an absent optional attribute
			}
			if fv.Kind() == reflect.Slice && fv.IsNil() && ti.kind == "attr" {
				items = append(items, func() { sb.WriteString(ind + ti.name + " = []\n") })
				continue
			}
			items = append(items, func() {
				if mu.kind == "dropattr" && mu.path == fpath {
					mu.done = true
					return
				}
				if mu.kind == "wrongkind" && mu.path == fpath {
					mu.done = true
					mu.line = lineOf(sb)
					bad := "[\"a\", \"list\"]"
					if fv.Kind() == reflect.Slice || fv.Kind() == reflect.Map {
						bad = "true"
					} else if ti.kind == "attr" && g.r.Chance(1, 3) {
						bad = "null" // a required setting must have a value
					} else if (fv.Kind() == reflect.Int || fv.Kind() == reflect.Bool) && g.r.Chance(1, 2) {
						bad = gen.Pick(g.r, []string{"\"\"", "\"x\"", "{}"}) // an empty / non-numeric text where a number or a switch is needed
					}
					sb.WriteString(ind + ti.name + " = " + bad + "\n")
					return
				}
				sb.WriteString(g.noise(ind))
				eq := " = "
				if g.r.Chance(1, 4) {
					eq = "   =  "
				}
				val := g.writeVal(fpath, fv)
				if mu.kind == "syntax" && mu.path == fpath && !strings.Contains(val, "\n") {
					// a syntax fault on this line: a second setting behind the first, or a list without its separator
					mu.done = true
					mu.line = lineOf(sb)
					if fv.Kind() == reflect.Slice && fv.Len() >= 2 && g.r.Bool() {
						var ps []string
						for i := 0; i < fv.Len(); i++ {
							ps = append(ps, g.quote(fpath, fv.Index(i).String()))
						}
						val = "[" + ps[0] + " " + strings.Join(ps[1:], ", ") + "]"
					} else {
						val += " Extra = 1"
					}
				}
				sb.WriteString(ind + ti.name + eq + val + "\n")
			})
		case "block":
			emit := func(p string, e reflect.Value) {
				items = append(items, func() {
					times := 1
					if mu.kind == "dupblock" && mu.path == p {
						mu.done = true
						times = 2
					}
					for k := 0; k < times; k++ {
						sb.WriteString(g.noise(ind))
						if times == 2 && k == 1 {
							mu.line = lineOf(sb)
						}
						hdr := ind + ti.name
						for j := 0; j < e.Type().NumField(); j++ {
							if lt, ok := yaotlTag(e.Type().Field(j)); ok && lt.kind == "label" {
								hdr += " " + g.quote(p+"."+lt.name, e.Field(j).String())
							}
						}
						if !strings.HasPrefix(mu.path, p) && g.r.Chance(1, 2) {
							// a block with a single setting may be written on one line
							var inner strings.Builder
							g.writeStruct(p, "", e, mu, &inner)
							body := inner.String()
							if strings.Count(body, "\n") == 1 && !strings.ContainsAny(body, "#{}") && !strings.Contains(body, "//") && !strings.Contains(body, "<<") {
								sb.WriteString(hdr + " { " + strings.TrimSpace(body) + " }\n")
							} else {
								sb.WriteString(hdr + " {\n" + body + ind + "}\n") // (not re-indented: heredocs inside)
							}
							continue
						}
						sb.WriteString(hdr + " {\n")
						g.writeStruct(p, ind+"    ", e, mu, sb)
						if mu.kind == "unknownattr" && mu.path == p && !mu.done {
							mu.done = true
							mu.line = lineOf(sb)
							stray := "NoSuchSetting"
							if g.r.Bool() { // ... or a setting that has the name of a block type of this very body
								for j := 0; j < e.Type().NumField(); j++ {
									if bt, ok := yaotlTag(e.Type().Field(j)); ok && bt.kind == "block" {
										stray = bt.name
									}
								}
							}
							sb.WriteString(ind + "    " + stray + " = 1\n")
						}
						sb.WriteString(ind + "}\n")
					}
				})
			}
			switch fv.Kind() {
			case reflect.Ptr:
				if !fv.IsNil() {
					emit(fpath, fv.Elem())
				}
			case reflect.Slice:
				// repeated blocks keep their relative order: the group is one item of the shuffle
				start := len(items)
				for j := 0; j < fv.Len(); j++ {
					e := fv.Index(j)
					if e.Kind() == reflect.Ptr {
						e = e.Elem()
					}
					emit(fmt.Sprintf("%s#%d", fpath, j), e)
				}
				group := append([]func(){}, items[start:]...)
				items = items[:start]
				if len(group) > 0 {
					items = append(items, func() {
						for _, f := range group {
							f()
						}
					})
				}
			}
		}
	}
	// attribute / block order is free, except that repeated blocks keep their relative order
	for i := len(items) - 1; i > 0; i-- {
		j := g.r.Intn(i + 1)
		items[i], items[j] = items[j], items[i]
	}
	for _, it := range items {
		it()
	}
}

func runC14(c *Ctx) {
	dir, err := os.MkdirTemp("", "hv-c14-")
	if err != nil {
		panic(err)
	}
	defer os.RemoveAll(dir)
	if c.Replay != "" {
		for _, l := range replayLines(c.Replay) {
			c14Line(c, dir, l)
		}
		return
	}
	r := c.R
	for c.Lines < c.N {
		g := &c14Gen{r: r, nonNFC: r.Chance(1, 25)}
		var cfg profile.HavocConfig
		g.fill(reflect.ValueOf(&cfg).Elem(), 0)
		want := dumpConfig(&cfg)
		mu := &mutation{kind: "none"}
		if r.Chance(1, 3) {
			// one fault: pick a target among the entries of this configuration
			entries := strings.Split(want, ";")
			e := gen.Pick(r, entries)
			p := e[:strings.IndexByte(e, '=')]
			if strings.HasSuffix(e, "={}") {
				mu = &mutation{kind: gen.Pick(r, []string{"dupblock", "unknownattr"}), path: p}
			} else {
				mu = &mutation{kind: gen.Pick(r, []string{"dropattr", "wrongkind", "syntax"}), path: p}
			}
		}
		var sb strings.Builder
		g.writeStruct("", "", reflect.ValueOf(&cfg).Elem(), mu, &sb)
		if mu.kind != "none" && !mu.done {
			mu = &mutation{kind: "none"} // the target was not written (an absent optional attribute, a label)
		}
		c.Count("mutation." + mu.kind)
		lits := "-"
		if len(g.lits) > 0 {
			lits = strings.Join(g.lits, ",")
		}
		// the same configuration with every string in Unicode normalisation form C (what go-cty turns strings into)
		nfcCfg := cfg
		nfcDump := dumpConfigWith(&nfcCfg, func(s string) string { return norm.NFC.String(s) })
		c14Line(c, dir, fmt.Sprintf("load cfg=%s nfc=%s mut=%s:%s mline=%d lits=%s src=%s", want, nfcDump, mu.kind, orDash(mu.path), mu.line, lits, hx([]byte(sb.String()))))
	}
}

func c14Line(c *Ctx, dir, in string) {
	c.Pending(in)
	parts := strings.Fields(in)
	if parts[0] == "reset" {
		c.Emit("reset")
		return
	}
	m := kvs(parts[1:])
	src := unhx(m["src"])
	path := dir + "/profile.yaotl"
	os.WriteFile(path, src, 0o644)
	nlines := strings.Count(string(src), "\n") + 1
	res := guard(func() string {
		p := profile.NewProfile()
		err := p.SetProfile(path, true)
		if err != nil {
			if diags, ok := err.(hcl.Diagnostics); ok && len(diags) > 0 {
				d := diags[0]
				line := 0
				if d.Subject != nil {
					line = d.Subject.Start.Line
				}
				return fmt.Sprintf("ERR:%s:%s:%d:%d", hx([]byte(d.Summary)), hx([]byte(d.Detail)), line, nlines)
			}
			return fmt.Sprintf("ERR:%s:-:0:%d", hx([]byte(err.Error())), nlines)
		}
		return "ok:" + dumpConfig(&p.Config)
	})
	c.Emit("%s => %s", in, res)
}
