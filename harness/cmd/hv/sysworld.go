package main

// A REAL teamserver started in-process exactly as cmd/server.go starts it
// (NewTeamserver, SetServerFlags, SetProfile on a generated yaotl profile, Start in a
// goroutine): operator websocket endpoint /havoc/ over TLS, service endpoint, SQLite.
// One per harness process (Start can only run once); cases reset its volatile state.

import (
	"crypto/tls"
	"encoding/hex"
	"encoding/json"
	"fmt"
	"net"
	"os"
	"strings"
	"sync"
	"time"

	server "Havoc/cmd/server"
	"Havoc/pkg/logr"
	"Havoc/pkg/packager"

	"github.com/gorilla/websocket"
	"golang.org/x/crypto/sha3"
)

type sysWorld struct {
	ts    *server.Teamserver
	dir   string
	port  int
	conns map[string]*wsConn
}

type wsConn struct {
	c      *websocket.Conn
	mu     sync.Mutex
	frames []string // canonical summaries of frames received since the last drain
	closed bool
	paused bool // the reader stops reading (a stalled operator)
}

func (wc *wsConn) isClosed() bool {
	wc.mu.Lock()
	defer wc.mu.Unlock()
	return wc.closed
}

func (wc *wsConn) pause() {
	wc.mu.Lock()
	wc.paused = true
	wc.mu.Unlock()
}

func (wc *wsConn) resume() {
	wc.mu.Lock()
	wc.paused = false
	wc.mu.Unlock()
}

const sysProfile = `Teamserver {
    Host = "127.0.0.1"
    Port = %d
}

Operators {
    user "alice" {
        Password = "pw-alice"
    }
    user "bob" {
        Password = "pw-bob"
    }
    user "carol" {
        Password = "pw-carol"
    }
}

Service {
    Endpoint = "svc"
    Password = "svc-pw"
}

Demon {
    Sleep = 2
    Jitter = 10
    TrustXForwardedFor = false
    Injection {
        Spawn64 = "C:\\Windows\\System32\\notepad.exe"
        Spawn32 = "C:\\Windows\\SysWOW64\\notepad.exe"
    }
}
`

var theSys *sysWorld

func startSystem(tag string) *sysWorld {
	if theSys != nil {
		return theSys
	}
	dir, err := os.MkdirTemp("", "hv-"+tag+"-sys-")
	if err != nil {
		panic(err)
	}
	os.MkdirAll(dir+"/data", 0o755)
	os.Chdir(dir)
	port := freePort()
	prof := dir + "/profile.yaotl"
	os.WriteFile(prof, []byte(fmt.Sprintf(sysProfile, port)), 0o644)
	logr.LogrInstance = logr.NewLogr(dir, dir+"/data/loot")
	ts := server.NewTeamserver("data/teamserver.db")
	var flags server.TeamserverFlags
	flags.Server.Profile = prof
	ts.SetServerFlags(flags)
	ts.SetProfile(prof)
	go ts.Start()
	ok := false
	for i := 0; i < 400; i++ {
		if cn, err := net.DialTimeout("tcp", fmt.Sprintf("127.0.0.1:%d", port), ms(50)); err == nil {
			cn.Close()
			ok = true
			break
		}
		time.Sleep(ms(10))
	}
	if !ok {
		panic("teamserver did not come up")
	}
	time.Sleep(ms(50))
	theSys = &sysWorld{ts: ts, dir: dir, port: port, conns: map[string]*wsConn{}}
	return theSys
}

func pwHash(pw string) string {
	h := sha3.New256()
	h.Write([]byte(pw))
	return hex.EncodeToString(h.Sum(nil))
}

// frameSummary: Event/SubEvent plus a marker (chat text / listener name / agent id / message) when there is one.
func frameSummary(b []byte) string {
	var sv struct {
		Head struct{ Type string }
		Body struct {
			Success *bool
			Type    string
		}
	}
	if err := json.Unmarshal(b, &sv); err == nil && sv.Head.Type != "" { // a service-endpoint frame
		switch {
		case sv.Body.Success != nil:
			return fmt.Sprintf("S.%s/%v", sv.Head.Type, *sv.Body.Success)
		default:
			return fmt.Sprintf("S.%s/%s", sv.Head.Type, sv.Body.Type)
		}
	}
	var pk packager.Package
	if err := json.Unmarshal(b, &pk); err != nil {
		return "nonjson"
	}
	tag := ""
	for _, k := range []string{"Marker", "Name", "NameID", "AgentID", "Message", "User"} {
		if v, ok := pk.Body.Info[k]; ok {
			if s, ok := v.(string); ok && s != "" {
				tag = "/" + strings.ReplaceAll(strings.ReplaceAll(s, " ", "_"), ",", "_")
				break
			}
		}
	}
	return fmt.Sprintf("%d.%d%s", pk.Head.Event, pk.Body.SubEvent, tag)
}

func (w *sysWorld) dial(path string) (*wsConn, error) {
	d := websocket.Dialer{TLSClientConfig: &tls.Config{InsecureSkipVerify: true}, HandshakeTimeout: 2 * time.Second}
	c, _, err := d.Dial(fmt.Sprintf("wss://127.0.0.1:%d/%s", w.port, path), nil)
	if err != nil {
		return nil, err
	}
	wc := &wsConn{c: c}
	go func() {
		for {
			wc.mu.Lock()
			p := wc.paused
			wc.mu.Unlock()
			if p {
				time.Sleep(ms(20)) // the connection is closed by resetVolatile
				if wc.isClosed() {
					return
				}
				continue
			}
			_, msg, err := c.ReadMessage()
			wc.mu.Lock()
			if err != nil {
				wc.closed = true
				wc.mu.Unlock()
				return
			}
			wc.frames = append(wc.frames, frameSummary(msg))
			wc.mu.Unlock()
		}
	}()
	return wc, nil
}

func (wc *wsConn) drain() (string, bool) {
	wc.mu.Lock()
	defer wc.mu.Unlock()
	f := wc.frames
	wc.frames = nil
	if len(f) == 0 {
		return "-", wc.closed
	}
	return strings.Join(f, ","), wc.closed
}

// settle waits until no connection has received a new frame for 8 polls of 40 ms (at most 5 s).
func (w *sysWorld) settle() {
	last, same := -1, 0
	for i := 0; i < 125 && same < 8; i++ {
		time.Sleep(ms(40))
		n := 0
		for _, wc := range w.conns {
			wc.mu.Lock()
			n += len(wc.frames)
			wc.mu.Unlock()
		}
		if n == last {
			same++
		} else {
			same = 0
		}
		last = n
	}
}

// quiesce: a short version of settle for the end of a case (3 quiet polls of 25 ms, at most 1 s)
func (w *sysWorld) quiesce() {
	last, same := -1, 0
	for i := 0; i < 40 && same < 3; i++ {
		time.Sleep(ms(25))
		n := 0
		for _, wc := range w.conns {
			wc.mu.Lock()
			n += len(wc.frames)
			wc.mu.Unlock()
		}
		if n == last {
			same++
		} else {
			same = 0
		}
		last = n
	}
}

// obsAll drains every connection (in name order) after giving the server time to deliver.
func (w *sysWorld) obsAll(names []string, wait time.Duration) string {
	time.Sleep(wait)
	var out []string
	for _, n := range names {
		if wc := w.conns[n]; wc != nil {
			f, closed := wc.drain()
			st := "open"
			if closed {
				st = "closed"
			}
			out = append(out, fmt.Sprintf("%s[%s]=%s", n, st, f))
		}
	}
	if len(out) == 0 {
		return "-"
	}
	return strings.Join(out, " ")
}

// resetVolatile closes every harness connection and clears the teamserver's volatile state.
func (w *sysWorld) resetVolatile() {
	for _, wc := range w.conns {
		wc.c.Close()
		wc.mu.Lock()
		wc.closed = true
		wc.mu.Unlock()
	}
	w.conns = map[string]*wsConn{}
	time.Sleep(ms(30))
	var ids []any
	w.ts.Clients.Range(func(k, v any) bool { ids = append(ids, k); return true })
	for _, k := range ids {
		w.ts.Clients.Delete(k)
	}
	w.ts.EventsList = nil
	w.ts.Agents.Agents = nil
	if w.ts.Service != nil {
		w.ts.Service.Agents = nil
		w.ts.Service.Listeners = nil
	}
}

func loginJSON(user, pwhash string, event, sub int, extra string) string {
	return fmt.Sprintf(`{"Head":{"Event":%d,"User":%q,"Time":"t","OneTime":""},"Body":{"SubEvent":%d,"Info":{"User":%q,"Password":%q%s}}}`,
		event, user, sub, user, pwhash, extra)
}
