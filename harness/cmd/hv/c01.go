package main

// C01 — untrusted listener traffic can never crash or wedge the teamserver.
// Requests (valid Demon packages with corrupted fields / lengths / nesting, arbitrary
// bytes, truncations, foreign magic values) against reachable states of a real
// server.Teamserver: registered agents, outstanding request ids, open downloads,
// pivot links, with and without a Service block.

import (
	"net"
	"io"
	"crypto/sha256"
	"encoding/binary"
	"fmt"
	"regexp"
	"runtime/debug"
	"sort"
	"strings"
	"time"

	"Havoc/pkg/agent"
	"Havoc/pkg/handlers"
	"Havoc/pkg/service"

	"verifharness/internal/gen"
	"verifharness/internal/mockts"
)

func init() { commands["C01"] = runC01 }

type c01World struct {
	*realWorld
	keys  map[uint32][2][]byte
	hport int // a real HTTP listener (handlers.HTTP, its routes and its gin engine) in front of a mock teamserver
	rport int // another one, configured as sitting behind a redirector (it takes the sender from X-Forwarded-For)
}

// rawHTTP sends raw bytes to the real HTTP listener and reports the status code of the answer ("none": the connection
// was closed or stayed silent for 3 s)
func (w *c01World) rawHTTP(raw []byte, redir bool) string {
	port := &w.hport
	if redir {
		port = &w.rport
	}
	if *port == 0 {
		h := handlers.NewConfigHttp()
		h.Teamserver = mockts.New()
		*port = freePort()
		h.Config = handlers.HTTPConfig{Name: "c01", Hosts: []string{"127.0.0.1"}, HostBind: "127.0.0.1", PortBind: fmt.Sprint(*port), PortConn: fmt.Sprint(*port), BehindRedir: redir}
		h.Start()
		for i := 0; i < 200; i++ {
			if cn, err := net.DialTimeout("tcp", fmt.Sprintf("127.0.0.1:%d", *port), ms(50)); err == nil {
				cn.Close()
				break
			}
			time.Sleep(ms(5))
		}
	}
	cn, err := net.DialTimeout("tcp", fmt.Sprintf("127.0.0.1:%d", *port), ms(500))
	if err != nil {
		return "noconn"
	}
	defer cn.Close()
	cn.Write(raw)
	cn.SetReadDeadline(time.Now().Add(3 * time.Second))
	buf := make([]byte, 64)
	n, _ := io.ReadAtLeast(cn, buf, 12)
	if n >= 12 && strings.HasPrefix(string(buf[:n]), "HTTP/1.") {
		return string(buf[9:12])
	}
	return "none"
}

var frameRe = regexp.MustCompile(`Havoc/[A-Za-z0-9_/.]+\.\(?\*?[A-Za-z0-9_]*\)?\.?[A-Za-z0-9_]+`)

// panicSig: "<kind>@<innermost Havoc function>" — stable across line-number changes.
func panicSig(r any, stack []byte) string {
	msg := fmt.Sprint(r)
	kind := "panic"
	switch {
	case strings.Contains(msg, "index out of range"):
		kind = "index-out-of-range"
	case strings.Contains(msg, "slice bounds out of range"):
		kind = "slice-bounds"
	case strings.Contains(msg, "nil pointer"):
		kind = "nil-deref"
	case strings.Contains(msg, "interface conversion"):
		kind = "bad-type-assertion"
	}
	fn := "?"
	for _, l := range strings.Split(string(stack), "\n") {
		if strings.HasPrefix(l, "Havoc/") && !strings.Contains(l, "VerifParseAgentRequest") {
			fn = l
			if i := strings.LastIndex(fn, "("); i > 0 {
				fn = fn[:i]
			}
			fn = strings.TrimPrefix(fn, "Havoc/")
			break
		}
	}
	return kind + "@" + fn
}

func (w *c01World) stateHash() string {
	h := sha256.New()
	for _, a := range w.ts.Agents.Agents {
		inf := *a.Info
		inf.LastCallIn = ""
		var links []string
		for _, l := range a.Pivots.Links {
			links = append(links, l.NameID)
		}
		par := ""
		if a.Pivots.Parent != nil {
			par = a.Pivots.Parent.NameID
		}
		var tasks []string
		for _, t := range a.Tasks {
			tasks = append(tasks, fmt.Sprint(t.RequestID))
		}
		fmt.Fprintf(h, "%s|%v|%s|%+v|%d|%d|%d|%d|%v|%s|%v|%x|%x\n", a.NameID, a.Active, a.Reason, inf, len(a.Downloads), len(a.PortFwds),
			len(a.SocksCli), len(a.JobQueue), links, par, tasks, a.Encryption.AESKey, a.Encryption.AESIv)
	}
	files := listTree(w.dir + "/loot")
	sort.Strings(files)
	fmt.Fprintf(h, "files=%v events=%d", files, len(w.ts.EventsList))
	return fmt.Sprintf("%x", h.Sum(nil))
}

func (w *c01World) lockProbe() int {
	n := 0
	for _, a := range w.ts.Agents.Agents {
		if a.PortFwdsMtx.TryLock() {
			a.PortFwdsMtx.Unlock()
		} else {
			n++
		}
		if a.SocksCliMtx.TryLock() {
			a.SocksCliMtx.Unlock()
		} else {
			n++
		}
		if a.SocksSvrMtx.TryLock() {
			a.SocksSvrMtx.Unlock()
		} else {
			n++
		}
	}
	return n
}

func (w *c01World) ids() string {
	if len(w.ts.Agents.Agents) == 0 {
		return "-"
	}
	var ss []string
	for _, a := range w.ts.Agents.Agents {
		ss = append(ss, a.NameID)
	}
	return strings.Join(ss, ",")
}

// send runs one request with a watchdog and reports
//
//	<REJECTED|REPLY|PANIC:sig|TIMEOUT> locks=<n> changed=<0|1>
func (w *c01World) send(body []byte) string {
	before := w.stateHash()
	type res struct{ s string }
	ch := make(chan res, 1)
	go func() {
		defer func() {
			if r := recover(); r != nil {
				ch <- res{"PANIC:" + panicSig(r, debug.Stack())}
			}
		}()
		_, ok := handlers.VerifParseAgentRequest(w.ts, body, "10.1.2.3")
		if ok {
			ch <- res{"REPLY"}
		} else {
			ch <- res{"REJECTED"}
		}
	}()
	var out string
	select {
	case r := <-ch:
		out = r.s
	case <-time.After(8 * time.Second):
		out = "TIMEOUT"
	}
	changed := "0"
	if w.stateHash() != before {
		changed = "1"
	}
	return fmt.Sprintf("%s locks=%d changed=%s", out, w.lockProbe(), changed)
}

func (w *c01World) line(c *Ctx, in string) {
	c.Pending(in)
	parts := strings.Fields(in)
	switch parts[0] {
	case "reset": // reset <service 0|1>
		w.realWorld.close()
		w.realWorld = newRealWorld("c01")
		w.keys = map[uint32][2][]byte{}
		if len(parts) > 1 && parts[1] == "1" {
			w.ts.Service = &service.Service{}
		}
		c.Emit("%s", in)
	case "req": // req <ids before> <service> <body>   (ids/service are context for the model)
		c.Emit("req %s %s %s => %s", w.ids(), parts[2], parts[3], w.send(unhx(parts[3])))
	case "setup": // setup <body>: a request that builds state (registration, link, task); not judged beyond crashing
		c.Emit("req %s %s %s => %s", w.ids(), parts[1], parts[2], w.send(unhx(parts[2])))
	case "task": // task <id hex> <n>: the operator queues n tasks for a session (a pivot's tasks travel to its chain's first hop)
		var id uint32
		var n int
		fmt.Sscanf(parts[1], "%x", &id)
		fmt.Sscanf(parts[2], "%d", &n)
		out := guardT(5*time.Second, func() string {
			if a := w.ts.AgentInstance(int(id)); a != nil {
				for i := 0; i < n; i++ {
					a.AddJobToQueue(agent.Job{Command: agent.COMMAND_SLEEP, RequestID: 0x6000 + uint32(i), Data: []interface{}{int32(i), int32(0)}})
				}
			}
			return "ok"
		})
		if out != "ok" {
			c.Emit("req %s 0 - => %s", w.ids(), out)
		} else {
			c.Emit("%s", in)
		}
	case "http": // http <raw request hex>: over TCP to the real listener; any request, however framed, is answered
		c.Emit("%s => reply=%s", in, w.rawHTTP(unhx(parts[1]), len(parts) > 2 && parts[2] == "redir"))
	case "issue": // issue <id hex> <req>
		var id, req uint32
		fmt.Sscanf(parts[1], "%x", &id)
		fmt.Sscanf(parts[2], "%d", &req)
		if a := w.ts.AgentInstance(int(id)); a != nil {
			a.AddRequest(agent.Job{Command: 11, RequestID: req})
		}
		c.Emit("%s", in)
	default:
		panic("C01: unknown op " + parts[0])
	}
}

func mutate(r *gen.Rng, b []byte) []byte {
	b = append([]byte{}, b...)
	if len(b) == 0 {
		return b
	}
	switch r.Intn(6) {
	case 0:
		return b[:r.Intn(len(b)+1)]
	case 1:
		b[r.Intn(len(b))] ^= byte(1 << uint(r.Intn(8)))
	case 2: // corrupt a plausible length field (a 4-byte aligned word) to a boundary value
		if len(b) >= 4 {
			i := r.Intn(len(b)/4) * 4
			binary.BigEndian.PutUint32(b[i:], gen.Pick(r, []uint32{0, 1, 0xffffffff, 0x7fffffff, uint32(len(b)), uint32(len(b)) + 1}))
		}
	case 3:
		return append(b, r.Bytes(r.Intn(9))...)
	case 4:
		i := r.Intn(len(b))
		return append(b[:i], b[i+min(len(b)-i, 1+r.Intn(4)):]...)
	}
	return b
}

func runC01(c *Ctx) {
	w := &c01World{}
	defer func() { w.realWorld.close() }()
	if c.Replay != "" {
		for _, l := range replayLines(c.Replay) {
			if strings.HasPrefix(l, "req ") { // req <ids> <svc> <body>: ids are an observation, re-derived on replay
				p := strings.Fields(l)
				l = "req - " + p[2] + " " + p[3]
			}
			w.line(c, l)
		}
		return
	}
	r := c.R
	// the HTTP framing of a request is the sender's too: length given, wrong, absent (chunked), bodies of any kind
	{
		junk := string(r.Bytes(40))
		reg := string(initPackage(0x00c01001, 0x00c01001, r.Bytes(32), r.Bytes(16), genRegInfo(r)))
		for _, b := range []string{junk, reg, ""} {
			chunked := fmt.Sprintf("%x\r\n%s\r\n0\r\n\r\n", len(b), b)
			for _, raw := range []string{
				fmt.Sprintf("POST /x HTTP/1.1\r\nHost: h\r\nContent-Length: %d\r\n\r\n%s", len(b), b),
				"POST /x HTTP/1.1\r\nHost: h\r\nTransfer-Encoding: chunked\r\n\r\n" + chunked,
				"POST / HTTP/1.1\r\nHost: h\r\nTransfer-Encoding: chunked\r\nConnection: close\r\n\r\n" + chunked,
				"POST /x HTTP/1.0\r\n\r\n" + b,
				fmt.Sprintf("POST /x HTTP/1.1\r\nHost: h\r\nContent-Length: %d\r\nConnection: close\r\n\r\n%s", len(b), b),
				"POST /x HTTP/1.1\r\nHost: h\r\nContent-Length: 0\r\n\r\n",
				"GET /x HTTP/1.1\r\nHost: h\r\n\r\n",
			} {
				c.Count("http.framing")
				w.line(c, "http "+hx([]byte(raw)))
			}
			// the listener behind a redirector: with the forwarded-for header, without it (a direct probe), with two of them
			for _, xff := range []string{"", "X-Forwarded-For: 203.0.113.9\r\n", "X-Forwarded-For: 1.1.1.1\r\nX-Forwarded-For: 2.2.2.2\r\n", "X-Forwarded-For: \r\n"} {
				c.Count("http.redirector")
				w.line(c, "http "+hx([]byte(fmt.Sprintf("POST /x HTTP/1.1\r\nHost: h\r\n%sContent-Length: %d\r\n\r\n%s", xff, len(b), b)))+" redir")
			}
		}
	}
	// three fixed scenarios, every run: a task behind two pivots and the check-in above; a connect that names an ancestor,
	// then a task below it; the same port-forward socket opened twice
	for _, svc := range []string{"0", "1"} {
		mkAgent := func() (uint32, []byte, []byte) {
			id := r.U32() | 1
			k, iv := r.Bytes(32), r.Bytes(16)
			w.keys[id] = [2][]byte{k, iv}
			return id, k, iv
		}
		connect := func(child uint32, ck, civ []byte) []byte {
			return body(fI(agent.DEMON_PIVOT_SMB_CONNECT), fI(1), fY(initPackage(child, child, ck, civ, genRegInfo(r))))
		}
		relay := func(kid uint32, p dpkg) []byte {
			kk := w.keys[kid]
			return body(fI(agent.DEMON_PIVOT_SMB_COMMAND), fY(demonRequest(kid, kk[0], kk[1], []dpkg{p})))
		}
		send := func(from uint32, p dpkg) {
			k := w.keys[from]
			w.line(c, fmt.Sprintf("req - %s %s", svc, hx(demonRequest(from, k[0], k[1], []dpkg{p}))))
		}
		// 1: A > B > C, tasks for C, A checks in
		w.line(c, "reset "+svc)
		a, ak, aiv := mkAgent()
		w.line(c, fmt.Sprintf("setup %s %s", svc, hx(initPackage(a, a, ak, aiv, genRegInfo(r)))))
		b, bk, biv := mkAgent()
		send(a, dpkg{cmd: agent.COMMAND_PIVOT, req: r.U32(), body: connect(b, bk, biv)})
		cc, ck, civ := mkAgent()
		send(a, dpkg{cmd: agent.COMMAND_PIVOT, req: r.U32(), body: relay(b, dpkg{cmd: agent.COMMAND_PIVOT, req: r.U32(), body: connect(cc, ck, civ)})})
		w.line(c, fmt.Sprintf("task %08x 2", cc))
		w.line(c, fmt.Sprintf("task %08x 1", b))
		send(a, dpkg{cmd: agent.COMMAND_GET_JOB, nobody: true})
		send(a, dpkg{cmd: agent.COMMAND_GET_JOB, nobody: true})
		// 2: B (below A) reports a connect that names A, then B itself; tasks for B and a check-in must still end
		w.line(c, "reset "+svc)
		a, ak, aiv = mkAgent()
		w.line(c, fmt.Sprintf("setup %s %s", svc, hx(initPackage(a, a, ak, aiv, genRegInfo(r)))))
		b, bk, biv = mkAgent()
		send(a, dpkg{cmd: agent.COMMAND_PIVOT, req: r.U32(), body: connect(b, bk, biv)})
		send(a, dpkg{cmd: agent.COMMAND_PIVOT, req: r.U32(), body: relay(b, dpkg{cmd: agent.COMMAND_PIVOT, req: r.U32(), body: connect(a, r.Bytes(32), r.Bytes(16))})})
		send(a, dpkg{cmd: agent.COMMAND_PIVOT, req: r.U32(), body: relay(b, dpkg{cmd: agent.COMMAND_PIVOT, req: r.U32(), body: connect(b, r.Bytes(32), r.Bytes(16))})})
		w.line(c, fmt.Sprintf("task %08x 1", b))
		w.line(c, fmt.Sprintf("task %08x 1", a))
		send(a, dpkg{cmd: agent.COMMAND_GET_JOB, nobody: true})
		send(a, dpkg{cmd: agent.COMMAND_PIVOT, req: r.U32(), body: connect(b, r.Bytes(32), r.Bytes(16))})
		// 3: the same reverse-port-forward socket id opened twice, then used
		w.line(c, "reset "+svc)
		a, ak, aiv = mkAgent()
		w.line(c, fmt.Sprintf("setup %s %s", svc, hx(initPackage(a, a, ak, aiv, genRegInfo(r)))))
		open := body(fI(agent.SOCKET_COMMAND_OPEN), fI(7), fI(0x0100007f), fI(4444), fI(0x0100007f), fI(9))
		send(a, dpkg{cmd: agent.COMMAND_SOCKET, req: 0, body: open})
		send(a, dpkg{cmd: agent.COMMAND_SOCKET, req: 0, body: open})
		send(a, dpkg{cmd: agent.COMMAND_SOCKET, req: 0, body: body(fI(agent.SOCKET_COMMAND_OPEN), fI(8), fI(0x0100007f), fI(4444), fI(0x0100007f), fI(9))})
		send(a, dpkg{cmd: agent.COMMAND_SOCKET, req: 0, body: body(fI(agent.SOCKET_COMMAND_CLOSE), fI(7), fI(agent.SOCKET_TYPE_CLIENT))})
		c.Count("prelude")
	}
	for c.Lines < c.N {
		svc := "0"
		if r.Bool() {
			svc = "1"
		}
		w.line(c, "reset "+svc)
		// reachable state: 0-4 agents registered through the real path
		na := r.Intn(5)
		var ids []uint32
		for i := 0; i < na; i++ {
			id := r.U32() | 1
			key, iv := r.Bytes(32), r.Bytes(16)
			w.keys[id] = [2][]byte{key, iv}
			ids = append(ids, id)
			w.line(c, fmt.Sprintf("setup %s %s", svc, hx(initPackage(id, id, key, iv, genRegInfo(r)))))
		}
		fileID := r.U32()
		var reqs, kids []uint32
		parentOf := map[uint32]uint32{}
		steps := 6 + r.Intn(14)
		for s := 0; s < steps; s++ {
			var bodyb []byte
			kind := r.Intn(20)
			switch {
			case kind < 12 && len(ids) > 0: // Demon packages for a registered agent
				id := gen.Pick(r, ids)
				k := w.keys[id]
				np := 1 + r.Intn(3)
				var pk []dpkg
				for j := 0; j < np; j++ {
					t := genCallback(r, fileID)
					if r.Chance(1, 3) {
						more := moreCallbacks(r)
						t = more[r.Intn(len(more))]
					}
					req := r.U32()
					if len(reqs) > 0 && r.Chance(3, 4) {
						req = gen.Pick(r, reqs)
					} else if r.Chance(1, 2) {
						req = r.U32()
						reqs = append(reqs, req)
						w.line(c, fmt.Sprintf("issue %08x %d", id, req))
					}
					bb := t.body
					if r.Chance(1, 3) {
						bb = mutate(r, bb)
					}
					c.Count("pkg." + t.label)
					pk = append(pk, dpkg{cmd: t.cmd, req: req, body: bb})
				}
				if r.Chance(1, 4) {
					pk = append(pk, dpkg{cmd: agent.COMMAND_GET_JOB, nobody: true})
				}
				bodyb = demonRequest(id, k[0], k[1], pk)
				if r.Chance(1, 8) {
					bodyb = mutate(r, bodyb)
				}
				if r.Chance(1, 10) {
					fileID = r.U32()
				}
			case kind == 12 && len(ids) > 0 && r.Chance(1, 2): // several downloads open at once, written and closed in any order
				id := gen.Pick(r, ids)
				k := w.keys[id]
				req := r.U32()
				reqs = append(reqs, req)
				w.line(c, fmt.Sprintf("issue %08x %d", id, req))
				nf := 2 + r.Intn(3)
				var fids []uint32
				for j := 0; j < nf; j++ {
					fids = append(fids, r.U32())
				}
				var pk []dpkg
				for _, f := range fids {
					if r.Bool() {
						pk = append(pk, dpkg{cmd: agent.COMMAND_FS, req: req, body: body(fI(2), fI(0), fI(f), fQ(gen.Pick(r, []uint64{0, 0, 1, uint64(r.Intn(1000)), 0x7fffffff, 0xffffffff, 1 << 40})), fW(genName(r)))})
					} else {
						pk = append(pk, dpkg{cmd: agent.BEACON_OUTPUT, req: req, body: body(fI(agent.CALLBACK_FILE), fY(append(append(be32b(f), be32b(gen.Pick(r, []uint32{0, 0, 1, uint32(r.Intn(900)), 0x7fffffff, 0xffffffff}))...), []byte(genName(r))...)))})
					}
				}
				w.line(c, fmt.Sprintf("req - %s %s", svc, hx(demonRequest(id, k[0], k[1], pk))))
				c.Count("downloads.churn")
				for j := 0; j < nf+2; j++ { // closes and writes for open, closed and unknown ids, in any order
					f := gen.Pick(r, fids)
					var p dpkg
					switch r.Intn(6) {
					case 4: // the agent's view of its transfers: entries for the open ones (any progress / state) and unknown ones
						var fs []fld
						fs = append(fs, fI(agent.DEMON_COMMAND_TRANSFER_LIST))
						for _, g := range fids {
							if r.Bool() {
								fs = append(fs, fI(g), fI(gen.Pick(r, []uint32{0, 1, uint32(r.Intn(5000)), 0xffffffff})), fI(uint32(r.Intn(5))))
							}
						}
						fs = append(fs, fI(r.U32()), fI(uint32(r.Intn(100))), fI(1))
						p = dpkg{cmd: agent.COMMAND_TRANSFER, req: req, body: encFields(fs)}
						c.Count("downloads.transfer-list")
					case 5:
						p = dpkg{cmd: agent.COMMAND_TRANSFER, req: req, body: body(fI(gen.Pick(r, []uint32{agent.DEMON_COMMAND_TRANSFER_STOP, agent.DEMON_COMMAND_TRANSFER_RESUME, agent.DEMON_COMMAND_TRANSFER_REMOVE})), fI(uint32(r.Intn(2))), fI(f))}
					case 0:
						p = dpkg{cmd: agent.COMMAND_FS, req: req, body: body(fI(2), fI(1), fI(f), fY(r.Bytes(r.Intn(20))))}
					case 1:
						p = dpkg{cmd: agent.BEACON_OUTPUT, req: req, body: body(fI(agent.CALLBACK_FILE_CLOSE), fY(be32b(f)))}
					case 2:
						p = dpkg{cmd: agent.BEACON_OUTPUT, req: req, body: body(fI(agent.CALLBACK_FILE_WRITE), fY(append(be32b(f), r.Bytes(r.Intn(20))...)))}
					default:
						// mode 2 completes the request: issue a fresh one for what follows
						p = dpkg{cmd: agent.COMMAND_FS, req: req, body: body(fI(2), fI(2), fI(f), fI(uint32(r.Intn(2))))}
						w.line(c, fmt.Sprintf("req - %s %s", svc, hx(demonRequest(id, k[0], k[1], []dpkg{p}))))
						req = r.U32()
						reqs = append(reqs, req)
						w.line(c, fmt.Sprintf("issue %08x %d", id, req))
						continue
					}
					w.line(c, fmt.Sprintf("req - %s %s", svc, hx(demonRequest(id, k[0], k[1], []dpkg{p}))))
				}
				continue
			case kind == 13 && len(kids) > 0 && r.Chance(2, 3): // tasks queued for sessions behind pivots (any depth), then check-ins of everybody above
				kid := gen.Pick(r, kids)
				if r.Bool() { // one level deeper first: the pivot reports (through its own parent) a connect to a new agent
					par := parentOf[kid]
					pk, kk := w.keys[par], w.keys[kid]
					g := r.U32() | 1
					gkey, giv := r.Bytes(32), r.Bytes(16)
					conn := dpkg{cmd: agent.COMMAND_PIVOT, req: r.U32(), body: body(fI(agent.DEMON_PIVOT_SMB_CONNECT), fI(1), fY(initPackage(g, g, gkey, giv, genRegInfo(r))))}
					relay := demonRequest(kid, kk[0], kk[1], []dpkg{conn})
					w.line(c, fmt.Sprintf("req - %s %s", svc, hx(demonRequest(par, pk[0], pk[1], []dpkg{{cmd: agent.COMMAND_PIVOT, req: r.U32(), body: body(fI(agent.DEMON_PIVOT_SMB_COMMAND), fY(relay))}}))))
					w.keys[g] = [2][]byte{gkey, giv}
					kids = append(kids, g)
					parentOf[g] = kid
					kid = g
					c.Count("pivot.deeper")
				}
				w.line(c, fmt.Sprintf("task %08x %d", kid, 1+r.Intn(3)))
				if r.Chance(1, 3) {
					w.line(c, fmt.Sprintf("task %08x %d", gen.Pick(r, ids), 1+r.Intn(2)))
				}
				c.Count("pivot.task")
				top := kid
				for parentOf[top] != 0 {
					top = parentOf[top]
					if r.Chance(1, 4) {
						break
					}
				}
				k := w.keys[top]
				bodyb = demonRequest(top, k[0], k[1], []dpkg{{cmd: agent.COMMAND_GET_JOB, nobody: true}})
			case kind < 14 && len(ids) > 0: // pivot traffic: SMB connect with inner registration (valid or not), relayed packages
				id := gen.Pick(r, ids)
				k := w.keys[id]
				req := r.U32()
				reqs = append(reqs, req)
				cid := r.U32() | 1
				probe := uint32(0)
				ckey, civ := r.Bytes(32), r.Bytes(16)
				inner := initPackage(cid, cid, ckey, civ, genRegInfo(r))
				switch {
				case r.Chance(1, 3): // a connect that names an agent that exists already: the sender itself, an ancestor, anybody
					all := append(append([]uint32{}, ids...), kids...)
					cid = gen.Pick(r, all)
					inner = initPackage(cid, cid, r.Bytes(32), r.Bytes(16), genRegInfo(r))
					c.Count("pivot.connect.existing")
				case r.Chance(1, 2):
					inner = mutate(r, inner) // a failing inner registration
					c.Count("pivot.connect.bad-inner")
				default:
					c.Count("pivot.connect")
					w.keys[cid] = [2][]byte{ckey, civ}
					kids = append(kids, cid)
					parentOf[cid] = id
				}
				pb := body(fI(agent.DEMON_PIVOT_SMB_CONNECT), fI(1), fY(inner))
				if len(kids) > 0 && r.Chance(1, 2) {
					// relayed through a child: output, or the child reporting a connect of its own (new, existing, its own parent);
					// the connect built above goes out first
					w.line(c, fmt.Sprintf("req - %s %s", svc, hx(demonRequest(id, k[0], k[1], []dpkg{{cmd: agent.COMMAND_PIVOT, req: req, body: pb}}))))
					kid := gen.Pick(r, kids)
					kk := w.keys[kid]
					id = parentOf[kid]
					k = w.keys[id]
					rp := dpkg{cmd: agent.COMMAND_OUTPUT, req: r.U32(), body: body(fS("x"))}
					if r.Bool() {
						if r.Bool() { // the child names its own parent, or itself: the graph must stay a forest
							anc := gen.Pick(r, []uint32{id, kid})
							pb = body(fI(agent.DEMON_PIVOT_SMB_CONNECT), fI(1), fY(initPackage(anc, anc, r.Bytes(32), r.Bytes(16), genRegInfo(r))))
							probe = anc
							c.Count("pivot.command.connect.ancestor")
						}
						rp = dpkg{cmd: agent.COMMAND_PIVOT, req: r.U32(), body: pb}
						c.Count("pivot.command.connect")
					}
					relay := demonRequest(kid, kk[0], kk[1], []dpkg{rp})
					pb = body(fI(agent.DEMON_PIVOT_SMB_COMMAND), fY(relay))
					c.Count("pivot.command")
				}
				bodyb = demonRequest(id, k[0], k[1], []dpkg{{cmd: agent.COMMAND_PIVOT, req: req, body: pb}})
				if probe != 0 && len(ids) > 1 {
					// afterwards another session reports a connect that names the same agent: walks over the graph must still end
					w.line(c, fmt.Sprintf("req - %s %s", svc, hx(bodyb)))
					other := gen.Pick(r, ids)
					ok := w.keys[other]
					bodyb = demonRequest(other, ok[0], ok[1], []dpkg{{cmd: agent.COMMAND_PIVOT, req: r.U32(),
						body: body(fI(agent.DEMON_PIVOT_SMB_CONNECT), fI(1), fY(initPackage(probe, probe, r.Bytes(32), r.Bytes(16), genRegInfo(r))))}})
				}
			case kind < 16: // registration attempts, valid and corrupted
				id := r.U32()
				bodyb = initPackage(id, id, r.Bytes(32), r.Bytes(16), genRegInfo(r))
				switch r.Intn(6) {
				case 0, 1, 2:
					bodyb = mutate(r, bodyb)
				case 3, 4: // every short tail: the last fields of a registration are fixed-width (4 and 8 bytes)
					bodyb = bodyb[:len(bodyb)-1-r.Intn(16)]
					c.Count("init.tailcut")
				}
				c.Count("init")
			case kind < 18: // arbitrary bytes
				bodyb = r.Bytes(r.Intn(64))
				c.Count("random-bytes")
			default: // foreign magic value
				bodyb = binary.BigEndian.AppendUint32(nil, 40)
				bodyb = binary.BigEndian.AppendUint32(bodyb, gen.Pick(r, []uint32{0x41414141, 0, 0xdeadbeee, r.U32()}))
				bodyb = binary.BigEndian.AppendUint32(bodyb, r.U32())
				bodyb = append(bodyb, r.Bytes(4+r.Intn(40))...)
				c.Count("foreign-magic")
			}
			w.line(c, fmt.Sprintf("req - %s %s", svc, hx(bodyb)))
		}
	}
}
