package main

// Demon callback body templates (what the Demon's command handlers send back),
// shared by C01 / C03 / C05 / C07.  Each template says whether it is the task's
// final callback (the Demon sends nothing further for that request id).

import (
	"encoding/binary"

	"Havoc/pkg/agent"

	"verifharness/internal/gen"
)

func fI(v uint32) fld       { return fld{kind: 'i', u: uint64(v)} }
func fQ(v uint64) fld       { return fld{kind: 'q', u: v} }
func fY(b []byte) fld       { return fld{kind: 'y', data: b} }
func fW(s string) fld       { return fld{kind: 'y', data: utf16le(append([]rune(s), 0))} }
func fS(s string) fld       { return fld{kind: 'y', data: append([]byte(s), 0)} }
func body(fs ...fld) []byte { return encFields(fs) }

type cbT struct {
	label string
	cmd   uint32
	body  []byte
	final string // "1" final, "0" not final, "?" unknown
}

var pathNames = []string{
	"C:\\Users\\bob\\notes.txt", "notes.txt", "..\\..\\evil.txt", "../../../etc/passwd", "a/b/c.bin",
	"..\\Download_evil\\x.txt", "dir\\..\\..\\up.txt", "", "C:\\", "\\\\srv\\share\\f", "x\x00y.txt", "Download/../../z",
	"....//....//w", "C:/Users/bob/notes.txt", "ünï.txt", "a\\..\\b.txt",
}

func genName(r *gen.Rng) string {
	if r.Chance(1, 6) {
		n := 1 + r.Intn(300)
		b := make([]byte, n)
		for i := range b {
			b[i] = "abcXYZ019._-/\\ "[r.Intn(15)]
		}
		return string(b)
	}
	return gen.Pick(r, pathNames)
}

func be32b(v uint32) []byte { return binary.BigEndian.AppendUint32(nil, v) }

// genCallback picks one template; fileID lets sequences reuse ids.
func genDirListing(r *gen.Rng) cbT {
	explorer, listOnly := uint32(r.Intn(2)), uint32(r.Intn(2))
	fs := []fld{fI(1), fI(explorer), fI(listOnly), fW(genName(r)), fI(uint32(gen.Pick(r, []int{1, 1, 1, 0})))}
	for d := 0; d < r.Intn(3); d++ {
		root := gen.Pick(r, []string{"C:\\Users\\*", "", "C:\\*", "x", "\\\\srv\\share\\*"})
		nf, nd := r.Intn(3), r.Intn(2)
		if r.Chance(1, 6) {
			nf = int(gen.Pick(r, []uint32{0xffffffff, 0x7fffffff, 1000}))
		}
		fs = append(fs, fW(root), fI(uint32(nf)), fI(uint32(nd)))
		if listOnly == 0 {
			fs = append(fs, fQ(uint64(r.Intn(100000))))
		}
		for i := 0; i < (nf+nd)%5; i++ {
			fs = append(fs, fW(gen.Pick(r, []string{"a.txt", "", "sub", "..", "ü"})))
			if listOnly == 0 {
				fs = append(fs, fI(uint32(r.Intn(2))), fQ(uint64(r.Intn(5000))), fI(uint32(r.Intn(31))), fI(uint32(r.Intn(13))), fI(2024), fI(uint32(r.Intn(60))), fI(uint32(r.Intn(24))))
			}
		}
	}
	return cbT{"fs.dir", agent.COMMAND_FS, encFields(fs), "1"}
}

func genCallback(r *gen.Rng, fileID uint32) cbT {
	switch r.Intn(31) {
	case 27: // reverse port forward: socket open (ids from a small pool so duplicates happen), loopback target
		return cbT{"socket.open", agent.COMMAND_SOCKET, body(fI(agent.SOCKET_COMMAND_OPEN), fI(uint32(0x50+r.Intn(4))), fI(0x0100007f), fI(uint32(40000+r.Intn(99))), fI(0x0100007f), fI(uint32(1+r.Intn(5)))), "?"}
	case 28:
		return cbT{"socket.read", agent.COMMAND_SOCKET, body(fI(agent.SOCKET_COMMAND_READ), fI(uint32(0x50+r.Intn(4))), fI(uint32(1+r.Intn(3))), fI(uint32(r.Intn(2))), fY(r.Bytes(r.Intn(20)))), "?"}
	case 29:
		return cbT{"socket.close", agent.COMMAND_SOCKET, body(fI(agent.SOCKET_COMMAND_CLOSE), fI(uint32(0x50+r.Intn(4))), fI(uint32(1+r.Intn(3)))), "?"}
	case 30:
		return cbT{"socket.rportfwd.remove", agent.COMMAND_SOCKET, body(fI(agent.SOCKET_COMMAND_RPORTFWD_REMOVE), fI(uint32(0x50+r.Intn(4))), fI(0x0100007f), fI(4444), fI(0x0100007f), fI(1)), "?"}
	case 22:
		return genDirListing(r)
	case 23:
		m := genRegInfo(r)
		b := append(r.Bytes(32), r.Bytes(16)...)
		b = append(b, encFields(m.fields(r.U32()))...)
		return cbT{"checkin", agent.COMMAND_CHECKIN, b, "?"}
	case 24:
		return cbT{"demoninfo", agent.DEMON_INFO, body(fI(uint32(gen.Pick(r, []int{10, 11, 12, 21}))), fQ(r.U64b()), fI(r.U32()), fI(uint32(r.Intn(0x100))), fI(uint32(r.Intn(0x100)))), "?"}
	case 0:
		return cbT{"exit", agent.COMMAND_EXIT, body(fI(uint32(1 + r.Intn(2)))), "1"}
	case 1:
		return cbT{"killdate", agent.COMMAND_KILL_DATE, nil, "1"}
	case 2:
		return cbT{"sleep", agent.COMMAND_SLEEP, body(fI(uint32(r.Intn(100))), fI(uint32(r.Intn(100)))), "1"}
	case 3:
		return cbT{"output", agent.COMMAND_OUTPUT, body(fS("some output")), "0"}
	case 4:
		return cbT{"fs.cd", agent.COMMAND_FS, body(fI(4), fW(genName(r))), "1"}
	case 5:
		return cbT{"fs.remove", agent.COMMAND_FS, body(fI(5), fI(uint32(r.Intn(2))), fW(genName(r))), "1"}
	case 6:
		return cbT{"fs.mkdir", agent.COMMAND_FS, body(fI(6), fW(genName(r))), "1"}
	case 7:
		return cbT{"fs.pwd", agent.COMMAND_FS, body(fI(9), fW(genName(r))), "1"}
	case 8:
		return cbT{"fs.upload", agent.COMMAND_FS, body(fI(3), fI(uint32(r.Intn(5000))), fW(genName(r))), "1"}
	case 9:
		return cbT{"fs.dl.open", agent.COMMAND_FS, body(fI(2), fI(0), fI(fileID), fQ(uint64(r.Intn(100000))), fW(genName(r))), "0"}
	case 10:
		return cbT{"fs.dl.write", agent.COMMAND_FS, body(fI(2), fI(1), fI(fileID), fY(r.Bytes(r.Intn(40)))), "0"}
	case 11:
		return cbT{"fs.dl.close", agent.COMMAND_FS, body(fI(2), fI(2), fI(fileID), fI(uint32(r.Intn(2)))), "1"}
	case 12:
		return cbT{"bo.output", agent.BEACON_OUTPUT, body(fI(agent.CALLBACK_OUTPUT), fS("beacon text")), "0"}
	case 13:
		return cbT{"bo.file", agent.BEACON_OUTPUT, body(fI(agent.CALLBACK_FILE), fY(append(append(be32b(fileID), be32b(uint32(r.Intn(9000)))...), []byte(genName(r))...))), "0"}
	case 14:
		return cbT{"bo.filewrite", agent.BEACON_OUTPUT, body(fI(agent.CALLBACK_FILE_WRITE), fY(append(be32b(fileID), r.Bytes(r.Intn(30))...))), "0"}
	case 15:
		return cbT{"bo.fileclose", agent.BEACON_OUTPUT, body(fI(agent.CALLBACK_FILE_CLOSE), fY(be32b(fileID))), "0"}
	case 16:
		return cbT{"pivot.list", agent.COMMAND_PIVOT, body(fI(agent.DEMON_PIVOT_LIST)), "?"}
	case 17:
		return cbT{"socket.rportfwd.list", agent.COMMAND_SOCKET, body(fI(3)), "?"}
	case 18:
		return cbT{"proclist", agent.COMMAND_PROC_LIST, body(fI(0)), "?"}
	case 19:
		return cbT{"job.list", agent.COMMAND_JOB, body(fI(1)), "?"}
	case 20:
		return cbT{"error.win32", agent.COMMAND_ERROR, body(fI(1), fI(5)), "?"}
	case 21:
		return cbT{"config", agent.COMMAND_CONFIG, body(fI(uint32(r.Intn(160))), fI(uint32(r.Intn(3)))), "?"}
	default:
		// arbitrary command with an arbitrary field list
		cmds := []uint32{agent.COMMAND_CHECKIN, agent.COMMAND_TOKEN, agent.COMMAND_NET, agent.COMMAND_TRANSFER, agent.COMMAND_KERBEROS,
			agent.COMMAND_SCREENSHOT, agent.COMMAND_PROC, agent.COMMAND_INLINEEXECUTE, agent.COMMAND_ASSEMBLY_INLINE_EXECUTE,
			agent.COMMAND_INJECT_DLL, agent.COMMAND_SPAWNDLL, agent.COMMAND_INJECT_SHELLCODE, agent.DEMON_INFO, agent.COMMAND_MEM_FILE,
			agent.COMMAND_PACKAGE_DROPPED, agent.COMMAND_PROC_PPIDSPOOF, agent.COMMAND_ASSEMBLY_LIST_VERSIONS, 0x7777}
		n := r.Intn(6)
		var fs []fld
		for i := 0; i < n; i++ {
			f := genField(r)
			if f.kind == 'i' && r.Bool() {
				f.u = uint64(r.Intn(12))
			}
			fs = append(fs, f)
		}
		return cbT{"random", gen.Pick(r, cmds), encFields(fs), "?"}
	}
}
