package main

// C17 — the yaotl parsers accept any input without crashing and report sane positions.
// Byte strings (grammar-generated then mutated, truncated at random offsets, invalid UTF-8,
// deep nesting, random structural soup) are fed to the public entry points: ParseConfig /
// LexConfig, ParseExpression / LexExpression, ParseTemplate / LexTemplate, ParseTraversalAbs and
// the JSON parser — each under a panic guard and a watchdog.  Per input: the token stream with
// offsets and bytes, the tree of node ranges (children nested in parents), the ranges of the
// diagnostics, and whether an error-free input also evaluates / decodes without a panic.

import (
	"regexp"
	"fmt"
	"strings"
	"time"

	hcl "Havoc/pkg/profile/yaotl"
	"Havoc/pkg/profile/yaotl/hclsyntax"
	hjson "Havoc/pkg/profile/yaotl/json"

	"verifharness/internal/gen"
)

func init() { commands["C17"] = runC17 }

type rangeWalker struct {
	sb strings.Builder
}

// Attributes and Blocks are grouping constructs without a range of their own (their Range() is
// documented as "some arbitrary point ... no practical use"): they are transparent here.
func grouping(n hclsyntax.Node) bool {
	switch n.(type) {
	case hclsyntax.Attributes, hclsyntax.Blocks:
		return true
	}
	return false
}

func (w *rangeWalker) Enter(n hclsyntax.Node) hcl.Diagnostics {
	if grouping(n) {
		return nil
	}
	r := n.Range()
	fmt.Fprintf(&w.sb, "(%d-%d@%s", r.Start.Byte, r.End.Byte, strings.TrimPrefix(fmt.Sprintf("%T", n), "*hclsyntax."))
	return nil
}

func (w *rangeWalker) Exit(n hclsyntax.Node) hcl.Diagnostics {
	if grouping(n) {
		return nil
	}
	w.sb.WriteString(")")
	return nil
}

func treeOf(n hclsyntax.Node) string {
	w := &rangeWalker{}
	hclsyntax.Walk(n, w)
	if w.sb.Len() == 0 {
		return "-"
	}
	return w.sb.String()
}

func diagRanges(diags hcl.Diagnostics) (string, int) {
	var out []string
	errs := 0
	for _, d := range diags {
		if d.Severity == hcl.DiagError {
			errs++
		}
		if d.Subject != nil {
			out = append(out, fmt.Sprintf("%d-%d", d.Subject.Start.Byte, d.Subject.End.Byte))
		}
		if d.Context != nil {
			out = append(out, fmt.Sprintf("%d-%d", d.Context.Start.Byte, d.Context.End.Byte))
		}
	}
	if len(out) == 0 {
		return "-", errs
	}
	return strings.Join(out, ","), errs
}

func tokStr(toks hclsyntax.Tokens) string {
	var out []string
	for _, t := range toks {
		out = append(out, fmt.Sprintf("%d:%d:%d:%s", int(t.Type), t.Range.Start.Byte, t.Range.End.Byte, hx(t.Bytes)))
	}
	if len(out) == 0 {
		return "-"
	}
	return strings.Join(out, ",")
}

func evalBody(b hcl.Body) string {
	return guard(func() string {
		attrs, _ := b.JustAttributes()
		for _, a := range attrs {
			a.Expr.Value(nil)
			a.Expr.Variables()
		}
		return "ok"
	})
}

// a number with an exponent of five or more digits is parsed but not evaluated: rendering it as decimal text
// (template interpolation, conversion to string) is not endless, but takes minutes and gigabytes - outside the property
var c17HugeExp = regexp.MustCompile(`[0-9.][eE][+-]?[0-9]{5,}`)

func c17Run(mode string, src []byte) string {
	noEval := c17HugeExp.Match(src)
	return guardT(4*time.Second, func() string {
		start := hcl.Pos{Line: 1, Column: 1, Byte: 0}
		switch mode {
		case "cfg":
			toks, _ := hclsyntax.LexConfig(src, "x", start)
			f, diags := hclsyntax.ParseConfig(src, "x", start)
			dr, errs := diagRanges(diags)
			tree, ev := "-", "skip"
			if f != nil && f.Body != nil {
				tree = treeOf(f.Body.(*hclsyntax.Body))
				if errs == 0 && !noEval {
					ev = evalBody(f.Body)
					if ev == "ok" {
						ev = guard(func() string {
							c, _, _ := f.Body.PartialContent(&hcl.BodySchema{Blocks: []hcl.BlockHeaderSchema{{Type: "block", LabelNames: nil}}})
							_ = c
							return "ok"
						})
					}
				}
			}
			return fmt.Sprintf("toks=%s tree=%s diags=%s errs=%d eval=%s", tokStr(toks), tree, dr, errs, ev)
		case "expr":
			toks, _ := hclsyntax.LexExpression(src, "x", start)
			e, diags := hclsyntax.ParseExpression(src, "x", start)
			dr, errs := diagRanges(diags)
			tree, ev := "-", "skip"
			if e != nil {
				tree = treeOf(e)
				if errs == 0 && !noEval {
					ev = guard(func() string { e.Value(nil); e.Value(&hcl.EvalContext{}); e.Variables(); return "ok" })
				}
			}
			return fmt.Sprintf("toks=%s tree=%s diags=%s errs=%d eval=%s", tokStr(toks), tree, dr, errs, ev)
		case "tmpl":
			toks, _ := hclsyntax.LexTemplate(src, "x", start)
			e, diags := hclsyntax.ParseTemplate(src, "x", start)
			dr, errs := diagRanges(diags)
			tree, ev := "-", "skip"
			if e != nil {
				tree = treeOf(e)
				if errs == 0 && !noEval {
					ev = guard(func() string { e.Value(nil); e.Variables(); return "ok" })
				}
			}
			return fmt.Sprintf("toks=%s tree=%s diags=%s errs=%d eval=%s", tokStr(toks), tree, dr, errs, ev)
		case "trav":
			t, diags := hclsyntax.ParseTraversalAbs(src, "x", start)
			dr, errs := diagRanges(diags)
			tree := "-"
			if len(t) > 0 && errs == 0 {
				r := t.SourceRange()
				tree = fmt.Sprintf("(%d-%d", r.Start.Byte, r.End.Byte)
				for _, st := range t {
					sr := st.SourceRange()
					tree += fmt.Sprintf("(%d-%d)", sr.Start.Byte, sr.End.Byte)
				}
				tree += ")"
			}
			return fmt.Sprintf("toks=- tree=%s diags=%s errs=%d eval=skip", tree, dr, errs)
		case "json":
			f, diags := hjson.Parse(src, "x")
			dr, errs := diagRanges(diags)
			ev := "skip"
			if f != nil && f.Body != nil && errs == 0 && !noEval {
				ev = evalBody(f.Body)
			}
			return fmt.Sprintf("toks=- tree=- diags=%s errs=%d eval=%s", dr, errs, ev)
		}
		return "badmode"
	})
}

func c17Line(c *Ctx, in string) {
	c.Pending(in)
	parts := strings.Fields(in)
	if parts[0] == "reset" {
		c.Emit("reset")
		return
	}
	// parse <mode> <srchex>
	src := unhx(parts[2])
	c.Emit("%s => %s", in, c17Run(parts[1], src))
}

func runC17(c *Ctx) {
	if c.Replay != "" {
		for _, l := range replayLines(c.Replay) {
			c17Line(c, l)
		}
		return
	}
	r := c.R
	g20 := &c20Gen{r: r}
	soup := []string{"{", "}", "[", "]", "(", ")", "\"", "${", "%{", "}", "~}", "<<EOT\n", "EOT\n", "=", ",", ".", "*", "?", ":", "\n", " ", "\t", "#", "//", "/*", "*/", "a", "1", "-", "!", "&&", "for", "in", "if", "\\", "\\x4", "$${", "1e", "0x", "..."}
	ex := func(d int) string { return exprSrc(r, d) }
	exprs := func() string { return ex(1 + r.Intn(4)) }
	jsons := []string{`{"a": 1, "b": {"c": [1, 2, "x${y}"], "d": null}}`, `{"block": {"label": {"attr": true}}, "list": [{"a": 1}, {"a": 2}]}`, `[{"x": "${a.b[0]}"}]`, `{"a": "é\n", "b": 1.5e3, "c": -0}`}
	travs := []string{"a.b.c", "a[0].b", `a["k"].b[1]`, "a.*.b", "a[*]", "a . b", "a.0"}
	tmpls := []string{"hello ${name}!", "%{ if c }yes%{ else }no%{ endif }", "%{ for x in xs ~} ${x} %{~ endfor }", "a $${b} %%{c} ${\"${nested}\"}", "${~ 1 + 2 ~}", "$", "%", "${", "%{", "${a", "%{ if }"}
	mutate := func(b []byte) []byte {
		if len(b) == 0 {
			return b
		}
		out := append([]byte{}, b...)
		switch r.Intn(9) {
		case 0:
			return out[:r.Intn(len(out)+1)] // truncated
		case 1:
			i := r.Intn(len(out))
			return append(out[:i], out[i+1:]...)
		case 2:
			i := r.Intn(len(out))
			out[i] ^= byte(1 << uint(r.Intn(8)))
			return out
		case 3:
			i := r.Intn(len(out) + 1)
			ins := gen.Pick(r, [][]byte{{0xff}, {0xc0, 0x80}, {0xe2, 0x82}, {0xf0, 0x9f}, {0x00}, {0xef, 0xbb, 0xbf}, {'\r'}, {'\r', '\n'}})
			return append(out[:i], append(ins, out[i:]...)...)
		case 4:
			i := r.Intn(len(out) + 1)
			return append(out[:i], append([]byte(gen.Pick(r, soup)), out[i:]...)...)
		case 5:
			i, j := r.Intn(len(out)), r.Intn(len(out))
			if i > j {
				i, j = j, i
			}
			return append(out[:j], append(append([]byte{}, out[i:j]...), out[j:]...)...)
		case 6:
			i, j := r.Intn(len(out)), r.Intn(len(out))
			out[i], out[j] = out[j], out[i]
			return out
		default:
			return out
		}
	}
	// template sequences assembled from their pieces, complete or not
	seqSoup := func() string {
		pieces := []string{"for", "if", "else", "endif", "endfor", "k", ",", "v", "in", "xs", "1", "\"s\"", "[", "~", ".", "x y"}
		var sb strings.Builder
		if r.Chance(1, 2) { // a `for` / `if` directive with each part present, absent or of the wrong kind
			ident := func() string {
				if r.Chance(1, 4) {
					return gen.Pick(r, []string{"1", "\"s\"", "[", ".", "}", ""})
				}
				return gen.Pick(r, []string{"k", "v", "in", "x"})
			}
			opt := func(s string) string {
				if r.Chance(3, 4) {
					return " " + s
				}
				return ""
			}
			if r.Chance(2, 3) {
				sb.WriteString("%{ for" + opt(ident()) + opt(",") + opt(ident()) + opt("in") + opt(gen.Pick(r, []string{"xs", "[1,2]", "1", ""})) + opt("}") + " body ${k}" + opt("%{ endfor }"))
			} else {
				sb.WriteString("%{ if" + opt(gen.Pick(r, []string{"c", "1 ==", "", "true"})) + opt("}") + " yes" + opt("%{ else }") + " no" + opt("%{ endif }"))
			}
			return sb.String()
		}
		for n := 1 + r.Intn(3); n > 0; n-- {
			sb.WriteString(gen.Pick(r, []string{"%{", "%{~", "${", "text "}))
			for m := r.Intn(6); m > 0; m-- {
				sb.WriteString(gen.Pick(r, []string{" ", ""}) + gen.Pick(r, pieces))
			}
			sb.WriteString(gen.Pick(r, []string{"}", " }", "~}", "", "}\n"}))
		}
		return sb.String()
	}
	// templates composed from the template grammar: literals (also empty), interpolations, `if` with and without `else`,
	// `for`, every branch possibly empty, nested, strip markers and blanks inside the markers at random
	var tmplSrc func(d int) string
	tmplSrc = func(d int) string {
		op := func() string { return gen.Pick(r, []string{"%{", "%{ ", "%{~", "%{~ "}) }
		cl := func() string { return gen.Pick(r, []string{"}", " }", "~}", " ~}"}) }
		var sb strings.Builder
		for n := r.Intn(4); n > 0; n-- {
			switch k := r.Intn(10); {
			case k < 3:
				sb.WriteString(gen.Pick(r, []string{"", "x", " ", "text ", "\n", "$${", "%%{", "é", "$", "%"}))
			case k < 5:
				sb.WriteString(gen.Pick(r, []string{"${", "${~", "${ "}) + gen.Pick(r, []string{"a", "1", "a.b", "\"s\"", "c ? 1 : 2", "[1, 2][0]"}) + gen.Pick(r, []string{"}", "~}", " }"}))
			case k < 8 && d > 0:
				sb.WriteString(op() + "if " + gen.Pick(r, []string{"c", "true", "a == 1", "!c"}) + cl() + tmplSrc(d-1))
				if r.Chance(1, 2) {
					sb.WriteString(op() + "else" + cl() + tmplSrc(d-1))
				}
				sb.WriteString(op() + "endif" + cl())
			case d > 0:
				sb.WriteString(op() + "for " + gen.Pick(r, []string{"x", "k, v"}) + " in " + gen.Pick(r, []string{"xs", "[1, 2]", "{a = 1}", "[]"}) + cl() + tmplSrc(d-1) + op() + "endfor" + cl())
			}
		}
		return sb.String()
	}
	wrapTmpl := func(t string) (string, []byte) {
		switch r.Intn(4) {
		case 0:
			return "tmpl", []byte(t)
		case 1:
			return "expr", []byte("\"" + t + "\"")
		case 2:
			return "cfg", []byte("a = \"" + t + "\"\nb = 1\n")
		}
		return "cfg", []byte("a = <<EOT\n" + t + "\nEOT\nb = 1\n")
	}
	// every run: the small directive shapes with each branch empty / not empty, bare, in a string and in a heredoc
	for _, y := range []string{"", "y"} {
		for _, n := range []string{"", "n"} {
			for _, sp := range []string{"", " "} {
				for _, t := range []string{
					"%{" + sp + "if c" + sp + "}" + y + "%{" + sp + "else" + sp + "}" + n + "%{" + sp + "endif" + sp + "}",
					"%{" + sp + "if c" + sp + "}" + y + "%{" + sp + "endif" + sp + "}",
					"%{" + sp + "for x in xs" + sp + "}" + y + "%{" + sp + "endfor" + sp + "}",
					"%{~" + sp + "if c" + sp + "~}" + y + "%{~" + sp + "else" + sp + "~}" + n + "%{~" + sp + "endif" + sp + "~}",
				} {
					for _, w := range [][2]string{{"tmpl", t}, {"expr", "\"" + t + "\""}, {"cfg", "a = \"" + t + "\"\n"}, {"cfg", "a = <<EOT\n" + t + "\nEOT\n"}} {
						c.Count("mode." + w[0] + ".directive-shapes")
						c17Line(c, fmt.Sprintf("parse %s %s", w[0], hx([]byte(w[1]))))
					}
				}
			}
		}
	}
	for c.Lines < c.N {
		var mode string
		var src []byte
		switch k := r.Intn(24); {
		case k >= 22: // templates composed from the grammar
			mode, src = wrapTmpl(tmplSrc(1 + r.Intn(3)))
		case k >= 20: // malformed / partial template sequences, bare or inside a string or heredoc
			switch r.Intn(4) {
			case 0:
				mode, src = "tmpl", []byte(seqSoup())
			case 1:
				mode, src = "expr", []byte("\""+seqSoup()+"\"")
			case 2:
				mode, src = "cfg", []byte("a = \""+seqSoup()+"\"\nb = 1\n")
			default:
				mode, src = "cfg", []byte("a = <<EOT\n"+seqSoup()+"\nEOT\nb = [\n1,\n2]\n")
			}
		case k < 6:
			mode = "cfg"
			var sb strings.Builder
			g20.write(g20.items(0), "", &sb)
			src = []byte(sb.String())
		case k < 10:
			mode = "expr"
			src = []byte(exprs())
		case k < 12:
			mode = "tmpl"
			src = []byte(gen.Pick(r, tmpls))
		case k < 13:
			mode = "trav"
			src = []byte(gen.Pick(r, travs))
		case k < 15:
			mode = "json"
			if r.Chance(1, 4) {
				src = []byte(gen.Pick(r, jsons))
			} else {
				src = []byte(jsonSrc(r, 1+r.Intn(4)))
			}
		case k < 17: // structural soup
			mode = gen.Pick(r, []string{"cfg", "expr", "tmpl", "json", "trav"})
			n := 1 + r.Intn(25)
			for i := 0; i < n; i++ {
				src = append(src, gen.Pick(r, soup)...)
			}
		case k < 18: // deep nesting
			mode = gen.Pick(r, []string{"cfg", "expr", "tmpl", "json"})
			d := 20 + r.Intn(300)
			o, cl := gen.Pick(r, [][2]string{{"(", ")"}, {"[", "]"}, {"{a=", "}"}, {"\"${", "}\""}, {"b {\n", "}\n"}, {"{\"a\":", "}"}, {"[", ""}, {"-", ""}, {"!", ""}, {"a.", ""}, {"1+", ""}})[0], ""
			_ = cl
			pair := gen.Pick(r, [][2]string{{"(", ")"}, {"[", "]"}, {"{a=", "}"}, {"\"${", "}\""}, {"b {\n", "}\n"}, {"{\"a\":", "}"}, {"[", ""}, {"-", ""}, {"!", ""}, {"1+", ""}})
			o = pair[0]
			src = []byte(strings.Repeat(o, d) + "1" + strings.Repeat(pair[1], d))
		default: // random bytes
			mode = gen.Pick(r, []string{"cfg", "expr", "tmpl", "json", "trav"})
			src = r.Bytes(r.Intn(40))
		}
		for i := 0; i < r.Intn(3); i++ {
			src = mutate(src)
		}
		if r.Chance(1, 12) { // the whole input with CRLF line endings
			src = []byte(strings.ReplaceAll(string(src), "\n", "\r\n"))
		}
		if len(src) > 700 {
			src = src[:700]
		}
		c.Count("mode." + mode)
		c17Line(c, fmt.Sprintf("parse %s %s", mode, hx(src)))
	}
}

// jsonSrc: a generated JSON document over the whole JSON grammar: numbers with every part (sign, fraction, exponents
// up to and beyond what arbitrary-precision floats take), strings with escapes / surrogates / template sequences,
// repeated keys, odd spacing
func jsonSrc(r *gen.Rng, d int) string {
	ws := func() string { return gen.Pick(r, []string{"", "", " ", "\n", "\t", "  ", "\r\n"}) }
	num := func() string {
		mant := gen.Pick(r, []string{"0", "1", "9", "12", "-0", "-1", "123456789012345678901234567890", "0.5", "1.25", "-3.000", "0.0000000000000000000000001"})
		if r.Chance(1, 2) {
			return mant
		}
		e := gen.Pick(r, []string{"e", "E", "e+", "e-", "E-"})
		return mant + e + gen.Pick(r, []string{"0", "1", "3", "10", "308", "309", "1000", "65536", "1000000000", "2147483646", "2147483647", "2147483648", "4000000000", "4294967296", "99999999999999999999"})
	}
	str := func() string {
		var b strings.Builder
		b.WriteByte('"')
		for i := 0; i < r.Intn(4); i++ {
			b.WriteString(gen.Pick(r, []string{"a", "key", "é", "\\n", "\\\"", "\\\\", "\\/", "\\u0041", "\\u00e9", "\\ud83d\\ude00", "\\ud83d", "\\ude00x", "\\u12", "${x}", "${a.b[0]}", "%{ if c }y%{ endif }", "%{ for v in l }${v}%{ endfor }", "$${lit}", "%%{lit}", "${", "%{", "~}", " ", "\\x", "\t"}))
		}
		b.WriteByte('"')
		return b.String()
	}
	var val func(d int) string
	val = func(d int) string {
		k := r.Intn(10)
		if d <= 0 && k >= 6 {
			k = r.Intn(6)
		}
		switch {
		case k < 2:
			return num()
		case k < 4:
			return str()
		case k < 5:
			return gen.Pick(r, []string{"true", "false", "null"})
		case k < 6:
			return gen.Pick(r, []string{"01", "1.", ".5", "+1", "1e", "1e+", "-", "tru", "nul", "NaN", "Infinity", "0x10", "'a'", "\"unterminated"})
		case k < 8:
			var ps []string
			for i := 0; i < r.Intn(4); i++ {
				ps = append(ps, ws()+val(d-1)+ws())
			}
			return "[" + strings.Join(ps, ",") + gen.Pick(r, []string{"", "", "", ","}) + "]"
		default:
			var ps []string
			for i := 0; i < r.Intn(4); i++ {
				key := gen.Pick(r, []string{`"a"`, `"b"`, `"a"`, `"block"`, `"label"`, `"${k}"`, `""`, str()})
				ps = append(ps, ws()+key+ws()+":"+ws()+val(d-1)+ws())
			}
			return "{" + strings.Join(ps, ",") + "}"
		}
	}
	return ws() + val(d) + ws()
}

// exprSrc: source text of a generated expression (mostly valid; shared by the C17 and C20 generators)
func exprSrc(r *gen.Rng, d int) string {
	ex := func(d int) string { return exprSrc(r, d) }

		if d <= 0 {
			return gen.Pick(r, []string{"1", "x", "true", "null", "\"s\"", "a.b", "12.5e3", "\"t ${v}\"", "1e2147483647", "9e2147483646", "3e-4000000000", "1e99999999999999999999", "12345678901234567890123", "9007199254740993", "0.1e-1", "1E+2"})
		}
		switch r.Intn(22) {
		case 12:
			return "{for k, v in " + ex(d-1) + " : " + gen.Pick(r, []string{"k", "v", "\"${k}\""}) + " => " + ex(d-1) + gen.Pick(r, []string{"", "...", " if " + ex(d-1), "... if v"}) + "}"
		case 13:
			return "[for " + gen.Pick(r, []string{"v", "i, v"}) + " in " + ex(d-1) + " : " + ex(d-1) + gen.Pick(r, []string{"", " if " + ex(d-1)}) + "]"
		case 14:
			return ex(d-1) + gen.Pick(r, []string{"[*]", "[*].a", "[*].a.b[0]", ".0", ".a.b", ".*", "[\"k\"]", "[true]", "[null]", "[false]", "[0]"})
		case 15:
			return gen.Pick(r, []string{"f()", "f(" + ex(d-1) + ")", "f(" + ex(d-1) + ",)", "f(\n" + ex(d-1) + ",\n" + ex(d-1) + "\n)"})
		case 16:
			return ex(d-1) + gen.Pick(r, []string{" != ", " >= ", " <= ", " > ", " || ", " / ", " - "}) + ex(d-1)
		case 17:
			return "{\n  k = " + ex(d-1) + "\n  \"q\" : " + ex(d-1) + "\n  (x) = " + ex(d-1) + ",\n}"
		case 18:
			return "(\n" + ex(d-1) + "\n)"
		case 19:
			return "<<-EOT\n    a ${" + ex(d-1) + "}\n  %{ for x in " + ex(d-1) + " ~}\n  ${x}\n  %{ endfor }\n  EOT\n"
		case 20:
			return "\"${~ " + ex(d-1) + " ~} %{~ if " + ex(d-1) + " ~} y %{~ else ~} n %{~ endif ~}\""
		case 21:
			return "[\n" + ex(d-1) + ",\n" + ex(d-1) + ",\n]"
		case 0:
			return ex(d-1) + gen.Pick(r, []string{" + ", " * ", " == ", " && ", " < ", "%", "-"}) + ex(d-1)
		case 1:
			return "(" + ex(d-1) + ")"
		case 2:
			return ex(d-1) + " ? " + ex(d-1) + " : " + ex(d-1)
		case 3:
			return "[" + ex(d-1) + ", " + ex(d-1) + "]"
		case 4:
			return "{ k = " + ex(d-1) + ", \"q\" = " + ex(d-1) + " }"
		case 5:
			return ex(d-1) + "[" + ex(d-1) + "]"
		case 6:
			return "f(" + ex(d-1) + ", " + ex(d-1) + "...)"
		case 7:
			return "[for k, v in " + ex(d-1) + " : k => v... if " + ex(d-1) + "]"
		case 8:
			return ex(d-1) + ".*.attr"
		case 9:
			return "\"a${" + ex(d-1) + "}b%{ if " + ex(d-1) + " }c%{ endif }\""
		case 10:
			return "<<EOT\n" + "line ${" + ex(d-1) + "}\nEOT\n"
		default:
			return gen.Pick(r, []string{"-", "!"}) + ex(d-1)
		}
	}
