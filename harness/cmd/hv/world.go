package main

// Shared "world" helpers: agents with real AES keys, the Demon-side request
// encoder (mirror of payloads/Demon/src/core/Package.c + PackageTransmitAll),
// the keystream reference (Go crypto/aes directly, independent of Havoc's wrapper).

import (
	"crypto/aes"
	"crypto/cipher"
	"encoding/binary"
	"fmt"
	"strconv"
	"strings"

	"Havoc/pkg/agent"
	"Havoc/pkg/common/parser"

	"verifharness/internal/gen"
)

const demonMagic = 0xDEADBEEF

// keystream returns the first n bytes of AES-256-CTR keystream for key/iv.
func keystream(key, iv []byte, n int) []byte {
	blk, err := aes.NewCipher(key)
	if err != nil {
		panic(err)
	}
	out := make([]byte, n)
	cipher.NewCTR(blk, iv).XORKeyStream(out, out)
	return out
}

func xorKS(data []byte, key, iv []byte) []byte {
	ks := keystream(key, iv, len(data))
	out := make([]byte, len(data))
	for i := range data {
		out[i] = data[i] ^ ks[i]
	}
	return out
}

// newAgent creates a registered-looking session object.
func newAgent(id uint32, key, iv []byte) *agent.Agent {
	a := &agent.Agent{NameID: fmt.Sprintf("%08x", id), Active: true, Info: new(agent.AgentInfo)}
	a.Encryption.AESKey = key
	a.Encryption.AESIv = iv
	a.Info.MagicValue = demonMagic
	return a
}

// pkg is one agent->server package: command, request id, body (nil body for GET_JOB: no length field).
type dpkg struct {
	cmd, req uint32
	body     []byte
	nobody   bool
}

// demonRequest builds [size][magic][id][cmd][req] ENC{ [len][body] [cmd][req][len][body] … }.
func demonRequest(id uint32, key, iv []byte, pkgs []dpkg) []byte {
	var clear, enc []byte
	for i, p := range pkgs {
		hdr := binary.BigEndian.AppendUint32(nil, p.cmd)
		hdr = binary.BigEndian.AppendUint32(hdr, p.req)
		var rest []byte
		if !p.nobody {
			rest = binary.BigEndian.AppendUint32(nil, uint32(len(p.body)))
			rest = append(rest, p.body...)
		}
		if i == 0 {
			clear = hdr
			enc = append(enc, rest...)
		} else {
			enc = append(enc, hdr...)
			enc = append(enc, rest...)
		}
	}
	enc = xorKS(enc, key, iv)
	body := binary.BigEndian.AppendUint32(nil, demonMagic)
	body = binary.BigEndian.AppendUint32(body, id)
	body = append(body, clear...)
	body = append(body, enc...)
	out := binary.BigEndian.AppendUint32(nil, uint32(len(body)))
	return append(out, body...)
}

// ---- typed job arguments in the line protocol ----

func argStr(v any) string {
	switch x := v.(type) {
	case int:
		return "int:" + strconv.FormatUint(uint64(int64(x)), 10)
	case int64:
		return "int64:" + strconv.FormatUint(uint64(x), 10)
	case uint64:
		return "uint64:" + strconv.FormatUint(x, 10)
	case int32:
		return "int32:" + strconv.FormatUint(uint64(uint32(x)), 10)
	case uint32:
		return "uint32:" + strconv.FormatUint(uint64(x), 10)
	case int16:
		return "int16:" + strconv.FormatUint(uint64(uint16(x)), 10)
	case uint16:
		return "uint16:" + strconv.FormatUint(uint64(x), 10)
	case string:
		return "str:" + hx([]byte(x))
	case []byte:
		return "bytes:" + hx(x)
	case byte:
		return "byte:" + strconv.Itoa(int(x))
	case bool:
		if x {
			return "bool:1"
		}
		return "bool:0"
	}
	return fmt.Sprintf("unknown:%T", v)
}

func argsStr(vs []any) string {
	if len(vs) == 0 {
		return "-"
	}
	ss := make([]string, len(vs))
	for i, v := range vs {
		ss[i] = argStr(v)
	}
	return strings.Join(ss, ",")
}

func parseArgsStr(s string) []any {
	if s == "-" {
		return []any{}
	}
	var out []any
	for _, f := range strings.Split(s, ",") {
		kv := strings.SplitN(f, ":", 2)
		u, _ := strconv.ParseUint(kv[1], 10, 64)
		switch kv[0] {
		case "int":
			out = append(out, int(int64(u)))
		case "int64":
			out = append(out, int64(u))
		case "uint64":
			out = append(out, u)
		case "int32":
			out = append(out, int32(uint32(u)))
		case "uint32":
			out = append(out, uint32(u))
		case "int16":
			out = append(out, int16(uint16(u)))
		case "uint16":
			out = append(out, uint16(u))
		case "str":
			out = append(out, string(unhx(kv[1])))
		case "bytes":
			out = append(out, unhx(kv[1]))
		case "byte":
			out = append(out, byte(u))
		case "bool":
			out = append(out, u != 0)
		default:
			panic("bad arg " + f)
		}
	}
	return out
}

func genArg(r *gen.Rng) any {
	switch r.Intn(13) {
	case 0:
		return int(int32(r.U32()))
	case 1:
		return int(r.U64b()) // int wider than 32 bits: truncated on the wire
	case 2:
		return int64(r.U64b())
	case 3:
		return r.U64b()
	case 4:
		return int32(r.U32())
	case 5:
		return r.U32()
	case 6:
		return int16(r.U32())
	case 7:
		return uint16(r.U32())
	case 8:
		n := gen.Pick(r, []int{0, 1, 2, 5, 17, 64})
		b := r.Bytes(n)
		if r.Chance(1, 3) && n > 0 {
			b[n-1] = 0 // already NUL-terminated
		}
		if r.Chance(1, 4) {
			for i := range b {
				b[i] = byte(0x20 + int(b[i])%0x5f)
			}
		}
		return string(b)
	case 9:
		return r.Bytes(gen.Pick(r, []int{0, 1, 3, 16, 33, 100, 300}))
	case 10:
		return byte(r.U64())
	case 11:
		return r.Bool()
	default:
		return int(r.Intn(1000))
	}
}

func newParser(b []byte) *parser.Parser { return parser.NewParser(b) }
