package main

// C02 — an operator's task reaches the agent exactly as issued.
// Job level: typed argument lists are queued on real agents (AddJobToQueue) and
// fetched through the real listener entry point (handlers.parseAgentRequest via
// the verif hook) with a Demon-built COMMAND_GET_JOB request.

import (
	"encoding/base64"
	"fmt"
	"strconv"
	"strings"

	"Havoc/pkg/agent"
	"Havoc/pkg/handlers"

	"verifharness/internal/gen"
	"verifharness/internal/mockts"
)

func init() { commands["C02"] = runC02 }

type c02World struct {
	p8     *c08World // pivot chains (operations prefixed "p8.")
	ts     *mockts.TS
	keys   map[string][2][]byte
	agents map[string]*agent.Agent
}

func newC02World() *c02World {
	return &c02World{ts: mockts.New(), keys: map[string][2][]byte{}, agents: map[string]*agent.Agent{}}
}

const ksPrefix = 6000

func (w *c02World) line(c *Ctx, in string) {
	if strings.HasPrefix(in, "p8.") { // pivot-chain operations, carried out by the C08 world
		if w.p8 == nil || strings.HasPrefix(in, "p8.agent ") && len(strings.Fields(in)) == 5 {
			w.p8 = newC08World() // a chain starts with its root
			w.p8.prefix = "p8."
		}
		w.p8.line(c, strings.TrimPrefix(in, "p8."))
		return
	}
	parts := strings.Fields(in)
	switch parts[0] {
	case "reset":
		*w = *newC02World()
		c.Emit("reset")
	case "agent": // agent <id> <key> <iv> <ks>
		id64, _ := strconv.ParseUint(parts[1], 16, 32)
		key, iv := unhx(parts[2]), unhx(parts[3])
		a := newAgent(uint32(id64), key, iv)
		w.ts.Agents = append(w.ts.Agents, a)
		w.agents[parts[1]] = a
		w.keys[parts[1]] = [2][]byte{key, iv}
		c.Emit("%s => ok", in)
	case "job": // job <id> <cmd> <req> <args>
		a := w.agents[parts[1]]
		cmd, _ := strconv.ParseUint(parts[2], 10, 32)
		req, _ := strconv.ParseUint(parts[3], 10, 32)
		out := guard(func() string {
			a.AddJobToQueue(agent.Job{Command: uint32(cmd), RequestID: uint32(req), Data: parseArgsStr(parts[4])})
			return "ok"
		})
		c.Emit("%s => %s", in, out)
	case "task": // task <id> <taskid hex8> <delay> <jitter>: the operator's path, TaskPrepare + AddJobToQueue as dispatch.go does
		a := w.agents[parts[1]]
		out := guard(func() string {
			msg := map[string]string{}
			job, err := a.TaskPrepare(agent.COMMAND_SLEEP, map[string]interface{}{"TaskID": parts[2], "CommandLine": "sleep", "Arguments": parts[3] + ";" + parts[4]}, &msg, "client", w.ts)
			if err != nil || job == nil {
				return "ERR"
			}
			a.AddJobToQueue(*job)
			return fmt.Sprintf("ok req=%d", job.RequestID)
		})
		c.Emit("%s => %s", in, out)
	case "prep": // prep <command> <taskid hex8> <key> <iv> <ks> <param hex|->…: an operator command through the real TaskPrepare, on a fresh agent
		out := guard(func() string {
			key, iv := unhx(parts[3]), unhx(parts[4])
			a := newAgent(0x00c02aaa, key, iv)
			ts := mockts.New()
			ts.Agents = append(ts.Agents, a)
			var ps []string
			for _, h := range parts[6:] {
				if h == "-" {
					ps = append(ps, "")
				} else {
					ps = append(ps, string(unhx(h)))
				}
			}
			cmd, info := prepInfo(parts[1], ps)
			if info == nil {
				return "UNKNOWN"
			}
			info["TaskID"] = parts[2]
			info["CommandLine"] = parts[1]
			msg := map[string]string{}
			job, err := a.TaskPrepare(cmd, info, &msg, "client", ts)
			if err != nil || job == nil {
				return "REFUSED"
			}
			a.AddJobToQueue(*job)
			req := demonRequest(0x00c02aaa, key, iv, []dpkg{{cmd: agent.COMMAND_GET_JOB, req: 0, nobody: true}})
			resp, ok := handlers.VerifParseAgentRequest(ts, req, "127.0.0.1")
			if !ok {
				return "REJECTED"
			}
			return hx(resp.Bytes())
		})
		c.Emit("%s => %s", in, out)
	case "checkin": // checkin <id>
		id64, _ := strconv.ParseUint(parts[1], 16, 32)
		k := w.keys[parts[1]]
		req := demonRequest(uint32(id64), k[0], k[1], []dpkg{{cmd: agent.COMMAND_GET_JOB, req: 0, nobody: true}})
		out := guard(func() string {
			resp, ok := handlers.VerifParseAgentRequest(w.ts, req, "127.0.0.1")
			if !ok {
				return "REJECTED"
			}
			return hx(resp.Bytes())
		})
		w.ts.Take()
		c.Emit("%s => %s", in, out)
	default:
		panic("C02: unknown op " + parts[0])
	}
}

// prepInfo: the request an operator's client sends for a command, as TaskPrepare takes it.
func prepInfo(name string, p []string) (int, map[string]interface{}) {
	b64 := func(s string) string { return base64.StdEncoding.EncodeToString([]byte(s)) }
	arg := func(i int) string {
		if i < len(p) {
			return p[i]
		}
		return ""
	}
	switch name {
	case "sleep":
		return agent.COMMAND_SLEEP, map[string]interface{}{"Arguments": arg(0) + ";" + arg(1)}
	case "fs.cd", "fs.remove", "fs.mkdir":
		return agent.COMMAND_FS, map[string]interface{}{"SubCommand": name[3:], "Arguments": arg(0)}
	case "fs.download", "fs.cat":
		return agent.COMMAND_FS, map[string]interface{}{"SubCommand": name[3:], "Arguments": b64(arg(0))}
	case "fs.cp", "fs.mv":
		return agent.COMMAND_FS, map[string]interface{}{"SubCommand": name[3:], "Arguments": b64(arg(0)) + ";" + b64(arg(1))}
	case "fs.pwd":
		return agent.COMMAND_FS, map[string]interface{}{"SubCommand": "pwd", "Arguments": ""}
	case "fs.upload":
		return agent.COMMAND_FS, map[string]interface{}{"SubCommand": "upload", "Arguments": b64(arg(0)) + ";" + b64(arg(1))}
	case "proc.kill":
		return agent.COMMAND_PROC, map[string]interface{}{"ProcCommand": strconv.Itoa(agent.DEMON_COMMAND_PROC_KILL), "Args": arg(0)}
	case "proc.modules":
		return agent.COMMAND_PROC, map[string]interface{}{"ProcCommand": strconv.Itoa(agent.DEMON_COMMAND_PROC_MODULES), "Args": arg(0)}
	case "proc.grep":
		return agent.COMMAND_PROC, map[string]interface{}{"ProcCommand": strconv.Itoa(agent.DEMON_COMMAND_PROC_GREP), "Args": arg(0)}
	case "job.list":
		return agent.COMMAND_JOB, map[string]interface{}{"Command": "list"}
	case "job.suspend", "job.resume", "job.kill":
		return agent.COMMAND_JOB, map[string]interface{}{"Command": name[4:], "Param": arg(0)}
	case "token.impersonate":
		return agent.COMMAND_TOKEN, map[string]interface{}{"SubCommand": "impersonate", "Arguments": arg(0)}
	case "token.remove":
		return agent.COMMAND_TOKEN, map[string]interface{}{"SubCommand": "remove", "Arguments": arg(0)}
	case "pivot.connect":
		return agent.COMMAND_PIVOT, map[string]interface{}{"Command": strconv.Itoa(agent.DEMON_PIVOT_SMB_CONNECT), "Param": arg(0)}
	case "pivot.disconnect":
		return agent.COMMAND_PIVOT, map[string]interface{}{"Command": strconv.Itoa(agent.DEMON_PIVOT_SMB_DISCONNECT), "Param": arg(0)}
	case "transfer.list":
		return agent.COMMAND_TRANSFER, map[string]interface{}{"Command": "list", "FileID": ""}
	case "transfer.stop", "transfer.resume", "transfer.remove":
		return agent.COMMAND_TRANSFER, map[string]interface{}{"Command": name[9:], "FileID": arg(0)}
	case "exit.thread", "exit.process":
		return agent.COMMAND_EXIT, map[string]interface{}{"ExitMethod": name[5:]}
	case "proclist":
		return agent.COMMAND_PROC_LIST, map[string]interface{}{"FromProcessManager": arg(0)}
	}
	switch name {
	case "kerb.luid":
		return agent.COMMAND_KERBEROS, map[string]interface{}{"Command": "luid"}
	case "kerb.klist":
		return agent.COMMAND_KERBEROS, map[string]interface{}{"Command": "klist", "Argument1": "/luid", "Argument2": arg(0)}
	case "kerb.purge":
		return agent.COMMAND_KERBEROS, map[string]interface{}{"Command": "purge", "Argument": arg(0)}
	case "kerb.ptt":
		return agent.COMMAND_KERBEROS, map[string]interface{}{"Command": "ptt", "Ticket": b64(arg(0)), "Luid": arg(1)}
	}
	if key, ok := map[string]string{"config.verbose": "implant.verbose", "config.coffee.veh": "implant.coffee.veh", "config.coffee.threaded": "implant.coffee.threaded",
		"config.sleep-technique": "implant.sleep-obf.technique", "config.memory.alloc": "memory.alloc", "config.memory.execute": "memory.execute",
		"config.inject.technique": "inject.technique", "config.spawn64": "inject.spawn64", "config.spawn32": "inject.spawn32",
		"config.killdate": "killdate", "config.workinghours": "workinghours"}[name]; ok {
		return agent.COMMAND_CONFIG, map[string]interface{}{"ConfigKey": key, "ConfigVal": arg(0)}
	}
	return 0, nil
}

func runC02(c *Ctx) {
	w := newC02World()
	if c.Replay != "" {
		for _, l := range replayLines(c.Replay) {
			w.line(c, l)
		}
		return
	}
	r := c.R
	// the operator's commands: every command of the table, parameters from the text classes of the property
	// (empty, ASCII, non-ASCII incl. characters outside the BMP, already NUL-terminated, long) and integer boundaries
	texts := func() string {
		switch r.Intn(9) {
		case 0:
			return ""
		case 1:
			return "C:\\Windows\\Temp"
		case 2:
			return "pfad/mit ümläuten/и кириллица"
		case 3:
			return "emoji \U0001F4C1 und \U00020000 (outside the BMP)"
		case 4:
			return "nul-terminated\x00"
		case 5:
			return strings.Repeat("long/", 300+r.Intn(300))
		case 6:
			return "\\\\.\\pipe\\demo_pipe"
		case 7:
			return string([]rune{rune(0x10000 + r.Intn(0xFFFFF)), 'x', rune(0x4E00 + r.Intn(0x5000))})
		default:
			return fmt.Sprintf("f%d.txt", r.Intn(1000))
		}
	}
	ints := func() string {
		return gen.Pick(r, []string{"0", "1", "4", "1234", "65535", "2147483647", fmt.Sprint(r.Intn(100000))})
	}
	hexids := func() string {
		return gen.Pick(r, []string{"0", "1", "7fffffff", "deadbeef"[:1+r.Intn(7)], fmt.Sprintf("%x", r.Intn(1<<30))})
	}
	luids := func() string {
		return gen.Pick(r, []string{"3e7", "0x3e7", "10", "1234", "996", "012", "0b1", "0", "7fffffff", "deadbeef", "0xA", fmt.Sprintf("%x", r.Intn(1<<30))})
	}
	uploads := 0
	prepCases := []struct {
		name   string
		params func() []string
	}{
		{"sleep", func() []string { return []string{ints(), fmt.Sprint(r.Intn(101))} }},
		{"fs.cd", func() []string { return []string{texts()} }}, {"fs.remove", func() []string { return []string{texts()} }},
		{"fs.mkdir", func() []string { return []string{texts()} }}, {"fs.download", func() []string { return []string{texts()} }},
		{"fs.cat", func() []string { return []string{texts()} }}, {"fs.cp", func() []string { return []string{texts(), texts()} }},
		{"fs.mv", func() []string { return []string{texts(), texts()} }}, {"fs.pwd", func() []string { return nil }},
		{"fs.upload", func() []string {
			uploads++
			content := gen.Pick(r, []string{"", "", "x", "content of the file", string(r.Bytes(1 + r.Intn(300)))})
			if uploads == 1 {
				content = "" // the empty file, every run
			}
			return []string{gen.Pick(r, []string{"C:\\x.bin", "ü.txt", "a"}), content}
		}},
		{"proc.kill", func() []string { return []string{ints()} }}, {"proc.modules", func() []string { return []string{ints()} }},
		{"proc.grep", func() []string { return []string{texts()} }}, {"job.list", func() []string { return nil }},
		{"job.suspend", func() []string { return []string{ints()} }}, {"job.resume", func() []string { return []string{ints()} }},
		{"job.kill", func() []string { return []string{ints()} }}, {"token.impersonate", func() []string { return []string{ints()} }},
		{"token.remove", func() []string { return []string{ints()} }}, {"pivot.connect", func() []string { return []string{texts()} }},
		{"pivot.disconnect", func() []string { return []string{hexids()} }}, {"transfer.list", func() []string { return nil }},
		{"transfer.stop", func() []string { return []string{hexids()} }}, {"transfer.resume", func() []string { return []string{hexids()} }},
		{"transfer.remove", func() []string { return []string{hexids()} }}, {"exit.thread", func() []string { return nil }},
		{"exit.process", func() []string { return nil }}, {"proclist", func() []string { return []string{gen.Pick(r, []string{"true", "false"})} }},
		{"config.verbose", func() []string { return []string{gen.Pick(r, []string{"true", "false"})} }},
		{"config.coffee.veh", func() []string { return []string{gen.Pick(r, []string{"true", "false"})} }},
		{"config.coffee.threaded", func() []string { return []string{gen.Pick(r, []string{"true", "false"})} }},
		{"config.sleep-technique", func() []string { return []string{ints()} }}, {"config.memory.alloc", func() []string { return []string{ints()} }},
		{"config.memory.execute", func() []string { return []string{ints()} }}, {"config.inject.technique", func() []string { return []string{ints()} }},
		{"config.spawn64", func() []string { return []string{texts()} }}, {"config.spawn32", func() []string { return []string{texts()} }},
		{"config.killdate", func() []string { return []string{"0"} }},
		{"kerb.luid", func() []string { return nil }}, {"kerb.klist", func() []string { return []string{luids()} }},
		{"kerb.purge", func() []string { return []string{luids()} }},
		{"kerb.ptt", func() []string { return []string{gen.Pick(r, []string{"ticket-bytes", "\x76\x82\x01", "x"}), luids()} }},
		{"config.workinghours", func() []string {
			if r.Chance(1, 8) {
				return []string{"0"}
			}
			sh, eh := r.Intn(24), 0
			eh = sh + r.Intn(24-sh)
			sm, em := gen.Pick(r, []int{0, 1, 29, 30, 31, 32, 33, 59}), gen.Pick(r, []int{0, 5, 31, 32, 45, 58, 59})
			if eh == sh && em <= sm {
				eh++
			}
			return []string{fmt.Sprintf("%d:%02d-%d:%02d", sh, sm, eh, em)}
		}},
	}
	nprep := 3 * len(prepCases)
	if c.Tier == "thorough" {
		nprep = 40 * len(prepCases)
	}
	for i := 0; i < nprep; i++ {
		pc := prepCases[i%len(prepCases)]
		key, iv := r.Bytes(32), r.Bytes(16)
		if r.Chance(1, 10) {
			key = make([]byte, 32)
		}
		l := fmt.Sprintf("prep %s %08x %s %s %s", pc.name, r.U32(), hx(key), hx(iv), hx(keystream(key, iv, 16384)))
		for _, p := range pc.params() {
			if p == "" {
				l += " -"
			} else {
				l += " " + hx([]byte(p))
			}
		}
		c.Count("prep." + pc.name)
		w.line(c, l)
	}
	// a case = fresh world, 1-2 agents, a few jobs (<= ksPrefix body bytes), check-ins until drained
	for cases := 0; c.Lines < c.N; cases++ {
		w.line(c, "reset")
		if r.Chance(1, 5) { // a task for an agent behind 1-3 SMB pivots, every agent with a key of its own: each hop must be able to read its layer
			mkp := func(id, parent string) {
				key, iv := r.Bytes(32), r.Bytes(16)
				if r.Chance(1, 10) {
					key = make([]byte, 32)
				}
				l := fmt.Sprintf("p8.agent %s %s %s %s", id, hx(key), hx(iv), hx(keystream(key, iv, 3000)))
				if parent != "" {
					l += " " + parent
				}
				w.line(c, l)
			}
			usedIDs := map[string]bool{}
			fresh := func() string {
				for {
					id := fmt.Sprintf("%08x", r.U32()|1)
					if !usedIDs[id] {
						usedIDs[id] = true
						return id
					}
				}
			}
			root := fresh()
			mkp(root, "")
			prev, chain := root, []string{}
			for d := 0; d < 1+r.Intn(3); d++ {
				id := fresh()
				mkp(id, prev)
				chain = append(chain, id)
				prev = id
			}
			c.Count(fmt.Sprintf("pivot-chain.depth%d", len(chain)))
			for k := 0; k < 1+r.Intn(2); k++ {
				w.line(c, fmt.Sprintf("p8.ptask %s %d %d %s", gen.Pick(r, chain), gen.Pick(r, []uint32{11, 12, 15, 21, 100}), r.U32(), argsStr([]any{genArg(r)})))
			}
			w.line(c, "p8.rootcheckin "+root)
		}
		na := 1 + r.Intn(2)
		var ids []string
		for i := 0; i < na; i++ {
			id := fmt.Sprintf("%08x", r.U32()|1)
			for w.agents[id] != nil {
				id = fmt.Sprintf("%08x", r.U32()|1)
			}
			key := r.Bytes(32)
			if r.Chance(1, 10) {
				key = make([]byte, 32) // the all-zero "no encryption" key
				c.Count("key.zero")
			}
			iv := r.Bytes(16)
			ids = append(ids, id)
			w.line(c, fmt.Sprintf("agent %s %s %s %s", id, hx(key), hx(iv), hx(keystream(key, iv, ksPrefix))))
		}
		rounds := 1 + r.Intn(3)
		for rd := 0; rd < rounds; rd++ {
			nj := r.Intn(5)
			for j := 0; j < nj; j++ {
				id := ids[r.Intn(len(ids))]
				if r.Chance(1, 5) { // through the operator's path: the task id the operator was told is the request id
					c.Count("task.prepare")
					w.line(c, fmt.Sprintf("task %s %08x %d %d", id, r.U32(), r.Intn(3600), r.Intn(101)))
					continue
				}
				na := r.Intn(5)
				if r.Chance(1, 4) {
					na = 0 // empty body task (e.g. checkin, proc list)
					c.Count("job.emptybody")
				}
				var args []any
				for k := 0; k < na; k++ {
					args = append(args, genArg(r))
				}
				c.Count(fmt.Sprintf("job.args%d", na))
				cmd := []uint32{11, 12, 15, 21, 100, 2500, 2560, 0x1010}[r.Intn(8)]
				w.line(c, fmt.Sprintf("job %s %d %d %s", id, cmd, r.U32(), argsStr(args)))
			}
			for _, id := range ids {
				if r.Chance(3, 4) {
					c.Count("checkin")
					w.line(c, "checkin "+id)
				}
			}
		}
		for _, id := range ids {
			w.line(c, "checkin "+id)
			w.line(c, "checkin "+id)
		}
	}
}
