package main

// C02 — an operator's task reaches the agent exactly as issued.
// Job level: typed argument lists are queued on real agents (AddJobToQueue) and
// fetched through the real listener entry point (handlers.parseAgentRequest via
// the verif hook) with a Demon-built COMMAND_GET_JOB request.

import (
	"fmt"
	"strconv"
	"strings"

	"Havoc/pkg/agent"
	"Havoc/pkg/handlers"

	"verifharness/internal/mockts"
)

func init() { commands["C02"] = runC02 }

type c02World struct {
	ts     *mockts.TS
	keys   map[string][2][]byte
	agents map[string]*agent.Agent
}

func newC02World() *c02World {
	return &c02World{ts: mockts.New(), keys: map[string][2][]byte{}, agents: map[string]*agent.Agent{}}
}

const ksPrefix = 6000

func (w *c02World) line(c *Ctx, in string) {
	parts := strings.Fields(in)
	switch parts[0] {
	case "reset":
		*w = *newC02World()
		c.Emit("reset")
	case "agent": // agent <id> <key> <iv> <ks>
		id64, _ := strconv.ParseUint(parts[1], 16, 32)
		key, iv := unhx(parts[2]), unhx(parts[3])
		a := newAgent(uint32(id64), key, iv)
		w.ts.Agents = append(w.ts.Agents, a)
		w.agents[parts[1]] = a
		w.keys[parts[1]] = [2][]byte{key, iv}
		c.Emit("%s => ok", in)
	case "job": // job <id> <cmd> <req> <args>
		a := w.agents[parts[1]]
		cmd, _ := strconv.ParseUint(parts[2], 10, 32)
		req, _ := strconv.ParseUint(parts[3], 10, 32)
		out := guard(func() string {
			a.AddJobToQueue(agent.Job{Command: uint32(cmd), RequestID: uint32(req), Data: parseArgsStr(parts[4])})
			return "ok"
		})
		c.Emit("%s => %s", in, out)
	case "task": // task <id> <taskid hex8> <delay> <jitter>: the operator's path, TaskPrepare + AddJobToQueue as dispatch.go does
		a := w.agents[parts[1]]
		out := guard(func() string {
			msg := map[string]string{}
			job, err := a.TaskPrepare(agent.COMMAND_SLEEP, map[string]interface{}{"TaskID": parts[2], "CommandLine": "sleep", "Arguments": parts[3] + ";" + parts[4]}, &msg, "client", w.ts)
			if err != nil || job == nil {
				return "ERR"
			}
			a.AddJobToQueue(*job)
			return fmt.Sprintf("ok req=%d", job.RequestID)
		})
		c.Emit("%s => %s", in, out)
	case "checkin": // checkin <id>
		id64, _ := strconv.ParseUint(parts[1], 16, 32)
		k := w.keys[parts[1]]
		req := demonRequest(uint32(id64), k[0], k[1], []dpkg{{cmd: agent.COMMAND_GET_JOB, req: 0, nobody: true}})
		out := guard(func() string {
			resp, ok := handlers.VerifParseAgentRequest(w.ts, req, "127.0.0.1")
			if !ok {
				return "REJECTED"
			}
			return hx(resp.Bytes())
		})
		w.ts.Take()
		c.Emit("%s => %s", in, out)
	default:
		panic("C02: unknown op " + parts[0])
	}
}

func runC02(c *Ctx) {
	w := newC02World()
	if c.Replay != "" {
		for _, l := range replayLines(c.Replay) {
			w.line(c, l)
		}
		return
	}
	r := c.R
	// a case = fresh world, 1-2 agents, a few jobs (<= ksPrefix body bytes), check-ins until drained
	for cases := 0; c.Lines < c.N; cases++ {
		w.line(c, "reset")
		na := 1 + r.Intn(2)
		var ids []string
		for i := 0; i < na; i++ {
			id := fmt.Sprintf("%08x", r.U32()|1)
			for w.agents[id] != nil {
				id = fmt.Sprintf("%08x", r.U32()|1)
			}
			key := r.Bytes(32)
			if r.Chance(1, 10) {
				key = make([]byte, 32) // the all-zero "no encryption" key
				c.Count("key.zero")
			}
			iv := r.Bytes(16)
			ids = append(ids, id)
			w.line(c, fmt.Sprintf("agent %s %s %s %s", id, hx(key), hx(iv), hx(keystream(key, iv, ksPrefix))))
		}
		rounds := 1 + r.Intn(3)
		for rd := 0; rd < rounds; rd++ {
			nj := r.Intn(5)
			for j := 0; j < nj; j++ {
				id := ids[r.Intn(len(ids))]
				if r.Chance(1, 5) { // through the operator's path: the task id the operator was told is the request id
					c.Count("task.prepare")
					w.line(c, fmt.Sprintf("task %s %08x %d %d", id, r.U32(), r.Intn(3600), r.Intn(101)))
					continue
				}
				na := r.Intn(5)
				if r.Chance(1, 4) {
					na = 0 // empty body task (e.g. checkin, proc list)
					c.Count("job.emptybody")
				}
				var args []any
				for k := 0; k < na; k++ {
					args = append(args, genArg(r))
				}
				c.Count(fmt.Sprintf("job.args%d", na))
				cmd := []uint32{11, 12, 15, 21, 100, 2500, 2560, 0x1010}[r.Intn(8)]
				w.line(c, fmt.Sprintf("job %s %d %d %s", id, cmd, r.U32(), argsStr(args)))
			}
			for _, id := range ids {
				if r.Chance(3, 4) {
					c.Count("checkin")
					w.line(c, "checkin "+id)
				}
			}
		}
		for _, id := range ids {
			w.line(c, "checkin "+id)
			w.line(c, "checkin "+id)
		}
	}
}
