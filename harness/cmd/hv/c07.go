package main

// C07 — loot stays inside the agent's loot folder and equals what was sent.
// Downloads through the real TaskDispatch (COMMAND_FS download open/write/close and the
// BEACON_OUTPUT file callbacks) on several agents / file ids, and the five logr writers
// with crafted agent ids and names.  After every operation the tree below a sandbox
// directory two levels ABOVE the loot root is diffed: every created / modified path with
// its content is reported.

import (
	"bytes"
	"fmt"
	"image"
	"image/color"
	"os"
	"path/filepath"
	"sort"
	"strconv"
	"strings"

	"Havoc/pkg/agent"
	"Havoc/pkg/handlers"
	"Havoc/pkg/logr"

	"golang.org/x/image/bmp"

	"verifharness/internal/gen"
	"verifharness/internal/mockts"
)

func init() { commands["C07"] = runC07 }

type c07World struct {
	ts     *mockts.TS
	agents map[string]*agent.Agent
	dir    string // sandbox
	tree   map[string]string
}

func (w *c07World) scan() map[string]string {
	m := map[string]string{}
	filepath.Walk(w.dir, func(p string, info os.FileInfo, err error) error {
		if err != nil || p == w.dir {
			return nil
		}
		rel, _ := filepath.Rel(w.dir, p)
		if info.IsDir() {
			m[rel] = "D"
		} else {
			b, _ := os.ReadFile(p)
			if len(b) > 400 {
				m[rel] = fmt.Sprintf("F#%d", len(b))
			} else {
				m[rel] = "F" + hx(b)
			}
		}
		return nil
	})
	return m
}

// changes lists created / modified entries since the last scan: +<pathhex>=<D|Fcontent>
func (w *c07World) changes() string {
	now := w.scan()
	var out []string
	for p, v := range now {
		if old, ok := w.tree[p]; !ok || old != v {
			out = append(out, "+"+hx([]byte(p))+"="+v)
		}
	}
	for p := range w.tree {
		if _, ok := now[p]; !ok {
			out = append(out, "-"+hx([]byte(p)))
		}
	}
	w.tree = now
	sort.Strings(out)
	if len(out) == 0 {
		return "-"
	}
	return strings.Join(out, ",")
}

func tinyBMP() []byte {
	img := image.NewRGBA(image.Rect(0, 0, 2, 2))
	img.Set(0, 0, color.RGBA{255, 0, 0, 255})
	var b bytes.Buffer
	bmp.Encode(&b, img)
	return b.Bytes()
}

func (w *c07World) cb(id string, cmd uint32, bodyb []byte) string {
	a := w.agents[id]
	if a == nil {
		return "NOAGENT"
	}
	id64, _ := strconv.ParseUint(id, 16, 32)
	req := uint32(0x3000 + len(a.Tasks))
	a.AddRequest(agent.Job{Command: cmd, RequestID: req})
	pkt := demonRequest(uint32(id64), a.Encryption.AESKey, a.Encryption.AESIv, []dpkg{{cmd: cmd, req: req, body: bodyb}})
	return guard(func() string {
		_, ok := handlers.VerifParseAgentRequest(w.ts, pkt, "1.2.3.4")
		if !ok {
			return "REJECTED"
		}
		return "ok"
	})
}

func (w *c07World) line(c *Ctx, in string) {
	c.Pending(in)
	parts := strings.Fields(in)
	arg := func(i int) []byte { return unhx(parts[i]) }
	num := func(i int) uint32 {
		v, _ := strconv.ParseUint(parts[i], 10, 32)
		return uint32(v)
	}
	var res string
	switch parts[0] {
	case "reset":
		if w.dir != "" {
			os.RemoveAll(w.dir)
		}
		d, _ := os.MkdirTemp("", "hv-c07-")
		os.MkdirAll(d+"/x/y", 0o755)
		logr.LogrInstance = logr.NewLogr(d+"/x/y", d+"/x/y/loot")
		*w = c07World{ts: mockts.New(), agents: map[string]*agent.Agent{}, dir: d}
		w.tree = w.scan()
		c.Emit("reset")
		return
	case "agent":
		id64, _ := strconv.ParseUint(parts[1], 16, 32)
		a := newAgent(uint32(id64), bytes.Repeat([]byte{byte(id64), 7}, 16), bytes.Repeat([]byte{9}, 16))
		w.ts.Agents = append(w.ts.Agents, a)
		w.agents[parts[1]] = a
		c.Emit("%s", in)
		return
	case "dlopen": // dlopen <agent> <fileid> <namehex (utf-8)> <size>
		res = w.cb(parts[1], agent.COMMAND_FS, body(fI(2), fI(0), fI(num(2)), fQ(uint64(num(4))), fW(string(arg(3)))))
	case "dlwrite": // dlwrite <agent> <fileid> <chunkhex>
		res = w.cb(parts[1], agent.COMMAND_FS, body(fI(2), fI(1), fI(num(2)), fY(arg(3))))
	case "dlclose": // dlclose <agent> <fileid> <reason>
		res = w.cb(parts[1], agent.COMMAND_FS, body(fI(2), fI(2), fI(num(2)), fI(num(3))))
	case "bopen": // BEACON_OUTPUT CALLBACK_FILE: name is raw bytes
		res = w.cb(parts[1], agent.BEACON_OUTPUT, body(fI(agent.CALLBACK_FILE), fY(append(append(be32b(num(2)), be32b(num(4))...), arg(3)...))))
	case "bwrite":
		res = w.cb(parts[1], agent.BEACON_OUTPUT, body(fI(agent.CALLBACK_FILE_WRITE), fY(append(be32b(num(2)), arg(3)...))))
	case "bclose":
		res = w.cb(parts[1], agent.BEACON_OUTPUT, body(fI(agent.CALLBACK_FILE_CLOSE), fY(be32b(num(2)))))
	case "tctl": // tctl <agent> <sub: 0 list | 1 stop | 2 resume | 3 remove> <fileid> <x> <y>: the agent's transfer callbacks; none of them touches a file
		sub := num(2)
		if sub == 0 {
			res = w.cb(parts[1], agent.COMMAND_TRANSFER, body(fI(agent.DEMON_COMMAND_TRANSFER_LIST), fI(num(3)), fI(num(4)), fI(num(5))))
		} else {
			res = w.cb(parts[1], agent.COMMAND_TRANSFER, body(fI(sub), fI(num(4)), fI(num(3))))
		}
	case "svcdl": // third-party agent download: logr.DemonAddDownloadedFile(<idhex>, <namehex>, <content>)
		res = guard(func() string {
			logr.LogrInstance.DemonAddDownloadedFile(string(arg(1)), strings.Replace(string(arg(2)), "\x00", "", -1), arg(3))
			return "ok"
		})
	case "shot": // logr.DemonSaveScreenshot(<idhex>, <namehex>)
		res = guard(func() string {
			if err := logr.LogrInstance.DemonSaveScreenshot(string(arg(1)), string(arg(2)), tinyBMP()); err != nil {
				return "err"
			}
			return "ok"
		})
	case "input": // logr.AddAgentInput
		res = guard(func() string {
			logr.LogrInstance.AddAgentInput("Demon", string(arg(1)), "op", "1234", "whoami", "t")
			return "ok"
		})
	case "raw":
		res = guard(func() string { logr.LogrInstance.AddAgentRaw(string(arg(1)), "raw text\n"); return "ok" })
	case "output":
		res = guard(func() string {
			logr.LogrInstance.DemonAddOutput(string(arg(1)), map[string]string{"Type": "Good", "Message": "m", "Output": "o"}, "t")
			return "ok"
		})
	default:
		panic("C07: unknown op " + parts[0])
	}
	c.Emit("%s => %s %s", in, res, w.changes())
}

// composeName builds a file name from parts: every mix of separators, dot components, prefixes of the loot
// directories' own names, embedded and trailing NULs, drive / UNC prefixes, long and empty components.
func composeName(r *gen.Rng) string {
	comps := []string{"..", "..", ".", "Download", "Download_x", "Downloadx", "Screenshots", "a", "b c", "ü", "", "...", "..\x00", "\x00..", "x\x00", "..\x00x",
		"Console_00000a01.log", "00000a02", strings.Repeat("L", 200), "notes.txt", "..  ", " .."}
	seps := []string{"\\", "/", "//", "\\/", "\\\\"}
	n := 1 + r.Intn(5)
	var b strings.Builder
	b.WriteString(gen.Pick(r, []string{"", "", "", "C:\\", "/", "\\\\srv\\", "c:", "\\"}))
	for i := 0; i < n; i++ {
		if i > 0 {
			b.WriteString(gen.Pick(r, seps))
		}
		b.WriteString(gen.Pick(r, comps))
	}
	b.WriteString(gen.Pick(r, []string{"", "", "", "\x00", "\\", "/", ".txt", "\x00.txt"}))
	return b.String()
}

func runC07(c *Ctx) {
	w := &c07World{}
	defer func() {
		if w.dir != "" {
			os.RemoveAll(w.dir)
		}
	}()
	if c.Replay != "" {
		for _, l := range replayLines(c.Replay) {
			w.line(c, l)
		}
		return
	}
	r := c.R
	names := []string{"C:\\Users\\bob\\notes.txt", "notes.txt", "..\\..\\evil.txt", "../../../etc/passwd", "a/b/c.bin", "..\\Download_evil\\x.txt",
		"dir\\..\\..\\up.txt", "", "C:\\", "\\\\srv\\share\\f", "x\x00y.txt", "..\\Download\\..\\..\\Screenshots\\s.png", "....//....//w", "C:/Users/bob/notes.txt",
		"ünï.txt", "a\\..\\b.txt", "..", ".", "Download", "..\\Downloadx", "/abs/olute", "a//b", "sub\\", "..\\..\\00000a02\\Download\\steal.txt", "n\x00",
		// siblings of the loot directories whose names begin like them, reached with either separator
		"../Downloads", "../Download.bak", "../Download_notes.txt", "../Download_evil/x.txt", "../Downloadx/../y", "../Screenshotsx", "../Screenshots_evil/s.png", "../Download", "../Download/in.txt"}
	ids := []string{"00000a01", "00000a02", "0000000b"}
	// ids of third-party agents: never the id of a registered Demon (the teamserver refuses a second agent with an id in use), so that a
	// service download and a Demon transfer cannot be two writers of one local file
	evilIDs := []string{"00000c01", "../../escaped", "../listener", "00000a01/../0000beef", ".", "..", "", "a/b", "x\\y", "00000c02", "....", "Download"}
	// every name of the list through every writer, once, before the random histories
	w.line(c, "reset")
	for _, id := range ids {
		w.line(c, "agent "+id)
	}
	for i, name := range names {
		fid := uint32(100 + i)
		h := hx([]byte(name))
		w.line(c, fmt.Sprintf("dlopen %s %d %s 8", ids[i%2], fid, h))
		w.line(c, fmt.Sprintf("dlwrite %s %d %s", ids[i%2], fid, hx([]byte{byte(i), 1, 2})))
		w.line(c, fmt.Sprintf("dlclose %s %d 0", ids[i%2], fid))
		w.line(c, fmt.Sprintf("bopen %s %d %s 8", ids[2], fid, h))
		w.line(c, fmt.Sprintf("bclose %s %d", ids[2], fid))
		w.line(c, fmt.Sprintf("svcdl %s %s %s", hx([]byte("00000c01")), h, hx([]byte{byte(i)})))
		w.line(c, fmt.Sprintf("shot %s %s", hx([]byte("00000c02")), h))
		w.line(c, fmt.Sprintf("svcdl %s %s %s", hx([]byte(evilIDs[i%len(evilIDs)])), h, hx([]byte{byte(i)})))
		c.Count("name-battery")
	}
	for c.Lines < c.N {
		w.line(c, "reset")
		for _, id := range ids {
			w.line(c, "agent "+id)
		}
		var open []struct {
			id  string
			fid uint32
		}
		steps := 5 + r.Intn(14)
		for s := 0; s < steps; s++ {
			id := gen.Pick(r, ids)
			name := gen.Pick(r, names)
			if r.Chance(1, 8) {
				name = genName(r)
			} else if r.Chance(1, 2) {
				name = composeName(r)
			}
			if r.Chance(1, 12) { // the same remote file fetched twice, one transfer after the other
				nm := hx([]byte(gen.Pick(r, []string{"notes.txt", "C:\\Users\\bob\\notes.txt", "a/b/c.bin"})))
				c.Count("redownload")
				for round := 0; round < 2; round++ {
					fid := uint32(10 + round)
					w.line(c, fmt.Sprintf("dlopen %s %d %s 64", id, fid, nm))
					for k := 0; k < 1+r.Intn(3); k++ {
						w.line(c, fmt.Sprintf("dlwrite %s %d %s", id, fid, hx(r.Bytes(1+r.Intn(9)))))
					}
					w.line(c, fmt.Sprintf("dlclose %s %d 0", id, fid))
				}
				continue
			}
			if r.Chance(1, 14) { // a transfer that is paused and resumed: chunks before and after belong to the one file
				fid := uint32(20 + r.Intn(3))
				c.Count("paused-transfer")
				w.line(c, fmt.Sprintf("dlopen %s %d %s 64", id, fid, hx([]byte(gen.Pick(r, []string{"paused.bin", "C:\\tmp\\p.dat", "dir/p2.bin"})))))
				w.line(c, fmt.Sprintf("dlwrite %s %d %s", id, fid, hx(r.Bytes(1+r.Intn(9)))))
				w.line(c, fmt.Sprintf("tctl %s 1 %d 1 0", id, fid)) // stop, found
				if r.Bool() {
					w.line(c, fmt.Sprintf("tctl %s 0 %d 10 2", id, fid)) // list: stopped
				}
				if r.Chance(2, 3) {
					w.line(c, fmt.Sprintf("tctl %s 2 %d 1 0", id, fid)) // resume, found
				}
				for k := 0; k < 1+r.Intn(2); k++ {
					w.line(c, fmt.Sprintf("dlwrite %s %d %s", id, fid, hx(r.Bytes(1+r.Intn(9)))))
				}
				w.line(c, fmt.Sprintf("dlclose %s %d 0", id, fid))
				continue
			}
			switch k := r.Intn(20); {
			case k < 5:
				fid := uint32(1 + r.Intn(5))
				op := "dlopen"
				if r.Chance(1, 3) {
					op = "bopen"
				}
				c.Count(op)
				w.line(c, fmt.Sprintf("%s %s %d %s %d", op, id, fid, hx([]byte(name)), r.Intn(9000)))
				open = append(open, struct {
					id  string
					fid uint32
				}{id, fid})
			case k < 11:
				fid := uint32(1 + r.Intn(5))
				if len(open) > 0 && r.Chance(4, 5) {
					o := open[r.Intn(len(open))]
					id, fid = o.id, o.fid
				}
				op := "dlwrite"
				if r.Chance(1, 3) {
					op = "bwrite"
				}
				c.Count(op)
				w.line(c, fmt.Sprintf("%s %s %d %s", op, id, fid, hx(r.Bytes(1+r.Intn(12)))))
			case k < 14:
				fid := uint32(1 + r.Intn(5))
				if len(open) > 0 && r.Chance(4, 5) {
					o := open[r.Intn(len(open))]
					id, fid = o.id, o.fid
				}
				if r.Chance(1, 3) {
					c.Count("bclose")
					w.line(c, fmt.Sprintf("bclose %s %d", id, fid))
				} else {
					c.Count("dlclose")
					w.line(c, fmt.Sprintf("dlclose %s %d %d", id, fid, r.Intn(2)))
				}
			case k < 15 && len(open) > 0 && r.Chance(2, 3): // what `transfer list / stop / resume / remove` report while downloads are open
				o := open[r.Intn(len(open))]
				c.Count("tctl")
				w.line(c, fmt.Sprintf("tctl %s %d %d %d %d", o.id, r.Intn(4), o.fid, gen.Pick(r, []int{0, 1, 1, 100, 5000}), r.Intn(5)))
			case k < 16:
				c.Count("svcdl")
				w.line(c, fmt.Sprintf("svcdl %s %s %s", hx([]byte(gen.Pick(r, evilIDs))), hx([]byte(name)), hx(r.Bytes(r.Intn(10)))))
			case k < 17:
				c.Count("shot")
				w.line(c, fmt.Sprintf("shot %s %s", hx([]byte(gen.Pick(r, evilIDs))), hx([]byte(gen.Pick(r, []string{"Desktop_01.png", "../x.png", "..\\y.png", "a/b.png", "../../Screenshots_x/z.png", name})))))
			case k < 18:
				c.Count("input")
				w.line(c, "input "+hx([]byte(gen.Pick(r, evilIDs))))
			case k < 19:
				c.Count("raw")
				w.line(c, "raw "+hx([]byte(gen.Pick(r, evilIDs))))
			default:
				c.Count("output")
				w.line(c, "output "+hx([]byte(gen.Pick(r, evilIDs))))
			}
		}
		// every transfer still open is closed: the content clause is decided at the close
		seen := map[string]bool{}
		for _, o := range open {
			k := fmt.Sprintf("%s/%d", o.id, o.fid)
			if seen[k] {
				continue
			}
			seen[k] = true
			for i := 0; i < 2; i++ { // an id opened twice has two transfers
				w.line(c, fmt.Sprintf("dlclose %s %d 0", o.id, o.fid))
			}
		}
	}
}
