package main

// C15 — the SOCKS5 and port-forward relays speak the protocol and move bytes intact.
// A real proxy started by TaskPrepare("socks add") on a loopback port; real TCP clients
// that send the handshake in chosen chunkings; the agent side is played by callbacks through
// TaskDispatch; tasks are taken from the agent's queue.

import (
	"bytes"
	"fmt"
	"net"
	"strconv"
	"strings"
	"time"

	"Havoc/pkg/agent"

	"verifharness/internal/gen"
	"verifharness/internal/mockts"
)

func init() { commands["C15"] = runC15 }

type c15World struct {
	ts   *mockts.TS
	a    *agent.Agent
	b    *agent.Agent // target of operator proxy commands
	port int
	conn net.Conn
	sock int32 // socket id of the current client (from the CONNECT job)
	seen int   // jobs of a.JobQueue already consumed
	pf   *c15pf
}

func (w *c15World) dispatch(cmd uint32, bodyb []byte) {
	p := newParser(bodyb)
	req := uint32(0x5000 + len(w.a.Tasks))
	w.a.AddRequest(agent.Job{Command: cmd, RequestID: req})
	w.a.TaskDispatch(req, cmd, p, w.ts)
}

// recvFor collects what the client receives during d.
func (w *c15World) recvFor(d time.Duration) []byte {
	var out []byte
	buf := make([]byte, 70000)
	deadline := time.Now().Add(d)
	for {
		w.conn.SetReadDeadline(deadline)
		n, err := w.conn.Read(buf)
		out = append(out, buf[:n]...)
		if err != nil {
			return out
		}
	}
}

// newJobs returns the jobs queued since the last call.
func (w *c15World) newJobs() []agent.Job {
	q := w.a.JobQueue
	if w.seen > len(q) {
		w.seen = 0
	}
	js := q[w.seen:]
	w.seen = len(q)
	return js
}

func jobStr(j agent.Job) string {
	if j.Command != agent.COMMAND_SOCKET || len(j.Data) == 0 {
		return fmt.Sprintf("cmd%d", j.Command)
	}
	sub, _ := j.Data[0].(int)
	switch sub {
	case agent.SOCKET_COMMAND_CONNECT:
		return fmt.Sprintf("connect:%d:%s:%d", j.Data[2].(byte), hx(j.Data[3].([]byte)), j.Data[4].(uint16))
	case agent.SOCKET_COMMAND_WRITE:
		return fmt.Sprintf("write:%s", hx(j.Data[2].([]byte)))
	case agent.SOCKET_COMMAND_CLOSE:
		return "close"
	}
	return fmt.Sprintf("sub%d", sub)
}

func sockOf(j agent.Job) (int32, bool) {
	if j.Command == agent.COMMAND_SOCKET && len(j.Data) > 1 {
		v, ok := j.Data[1].(int32)
		return v, ok
	}
	return 0, false
}

func (w *c15World) line(c *Ctx, in string) {
	if strings.HasPrefix(in, "pf") { // the port-forward half has a world of its own (c15pf.go)
		if w.pf == nil {
			w.pf = &c15pf{}
		}
		w.pf.line(c, in)
		return
	}
	c.Pending(in)
	parts := strings.Fields(in)
	switch parts[0] {
	case "reset":
		if w.conn != nil {
			w.conn.Close()
			w.conn = nil
		}
		if w.a == nil { // one proxy per run: bound once
			w.ts = mockts.New()
			w.a = newAgent(0x15aa, bytes.Repeat([]byte{3}, 32), bytes.Repeat([]byte{4}, 16))
			w.ts.Agents = append(w.ts.Agents, w.a)
			w.port = freePort()
			msg := map[string]string{}
			_, err := w.a.TaskPrepare(agent.COMMAND_SOCKET, map[string]interface{}{"Command": "socks add", "Params": strconv.Itoa(w.port), "TaskID": "00000001"}, &msg, "c", w.ts)
			if err != nil {
				panic(err)
			}
			for i := 0; i < 200; i++ {
				if cn, err := net.DialTimeout("tcp", fmt.Sprintf("127.0.0.1:%d", w.port), ms(50)); err == nil {
					cn.Close()
					break
				}
				time.Sleep(ms(5))
			}
			time.Sleep(ms(20))
		}
		w.a.JobQueue = nil
		w.seen = 0
		c.Emit("reset")
	case "hello": // hello <chunk,chunk,…>: connect and send the chunks (2 ms apart); report what came back and the queued job
		cn, err := net.DialTimeout("tcp", fmt.Sprintf("127.0.0.1:%d", w.port), time.Second)
		if err != nil {
			c.Emit("%s => DIALERR", in)
			return
		}
		w.conn = cn
		if tc, ok := cn.(*net.TCPConn); ok {
			tc.SetNoDelay(true)
		}
		for _, ch := range strings.Split(parts[1], ",") {
			if b := unhx(ch); len(b) > 0 {
				cn.Write(b)
				time.Sleep(ms(2))
			}
		}
		got := w.recvFor(ms(40))
		job := "-"
		w.sock = 0
		for _, j := range w.newJobs() {
			job = jobStr(j)
			if s, ok := sockOf(j); ok {
				w.sock = s
			}
		}
		c.Emit("%s => recv=%s job=%s clients=%d", in, hx(got), job, len(w.a.SocksCli))
	case "agentconnect": // agentconnect <success 0|1> <errorcode>: the agent's answer to the CONNECT task
		ok, _ := strconv.Atoi(parts[1])
		ec, _ := strconv.Atoi(parts[2])
		w.dispatch(agent.COMMAND_SOCKET, body(fI(agent.SOCKET_COMMAND_CONNECT), fI(uint32(ok)), fI(uint32(w.sock)), fI(uint32(ec))))
		got := w.recvFor(ms(30))
		c.Emit("%s => recv=%s clients=%d", in, hx(got), len(w.a.SocksCli))
	case "clientwrite": // clientwrite <chunk,chunk,…>
		for _, ch := range strings.Split(parts[1], ",") {
			w.conn.Write(unhx(ch))
			time.Sleep(ms(2))
		}
		time.Sleep(ms(25))
		var all []byte
		sameSock, n := true, 0
		for _, j := range w.newJobs() {
			if strings.HasPrefix(jobStr(j), "write:") {
				all = append(all, j.Data[2].([]byte)...)
				n++
				if s, _ := sockOf(j); s != w.sock {
					sameSock = false
				}
			}
		}
		c.Emit("%s => tasks=%d data=%s samesock=%v", in, n, hx(all), sameSock)
	case "agentread": // agentread <data>: SOCKET_COMMAND_READ from the agent for this socket
		w.dispatch(agent.COMMAND_SOCKET, body(fI(agent.SOCKET_COMMAND_READ), fI(uint32(w.sock)), fI(agent.SOCKET_TYPE_REVERSE_PROXY), fI(1), fY(unhx(parts[1]))))
		c.Emit("%s => recv=%s", in, hx(w.recvFor(ms(30))))
	case "slowread": // slowread <MiB> <pause ms>: the agent returns a large amount at once and then some more; the client is not reading
		// for a while and then reads everything: all of it, in order (a relay has no say in how fast a client reads)
		mib, _ := strconv.Atoi(parts[1])
		pause, _ := strconv.Atoi(parts[2])
		big := make([]byte, mib<<20)
		for i := range big {
			big[i] = byte(i*7 + i>>11)
		}
		tail := []byte("<<tail-after-the-big-chunk>>")
		done := make(chan struct{})
		go func() {
			defer close(done)
			defer func() { recover() }()
			w.dispatch(agent.COMMAND_SOCKET, body(fI(agent.SOCKET_COMMAND_READ), fI(uint32(w.sock)), fI(agent.SOCKET_TYPE_REVERSE_PROXY), fI(1), fY(big)))
			w.dispatch(agent.COMMAND_SOCKET, body(fI(agent.SOCKET_COMMAND_READ), fI(uint32(w.sock)), fI(agent.SOCKET_TYPE_REVERSE_PROXY), fI(1), fY(tail)))
		}()
		time.Sleep(time.Duration(pause) * time.Millisecond)
		want := append(append([]byte{}, big...), tail...)
		got := make([]byte, 0, len(want))
		buf := make([]byte, 1<<20)
		for len(got) < len(want) {
			w.conn.SetReadDeadline(time.Now().Add(3 * time.Second))
			n, err := w.conn.Read(buf)
			got = append(got, buf[:n]...)
			if err != nil {
				break
			}
		}
		select {
		case <-done:
		case <-time.After(5 * time.Second):
		}
		firstDiff := -1
		for i := 0; i < len(got) && i < len(want); i++ {
			if got[i] != want[i] {
				firstDiff = i
				break
			}
		}
		c.Emit("%s => sent=%d got=%d firstdiff=%d", in, len(want), len(got), firstDiff)
	case "agentclose":
		w.dispatch(agent.COMMAND_SOCKET, body(fI(agent.SOCKET_COMMAND_CLOSE), fI(uint32(w.sock)), fI(agent.SOCKET_TYPE_REVERSE_PROXY)))
		w.conn.SetReadDeadline(time.Now().Add(ms(40)))
		_, err := w.conn.Read(make([]byte, 1))
		closed := err != nil && !strings.Contains(err.Error(), "timeout")
		c.Emit("%s => closed=%v clients=%d", in, closed, len(w.a.SocksCli))
	case "clientclose": // clientclose [rst]: the client goes away - an orderly close, or a reset (killed client, middlebox)
		if len(parts) > 1 && parts[1] == "rst" {
			if tc, ok := w.conn.(*net.TCPConn); ok {
				tc.SetLinger(0)
			}
		}
		w.conn.Close()
		time.Sleep(ms(30))
		cl := 0
		for _, j := range w.newJobs() {
			if jobStr(j) == "close" {
				cl++
			}
		}
		c.Emit("%s => closetasks=%d clients=%d", in, cl, len(w.a.SocksCli))
	case "opsocks": // opsocks <add|list|kill|clear> <port|->: operator proxy commands on a second agent
		if w.b == nil {
			w.b = newAgent(0x15bb, bytes.Repeat([]byte{5}, 32), bytes.Repeat([]byte{6}, 16))
			w.ts.Agents = append(w.ts.Agents, w.b)
		}
		param := parts[2]
		if param == "-" {
			param = ""
		}
		res := guardT(4*time.Second, func() string {
			msg := map[string]string{}
			_, err := w.b.TaskPrepare(agent.COMMAND_SOCKET, map[string]interface{}{"Command": "socks " + parts[1], "Params": param, "TaskID": "00000002"}, &msg, "c", w.ts)
			if err != nil {
				return "err"
			}
			return "ok"
		})
		time.Sleep(ms(5))
		lock := "free"
		if w.b.SocksSvrMtx.TryLock() {
			w.b.SocksSvrMtx.Unlock()
		} else {
			lock = "HELD"
		}
		var ports []string
		if lock == "free" {
			for _, sv := range w.b.SocksSvr {
				ports = append(ports, sv.Addr)
			}
		}
		ps := "-"
		if len(ports) > 0 {
			ps = strings.Join(ports, ",")
		}
		c.Emit("%s => %s servers=%s mutex=%s", in, res, ps, lock)
		if lock == "HELD" || res == "TIMEOUT" {
			w.b = nil // this agent is wedged: the next command starts on a fresh one
		}
	default:
		panic("C15: unknown op " + parts[0])
	}
}

func chunked(r *gen.Rng, b []byte) string {
	if len(b) == 0 {
		return "-"
	}
	var cs []string
	for len(b) > 0 {
		n := 1 + r.Intn(len(b))
		if r.Chance(1, 3) {
			n = len(b)
		}
		cs = append(cs, hx(b[:n]))
		b = b[n:]
	}
	return strings.Join(cs, ",")
}

func runC15(c *Ctx) {
	w := &c15World{}
	if c.Replay != "" {
		for _, l := range replayLines(c.Replay) {
			w.line(c, l)
		}
		return
	}
	r := c.R
	slowLeft := 1
	if c.Tier == "thorough" {
		slowLeft = 3
	}
	for c.Lines < c.N {
		if r.Chance(1, 5) { // reverse port forwards: targets that are up, down, or come up later; data both ways; removal
			w.line(c, "pfreset")
			sids := []int{1 + r.Intn(50), 100 + r.Intn(50), 300 + r.Intn(50)}[:1+r.Intn(3)]
			up := map[int]bool{}
			opened := map[int]bool{}
			for k := 0; k < 4+r.Intn(8); k++ {
				sid := gen.Pick(r, sids)
				switch j := r.Intn(10); {
				case j < 2 || !opened[sid]:
					u := r.Chance(2, 3)
					if opened[sid] {
						u = up[sid]
					}
					up[sid] = up[sid] || u
					opened[sid] = true
					c.Count("pf.open")
					w.line(c, fmt.Sprintf("pfopen %d %d", sid, map[bool]int{false: 0, true: 1}[up[sid]]))
				case j < 6:
					c.Count("pf.read")
					w.line(c, fmt.Sprintf("pfread %d %s", sid, hx(r.Bytes(1+r.Intn(40)))))
				case j < 7:
					if !up[sid] {
						up[sid] = true
						c.Count("pf.up")
						w.line(c, fmt.Sprintf("pfup %d", sid))
					}
				case j < 8:
					c.Count("pf.reply")
					w.line(c, fmt.Sprintf("pfreply %d %s", sid, hx(r.Bytes(1+r.Intn(30)))))
				case j < 9:
					c.Count("pf.remove")
					w.line(c, fmt.Sprintf("pfremove %d %d", sid, gen.Pick(r, []int{agent.SOCKET_TYPE_REVERSE_PORTFWD, agent.SOCKET_TYPE_CLIENT, agent.SOCKET_TYPE_CLIENT})))
					opened[sid] = false
				default:
					c.Count("pf.read-unknown")
					w.line(c, fmt.Sprintf("pfread %d %s", 9000+r.Intn(9), hx(r.Bytes(3))))
				}
			}
			for _, sid := range sids {
				w.line(c, fmt.Sprintf("pfremove %d", sid))
			}
			continue
		}
		w.line(c, "reset")
		if r.Chance(1, 6) { // operator commands: add / list / kill / clear over 0-3 proxies
			var mine []int
			for k := 0; k < 2+r.Intn(6); k++ {
				switch r.Intn(6) {
				case 0, 1, 2:
					p := freePort()
					mine = append(mine, p)
					c.Count("opsocks.add")
					w.line(c, fmt.Sprintf("opsocks add %d", p))
				case 3:
					c.Count("opsocks.list")
					w.line(c, "opsocks list -")
				case 4:
					p := 1
					if len(mine) > 0 {
						p = mine[r.Intn(len(mine))]
					}
					c.Count("opsocks.kill")
					w.line(c, fmt.Sprintf("opsocks kill %d", p))
				default:
					c.Count("opsocks.clear")
					w.line(c, "opsocks clear -")
					mine = nil
				}
			}
			w.line(c, "opsocks clear -")
			continue
		}
		// greeting
		var methods []byte
		for i := 0; i < r.Intn(4); i++ {
			methods = append(methods, gen.Pick(r, []byte{0, 0, 0, 1, 2, 0x80, 0xfe}))
		}
		if r.Chance(1, 2) {
			methods = append(methods, 0)
		}
		ver := byte(5)
		if r.Chance(1, 15) {
			ver = gen.Pick(r, []byte{4, 0, 6})
		}
		stream := append([]byte{ver, byte(len(methods))}, methods...)
		// request
		atyp := gen.Pick(r, []byte{1, 1, 3, 3, 4, 2, 0})
		var addr []byte
		switch atyp {
		case 1:
			addr = r.Bytes(4)
		case 4:
			addr = r.Bytes(16)
		case 3:
			n := gen.Pick(r, []int{0, 1, 5, 11, 63, 255})
			d := r.Bytes(n)
			for i := range d {
				d[i] = "abcdefghij.-0123"[int(d[i])%16]
			}
			addr = append([]byte{byte(n)}, d...)
		default:
			addr = r.Bytes(4)
		}
		cmd := gen.Pick(r, []byte{1, 1, 1, 1, 2, 3, 0})
		rsv := byte(0)
		if r.Chance(1, 15) {
			rsv = 1
		}
		req := append([]byte{5, cmd, rsv, atyp}, addr...)
		port := uint16(r.U32())
		req = append(req, byte(port>>8), byte(port))
		// the client is RFC-compliant: it sends the request after the method reply unless it pipelines (1 in 4)
		full := append(append([]byte{}, stream...), req...)
		if r.Chance(1, 5) {
			full = full[:r.Intn(len(full)+1)] // truncated at any byte
			c.Count("hello.truncated")
		}
		c.Count(fmt.Sprintf("hello.atyp%d", atyp))
		w.line(c, "hello "+chunked(r, full))
		// if a CONNECT task was queued, play the rest of the session
		if w.sock != 0 && len(w.a.SocksCli) > 0 {
			if r.Chance(1, 4) {
				c.Count("connect.fail")
				w.line(c, fmt.Sprintf("agentconnect 0 %d", gen.Pick(r, []int{10060, 10061, 10065, 10051, 5})))
				continue
			}
			w.line(c, "agentconnect 1 0")
			for k := 0; k < 1+r.Intn(3); k++ {
				if r.Bool() {
					c.Count("clientwrite")
					w.line(c, "clientwrite "+chunked(r, r.Bytes(1+r.Intn(60))))
				} else {
					c.Count("agentread")
					w.line(c, "agentread "+hx(r.Bytes(1+r.Intn(60))))
				}
			}
			if slowLeft > 0 && r.Chance(1, 6) { // a client that does not read for longer than any write timeout one might pick
				slowLeft--
				c.Count("slowread")
				w.line(c, "slowread 24 6500")
			}
			if r.Bool() {
				w.line(c, "agentclose")
			} else {
				if r.Chance(1, 3) {
					w.line(c, "clientclose rst")
					c.Count("clientclose.rst")
				} else {
					w.line(c, "clientclose")
				}
			}
		}
	}
}
