package main

// A real server.Teamserver (temp SQLite DB, temp loot tree, no operators connected)
// for the properties that are about the session table, the pivot forest and the DB.

import (
	"database/sql"

	sqlite3 "github.com/mattn/go-sqlite3"
	"encoding/binary"
	"os"
	"reflect"
	"unsafe"

	server "Havoc/cmd/server"
	"Havoc/pkg/db"
	"Havoc/pkg/profile"
)

type realWorld struct {
	ts  *server.Teamserver
	dir string
	dbp string
}

func newRealWorld(tag string) *realWorld {
	dir := newLootRoot(tag)
	dbp := dir + "/teamserver.db"
	d, err := db.DatabaseNew(dbp)
	if err != nil {
		panic(err)
	}
	ts := &server.Teamserver{DB: d}
	ts.Profile = &profile.Profile{Config: profile.HavocConfig{}}
	return &realWorld{ts: ts, dir: dir, dbp: dbp}
}

func (w *realWorld) close() {
	if w != nil && w.dir != "" {
		if w.ts != nil {
			closeDB(w.ts.DB)
		}
		os.RemoveAll(w.dir)
	}
}

// closeDB releases the file handles of a database the harness opened.  pkg/db has no Close (the teamserver keeps
// its one database for its lifetime); a long run opens thousands.  The *sql.DB sits in an unexported field.
func closeDB(d *db.DB) {
	if d == nil {
		return
	}
	f := reflect.ValueOf(d).Elem().FieldByName("db")
	if !f.IsValid() || f.IsNil() {
		return
	}
	if h, ok := reflect.NewAt(f.Type(), unsafe.Pointer(f.UnsafeAddr())).Elem().Interface().(*sql.DB); ok && h != nil {
		h.Close()
	}
}

// verifCommitHook is called by SQLite when a write statement of a hooked database is about to commit: the database file
// still holds the state before that statement, i.e. what a process killed at this very point leaves behind.
var verifCommitHook func()

func init() {
	sql.Register("sqlite3_verif", &sqlite3.SQLiteDriver{ConnectHook: func(c *sqlite3.SQLiteConn) error {
		c.RegisterCommitHook(func() int {
			if verifCommitHook != nil {
				verifCommitHook()
			}
			return 0
		})
		return nil
	}})
}

// hookDB swaps the connection pool of an opened database for one whose connections report every commit
// (pkg/db opens with the plain driver name; the *sql.DB sits in an unexported field).
func hookDB(d *db.DB, path string) {
	f := reflect.ValueOf(d).Elem().FieldByName("db")
	if !f.IsValid() {
		panic("pkg/db.DB has no field db")
	}
	h, err := sql.Open("sqlite3_verif", path)
	if err != nil {
		panic(err)
	}
	h.SetMaxOpenConns(1)
	slot := reflect.NewAt(f.Type(), unsafe.Pointer(f.UnsafeAddr())).Elem()
	if old, ok := slot.Interface().(*sql.DB); ok && old != nil {
		old.Close()
	}
	slot.Set(reflect.ValueOf(h))
}

// regInfo is the metadata a Demon sends at registration (DemonMetaData in Demon.c).
type regInfo struct {
	Hostname, Username, Domain, IP string
	ProcName                       string // wide
	PID, TID, PPID, Arch, Elevated uint32
	Base                           uint64
	OS                             [5]uint32
	OSArch, Sleep, Jitter          uint32
	KillDate                       uint64
	WorkingHours                   uint32
}

func (m regInfo) fields(innerID uint32) []fld {
	return []fld{fI(innerID), fS(m.Hostname), fS(m.Username), fS(m.Domain), fS(m.IP), fW(m.ProcName),
		fI(m.PID), fI(m.TID), fI(m.PPID), fI(m.Arch), fI(m.Elevated), fQ(m.Base),
		fI(m.OS[0]), fI(m.OS[1]), fI(m.OS[2]), fI(m.OS[3]), fI(m.OS[4]), fI(m.OSArch), fI(m.Sleep), fI(m.Jitter),
		fQ(m.KillDate), fI(m.WorkingHours)}
}

// initPackage builds the DEMON_INIT request: header, command, request id, key, iv, ENC{metadata}.
func initPackage(hdrID, innerID uint32, key, iv []byte, m regInfo) []byte {
	meta := encFields(m.fields(innerID))
	allZero := true
	for _, b := range key {
		if b != 0 {
			allZero = false
		}
	}
	if !allZero {
		meta = xorKS(meta, key, iv)
	}
	bodyb := binary.BigEndian.AppendUint32(nil, demonMagic)
	bodyb = binary.BigEndian.AppendUint32(bodyb, hdrID)
	bodyb = binary.BigEndian.AppendUint32(bodyb, 99) // DEMON_INIT
	bodyb = binary.BigEndian.AppendUint32(bodyb, 0)
	bodyb = append(bodyb, key...)
	bodyb = append(bodyb, iv...)
	bodyb = append(bodyb, meta...)
	out := binary.BigEndian.AppendUint32(nil, uint32(len(bodyb)))
	return append(out, bodyb...)
}
