package main

// C13 — a generated payload is configured for exactly the chosen listener and options.
// `patch`: the real Builder (SetConfig with the operator's JSON, SetListener with a real listener
// configuration) produces the configuration block with PatchConfig — twice on the same listener
// object, as two builds in a row do.  `build`: a whole Build() of a service executable with stub
// compilers that record their argv, in a directory where any other process started by the build
// would leave a marker.

import (
	"net"
	"encoding/hex"
	"encoding/json"
	"fmt"
	"os"
	"path/filepath"
	"strconv"
	"strings"

	"net/http"
	"net/http/httptest"
	"time"

	server "Havoc/cmd/server"
	"Havoc/pkg/common/builder"
	"Havoc/pkg/packager"
	"github.com/gorilla/websocket"

	"Havoc/pkg/handlers"
	"github.com/gin-gonic/gin"

	"verifharness/internal/gen"
)

func init() { commands["C13"] = runC13 }

func kvs(parts []string) map[string]string {
	m := map[string]string{}
	for _, p := range parts {
		if i := strings.IndexByte(p, '='); i > 0 {
			m[p[:i]] = p[i+1:]
		}
	}
	return m
}

func hs(m map[string]string, k string) string { return string(unhx(m[k])) }

func hlist(s string) []string {
	if s == "-" || s == "" {
		return nil
	}
	var out []string
	for _, x := range strings.Split(s, ",") {
		out = append(out, string(unhx(x)))
	}
	return out
}

type c13World struct {
	dir string
}

func (w *c13World) configJSON(m map[string]string) string {
	cfg := map[string]any{
		"Sleep":            hs(m, "sleep"),
		"Indirect Syscall": m["sys"] == "1",
		"Injection": map[string]any{
			"Alloc": hs(m, "alloc"), "Execute": hs(m, "exec"), "Spawn64": hs(m, "s64"), "Spawn32": hs(m, "s32"),
		},
		"Sleep Technique":   hs(m, "tech"),
		"Sleep Jmp Gadget":  hs(m, "gadget"),
		"Stack Duplication": m["stack"] == "1",
		"Proxy Loading":     hs(m, "pl"),
		"Amsi/Etw Patch":    hs(m, "amsi"),
	}
	if m["jitter"] != "absent" {
		cfg["Jitter"] = hs(m, "jitter")
	}
	if v, ok := m["svc"]; ok {
		cfg["Service Name"] = string(unhx(v))
	}
	js, _ := json.Marshal(cfg)
	return string(js)
}

func (w *c13World) newBuilder(m map[string]string) (*builder.Builder, error) {
	b := builder.NewBuilder(builder.BuilderConfig{Compiler64: w.dir + "/cc.sh", Compiler86: w.dir + "/cc.sh", Nasm: w.dir + "/nasm.sh"})
	b.SetSilent(true)
	b.SendConsoleMessage = func(string, string) {}
	if err := b.SetConfig(w.configJSON(m)); err != nil {
		return nil, err
	}
	switch m["L"] {
	case "http":
		h := handlers.NewConfigHttp()
		kd, _ := strconv.ParseInt(m["kd"], 10, 64)
		h.Config = handlers.HTTPConfig{Name: "l", KillDate: kd, WorkingHours: hs(m, "wh"), Hosts: hlist(m["hosts"]), HostBind: "127.0.0.1",
			Methode: hs(m, "method"), HostRotation: hs(m, "rot"), PortBind: hs(m, "pbind"), PortConn: hs(m, "pconn"),
			UserAgent: hs(m, "ua"), Headers: hlist(m["hdrs"]), Uris: hlist(m["uris"]), HostHeader: hs(m, "hh"), Secure: m["sec"] == "1"}
		if m["proxy"] != "-" {
			p := hlist(m["proxy"])
			h.Config.Proxy.Enabled = true
			h.Config.Proxy.Type, h.Config.Proxy.Host, h.Config.Proxy.Port, h.Config.Proxy.Username, h.Config.Proxy.Password = p[0], p[1], p[2], p[3], p[4]
		}
		b.SetListener(handlers.LISTENER_HTTP, h)
	case "smb":
		s := handlers.NewPivotSmb()
		kd, _ := strconv.ParseInt(m["kd"], 10, 64)
		s.Config = handlers.SMBConfig{Name: "l", PipeName: hs(m, "pipe"), KillDate: kd, WorkingHours: hs(m, "wh")}
		b.SetListener(handlers.LISTENER_PIVOT_SMB, s)
	}
	return b, nil
}

func patchResult(b *builder.Builder) string {
	return guard(func() string {
		bs, err := b.PatchConfig()
		if err != nil {
			if os.Getenv("VERIF_DEBUG") != "" {
				fmt.Fprintln(os.Stderr, "PATCHERR:", err)
			}
			return "ERR"
		}
		return "ok:" + hx(bs)
	})
}

func (w *c13World) line(c *Ctx, in string) {
	c.Pending(in)
	parts := strings.Fields(in)
	switch parts[0] {
	case "reset":
		c.Emit("reset")
	case "patch":
		m := kvs(parts[1:])
		b, err := w.newBuilder(m)
		if err != nil {
			c.Emit("%s => BADJSON", in)
			return
		}
		first := patchResult(b)
		second := patchResult(b) // the same options, the same listener object: the next build
		c.Emit("%s => %s %s", in, first, second)
	case "build": // build svc=<hex> + the options of `patch`: a whole Build() of a service executable
		m := kvs(parts[1:])
		b, err := w.newBuilder(m)
		if err != nil {
			c.Emit("%s => BADJSON", in)
			return
		}
		os.Remove(w.dir + "/argv.log")
		marker := w.dir + "/MARKER"
		os.Remove(marker)
		b.SetFormat(builder.FILETYPE_WINDOWS_SERVICE_EXE)
		b.SetArch(builder.ARCHITECTURE_X64)
		b.SetExtension(".exe")
		ok := guard(func() string { return fmt.Sprint(b.Build()) })
		b.DeletePayload()
		// what the stub compiler received
		raw, _ := os.ReadFile(w.dir + "/argv.log")
		svc := "none"
		ncalls := 0
		for _, call := range strings.Split(string(raw), "\x01") {
			if call == "" {
				continue
			}
			ncalls++
			for _, a := range strings.Split(call, "\x00") {
				if strings.HasPrefix(a, "-DSERVICE_NAME=") {
					svc = hx([]byte(strings.TrimPrefix(a, "-DSERVICE_NAME=")))
				}
			}
		}
		_, merr := os.Stat(marker)
		if _, e2 := os.Stat(w.dir + "/payloads/Demon/MARKER"); e2 == nil { // the build's shell runs in the source directory
			merr = nil
			os.Remove(w.dir + "/payloads/Demon/MARKER")
		}
		c.Emit("%s => built=%s compilercalls=%d define=%s marker=%v", in, ok, ncalls, svc, merr == nil)
	case "opbuild": // opbuild arch=<hex> format=<hex> svc=<hex> + options: the operator's build request (Gate / Stageless) through
		// DispatchEvent of a real Teamserver with the stub compilers; every string of the request is the operator's
		m := kvs(parts[1:])
		b, err := w.newBuilder(m) // only to validate / produce the option text the same way
		_ = b
		if err != nil {
			c.Emit("%s => BADJSON", in)
			return
		}
		os.Remove(w.dir + "/argv.log")
		marker := w.dir + "/MARKER"
		os.Remove(marker)
		out := guardT(10*time.Second, func() string {
			rw := newRealWorld("c13op")
			defer rw.close()
			os.Chdir(w.dir) // (newRealWorld may have moved)
			rw.ts.Settings.Compiler64, rw.ts.Settings.Compiler32, rw.ts.Settings.Nasm = w.dir+"/cc.sh", w.dir+"/cc.sh", w.dir+"/nasm.sh"
			rw.ts.ListenerStart(handlers.LISTENER_PIVOT_SMB, handlers.SMBConfig{Name: "smb1", PipeName: "main_pipe"})
			// a second listener whose name differs in case only, added later: the request names the first
			rw.ts.ListenerStart(handlers.LISTENER_PIVOT_SMB, handlers.SMBConfig{Name: "SMB1", PipeName: "decoy_pipe"})
			// the operator's connection: a websocket pair, the server side registered as client "alice"
			got := make(chan *websocket.Conn, 1)
			srv := httptest.NewServer(http.HandlerFunc(func(rw http.ResponseWriter, rq *http.Request) {
				up := websocket.Upgrader{}
				if cn, err := up.Upgrade(rw, rq, nil); err == nil {
					got <- cn
				}
			}))
			defer srv.Close()
			cli, _, err := websocket.DefaultDialer.Dial("ws"+strings.TrimPrefix(srv.URL, "http"), nil)
			if err != nil {
				return "NOWS"
			}
			defer cli.Close()
			sc := <-got
			defer sc.Close()
			rw.ts.Clients.Store("c1", &server.Client{ClientID: "c1", Username: "alice", Connection: sc, Authenticated: true})
			go func() { // the operator's client reads what the teamserver sends
				for {
					if _, _, err := cli.ReadMessage(); err != nil {
						return
					}
				}
			}()
			var pk packager.Package
			pk.Head.Event = packager.Type.Gate.Type
			pk.Head.User = "alice"
			pk.Body.SubEvent = packager.Type.Gate.Stageless
			pk.Body.Info = map[string]any{"AgentType": "Demon", "Listener": "smb1", "Arch": hs(m, "arch"), "Format": hs(m, "format"), "Config": w.configJSON(m)}
			rw.ts.DispatchEvent(pk)
			// the build runs in a goroutine of its own: wait for the compiler call (or for nothing to happen)
			for i := 0; i < 150; i++ {
				if raw, _ := os.ReadFile(w.dir + "/argv.log"); strings.Contains(string(raw), "\x01") {
					break
				}
				time.Sleep(20 * time.Millisecond)
			}
			time.Sleep(60 * time.Millisecond)
			return "done"
		})
		raw, _ := os.ReadFile(w.dir + "/argv.log")
		ncalls := strings.Count(string(raw), "\x01")
		_, merr := os.Stat(marker)
		if _, e2 := os.Stat(w.dir + "/payloads/Demon/MARKER"); e2 == nil {
			merr = nil
			os.Remove(w.dir + "/payloads/Demon/MARKER")
		}
		// which listener the compiled-in configuration is for: the pipe name, as UTF-16LE, inside -DCONFIG_BYTES={0x..,…}
		pipe := "none"
		for _, call := range strings.Split(string(raw), "\x01") {
			for _, a := range strings.Split(call, "\x00") {
				if i := strings.Index(a, "CONFIG_BYTES={"); i >= 0 {
					var cfgb []byte
					for _, h := range strings.Split(strings.TrimSuffix(a[i+len("CONFIG_BYTES={"):], "}"), ",") {
						if v, err := strconv.ParseUint(strings.TrimPrefix(strings.TrimSpace(h), "0x"), 16, 8); err == nil {
							cfgb = append(cfgb, byte(v))
						}
					}
					wide := func(s string) string {
						var b []byte
						for _, ch := range []byte(s) {
							b = append(b, ch, 0)
						}
						return string(b)
					}
					hasMain, hasDecoy := strings.Contains(string(cfgb), wide("main_pipe")), strings.Contains(string(cfgb), wide("decoy_pipe"))
					switch {
					case hasMain && hasDecoy:
						pipe = "both"
					case hasMain:
						pipe = "main"
					case hasDecoy:
						pipe = "decoy"
					}
				}
			}
		}
		c.Emit("%s => run=%s compilercalls=%d marker=%v pipe=%s", in, out, ncalls, merr == nil, pipe)
	default:
		panic("C13: unknown op " + parts[0])
	}
}

func c13Setup() *c13World {
	gin.SetMode(gin.ReleaseMode)
	dir, err := os.MkdirTemp("", "hv-c13-")
	if err != nil {
		panic(err)
	}
	for _, d := range []string{"src/core", "src/crypt", "src/inject", "src/asm", "src/main", "include"} {
		os.MkdirAll(filepath.Join(dir, "payloads/Demon", d), 0o755)
	}
	os.WriteFile(filepath.Join(dir, "payloads/Demon/src/core/A.c"), []byte("int a;"), 0o644)
	os.WriteFile(filepath.Join(dir, "payloads/Demon/src/Demon.c"), []byte("int d;"), 0o644)
	os.WriteFile(filepath.Join(dir, "payloads/Demon/src/main/MainSvc.c"), []byte("int m;"), 0o644)
	// stub compilers: append their argv (NUL separated, \x01 terminated) to argv.log
	stub := "#!/bin/sh\nfor a in \"$@\"; do printf '%s\\000' \"$a\" >> " + dir + "/argv.log; done\nprintf '\\001' >> " + dir + "/argv.log\nexit 0\n"
	os.WriteFile(dir+"/cc.sh", []byte(stub), 0o755)
	os.WriteFile(dir+"/nasm.sh", []byte(stub), 0o755)
	// a command on PATH whose only effect is the marker file: a service name that reaches a shell can run it
	// without needing a space or a slash
	os.MkdirAll(dir+"/bin", 0o755)
	os.WriteFile(dir+"/bin/mk", []byte("#!/bin/sh\n: > "+dir+"/MARKER\n"), 0o755)
	os.Setenv("PATH", dir+"/bin:"+os.Getenv("PATH"))
	os.Chdir(dir) // NewBuilder takes the payload sources from <cwd>/payloads/Demon
	return &c13World{dir: dir}
}

// the builder compiles in /tmp/<10 hex digits> and leaves the (empty) directory behind: remove those this run made
func c13Sweep(since time.Time) {
	ents, _ := os.ReadDir("/tmp")
	for _, e := range ents {
		n := e.Name()
		if !e.IsDir() || len(n) != 10 || strings.Trim(n, "0123456789abcdef") != "" {
			continue
		}
		if fi, err := e.Info(); err == nil && !fi.ModTime().Before(since) {
			os.Remove("/tmp/" + n) // only if empty
		}
	}
}

func runC13(c *Ctx) {
	w := c13Setup()
	defer os.RemoveAll(w.dir)
	defer c13Sweep(time.Now().Add(-time.Second))
	if c.Replay != "" {
		for _, l := range replayLines(c.Replay) {
			w.line(c, l)
		}
		return
	}
	r := c.R
	H := func(s string) string { return hx([]byte(s)) }
	pickStr := func(xs ...string) string { return gen.Pick(r, xs) }
	uni := func() string { // a non-empty string without NUL: ASCII, BMP, astral
		n := 1 + r.Intn(12)
		var sb strings.Builder
		for i := 0; i < n; i++ {
			switch r.Intn(8) {
			case 0:
				sb.WriteRune(rune(0x100 + r.Intn(0x2000)))
			case 1:
				sb.WriteRune(rune(0x1F300 + r.Intn(0x200)))
			default:
				sb.WriteByte(byte(0x21 + r.Intn(0x5e)))
			}
		}
		return sb.String()
	}
	intStr := func() string {
		switch r.Intn(12) {
		case 0:
			return "0"
		case 1:
			return "2147483647"
		case 2:
			return "2147483648"
		case 3:
			return "4294967301"
		case 4:
			return "-5"
		case 5:
			return "x"
		case 6:
			return ""
		default:
			return strconv.Itoa(r.Intn(100000))
		}
	}
	portStr := func() string {
		switch r.Intn(10) {
		case 0:
			return "0"
		case 1:
			return "65535"
		case 2:
			return "65536"
		case 3:
			return "abc"
		case 4:
			return "-1"
		default:
			return strconv.Itoa(1 + r.Intn(65535))
		}
	}
	hours := func() string {
		switch r.Intn(10) {
		case 0, 1, 2:
			return ""
		case 3:
			return pickStr("8:00-17:00", "0:00-24:60", "24:00-24:01", "9:30-9:30", "17:00-8:00", "25:00-26:00", "8:61-9:00", "8:00", "08:00-17:00", "8:00-17:00 ", "29:69-29:69")
		case 4: // anything the regular expression lets through: hours 0-29, minutes 0-69
			sh := r.Intn(25)
			return fmt.Sprintf("%d:%02d-%d:%02d", sh, r.Intn(70), sh+r.Intn(30-sh), r.Intn(70))
		default:
			sh := r.Intn(25)
			eh := sh + r.Intn(25-sh)
			if r.Chance(1, 6) {
				eh = r.Intn(25)
			}
			return fmt.Sprintf("%d:%02d-%d:%02d", sh, r.Intn(61), eh, r.Intn(61))
		}
	}
	options := func() string {
		jitter := pickStr("0", "15", "100", "101", "-1", "x", "50")
		j := "jitter=" + H(jitter)
		if r.Chance(1, 10) {
			j = "jitter=absent"
		}
		return fmt.Sprintf("sleep=%s %s sys=%d alloc=%s exec=%s s64=%s s32=%s tech=%s gadget=%s stack=%d pl=%s amsi=%s",
			H(intStr()), j, r.Intn(2), H(pickStr("Win32", "Native/Syscall", "None", "", "Win32")), H(pickStr("Win32", "Native/Syscall", "None", "x")),
			H(pickStr("C:\\Windows\\System32\\notepad.exe", uni(), "")), H(pickStr("C:\\Windows\\SysWOW64\\notepad.exe", uni())),
			H(pickStr("WaitForSingleObjectEx", "Foliage", "Ekko", "Zilean", "Other", "")), H(pickStr("None", "jmp rax", "jmp rbx", "x", "")), r.Intn(2),
			H(pickStr("None (LdrLoadDll)", "RtlRegisterWait", "RtlCreateTimer", "RtlQueueWorkItem", "x", "")), H(pickStr("None", "Hardware breakpoints", "x", "")))
	}
	mostlyValidOptions := func() string {
		return fmt.Sprintf("sleep=%s jitter=%s sys=%d alloc=%s exec=%s s64=%s s32=%s tech=%s gadget=%s stack=%d pl=%s amsi=%s",
			H(strconv.Itoa(r.Intn(3600))), H(strconv.Itoa(r.Intn(101))), r.Intn(2), H(pickStr("Win32", "Native/Syscall", "None")), H(pickStr("Win32", "Native/Syscall", "None")),
			H(pickStr("C:\\Windows\\System32\\notepad.exe", uni())), H(pickStr("C:\\Windows\\SysWOW64\\notepad.exe", uni())),
			H(pickStr("WaitForSingleObjectEx", "Foliage", "Ekko", "Zilean")), H(pickStr("None", "jmp rax", "jmp rbx")), r.Intn(2),
			H(pickStr("None (LdrLoadDll)", "RtlRegisterWait", "RtlCreateTimer", "RtlQueueWorkItem")), H(pickStr("None", "Hardware breakpoints")))
	}
	strList := func(max int, f func() string) string {
		n := r.Intn(max + 1)
		if n == 0 {
			return "-"
		}
		var xs []string
		for i := 0; i < n; i++ {
			xs = append(xs, H(f()))
		}
		return strings.Join(xs, ",")
	}
	listener := func(valid bool) string {
		if r.Chance(1, 4) {
			return fmt.Sprintf("L=smb pipe=%s kd=%d wh=%s", H(uni()), r.Intn(2)*r.Intn(1<<40), H(hours()))
		}
		host := func() string {
			h := pickStr("10.0.0.1", "example.org", "a.b.c", uni())
			h = strings.ReplaceAll(h, ":", "_")
			if ifs, err := net.Interfaces(); err == nil { // a host that is the name of a local network interface ("lo") is
				for _, itf := range ifs { // replaced by that interface's address: the builder's documented assumption, not a case
					if itf.Name == h {
						h = "h-" + h
					}
				}
			}
			switch r.Intn(4) {
			case 0:
				if valid {
					return h + ":" + strconv.Itoa(1+r.Intn(65535))
				}
				return h + ":" + portStr()
			default:
				return h
			}
		}
		nh := 1 + r.Intn(3)
		var hostsL []string
		for i := 0; i < nh; i++ {
			hostsL = append(hostsL, H(host()))
		}
		pconn, pbind := portStr(), portStr()
		if valid {
			pconn, pbind = strconv.Itoa(1+r.Intn(65535)), strconv.Itoa(1+r.Intn(65535))
		}
		if r.Chance(1, 3) {
			pconn = ""
		}
		proxy := "-"
		if r.Chance(1, 3) {
			proxy = strings.Join([]string{H(pickStr("http", "https")), H("10.1.1.1"), H("8080"), H(pickStr("", "user")), H(pickStr("", "pa ss"))}, ",")
		}
		method := "POST"
		if !valid {
			method = pickStr("POST", "post", "GET", "get", "")
		}
		wh := hours()
		if valid && r.Chance(2, 3) {
			wh = pickStr("", "8:00-17:00", "0:00-24:60")
		}
		return fmt.Sprintf("L=http pconn=%s pbind=%s kd=%d wh=%s method=%s rot=%s hosts=%s sec=%d ua=%s hdrs=%s hh=%s uris=%s proxy=%s",
			H(pconn), H(pbind), r.Intn(2)*r.Intn(1<<40), H(wh), H(method), H(pickStr("round-robin", "random", "x")), strings.Join(hostsL, ","),
			r.Intn(2), H(uni()), strList(3, func() string {
				if r.Chance(1, 6) {
					return "" // a blank entry (a listener restored from the database without headers has exactly one)
				}
				return "X-H: " + uni()
			}), H(pickStr("", "", "front.example.org")),
			strList(3, func() string { return "/" + strings.ReplaceAll(uni(), ",", "") }), proxy)
	}
	svcNames := []string{"svc", "My Service", "a\"; touch MARKER; echo \"", "$(touch MARKER)", "`touch MARKER`", "x' ; touch MARKER ; '", "a&&touch MARKER", "a|touch MARKER", "a\ntouch MARKER", "name-with_dots.1", ""}
	// every way a name can reach a shell, wrapped in every character that is not a letter, digit, '_', '.', '-'
	var svcBattery []string
	for _, x := range []string{"`mk`", "$(mk)", ";mk;", "&mk&", "|mk|", "\nmk\n", "&&mk", "||mk", ">MARKER", "\tmk", "mk"} {
		for _, wr := range []string{"", "a", "[", "]", "^", "_", "\\", "'", "\"", "{", "}", "~", "@", "*", "?", "!", "#", "%", "=", "+", ",", ":", "/", "(", ")", "<", " "} {
			svcBattery = append(svcBattery, wr+x+wr)
		}
	}
	w.line(c, "reset")
	// quick: the two substitution forms in every wrapper (2 x 27), plus a slice of the rest; thorough: the whole table
	nw := len(svcBattery) / 11
	todo := append([]string{}, svcBattery[:2*nw]...)
	rest := svcBattery[2*nw:]
	if c.Tier == "thorough" {
		todo = append(todo, rest...)
	} else {
		off := r.Intn(len(rest))
		for i := 0; i < 16; i++ {
			todo = append(todo, rest[(i*37+off)%len(rest)])
		}
	}
	for _, svc := range todo {
		c.Count("build.service.battery")
		w.line(c, "build svc="+hex.EncodeToString([]byte(svc))+" "+mostlyValidOptions()+" L=smb pipe="+H("p")+" kd=0 wh="+H(""))
	}
	// the operator's build request: architecture and format are free text from the client
	archs := []string{"x64", "x86", "x32", "", "X64", "x86; mk; #", "x86;mk;#", "$(mk)", "`mk`", "x64\nmk", "x86|mk", "x86&&mk", "x86 -o /dev/null; mk"}
	formats := []string{"Windows Exe", "Windows Service Exe", "Windows Dll", "Windows Reflective Dll", "Windows Shellcode", "Windows Exe; mk", "$(mk)", ""}
	for i, a := range archs {
		c.Count("opbuild")
		f := formats[i%5]
		if i%4 == 3 {
			f = gen.Pick(r, formats)
		}
		w.line(c, "opbuild arch="+H(a)+" format="+H(f)+" svc="+H(gen.Pick(r, []string{"svc", "My Service", "$(mk)"}))+" "+mostlyValidOptions())
	}
	for c.Lines < c.N {
		switch k := r.Intn(40); {
		case k == 1 && c.Lines > 5 && r.Chance(1, 3):
			c.Count("opbuild")
			w.line(c, "opbuild arch="+H(gen.Pick(r, archs))+" format="+H(gen.Pick(r, formats))+" svc="+H(gen.Pick(r, svcNames))+" "+mostlyValidOptions())
		case k == 0 && c.Lines > 5:
			svc := gen.Pick(r, svcNames)
			if r.Bool() {
				svc = gen.Pick(r, svcBattery)
			}
			c.Count("build.service")
			w.line(c, "build svc="+hex.EncodeToString([]byte(svc))+" "+mostlyValidOptions()+" L=smb pipe="+H("p")+" kd=0 wh="+H(""))
		case k < 20:
			c.Count("patch.valid-shaped")
			w.line(c, "patch "+mostlyValidOptions()+" "+listener(true))
		default:
			c.Count("patch.any")
			w.line(c, "patch "+options()+" "+listener(false))
		}
	}
}
