package main

// C05 — only callbacks to outstanding tasks have any effect.
// Histories of issue / callback over three agents (one of them an SMB pivot child)
// with forged, replayed, cross-agent and never-issued request ids.  Observed per
// callback: effects recorded by the mock TeamServer, outstanding ids afterwards,
// change of any session's state, loot files created.

import (
	"time"
	"crypto/sha256"
	"fmt"
	"os"
	"path/filepath"
	"sort"
	"strconv"
	"strings"

	"Havoc/pkg/agent"
	"Havoc/pkg/handlers"
	"Havoc/pkg/logr"

	"verifharness/internal/gen"
	"verifharness/internal/mockts"
)

func init() { commands["C05"] = runC05 }

type c05World struct {
	ts     *mockts.TS
	keys   map[string][2][]byte
	agents map[string]*agent.Agent
	order  []string
	root   string
}

func newLootRoot(tag string) string {
	d, err := os.MkdirTemp("", "hv-"+tag+"-")
	if err != nil {
		panic(err)
	}
	logr.LogrInstance = logr.NewLogr(d, d+"/loot")
	return d
}

func listTree(root string) []string {
	var out []string
	filepath.Walk(root, func(p string, info os.FileInfo, err error) error {
		if err == nil {
			out = append(out, p)
		}
		return nil
	})
	sort.Strings(out)
	return out
}

func (w *c05World) snapshot() string {
	h := sha256.New()
	for _, id := range w.order {
		a := w.agents[id]
		inf := *a.Info
		inf.LastCallIn = ""
		var links []string
		for _, l := range a.Pivots.Links {
			links = append(links, l.NameID)
		}
		par := ""
		if a.Pivots.Parent != nil {
			par = a.Pivots.Parent.NameID
		}
		fmt.Fprintf(h, "%s|%v|%s|%+v|%d|%d|%d|%d|%v|%s|%d\n", a.NameID, a.Active, a.Reason, inf, len(a.Downloads), len(a.PortFwds),
			len(a.SocksCli), len(a.JobQueue), links, par, len(a.BofCallbacks))
	}
	fmt.Fprintf(h, "agents=%d", len(w.ts.Agents))
	return fmt.Sprintf("%x", h.Sum(nil))
}

func tasksOf(a *agent.Agent) string {
	if len(a.Tasks) == 0 {
		return "-"
	}
	var ss []string
	for _, t := range a.Tasks {
		ss = append(ss, strconv.FormatUint(uint64(t.RequestID), 10))
	}
	return strings.Join(ss, ",")
}

func (w *c05World) line(c *Ctx, in string) {
	c.Pending(in)
	parts := strings.Fields(in)
	switch parts[0] {
	case "reset":
		if w.root != "" {
			os.RemoveAll(w.root)
		}
		*w = c05World{ts: mockts.New(), keys: map[string][2][]byte{}, agents: map[string]*agent.Agent{}, root: newLootRoot("c05")}
		c.Emit("reset")
	case "world": // world <logs>
		w.ts.Logs = parts[1] == "1"
		c.Emit("%s", in)
	case "agent": // agent <id> [parent]
		id64, _ := strconv.ParseUint(parts[1], 16, 32)
		key := make([]byte, 32)
		for i := range key {
			key[i] = byte(id64) + byte(i)
		}
		iv := []byte("0123456789abcdef")
		a := newAgent(uint32(id64), key, iv)
		if len(parts) > 2 {
			p := w.agents[parts[2]]
			a.Pivots.Parent = p
			p.Pivots.Links = append(p.Pivots.Links, a)
		}
		w.ts.Agents = append(w.ts.Agents, a)
		w.agents[parts[1]] = a
		w.order = append(w.order, parts[1])
		w.keys[parts[1]] = [2][]byte{key, iv}
		c.Emit("%s", in)
	case "issue": // issue <id> <cmd> <req>
		a := w.agents[parts[1]]
		cmd, _ := strconv.ParseUint(parts[2], 10, 32)
		req, _ := strconv.ParseUint(parts[3], 10, 32)
		out := guard(func() string {
			data := []any{}
			if req%2 == 1 { // every other task carries an argument (the listener sizes such tasks one by one at hand-out)
				data = []any{int32(7)}
			}
			a.AddJobToQueue(agent.Job{Command: uint32(cmd), RequestID: uint32(req), Data: data})
			return "ok"
		})
		c.Emit("%s => %s", in, out)
	case "issuebof": // issuebof <id> <req>: an object-file task started from a script (its output goes back to the script): the operator's path
		a := w.agents[parts[1]]
		req, _ := strconv.ParseUint(parts[2], 10, 32)
		out := guard(func() string {
			var msg map[string]string
			job, err := a.TaskPrepare(agent.COMMAND_INLINEEXECUTE, map[string]interface{}{
				"TaskID": fmt.Sprintf("%08x", req), "CommandLine": "inline-execute", "HasCallback": "true",
				"Arguments": "", "Binary": "eA==", "FunctionName": "go", "Flags": "default"}, &msg, "client-1", w.ts)
			if err != nil || job == nil {
				return "ERR"
			}
			a.AddJobToQueue(*job)
			return "tasks=" + tasksOf(a)
		})
		c.Emit("%s => %s", in, out)
	case "pfplant": // pfplant <id> <x>: the agent opens a reverse port forward to a host that answers, and relays what its client wrote
		// under request id x; the relay's own jobs (the bytes going back) must not put x on the record of outstanding ids
		id64, _ := strconv.ParseUint(parts[1], 16, 32)
		x, _ := strconv.ParseUint(parts[2], 10, 32)
		a := w.agents[parts[1]]
		k := w.keys[parts[1]]
		out := guardT(ms(6000), func() string {
			t := &pfTarget{port: freePort()}
			t.start()
			defer t.stop()
			i32 := func(v int) fld { return fld{kind: 'i', u: uint64(uint32(v))} }
			sid := 0x51 + len(a.Tasks)
			send := func(req uint32, sub uint32, fields ...fld) bool {
				b := append(be32b(sub), encFields(fields)...)
				_, ok := handlers.VerifParseAgentRequest(w.ts, demonRequest(uint32(id64), k[0], k[1], []dpkg{{cmd: agent.COMMAND_SOCKET, req: req, body: b}}), "127.0.0.1")
				return ok
			}
			if !send(0, agent.SOCKET_COMMAND_OPEN, i32(sid), i32(0x0100007f), i32(4444), i32(0x0100007f), i32(t.port)) {
				return "REJECTED"
			}
			send(uint32(x), agent.SOCKET_COMMAND_READ, i32(sid), i32(agent.SOCKET_TYPE_CLIENT), i32(1), fld{kind: 'y', data: []byte("ping")})
			for i := 0; i < 60; i++ { // the host answers and closes
				t.mu.Lock()
				n, nc := len(t.got), len(t.conns)
				t.mu.Unlock()
				if n >= 4 && nc > 0 {
					break
				}
				time.Sleep(ms(5))
			}
			t.mu.Lock()
			for _, cn := range t.conns {
				cn.Write([]byte("pong"))
				cn.Close()
			}
			t.mu.Unlock()
			time.Sleep(ms(80))
			a.PortFwdClose(sid)
			w.ts.Take()
			return "tasks=" + tasksOf(a)
		})
		c.Emit("%s => %s", in, out)
	case "handout": // handout <id>: the agent checks in and gets its queued tasks; the record of outstanding ids is not touched by that
		id64, _ := strconv.ParseUint(parts[1], 16, 32)
		a := w.agents[parts[1]]
		k := w.keys[parts[1]]
		reqb := demonRequest(uint32(id64), k[0], k[1], []dpkg{{cmd: agent.COMMAND_GET_JOB, nobody: true}})
		out := guard(func() string {
			_, ok := handlers.VerifParseAgentRequest(w.ts, reqb, "127.0.0.1")
			if !ok {
				return "REJECTED"
			}
			w.ts.Take()
			return "tasks=" + tasksOf(a)
		})
		c.Emit("%s => %s", in, out)
	case "cb": // cb <id> <cmd> <req> <final> <body>
		id64, _ := strconv.ParseUint(parts[1], 16, 32)
		cmd, _ := strconv.ParseUint(parts[2], 10, 32)
		req, _ := strconv.ParseUint(parts[3], 10, 32)
		a := w.agents[parts[1]]
		k := w.keys[parts[1]]
		w.ts.Take()
		before := w.snapshot()
		filesBefore := listTree(w.root)
		reqb := demonRequest(uint32(id64), k[0], k[1], []dpkg{{cmd: uint32(cmd), req: uint32(req), body: unhx(parts[5])}})
		out := guard(func() string {
			_, ok := handlers.VerifParseAgentRequest(w.ts, reqb, "127.0.0.1")
			if !ok {
				return "REJECTED"
			}
			fx := w.ts.Take()
			st := "0"
			if w.snapshot() != before {
				st = "1"
			}
			nf := len(listTree(w.root)) - len(filesBefore)
			return fmt.Sprintf("fx=%d tasks=%s st=%s files=%d", len(fx), tasksOf(a), st, nf)
		})
		c.Emit("%s => %s", in, out)
	default:
		panic("C05: unknown op " + parts[0])
	}
}

// Callbacks that are NOT the Demon's last word on a task, but on which the teamserver retires the request id
// all the same (the task's later callbacks are then dropped).  C05 does not speak about dropping too much, so
// no demand is made for them (docs/callback-templates-report.md, section A; DESIGN.md, C05).
var earlyCompleted = map[string]bool{"ie.exception": true, "ie.symbol-not-found": true, "info.memalloc": true, "info.memprotect": true,
	"info.proccreate": true, "error.token": true, "transfer.remove.notice": true}

// Answers to the relay's own socket jobs (they are queued by the SOCKS goroutines, not issued by an operator, and
// COMMAND_SOCKET is one of the kinds accepted without an outstanding task): no demand on the request id.
var relayInternal = map[string]bool{"socket.connect.ok": true, "socket.connect.fail": true, "socket.write.fail": true}

func runC05(c *Ctx) {
	w := &c05World{}
	defer func() {
		if w.root != "" {
			os.RemoveAll(w.root)
		}
	}()
	if c.Replay != "" {
		for _, l := range replayLines(c.Replay) {
			w.line(c, l)
		}
		return
	}
	r := c.R
	// fixed scenario, every run: a task that answers more than once, another task issued while it runs (for 0-4 tasks already on
	// record, so that the record grows across every small capacity), the first task's last answer, then that answer again
	for pre := 0; pre < 5; pre++ {
		w.line(c, "reset")
		w.line(c, "world 0")
		id := fmt.Sprintf("%08x", 0x4100+pre)
		w.line(c, "agent "+id)
		for k := 0; k < pre; k++ {
			w.line(c, fmt.Sprintf("issue %s 11 %d", id, 900+k))
		}
		w.line(c, fmt.Sprintf("issue %s 21 5001", id))
		w.line(c, fmt.Sprintf("cb %s %d 5001 0 %s", id, agent.COMMAND_OUTPUT, hx(body(fS("first part")))))
		w.line(c, fmt.Sprintf("issue %s 11 5002", id))
		w.line(c, fmt.Sprintf("cb %s %d 5001 0 %s", id, agent.COMMAND_OUTPUT, hx(body(fS("second part")))))
		w.line(c, fmt.Sprintf("cb %s %d 5001 1 %s", id, agent.COMMAND_SLEEP, hx(body(fI(30), fI(5)))))
		w.line(c, fmt.Sprintf("cb %s %d 5001 1 %s", id, agent.COMMAND_SLEEP, hx(body(fI(99), fI(9)))))
		w.line(c, fmt.Sprintf("cb %s %d 5001 0 %s", id, agent.COMMAND_OUTPUT, hx(body(fS("after the end")))))
		c.Count("prelude.replay-after-issue")
	}
	for c.Lines < c.N {
		w.line(c, "reset")
		logs := "0"
		if r.Chance(1, 5) {
			logs = "1"
		}
		w.line(c, "world "+logs)
		ids := []string{fmt.Sprintf("%08x", 0x1000+r.Intn(0xfff)), fmt.Sprintf("%08x", 0x20000+r.Intn(0xfff)), fmt.Sprintf("%08x", 0x300000+r.Intn(0xfff))}
		w.line(c, "agent "+ids[0])
		w.line(c, "agent "+ids[1])
		w.line(c, "agent "+ids[2]+" "+ids[0]) // SMB pivot child of the first agent
		var issued []uint32                   // every id ever issued (to anyone)
		fileID := r.U32()
		steps := 6 + r.Intn(16)
		for s := 0; s < steps; s++ {
			id := ids[r.Intn(3)]
			if r.Chance(2, 5) {
				req := r.U32()
				if r.Chance(1, 6) && len(issued) > 0 {
					req = gen.Pick(r, issued) // same id issued again / to another agent
				}
				issued = append(issued, req)
				if r.Chance(1, 6) { // an object-file task whose output goes back to a script, then its callbacks
					c.Count("issue.bof-with-callback")
					w.line(c, fmt.Sprintf("issuebof %s %d", id, req))
					if r.Bool() {
						w.line(c, fmt.Sprintf("cb %s %d %d 0 %s", id, agent.BEACON_OUTPUT, req, hx(body(fI(agent.CALLBACK_OUTPUT), fS("some output")))))
					}
					fin := gen.Pick(r, []uint32{agent.COMMAND_INLINEEXECUTE_RAN_OK, agent.COMMAND_INLINEEXECUTE_COULD_NO_RUN})
					w.line(c, fmt.Sprintf("cb %s %d %d 1 %s", id, agent.COMMAND_INLINEEXECUTE, req, hx(body(fI(fin)))))
					continue
				}
				if r.Chance(1, 25) && id != ids[2] { // relay traffic under an id of the agent's choosing, then a callback with that id
					x := r.U32() | 1
					c.Count("pfplant")
					w.line(c, fmt.Sprintf("pfplant %s %d", id, x))
					w.line(c, fmt.Sprintf("cb %s %d %d 1 %s", id, agent.COMMAND_SLEEP, x, hx(body(fI(77), fI(5)))))
					continue
				}
				c.Count("issue")
				w.line(c, fmt.Sprintf("issue %s %d %d", id, gen.Pick(r, []uint32{11, 15, 92, 12, 21, 2500}), req))
				if r.Chance(1, 3) { // the task leaves for the agent (a pivot's tasks leave through the first agent's check-in)
					h := id
					if id == ids[2] {
						h = ids[0]
					}
					c.Count("handout")
					w.line(c, "handout "+h)
				}
				continue
			}
			t := genCallback(r, fileID)
			if r.Bool() { // the wide table: 130+ (command, sub-command) callbacks with the Demon's own answer to "is this the last one"
				more := moreCallbacks(r)
				t = more[r.Intn(len(more))]
				if earlyCompleted[t.label] || relayInternal[t.label] {
					t.final = "?"
				}
			}
			if r.Chance(1, 8) {
				fileID = r.U32()
			}
			var req uint32
			switch k := r.Intn(10); {
			case k < 5 && len(issued) > 0:
				req = gen.Pick(r, issued) // issued to this or another agent, maybe completed already
				c.Count("cb.issued-id")
			case k < 6:
				req = 0
				c.Count("cb.zero-id")
			default:
				req = r.U32()
				c.Count("cb.forged-id")
			}
			c.Count("cb." + t.label)
			w.line(c, fmt.Sprintf("cb %s %d %d %s %s", id, t.cmd, req, t.final, hx(t.body)))
		}
	}
}
