package main

// C10 — sessions, links and listeners survive a restart or crash unchanged.
// Operation sequences on a real server.Teamserver; the SQLite file is copied after
// every operation AND after every database-mutating call made across the
// agent.TeamServer interface inside an operation (= kill points between statements);
// each copy is reopened with db.DatabaseNew and read back the way Teamserver.Start does.

import (
	"sync"
	"time"
	"net"
	"fmt"
	"io"
	"os"
	"runtime/debug"
	"sort"
	"strconv"
	"strings"

	server "Havoc/cmd/server"
	"Havoc/pkg/agent"
	"Havoc/pkg/db"
	"Havoc/pkg/handlers"
	"Havoc/pkg/packager"

	"verifharness/internal/gen"
)

func init() { commands["C10"] = runC10 }

// snapTS forwards to the real teamserver and snapshots the database after every mutating call.
type snapTS struct {
	*server.Teamserver
	w *c10World
}

func (s *snapTS) AgentAdd(a *agent.Agent) []*agent.Agent {
	r := s.Teamserver.AgentAdd(a)
	s.w.snap("AgentAdd")
	return r
}
func (s *snapTS) AgentUpdate(a *agent.Agent) { s.Teamserver.AgentUpdate(a); s.w.snap("AgentUpdate") }
func (s *snapTS) LinkAdd(p, l *agent.Agent) error {
	e := s.Teamserver.LinkAdd(p, l)
	s.w.snap("LinkAdd")
	return e
}
func (s *snapTS) LinkRemove(p, l *agent.Agent, u bool) {
	s.Teamserver.LinkRemove(p, l, u)
	s.w.snap("LinkRemove")
}

type c10World struct {
	*realWorld
	wrap         *snapTS
	snaps        []string // restored views at interior kill points of the current operation
	lastDangling string
	nsnap        int
	tlPorts      map[string]int
	inOp         bool // an operation of the history is running: its statements are kill points
	probeWrites  bool // this restore is followed by a write through the restored database
	writesLost   bool // sticky for the run: every further probe would wait for SQLite's busy timeout again
}

func copyFile(src, dst string) error {
	in, err := os.Open(src)
	if err != nil {
		return err
	}
	defer in.Close()
	out, err := os.Create(dst)
	if err != nil {
		return err
	}
	defer out.Close()
	_, err = io.Copy(out, in)
	return err
}

func agentRec(a *agent.Agent) string {
	i := a.Info
	f := func(s string) string { return hx([]byte(s)) }
	return strings.Join([]string{a.NameID, hx(a.Encryption.AESKey), hx(a.Encryption.AESIv), f(i.Hostname), f(i.Username), f(i.DomainName),
		f(i.ExternalIP), f(i.InternalIP), f(i.ProcessName), strconv.FormatInt(i.BaseAddress, 10), strconv.Itoa(i.ProcessPID),
		strconv.Itoa(i.ProcessTID), strconv.Itoa(i.ProcessPPID), f(i.ProcessArch), f(i.Elevated), f(i.OSVersion), f(i.OSArch),
		strconv.Itoa(i.SleepDelay), strconv.Itoa(i.SleepJitter), strconv.FormatInt(i.KillDate, 10), strconv.Itoa(int(i.WorkingHours)),
		f(i.FirstCallIn), f(i.LastCallIn)}, "/")
}

func canon(xs []string) string {
	sort.Strings(xs)
	if len(xs) == 0 {
		return "-"
	}
	return strings.Join(xs, ";")
}

// restored reads a copy of the database the way Teamserver.Start does.
func (w *c10World) restored() string {
	w.nsnap++
	cp := fmt.Sprintf("%s/snap%d.db", w.dir, w.nsnap)
	if err := copyFile(w.dbp, cp); err != nil {
		return "COPYERR"
	}
	defer os.Remove(cp)
	d, err := db.DatabaseNew(cp)
	if err != nil {
		return "OPENERR"
	}
	defer closeDB(d)
	agents := d.AgentAll()
	ids := map[int]bool{}
	var as, ls, dangling []string
	for _, a := range agents {
		as = append(as, agentRec(a))
		v, _ := strconv.ParseInt(a.NameID, 16, 64)
		ids[int(v)] = true
	}
	// the restore loop of Teamserver.Start asks through the teamserver's own helpers
	rts := &server.Teamserver{DB: d}
	for _, a := range agents {
		if p, err := rts.ParentOf(a); err == nil {
			if ids[p] {
				ls = append(ls, fmt.Sprintf("%08x>%s", uint32(p), a.NameID))
			}
		}
		for _, c := range rts.LinksOf(a) {
			if !ids[c] { // Start() would append a nil *Agent to this agent's links
				dangling = append(dangling, fmt.Sprintf("%s>%08x", a.NameID, uint32(c)))
			}
		}
	}
	var lst []string
	for _, l := range d.ListenerAll() {
		lst = append(lst, fmt.Sprintf("%s|%s|%s", hx([]byte(l["Name"])), l["Protocol"], hx([]byte(l["Config"]))))
	}
	w.lastDangling = canon(dangling)
	// the restarted teamserver goes on working with this database: what it records after the restore must be there at the next restart
	rw := "-"
	if w.probeWrites && !w.writesLost {
		rw = "ok"
		d.AgentUpdate(&agent.Agent{NameID: "7ffffff1"}) // (no such row: harmless) a write through the restored handle
		if err := d.ListenerAdd("verif-after-restart", "Smb", "{}"); err != nil {
			rw = "LOST:" + strings.ReplaceAll(err.Error(), " ", "_")
		} else if d2, err := db.DatabaseNew(cp); err == nil {
			found := false
			for _, l := range d2.ListenerAll() {
				if l["Name"] == "verif-after-restart" {
					found = true
				}
			}
			closeDB(d2)
			if !found {
				rw = "LOST:not-there-after-the-next-restart"
			}
		}
		if rw != "ok" {
			w.writesLost = true // every later probe would wait for the busy timeout again
		}
	}
	return fmt.Sprintf("Ragents=%s Rlinks=%s Rdangling=%s Rlisteners=%s Rwrite=%s", canon(as), canon(ls), canon(dangling), canon(lst), rw)
}

func (w *c10World) live() string {
	var as, ls []string
	act := map[string]bool{}
	for _, a := range w.ts.Agents.Agents {
		if a.Active {
			act[a.NameID] = true
			as = append(as, agentRec(a))
		}
	}
	for _, a := range w.ts.Agents.Agents {
		if a.Active && a.Pivots.Parent != nil && act[a.Pivots.Parent.NameID] {
			ls = append(ls, a.Pivots.Parent.NameID+">"+a.NameID)
		}
	}
	return fmt.Sprintf("Lagents=%s Llinks=%s", canon(as), canon(ls))
}

func (w *c10World) snap(tag string) {
	w.restored()
	w.snaps = append(w.snaps, tag+":"+w.lastDangling)
}

func (w *c10World) do(c *Ctx, in string, f func()) {
	w.snaps = nil
	res := "ok"
	func() {
		defer func() {
			if r := recover(); r != nil {
				res = "PANIC:" + panicSig(r, debug.Stack())
			}
		}()
		w.inOp = true
		defer func() { w.inOp = false }()
		f()
	}()
	mid := "-"
	if len(w.snaps) > 0 {
		mid = strings.Join(w.snaps, "~")
	}
	w.probeWrites = true
	final := w.restored()
	w.probeWrites = false
	c.Emit("%s => %s %s %s mid=%s", in, res, w.live(), final, mid)
}

func (w *c10World) callback(id uint32, cmd uint32, bodyb []byte) {
	a := w.ts.AgentInstance(int(id))
	if a == nil {
		return
	}
	req := uint32(0x2000 + len(a.Tasks))
	a.AddRequest(agent.Job{Command: cmd, RequestID: req})
	pkt := demonRequest(id, a.Encryption.AESKey, a.Encryption.AESIv, []dpkg{{cmd: cmd, req: req, body: bodyb}})
	handlers.VerifParseAgentRequest(w.wrap, pkt, "10.0.0.9")
}

// metadata strings that SQLite column affinity may alter
var trickyStrings = []string{"007", "1e3", " 12 ", "", "0x10", "12.50", "-0", "+5", "1e400", "héllo", "9223372036854775808", "WORKSTATION", "  ", ".5", "5.", "1_000", "NaN", "Infinity", "12abc", "0012.0"}

func trickyInfo(r *gen.Rng) regInfo {
	m := genRegInfo(r)
	p := func(s string) string {
		if r.Chance(1, 2) {
			return gen.Pick(r, trickyStrings)
		}
		return s
	}
	m.Hostname, m.Username, m.Domain, m.IP = p(m.Hostname), p(m.Username), p(m.Domain), p(m.IP)
	if r.Chance(1, 3) {
		m.ProcName = "C:\\" + gen.Pick(r, trickyStrings)
	}
	return m
}

func (w *c10World) line(c *Ctx, in string) {
	c.Pending(in)
	parts := strings.Fields(in)
	switch parts[0] {
	case "reset":
		w.realWorld.close()
		w.realWorld = newRealWorld("c10")
		w.wrap = &snapTS{Teamserver: w.ts, w: w}
		w.tlPorts = map[string]int{}
		w.nsnap = 0
		// kill points at every write statement, wherever in the teamserver it is issued
		hookDB(w.ts.DB, w.dbp)
		verifCommitHook = func() {
			if w.inOp {
				w.snap("stmt")
			}
		}
		c.Emit("reset")
	case "reg": // reg <id> <infoseed>
		id := mustHex(parts[1])
		seed, _ := strconv.ParseUint(parts[2], 10, 64)
		rr := gen.New(seed)
		w.do(c, in, func() {
			handlers.VerifParseAgentRequest(w.wrap, initPackage(id, id, rr.Bytes(32), rr.Bytes(16), trickyInfo(rr)), "10.0.0."+strconv.Itoa(rr.Intn(250)))
		})
	case "checkin": // checkin <id> <infoseed> [rekey]: COMMAND_CHECKIN callback with new metadata (same keys, or fresh ones)
		id := mustHex(parts[1])
		seed, _ := strconv.ParseUint(parts[2], 10, 64)
		rr := gen.New(seed)
		w.do(c, in, func() {
			if a := w.ts.AgentInstance(int(id)); a != nil {
				b := append(append([]byte{}, a.Encryption.AESKey...), a.Encryption.AESIv...)
				if len(parts) > 3 && parts[3] == "rekey" { // the Demon started again under the same id: fresh session keys
					b = append(rr.Bytes(32), rr.Bytes(16)...)
				}
				w.callback(id, agent.COMMAND_CHECKIN, append(b, encFields(trickyInfo(rr).fields(id))...))
			}
		})
	case "sleep": // sleep <id> <delay> <jitter>
		id := mustHex(parts[1])
		d, _ := strconv.Atoi(parts[2])
		j, _ := strconv.Atoi(parts[3])
		w.do(c, in, func() { w.callback(id, agent.COMMAND_SLEEP, body(fI(uint32(d)), fI(uint32(j)))) })
	case "connect": // connect <parent> <child> <infoseed>
		pid, cid := mustHex(parts[1]), mustHex(parts[2])
		seed, _ := strconv.ParseUint(parts[3], 10, 64)
		rr := gen.New(seed)
		w.do(c, in, func() {
			key, iv := rr.Bytes(32), rr.Bytes(16)
			if a := w.ts.AgentInstance(int(cid)); a != nil {
				key, iv = a.Encryption.AESKey, a.Encryption.AESIv
			}
			inner := initPackage(cid, cid, key, iv, trickyInfo(rr))
			w.callback(pid, agent.COMMAND_PIVOT, body(fI(agent.DEMON_PIVOT_SMB_CONNECT), fI(1), fY(inner)))
		})
	case "disconnect":
		pid, cid := mustHex(parts[1]), mustHex(parts[2])
		w.do(c, in, func() {
			w.callback(pid, agent.COMMAND_PIVOT, body(fI(agent.DEMON_PIVOT_SMB_DISCONNECT), fI(1), fI(cid)))
		})
	case "exit":
		id := mustHex(parts[1])
		w.do(c, in, func() { w.callback(id, agent.COMMAND_EXIT, body(fI(1))) })
	case "markdead", "markalive":
		mark := map[string]string{"markdead": "Dead", "markalive": "Alive"}[parts[0]]
		w.do(c, in, func() {
			w.ts.DispatchEvent(packager.Package{Head: packager.Head{Event: packager.Type.Session.Type},
				Body: packager.Body{SubEvent: packager.Type.Session.MarkAsDead, Info: map[string]any{"AgentID": parts[1], "Marked": mark}}})
		})
	case "ladd": // ladd <namehex> <protocol> <confighex>: the persistence half of ListenerAdd
		w.do(c, in, func() { w.ts.DB.ListenerAdd(string(unhx(parts[1])), parts[2], string(unhx(parts[3]))) })
	case "lrem":
		w.do(c, in, func() { w.ts.DB.ListenerRemove(string(unhx(parts[1]))) })
	case "burst": // burst <goroutines> <each> <seed>: agents register and check in at the same time (a teamserver of its own, its database
		// opened exactly as the teamserver opens it); every acknowledged registration and the last metadata must be there after a restart
		ng, _ := strconv.Atoi(parts[1])
		each, _ := strconv.Atoi(parts[2])
		seed, _ := strconv.ParseUint(parts[3], 10, 64)
		saved := w.realWorld
		bw := newRealWorld("c10b")
		w.realWorld = bw
		var ackMu sync.Mutex
		var acked []string
		res := guardT(ms(60000), func() string {
			var wg sync.WaitGroup
			for g := 0; g < ng; g++ {
				wg.Add(1)
				go func(g int) {
					defer wg.Done()
					defer func() { recover() }()
					rr := gen.New(seed + uint64(g)*7919)
					for i := 0; i < each; i++ {
						id := uint32(0x0b000000 + g*0x1000 + i)
						key, iv := rr.Bytes(32), rr.Bytes(16)
						if _, ok := handlers.VerifParseAgentRequest(bw.ts, initPackage(id, id, key, iv, trickyInfo(rr)), "10.0.0.7"); ok {
							ackMu.Lock()
							acked = append(acked, fmt.Sprintf("%08x", id))
							ackMu.Unlock()
						}
						if a := bw.ts.AgentInstance(int(id)); a != nil {
							for k := 0; k < 3; k++ {
								b := append(append([]byte{}, key...), iv...)
								req := uint32(0x2000 + k)
								a.AddRequest(agent.Job{Command: agent.COMMAND_CHECKIN, RequestID: req})
								handlers.VerifParseAgentRequest(bw.ts, demonRequest(id, key, iv, []dpkg{{cmd: agent.COMMAND_CHECKIN, req: req, body: append(b, encFields(trickyInfo(rr).fields(id))...)}}), "10.0.0.7")
							}
						}
					}
				}(g)
			}
			wg.Wait()
			return "ok"
		})
		out := fmt.Sprintf("%s %s %s", res, w.live(), w.restored())
		w.realWorld = saved
		bw.close()
		// the registrations that were acknowledged: what a restart must bring back (the live session table is appended to
		// without synchronisation and can itself lose an entry under this load - that is not persistence's business)
		c.Emit("%s => %s mid=- acked=%s", in, out, canon(acked))
	case "tladd": // tladd <namehex> smb|http: a listener started through the teamserver (which persists it)
		name := string(unhx(parts[1]))
		w.do(c, in, func() {
			if parts[2] == "http" {
				p := freePort()
				w.tlPorts[name] = p
				w.ts.ListenerStart(handlers.LISTENER_HTTP, handlers.HTTPConfig{Name: name, Hosts: []string{"127.0.0.1"}, HostBind: "127.0.0.1",
					HostRotation: "round-robin", PortBind: strconv.Itoa(p), PortConn: strconv.Itoa(p), UserAgent: "ua"})
				for i := 0; i < 200; i++ {
					if cn, err := net.DialTimeout("tcp", fmt.Sprintf("127.0.0.1:%d", p), ms(50)); err == nil {
						cn.Close()
						break
					}
					time.Sleep(ms(5))
				}
			} else {
				w.ts.ListenerStart(handlers.LISTENER_PIVOT_SMB, handlers.SMBConfig{Name: name, PipeName: "p"})
			}
		})
	case "tlrem": // tlrem <namehex> [stuck]: removed through the teamserver; "stuck": while a request is still in flight on it
		name := string(unhx(parts[1]))
		var held net.Conn
		if len(parts) > 2 && parts[2] == "stuck" && w.tlPorts[name] != 0 {
			if cn, err := net.DialTimeout("tcp", fmt.Sprintf("127.0.0.1:%d", w.tlPorts[name]), ms(300)); err == nil {
				cn.Write([]byte("POST /x HTTP/1.1\r\nHost: h\r\nUser-Agent: ua\r\nContent-Length: 100\r\n\r\nhalf"))
				time.Sleep(ms(30))
				held = cn
			}
		}
		w.do(c, in, func() { w.ts.ListenerRemove(name) })
		if held != nil {
			held.Close()
		}
	default:
		panic("C10: unknown op " + parts[0])
	}
}

func runC10(c *Ctx) {
	w := &c10World{}
	defer func() { w.realWorld.close() }()
	if c.Replay != "" {
		for _, l := range replayLines(c.Replay) {
			w.line(c, l)
		}
		return
	}
	r := c.R
	universe := []string{"00000a01", "00000b02", "00000c03", "80000d04", "ffffffff", "7fffffff"}
	lnames := []string{"http", "http-1", "http_1", "Edge", "edge", "smb%", "9", "007", "ünï"}
	tln := 0
	for c.Lines < c.N {
		w.line(c, "reset")
		w.line(c, fmt.Sprintf("reg %s %d", universe[r.Intn(3)], r.U64()))
		if r.Chance(1, 12) { // listeners started and removed through the teamserver; one removal while a request is in flight (stop takes 5 s)
			tln++
			a, b := hx([]byte(fmt.Sprintf("tl-smb%d", tln))), hx([]byte(fmt.Sprintf("tl-http%d", tln)))
			c.Count("tl-listeners")
			w.line(c, "tladd "+a+" smb")
			w.line(c, "tladd "+b+" http")
			if r.Bool() {
				w.line(c, "tlrem "+a)
			}
			if tln%3 == 1 {
				w.line(c, "tlrem "+b+" stuck")
			} else if r.Bool() {
				w.line(c, "tlrem "+b)
			}
		}
		if r.Chance(1, 15) {
			c.Count("burst")
			w.line(c, fmt.Sprintf("burst %d %d %d", 2+r.Intn(7), 2+r.Intn(5), r.U64()))
		}
		steps := 3 + r.Intn(10)
		for s := 0; s < steps; s++ {
			pick := func() string {
				if len(w.ts.Agents.Agents) > 0 && r.Chance(4, 5) {
					return w.ts.Agents.Agents[r.Intn(len(w.ts.Agents.Agents))].NameID
				}
				return gen.Pick(r, universe)
			}
			switch k := r.Intn(20); {
			case k < 4:
				c.Count("reg")
				w.line(c, fmt.Sprintf("reg %s %d", gen.Pick(r, universe), r.U64()))
			case k < 7:
				if r.Chance(1, 3) {
					c.Count("checkin.rekey")
					w.line(c, fmt.Sprintf("checkin %s %d rekey", pick(), r.U64()))
				} else {
					c.Count("checkin")
					w.line(c, fmt.Sprintf("checkin %s %d", pick(), r.U64()))
				}
			case k < 9:
				c.Count("sleep")
				w.line(c, fmt.Sprintf("sleep %s %d %d", pick(), r.Intn(1000), r.Intn(100)))
			case k < 13:
				c.Count("connect")
				w.line(c, fmt.Sprintf("connect %s %s %d", pick(), gen.Pick(r, universe), r.U64()))
			case k < 14:
				c.Count("disconnect")
				w.line(c, fmt.Sprintf("disconnect %s %s", pick(), pick()))
			case k < 15:
				c.Count("exit")
				w.line(c, "exit "+pick())
			case k < 16:
				c.Count("markdead")
				w.line(c, "markdead "+pick())
			case k < 17:
				c.Count("markalive")
				w.line(c, "markalive "+pick())
			case k < 19:
				c.Count("ladd")
				cfg := fmt.Sprintf(`{"Hosts":"%s","PortBind":"%d","Secure":%v}`, gen.Pick(r, trickyStrings), r.Intn(65536), r.Bool())
				w.line(c, fmt.Sprintf("ladd %s %s %s", hx([]byte(gen.Pick(r, lnames))), gen.Pick(r, []string{"Http", "Https", "Smb", "External"}), hx([]byte(cfg))))
			default:
				c.Count("lrem")
				w.line(c, "lrem "+hx([]byte(gen.Pick(r, lnames))))
			}
		}
	}
}
