package main

// C09 — the pivot graph is always a consistent forest, mirrored in the database.
// Event sequences (connect of new / existing agents incl. the sender itself and its
// ancestors, disconnect, exit, kill date, mark dead / alive) against a real
// server.Teamserver; after each event the in-memory parent / links of every agent and
// the rows of TS_Links are printed.

import (
	"database/sql"
	"fmt"
	"runtime/debug"
	"sort"
	"strconv"
	"strings"

	"Havoc/pkg/agent"
	"Havoc/pkg/handlers"
	"Havoc/pkg/packager"

	"verifharness/internal/gen"
)

func init() { commands["C09"] = runC09 }

type c09World struct {
	*realWorld
	keys map[uint32][2][]byte
	sql  *sql.DB
}

func (w *c09World) rows() string {
	if w.sql == nil {
		d, err := sql.Open("sqlite3", w.dbp)
		if err != nil {
			return "DBERR"
		}
		w.sql = d
	}
	q, err := w.sql.Query("SELECT ParentAgentID, LinkAgentID FROM TS_Links")
	if err != nil {
		return "DBERR"
	}
	defer q.Close()
	var out []string
	for q.Next() {
		var p, c int64
		q.Scan(&p, &c)
		out = append(out, fmt.Sprintf("%08x>%08x", uint32(p), uint32(c)))
	}
	sort.Strings(out)
	if len(out) == 0 {
		return "-"
	}
	return strings.Join(out, ",")
}

func (w *c09World) obs() string {
	var as []string
	for _, a := range w.ts.Agents.Agents {
		par := "-"
		if a.Pivots.Parent != nil {
			par = a.Pivots.Parent.NameID
		}
		var ls []string
		for _, l := range a.Pivots.Links {
			ls = append(ls, l.NameID)
		}
		lk := "-"
		if len(ls) > 0 {
			lk = strings.Join(ls, "+")
		}
		act := "0"
		if a.Active {
			act = "1"
		}
		as = append(as, fmt.Sprintf("%s:%s:%s:%s", a.NameID, par, lk, act))
	}
	s := "-"
	if len(as) > 0 {
		s = strings.Join(as, ";")
	}
	return "agents=" + s + " rows=" + w.rows()
}

func (w *c09World) callback(id uint32, cmd uint32, bodyb []byte) string {
	a := w.ts.AgentInstance(int(id))
	if a == nil {
		return "NOAGENT " + w.obs()
	}
	req := uint32(0x1000 + len(a.Tasks))
	a.AddRequest(agent.Job{Command: cmd, RequestID: req})
	k := [2][]byte{a.Encryption.AESKey, a.Encryption.AESIv}
	pkt := demonRequest(id, k[0], k[1], []dpkg{{cmd: cmd, req: req, body: bodyb}})
	res := "ok"
	func() {
		defer func() {
			if r := recover(); r != nil {
				res = "PANIC:" + panicSig(r, debug.Stack())
			}
		}()
		handlers.VerifParseAgentRequest(w.ts, pkt, "10.0.0.9")
	}()
	return res + " " + w.obs()
}

func (w *c09World) line(c *Ctx, in string) {
	c.Pending(in)
	parts := strings.Fields(in)
	pid := func(i int) uint32 {
		v, _ := strconv.ParseUint(parts[i], 16, 32)
		return uint32(v)
	}
	switch parts[0] {
	case "reset":
		if w.sql != nil {
			w.sql.Close()
			w.sql = nil
		}
		w.realWorld.close()
		w.realWorld = newRealWorld("c09")
		w.keys = map[uint32][2][]byte{}
		c.Emit("reset")
	case "reg": // direct agent
		id := pid(1)
		key, iv := c.R.Bytes(32), c.R.Bytes(16)
		if k, ok := w.keys[id]; ok {
			key, iv = k[0], k[1]
		}
		w.keys[id] = [2][]byte{key, iv}
		handlers.VerifParseAgentRequest(w.ts, initPackage(id, id, key, iv, genRegInfo(c.R)), "10.0.0.9")
		c.Emit("%s => ok %s", in, w.obs())
	case "connect": // connect <parent> <child>
		cid := pid(2)
		k, ok := w.keys[cid]
		if !ok {
			k = [2][]byte{c.R.Bytes(32), c.R.Bytes(16)}
			w.keys[cid] = k
		}
		if a := w.ts.AgentInstance(int(cid)); a != nil { // a reconnecting agent keeps its keys
			k = [2][]byte{a.Encryption.AESKey, a.Encryption.AESIv}
		}
		inner := initPackage(cid, cid, k[0], k[1], genRegInfo(c.R))
		c.Emit("%s => %s", in, w.callback(pid(1), agent.COMMAND_PIVOT, body(fI(agent.DEMON_PIVOT_SMB_CONNECT), fI(1), fY(inner))))
	case "disconnect": // disconnect <parent> <child>
		c.Emit("%s => %s", in, w.callback(pid(1), agent.COMMAND_PIVOT, body(fI(agent.DEMON_PIVOT_SMB_DISCONNECT), fI(1), fI(pid(2)))))
	case "exit":
		c.Emit("%s => %s", in, w.callback(pid(1), agent.COMMAND_EXIT, body(fI(1))))
	case "killdate":
		c.Emit("%s => %s", in, w.callback(pid(1), agent.COMMAND_KILL_DATE, nil))
	case "markdead", "markalive":
		mark := "Dead"
		if parts[0] == "markalive" {
			mark = "Alive"
		}
		res := "ok"
		func() {
			defer func() {
				if r := recover(); r != nil {
					res = "PANIC:" + panicSig(r, debug.Stack())
				}
			}()
			w.ts.DispatchEvent(packager.Package{
				Head: packager.Head{Event: packager.Type.Session.Type},
				Body: packager.Body{SubEvent: packager.Type.Session.MarkAsDead, Info: map[string]any{"AgentID": parts[1], "Marked": mark}},
			})
		}()
		c.Emit("%s => %s %s", in, res, w.obs())
	default:
		panic("C09: unknown op " + parts[0])
	}
}

func mustHex(s string) uint32 {
	v, _ := strconv.ParseUint(s, 16, 32)
	return uint32(v)
}

func runC09(c *Ctx) {
	w := &c09World{}
	defer func() { w.realWorld.close() }()
	if c.Replay != "" {
		for _, l := range replayLines(c.Replay) {
			w.line(c, l)
		}
		return
	}
	r := c.R
	universe := []string{"00000a01", "00000b02", "00000c03", "00000d04", "80000e05"}
	ops := []string{"connect", "connect", "connect", "connect", "connect", "connect", "disconnect", "disconnect", "exit", "killdate", "markdead", "markalive", "markalive", "reg", "reg"}
	// bounded-exhaustive prefix: every sequence of `depth` events over 3 agents from a fixed seed state (quick: a slice of it)
	for c.Lines < c.N {
		w.line(c, "reset")
		nroot := 1 + r.Intn(2)
		for i := 0; i < nroot; i++ {
			w.line(c, "reg "+universe[i])
		}
		if r.Chance(1, 4) { // a star: one parent with 2-4 children connected one after the other; then one of them goes (any position)
			kids := universe[1 : 3+r.Intn(3)]
			for _, k := range kids {
				w.line(c, fmt.Sprintf("connect %s %s", universe[0], k))
			}
			c.Count("star")
			w.line(c, fmt.Sprintf("%s %s", gen.Pick(r, []string{"exit", "killdate", "markdead"}), kids[r.Intn(len(kids))]))
			if r.Bool() {
				w.line(c, fmt.Sprintf("%s %s", gen.Pick(r, []string{"exit", "killdate", "markdead", "disconnect " + universe[0]}), kids[r.Intn(len(kids))]))
			}
		}
		steps := 3 + r.Intn(12)
		for s := 0; s < steps; s++ {
			op := gen.Pick(r, ops)
			// mostly agents that exist (so that events take effect), sometimes any id of the universe
			pick := func() string {
				if len(w.ts.Agents.Agents) > 0 && r.Chance(4, 5) {
					return w.ts.Agents.Agents[r.Intn(len(w.ts.Agents.Agents))].NameID
				}
				return gen.Pick(r, universe)
			}
			a, b := pick(), gen.Pick(r, universe)
			if r.Chance(1, 2) {
				b = pick()
			}
			if op == "disconnect" && r.Chance(2, 3) { // a real link
				if ag := w.ts.AgentInstance(int(mustHex(a))); ag != nil && len(ag.Pivots.Links) > 0 {
					b = ag.Pivots.Links[r.Intn(len(ag.Pivots.Links))].NameID
				}
			}
			c.Count(op)
			switch op {
			case "connect", "disconnect":
				if a == b {
					c.Count(op + ".self")
				}
				w.line(c, fmt.Sprintf("%s %s %s", op, a, b))
			default:
				w.line(c, fmt.Sprintf("%s %s", op, a))
			}
		}
	}
}
