package main

// C03 — what an agent reports is what the teamserver records and shows.
// Part 1: the parser primitives on reference-encoded buffers (the encoder below
// mirrors payloads/Demon/src/core/Package.c: big-endian integers,
// length-prefixed byte strings) with every residue of trailing bytes, and on
// raw buffers.

import (
	"bytes"
	"encoding/json"
	"encoding/base64"
	"encoding/binary"
	"fmt"
	"strconv"
	"strings"
	"unicode/utf16"

	"Havoc/pkg/agent"
	"Havoc/pkg/common"
	"Havoc/pkg/common/parser"

	"verifharness/internal/gen"
	"verifharness/internal/mockts"
)

func init() { commands["C03"] = runC03 }

type fld struct {
	kind byte // i q p b y
	u    uint64
	data []byte
}

func (f fld) String() string {
	switch f.kind {
	case 'y':
		return "y:" + hx(f.data)
	default:
		return string(f.kind) + ":" + strconv.FormatUint(f.u, 10)
	}
}

func encFields(fs []fld) []byte {
	var b []byte
	for _, f := range fs {
		switch f.kind {
		case 'i':
			b = binary.BigEndian.AppendUint32(b, uint32(f.u))
		case 'b':
			b = binary.BigEndian.AppendUint32(b, uint32(f.u))
		case 'q', 'p':
			b = binary.BigEndian.AppendUint64(b, f.u)
		case 'y':
			b = binary.BigEndian.AppendUint32(b, uint32(len(f.data)))
			b = append(b, f.data...)
		}
	}
	return b
}

func kindsOf(spec string) []parser.ReadType {
	var ts []parser.ReadType
	for _, c := range spec {
		switch c {
		case 'i':
			ts = append(ts, parser.ReadInt32)
		case 'q':
			ts = append(ts, parser.ReadInt64)
		case 'p':
			ts = append(ts, parser.ReadPointer)
		case 'b':
			ts = append(ts, parser.ReadBool)
		case 'y':
			ts = append(ts, parser.ReadBytes)
		}
	}
	return ts
}

// readAll runs the real parser over buf reading one value per kind.
func readAll(kinds string, buf []byte) string {
	return guard(func() string {
		p := parser.NewParser(append([]byte{}, buf...))
		can := p.CanIRead(kindsOf(kinds))
		var outs []string
		for _, c := range kinds {
			switch c {
			case 'i':
				outs = append(outs, "i:"+strconv.FormatUint(uint64(uint32(p.ParseInt32())), 10))
			case 'q':
				outs = append(outs, "q:"+strconv.FormatUint(uint64(p.ParseInt64()), 10))
			case 'p':
				outs = append(outs, "p:"+strconv.FormatUint(uint64(p.ParsePointer()), 10))
			case 'b':
				if p.ParseBool() {
					outs = append(outs, "b:1")
				} else {
					outs = append(outs, "b:0")
				}
			case 'y':
				outs = append(outs, "y:"+hx(p.ParseBytes()))
			}
		}
		c := "0"
		if can {
			c = "1"
		}
		rs := "-"
		if len(outs) > 0 {
			rs = strings.Join(outs, ",")
		}
		return fmt.Sprintf("%s %s %s", c, rs, hx(p.Buffer()))
	})
}

func genField(r *gen.Rng) fld {
	switch r.Intn(6) {
	case 0, 1:
		return fld{kind: 'i', u: uint64(r.U32())}
	case 2:
		return fld{kind: 'q', u: r.U64b()}
	case 3:
		return fld{kind: 'b', u: uint64(r.Intn(2))}
	case 4:
		return fld{kind: 'p', u: r.U64b()}
	default:
		n := gen.Pick(r, []int{0, 0, 1, 2, 3, 4, 5, 7, 8, 9, 16, 31, 64})
		if r.Chance(1, 20) {
			n = 200 + r.Intn(400)
		}
		return fld{kind: 'y', data: r.Bytes(n)}
	}
}

// genScalars yields Unicode scalar values incl. astral planes and NULs.
func genScalars(r *gen.Rng) []rune {
	n := r.Intn(12)
	rs := make([]rune, 0, n)
	if r.Chance(1, 5) { // one script only: Latin-1 (all code units have a zero high byte)
		for i := 0; i < n; i++ {
			if r.Chance(1, 3) {
				rs = append(rs, rune(0x80+r.Intn(0x80)))
			} else {
				rs = append(rs, rune(0x20+r.Intn(0x5f)))
			}
		}
		return rs
	}
	for i := 0; i < n; i++ {
		switch r.Intn(8) {
		case 0:
			rs = append(rs, rune(0x10000+r.Intn(0x100000)))
		case 1:
			rs = append(rs, rune(0xE000+r.Intn(0x2000-2)))
		case 2:
			rs = append(rs, rune(0x80+r.Intn(0x780)))
		case 3:
			rs = append(rs, rune(0x800+r.Intn(0xD000)))
		case 4:
			if r.Chance(1, 3) {
				rs = append(rs, 0)
			} else {
				rs = append(rs, rune(0x20+r.Intn(0x5f)))
			}
		default:
			rs = append(rs, rune(0x20+r.Intn(0x5f)))
		}
	}
	return rs
}

func cpsStr(rs []rune) string {
	if len(rs) == 0 {
		return "-"
	}
	var ss []string
	for _, c := range rs {
		ss = append(ss, strconv.Itoa(int(c)))
	}
	return strings.Join(ss, ",")
}

func utf16le(rs []rune) []byte {
	var b []byte
	for _, u := range utf16.Encode(rs) {
		b = append(b, byte(u), byte(u>>8))
	}
	return b
}

func c03Line(c *Ctx, in string) {
	parts := strings.Fields(in)
	switch parts[0] {
	case "reset", "sreset":
		c03sLine(c, "sreset")
	case "sreg", "sraw", "sget", "schk", "sdie":
		c03sLine(c, in)
	case "dec": // dec <spec> <rest> <buf>
		spec := parts[1]
		kinds := ""
		if spec != "-" {
			for _, f := range strings.Split(spec, ",") {
				kinds += f[:1]
			}
		}
		c.Emit("%s => %s", in, readAll(kinds, unhx(parts[3])))
	case "raw": // raw <kinds> <buf>
		k := parts[1]
		if k == "-" {
			k = ""
		}
		c.Emit("%s => %s", in, readAll(k, unhx(parts[2])))
	case "atleast": // atleast <n> <buf>
		n, _ := strconv.Atoi(parts[1])
		buf := unhx(parts[2])
		c.Emit("%s => %s", in, guard(func() string {
			p := parser.NewParser(append([]byte{}, buf...))
			d := p.ParseAtLeastBytes(n)
			return hx(d) + " " + hx(p.Buffer())
		}))
	case "utf16", "utf16raw": // utf16 <cps> <buf>  |  utf16raw <buf>
		buf := unhx(parts[len(parts)-1])
		c.Emit("%s => %s", in, guard(func() string { return hx([]byte(common.DecodeUTF16(buf))) }))
	case "wstr", "str": // wstr <buf>: ParseUTF16String / ParseString on a packet
		buf := unhx(parts[len(parts)-1])
		c.Emit("%s => %s", in, guard(func() string {
			p := parser.NewParser(append([]byte{}, buf...))
			var s string
			if parts[0] == "wstr" {
				s = p.ParseUTF16String()
			} else {
				s = p.ParseString()
			}
			return hx([]byte(s)) + " " + hx(p.Buffer())
		}))
	case "dirlist": // dirlist <explorer 0|1> <namehex:isdir:size,…>: the agent's directory listing; what the operator is shown per entry
		var ents [][3]string
		for _, e := range strings.Split(parts[2], ",") {
			f := strings.Split(e, ":")
			ents = append(ents, [3]string{string(unhx(f[0])), f[1], f[2]})
		}
		out := guard(func() string {
			ts := mockts.New()
			a := newAgent(0x03d10001, bytes.Repeat([]byte{3}, 32), bytes.Repeat([]byte{4}, 16))
			ts.Agents = append(ts.Agents, a)
			a.AddRequest(agent.Job{Command: agent.COMMAND_FS, RequestID: 0x3100})
			nf, nd := 0, 0
			fs := []fld{fI(agent.DEMON_COMMAND_FS_DIR), fI(uint32(parts[1][0] - '0')), fI(0), fW("C:\\x\\*"), fI(1)}
			var efs []fld
			var total uint64
			for _, e := range ents {
				sz, _ := strconv.ParseUint(e[2], 10, 64)
				isd := uint32(0)
				if e[1] == "1" {
					isd = 1
					nd++
				} else {
					nf++
					total += sz
				}
				efs = append(efs, fW(e[0]), fI(isd), fQ(sz), fI(7), fI(3), fI(2024), fI(59), fI(23))
			}
			fs = append(fs, fW("C:\\x\\*"), fI(uint32(nf)), fI(uint32(nd)), fQ(total))
			fs = append(fs, efs...)
			a.TaskDispatch(0x3100, agent.COMMAND_FS, newParser(encFields(fs)), ts)
			var shown []string
			if parts[1] == "1" {
				raw, err := base64.StdEncoding.DecodeString(ts.LastConsole["MiscData"])
				if err != nil {
					return "shown=UNREADABLE"
				}
				var m struct {
					Files []map[string]string
				}
				if json.Unmarshal(raw, &m) != nil {
					return "shown=UNREADABLE"
				}
				for _, f := range m.Files {
					k := "f"
					if f["Type"] == "dir" {
						k = "d"
					}
					shown = append(shown, hx([]byte(f["Name"]))+":"+k)
				}
			} else {
				for _, l := range strings.Split(ts.LastConsole["Output"], "\n") {
					if !strings.Contains(l, "/2024") {
						continue
					}
					fl := strings.Fields(l)
					k := "f"
					if strings.Contains(l, "<DIR>") {
						k = "d"
					}
					shown = append(shown, hx([]byte(fl[len(fl)-1]))+":"+k)
				}
			}
			if len(shown) == 0 {
				return "shown=-"
			}
			return "shown=" + strings.Join(shown, ",")
		})
		c.Emit("%s => %s", in, out)
	case "stripnull":
		buf := unhx(parts[1])
		c.Emit("%s => %s", in, guard(func() string { return hx([]byte(common.StripNull(string(buf)))) }))
	default:
		panic("C03: unknown op " + parts[0])
	}
}

func runC03(c *Ctx) {
	if c.Replay != "" {
		for _, l := range replayLines(c.Replay) {
			c03Line(c, l)
		}
		c03w.close()
		return
	}
	r := c.R
	defer func() { c03w.close() }()
	// long wide strings every run: a character beyond the BMP whose two code units sit on either side of unit index B
	// (B a power of two from 64 to 8192) -- decoders that work in blocks must not split the pair
	for B := 64; B <= 8192; B *= 2 {
		rs := make([]rune, 0, B+2)
		for j := 0; j < B-1; j++ {
			rs = append(rs, rune('a'+j%26))
		}
		rs = append(rs, 0x1F600, 'z')
		c.Count("utf16.long")
		c03Line(c, fmt.Sprintf("utf16 %s %s", cpsStr(rs), hx(utf16le(rs))))
	}
	for i := 0; c.Lines < c.N; i++ {
		if i%12 == 11 {
			genSessionCase(c)
			continue
		}
		if i%150 == 29 { // long wide strings: 100-9000 code units, characters beyond the BMP at random places and across a power-of-two unit index
			n := 100 + r.Intn(1<<uint(7+r.Intn(7)))
			B := 1 << uint(6+r.Intn(8))
			rs := make([]rune, 0, n)
			units := 0
			for units < n {
				switch {
				case units == B-1 || r.Chance(1, 40):
					rs = append(rs, rune(0x10000+r.Intn(0x100000)))
					units += 2
				case r.Chance(1, 10):
					rs = append(rs, rune(0x800+r.Intn(0xD000)))
					units++
				default:
					rs = append(rs, rune(0x20+r.Intn(0x5f)))
					units++
				}
			}
			c.Count("utf16.long")
			c03Line(c, fmt.Sprintf("utf16 %s %s", cpsStr(rs), hx(utf16le(rs))))
			continue
		}
		if i%40 == 7 { // a directory listing as the agent reports it, for the console and for the client's file explorer
			var es []string
			for k := 0; k < 1+r.Intn(6); k++ {
				es = append(es, fmt.Sprintf("%s:%d:%d", hx([]byte(gen.Pick(r, []string{"notes.txt", "Projects", "report.docx", "ünï", "a", "x.bin", "Dir2"})+fmt.Sprint(k))), r.Intn(2), gen.Pick(r, []int{0, 1, 999, 1 << 20, 1 << 33})))
			}
			c.Count("dirlist")
			c03Line(c, fmt.Sprintf("dirlist %d %s", r.Intn(2), strings.Join(es, ",")))
			continue
		}
		switch k := r.Intn(10); {
		case k < 4: // reference-encoded fields followed by every residue
			nf := 1 + r.Intn(6)
			var fs []fld
			var ss []string
			for j := 0; j < nf; j++ {
				f := genField(r)
				fs = append(fs, f)
				ss = append(ss, f.String())
			}
			rest := r.Bytes(i % 17)
			buf := append(encFields(fs), rest...)
			c.Count(fmt.Sprintf("dec.residue%d", len(rest)))
			c03Line(c, fmt.Sprintf("dec %s %s %s", strings.Join(ss, ","), hx(rest), hx(buf)))
		case k < 6: // raw / corrupted buffers
			nk := r.Intn(6)
			kinds := ""
			for j := 0; j < nk; j++ {
				kinds += string("iqpby"[r.Intn(5)])
			}
			var buf []byte
			switch r.Intn(4) {
			case 3: // a length prefix at a boundary of the 32-bit range (signed / unsigned readings differ), 0-12 bytes behind it
				kinds = gen.Pick(r, []string{"y", "yi", "yy", "iy", "yiq", "iyb"})
				for _, ch := range kinds {
					if ch == 'y' {
						buf = binary.BigEndian.AppendUint32(buf, gen.Pick(r, []uint32{0x80000000, 0xffffffff, 0x7fffffff, 0x80000001, 0xfffffffc, 0xfffffff8, 0xffff0000, 0x100, 3}))
						buf = append(buf, r.Bytes(r.Intn(5))...)
					} else {
						buf = append(buf, r.Bytes(gen.Pick(r, []int{4, 4, 8, 3}))...)
					}
				}
				buf = append(buf, r.Bytes(r.Intn(9))...)
				c.Count("raw.lenboundary")
			case 0:
				buf = r.Bytes(r.Intn(40))
			case 1: // valid then truncated
				var fs []fld
				for _, ch := range kinds {
					f := genField(r)
					f.kind = byte(ch)
					if ch == 'y' && f.data == nil {
						f.data = r.Bytes(r.Intn(9))
					}
					fs = append(fs, f)
				}
				buf = encFields(fs)
				if len(buf) > 0 {
					buf = buf[:r.Intn(len(buf)+1)]
				}
			default: // length field corruption
				var fs []fld
				for _, ch := range kinds {
					f := genField(r)
					f.kind = byte(ch)
					if ch == 'y' && f.data == nil {
						f.data = r.Bytes(r.Intn(9))
					}
					fs = append(fs, f)
				}
				buf = encFields(fs)
				if len(buf) > 0 {
					buf[r.Intn(len(buf))] ^= byte(1 << uint(r.Intn(8)))
				}
			}
			if kinds == "" {
				kinds = "-"
			}
			c.Count("raw")
			c03Line(c, fmt.Sprintf("raw %s %s", kinds, hx(buf)))
		case k < 7:
			buf := r.Bytes(r.Intn(24))
			n := r.Intn(30)
			c.Count("atleast")
			c03Line(c, fmt.Sprintf("atleast %d %s", n, hx(buf)))
		case k < 8: // UTF-16LE of scalar strings, odd/even lengths
			rs := genScalars(r)
			buf := utf16le(rs)
			if r.Chance(1, 3) {
				buf = append(buf, byte(r.U64()))
				c.Count("utf16.odd")
			} else {
				c.Count("utf16.even")
			}
			c03Line(c, fmt.Sprintf("utf16 %s %s", cpsStr(rs), hx(buf)))
		case k < 9: // arbitrary code units incl. lone surrogates
			buf := r.Bytes(r.Intn(14))
			if r.Bool() && len(buf) >= 2 {
				j := r.Intn(len(buf)/2) * 2
				buf[j+1] = byte(0xD8 + r.Intn(8))
			}
			c.Count("utf16raw")
			c03Line(c, fmt.Sprintf("utf16raw %s", hx(buf)))
		default: // packet string fields
			rs := genScalars(r)
			op := "wstr"
			var d []byte
			if r.Bool() {
				d = utf16le(append(rs, 0))
			} else {
				op = "str"
				d = append([]byte(string(rs)), 0)
			}
			buf := encFields([]fld{{kind: 'y', data: d}})
			buf = append(buf, r.Bytes(r.Intn(6))...)
			c.Count(op)
			c03Line(c, fmt.Sprintf("%s %s", op, hx(buf)))
		}
	}
}
