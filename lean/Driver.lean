import HavocVerif.Driver.C03
/-
  Line-protocol driver.  `driver <property> < ops.txt` prints one verdict per
  input line, prefixed with the 1-based line number.
-/
open Havoc

def stepFor (prop : String) : Option (Line → Verdict) :=
  match prop with
  | "C03" => some DriverC03.step
  | _ => none

partial def loop (h : IO.FS.Stream) (out : IO.FS.Stream) (f : Line → Verdict) (n : Nat) : IO Unit := do
  let line ← h.getLine
  if line.isEmpty then return ()
  let t := line.trimAscii.toString
  if t.isEmpty || t.startsWith "#" then
    loop h out f n
  else
    let v := match parseLine t with
      | some l => f l
      | none => Verdict.bad "unparsable line"
    out.putStrLn s!"{n} {v.render}"
    loop h out f (n + 1)

def main (args : List String) : IO UInt32 := do
  match args with
  | [prop] =>
    match stepFor prop with
    | some f =>
      let stdin ← IO.getStdin
      let stdout ← IO.getStdout
      loop stdin stdout f 1
      return 0
    | none => IO.eprintln s!"unknown property {prop}"; return 2
  | _ => IO.eprintln "usage: driver <property> < ops.txt"; return 2
