import HavocVerif.Driver.C01
import HavocVerif.Driver.C02
import HavocVerif.Driver.C03
import HavocVerif.Driver.C04
import HavocVerif.Driver.C05
import HavocVerif.Driver.C06
import HavocVerif.Driver.C07
import HavocVerif.Driver.C08
import HavocVerif.Driver.C09
import HavocVerif.Driver.C10
import HavocVerif.Driver.C11
import HavocVerif.Driver.C12
import HavocVerif.Driver.C13
import HavocVerif.Driver.C14
import HavocVerif.Driver.C15
import HavocVerif.Driver.C16
import HavocVerif.Driver.C17
import HavocVerif.Driver.C18
import HavocVerif.Driver.C19
import HavocVerif.Driver.C20
/-
  Line-protocol driver.  `driver <property> < ops.txt` prints one verdict per
  input line, prefixed with the 1-based line number.  A line `reset` starts a
  fresh model state (new case).
-/
open Havoc

structure Stepper where
  σ : Type
  init : σ
  step : σ → Line → σ × Verdict

def stateless (f : Line → Verdict) : Stepper := ⟨Unit, (), fun _ l => ((), f l)⟩

/-- C02 also hands tasks to agents behind pivots: lines `p8.<op> …` of a C02 run are the pivot-chain operations of the
    C08 driver (every hop reads its layer with its own key, the last frame is the task under the target's key); a failure
    there is a C02 failure: the task did not reach the agent as issued -/
def c02Step (st : DriverC02.St × DriverC08.St) (l : Line) : (DriverC02.St × DriverC08.St) × Verdict :=
  if l.op.startsWith "p8." then
    let (s8, v) := DriverC08.step st.2 { l with op := (l.op.drop 3).toString }
    let v' := match v with
      | .specFail _ d => Verdict.specFail "C02.pivot-wrap" d
      | v => v
    ((st.1, s8), v')
  else
    let (s2, v) := DriverC02.step st.1 l
    ((s2, st.2), v)

def stepperFor (prop : String) : Option Stepper :=
  match prop with
  | "C01" => some (stateless DriverC01.step)
  | "C02" => some ⟨DriverC02.St × DriverC08.St, ({}, {}), c02Step⟩
  | "C03" => some ⟨DriverC03.SSt, {}, DriverC03.sstep⟩
  | "C04" => some ⟨DriverC04.St, {}, DriverC04.step⟩
  | "C05" => some ⟨DriverC05.St, {}, DriverC05.step⟩
  | "C06" => some ⟨DriverC06.St, {}, DriverC06.step⟩
  | "C07" => some ⟨DriverC07.St, {}, DriverC07.step⟩
  | "C08" => some ⟨DriverC08.St, {}, DriverC08.step⟩
  | "C09" => some ⟨Forest, {}, DriverC09.step⟩
  | "C10" => some ⟨DriverC10.St, {}, DriverC10.step⟩
  | "C11" => some ⟨DriverC11.St, {}, DriverC11.step⟩
  | "C12" => some ⟨DriverC12.St, {}, DriverC12.step⟩
  | "C13" => some (stateless DriverC13.step)
  | "C14" => some (stateless DriverC14.step)
  | "C15" => some ⟨DriverC15.St, {}, DriverC15.step⟩
  | "C16" => some ⟨DriverC16.St, {}, DriverC16.step⟩
  | "C17" => some (stateless DriverC17.step)
  | "C18" => some (stateless DriverC18.step)
  | "C19" => some (stateless DriverC19.step)
  | "C20" => some (stateless DriverC20.step)
  | _ => none

/-- a `PANIC:…` in the implementation's output that the property's own step could not read: the code under test
    panicked inside the harness's guard.  That is a failure of the property's "never a crash" reading, with this line as
    the replay - not an unreadable line. -/
def panicFallback (prop : String) (l : Line) (v : Verdict) : Verdict :=
  match v with
  | .bad _ =>
    match l.impl.find? (fun t => (t.splitOn "PANIC:").length > 1) with
    | some t => .specFail (prop ++ ".panic") s!"{l.op}: the code under test panicked: {t.take 200}"
    | none => v
  | _ => v

partial def loop (prop : String) (h : IO.FS.Stream) (out : IO.FS.Stream) (S : Stepper) (st : S.σ) (n : Nat) : IO Unit := do
  let line ← h.getLine
  if line.isEmpty then return ()
  let t := line.trimAscii.toString
  if t.isEmpty || t.startsWith "#" then
    loop prop h out S st n
  else if t == "reset" || t.startsWith "reset " then
    out.putStrLn s!"{n} ok"
    loop prop h out S S.init (n + 1)
  else
    match parseLine t with
    | some l =>
      let (st', v0) := S.step st l
      let v := panicFallback prop l v0
      out.putStrLn s!"{n} {(v.render.replace "\n" " ")}"
      loop prop h out S st' (n + 1)
    | none =>
      out.putStrLn s!"{n} {(Verdict.bad "unparsable line").render}"
      loop prop h out S st (n + 1)

def main (args : List String) : IO UInt32 := do
  match args with
  | [prop] =>
    match stepperFor prop with
    | some S =>
      let stdin ← IO.getStdin
      let stdout ← IO.getStdout
      loop prop stdin stdout S S.init 1
      return 0
    | none => IO.eprintln s!"unknown property {prop}"; return 2
  | _ => IO.eprintln "usage: driver <property> < ops.txt"; return 2
