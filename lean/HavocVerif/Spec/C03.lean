import HavocVerif.Model.Parser
import HavocVerif.Model.Utf16
/-
  Spec C03 (parser part) — executable predicates over *observed* behaviour:
  what a reader returned for a reference-encoded buffer.  Nothing here mentions
  how the parser works.
-/
namespace Havoc.SpecC03
open Havoc.Parser

/-- observation of a run of readers over a buffer: CanIRead answer, values, remaining bytes -/
structure ReadObs where
  can : Bool
  vals : List Field
  rest : Bytes
  deriving DecidableEq, Repr

/-- Fields encoded the way the Demon encodes them, followed by anything: the
    pre-flight check says yes, each value comes out unchanged, the residue is untouched. -/
def decodeOk (fs : List Field) (rest : Bytes) (o : ReadObs) : Bool :=
  o.can && o.vals == fs && o.rest == rest

/-- A wide string sent by the agent is shown unaltered (as the UTF-8 of the same scalars). -/
def utf16Ok (cs : List Nat) (shown : Bytes) : Bool := shown == utf8 cs

/-- executable form of "the packet holds the fields" (Spec C03): walk the buffer, fixed widths
    for the integer kinds, an unsigned big-endian 32-bit length and that many bytes for a byte string -/
def holdsFieldsB : List ReadType → Bytes → Bool
  | [], _ => true
  | .int32 :: ts, buf => decide (4 ≤ buf.length) && holdsFieldsB ts (buf.drop 4)
  | .bool :: ts, buf => decide (4 ≤ buf.length) && holdsFieldsB ts (buf.drop 4)
  | .int64 :: ts, buf => decide (8 ≤ buf.length) && holdsFieldsB ts (buf.drop 8)
  | .pointer :: ts, buf => decide (8 ≤ buf.length) && holdsFieldsB ts (buf.drop 8)
  | .bytes :: ts, buf =>
    decide (4 ≤ buf.length) && decide (4 + beNat (buf.take 4) ≤ buf.length)
      && holdsFieldsB ts (buf.drop (4 + beNat (buf.take 4)))


end Havoc.SpecC03
