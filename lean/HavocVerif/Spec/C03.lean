import HavocVerif.Model.Parser
import HavocVerif.Model.Utf16
/-
  Spec C03 (parser part) — executable predicates over *observed* behaviour:
  what a reader returned for a reference-encoded buffer.  Nothing here mentions
  how the parser works.
-/
namespace Havoc.SpecC03

/-- observation of a run of readers over a buffer: CanIRead answer, values, remaining bytes -/
structure ReadObs where
  can : Bool
  vals : List Field
  rest : Bytes
  deriving DecidableEq, Repr

/-- Fields encoded the way the Demon encodes them, followed by anything: the
    pre-flight check says yes, each value comes out unchanged, the residue is untouched. -/
def decodeOk (fs : List Field) (rest : Bytes) (o : ReadObs) : Bool :=
  o.can && o.vals == fs && o.rest == rest

/-- A wide string sent by the agent is shown unaltered (as the UTF-8 of the same scalars). -/
def utf16Ok (cs : List Nat) (shown : Bytes) : Bool := shown == utf8 cs

end Havoc.SpecC03
