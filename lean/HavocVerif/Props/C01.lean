import HavocVerif.Lemmas.ParserGo
import HavocVerif.Model.Locks
import HavocVerif.Model.Ingress
/-
  C01 — Untrusted listener traffic can never crash or wedge the teamserver.
  What is proved here: the parser primitives never fault on any buffer (every Go slice
  expression in parser.go is in bounds), the header / registration path rejects without
  touching the session table, the package loop terminates within the buffer length, and
  every mutex-using function on the agent-facing path is lock-balanced (regenerated).
  TaskDispatch's per-command bodies are covered by correspondence, not by proof
  (DESIGN.md §5 C01, limits).
-/
namespace Havoc.C01
open Havoc

/-- no reader of parser.go panics, on any buffer, in either byte order -/
theorem parser_total (p : Parser) (n : Nat) (ts : List ReadType) :
    (∃ v, ParserGo.parseInt32 p = .ok v) ∧ (∃ v, ParserGo.parseInt64 p = .ok v) ∧
    (∃ v, ParserGo.parseBytes p = .ok v) ∧ (∃ v, ParserGo.parseAtLeastBytes p n = .ok v) ∧
    (∃ v, ParserGo.canIReadFrom p ts 0 = .ok v) :=
  ⟨⟨_, parseInt32_refines p⟩, ⟨_, parseInt64_refines p⟩, ⟨_, parseBytes_refines p⟩,
   ⟨_, parseAtLeastBytes_refines p n⟩, ⟨_, canIReadFrom_refines p ts 0⟩⟩

/-- readers never consume more than the buffer holds -/
theorem parseInt32_shrinks (p : Parser) : (Parser.parseInt32 p).2.length ≤ p.length := by
  unfold Parser.parseInt32
  split
  · simp [Parser.length]
  · exact Nat.le_refl _

theorem parseInt32_length (p : Parser) (h : p.length ≥ 4) : (Parser.parseInt32 p).2.length = p.length - 4 := by
  unfold Parser.parseInt32
  have h' : 4 ≤ p.buf.length := by simpa [Parser.length] using h
  simp [Parser.length, h']

theorem parseBytes_shrinks (p : Parser) : (Parser.parseBytes p).2.length ≤ p.length := by
  unfold Parser.parseBytes
  split
  · have := parseInt32_shrinks p
    generalize Parser.parseInt32 p = r at this
    obtain ⟨size, p1⟩ := r
    simp only at this ⊢
    split
    · simp [Parser.length]
    · simp [Parser.length] at this ⊢; omega
  · exact Nat.le_refl _

theorem parseHeader_length (body : Bytes) (h : Header) (he : parseHeader body = some h) :
    body.length = 12 + h.data.length ∧ h.data.length > 0 := by
  unfold parseHeader at he
  simp only at he
  split at he
  · rename_i h0
    have l1 := parseInt32_length ⟨body, true⟩ (by simp [Parser.length] at h0 ⊢; omega)
    split at he
    · rename_i h1
      have l2 := parseInt32_length (Parser.parseInt32 ⟨body, true⟩).2 (by omega)
      split at he
      · rename_i h2
        have l3 := parseInt32_length (Parser.parseInt32 (Parser.parseInt32 ⟨body, true⟩).2).2 (by omega)
        simp only [Option.some.injEq] at he
        rw [← he]
        simp only [Parser.length] at l1 l2 l3 h0 h1 h2 ⊢
        omega
      · simp at he
    · simp at he
  · simp at he

theorem handleInit_rejected (ksFor : Bytes → Bytes → KeyStream) (s : Sessions) (id : Nat) (buf : Bytes)
    (h : (handleInit ksFor s id buf).2 = .rejected) : (handleInit ksFor s id buf).1 = s := by
  unfold handleInit at h ⊢
  cases hf : s.find? (·.id == id) with
  | some old => simp [hf]
  | none =>
    cases hp : parseRegister id ksFor buf with
    | some sess => simp [hf, hp] at h
    | none => simp [hf, hp]

theorem unknownDemon_rejected (ksFor : Bytes → Bytes → KeyStream) (s : Sessions) (id : Nat) (data : Bytes)
    (h : (unknownDemon ksFor s id data).2 = .rejected) : (unknownDemon ksFor s id data).1 = s := by
  unfold unknownDemon at h ⊢
  simp only at h ⊢
  by_cases hc : (Parser.parseInt32 ⟨data, true⟩).1 = Gen.Consts.DEMON_INIT
  · simp only [hc, if_true] at h ⊢
    have key := handleInit_rejected ksFor s id
      (Parser.parseInt32 (Parser.parseInt32 ⟨data, true⟩).2).2.buf
    generalize handleInit ksFor s id _ = r at h key ⊢
    obtain ⟨s', res⟩ := r
    cases res with
    | registered r => simp at h
    | reconnected r => simp at h
    | rejected => simpa using key rfl
  · simp only [hc, if_false]

/-- a request that is rejected leaves the session table untouched -/
theorem reject_pure (ksFor : Bytes → Bytes → KeyStream) (s : Sessions) (svc : Nat → Bool) (body : Bytes)
    (h : (ingress ksFor s svc body).2 = .rejected) : (ingress ksFor s svc body).1 = s := by
  unfold ingress at h ⊢
  cases hh : parseHeader body with
  | none => simp [hh]
  | some hd =>
    simp only [hh] at h ⊢
    by_cases h4 : hd.data.length < 4
    · simp [h4]
    · simp only [h4, if_false] at h ⊢
      by_cases hm : hd.magic = Gen.Consts.DEMON_MAGIC_VALUE
      · simp only [hm, if_true] at h ⊢
        by_cases he : s.exist hd.agentId = true
        · simp [he]
        · simp only [he] at h ⊢
          exact unknownDemon_rejected ksFor s _ _ h
      · simp only [hm, if_false] at h ⊢
        by_cases hs : svc hd.magic = true <;> simp [hs]

/-- short or foreign requests are rejected: fewer than 16 bytes never reach a handler -/
theorem short_rejected (ksFor : Bytes → Bytes → KeyStream) (s : Sessions) (svc : Nat → Bool) (body : Bytes)
    (h : body.length < 16) : ingress ksFor s svc body = (s, .rejected) := by
  unfold ingress
  split
  · rfl
  · rename_i hd heq
    have := parseHeader_length body hd heq
    have : hd.data.length < 4 := by omega
    simp [this]

/-- an unknown magic value with no matching service registered is rejected -/
theorem foreign_magic_rejected (ksFor : Bytes → Bytes → KeyStream) (s : Sessions) (body : Bytes) :
    (ingress ksFor s (fun _ => false) body).2 = .rejected ∨
      ∃ h, parseHeader body = some h ∧ h.magic = Gen.Consts.DEMON_MAGIC_VALUE := by
  unfold ingress
  split
  · left; rfl
  · rename_i h heq
    by_cases hm : h.magic = Gen.Consts.DEMON_MAGIC_VALUE
    · right; exact ⟨h, heq, hm⟩
    · left; simp only [hm, if_false]; split <;> simp

/-- the package loop of handleDemonAgent terminates: fuel = buffer length + 1 is never
    exhausted (each iteration consumes at least the 8 bytes of command and request id) -/
theorem package_loop_terminates (p : Parser) (n : Nat) :
    ∀ fuel, fuel > p.length → ∃ k, packageLoop fuel p n = some k := by
  intro fuel
  induction fuel generalizing p n with
  | zero => intro h; omega
  | succ fuel ih =>
    intro hf
    unfold packageLoop
    by_cases hc : p.canIRead [.int32, .int32] = true
    · simp only [hc, if_true]
      have h8 : p.length ≥ 8 := by
        simp only [Parser.canIRead, Parser.canIReadFrom] at hc
        split at hc
        · simp at hc
        · split at hc
          · simp at hc
          · omega
      have e1 := parseInt32_length p (by omega)
      have e2 := parseInt32_length (Parser.parseInt32 p).2 (by omega)
      split
      · exact ih _ _ (by omega)
      · have e3 := parseBytes_shrinks (Parser.parseInt32 (Parser.parseInt32 p).2).2
        exact ih _ _ (by omega)
    · simp only [hc]; exact ⟨n, rfl⟩

/-- the same on every control-flow path separately (regenerated `Gen.LockPaths`): no early return, branch or case of
    any of these functions leaves a mutex held that a `defer` does not release -/
theorem locks_balanced_every_path : pathsUnbalancedIn ["agent", "handlers", "socks"] = [] := by decide

/-- regenerated: every function of pkg/agent, pkg/handlers and pkg/socks that takes a mutex
    releases it on every return path (explicitly before, or by defer) -/
theorem locks_balanced : unbalancedIn ["agent", "handlers", "socks"] = [] := by decide

/-- meaning of the check: a balanced event sequence leaves nothing held at its end -/
theorem balanced_sound (evs : List Gen.LockFacts.Ev) (h : balanced evs = true) : heldAtExit evs = [] := by
  unfold balanced at h
  unfold heldAtExit
  simp only [Bool.and_eq_true, List.all_eq_true] at h
  simp only [List.filter_eq_nil_iff]
  intro m hm
  have := h.2 m hm
  simpa using this

/-! non-vacuity -/
example : balanced [.lock "m", .ret, .unlock "m"] = false := by decide
example : balanced [.lock "m", .deferUnlock "m", .ret, .ret] = true := by decide
example : (ingress (fun _ _ _ => 0) [] (fun _ => false) [0, 0, 0, 20, 0xDE, 0xAD, 0xBE, 0xEF, 0, 0, 0, 1, 0, 0, 0, 5, 1, 2, 3, 4]).2
    = .rejected := by decide

end Havoc.C01
