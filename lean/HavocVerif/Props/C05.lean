import HavocVerif.Model.Tasks
/-
  C05 — Only callbacks to outstanding tasks have any effect.
-/
namespace Havoc.C05
open Havoc

/-- An unsolicited, non-exempt callback changes nothing: no effect, no state change. -/
theorem unsolicited_inert (sendLogs : Bool) (s : TState) (a r c : Nat) (final : Bool)
    (h : isKnown sendLogs (s.tasks a) r c = false) :
    tstep sendLogs s (.callback a r c final) = s := by
  simp [tstep, h]

/-- how many times `r` was issued to `a` minus how many final callbacks consumed it -/
def outstanding (s : TState) (a r : Nat) : Nat := (s.tasks a).count r

/-- Every effect ever produced, over any history on any number of agents, was produced
    for an exempt kind or while the id was outstanding for that same agent. -/
theorem effect_implies_known (sendLogs : Bool) (ops : List TOp) :
    ∀ (s : TState), ∀ e ∈ (ops.foldl (tstep sendLogs) s).effects,
      e ∈ s.effects ∨ exemptCmd sendLogs e.cmd = true ∨
        ∃ pre : List TOp, ∃ post : List TOp, ∃ fin : Bool, ops = pre ++ TOp.callback e.agent e.req e.cmd fin :: post ∧
          ((pre.foldl (tstep sendLogs) s).tasks e.agent).contains e.req = true := by
  induction ops with
  | nil => intro s e he; left; simpa using he
  | cons op ops ih =>
    intro s e he
    simp only [List.foldl_cons] at he
    rcases ih (tstep sendLogs s op) e he with h | h | ⟨pre, post, fin, hops, hk⟩
    · -- effect produced by this very step, or older
      cases op with
      | issue a r => left; simpa [tstep] using h
      | callback a r c final =>
        by_cases hkn : isKnown sendLogs (s.tasks a) r c = true
        · simp only [tstep, hkn, if_true, List.mem_append, List.mem_singleton] at h
          rcases h with h | h
          · left; exact h
          · subst h
            simp only [isKnown, Bool.or_eq_true] at hkn
            rcases hkn with hx | hc
            · right; left; exact hx
            · right; right; exact ⟨[], ops, final, by simp, by simpa using hc⟩
        · left; simpa [tstep, hkn] using h
    · right; left; exact h
    · right; right
      exact ⟨op :: pre, post, fin, by simp [hops], by simpa using hk⟩

/-- ids are per agent: issuing to one agent never makes the id known to another -/
theorem issue_other_agent (sendLogs : Bool) (s : TState) (a b r : Nat) (h : a ≠ b) :
    (tstep sendLogs s (.issue a r)).tasks b = s.tasks b := by
  simp [tstep, Ne.symm h]

/-- once the final callback has been processed the id is forgotten (one outstanding copy) -/
theorem completed_forgotten (sendLogs : Bool) (s : TState) (a r c : Nat)
    (hk : isKnown sendLogs (s.tasks a) r c = true) (h1 : (s.tasks a).count r ≤ 1)
    (c' : Nat) (hne : exemptCmd sendLogs c' = false) :
    isKnown sendLogs ((tstep sendLogs s (.callback a r c true)).tasks a) r c' = false := by
  have hs : (tstep sendLogs s (.callback a r c true)).tasks a = (s.tasks a).erase r := by
    simp [tstep, hk, requestCompleted]
  rw [hs]
  simp only [isKnown, hne, Bool.false_or]
  rw [List.contains_eq_mem, decide_eq_false_iff_not, ← List.count_pos_iff, List.count_erase_self]
  omega

/-- a non-final callback leaves the id outstanding -/
theorem nonfinal_keeps (sendLogs : Bool) (s : TState) (a r c : Nat) :
    (tstep sendLogs s (.callback a r c false)).tasks a = s.tasks a := by
  simp only [tstep]; split <;> simp

/-- regenerated: the exempt kinds are exactly COMMAND_SOCKET, COMMAND_PIVOT and (with log
    forwarding) BEACON_OUTPUT, with the ids of commands.go -/
theorem exempt_ids : Gen.Consts.COMMAND_SOCKET = 2540 ∧ Gen.Consts.COMMAND_PIVOT = 2520 ∧
    Gen.Consts.BEACON_OUTPUT = 94 := by decide

/-! non-vacuity -/
example : (trun false [.issue 1 7, .callback 2 7 11 true, .callback 1 7 11 true, .callback 1 7 11 true]).effects
    = [⟨1, 7, 11⟩] := by decide

end Havoc.C05
