import HavocVerif.Model.Tasks
import HavocVerif.Gen.Dispatch
/-
  C05 — Only callbacks to outstanding tasks have any effect.
-/
namespace Havoc.C05
open Havoc

/-- An unsolicited, non-exempt callback changes nothing: no effect, no state change. -/
theorem unsolicited_inert (sendLogs : Bool) (s : TState) (a r c : Nat) (final : Bool)
    (h : isKnown sendLogs (s.tasks a) r c = false) :
    tstep sendLogs s (.callback a r c final) = s := by
  simp [tstep, h]

/-- how many times `r` was issued to `a` minus how many final callbacks consumed it -/
def outstanding (s : TState) (a r : Nat) : Nat := (s.tasks a).count r

/-- Every effect ever produced, over any history on any number of agents, was produced
    for an exempt kind or while the id was outstanding for that same agent. -/
theorem effect_implies_known (sendLogs : Bool) (ops : List TOp) :
    ∀ (s : TState), ∀ e ∈ (ops.foldl (tstep sendLogs) s).effects,
      e ∈ s.effects ∨ exemptCmd sendLogs e.cmd = true ∨
        ∃ pre : List TOp, ∃ post : List TOp, ∃ fin : Bool, ops = pre ++ TOp.callback e.agent e.req e.cmd fin :: post ∧
          ((pre.foldl (tstep sendLogs) s).tasks e.agent).contains e.req = true := by
  induction ops with
  | nil => intro s e he; left; simpa using he
  | cons op ops ih =>
    intro s e he
    simp only [List.foldl_cons] at he
    rcases ih (tstep sendLogs s op) e he with h | h | ⟨pre, post, fin, hops, hk⟩
    · -- effect produced by this very step, or older
      cases op with
      | issue a r => left; simpa [tstep] using h
      | callback a r c final =>
        by_cases hkn : isKnown sendLogs (s.tasks a) r c = true
        · simp only [tstep, hkn, if_true, List.mem_append, List.mem_singleton] at h
          rcases h with h | h
          · left; exact h
          · subst h
            simp only [isKnown, Bool.or_eq_true] at hkn
            rcases hkn with hx | hc
            · right; left; exact hx
            · right; right; exact ⟨[], ops, final, by simp, by simpa using hc⟩
        · left; simpa [tstep, hkn] using h
    · right; left; exact h
    · right; right
      exact ⟨op :: pre, post, fin, by simp [hops], by simpa using hk⟩

/-- ids are per agent: issuing to one agent never makes the id known to another -/
theorem issue_other_agent (sendLogs : Bool) (s : TState) (a b r : Nat) (h : a ≠ b) :
    (tstep sendLogs s (.issue a r)).tasks b = s.tasks b := by
  simp [tstep, Ne.symm h]

/-- once the final callback has been processed the id is forgotten (one outstanding copy) -/
theorem completed_forgotten (sendLogs : Bool) (s : TState) (a r c : Nat)
    (hk : isKnown sendLogs (s.tasks a) r c = true) (h1 : (s.tasks a).count r ≤ 1)
    (c' : Nat) (hne : exemptCmd sendLogs c' = false) :
    isKnown sendLogs ((tstep sendLogs s (.callback a r c true)).tasks a) r c' = false := by
  have hs : (tstep sendLogs s (.callback a r c true)).tasks a = (s.tasks a).erase r := by
    simp [tstep, hk, requestCompleted]
  rw [hs]
  simp only [isKnown, hne, Bool.false_or]
  rw [List.contains_eq_mem, decide_eq_false_iff_not, ← List.count_pos_iff, List.count_erase_self]
  omega

/-- a non-final callback leaves the id outstanding -/
theorem nonfinal_keeps (sendLogs : Bool) (s : TState) (a r c : Nat) :
    (tstep sendLogs s (.callback a r c false)).tasks a = s.tasks a := by
  simp only [tstep]; split <;> simp

/-- regenerated: the exempt kinds are exactly COMMAND_SOCKET, COMMAND_PIVOT and (with log
    forwarding) BEACON_OUTPUT, with the ids of commands.go -/
theorem exempt_ids : Gen.Consts.COMMAND_SOCKET = 2540 ∧ Gen.Consts.COMMAND_PIVOT = 2520 ∧
    Gen.Consts.BEACON_OUTPUT = 94 := by decide

/-! ### The gate as written: statement-level model, refinement, and the regenerated source lines -/

theorem knownLoop_eq_contains (ts : List Nat) (r : Nat) : knownLoop ts r = ts.contains r := by
  induction ts with
  | nil => rfl
  | cons t ts ih =>
    by_cases h : t = r
    · simp [knownLoop, h]
    · have h' : ¬ r = t := fun e => h e.symm
      simp [knownLoop, h, h', ih]

/-- `IsKnownRequestID`, statement by statement, decides exactly what the model's `isKnown` decides -/
theorem isKnownGo_refines (sendLogs : Bool) (ts : List Nat) (r c : Nat) :
    isKnownGo sendLogs ts r c = isKnown sendLogs ts r c := by
  unfold isKnownGo isKnown exemptCmd
  rw [knownLoop_eq_contains]
  by_cases h1 : c = Gen.Consts.COMMAND_SOCKET
  · simp [h1]
  · by_cases h2 : c = Gen.Consts.COMMAND_PIVOT
    · simp [h2]
    · by_cases h3 : (sendLogs && c == Gen.Consts.BEACON_OUTPUT) = true
      · simp [h1, h2, h3]
      · simp [h1, h2, h3]

/-- `RequestCompleted`, as the slice expression it is, removes the first occurrence and nothing else -/
theorem completedGo_refines (ts : List Nat) (r : Nat) : completedGo ts r = requestCompleted ts r := by
  unfold completedGo requestCompleted
  induction ts with
  | nil => rfl
  | cons t ts ih =>
    by_cases h : t = r
    · simp [firstIdx, h]
    · have hb : (t == r) = false := by simpa using h
      simp only [firstIdx, hb, List.erase_cons]
      cases hf : firstIdx ts r with
      | none => simp [hf] at ih ⊢; exact ih
      | some i => simp [hf] at ih ⊢; exact ih

/-- ids the loop does not stop at are untouched, in order: completion never retires another task's id -/
theorem completedGo_keeps_others (ts : List Nat) (r q : Nat) (h : q ≠ r) :
    (completedGo ts r).count q = ts.count q := by
  rw [completedGo_refines]; unfold requestCompleted
  exact List.count_erase_of_ne h

/-- `AddRequest` appends: the id becomes known, nothing else changes -/
theorem addRequestGo_known (sendLogs : Bool) (ts : List Nat) (r c : Nat) :
    isKnownGo sendLogs (addRequestGo ts r) r c = true := by
  rw [isKnownGo_refines]; simp [isKnown, addRequestGo]

/-- regenerated from agent.go on every run: the three functions are, statement for statement, the lines the
    statement-level model above transcribes (`knownLoop`, `isKnownGo`, `firstIdx`/`completedGo`, `addRequestGo`) -/
theorem gate_source_transcribed :
    Gen.Dispatch.src_IsKnownRequestID =
      ["IsKnownRequestID(teamserver TeamServer, RequestID uint32, CommandID uint32) bool",
       "switch CommandID { case COMMAND_SOCKET: return true case COMMAND_PIVOT: return true }",
       "if teamserver.SendLogs() && CommandID == BEACON_OUTPUT { return true }",
       "a.JobMtx.Lock()",
       "defer a.JobMtx.Unlock()",
       "for i := range a.Tasks { if a.Tasks[i].RequestID == RequestID { return true } }",
       "return false"] ∧
    Gen.Dispatch.src_AddRequest =
      ["AddRequest(job Job) []Job",
       "a.JobMtx.Lock()",
       "defer a.JobMtx.Unlock()",
       "a.Tasks = append(a.Tasks, job)",
       "return a.Tasks"] ∧
    Gen.Dispatch.src_RequestCompleted =
      ["RequestCompleted(RequestID uint32)",
       "a.JobMtx.Lock()",
       "defer a.JobMtx.Unlock()",
       "for i := range a.Tasks { if a.Tasks[i].RequestID == RequestID { a.Tasks = append(a.Tasks[:i], a.Tasks[i+1:]...) break } }"] :=
  ⟨rfl, rfl, rfl⟩

/-- regenerated from demons.go: in `TaskDispatch` nothing but the computation of the agent's numeric id (for the log
    line) is evaluated before the gate, the gate tests this callback's own id and command, its refusing branch ends
    in a bare `return`, and the command switch comes only after it -/
theorem gate_first :
    Gen.Dispatch.dispatchSig = "(RequestID uint32, CommandID uint32, Parser *parser.Parser, teamserver TeamServer)" ∧
    Gen.Dispatch.preSwitch = ["var NameID, _ = strconv.ParseInt(a.NameID, 16, 64)", "AgentID := int(NameID)", "gate"] ∧
    Gen.Dispatch.preGateCalls = ["ParseInt", "int"] ∧
    Gen.Dispatch.gateCond = "a.IsKnownRequestID(teamserver, RequestID, CommandID) == false" ∧
    Gen.Dispatch.gateBodyEndsInReturn = true ∧
    Gen.Dispatch.switchTag = "CommandID" :=
  ⟨rfl, rfl, rfl, rfl, rfl, rfl⟩

/-- regenerated: every completion in pkg/agent is `a.RequestCompleted(RequestID)` inside `TaskDispatch`, where neither
    `a` nor `RequestID` is ever re-bound: a callback can only retire the id it carries, on the agent it came from;
    and no code outside the three gate functions writes an agent's `Tasks` -/
theorem completion_retires_own_id :
    Gen.Dispatch.completedCalls = [("TaskDispatch", "a|RequestID")] ∧
    Gen.Dispatch.rebound = [] ∧ Gen.Dispatch.tasksWrites = [] :=
  ⟨rfl, rfl, rfl⟩

/-- regenerated: the command kinds whose handlers never retire an id are the pure output kinds -/
theorem silent_cases :
    (Gen.Dispatch.caseCompletes.filter (·.2 == 0)).map (·.1) =
      ["COMMAND_GET_JOB", "COMMAND_OUTPUT", "BEACON_OUTPUT", "COMMAND_PACKAGE_DROPPED", "default"] := by decide

example : completedGo [4, 7, 9, 7] 7 = [4, 9, 7] ∧ completedGo [4, 9] 7 = [4, 9] := by decide
example : isKnownGo false [4, 7] 7 11 = true ∧ isKnownGo false [4, 7] 8 11 = false ∧
    isKnownGo false [] 8 Gen.Consts.COMMAND_SOCKET = true ∧ isKnownGo false [] 8 Gen.Consts.BEACON_OUTPUT = false ∧
    isKnownGo true [] 8 Gen.Consts.BEACON_OUTPUT = true := by decide

/-! non-vacuity -/
example : (trun false [.issue 1 7, .callback 2 7 11 true, .callback 1 7 11 true, .callback 1 7 11 true]).effects
    = [⟨1, 7, 11⟩] := by decide

end Havoc.C05
