import HavocVerif.Lemmas.Pivot
import HavocVerif.Model.Tasks
/-
  C08 — Tasks and callbacks for pivot agents are routed to the right session.
-/
namespace Havoc.C08
open Havoc

/-- what one layer needs to be encodable: 32-bit id, frame sizes below 2^32 -/
def layerWf (h : Hop) (j : Job) : Prop :=
  h.id < 4294967296 ∧ j.wf ∧ (packerFrame h.id (buildPayload h.ks [j])).length < 4294967296

def chainWf : List Hop → Job → Prop
  | [], _ => True
  | h :: hs, j => layerWf h j ∧ chainWf hs (pivotJob h.id (buildPayload h.ks [j]))

theorem pivotJob_wf (id : Nat) (payload : Bytes) (hid : id < 4294967296)
    (hp : (packerFrame id payload).length + 12 < 4294967296) : (pivotJob id payload).wf := by
  refine ⟨by simp [pivotJob]; decide, by simp [pivotJob], ?_, by simp [pivotJob]; decide⟩
  simp [pivotJob, Job.body, Arg.encode, packerFrame] at hp ⊢
  omega

/-- one hop: the layer names this hop, the hop's own key opens it, and inside is exactly the
    next frame -/
theorem one_hop (h : Hop) (j : Job) (hw : layerWf h j) :
    deliverDown [h] (pivotJob h.id (buildPayload h.ks [j])).view = some j.view := by
  obtain ⟨hid, hj, hp⟩ := hw
  have hne : (buildPayload h.ks [j]).length > 0 := by
    have := buildPayload_length h.ks [j]; simp at this; omega
  have hpl : (buildPayload h.ks [j]).length < 4294967296 := by
    simp [packerFrame] at hp; omega
  simp only [deliverDown, relayOf_pivotJob h.id _ hid hp hne, ne_eq, not_true_eq_false, if_false,
    hopRecv, smbRecv_frame h.id _ hid hpl hne,
    dispatch_roundtrip h.ks j [] (by intro x hx; simp at hx; subst hx; exact hj)]
  rfl

/-- A task for an agent behind any chain of SMB pivots is wrapped once per hop such that
    each hop, decrypting its layer with its own key, finds the next hop's id and an opaque
    frame, and the last frame is the original task under the target's key — for every
    chain depth, every key assignment and every 32-bit id. -/
theorem wrap_unwrap (hops : List Hop) (j : Job) (h : chainWf hops j) :
    deliverDown hops.reverse (wrapHops hops j).view = some j.view := by
  induction hops generalizing j with
  | nil => simp [wrapHops, deliverDown]
  | cons hd tl ih =>
    obtain ⟨hl, hrest⟩ := h
    simp only [wrapHops, List.reverse_cons]
    rw [deliverDown_append, ih _ hrest]
    exact one_hop hd j hl

/-- a hop that is not the one named in the layer does not accept it -/
theorem wrong_hop_rejects (h : Hop) (id : Nat) (payload : Bytes) (hid : id < 4294967296)
    (hp : (packerFrame id payload).length < 4294967296) (hne : payload.length > 0)
    (hneq : id ≠ h.id) : deliverDown [h] (pivotJob id payload).view = none := by
  simp [deliverDown, relayOf_pivotJob id payload hid hp hne, hneq]

/-- upward: a relayed callback is gated by, and its effects attributed to, the agent named
    in the inner header — the relaying parent's outstanding ids play no role and are untouched -/
theorem relay_attribution (sendLogs : Bool) (s : TState) (parent child req cmd : Nat) (final : Bool)
    (hpc : parent ≠ child) :
    let s' := tstep sendLogs s (.callback child req cmd final)
    s'.tasks parent = s.tasks parent ∧
      (∀ e ∈ s'.effects, e ∈ s.effects ∨ (e.agent = child ∧ isKnown sendLogs (s.tasks child) req cmd = true)) := by
  simp only [tstep]
  split
  · rename_i hk
    refine ⟨by simp [hpc], ?_⟩
    intro e he
    simp only [List.mem_append, List.mem_singleton] at he
    rcases he with he | he
    · left; exact he
    · right; subst he; exact ⟨rfl, hk⟩
  · exact ⟨rfl, fun e he => Or.inl he⟩

/-! non-vacuity: a depth-3 chain with distinct keystreams and an id above 2^31 -/
example : chainWf [⟨0xFFFFFFFF, fun i => UInt8.ofNat (i + 1)⟩, ⟨0x80000000, fun i => UInt8.ofNat (3 * i)⟩,
    ⟨7, fun _ => 0x5a⟩] ⟨11, 99, [.int 5, .str [104, 105]]⟩ := by
  refine ⟨⟨by decide, ⟨by decide, by decide, by decide, by decide⟩, by decide⟩,
    ⟨by decide, ⟨by decide, by decide, by decide, by decide⟩, by decide⟩,
    ⟨by decide, ⟨by decide, by decide, by decide, by decide⟩, by decide⟩, trivial⟩

end Havoc.C08
