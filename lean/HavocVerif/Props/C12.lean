import HavocVerif.Model.Http
import HavocVerif.Gen.HttpGate
/-
  C12 — An HTTP listener serves only requests that match its profile.
-/
namespace Havoc.C12
open Havoc

/-- Decision logic stated outright: a request reaches the agent protocol exactly when it is a
    POST, its request URI is one of the configured URIs (when any are configured), its
    User-Agent equals the configured one (when configured), and it carries every configured,
    non-ignored request header with the configured value (ASCII case-insensitively). -/
theorem admits_iff (cfg : HttpConfig) (r : HttpReq) :
    admits cfg r = true ↔
      r.method = "POST".toList ∧
      (∀ n v, (n, v) ∈ checkedHeaders cfg → eqFold (r.get n) v = true) ∧
      (urisConfigured cfg = true → r.requestUri ∈ cfg.uris) ∧
      (cfg.userAgent ≠ [] → cfg.userAgent = r.get "User-Agent".toList) := by
  simp only [admits, Bool.and_eq_true, beq_iff_eq, headersOk, List.all_eq_true, uriOk, uaOk, Bool.or_eq_true,
    Bool.not_eq_true', Prod.forall, List.contains_eq_mem, decide_eq_true_eq]
  constructor
  · rintro ⟨⟨⟨hm, hh⟩, hu⟩, ha⟩
    refine ⟨hm, hh, ?_, ?_⟩
    · intro hc; rcases hu with hu | hu
      · rw [hc] at hu; exact absurd hu (by simp)
      · exact hu
    · intro hne; rcases ha with ha | ha
      · exact absurd ha hne
      · exact ha
  · rintro ⟨hm, hh, hu, ha⟩
    refine ⟨⟨⟨hm, hh⟩, ?_⟩, ?_⟩
    · cases hc : urisConfigured cfg with
      | false => left; rfl
      | true => right; exact hu hc
    · by_cases hne : cfg.userAgent = []
      · left; exact hne
      · right; exact ha hne

/-- anything that is not a POST never reaches the protocol -/
theorem non_post_rejected (cfg : HttpConfig) (r : HttpReq) (h : r.method ≠ "POST".toList) : admits cfg r = false := by
  unfold admits
  have : (r.method == "POST".toList) = false := by
    cases hb : (r.method == "POST".toList) with
    | false => rfl
    | true => exact absurd (by simpa using hb) h
  rw [this]; rfl

/-- a configured header value is compared in full, whatever it contains after the first ": " -/
theorem header_value_full (n v : Str) (hn : ':' ∉ n) : splitColonSpace (n ++ ':' :: ' ' :: v) = some (n, v) := by
  induction n with
  | nil => simp [splitColonSpace]
  | cons c cs ih =>
    have hc : c ≠ ':' := fun e => hn (by simp [e])
    have hcs : ':' ∉ cs := fun m => hn (by simp [m])
    simp only [List.cons_append]
    unfold splitColonSpace
    split
    · rename_i heq; simp at heq
    · rename_i heq; simp at heq; exact absurd heq.1 hc
    · rename_i c' rest _ heq
      simp only [List.cons.injEq] at heq
      obtain ⟨rfl, rfl⟩ := heq
      simp [ih hcs]

/-- every configured response header is sent with its full value (the value may contain colons) -/
theorem response_header_full (n v : Str) (hn : ':' ∉ n) : splitColon (n ++ ':' :: v) = some (n, v) := by
  induction n with
  | nil => simp [splitColon]
  | cons c cs ih =>
    have hc : c ≠ ':' := fun e => hn (by simp [e])
    have hcs : ':' ∉ cs := fun m => hn (by simp [m])
    simp only [List.cons_append]
    unfold splitColon
    split
    · rename_i heq; simp at heq
    · rename_i heq; simp at heq; exact absurd heq.1 hc
    · rename_i c' rest _ heq
      simp only [List.cons.injEq] at heq
      obtain ⟨rfl, rfl⟩ := heq
      simp [ih hcs]

/-- the recorded address is the peer host, or the forwarded-for header only behind a redirector -/
theorem sender_address (cfg : HttpConfig) (r : HttpReq) :
    senderAddress cfg r = if cfg.behindRedir then r.get "X-Forwarded-For".toList else r.peerHost := rfl

theorem forwarded_ignored_without_redir (cfg : HttpConfig) (r : HttpReq) (h : cfg.behindRedir = false) :
    senderAddress cfg r = r.peerHost := by simp [senderAddress, h]

/-! ### The handler as written: statement-level model, refinement, regenerated skeleton -/

theorem headerLoopGo_eq (r : HttpReq) (hs : List Str) :
    headerLoopGo r hs = (hs.filterMap fun h => match splitColonSpace h with
      | some (n, v) => if ignoredHeader n then none else some (n, v)
      | none => none).all fun (n, v) => eqFold (r.get n) v := by
  induction hs with
  | nil => rfl
  | cons h hs ih =>
    unfold headerLoopGo
    cases hsp : splitColonSpace h with
    | none => simp [hsp, ih]
    | some nv =>
      obtain ⟨n, v⟩ := nv
      by_cases hi : ignoredHeader n = true
      · simp [hsp, hi, ih]
      · have hi' : ignoredHeader n = false := by simpa using hi
        by_cases he : lowerS (r.get n) = lowerS v
        · simp [hsp, hi', ih, eqFold, he]
        · simp [hsp, hi', eqFold, he]

theorem uriLoopGo_eq (uri : Str) (us : List Str) : uriLoopGo uri us = us.contains uri := by
  induction us with
  | nil => rfl
  | cons u us ih =>
    by_cases h : uri = u
    · simp [uriLoopGo, h]
    · simp [uriLoopGo, h, ih]

theorem urisGuard_eq (cfg : HttpConfig) :
    (cfg.uris.length > 0 && !(cfg.uris.length == 1 && cfg.uris.head? == some [])) = urisConfigured cfg := by
  unfold urisConfigured
  rcases cfg.uris with _ | ⟨u, _ | ⟨u', us⟩⟩
  · simp
  · by_cases h : u = [] <;> simp [h]
  · simp

/-- the handler, guard by guard in the order of the source, lets through exactly what `admits` admits: every route
    and every early return is accounted for -/
theorem serveGo_refines (cfg : HttpConfig) (r : HttpReq) :
    (serveGo cfg r = .parsed) ↔ admits cfg r = true := by
  unfold serveGo admits requestGo
  rw [urisGuard_eq, uriLoopGo_eq, headerLoopGo_eq]
  unfold headersOk checkedHeaders uriOk uaOk
  generalize (List.all _ _) = a
  generalize urisConfigured cfg = b
  generalize cfg.uris.contains r.requestUri = c
  generalize r.get "User-Agent".toList = ua
  simp only [bne]
  rcases Bool.eq_false_or_eq_true (cfg.userAgent == []) with hd | hd <;>
  rcases Bool.eq_false_or_eq_true (cfg.userAgent == ua) with he | he <;>
  rcases Bool.eq_false_or_eq_true (r.method == "POST".toList) with hm | hm <;>
  cases a <;> cases b <;> cases c <;> simp only [hd, he, hm] <;> decide

/-- a request that is not admitted gets the decoy page and its body never reaches the agent protocol -/
theorem not_admitted_is_decoy (cfg : HttpConfig) (r : HttpReq) (h : admits cfg r = false) :
    serveGo cfg r = .fake404 := by
  cases hs : serveGo cfg r with
  | fake404 => rfl
  | parsed => rw [(serveGo_refines cfg r).mp hs] at h; cases h

def rejects (e : String × String × List String) : Bool := e.2.2 == ["fake404", "return"]

/-- regenerated from http.go on every run, decided on the extracted skeleton: in `request` the three rejecting guards
    (each ends in `fake404; return`) stand in front of every statement that sets a response header, parses the body or
    writes an answer; nothing answers before them; and after the body was handed over the only other way out is the
    decoy -/
theorem guards_dominate :
    (Gen.HttpGate.skeleton.takeWhile rejects).length = 3 ∧
    ((Gen.HttpGate.skeleton.takeWhile rejects).map (·.2.1)) =
      ["valid == false", "len(h.Config.Uris) > 0 && !(len(h.Config.Uris) == 1 && h.Config.Uris[0] == \"\")",
       "h.Config.UserAgent != \"\""] ∧
    ((Gen.HttpGate.skeleton.dropWhile rejects).map (·.2.2)).flatten.head? = some "Header" ∧
    (((Gen.HttpGate.skeleton.dropWhile rejects).map (·.2.2)).flatten.filter (· == "parseAgentRequest")).length = 1 ∧
    Gen.HttpGate.routes = [("POST", ["/*endpoint", "h.request"]), ("GET", ["/*endpoint", "h.fake404"]), ("NoRoute", ["h.fake404"])] := by
  decide

/-- regenerated: the three checks statement for statement, as `headerLoopGo`, `uriLoopGo` and `requestGo` transcribe them -/
theorem checks_transcribed :
    Gen.HttpGate.inits = ["valid := true", "IgnoreHeaders := [2]string{\"Connection\", \"Accept-Encoding\"}"] ∧
    Gen.HttpGate.headerLoop =
      ["for _, Header := range h.Config.Headers {",
       "NameValue := strings.SplitN(Header, \": \", 2)",
       "if len(NameValue) > 1 {",
       "ignore := false",
       "for _, IgnoreHeader := range IgnoreHeaders {",
       "if strings.ToLower(NameValue[0]) == strings.ToLower(IgnoreHeader) {",
       "ignore = true", "break", "}", "}",
       "if ignore == false {",
       "if strings.ToLower(ctx.Request.Header.Get(NameValue[0])) != strings.ToLower(NameValue[1]) {",
       "MissingHdr = NameValue[0] + \": \" + ctx.Request.Header.Get(NameValue[0])",
       "valid = false", "break", "}", "}", "}", "}"] ∧
    Gen.HttpGate.uriCheck =
      ["if len(h.Config.Uris) > 0 && !(len(h.Config.Uris) == 1 && h.Config.Uris[0] == \"\") {",
       "valid = false",
       "for _, Uri := range h.Config.Uris {",
       "if ctx.Request.RequestURI == Uri {",
       "valid = true", "break", "}", "}",
       "if valid == false {",
       "logger.Warn(fmt.Sprintf(\"got a request with an invalid request path: %s\", ctx.Request.RequestURI))",
       "h.fake404(ctx)", "return", "}", "}"] ∧
    Gen.HttpGate.uaCheck =
      ["if h.Config.UserAgent != \"\" {",
       "if h.Config.UserAgent != ctx.Request.UserAgent() {",
       "logger.Warn(fmt.Sprintf(\"got a request with an invalid user agent: %s\", ctx.Request.UserAgent()))",
       "h.fake404(ctx)", "return", "}", "}"] :=
  ⟨rfl, rfl, rfl, rfl⟩

example : serveGo ⟨["/a".toList], ["X-Tok: a: b".toList, "Connection: close".toList], "UA".toList, [], false⟩
    ⟨"POST".toList, "/a".toList, [("x-tok".toList, "A: B".toList), ("User-Agent".toList, "UA".toList)], "1.2.3.4".toList⟩ = .parsed := by
  decide
example : serveGo ⟨["/a".toList], [], [], [], false⟩ ⟨"GET".toList, "/a".toList, [], "1.2.3.4".toList⟩ = .fake404 := by decide

/-! non-vacuity -/
example : admits ⟨["/a".toList], ["X-Tok: a: b".toList, "Connection: close".toList], "UA".toList, [], false⟩
    ⟨"POST".toList, "/a".toList, [("x-tok".toList, "A: B".toList), ("User-Agent".toList, "UA".toList)], "1.2.3.4".toList⟩ = true := by
  decide
example : admits ⟨["/a".toList], ["X-Tok: a: b".toList], [], [], false⟩
    ⟨"POST".toList, "/a".toList, [("x-tok".toList, "a".toList)], "1.2.3.4".toList⟩ = false := by decide
example : responseHeaders ⟨[], [], [], ["Location: http://x/y".toList], false⟩
    = [("Location".toList, "http://x/y".toList)] := by decide

end Havoc.C12
