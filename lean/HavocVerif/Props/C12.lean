import HavocVerif.Model.Http
/-
  C12 — An HTTP listener serves only requests that match its profile.
-/
namespace Havoc.C12
open Havoc

/-- Decision logic stated outright: a request reaches the agent protocol exactly when it is a
    POST, its request URI is one of the configured URIs (when any are configured), its
    User-Agent equals the configured one (when configured), and it carries every configured,
    non-ignored request header with the configured value (ASCII case-insensitively). -/
theorem admits_iff (cfg : HttpConfig) (r : HttpReq) :
    admits cfg r = true ↔
      r.method = "POST".toList ∧
      (∀ n v, (n, v) ∈ checkedHeaders cfg → eqFold (r.get n) v = true) ∧
      (urisConfigured cfg = true → r.requestUri ∈ cfg.uris) ∧
      (cfg.userAgent ≠ [] → cfg.userAgent = r.get "User-Agent".toList) := by
  simp only [admits, Bool.and_eq_true, beq_iff_eq, headersOk, List.all_eq_true, uriOk, uaOk, Bool.or_eq_true,
    Bool.not_eq_true', Prod.forall, List.contains_eq_mem, decide_eq_true_eq]
  constructor
  · rintro ⟨⟨⟨hm, hh⟩, hu⟩, ha⟩
    refine ⟨hm, hh, ?_, ?_⟩
    · intro hc; rcases hu with hu | hu
      · rw [hc] at hu; exact absurd hu (by simp)
      · exact hu
    · intro hne; rcases ha with ha | ha
      · exact absurd ha hne
      · exact ha
  · rintro ⟨hm, hh, hu, ha⟩
    refine ⟨⟨⟨hm, hh⟩, ?_⟩, ?_⟩
    · cases hc : urisConfigured cfg with
      | false => left; rfl
      | true => right; exact hu hc
    · by_cases hne : cfg.userAgent = []
      · left; exact hne
      · right; exact ha hne

/-- anything that is not a POST never reaches the protocol -/
theorem non_post_rejected (cfg : HttpConfig) (r : HttpReq) (h : r.method ≠ "POST".toList) : admits cfg r = false := by
  unfold admits
  have : (r.method == "POST".toList) = false := by
    cases hb : (r.method == "POST".toList) with
    | false => rfl
    | true => exact absurd (by simpa using hb) h
  rw [this]; rfl

/-- a configured header value is compared in full, whatever it contains after the first ": " -/
theorem header_value_full (n v : Str) (hn : ':' ∉ n) : splitColonSpace (n ++ ':' :: ' ' :: v) = some (n, v) := by
  induction n with
  | nil => simp [splitColonSpace]
  | cons c cs ih =>
    have hc : c ≠ ':' := fun e => hn (by simp [e])
    have hcs : ':' ∉ cs := fun m => hn (by simp [m])
    simp only [List.cons_append]
    unfold splitColonSpace
    split
    · rename_i heq; simp at heq
    · rename_i heq; simp at heq; exact absurd heq.1 hc
    · rename_i c' rest _ heq
      simp only [List.cons.injEq] at heq
      obtain ⟨rfl, rfl⟩ := heq
      simp [ih hcs]

/-- every configured response header is sent with its full value (the value may contain colons) -/
theorem response_header_full (n v : Str) (hn : ':' ∉ n) : splitColon (n ++ ':' :: v) = some (n, v) := by
  induction n with
  | nil => simp [splitColon]
  | cons c cs ih =>
    have hc : c ≠ ':' := fun e => hn (by simp [e])
    have hcs : ':' ∉ cs := fun m => hn (by simp [m])
    simp only [List.cons_append]
    unfold splitColon
    split
    · rename_i heq; simp at heq
    · rename_i heq; simp at heq; exact absurd heq.1 hc
    · rename_i c' rest _ heq
      simp only [List.cons.injEq] at heq
      obtain ⟨rfl, rfl⟩ := heq
      simp [ih hcs]

/-- the recorded address is the peer host, or the forwarded-for header only behind a redirector -/
theorem sender_address (cfg : HttpConfig) (r : HttpReq) :
    senderAddress cfg r = if cfg.behindRedir then r.get "X-Forwarded-For".toList else r.peerHost := rfl

theorem forwarded_ignored_without_redir (cfg : HttpConfig) (r : HttpReq) (h : cfg.behindRedir = false) :
    senderAddress cfg r = r.peerHost := by simp [senderAddress, h]

/-! non-vacuity -/
example : admits ⟨["/a".toList], ["X-Tok: a: b".toList, "Connection: close".toList], "UA".toList, [], false⟩
    ⟨"POST".toList, "/a".toList, [("x-tok".toList, "A: B".toList), ("User-Agent".toList, "UA".toList)], "1.2.3.4".toList⟩ = true := by
  decide
example : admits ⟨["/a".toList], ["X-Tok: a: b".toList], [], [], false⟩
    ⟨"POST".toList, "/a".toList, [("x-tok".toList, "a".toList)], "1.2.3.4".toList⟩ = false := by decide
example : responseHeaders ⟨[], [], [], ["Location: http://x/y".toList], false⟩
    = [("Location".toList, "http://x/y".toList)] := by decide

end Havoc.C12
