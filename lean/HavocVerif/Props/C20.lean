import HavocVerif.Model.Write
/-
  C20 — Rewriting a configuration file never damages it.
  The edit operations of hclwrite on a body, as a function on item lists (Model/Write.lean):
  each operation makes its change and no other.
-/
namespace Havoc.C20
open Havoc.Wr

/-! ### helpers -/

theorem lookup_append (n : String) (a b : List Item) :
    lookup n (a ++ b) = (lookup n a).orElse fun _ => lookup n b := by
  induction a with
  | nil => simp [lookup]
  | cons x xs ih =>
    cases x with
    | attr m v =>
      simp only [List.cons_append, lookup]
      split
      · simp
      · exact ih
    | free t => simpa [lookup] using ih
    | lead t => simpa [lookup] using ih
    | trail t => simpa [lookup] using ih
    | block ty ls body => simpa [lookup] using ih

/-! ### SetAttributeValue -/

theorem setIn_lookup_same (n v : String) (b : List Item) (h : hasAttr n b = true) : lookup n (setIn n v b) = some v := by
  induction b with
  | nil => simp [hasAttr, lookup] at h
  | cons x xs ih =>
    cases x with
    | attr m w =>
      simp only [setIn]
      by_cases e : (m == n) = true
      · simp [e, lookup]
      · have e' : (m == n) = false := by simpa using e
        simp only [e', Bool.false_eq_true, if_false, lookup]
        apply ih
        simpa [hasAttr, lookup, e'] using h
    | free t => simp only [setIn, lookup]; exact ih (by simpa [hasAttr, lookup] using h)
    | lead t => simp only [setIn, lookup]; exact ih (by simpa [hasAttr, lookup] using h)
    | trail t => simp only [setIn, lookup]; exact ih (by simpa [hasAttr, lookup] using h)
    | block ty ls body => simp only [setIn, lookup]; exact ih (by simpa [hasAttr, lookup] using h)

theorem setIn_lookup_other (n v k : String) (b : List Item) (hk : (k == n) = false) : lookup k (setIn n v b) = lookup k b := by
  induction b with
  | nil => rfl
  | cons x xs ih =>
    cases x with
    | attr m w =>
      simp only [setIn]
      by_cases e : (m == n) = true
      · have : m = n := by simpa using e
        subst this
        have hmk : (m == k) = false := by
          cases h : (m == k)
          · rfl
          · have : m = k := by simpa using h
            subst this; simp at hk
        simp [e, lookup, hmk]
      · have e' : (m == n) = false := by simpa using e
        simp only [e', Bool.false_eq_true, if_false, lookup, ih]
    | free t => simpa [setIn, lookup] using ih
    | lead t => simpa [setIn, lookup] using ih
    | trail t => simpa [setIn, lookup] using ih
    | block ty ls body => simpa [setIn, lookup] using ih

/-- after setting an attribute, re-parsing shows that value … -/
theorem set_then_get (n v : String) (b : List Item) : lookup n (setAttr n v b) = some v := by
  unfold setAttr
  split
  · rename_i h; exact setIn_lookup_same n v b h
  · rename_i h
    rw [lookup_append]
    have : lookup n b = none := by
      cases hl : lookup n b with
      | none => rfl
      | some x => simp [hasAttr, hl] at h
    simp [this, lookup]

/-- … and every other attribute keeps its value -/
theorem set_keeps_others (n v k : String) (b : List Item) (hk : (k == n) = false) : lookup k (setAttr n v b) = lookup k b := by
  unfold setAttr
  split
  · exact setIn_lookup_other n v k b hk
  · rw [lookup_append]
    cases lookup k b with
    | some x => rfl
    | none =>
      have hnk : (n == k) = false := by
        cases h : (n == k)
        · rfl
        · have : n = k := by simpa using h
          subst this; simp at hk
      simp [lookup, hnk]

/-- setting touches neither comments nor blocks nor the order of anything: the non-attribute
    items are the same, in the same order -/
def nonAttrs : List Item → List Item
  | [] => []
  | .attr _ _ :: rest => nonAttrs rest
  | x :: rest => x :: nonAttrs rest

theorem nonAttrs_append (a b : List Item) : nonAttrs (a ++ b) = nonAttrs a ++ nonAttrs b := by
  induction a with
  | nil => rfl
  | cons x xs ih => cases x <;> simp [nonAttrs, ih]

theorem setIn_nonAttrs (n v : String) (b : List Item) : nonAttrs (setIn n v b) = nonAttrs b := by
  induction b with
  | nil => rfl
  | cons x xs ih =>
    cases x with
    | attr m w => simp only [setIn]; split <;> simp [nonAttrs, ih]
    | free t => simp [setIn, nonAttrs, ih]
    | lead t => simp [setIn, nonAttrs, ih]
    | trail t => simp [setIn, nonAttrs, ih]
    | block ty ls body => simp [setIn, nonAttrs, ih]

theorem set_keeps_comments_and_blocks (n v : String) (b : List Item) : nonAttrs (setAttr n v b) = nonAttrs b := by
  unfold setAttr
  split
  · exact setIn_nonAttrs n v b
  · simp [nonAttrs_append, nonAttrs]

/-! ### AppendNewBlock -/

def blocksOf : List Item → List Item
  | [] => []
  | .block ty ls body :: rest => .block ty ls body :: blocksOf rest
  | _ :: rest => blocksOf rest

theorem blocksOf_append (a b : List Item) : blocksOf (a ++ b) = blocksOf a ++ blocksOf b := by
  induction a with
  | nil => rfl
  | cons x xs ih => cases x <;> simp [blocksOf, ih]

/-- the new block is the last one and empty; nothing else changes -/
theorem addBlock_appends (ty : String) (ls : List String) (b : List Item) :
    addBlock ty ls b = b ++ [.block ty ls []] ∧ blocksOf (addBlock ty ls b) = blocksOf b ++ [.block ty ls []] ∧
    ∀ k, lookup k (addBlock ty ls b) = lookup k b := by
  refine ⟨rfl, by simp [addBlock, blocksOf_append, blocksOf], ?_⟩
  intro k
  simp only [addBlock, lookup_append]
  cases lookup k b <;> simp [lookup]

/-! ### RemoveAttribute -/

theorem lookup_dropTrail (k : String) (l : List Item) : lookup k (dropTrail l) = lookup k l := by
  cases l with
  | nil => rfl
  | cons x xs => cases x <;> simp [dropTrail, lookup]

def allLead (p : List Item) : Prop := ∀ x ∈ p, x.isLead = true

theorem lookup_of_allLead (k : String) (p : List Item) (h : allLead p) : lookup k p = none := by
  induction p with
  | nil => rfl
  | cons x xs ih =>
    have hx := h x (by simp)
    have hr : allLead xs := fun y hy => h y (by simp [hy])
    cases x <;> simp [Item.isLead] at hx
    simp [lookup, ih hr]

/-- removing an attribute leaves every other attribute with its value -/
theorem rmAttrGo_keeps_others (n k : String) (hk : (k == n) = false) : ∀ (b pending : List Item), allLead pending →
    lookup k (rmAttrGo n pending b) = lookup k b := by
  intro b
  induction b with
  | nil => intro p hp; simp [rmAttrGo, lookup, lookup_of_allLead k p hp]
  | cons x xs ih =>
    intro p hp
    cases x with
    | lead t =>
      simp only [rmAttrGo, lookup]
      apply ih
      intro y hy
      simp only [List.mem_append, List.mem_singleton] at hy
      rcases hy with hy | rfl
      · exact hp y hy
      · rfl
    | attr m v =>
      simp only [rmAttrGo]
      by_cases e : (m == n) = true
      · have : m = n := by simpa using e
        subst this
        have hmk : (m == k) = false := by
          cases h : (m == k)
          · rfl
          · have : m = k := by simpa using h
            subst this; simp at hk
        simp [e, lookup, hmk, lookup_dropTrail]
      · have e' : (m == n) = false := by simpa using e
        simp only [e', Bool.false_eq_true, if_false, lookup_append, lookup_of_allLead k p hp, lookup]
        simp only [Option.orElse]
        split
        · rfl
        · exact ih [] (by intro y hy; simp at hy)
    | free t =>
      simp only [rmAttrGo, lookup_append, lookup_of_allLead k p hp, lookup, Option.orElse]
      exact ih [] (by intro y hy; simp at hy)
    | trail t =>
      simp only [rmAttrGo, lookup_append, lookup_of_allLead k p hp, lookup, Option.orElse]
      exact ih [] (by intro y hy; simp at hy)
    | block ty ls body =>
      simp only [rmAttrGo, lookup_append, lookup_of_allLead k p hp, lookup, Option.orElse]
      exact ih [] (by intro y hy; simp at hy)

theorem remove_keeps_others (n k : String) (b : List Item) (hk : (k == n) = false) : lookup k (rmAttr n b) = lookup k b :=
  rmAttrGo_keeps_others n k hk b [] (by intro y hy; simp at hy)

/-- every attribute name occurs once -/
def uniqueNames : List Item → Prop
  | [] => True
  | .attr m _ :: rest => lookup m rest = none ∧ uniqueNames rest
  | _ :: rest => uniqueNames rest

/-- after removing an attribute, re-parsing no longer shows it -/
theorem rmAttrGo_gone (n : String) : ∀ (b pending : List Item), allLead pending → uniqueNames b →
    lookup n (rmAttrGo n pending b) = none := by
  intro b
  induction b with
  | nil => intro p hp _; simp [rmAttrGo, lookup_of_allLead n p hp]
  | cons x xs ih =>
    intro p hp hu
    cases x with
    | lead t =>
      simp only [rmAttrGo]
      apply ih _ _ hu
      intro y hy
      simp only [List.mem_append, List.mem_singleton] at hy
      rcases hy with hy | rfl
      · exact hp y hy
      · rfl
    | attr m v =>
      simp only [rmAttrGo]
      by_cases e : (m == n) = true
      · have : m = n := by simpa using e
        subst this
        simp only [e, if_true, lookup_dropTrail]
        exact hu.1
      · have e' : (m == n) = false := by simpa using e
        simp only [e', Bool.false_eq_true, if_false, lookup_append, lookup_of_allLead n p hp, lookup, Option.orElse]
        exact ih [] (by intro y hy; simp at hy) hu.2
    | free t =>
      simp only [rmAttrGo, lookup_append, lookup_of_allLead n p hp, lookup, Option.orElse]
      exact ih [] (by intro y hy; simp at hy) hu
    | trail t =>
      simp only [rmAttrGo, lookup_append, lookup_of_allLead n p hp, lookup, Option.orElse]
      exact ih [] (by intro y hy; simp at hy) hu
    | block ty ls body =>
      simp only [rmAttrGo, lookup_append, lookup_of_allLead n p hp, lookup, Option.orElse]
      exact ih [] (by intro y hy; simp at hy) hu

theorem remove_then_absent (n : String) (b : List Item) (hu : uniqueNames b) : lookup n (rmAttr n b) = none :=
  rmAttrGo_gone n b [] (by intro y hy; simp at hy) hu

/-- removing keeps every block -/
theorem rmAttrGo_blocks (n : String) : ∀ (b pending : List Item), allLead pending →
    blocksOf (rmAttrGo n pending b) = blocksOf b := by
  have leadNo : ∀ p : List Item, allLead p → blocksOf p = [] := by
    intro p
    induction p with
    | nil => intro _; rfl
    | cons x xs ih =>
      intro h
      have hx := h x (by simp)
      cases x <;> simp [Item.isLead] at hx
      simp [blocksOf, ih (fun y hy => h y (by simp [hy]))]
  have dropT : ∀ l : List Item, blocksOf (dropTrail l) = blocksOf l := by
    intro l; cases l with
    | nil => rfl
    | cons x xs => cases x <;> simp [dropTrail, blocksOf]
  intro b
  induction b with
  | nil => intro p hp; simp [rmAttrGo, blocksOf, leadNo p hp]
  | cons x xs ih =>
    intro p hp
    cases x with
    | lead t =>
      simp only [rmAttrGo, blocksOf]
      apply ih
      intro y hy
      simp only [List.mem_append, List.mem_singleton] at hy
      rcases hy with hy | rfl
      · exact hp y hy
      · rfl
    | attr m v =>
      simp only [rmAttrGo]
      split
      · simp [blocksOf, dropT]
      · simp [blocksOf_append, blocksOf, leadNo p hp, ih [] (by intro y hy; simp at hy)]
    | free t => simp [rmAttrGo, blocksOf_append, blocksOf, leadNo p hp, ih [] (by intro y hy; simp at hy)]
    | trail t => simp [rmAttrGo, blocksOf_append, blocksOf, leadNo p hp, ih [] (by intro y hy; simp at hy)]
    | block ty ls body => simp [rmAttrGo, blocksOf_append, blocksOf, leadNo p hp, ih [] (by intro y hy; simp at hy)]

theorem remove_keeps_blocks (n : String) (b : List Item) : blocksOf (rmAttr n b) = blocksOf b :=
  rmAttrGo_blocks n b [] (by intro y hy; simp at hy)

/-! ### edits of a body that does not exist change nothing -/
theorem missing_body_is_noop (b : List Item) (p : List Nat) (n v : String)
    (h : atPath (setAttr n v) p b = none) : apply b (.set p n v) = b := by simp [apply, h]

/-! non-vacuity / examples -/
example : rmAttr "a" [.free "c0", .lead "c1", .lead "c2", .attr "a" "1", .trail "t", .lead "c3", .attr "b" "2"]
    = [.free "c0", .lead "c3", .attr "b" "2"] := by simp [rmAttr, rmAttrGo, dropTrail]
example : setAttr "b" "9" [.attr "a" "1", .lead "c", .attr "b" "2", .trail "t"] = [.attr "a" "1", .lead "c", .attr "b" "9", .trail "t"] := by simp [setAttr, hasAttr, lookup, setIn]
example : rmBlock 1 [.block "x" [] [], .lead "c", .block "y" ["l"] [.attr "a" "1"], .attr "z" "0"] = [.block "x" [] [], .attr "z" "0"] := by simp [rmBlock, rmBlockGo, dropTrail]

end Havoc.C20
