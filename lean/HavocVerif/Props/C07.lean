import HavocVerif.Lemmas.Path
import HavocVerif.Model.Locks
import HavocVerif.Model.Loot
/-
  C07 — Loot stays inside the agent's loot folder and equals what was sent.
-/
namespace Havoc.C07
open Havoc

/-- The check the (fixed) loot code performs means containment at the level of path
    components: whatever the name, a path that passes has the directory's cleaned components
    as a component-wise prefix — a sibling whose name merely starts with the directory's
    name does not pass. -/
theorem contained (path dir : Bytes) (hp : path.head? = some slash) (hd : dir.head? = some slash)
    (h : insideDir path dir = true) : (cleanComps dir).2 <+: (cleanComps path).2 :=
  insideDir_components path dir hp hd h

/-- the string-prefix test the code used before the fix accepts a sibling directory
    (`…/Download_evil`): the reason for the fix, as a concrete instance -/
theorem old_check_accepts_sibling :
    hasPrefixB (cleanPath (asciiBytes "/l/agents/id/Download/../Download_evil")) (asciiBytes "/l/agents/id/Download") = true
      ∧ insideDir (asciiBytes "/l/agents/id/Download/../Download_evil") (asciiBytes "/l/agents/id/Download") = false := by
  decide

/-- an accepted agent id is one path component, not `.` / `..`, without separators or NUL -/
theorem valid_id_component (id : Bytes) (h : validAgentId id = true) :
    NoSlash id ∧ id ≠ [] ∧ id ≠ [dot] ∧ id ≠ [dot, dot] ∧ backslash ∉ id ∧ (0 : UInt8) ∉ id := by
  unfold validAgentId at h
  simp only [decide_eq_true_eq] at h
  obtain ⟨h1, h2, h3, h4, h5, h6⟩ := h
  refine ⟨?_, h1, h2, h3, ?_, ?_⟩
  · intro m; exact h4 (by simpa using m)
  · intro m; exact h5 (by simpa using m)
  · intro m; exact h6 (by simpa using m)

/-- every download that `DownloadAdd` opens writes to a file directly below a directory that
    lies inside the agent's Download directory -/
theorem downloadAdd_contained (agentsDir : List Bytes) (fs : Fs) (a : LootAgent) (fid : Nat) (name : Bytes)
    (h : (downloadAdd agentsDir fs a fid name).2.2 = true) :
    ∃ d ∈ (downloadAdd agentsDir fs a fid name).2.1.downloads,
      (cleanComps (dlDirStr agentsDir a)).2 <+: d.path.dropLast := by
  unfold downloadAdd at h ⊢
  by_cases hin : insideDir (dlTarget agentsDir a name) (dlDirStr agentsDir a) = false
  · simp [hin] at h
  · simp only [hin, if_false] at h ⊢
    have hin' : insideDir (dlTarget agentsDir a name) (dlDirStr agentsDir a) = true := by
      cases hb : insideDir (dlTarget agentsDir a name) (dlDirStr agentsDir a) with
      | true => rfl
      | false => exact absurd hb hin
    by_cases hnul : (cleanComps (dlTarget agentsDir a name)).2.any (·.contains 0) = true
    · rw [if_pos hnul] at h; simp at h
    rw [if_neg hnul] at h ⊢
    cases hm : fs.mkdirAll (cleanComps (dlTarget agentsDir a name)).2 with
    | mk fs1 ok =>
      cases ok with
      | false => simp [hm] at h
      | true =>
        simp only [hm] at h ⊢
        cases hc : fs1.create ((cleanComps (dlTarget agentsDir a name)).2 ++ [stripNull (dlFile name)]) with
        | mk fs2 ok2 =>
          cases ok2 with
          | false => simp [hc] at h
          | true =>
            simp only [hc]
            refine ⟨_, List.mem_append_right _ (List.mem_singleton.mpr rfl), ?_⟩
            simp only [List.dropLast_concat]
            exact insideDir_components _ _ (by simp [dlTarget, dlDirStr]) (by simp [dlDirStr]) hin'

/-- the directory `DownloadAdd` makes (with everything missing on the way) is the cleaned target, and that lies inside the
    agent's Download directory: nothing is made outside it, whatever `..` the reported name walks through -/
theorem downloadAdd_makes_inside (agentsDir : List Bytes) (a : LootAgent) (name : Bytes)
    (h : insideDir (dlTarget agentsDir a name) (dlDirStr agentsDir a) = true) :
    (cleanComps (dlDirStr agentsDir a)).2 <+: (cleanComps (dlTarget agentsDir a name)).2 :=
  insideDir_components _ _ (by simp [dlTarget, dlDirStr]) (by simp [dlDirStr]) h

/-- chunks for unknown or closed file ids are written nowhere -/
theorem stray_write_inert (fs : Fs) (a : LootAgent) (fid : Nat) (data : Bytes)
    (h : a.downloads.find? (·.fileId == fid) = none) :
    downloadWrite fs a fid data = (fs, a, false) := by
  simp [downloadWrite, h]

/-- writing chunk after chunk through one handle that starts at the end of the file appends -/
def writeSeq (fs : Fs) (p : List Bytes) : Nat → List Bytes → Fs
  | _, [] => fs
  | off, c :: cs => writeSeq (fs.writeAt p off c) p (off + c.length) cs

theorem get_set_same (fs : Fs) (p : List Bytes) (n : Node) : (fs.set p n).get p = some n := by
  simp [Fs.set, Fs.get, List.lookup]

/-- a file's content is exactly the concatenation, in arrival order, of the chunks written
    through its handle (no other handle on the same file) -/
theorem content_exact (fs : Fs) (p : List Bytes) (content : Bytes) (chunks : List Bytes)
    (h : fs.get p = some (.file content)) :
    (writeSeq fs p content.length chunks).get p = some (.file (content ++ chunks.flatten)) := by
  induction chunks generalizing fs content with
  | nil => simpa [writeSeq] using h
  | cons c cs ih =>
    simp only [writeSeq, List.flatten_cons]
    have hw : (fs.writeAt p content.length c).get p = some (.file (content ++ c)) := by
      simp only [Fs.writeAt, h, Nat.le_refl, if_true, List.take_length]
      rw [get_set_same]
      simp
    have := ih (fs.writeAt p content.length c) (content ++ c) hw
    simpa [List.append_assoc] using this

/-! non-vacuity / model tests -/
example : insideDir (asciiBytes "/l/a/id/Download/sub/../x") (asciiBytes "/l/a/id/Download") = true := by decide
example : insideDir (asciiBytes "/l/a/id/Download/../../other/Download") (asciiBytes "/l/a/id/Download") = false := by decide
example : validAgentId (asciiBytes "0000beef") = true ∧ validAgentId (asciiBytes "../x") = false
    ∧ validAgentId (asciiBytes "..") = false := by decide

/-- regenerated (`Gen.TableWrites`): every assignment to these tables anywhere in the teamserver is an append at the end,
    a delete of one index, the hand-out split, `nil` / an empty literal, or a slice built up freshly in a local - never a
    re-slice to length 0 or a filter in place, whose later appends would overwrite what an earlier reader still holds.
    The models' immutable lists are faithful to the Go slices only under this fact. -/
theorem downloads_writes_value_like :
    aliasingWrites ["Downloads"] = [] ∧ writtenTables ["Downloads"] = ["Downloads"] ∧ Gen.TableWrites.reslicesToZero = [] := by decide

end Havoc.C07
