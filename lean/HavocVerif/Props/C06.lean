import HavocVerif.Model.Auth
import HavocVerif.Model.Service
/-
  C06 — Nothing is given to, or accepted from, an unauthenticated connection.
-/
namespace Havoc.C06
open Havoc

/-- a first message authenticates exactly when it names an operator of the profile, is an
    Init/OAuth request, and carries (as a string) the hex digest stored for that operator -/
theorem auth_iff (cfg : AuthCfg) (m : LoginMsg) :
    authOk cfg m = true ↔
      m.event = cfg.initEvent ∧ m.sub = cfg.oauthSub ∧ ∃ h, cfg.users.lookup m.user = some h ∧ m.password = some h := by
  unfold authOk
  cases hl : cfg.users.lookup m.user with
  | none => simp
  | some h =>
    simp only [Bool.and_eq_true, beq_iff_eq, Option.some.injEq, exists_eq_left']
    constructor
    · rintro ⟨⟨a, b⟩, c⟩; exact ⟨a, b, c⟩
    · rintro ⟨a, b, c⟩; exact ⟨⟨a, b⟩, c⟩

theorem login_success_iff (cfg : AuthCfg) (m : LoginMsg) :
    loginAnswer cfg m = Frame.authSuccess ↔ authOk cfg m = true := by
  unfold loginAnswer
  by_cases hu : (cfg.users.lookup m.user).isNone = true
  · have : authOk cfg m = false := by
      unfold authOk
      cases hl : cfg.users.lookup m.user with
      | none => simp
      | some h => simp [hl] at hu
    simp [hu, this]
  · by_cases ha : authOk cfg m = true <;> simp [hu, ha]

theorem login_answer_error (cfg : AuthCfg) (m : LoginMsg) (h : loginAnswer cfg m ≠ Frame.authSuccess) :
    (loginAnswer cfg m).isError = true := by
  unfold loginAnswer at h ⊢
  by_cases hu : (cfg.users.lookup m.user).isNone = true
  · simp [hu, Frame.isError]
  · by_cases ha : authOk cfg m = true
    · simp [hu, ha] at h
    · simp [hu, ha, Frame.isError]

/-- whoever a broadcast reaches is authenticated at that moment -/
theorem broadcast_only_authed (s : OpSrv) (f : Frame) (ex : Option Nat) (c : Nat) (g : Frame)
    (h : (c, g) ∈ (s.broadcast f ex).delivered) :
    (c, g) ∈ s.delivered ∨ ∃ u, (c, CState.authed u) ∈ s.conns := by
  simp only [OpSrv.broadcast, List.mem_append, List.mem_map, List.mem_reverse, List.mem_filter] at h
  rcases h with h | ⟨⟨c', st⟩, ⟨hm, hf⟩, he⟩
  · left; exact h
  · right
    simp only [Prod.mk.injEq] at he
    obtain ⟨rfl, rfl⟩ := he
    simp only [Bool.and_eq_true] at hf
    cases st with
    | authed u => exact ⟨u, hm⟩
    | fresh => simp [isAuthed] at hf
    | dead => simp [isAuthed] at hf

/-- Pre-authentication silence: whatever a step newly delivers to a connection is an error
    answer to that connection's own first message, or the connection is authenticated (in the
    state the frame was sent from / the state after a successful login). -/
theorem step_silence (cfg : AuthCfg) (s : OpSrv) (op : SrvOp) (c : Nat) (f : Frame)
    (hnew : (c, f) ∈ (srvStep cfg s op).delivered) (hold : (c, f) ∉ s.delivered) :
    f.isError = true ∨ (∃ u, (c, CState.authed u) ∈ s.conns) ∨
      (∃ u, (c, CState.authed u) ∈ (srvStep cfg s op).conns) := by
  cases op with
  | connect c' =>
    have : (srvStep cfg s (.connect c')).delivered = s.delivered := by
      simp only [srvStep]; split <;> rfl
    rw [this] at hnew; exact absurd hnew hold
  | close c' =>
    have : (srvStep cfg s (.close c')).delivered = s.delivered := by
      simp only [srvStep]; split <;> rfl
    rw [this] at hnew; exact absurd hnew hold
  | record e one ex =>
    simp only [srvStep] at hnew
    rcases broadcast_only_authed _ _ _ _ _ hnew with h | ⟨u, h⟩
    · have : (c, f) ∈ s.delivered := by split at h <;> exact h
      exact absurd this hold
    · right; left; exact ⟨u, by split at h <;> exact h⟩
  | newSession a =>
    simp only [srvStep] at hnew
    rcases broadcast_only_authed _ _ _ _ _ hnew with h | ⟨u, h⟩
    · exact absurd h hold
    · right; left; exact ⟨u, h⟩
  | message c' m =>
    simp only [srvStep] at hnew ⊢
    by_cases hf : s.stateOf c' = some .fresh
    · simp only [hf, if_true] at hnew ⊢
      by_cases hs : loginAnswer cfg m = Frame.authSuccess
      · simp only [hs, if_true, OpSrv.deliver, OpSrv.setState, List.mem_append, List.mem_cons, List.mem_map,
          Prod.mk.injEq, List.not_mem_nil, or_false] at hnew ⊢
        have hc : c = c' := by
          rcases hnew with h | (⟨rfl, _⟩ | ⟨e, _, rfl, _⟩) | ⟨a, _, rfl, _⟩
          · exact absurd h hold
          · rfl
          · rfl
          · rfl
        subst hc
        right; right; exact ⟨m.user, by simp⟩
      · simp only [hs, if_false, OpSrv.deliver, OpSrv.setState, List.mem_append, List.mem_singleton, Prod.mk.injEq] at hnew
        rcases hnew with h | ⟨_, rfl⟩
        · exact absurd h hold
        · left; exact login_answer_error cfg m hs
    · simp only [hf, if_false] at hnew; exact absurd hnew hold

/-- a message from a connection that is not in its fresh state changes nothing at all: no
    replay, no action, nothing recorded (so nothing can be triggered before authentication
    by anything but the one login message) -/
theorem nonfresh_message_inert (cfg : AuthCfg) (s : OpSrv) (c : Nat) (m : LoginMsg)
    (h : s.stateOf c ≠ some .fresh) : srvStep cfg s (.message c m) = s := by
  simp [srvStep, h]

/-- a failed first message is answered with exactly one error frame; nothing is recorded and
    the connection never becomes authenticated by it -/
theorem failed_login_one_error (cfg : AuthCfg) (s : OpSrv) (c : Nat) (m : LoginMsg)
    (hf : s.stateOf c = some .fresh) (hbad : authOk cfg m = false) :
    ∃ e, e.isError = true ∧ (srvStep cfg s (.message c m)).delivered = s.delivered ++ [(c, e)] ∧
      (srvStep cfg s (.message c m)).retained = s.retained ∧
      (srvStep cfg s (.message c m)).sessions = s.sessions := by
  have hs : loginAnswer cfg m ≠ Frame.authSuccess := by
    intro h; rw [login_success_iff] at h; rw [h] at hbad; exact absurd hbad (by simp)
  refine ⟨loginAnswer cfg m, login_answer_error cfg m hs, ?_, ?_, ?_⟩ <;>
    simp [srvStep, hf, hs, OpSrv.deliver, OpSrv.setState]

/-- a successful login receives the success frame, then every retained event in recording
    order, then every live session (C11's replay clause, same step function) -/
theorem login_replay (cfg : AuthCfg) (s : OpSrv) (c : Nat) (m : LoginMsg)
    (hf : s.stateOf c = some .fresh) (hok : authOk cfg m = true) :
    (srvStep cfg s (.message c m)).delivered = s.delivered ++
      ([(c, Frame.authSuccess)] ++ s.retained.map (fun e => (c, Frame.event e)) ++
        s.sessions.map (fun a => (c, Frame.session a))) := by
  have hs : loginAnswer cfg m = Frame.authSuccess := (login_success_iff cfg m).mpr hok
  simp [srvStep, hf, hs, OpSrv.deliver, OpSrv.setState]


/-! ### histories of the operator endpoint -/

def srvRun (cfg : AuthCfg) (s : OpSrv) (ops : List SrvOp) : OpSrv := ops.foldl (srvStep cfg) s

/-- For every history: every frame a connection ever received is an error answer, or the
    connection was authenticated at some point of the history (the frame is then the success
    answer, its replay, or a later broadcast). -/
theorem run_silence_from (cfg : AuthCfg) (ops : List SrvOp) : ∀ (s : OpSrv) (c : Nat) (f : Frame),
    (c, f) ∈ (srvRun cfg s ops).delivered →
    (c, f) ∈ s.delivered ∨ f.isError = true ∨
      ∃ n u, (c, CState.authed u) ∈ (srvRun cfg s (ops.take n)).conns := by
  induction ops with
  | nil => intro s c f h; left; exact h
  | cons op ops ih =>
    intro s c f h
    have h' : (c, f) ∈ (srvRun cfg (srvStep cfg s op) ops).delivered := h
    rcases ih _ c f h' with h1 | h1 | ⟨n, u, h1⟩
    · by_cases hold : (c, f) ∈ s.delivered
      · left; exact hold
      · rcases step_silence cfg s op c f h1 hold with e | ⟨u, hu⟩ | ⟨u, hu⟩
        · right; left; exact e
        · right; right; exact ⟨0, u, by simpa [srvRun] using hu⟩
        · right; right; exact ⟨1, u, by simpa [srvRun] using hu⟩
    · right; left; exact h1
    · right; right; exact ⟨n + 1, u, by simpa [srvRun] using h1⟩

theorem run_silence (cfg : AuthCfg) (ops : List SrvOp) (c : Nat) (f : Frame)
    (h : (c, f) ∈ (srvRun cfg {} ops).delivered) :
    f.isError = true ∨ ∃ n u, (c, CState.authed u) ∈ (srvRun cfg {} (ops.take n)).conns := by
  rcases run_silence_from cfg ops {} c f h with h | h
  · simp at h
  · exact h

/-- a connection becomes authenticated only by a first message that passes `authOk` -/
theorem authed_only_by_login (cfg : AuthCfg) (s : OpSrv) (op : SrvOp) (c : Nat) (u : Str)
    (h : (c, CState.authed u) ∈ (srvStep cfg s op).conns) (hold : (c, CState.authed u) ∉ s.conns) :
    ∃ m, op = .message c m ∧ authOk cfg m = true ∧ m.user = u ∧ s.stateOf c = some .fresh := by
  cases op with
  | connect c' =>
    simp only [srvStep] at h
    split at h
    · exact absurd h hold
    · simp only [OpSrv.setState, List.mem_cons, Prod.mk.injEq, List.mem_filter] at h
      rcases h with ⟨_, h⟩ | ⟨h, _⟩
      · cases h
      · exact absurd h hold
  | close c' =>
    simp only [srvStep] at h
    split at h
    · simp only [OpSrv.setState, List.mem_cons, Prod.mk.injEq, List.mem_filter] at h
      rcases h with ⟨_, h⟩ | ⟨h, _⟩
      · cases h
      · exact absurd h hold
    · exact absurd h hold
  | record e one ex =>
    have : (srvStep cfg s (.record e one ex)).conns = s.conns := by
      simp only [srvStep, OpSrv.broadcast]; split <;> rfl
    rw [this] at h; exact absurd h hold
  | newSession a =>
    have : (srvStep cfg s (.newSession a)).conns = s.conns := by simp [srvStep, OpSrv.broadcast]
    rw [this] at h; exact absurd h hold
  | message c' m =>
    simp only [srvStep] at h
    by_cases hf : s.stateOf c' = some .fresh
    · simp only [hf, if_true] at h
      by_cases hs : loginAnswer cfg m = Frame.authSuccess
      · simp only [hs, if_true, OpSrv.deliver, OpSrv.setState, List.mem_cons, Prod.mk.injEq, List.mem_filter] at h
        rcases h with ⟨rfl, h⟩ | ⟨h, _⟩
        · injection h with h
          exact ⟨m, rfl, (login_success_iff cfg m).mp hs, h.symm, hf⟩
        · exact absurd h hold
      · simp only [hs, if_false, OpSrv.deliver, OpSrv.setState, List.mem_cons, Prod.mk.injEq, List.mem_filter] at h
        rcases h with ⟨_, h⟩ | ⟨h, _⟩
        · cases h
        · exact absurd h hold
    · simp only [hf, if_false] at h; exact absurd h hold

/-! ### the service endpoint -/

theorem svc_auth_iff (H : Str → Str) (pw : Str) (hs : Option SvcHello) :
    svcAuth H pw hs = some true ↔ ∃ m, hs = some m ∧ m.type = headRegister ∧ H m.pass = H pw := by
  cases hs with
  | none => simp [svcAuth]
  | some m =>
    simp only [svcAuth]
    by_cases ht : m.type = headRegister
    · simp [ht]
    · simp [ht]

/-- everything in the service registries belongs to a connection that is authenticated now -/
def SvcInv (s : Svc) : Prop :=
  (∀ x ∈ s.agents, s.stateOf x.2 = some .authed) ∧ (∀ x ∈ s.listeners, s.stateOf x.2 = some .authed) ∧
  (∀ x ∈ s.endpoints, s.stateOf x.2.2 = some .authed)

theorem lookup_filter_ne {β : Type} (l : List (Nat × β)) (c d : Nat) (h : d ≠ c) :
    (l.filter (·.1 ≠ c)).lookup d = l.lookup d := by
  induction l with
  | nil => rfl
  | cons x xs ih =>
    obtain ⟨k, v⟩ := x
    by_cases hk : k = c
    · subst hk
      have hdk : (d == k) = false := by simp [h]
      have hf : ((k, v) :: xs).filter (·.1 ≠ k) = xs.filter (·.1 ≠ k) := by simp [List.filter_cons]
      rw [hf, ih, List.lookup_cons, hdk]
    · simp only [List.filter_cons, ne_eq, hk, not_false_eq_true, decide_true, if_true, List.lookup_cons, ih]

theorem stateOf_setState (s : Svc) (c d : Nat) (st : SvcConn) :
    (s.setState c st).stateOf d = if d = c then some st else s.stateOf d := by
  simp only [Svc.stateOf, Svc.setState, List.lookup_cons]
  by_cases h : d = c
  · simp [h]
  · have : (d == c) = false := by simp [h]
    simp only [this, h, if_false]
    exact lookup_filter_ne s.conns c d h

theorem svc_step_inv (H : Str → Str) (pw : Str) (s : Svc) (op : SvcOp) (h : SvcInv s) : SvcInv (svcStep H pw s op) := by
  obtain ⟨ha, hl, he⟩ := h
  -- changing the state of a connection that owns nothing (fresh/closed/absent) keeps the invariant
  have keep : ∀ (c : Nat) (st : SvcConn), s.stateOf c ≠ some .authed → SvcInv (s.setState c st) := by
    intro c st hc
    refine ⟨fun x hx => ?_, fun x hx => ?_, fun x hx => ?_⟩
    · rw [stateOf_setState]; split
      · rename_i e; exact absurd (e ▸ ha x hx) hc
      · exact ha x hx
    · rw [stateOf_setState]; split
      · rename_i e; exact absurd (e ▸ hl x hx) hc
      · exact hl x hx
    · rw [stateOf_setState]; split
      · rename_i e; exact absurd (e ▸ he x hx) hc
      · exact he x hx
  cases op with
  | connect c =>
    simp only [svcStep]
    split
    · exact ⟨ha, hl, he⟩
    · rename_i hn
      exact keep c .fresh (by intro e; rw [e] at hn; simp at hn)
  | close c =>
    simp only [svcStep]
    split
    · -- authed: drop everything it owns, then close
      refine ⟨fun x hx => ?_, fun x hx => ?_, fun x hx => ?_⟩ <;>
        simp only [Svc.setState, Svc.dropOwner, List.mem_filter, ne_eq, decide_eq_true_eq] at hx
      · have := stateOf_setState (s.dropOwner c) c x.2 .closed
        rw [this]; simp only [hx.2, if_false]; exact ha x hx.1
      · have := stateOf_setState (s.dropOwner c) c x.2 .closed
        rw [this]; simp only [hx.2, if_false]; exact hl x hx.1
      · have := stateOf_setState (s.dropOwner c) c x.2.2 .closed
        rw [this]; simp only [hx.2, if_false]; exact he x hx.1
    · rename_i hf; exact keep c .closed (by rw [hf]; simp)
    · exact ⟨ha, hl, he⟩
  | message c hs req =>
    simp only [svcStep]
    split
    · rename_i hf
      have hne : s.stateOf c ≠ some .authed := by rw [hf]; simp
      split
      · -- becomes authenticated: owns nothing yet, everything else unchanged
        refine ⟨fun x hx => ?_, fun x hx => ?_, fun x hx => ?_⟩
        · show (s.setState c .authed).stateOf x.2 = _
          rw [stateOf_setState]; split
          · rfl
          · exact ha x hx
        · show (s.setState c .authed).stateOf x.2 = _
          rw [stateOf_setState]; split
          · rfl
          · exact hl x hx
        · show (s.setState c .authed).stateOf x.2.2 = _
          rw [stateOf_setState]; split
          · rfl
          · exact he x hx
      · exact keep c .closed hne
      · exact keep c .closed hne
    · rename_i hauth
      cases req with
      | registerAgent n =>
        simp only [Svc.dispatch]; split
        · exact ⟨ha, hl, he⟩
        · refine ⟨fun x hx => ?_, hl, he⟩
          simp only [List.mem_append, List.mem_singleton] at hx
          rcases hx with hx | rfl
          · exact ha x hx
          · exact hauth
      | listenerAdd n =>
        simp only [Svc.dispatch]; split
        · exact ⟨ha, hl, he⟩
        · refine ⟨ha, fun x hx => ?_, he⟩
          simp only [List.mem_append, List.mem_singleton] at hx
          rcases hx with hx | rfl
          · exact hl x hx
          · exact hauth
      | exc2 n e =>
        simp only [Svc.dispatch]; split
        · exact ⟨ha, hl, he⟩
        · refine ⟨ha, hl, fun x hx => ?_⟩
          simp only [List.mem_append, List.mem_singleton] at hx
          rcases hx with hx | rfl
          · exact he x hx
          · exact hauth
      | other => exact ⟨ha, hl, he⟩
    · exact ⟨ha, hl, he⟩

/-- For every history of the service endpoint: whatever is registered is owned by a
    connection that is authenticated — nothing is dispatched for anybody else. -/
theorem svc_nothing_before_password (H : Str → Str) (pw : Str) (ops : List SvcOp) : SvcInv (svcRun H pw ops) := by
  suffices h : ∀ s, SvcInv s → SvcInv (ops.foldl (svcStep H pw) s) from
    h {} ⟨by simp, by simp, by simp⟩
  induction ops with
  | nil => intro s h; exact h
  | cons op ops ih => intro s h; exact ih _ (svc_step_inv H pw s op h)

/-- … and a service connection becomes authenticated only by presenting the password -/
theorem svc_authed_only_by_password (H : Str → Str) (pw : Str) (s : Svc) (op : SvcOp) (c : Nat)
    (h : (svcStep H pw s op).stateOf c = some .authed) (hold : s.stateOf c ≠ some .authed) :
    ∃ m req, op = .message c (some m) req ∧ m.type = headRegister ∧ H m.pass = H pw := by
  cases op with
  | connect c' =>
    simp only [svcStep] at h
    split at h
    · exact absurd h hold
    · rw [stateOf_setState] at h; split at h
      · cases h
      · exact absurd h hold
  | close c' =>
    simp only [svcStep] at h
    split at h
    · rw [stateOf_setState] at h; split at h
      · cases h
      · exact absurd h hold
    · rw [stateOf_setState] at h; split at h
      · cases h
      · exact absurd h hold
    · exact absurd h hold
  | message c' hs req =>
    simp only [svcStep] at h
    split at h
    · split at h
      · rename_i hauth
        have hst : (s.setState c' .authed).stateOf c = some .authed := h
        rw [stateOf_setState] at hst
        split at hst
        · rename_i e; subst e
          obtain ⟨m, rfl, ht, hp⟩ := (svc_auth_iff H pw hs).mp hauth
          exact ⟨m, req, rfl, ht, hp⟩
        · exact absurd hst hold
      · have hst : (s.setState c' .closed).stateOf c = some .authed := h
        rw [stateOf_setState] at hst; split at hst
        · cases hst
        · exact absurd hst hold
      · rw [stateOf_setState] at h; split at h
        · cases h
        · exact absurd h hold
    · have : (s.dispatch c' req).stateOf c = s.stateOf c := by
        cases req <;> simp only [Svc.dispatch, Svc.stateOf] <;> (try split) <;> rfl
      rw [this] at h; exact absurd h hold
    · exact absurd h hold

example : svcAuth id "pw".toList (some ⟨"Register".toList, "pw".toList⟩) = some true := by decide
example : svcAuth id "pw".toList (some ⟨"Register".toList, "no".toList⟩) = some false := by decide
example : svcAuth id "pw".toList (some ⟨"RegisterAgent".toList, "pw".toList⟩) = none := by decide

/-! non-vacuity -/
example : authOk ⟨[("alice".toList, "ab12".toList)], 1, 3⟩ ⟨1, 3, "alice".toList, some "ab12".toList⟩ = true := by decide
example : authOk ⟨[("alice".toList, "ab12".toList)], 1, 3⟩ ⟨1, 3, "alice".toList, none⟩ = false := by decide

end Havoc.C06
