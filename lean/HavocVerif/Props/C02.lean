import HavocVerif.Lemmas.Frame
import HavocVerif.Model.TaskTable
import HavocVerif.Model.Queue
import HavocVerif.Gen.JobCodec
import HavocVerif.Gen.SrcLines
/-
  C02 — An operator's task reaches the agent exactly as issued.
-/
namespace Havoc.C02
open Havoc

/-- regenerated fact: the Demon's task loop goes on while at least one frame header is left -/
theorem loop_continues (n : Nat) (h : n ≥ 12) : Gen.Demon.dispatcherContinue n = true :=
  Havoc.loop_continues n h

theorem loop_stops : Gen.Demon.dispatcherContinue 0 = false := Havoc.loop_stops

/-- regenerated fact: a frame is read as command, request id, length-prefixed body, and
    the body is decrypted with the session key/IV before the handler runs -/
theorem frame_reads :
    Gen.Demon.dispatcherFrameReads = ["ParserGetInt32", "ParserGetInt32", "ParserGetBytes"]
    ∧ Gen.Demon.dispatcherDecryptsTask = true
    ∧ Gen.Demon.dispatcherSkipConst = "DEMON_COMMAND_NO_JOB" := by decide

/-- the Demon's reader widths are the ones the model uses -/
theorem parser_widths :
    Gen.Demon.parserWidths = [("ParserGetBool", 4), ("ParserGetByte", 1), ("ParserGetInt16", 2),
      ("ParserGetInt32", 4), ("ParserGetInt64", 8)] := by decide

/-- Go and C agree on the ids both sides of the wire use -/
theorem consts_agree :
    [("COMMAND_GET_JOB", "DEMON_COMMAND_GET_JOB"), ("COMMAND_NOJOB", "DEMON_COMMAND_NO_JOB"),
     ("COMMAND_CHECKIN", "DEMON_COMMAND_CHECKIN"), ("COMMAND_SLEEP", "DEMON_COMMAND_SLEEP"),
     ("COMMAND_PROC", "DEMON_COMMAND_PROC"), ("COMMAND_PROC_LIST", "DEMON_COMMAND_PROC_LIST"),
     ("COMMAND_FS", "DEMON_COMMAND_FS"), ("COMMAND_INLINEEXECUTE", "DEMON_COMMAND_INLINE_EXECUTE"),
     ("COMMAND_JOB", "DEMON_COMMAND_JOB"), ("COMMAND_INJECT_DLL", "DEMON_COMMAND_INJECT_DLL"),
     ("COMMAND_INJECT_SHELLCODE", "DEMON_COMMAND_INJECT_SHELLCODE"),
     ("COMMAND_SPAWNDLL", "DEMON_COMMAND_SPAWN_DLL"), ("COMMAND_TOKEN", "DEMON_COMMAND_TOKEN"),
     ("COMMAND_ASSEMBLY_INLINE_EXECUTE", "DEMON_COMMAND_ASSEMBLY_INLINE_EXECUTE"),
     ("COMMAND_ASSEMBLY_LIST_VERSIONS", "DEMON_COMMAND_ASSEMBLY_VERSIONS"),
     ("COMMAND_NET", "DEMON_COMMAND_NET"), ("COMMAND_CONFIG", "DEMON_COMMAND_CONFIG"),
     ("COMMAND_SCREENSHOT", "DEMON_COMMAND_SCREENSHOT"), ("COMMAND_PIVOT", "DEMON_COMMAND_PIVOT"),
     ("COMMAND_TRANSFER", "DEMON_COMMAND_TRANSFER"), ("COMMAND_SOCKET", "DEMON_COMMAND_SOCKET"),
     ("COMMAND_KERBEROS", "DEMON_COMMAND_KERBEROS"), ("COMMAND_MEM_FILE", "DEMON_COMMAND_MEM_FILE"),
     ("COMMAND_EXIT", "DEMON_EXIT"), ("DEMON_INIT", "DEMON_INITIALIZE"),
     ("DEMON_MAGIC_VALUE", "DEMON_MAGIC_VALUE"),
     ("DEMON_PIVOT_SMB_COMMAND", "DEMON_PIVOT_SMB_COMMAND"),
     ("DEMON_PIVOT_SMB_CONNECT", "DEMON_PIVOT_SMB_CONNECT"),
     ("DEMON_PIVOT_SMB_DISCONNECT", "DEMON_PIVOT_SMB_DISCONNECT")].all
      (fun (g, c) => (Gen.Consts.go_agent.lookup g).isSome
        && Gen.Consts.go_agent.lookup g == Gen.Consts.demon.lookup c) = true := by decide

/-- per-task encryption is an involution and keeps lengths, for every keystream -/
theorem xcrypt_involutive (ks : KeyStream) (bs : Bytes) : xcrypt ks (xcrypt ks bs) = bs :=
  Havoc.xcrypt_involutive ks bs

theorem xcrypt_length (ks : KeyStream) (bs : Bytes) : (xcrypt ks bs).length = bs.length :=
  Havoc.xcrypt_length ks bs

/-- Read the way the Demon reads them, the bytes of any non-empty batch yield exactly
    the issued (command, request id, body) sequence — every batch size, every argument
    list, every keystream. -/
theorem frame_roundtrip (ks : KeyStream) (j : Job) (js : List Job) (h : ∀ x ∈ j :: js, x.wf) :
    demonDispatch ks (buildPayload ks (j :: js)) = some ((j :: js).map Job.view) :=
  dispatch_roundtrip ks j js h

/-- a no-job reply is read as "nothing to do" -/
theorem nojob_roundtrip (ks : KeyStream) : demonDispatch ks (buildPayload ks [noJob]) = some [] := by
  have e : buildPayload ks [noJob] = le32 Gen.Consts.COMMAND_NOJOB ++ (le32 0 ++ (le32 0 ++ [])) := by
    simp [buildPayload, Job.frame, Job.body, noJob, Gen.Consts.COMMAND_NOJOB]
  have c : cGetBytes (le32 0 ++ []) = some ([], []) := by decide
  unfold demonDispatch
  rw [e]
  show demonLoop ks (12 + 1) _ [] = _
  simp only [demonLoop, cGetInt32_le _ _ (by decide : Gen.Consts.COMMAND_NOJOB < 4294967296),
    cGetInt32_le _ _ (by decide : 0 < 4294967296), c, ne_eq, not_true_eq_false, if_false,
    List.length_nil, loop_stops]
  rfl

/-- arguments come out in the order and with the values issued when the handler reads
    them with the matching kinds -/
theorem args_roundtrip (args : List Arg) (h : ∀ a ∈ args, a.wf) :
    demonRead (args.map Arg.ckind) (args.flatMap Arg.encode) = some (args.map Arg.cview, []) := by
  have := demonRead_args args [] h
  simpa using this

/-- nothing of a task body is sent in clear: the bytes after a frame's 12-byte header
    are exactly the body xored with the keystream from offset 0 -/
theorem body_under_keystream (ks : KeyStream) (j : Job) (h : j.wf) :
    (j.frame ks).drop 12 = xcrypt ks j.body := by
  rw [Job.frame_eq ks j h]
  have : j.cipher ks = xcrypt ks j.body := by
    unfold Job.cipher
    by_cases hb : j.body.length > 0
    · simp [hb]
    · have : j.body = [] := List.eq_nil_of_length_eq_zero (by omega)
      simp [this, xcrypt, xcryptFrom]
  rw [this]
  simp [le32]

/-! non-vacuity -/
example : (⟨11, 7, [.int 5, .str [104, 105], .bool true]⟩ : Job).wf := by
  refine ⟨by decide, by decide, by decide, by decide⟩
example : ∀ a ∈ [Arg.int 5, .str [104, 105], .bytes [], .uint64 (2^64 - 1)], a.wf := by
  intro a ha; simp at ha; rcases ha with rfl | rfl | rfl | rfl <;> simp [Arg.wf, cstr, endsWithNul]

/-! ### the operator's commands, as the Demon's handlers read them -/
section TaskTable
open Havoc.TaskTable

/-- (regenerated) every operator command of the table is served by a handler the Demon's dispatch table knows,
    under a command id its headers define, and every read of that handler (before its switch and in the case)
    is one of the parser functions the model gives a width to -/
theorem table_resolves : table.all (fun e => e.commandId.isSome && e.kinds.isSome) = true := by decide

/-- (regenerated) the reads the table relies on, command by command: the sub-command first where the handler has
    a switch, then exactly the parameters the operator gives, in the handler's order -/
theorem table_kinds :
    (table.map fun e => (e.name, e.kinds)) =
      [("sleep", some [.int32, .int32]),
       ("fs.cd", some [.int32, .bytes]), ("fs.remove", some [.int32, .bytes]), ("fs.mkdir", some [.int32, .bytes]),
       ("fs.download", some [.int32, .bytes]), ("fs.cat", some [.int32, .bytes]),
       ("fs.cp", some [.int32, .bytes, .bytes]), ("fs.mv", some [.int32, .bytes, .bytes]), ("fs.pwd", some [.int32]), ("fs.upload", some [.int32, .bytes, .int32]),
       ("proc.kill", some [.int32, .int32]), ("proc.modules", some [.int32, .int32]), ("proc.grep", some [.int32, .bytes]),
       ("job.list", some [.int32]), ("job.suspend", some [.int32, .int32]), ("job.resume", some [.int32, .int32]), ("job.kill", some [.int32, .int32]),
       ("token.impersonate", some [.int32, .int32]), ("token.remove", some [.int32, .int32]),
       ("pivot.connect", some [.int32, .bytes]), ("pivot.disconnect", some [.int32, .int32]),
       ("transfer.list", some [.int32]), ("transfer.stop", some [.int32, .int32]), ("transfer.resume", some [.int32, .int32]), ("transfer.remove", some [.int32, .int32]),
       ("exit.thread", some [.int32]), ("exit.process", some [.int32]), ("proclist", some [.int32]),
       ("config.verbose", some [.int32, .int32]), ("config.coffee.veh", some [.int32, .int32]), ("config.coffee.threaded", some [.int32, .int32]),
       ("config.sleep-technique", some [.int32, .int32]), ("config.memory.alloc", some [.int32, .int32]), ("config.memory.execute", some [.int32, .int32]),
       ("config.inject.technique", some [.int32, .int32]), ("config.spawn64", some [.int32, .bytes]), ("config.spawn32", some [.int32, .bytes]),
       ("config.killdate", some [.int32, .int64]),
       ("kerb.luid", some [.int32]), ("kerb.klist", some [.int32, .int32, .int32]), ("kerb.purge", some [.int32, .int32]), ("kerb.ptt", some [.int32, .bytes, .int32]),
       ("config.workinghours", some [.int32, .int32])] := by decide

/-- a logon session id is read in base 16 whether or not it starts with 0x: "10" is sixteen, "0x3e7" and "3e7" are 999 -/
example : luid [49, 48] = some 16 ∧ luid [48, 120, 51, 101, 55] = some 999 ∧ luid [51, 101, 55] = some 999 ∧ luid [48, 49, 50] = some 18 := by decide

/-- the working hours word a `config workinghours` task must carry: every field in its own bits (the end minute needs six) -/
example : (find "config.workinghours").bind (fun e => e.expect [[57, 58, 51, 48, 45, 49, 55, 58, 52, 53]]) =   -- "9:30-17:45"
    some [.int32 (4194304 + 9 * 131072 + 30 * 2048 + 17 * 64 + 45)] := by decide


/- the wide string the Demon must receive for a parameter outside the BMP: surrogate pairs, NUL terminator -/
example : wstr [0xF0, 0x9F, 0x93, 0x81] = some (.bytes [0x3D, 0xD8, 0xC1, 0xDC, 0, 0]) := by
  simp [wstr, scalars, encodeUTF16LE, utf16Units, le16]
  decide

/-- (regenerated) an in-memory file reaches the Demon as (id, total size, chunk) -/
theorem memfile_reads :
    (Gen.DemonHandlers.reads.find? (fun r => r.1 == "CommandMemFile" && r.2.1 == "")).map (·.2.2) =
      some ["ParserGetInt32", "ParserGetInt64", "ParserGetBytes"] := by decide

end TaskTable

/-! ### The argument encoder of `BuildPayloadMessage`, regenerated from agent.go on every run -/

/-- the number of bytes one argument adds to `DataPayload`, read from the extracted table: the buffers made, plus the
    argument itself where the case appends twice (length prefix, then the bytes) -/
def tableEncodeLen (a : Arg) : Option Nat :=
  (Gen.JobCodec.encodeCases.find? (·.1 == a.goType)).map fun (_, mk, _, ap) =>
    mk.sum + if ap == 2 then (match a with | .str s => (cstr s).length | .bytes b => b.length | _ => 0) else 0

theorem encode_length_is_source_table (a : Arg) : tableEncodeLen a = some (a.encode).length := by
  cases a <;> simp [tableEncodeLen, Gen.JobCodec.encodeCases, Arg.goType, Arg.encode, le32, le64, le16] <;> omega

def putWidth : String → Nat
  | "PutUint16" => 2 | "PutUint32" => 4 | "PutUint64" => 8 | _ => 0

/-- every `binary.LittleEndian.Put*` call of the encoder writes exactly the buffer its case made (little endian, full
    width), and the only case without one is the single byte -/
theorem put_fills_buffer :
    Gen.JobCodec.encodeCases.all (fun (t, mk, puts, _) =>
      (puts.all fun f => [putWidth f] == mk) && (puts.isEmpty == (t == "byte"))) = true := by decide

/-- the string case (terminator added unless present, length prefix counts it), the byte-string case, and the frame:
    command, request id, body length, then the body encrypted in one call of its own and only when it is not empty -/
theorem encoder_transcribed :
    Gen.JobCodec.encodeString =
      ["var size = make([]byte, 4)", "str := job.Data[i].(string)",
       "if strings.HasSuffix(str, \"\\x00\") == false { str += \"\\x00\" }",
       "binary.LittleEndian.PutUint32(size, uint32(len(str)))",
       "DataPayload = append(DataPayload, size...)", "DataPayload = append(DataPayload, []byte(str)...)", "break"] ∧
    Gen.JobCodec.encodeBytes =
      ["var size = make([]byte, 4)", "binary.LittleEndian.PutUint32(size, uint32(len(job.Data[i].([]byte))))",
       "DataPayload = append(DataPayload, size...)", "DataPayload = append(DataPayload, job.Data[i].([]byte)...)", "break"] ∧
    Gen.JobCodec.encodeAfterArgs =
      ["binary.LittleEndian.PutUint32(DataCommandID, job.Command)",
       "PayloadPackage = append(PayloadPackage, DataCommandID...)",
       "binary.LittleEndian.PutUint32(RequestID, job.RequestID)",
       "PayloadPackage = append(PayloadPackage, RequestID...)",
       "binary.LittleEndian.PutUint32(PayloadPackageSize, uint32(len(DataPayload)))",
       "PayloadPackage = append(PayloadPackage, PayloadPackageSize...)",
       "if len(DataPayload) > 0 { DataPayload = crypt.XCryptBytesAES256(DataPayload, AesKey, AesIv) PayloadPackage = append(PayloadPackage, DataPayload...) DataPayload = nil }"] ∧
    Gen.JobCodec.encodeTail = ["return PayloadPackage"] :=
  ⟨rfl, rfl, rfl, rfl⟩

example : tableEncodeLen (.str [104, 105]) = some 7 ∧ tableEncodeLen (.str [104, 0]) = some 6 ∧
    tableEncodeLen (.byte 3) = some 1 := by decide

/-- regenerated from pkg/common/util.go and pkg/common/crypt/aes.go on every run: wide and narrow string parameters get
    their terminator unless they end in one and are encoded by x/text's UTF-16LE encoder (surrogate pairs for characters
    beyond the BMP: `encodeUTF16LE`) resp. taken as they are; `XCryptBytesAES256` makes a NEW CTR stream from the key and
    the IV on every call (`xcrypt ks` restarts at offset 0 for every task body) and writes into a buffer of its own -/
theorem string_and_crypt_transcribed :
    Gen.SrcLines.encodeUTF16 =
      ["EncodeUTF16(s string) []byte",
       "var err error",
       "if strings.HasSuffix(s, \"\\x00\") == false { s += \"\\x00\" }",
       "uni := unicode.UTF16(unicode.LittleEndian, unicode.IgnoreBOM)",
       "encoded, err := uni.NewEncoder().String(s)",
       "if err != nil { logger.Error(\"Failed to convert UTF8 to UTF16\") return []byte(\"\") }",
       "return []byte(encoded)"] ∧
    Gen.SrcLines.encodeUTF8 =
      ["EncodeUTF8(s string) []byte",
       "if strings.HasSuffix(s, \"\\x00\") == false { s += \"\\x00\" }",
       "return []byte(s)"] ∧
    Gen.SrcLines.xcryptBytesAES256 =
      ["XCryptBytesAES256(XBytes []byte, AESKey []byte, AESIv []byte) []byte",
       "var ( ReverseXBytes = make([]byte, len(XBytes)) )",
       "block, err := aes.NewCipher(AESKey)",
       "if err != nil { logger.Error(\"Decryption Error: \" + err.Error()) return []byte{} }",
       "stream := cipher.NewCTR(block, AESIv)",
       "stream.XORKeyStream(ReverseXBytes, XBytes)",
       "return ReverseXBytes"] :=
  ⟨rfl, rfl, rfl⟩

end Havoc.C02
