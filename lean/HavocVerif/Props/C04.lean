import HavocVerif.Lemmas.Queue
import HavocVerif.Lemmas.Chunks
/-
  C04 — Every queued task is delivered exactly once, in order, in bounded batches.
  (Sequential histories = all interleavings of atomic enqueue / check-in / clear
  operations; the step granularity at which the real code is atomic is discussed
  in DESIGN.md §5 C04 and checked through Gen.LockFacts.)
-/
namespace Havoc.C04
open Havoc

variable {α : Type} (size : α → Nat)

/-- Exactly once, in order: after ANY history of enqueues and check-ins (asking or
    not), what was handed out followed by what is still queued is exactly what was
    queued, in queueing order. -/
theorem fifo_refinement (ops : List (QOp α)) (hops : ∀ op ∈ ops, op ≠ QOp.clear) :
    (qrun size ops).delivered ++ (qrun size ops).queue = (qrun size ops).enqueued := by
  unfold qrun
  suffices h : ∀ (s : QState α), s.delivered ++ s.queue = s.enqueued →
      (ops.foldl (qstep size) s).delivered ++ (ops.foldl (qstep size) s).queue
        = (ops.foldl (qstep size) s).enqueued from h {} rfl
  induction ops with
  | nil => intro s h; simpa using h
  | cons op ops ih =>
    intro s h
    simp only [List.foldl_cons]
    exact ih (fun o ho => hops o (by simp [ho])) _
      (qstep_inv size s op (fun e => hops op (by simp) e) h)

/-- a check-in that asks gets the no-job reply exactly when nothing is queued -/
theorem nojob_iff_empty (q : List α) : (checkinBy size true q).1 = none ↔ q = [] := by
  unfold checkinBy
  constructor
  · intro h
    by_cases hq : q.length = 0
    · exact List.eq_nil_of_length_eq_zero hq
    · simp [hq] at h
  · intro h; simp [h]

/-- a check-in that does not ask never takes anything off the queue -/
theorem not_asked_keeps (q : List α) : checkinBy size false q = (none, q) := by
  simp [checkinBy]

theorem batch_nonempty (q : List α) (h : q ≠ []) : (getQueuedBy size maxResponse q).1 ≠ [] :=
  getQueuedBy_nonempty size maxResponse q h

/-- a reply stays under the 30 MB limit unless it is one single task -/
theorem batch_bound (q : List α) :
    (((getQueuedBy size maxResponse q).1).map size).sum < maxResponse
      ∨ (getQueuedBy size maxResponse q).1.length ≤ 1 :=
  getQueuedBy_bound size maxResponse q

/-- a single task at or over the limit is still delivered, alone -/
theorem big_job_alone (j : α) (js : List α) (h : size j ≥ maxResponse) :
    getQueuedBy size maxResponse (j :: js) = ([j], js) :=
  getQueuedBy_big_alone size maxResponse j js h

/-- batches are maximal: the loop stops only where the next task would reach the limit -/
theorem batch_maximal (q : List α) :
    countJobsBy size maxResponse q 0 0 = q.length ∨
      ∃ j, q[countJobsBy size maxResponse q 0 0]? = some j ∧
        0 + ((q.take (countJobsBy size maxResponse q 0 0)).map size).sum + size j ≥ maxResponse :=
  countJobsBy_maximal size maxResponse q 0

/-- the limit used is the one in commands.go (regenerated), 30 MiB -/
theorem limit_is_30MiB : maxResponse = 30 * 1024 * 1024 := by decide

/-- a pushed file: the chunks concatenate to exactly the file, for every file length
    (incl. 0 and exact multiples of the chunk size) -/
theorem chunks_concat (chunk : Nat) (hc : chunk > 0) (file : Bytes) :
    (memFileChunks chunk file).flatten = file := memFileChunks_concat chunk hc file

theorem chunks_bounded (chunk : Nat) (file : Bytes) :
    ∀ c ∈ memFileChunks chunk file, c.length ≤ chunk := memFileChunks_le chunk file

/-- every chunk job carries the same file id and the total size -/
theorem chunks_same_id (chunk fileId : Nat) (file : Bytes) (reqs : List Nat) :
    ∀ j ∈ memFileJobs chunk fileId file reqs,
      j.command = Gen.Consts.COMMAND_MEM_FILE ∧ j.data.take 2 = [.uint32 fileId, .uint64 file.length] := by
  intro j hj
  simp only [memFileJobs, List.mem_map] at hj
  obtain ⟨⟨c, i⟩, _, rfl⟩ := hj
  simp

/-! non-vacuity -/
example : (qrun (fun (n : Nat) => n) [.enqueue 5, .enqueue 31457280, .checkin true, .enqueue 1,
    .checkin false, .checkin true]).delivered = [5, 31457280] := by decide
example : memFileChunks 4 [1, 2, 3, 4, 5, 6, 7, 8] = [[1, 2, 3, 4], [5, 6, 7, 8], []] := by decide

end Havoc.C04
