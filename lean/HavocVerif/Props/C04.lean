import HavocVerif.Lemmas.Queue
import HavocVerif.Lemmas.Chunks
import HavocVerif.Lemmas.QueueConc
import HavocVerif.Model.Locks
import HavocVerif.Gen.JobCodec
/-
  C04 — Every queued task is delivered exactly once, in order, in bounded batches.
  (Sequential histories = all interleavings of atomic enqueue / check-in / clear
  operations; the step granularity at which the real code is atomic is discussed
  in DESIGN.md §5 C04 and checked through Gen.LockFacts.)
-/
namespace Havoc.C04
open Havoc

variable {α : Type} (size : α → Nat)

/-- Exactly once, in order: after ANY history of enqueues and check-ins (asking or
    not), what was handed out followed by what is still queued is exactly what was
    queued, in queueing order. -/
theorem fifo_refinement (ops : List (QOp α)) (hops : ∀ op ∈ ops, op ≠ QOp.clear) :
    (qrun size ops).delivered ++ (qrun size ops).queue = (qrun size ops).enqueued := by
  unfold qrun
  suffices h : ∀ (s : QState α), s.delivered ++ s.queue = s.enqueued →
      (ops.foldl (qstep size) s).delivered ++ (ops.foldl (qstep size) s).queue
        = (ops.foldl (qstep size) s).enqueued from h {} rfl
  induction ops with
  | nil => intro s h; simpa using h
  | cons op ops ih =>
    intro s h
    simp only [List.foldl_cons]
    exact ih (fun o ho => hops o (by simp [ho])) _
      (qstep_inv size s op (fun e => hops op (by simp) e) h)

/-- a check-in that asks gets the no-job reply exactly when nothing is queued -/
theorem nojob_iff_empty (q : List α) : (checkinBy size true q).1 = none ↔ q = [] := by
  unfold checkinBy
  constructor
  · intro h
    by_cases hq : q.length = 0
    · exact List.eq_nil_of_length_eq_zero hq
    · simp [hq] at h
  · intro h; simp [h]

/-- a check-in that does not ask never takes anything off the queue -/
theorem not_asked_keeps (q : List α) : checkinBy size false q = (none, q) := by
  simp [checkinBy]

theorem batch_nonempty (q : List α) (h : q ≠ []) : (getQueuedBy size maxResponse q).1 ≠ [] :=
  getQueuedBy_nonempty size maxResponse q h

/-- a reply stays under the 30 MB limit unless it is one single task -/
theorem batch_bound (q : List α) :
    (((getQueuedBy size maxResponse q).1).map size).sum < maxResponse
      ∨ (getQueuedBy size maxResponse q).1.length ≤ 1 :=
  getQueuedBy_bound size maxResponse q

/-- a single task at or over the limit is still delivered, alone -/
theorem big_job_alone (j : α) (js : List α) (h : size j ≥ maxResponse) :
    getQueuedBy size maxResponse (j :: js) = ([j], js) :=
  getQueuedBy_big_alone size maxResponse j js h

/-- batches are maximal: the loop stops only where the next task would reach the limit -/
theorem batch_maximal (q : List α) :
    countJobsBy size maxResponse q 0 0 = q.length ∨
      ∃ j, q[countJobsBy size maxResponse q 0 0]? = some j ∧
        0 + ((q.take (countJobsBy size maxResponse q 0 0)).map size).sum + size j ≥ maxResponse :=
  countJobsBy_maximal size maxResponse q 0

/-- the limit used is the one in commands.go (regenerated), 30 MiB -/
theorem limit_is_30MiB : maxResponse = 30 * 1024 * 1024 := by decide

/-- a pushed file: the chunks concatenate to exactly the file, for every file length
    (incl. 0 and exact multiples of the chunk size) -/
theorem chunks_concat (chunk : Nat) (hc : chunk > 0) (file : Bytes) :
    (memFileChunks chunk file).flatten = file := memFileChunks_concat chunk hc file

theorem chunks_bounded (chunk : Nat) (file : Bytes) :
    ∀ c ∈ memFileChunks chunk file, c.length ≤ chunk := memFileChunks_le chunk file

/-- every chunk job carries the same file id and the total size -/
theorem chunks_same_id (chunk fileId : Nat) (file : Bytes) (reqs : List Nat) :
    ∀ j ∈ memFileJobs chunk fileId file reqs,
      j.command = Gen.Consts.COMMAND_MEM_FILE ∧ j.data.take 2 = [.uint32 fileId, .uint64 file.length] := by
  intro j hj
  simp only [memFileJobs, List.mem_map] at hj
  obtain ⟨⟨c, i⟩, _, rfl⟩ := hj
  simp

/-! ## concurrency -/

/-- **Exactly once and in order under every schedule.**  Threads (any number of producers, the
    checking-in listener, …) run their own programs; `sched` is an arbitrary schedule of their
    atomic operations.  Then what has been handed out, followed by what is still queued, is the
    list of queued tasks in the order the queueing took effect, and the tasks of every producer
    appear in it exactly as that producer queued them. -/
theorem fifo_all_schedules {γ : Type} (size : Nat × γ → Nat) (ts : List (List (QOp (Nat × γ))))
    (sched : List Nat) (hclr : ∀ t ∈ ts, QOp.clear ∉ t) (htag : WellTagged ts) :
    let s := qrun size (interleave ts sched)
    s.delivered ++ s.queue = enqueuedOf (interleave ts sched) ∧
    ∀ i, (s.delivered ++ s.queue).filter (fun x => x.1 == i) = enqueuedOf (executed ts sched i) := by
  have hops : ∀ op ∈ interleave ts sched, op ≠ QOp.clear := by
    intro op hop e
    obtain ⟨t, ht, hin⟩ := mem_interleave ts sched op hop
    exact hclr t ht (e ▸ hin)
  have h1 := fifo_refinement size (interleave ts sched) hops
  rw [qrun_enqueued] at h1
  refine ⟨h1, fun i => ?_⟩
  rw [h1]; exact enq_filter ts sched i htag

open Gen.LockFacts in
/-- (regenerated from the source) every access to an agent's job queue and to its request-id record,
    in every package that touches them, happens with the agent's `JobMtx` held - so each queue
    operation is one atomic step of the schedules above -/
theorem queue_accesses_guarded :
    unguardedIn ["agent", "handlers", "server", "service", "socks"] ["JobQueue", "Tasks"] = [] := by decide

/-- regenerated (`Gen.TableWrites`): every assignment to these tables anywhere in the teamserver is an append at the end,
    a delete of one index, the hand-out split, `nil` / an empty literal, or a slice built up freshly in a local - never a
    re-slice to length 0 or a filter in place, whose later appends would overwrite what an earlier reader still holds.
    The models' immutable lists are faithful to the Go slices only under this fact. -/
theorem queue_writes_value_like :
    aliasingWrites ["JobQueue", "Tasks"] = [] ∧ writtenTables ["JobQueue", "Tasks"] = ["JobQueue", "Tasks"] ∧ Gen.TableWrites.reslicesToZero = [] := by decide

/-- the same on every control-flow path separately (regenerated `Gen.LockPaths`): no early return, branch or case of
    any of these functions leaves a mutex held that a `defer` does not release -/
theorem agent_locks_balanced_every_path : pathsUnbalancedIn ["agent", "handlers"] = [] := by decide

/-- … and no function returns with a mutex held -/
theorem agent_locks_balanced : unbalancedIn ["agent", "handlers"] = [] := by decide

/-! ### the lock is necessary: without it there are schedules that lose or repeat a task -/

/-- two producers load the same header; the second store overwrites the first: a task is lost -/
theorem unlocked_lost_update :
    let s := frun (α := Nat) [.load 1, .load 2, .storeAppend 1 10, .storeAppend 2 20]
    s.enqueued = [10, 20] ∧ s.delivered ++ s.cell = [20] := by decide

/-- a producer's store after the listener's take brings a delivered task back: it goes out twice -/
theorem unlocked_duplicate :
    let s := frun (α := Nat) [.load 0, .storeAppend 0 7, .load 1, .load 9, .storeTake 9 1, .storeAppend 1 8,
                              .load 9, .storeTake 9 2]
    s.enqueued = [7, 8] ∧ s.delivered = [7, 7, 8] := by decide

/-! non-vacuity: a concrete two-producer / one-consumer schedule -/
example :
    let ts : List (List (QOp (Nat × Nat))) :=
      [[.enqueue (0, 1), .enqueue (0, 2)], [.enqueue (1, 1), .enqueue (1, 2)], [.checkin true, .checkin true]]
    let s := qrun (fun _ => 1) (interleave ts [1, 0, 2, 0, 1, 2, 2])
    s.delivered = [(1, 1), (0, 1), (0, 2), (1, 2)] ∧ WellTagged ts := by
  refine ⟨by decide, ?_⟩
  intro i t hi x hx
  match i, hi with
  | 0, hi => simp at hi; subst hi; simp at hx; rcases hx with rfl | rfl <;> rfl
  | 1, hi => simp at hi; subst hi; simp at hx; rcases hx with rfl | rfl <;> rfl
  | 2, hi => simp at hi; subst hi; simp at hx
  | n + 3, hi => simp at hi


/-! non-vacuity -/
example : (qrun (fun (n : Nat) => n) [.enqueue 5, .enqueue 31457280, .checkin true, .enqueue 1,
    .checkin false, .checkin true]).delivered = [5, 31457280] := by decide
example : memFileChunks 4 [1, 2, 3, 4, 5, 6, 7, 8] = [[1, 2, 3, 4], [5, 6, 7, 8], []] := by decide

/-- a mutex guards a table only when both belong to the same object: the pivot wrapper is appended to the PARENT's queue,
    so it is the parent's mutex that has to be held -/
theorem another_objects_mutex_does_not_guard :
    guardsExpr "a.JobMtx" "pivots.Parent.JobQueue" = false ∧ guardsExpr "pivots.Parent.JobMtx" "pivots.Parent.JobQueue" = true ∧
    guardsExpr "a.JobMtx" "a.Tasks" = true ∧ guardsExpr "a.SocksCliMtx" "a.JobQueue" = false := by decide
example : unguarded ["JobQueue"] [.lock "a.JobMtx", .access "pivots.Parent.JobQueue", .unlock "a.JobMtx"] = ["JobQueue"] := by decide

/-! ### The size accounting and the cut of `GetQueuedJobs`, regenerated from agent.go on every run -/

/-- what the type switch of `GetQueuedJobs` adds to `JobsSize` for one argument, read from the extracted table -/
def tableQueueSize (a : Arg) : Option Nat :=
  (Gen.JobCodec.queueCases.find? (·.1 == a.goType)).map fun (_, k, l) => k + if l then a.goLen else 0

/-- for every argument the model's `Arg.queueSize` is what the source's type switch adds (all eleven types have a
    case; the two variable-length ones add `len` of the argument itself) -/
theorem queueSize_is_source_table (a : Arg) : tableQueueSize a = some a.queueSize := by
  cases a <;> rfl

/-- the loops and the cut: the batch bound is tested after a job's arguments have been added and before the job is
    counted (`countJobsBy`), a non-empty queue always hands out one job (`numJobsBy`), the batch is the first
    `NumJobs` entries and the queue keeps the rest (`getQueuedBy`) -/
theorem getQueuedJobs_transcribed :
    Gen.JobCodec.queueLoops = ["for _, job := range a.JobQueue", "for i := range job.Data", "switch job.Data[i].(type)"] ∧
    Gen.JobCodec.queueAfterArgs = ["if JobsSize >= DEMON_MAX_RESPONSE_LENGTH { break }", "NumJobs++"] ∧
    Gen.JobCodec.queueTail = ["if len(a.JobQueue) > 0 && NumJobs == 0 { NumJobs = 1 }",
      "Jobs, a.JobQueue = a.JobQueue[:NumJobs], a.JobQueue[NumJobs:]", "return Jobs"] :=
  ⟨rfl, rfl, rfl⟩

example : tableQueueSize (.str [104, 105]) = some 6 ∧ tableQueueSize (.uint64 7) = some 8 := by decide

end Havoc.C04
