import HavocVerif.Lemmas.Forest
import HavocVerif.Gen.SrcLines
/-
  C09 — The pivot graph is always a consistent forest, mirrored in the database.
-/
namespace Havoc.C09
open Havoc

/-- the event step with the agent's death in its "one consistent detach at a time" form
    (`diedSpec`); the loop form `Forest.died`, which mirrors `UnlinkFromAll` statement by
    statement, is what the driver runs, and the driver compares the two on every explored
    state (DESIGN.md §5 C09). -/
def specStep (f : Forest) : FOp → Forest
  | .died a => f.diedSpec a
  | op => f.step op

theorem register_inv (f : Forest) (h : f.Inv) (a : Nat) : (f.register a).Inv := by
  unfold Forest.register
  by_cases ha : f.agents.contains a = true
  · simp only [ha, if_true]; exact h
  · simp only [ha]
    refine ⟨h.linkIff, h.nodup, h.rowsIff, h.rowsNodup, h.noSelf, ?_⟩
    intro c hc
    exact h.closed c (fun hm => hc (by simp [hm]))

theorem step_inv (f : Forest) (h : f.Inv) (op : FOp) : (specStep f op).Inv := by
  cases op with
  | register a => exact register_inv f h a
  | connect p c => exact Forest.connect_inv f h p c
  | disconnect p c =>
    simp only [specStep, Forest.step, Forest.disconnect]
    split
    · exact Forest.linkRemove_inv f h p c
    · exact h
  | died a => exact Forest.diedSpec_inv f h a
  | markAlive a =>
    simp only [specStep, Forest.step, Forest.markAlive]
    split
    · exact Forest.inv_of_active f h _
    · exact h

/-- After ANY sequence of connect (new agent, existing agent, the sender itself, an
    ancestor), reconnect, disconnect, death and mark-alive events: an agent is among a
    parent's links exactly when that parent is its parent, links hold no duplicates, the
    persisted rows are exactly the live links, and nobody is its own parent. -/
theorem forest_inv (ops : List FOp) : (ops.foldl specStep {}).Inv := by
  suffices h : ∀ f : Forest, f.Inv → (ops.foldl specStep f).Inv from h {} Forest.inv_init
  induction ops with
  | nil => intro f h; exact h
  | cons op ops ih => intro f h; exact ih _ (step_inv f h op)

/-- at most one parent is structural (`parent : Nat → Option Nat`); the database agrees: -/
theorem db_one_parent (f : Forest) (h : f.Inv) (p q c : Nat) (h1 : (p, c) ∈ f.rows) (h2 : (q, c) ∈ f.rows) :
    p = q := by
  have a := (h.rowsIff p c).mp h1
  have b := (h.rowsIff q c).mp h2
  rw [a] at b; exact Option.some.inj b

/-- removing an agent with any number of links completes and detaches all of them -/
theorem died_detaches_all (f : Forest) (h : f.Inv) (a : Nat) (ha : f.agents.contains a = true) :
    (f.diedSpec a).links a = [] ∧ (f.diedSpec a).parent a = none ∧ ∀ c, (f.diedSpec a).parent c ≠ some a :=
  Forest.diedSpec_detached f h a ha

/-! ### no agent is its own ancestor (partial: see `acyclic_partial`) -/

/-- `c` is `p` or an ancestor of `p` -/
inductive UpStar (parent : Nat → Option Nat) : Nat → Nat → Prop
  | refl (a : Nat) : UpStar parent a a
  | step (c q p : Nat) : parent p = some q → UpStar parent c q → UpStar parent c p

/-- the cycle guard is sound: whenever it fires, `c` really is `p` or above it -/
theorem upReaches_sound (f : Forest) (fuel p c : Nat) (h : upReaches f fuel p c = true) :
    UpStar f.parent c p := by
  induction fuel generalizing p with
  | zero => simp [upReaches] at h
  | succ fuel ih =>
    simp only [upReaches] at h
    by_cases e : p = c
    · subst e; exact .refl p
    · simp only [e, if_false] at h
      cases hq : f.parent p with
      | none => simp [hq] at h
      | some q => simp only [hq] at h; exact .step c q p hq (ih q h)

def Acyclic (parent : Nat → Option Nat) : Prop := ∀ a, Acc (fun x y => parent y = some x) a

/-- cutting a link never creates a cycle -/
theorem acyclic_linkRemove (f : Forest) (h : Acyclic f.parent) (p c : Nat) (u : Bool) :
    Acyclic (f.linkRemove p c u).parent := by
  intro a
  apply Subrelation.accessible (r := fun x y => f.parent y = some x) _ (h a)
  intro x y hxy
  simp only [Forest.linkRemove] at hxy
  split at hxy
  · simp only [upd] at hxy
    split at hxy
    · simp at hxy
    · exact hxy
  · exact hxy

/-- attaching `c` below `p` keeps the graph acyclic provided `c` is neither `p` nor above it
    (what the guard checks).  PARTIAL: that `upReaches` with fuel `|agents| + 1` finds every
    ancestor (completeness of the guard) is checked by correspondence, not proved. -/
theorem acyclic_partial (parent : Nat → Option Nat) (h : Acyclic parent) (p c : Nat)
    (hnot : ¬ UpStar parent c p) : Acyclic (upd parent c (some p)) := by
  -- nodes from which `c` is not reachable upwards keep their (unchanged) up-set
  have key : ∀ z, (¬ UpStar parent c z) → Acc (fun x y => upd parent c (some p) y = some x) z := by
    intro z
    induction h z with
    | intro z _ ih =>
      intro hz
      refine Acc.intro z ?_
      intro y hy
      have hzc : z ≠ c := by intro e; subst e; exact hz (.refl z)
      simp only [upd, hzc, if_false] at hy
      exact ih y hy (fun hcy => hz (.step c y z hy hcy))
  intro a
  induction h a with
  | intro a _ ih =>
    refine Acc.intro a ?_
    intro y hy
    by_cases hac : a = c
    · subst hac
      simp only [upd, if_true] at hy
      have : y = p := (Option.some.inj hy).symm
      subst this
      exact key y hnot
    · simp only [upd, hac, if_false] at hy
      exact ih y hy

/-! non-vacuity / model tests (finite examples, labelled as tests) -/
example : (([FOp.register 1, FOp.connect 1 2, FOp.connect 2 3, FOp.connect 3 1, FOp.connect 1 3] : List FOp).foldl Forest.step {}).parent 3
    = some 1 := by decide
example : (([FOp.register 1, FOp.connect 1 2, FOp.connect 2 3, FOp.connect 3 1] : List FOp).foldl Forest.step {}).parent 1
    = none := by decide
example : let f := (([FOp.register 1, FOp.connect 1 2, FOp.connect 1 3, FOp.connect 3 4] : List FOp).foldl Forest.step {})
    ((f.died 1).agents.map fun a => ((f.died 1).parent a, (f.died 1).links a))
      = ((f.diedSpec 1).agents.map fun a => ((f.diedSpec 1).parent a, (f.diedSpec 1).links a)) := by decide

/-- regenerated from cmd/server/agent.go on every run: the four functions `Forest.died` / `Forest.linkRemove` / `addRow`
    transcribe, statement for statement.  `Died` detaches unconditionally (no test of `Active` in front of
    `UnlinkFromAll`); `UnlinkFromAll` removes the agent's own links first (rows and the children's parent pointers,
    list emptied afterwards) and then the agent from every other agent's list, with the row; `LinkRemove` clears the
    parent pointer only when it names this parent, deletes the first list entry with that id when asked to, and always
    removes the row and records the child -/
theorem forest_sources_transcribed :
    Gen.SrcLines.died =
      [
       "Died(Agent *agent.Agent)",
       "Agent.Active = false",
       "t.UnlinkFromAll(Agent)",
       "t.EventAgentMark(Agent.NameID, \"Dead\")",
       "t.AgentUpdate(Agent)"] ∧
    Gen.SrcLines.unlinkFromAll =
      [
       "UnlinkFromAll(Agent *agent.Agent)",
       "for _, LinkAgent := range Agent.Pivots.Links { t.LinkRemove(Agent, LinkAgent, false) }",
       "Agent.Pivots.Links = nil",
       "for _, ParentAgent := range t.Agents.Agents { if ParentAgent.NameID == Agent.NameID { continue } for i := range ParentAgent.Pivots.Links { if ParentAgent.Pivots.Links[i].NameID == Agent.NameID { t.LinkRemove(ParentAgent, Agent, false) ParentAgent.Pivots.Links = append(ParentAgent.Pivots.Links[:i], ParentAgent.Pivots.Links[i+1:]...) break } } }"] ∧
    Gen.SrcLines.linkRemove =
      [
       "LinkRemove(ParentAgent *agent.Agent, LinkAgent *agent.Agent, UpdateLinks bool)",
       "var ParentAgentID, _ = strconv.ParseInt(ParentAgent.NameID, 16, 64)",
       "var LinkAgentID, _ = strconv.ParseInt(LinkAgent.NameID, 16, 64)",
       "LinkAgent.Active = false",
       "LinkAgent.Reason = \"Disconnected\"",
       "if LinkAgent.Pivots.Parent == ParentAgent { LinkAgent.Pivots.Parent = nil }",
       "if UpdateLinks { for i := range ParentAgent.Pivots.Links { if ParentAgent.Pivots.Links[i].NameID == LinkAgent.NameID { ParentAgent.Pivots.Links = append(ParentAgent.Pivots.Links[:i], ParentAgent.Pivots.Links[i+1:]...) break } } }",
       "err := t.DB.LinkRemove(int(ParentAgentID), int(LinkAgentID))",
       "if err != nil { logger.Error(\"Could not remove link to database: \" + err.Error()) }",
       "t.AgentUpdate(LinkAgent)"] ∧
    Gen.SrcLines.linkAdd =
      [
       "LinkAdd(ParentAgent *agent.Agent, LinkAgent *agent.Agent) error",
       "var ParentAgentID, _ = strconv.ParseInt(ParentAgent.NameID, 16, 64)",
       "var LinkAgentID, _ = strconv.ParseInt(LinkAgent.NameID, 16, 64)",
       "err := t.DB.LinkAdd(int(ParentAgentID), int(LinkAgentID))",
       "if err != nil { logger.Error(\"Could not add link to database: \" + err.Error()) }",
       "return nil"] :=
  ⟨rfl, rfl, rfl, rfl⟩

end Havoc.C09
