import HavocVerif.Lemmas.CanIReadIff
import HavocVerif.Gen.SrcLines
import HavocVerif.Lemmas.Utf16
import HavocVerif.Spec.C03
import HavocVerif.Lemmas.Register
/-
  C03 — What an agent reports is what the teamserver records and shows.
  Property theorems only (helper lemmas live in Lemmas/).  Every theorem here is
  audited with `#print axioms` by the check.
-/
namespace Havoc.C03
open Havoc Parser

/-- 32-bit integers come out unchanged whatever follows them in the packet. -/
theorem parseInt32_spec (v : Nat) (rest : Bytes) (h : v < 4294967296) :
    parseInt32 ⟨be32 v ++ rest, true⟩ = (v, ⟨rest, true⟩) := parseInt32_be v rest h

/-- 64-bit values come out unchanged whatever follows them. -/
theorem parseInt64_spec (v : Nat) (rest : Bytes) (h : v < 18446744073709551616) :
    parseInt64 ⟨be64 v ++ rest, true⟩ = (v, ⟨rest, true⟩) := parseInt64_be v rest h

theorem parseBool_spec (b : Bool) (rest : Bytes) :
    parseBool ⟨be32 (if b then 1 else 0) ++ rest, true⟩ = (b, ⟨rest, true⟩) := parseBool_be b rest

/-- length-prefixed byte strings of any length and content come out unchanged. -/
theorem parseBytes_spec (d rest : Bytes) (h : d.length < 4294967296) :
    parseBytes ⟨be32 d.length ++ d ++ rest, true⟩ = (d, ⟨rest, true⟩) := parseBytes_be d rest h

theorem parseAtLeastBytes_spec (d rest : Bytes) :
    parseAtLeastBytes ⟨d ++ rest, true⟩ d.length = (d, ⟨rest, true⟩) :=
  parseAtLeastBytes_append d rest true

/-- A package built the way the Demon builds it is decoded field for field,
    for every field list and every residue. -/
theorem fields_roundtrip (fs : List Field) (rest : Bytes) (h : ∀ f ∈ fs, f.wf) :
    Parser.readFields ⟨encodeFields fs ++ rest, true⟩ (fs.map Field.kind) = (fs, ⟨rest, true⟩) :=
  readFields_encode fs rest h

/-- The pre-flight check succeeds exactly when the fields are all there. -/
theorem canIRead_exact (ts : List ReadType) (buf : Bytes) :
    canIRead ⟨buf, true⟩ ts = true ↔ holdsFields ts buf := canIRead_iff ts buf

/-- … and the executable form of "the fields are all there" that the driver evaluates against the
    implementation's answer (Spec clause C03.can-i-read) is that same predicate, and is what the model computes -/
theorem holdsFieldsB_exact (ts : List ReadType) (buf : Bytes) :
    SpecC03.holdsFieldsB ts buf = true ↔ holdsFields ts buf := holdsFieldsB_iff ts buf

theorem canIRead_is_spec (ts : List ReadType) (buf : Bytes) :
    canIRead ⟨buf, true⟩ ts = SpecC03.holdsFieldsB ts buf := canIRead_eq_holdsFieldsB ts buf

/- a length prefix with the top bit set is a (huge) unsigned length: the fields are not there -/
example : SpecC03.holdsFieldsB [.bytes, .int32] [0xff, 0xff, 0xff, 0xff, 97, 98, 99] = false := by decide
example : SpecC03.holdsFieldsB [.bytes, .int32] [0, 0, 0, 3, 97, 98, 99, 0, 0, 0, 1, 9] = true := by decide

theorem canIRead_of_encoded (fs : List Field) (rest : Bytes) (h : ∀ f ∈ fs, f.wf) :
    canIRead ⟨encodeFields fs ++ rest, true⟩ (fs.map Field.kind) = true :=
  (canIRead_iff _ _).mpr (holdsFields_encode fs rest h)

/-- The observation the Spec asks for is what the model produces (Spec ∘ Model). -/
theorem spec_decodeOk (fs : List Field) (rest : Bytes) (h : ∀ f ∈ fs, f.wf) :
    let p : Parser := ⟨encodeFields fs ++ rest, true⟩
    SpecC03.decodeOk fs rest
      ⟨p.canIRead (fs.map Field.kind), (p.readFields (fs.map Field.kind)).1,
       (p.readFields (fs.map Field.kind)).2.buf⟩ = true := by
  simp [SpecC03.decodeOk, canIRead_of_encoded fs rest h, fields_roundtrip fs rest h]

/-- UTF-16LE text of any scalars (incl. surrogate pairs) decodes to the same scalars. -/
theorem utf16_roundtrip (cs : List Nat) (h : ∀ c ∈ cs, isScalar c = true) :
    decodeUTF16 (encodeUTF16LE cs) = cs := decodeUTF16_encode cs h

/-- odd lengths: the dangling byte is ignored (and nothing faults: the model is total). -/
theorem utf16_odd (cs : List Nat) (x : UInt8) (h : ∀ c ∈ cs, isScalar c = true) :
    decodeUTF16 (encodeUTF16LE cs ++ [x]) = cs := decodeUTF16_odd cs x h

theorem spec_utf16Ok (cs : List Nat) (h : ∀ c ∈ cs, isScalar c = true) :
    SpecC03.utf16Ok cs (utf8 (decodeUTF16 (encodeUTF16LE cs))) = true := by
  simp [SpecC03.utf16Ok, utf16_roundtrip cs h]

/-! non-vacuity: concrete non-trivial instances of the hypotheses -/
example : ∀ f ∈ [Field.int32 4294967295, .bytes [1, 2, 3], .int64 0, .bool true], f.wf := by
  decide
example : ∀ c ∈ [0x41, 0x1F600, 0xFFFD, 0], isScalar c = true := by decide
example : Parser.readFields ⟨encodeFields [.int32 7, .bytes [9]] ++ [1, 2, 3], true⟩ [.int32, .bytes]
    = ([.int32 7, .bytes [9]], ⟨[1, 2, 3], true⟩) := by decide


/-! ### registration and the session table -/

/-- A registration built the way the Demon builds it (key, IV, metadata encrypted after
    them) creates a session whose id is the sender's id and whose key, IV and every
    metadata field are the ones sent — for every key/IV (incl. the all-zero key), every
    cipher, every field value. -/
theorem register_faithful (ksFor : Bytes → Bytes → KeyStream) (key iv : Bytes) (id : Nat)
    (strs nums : List Field) (hk : key.length = 32) (hiv : iv.length = 16) (hid : id < 4294967296)
    (hs : strs.map Field.kind = strKinds) (hn : nums.map Field.kind = numKinds)
    (hwf : ∀ f ∈ strs ++ nums, f.wf) :
    parseRegister id ksFor (demonInitBody ksFor key iv id (strs ++ nums))
      = some ⟨id, key, iv, strs ++ nums⟩ := by
  unfold parseRegister demonInitBody
  have hlen : ¬ ((key ++ iv ++ (if allZero key = true then encodeFields (.int32 id :: (strs ++ nums))
      else xcrypt (ksFor key iv) (encodeFields (.int32 id :: (strs ++ nums))))).length < 48) := by
    simp [hk, hiv]; omega
  simp only [hlen, if_false]
  have t32 : ∀ x : Bytes, (key ++ iv ++ x).take 32 = key := by
    intro x; rw [List.append_assoc, List.take_left' hk]
  have d32 : ∀ x : Bytes, ((key ++ iv ++ x).drop 32).take 16 = iv := by
    intro x; rw [List.append_assoc, List.drop_left' hk, List.take_left' hiv]
  have d48 : ∀ x : Bytes, (key ++ iv ++ x).drop 48 = x := by
    intro x; exact List.drop_left' (by simp [hk, hiv])
  rw [t32, d32, d48]
  have hbody : (if allZero key = true then
        (if allZero key = true then encodeFields (.int32 id :: (strs ++ nums))
          else xcrypt (ksFor key iv) (encodeFields (.int32 id :: (strs ++ nums))))
      else xcrypt (ksFor key iv)
        (if allZero key = true then encodeFields (.int32 id :: (strs ++ nums))
          else xcrypt (ksFor key iv) (encodeFields (.int32 id :: (strs ++ nums)))))
      = encodeFields (.int32 id :: (strs ++ nums)) := by
    by_cases hz : allZero key = true
    · simp [hz]
    · simp [hz, Havoc.xcrypt_involutive]
  rw [hbody]
  unfold registerOf
  have hall : ∀ f ∈ Field.int32 id :: (strs ++ nums), f.wf := by
    intro f hf; simp only [List.mem_cons] at hf
    rcases hf with rfl | hf
    · exact hid
    · exact hwf f hf
  have hkinds : (Field.int32 id :: (strs ++ nums)).map Field.kind = registerKinds := by
    simp [Field.kind, hs, hn, registerKinds_eq]
  have hr := readFields_encode (Field.int32 id :: (strs ++ nums)) [] hall
  simp only [List.append_nil, hkinds] at hr
  simp only [guard_of_encoded id strs nums hid hs hn hwf, if_true, hr]

/-- a session is only ever created under the id named in the packet header -/
theorem registered_id_is_sender (ksFor : Bytes → Bytes → KeyStream) (hdrId : Nat) (buf : Bytes) (s : Session)
    (h : parseRegister hdrId ksFor buf = some s) : s.id = hdrId := parseRegister_id hdrId ksFor buf s h

/-- identity invariant, one step: registrations / re-registrations never change an existing
    session's id, key or IV and never create a second session with an id already present -/
theorem handleInit_inv (ksFor : Bytes → Bytes → KeyStream) (s : Sessions) (hdrId : Nat) (buf : Bytes)
    (hnd : (s.map (·.id)).Nodup) :
    ((handleInit ksFor s hdrId buf).1.map (·.id)).Nodup ∧
      ∃ extra, (handleInit ksFor s hdrId buf).1 = s ++ extra ∧ extra.length ≤ 1 := by
  unfold handleInit
  split
  · exact ⟨hnd, [], by simp, by simp⟩
  · rename_i hnone
    split
    · rename_i sess hp
      have hid := parseRegister_id _ _ _ _ hp
      refine ⟨?_, [sess], rfl, by simp⟩
      rw [List.map_append, List.nodup_append]
      refine ⟨hnd, by simp, ?_⟩
      intro a ha b hb
      simp only [List.map_cons, List.map_nil, List.mem_singleton] at hb
      subst hb
      rw [hid]
      intro e; subst e
      simp only [List.mem_map] at ha
      obtain ⟨x, hx, hxe⟩ := ha
      have := List.find?_eq_none.mp hnone x hx
      simp [hxe] at this
    · exact ⟨hnd, [], by simp, by simp⟩

/-- identity invariant over any sequence of registration packets (arbitrary bytes) -/
theorem identity_invariant (ksFor : Bytes → Bytes → KeyStream) (pkts : List (Nat × Bytes)) :
    let final := pkts.foldl (fun s p => (handleInit ksFor s p.1 p.2).1) ([] : Sessions)
    (final.map (·.id)).Nodup := by
  suffices h : ∀ (s : Sessions), (s.map (·.id)).Nodup →
      ((pkts.foldl (fun s p => (handleInit ksFor s p.1 p.2).1) s).map (·.id)).Nodup from h [] (by simp)
  induction pkts with
  | nil => intro s h; simpa using h
  | cons p ps ih =>
    intro s h
    simp only [List.foldl_cons]
    exact ih _ (handleInit_inv ksFor s p.1 p.2 h).1

/-- the reply to a registration is the agent id under the session key (read back by the Demon) -/
theorem register_reply (ksFor : Bytes → Bytes → KeyStream) (key iv : Bytes) (id : Nat) :
    (if allZero key then initReply ksFor key iv id else xcrypt (ksFor key iv) (initReply ksFor key iv id))
      = le32 id := by
  unfold initReply
  by_cases hz : allZero key = true
  · simp [hz]
  · simp [hz, Havoc.xcrypt_involutive]

example : strKinds = [ReadType.bytes, .bytes, .bytes, .bytes, .bytes] ∧ numKinds.length = 16 := by decide

/-- regenerated from pkg/common/util.go on every run: `DecodeUTF16` pairs the bytes little endian, ignores a dangling
    odd byte (`u16sOf`), and hands the WHOLE unit sequence to `utf16.Decode` in one call (`utf16Decode`), so a surrogate
    pair is never split by a block boundary, whatever the length -/
theorem decodeUTF16_transcribed :
    Gen.SrcLines.decodeUTF16 =
      ["DecodeUTF16(b []byte) string",
       "var u16s = make([]uint16, 0, len(b)/2)",
       "for i := 0; i+1 < len(b); i += 2 { u16s = append(u16s, uint16(b[i])+(uint16(b[i+1])<<8)) }",
       "return string(utf16.Decode(u16s))"] := rfl

end Havoc.C03
