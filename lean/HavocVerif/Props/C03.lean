import HavocVerif.Lemmas.CanIReadIff
import HavocVerif.Lemmas.Utf16
import HavocVerif.Spec.C03
/-
  C03 — What an agent reports is what the teamserver records and shows.
  Property theorems only (helper lemmas live in Lemmas/).  Every theorem here is
  audited with `#print axioms` by the check.
-/
namespace Havoc.C03
open Havoc Parser

/-- 32-bit integers come out unchanged whatever follows them in the packet. -/
theorem parseInt32_spec (v : Nat) (rest : Bytes) (h : v < 4294967296) :
    parseInt32 ⟨be32 v ++ rest, true⟩ = (v, ⟨rest, true⟩) := parseInt32_be v rest h

/-- 64-bit values come out unchanged whatever follows them. -/
theorem parseInt64_spec (v : Nat) (rest : Bytes) (h : v < 18446744073709551616) :
    parseInt64 ⟨be64 v ++ rest, true⟩ = (v, ⟨rest, true⟩) := parseInt64_be v rest h

theorem parseBool_spec (b : Bool) (rest : Bytes) :
    parseBool ⟨be32 (if b then 1 else 0) ++ rest, true⟩ = (b, ⟨rest, true⟩) := parseBool_be b rest

/-- length-prefixed byte strings of any length and content come out unchanged. -/
theorem parseBytes_spec (d rest : Bytes) (h : d.length < 4294967296) :
    parseBytes ⟨be32 d.length ++ d ++ rest, true⟩ = (d, ⟨rest, true⟩) := parseBytes_be d rest h

theorem parseAtLeastBytes_spec (d rest : Bytes) :
    parseAtLeastBytes ⟨d ++ rest, true⟩ d.length = (d, ⟨rest, true⟩) :=
  parseAtLeastBytes_append d rest true

/-- A package built the way the Demon builds it is decoded field for field,
    for every field list and every residue. -/
theorem fields_roundtrip (fs : List Field) (rest : Bytes) (h : ∀ f ∈ fs, f.wf) :
    Parser.readFields ⟨encodeFields fs ++ rest, true⟩ (fs.map Field.kind) = (fs, ⟨rest, true⟩) :=
  readFields_encode fs rest h

/-- The pre-flight check succeeds exactly when the fields are all there. -/
theorem canIRead_exact (ts : List ReadType) (buf : Bytes) :
    canIRead ⟨buf, true⟩ ts = true ↔ holdsFields ts buf := canIRead_iff ts buf

theorem canIRead_of_encoded (fs : List Field) (rest : Bytes) (h : ∀ f ∈ fs, f.wf) :
    canIRead ⟨encodeFields fs ++ rest, true⟩ (fs.map Field.kind) = true :=
  (canIRead_iff _ _).mpr (holdsFields_encode fs rest h)

/-- The observation the Spec asks for is what the model produces (Spec ∘ Model). -/
theorem spec_decodeOk (fs : List Field) (rest : Bytes) (h : ∀ f ∈ fs, f.wf) :
    let p : Parser := ⟨encodeFields fs ++ rest, true⟩
    SpecC03.decodeOk fs rest
      ⟨p.canIRead (fs.map Field.kind), (p.readFields (fs.map Field.kind)).1,
       (p.readFields (fs.map Field.kind)).2.buf⟩ = true := by
  simp [SpecC03.decodeOk, canIRead_of_encoded fs rest h, fields_roundtrip fs rest h]

/-- UTF-16LE text of any scalars (incl. surrogate pairs) decodes to the same scalars. -/
theorem utf16_roundtrip (cs : List Nat) (h : ∀ c ∈ cs, isScalar c = true) :
    decodeUTF16 (encodeUTF16LE cs) = cs := decodeUTF16_encode cs h

/-- odd lengths: the dangling byte is ignored (and nothing faults: the model is total). -/
theorem utf16_odd (cs : List Nat) (x : UInt8) (h : ∀ c ∈ cs, isScalar c = true) :
    decodeUTF16 (encodeUTF16LE cs ++ [x]) = cs := decodeUTF16_odd cs x h

theorem spec_utf16Ok (cs : List Nat) (h : ∀ c ∈ cs, isScalar c = true) :
    SpecC03.utf16Ok cs (utf8 (decodeUTF16 (encodeUTF16LE cs))) = true := by
  simp [SpecC03.utf16Ok, utf16_roundtrip cs h]

/-! non-vacuity: concrete non-trivial instances of the hypotheses -/
example : ∀ f ∈ [Field.int32 4294967295, .bytes [1, 2, 3], .int64 0, .bool true], f.wf := by
  decide
example : ∀ c ∈ [0x41, 0x1F600, 0xFFFD, 0], isScalar c = true := by decide
example : Parser.readFields ⟨encodeFields [.int32 7, .bytes [9]] ++ [1, 2, 3], true⟩ [.int32, .bytes]
    = ([.int32 7, .bytes [9]], ⟨[1, 2, 3], true⟩) := by decide

end Havoc.C03
