import HavocVerif.Model.Expr
import HavocVerif.Lemmas.Prec
import HavocVerif.Gen.HclOps
/-
  C18 — yaotl expressions and templates evaluate as the language defines.
  The reference semantics is `Hx.eval` (Model/Expr.lean); the theorems below pin the clauses of
  the property on it for ALL operands; the correspondence run compares it with the real
  evaluator on generated trees, each printed with minimal and with redundant parentheses.
-/
namespace Havoc.C18
open Havoc.Hx

def same : Res → Res → Bool
  | .ok a, .ok b => V.beq a b
  | .err s, .err t => s == t
  | .inexact, .inexact => true
  | _, _ => false

/-! ### exact arbitrary-precision arithmetic and comparison -/

theorem add_exact (a b : Int) : binop .add (.num a) (.num b) = .ok (.num (a + b)) := rfl
theorem sub_exact (a b : Int) : binop .sub (.num a) (.num b) = .ok (.num (a - b)) := rfl
theorem mul_exact (a b : Int) : binop .mul (.num a) (.num b) = .ok (.num (a * b)) := rfl
theorem div_exact (a b : Int) (hb : b ≠ 0) (h : a % b = 0) : binop .div (.num a) (.num b) = .ok (.num (a / b)) := by
  simp [binop, asNum, arith, hb, h]
theorem zero_by_zero_is_error : binop .div (.num 0) (.num 0) = .err .num := rfl
theorem lt_exact (a b : Int) : binop .lt (.num a) (.num b) = .ok (.bool (decide (a < b))) := rfl
theorem ge_exact (a b : Int) : binop .ge (.num a) (.num b) = .ok (.bool (decide (a ≥ b))) := rfl

/-- no wrap-around anywhere: 2^64 * 2^64 + 1 -/
example : same (eval 5 [] (.bin .add (.bin .mul (.num 18446744073709551616) (.num 18446744073709551616)) (.num 1)))
    (.ok (.num 340282366920938463463374607431768211457)) = true := by decide

/-! ### equality across types is false, never an error -/

theorem eq_num_str (n : Int) (s : String) : binop .eq (.num n) (.str s) = .ok (.bool false) := rfl
theorem eq_bool_num (b : Bool) (n : Int) : binop .eq (.bool b) (.num n) = .ok (.bool false) := rfl
theorem eq_null_null : binop .eq .null .null = .ok (.bool true) := rfl
theorem ne_is_not_eq (a b : V) : binop .ne a b = .ok (.bool (!V.beq a b)) := rfl

/-! ### ill-typed operations, unknown names, missing attributes, out-of-range indexes: an error, not a value -/

theorem arith_on_bool_is_error (op : BinOp) (hop : op.ty = .num) (b : Bool) (v : V) : binop op (.bool b) v = .err .num := by
  cases op <;> simp [BinOp.ty] at hop <;> simp [binop, asNum, BinOp.ty]

theorem arith_on_null_is_error (v : V) : binop .add .null v = .err .num := by simp [binop, asNum, BinOp.ty]
theorem arith_on_tuple_is_error (vs : List V) (v : V) : binop .mul (.tuple vs) v = .err .num := by simp [binop, asNum, BinOp.ty]
theorem logic_on_num_is_error (n : Int) (v : V) : binop .and (.num n) v = .err .bool := by simp [binop, asBool]
theorem compare_bool_is_error (b : Bool) (v : V) : binop .lt (.bool b) v = .err .bool := by simp [binop, asNum, BinOp.ty]

theorem unknown_name_is_error (f : Nat) (env : Env) (x : String) (h : env.lookup x = none) :
    eval (f + 1) env (.var x) = .err .dyn := by simp [eval, h]

theorem index_out_of_range_is_error (vs : List V) (i : Int) (h : ¬ (0 ≤ i ∧ i.toNat < vs.length)) :
    indexV (.tuple vs) (.num i) = .err .dyn := by simp [indexV, asNum, h]

theorem index_in_range (vs : List V) (i : Nat) (h : i < vs.length) : indexV (.tuple vs) (.num i) = .ok (vs.getD i .null) := by
  simp [indexV, asNum, h]

theorem missing_attr_is_error (items : List (String × V)) (n : String) (h : items.lookup n = none) :
    attrV (.obj items) n = .err .dyn := by simp [attrV, h]

theorem attr_of_non_object_is_error (n : String) (k : Int) : attrV (.num k) n = .err .dyn := rfl
theorem index_of_number_is_error (k : Int) (i : V) : indexV (.num k) i = .err .dyn := rfl

/-- an error in an operand is an error of the operation (nothing is silently dropped) -/
theorem error_propagates (f : Nat) (env : Env) (op : BinOp) (l r : E) (t : Ty)
    (h : eval f env l = .err t) : eval (f + 1) env (.bin op l r) = .err op.ty := by
  simp [eval, h, Res.both]

/-! ### conditionals -/

/-- well-typed conditional: the chosen branch, converted to the common type of both -/
theorem cond_true (f : Nat) (env : Env) (c t e : E) (tv ev : V) (ut : Ty)
    (hc : eval f env c = .ok (.bool true)) (ht : eval f env t = .ok tv) (he : eval f env e = .ok ev)
    (hu : condType (.ok tv) (.ok ev) = some ut) (hno : ut ≠ .other) :
    eval (f + 1) env (.cond c t e) = .ok (convTo ut tv) := by
  simp only [eval, ht, he, hu, hc]
  cases ut <;> simp_all [asBool, V.isNull]

/-- two results of known types: the result type is their unification -/
theorem condType_typed (tv ev : V) (ht : tv.ty ≠ .dyn) (he : ev.ty ≠ .dyn) :
    condType (.ok tv) (.ok ev) = unifyTy tv.ty ev.ty := by
  have h1 : (Res.ok tv).isDynNull = false := by cases tv <;> simp_all [Res.isDynNull, V.ty]
  have h2 : (Res.ok ev).isDynNull = false := by cases ev <;> simp_all [Res.isDynNull, V.ty]
  simp [condType, h1, h2, Res.ty, ht, he]

/-- a literal null takes the type of the other result -/
theorem condType_null_left (r : Res) : condType (.ok .null) r = some r.ty := by simp [condType, Res.isDynNull]
theorem cond_null_chosen_is_typed (f : Nat) (env : Env) (c t e : E) (n : Int)
    (hc : eval f env c = .ok (.bool true)) (ht : eval f env t = .ok .null) (he : eval f env e = .ok (.num n)) :
    eval (f + 1) env (.cond c t e) = .ok (.tnull .num) := by
  simp [eval, ht, he, hc, condType, Res.isDynNull, Res.ty, V.ty, asBool, V.isNull, convTo]

/-- when one result's type is unknown nothing is converted: the chosen result as it is -/
theorem cond_unknown_type_passes_through (f : Nat) (env : Env) (c t e : E) (n : Int) (b : Bool)
    (hc : eval f env c = .ok (.bool b)) (ht : eval f env t = .ok (.num n)) (he : eval f env e = .err .dyn) :
    eval (f + 1) env (.cond c t e) = if b then .ok (.num n) else .err .dyn := by
  cases b <;> simp [eval, ht, he, hc, condType, Res.isDynNull, Res.ty, V.ty, asBool, V.isNull, convTo]

theorem cond_inconsistent_types (f : Nat) (env : Env) (c t e : E) (n : Int) (b : Bool)
    (ht : eval f env t = .ok (.num n)) (he : eval f env e = .ok (.bool b)) :
    eval (f + 1) env (.cond c t e) = .err .dyn := by
  simp [eval, ht, he, condType, Res.isDynNull, Res.ty, V.ty, unifyTy]

theorem number_and_string_unify_to_string (n : Int) : unifyTy .num .str = some .str ∧ convTo .str (.num n) = .str (toString n) :=
  ⟨rfl, rfl⟩

/-! ### templates -/

/-- `"${x}"` is x itself, whatever its type -/
theorem single_interpolation_is_the_value (f : Nat) (env : Env) (x : String) :
    eval (f + 2) env (.tmpl [.var x]) = eval (f + 1) env (.var x) := by
  simp [eval, normTmpl, E.unstrip]

/-- strip markers touch only the literal directly next to them -/
example : normTmpl none [.strip false true (.var "a"), .var "b", .str " z"] = [.var "a", .var "b", .str " z"] := rfl
example : (normTmpl none [.strip false true (.var "a"), .str " z"]).map (fun e => match e with | .str s => s | _ => "?") = ["?", "z"] := by decide
example : (normTmpl none [.str "y ", .strip true false (.var "a")]).map (fun e => match e with | .str s => s | _ => "?") = ["y", "?"] := by decide

/-! ### for expressions, tuples, objects (examples on the executable semantics) -/
example : same (eval 6 [("nums", .tuple [.num 1, .num 2, .num 3])]
    (.forE none "v" (.var "nums") none (.bin .mul (.var "v") (.num 10)) (some (.bin .ne (.var "v") (.num 2))) false)) (.ok (.tuple [.num 10, .num 30])) = true := by decide
example : same (eval 6 [] (.index (.tuple [.num 5, .num 6]) (.num 1))) (.ok (.num 6)) = true := by decide
example : same (eval 6 [] (.attr (.obj [("b", .num 2), ("a", .num 1)]) "a")) (.ok (.num 1)) = true := by decide
example : same (eval 5 [("t", .tuple [])] (.tmpl [.str "a", .var "t"])) (.err .str) = true := by decide
example : same (eval 5 [] (.tmpl [.str "a", .null])) (.err .str) = true := by decide
example : same (eval 5 [] (.cond (.bool false) (.index (.tuple []) (.num 3)) (.num 1))) (.ok (.num 1)) = true := by decide
example : same (eval 5 [] (.cond (.bool false) (.bin .add (.index (.tuple []) (.num 3)) (.num 1)) (.bool true))) (.err .dyn) = true := by decide

/-! ### splats -/

/-- a splat of (untyped) null has no elements, whatever is applied to them -/
theorem splat_of_null (f : Nat) (env : Env) (each : E) : eval (f + 2) env (.splat .null each) = .ok (.tuple []) := by
  simp [eval]

/-- a value that is not a sequence counts as a sequence of one: also an object and a map -/
theorem splat_of_scalar (f : Nat) (env : Env) (n : Int) :
    eval (f + 2) env (.splat (.num n) .anon) = .ok (.tuple [.num n]) := by
  simp [eval, anonName, Res.isErr]

example : same (eval 6 [("mp", .mapv [("a", .num 1), ("b", .num 2)])] (.splat (.var "mp") .anon))
    (.ok (.tuple [.mapv [("a", .num 1), ("b", .num 2)]])) = true := by decide
example : same (eval 6 [("mp", .mapv [("a", .num 1)])] (.splat (.var "mp") (.attr .anon "a"))) (.ok (.tuple [.num 1])) = true := by decide
/-- over a sequence the traversal is applied to every element, in order; one failing element fails the splat -/
example : same (eval 6 [("objs", .tuple [.obj [("a", .num 1)], .obj [("a", .num 2)]])] (.splat (.var "objs") (.attr .anon "a")))
    (.ok (.tuple [.num 1, .num 2])) = true := by decide
example : same (eval 6 [("objs", .tuple [.obj [("a", .num 1)], .obj [("b", .num 2)]])] (.splat (.var "objs") (.attr .anon "a")))
    (.err .other) = true := by decide

/-! ### for expressions: keys, filters, object results, grouping -/
example : same (eval 6 [("o", .obj [("a", .num 1), ("b", .num 2)])]
    (.forE (some "k") "v" (.var "o") none (.tuple [.var "k", .var "v"]) none false))
    (.ok (.tuple [.tuple [.str "a", .num 1], .tuple [.str "b", .num 2]])) = true := by decide
example : same (eval 6 [("nums", .tuple [.num 5, .num 6])]
    (.forE (some "i") "v" (.var "nums") none (.bin .add (.var "i") (.var "v")) none false)) (.ok (.tuple [.num 5, .num 7])) = true := by decide
/-- grouping collects the values of equal keys in iteration order; without it an equal key is an error -/
example : same (eval 7 [("nums", .tuple [.num 1, .num 2, .num 3])]
    (.forE none "v" (.var "nums") (some (.bin .mod (.var "v") (.num 2))) (.var "v") none true))
    (.ok (.obj [("0", .tuple [.num 2]), ("1", .tuple [.num 1, .num 3])])) = true := by decide
example : same (eval 7 [("nums", .tuple [.num 1, .num 2, .num 3])]
    (.forE none "v" (.var "nums") (some (.bin .mod (.var "v") (.num 2))) (.var "v") none false)) (.err .dyn) = true := by decide
/-- a null key, a null or non-boolean condition, iteration over null or a number: errors -/
example : same (eval 6 [("nums", .tuple [.num 1])] (.forE none "v" (.var "nums") (some .null) (.var "v") none false)) (.err .dyn) = true := by decide
example : same (eval 6 [("nums", .tuple [.num 1])] (.forE none "v" (.var "nums") none (.var "v") (some .null) false)) (.err .dyn) = true := by decide
example : same (eval 6 [] (.forE none "v" .null none (.var "v") none false)) (.err .dyn) = true := by decide
example : same (eval 6 [] (.forE none "v" (.num 3) none (.var "v") none false)) (.err .dyn) = true := by decide
/-- a filtered-out element's body is not evaluated (its error does not count) -/
example : same (eval 7 [("nums", .tuple [.num 1, .num 2])]
    (.forE none "v" (.var "nums") none (.index (.tuple [.num 9]) (.bin .sub (.var "v") (.num 1))) (some (.bin .lt (.var "v") (.num 2))) false))
    (.ok (.tuple [.num 9])) = true := by decide

/-! ### template directives -/
/-- `%{ for }`: the iteration results concatenated; a body that is one interpolation is still text -/
example : same (eval 7 [("nums", .tuple [.num 1, .num 2])]
    (.tmpl [.str "n:", .join (.forE none "v" (.var "nums") none (.tmplS [.var "v", .str ","]) none false)])) (.ok (.str "n:1,2,")) = true := by decide
example : same (eval 7 [("b", .bool true)] (.tmplS [.cond (.var "b") (.tmplS [.var "b"]) (.str "")])) (.ok (.str "true")) = true := by decide
example : same (eval 7 [("t", .tuple [.null])] (.join (.forE none "v" (.var "t") none (.var "v") none false))) (.err .str) = true := by decide

/-! ## precedence, associativity, parentheses (the parser of binary operators) -/

/-! ### function calls -/
namespace Call

/-- a name that is not a function is an error, whatever the arguments -/
theorem unknown_function_is_error (f : Nat) (env : Env) (name : String) (args : List E) (ex : Bool)
    (h : funSig name = none) : eval (f + 1) env (.call name args ex) = .err .dyn := by
  simp [eval, h]

/-- too few arguments, or too many for a function without a variadic parameter: an error before any
    (non-expanding) argument is looked at -/
theorem wrong_arity_is_error (f : Nat) (env : Env) (name : String) (args : List E) (sig : FunSig)
    (h : funSig name = some sig) (ha : arityOk sig args.length = false) :
    eval (f + 1) env (.call name args false) = .err .dyn := by
  simp [eval, h, ha]

/-- the expanding argument must be a sequence: a scalar, an object or null is an error -/
theorem expand_of_non_sequence_is_error (f : Nat) (env : Env) (name : String) (init : List E) (x : E) (sig : FunSig)
    (v : V) (h : funSig name = some sig) (hx : eval f env x = .ok v)
    (hv : ∀ vs, v ≠ .tuple vs ∧ v ≠ .listv vs) :
    eval (f + 1) env (.call name (init ++ [x]) true) = .err .dyn := by
  cases v with
  | tuple vs => exact absurd rfl (hv vs).1
  | listv vs => exact absurd rfl (hv vs).2
  | _ => simp [eval, h, hx]

theorem expand_error_propagates (f : Nat) (env : Env) (name : String) (init : List E) (x : E) (sig : FunSig) (t : Ty)
    (h : funSig name = some sig) (hx : eval f env x = .err t) :
    eval (f + 1) env (.call name (init ++ [x]) true) = .err .dyn := by
  simp [eval, h, hx]

/-- a null argument for a typed parameter is refused; conversion failures are errors -/
theorem null_for_typed_parameter (pt : PTy) (h : pt ≠ .any) : convArg pt .null = .err .dyn := by
  cases pt <;> first | rfl | exact absurd rfl h
theorem bool_for_number_parameter (b : Bool) : convArg .num (.bool b) = .err .dyn := rfl
theorem tuple_for_string_parameter (vs : List V) : convArg .str (.tuple vs) = .err .dyn := rfl
theorem number_for_string_parameter (n : Int) : convArg .str (.num n) = .ok (.str (intToStr n)) := rfl
theorem any_parameter_takes_everything (v : V) : convArg .any v = .ok v := by cases v <;> rfl

/-- one bad argument makes the whole call an error, wherever it stands -/
theorem bad_argument_is_error (sig : FunSig) (i : Nat) (pre post : List V) (v : V)
    (hv : convArg ((sig.params[i + pre.length]?).getD (sig.varParam.getD .any)) v = .err .dyn) :
    (convArgs sig i (pre ++ v :: post)).1 = .err .dyn := by
  induction pre generalizing i with
  | nil =>
    simp only [List.nil_append, List.length_nil, Nat.add_zero] at hv ⊢
    simp only [convArgs, hv]
  | cons p pre ih =>
    have := ih (i + 1) (by simpa [Nat.add_assoc, Nat.add_comm 1] using hv)
    simp only [List.cons_append, convArgs]
    generalize hc : convArgs sig (i + 1) (pre ++ v :: post) = c at this
    obtain ⟨st, rest⟩ := c
    simp only at this
    subst this
    cases convArg ((sig.params[i]?).getD (sig.varParam.getD .any)) p <;> rfl

example : same (eval 6 [] (.call "add2" [.num 2, .str "40"] false)) (.ok (.num 42)) = true := by decide
example : same (eval 6 [("nums", .tuple [.num 2, .num 3])] (.call "add2" [.var "nums"] true)) (.ok (.num 5)) = true := by decide
example : same (eval 6 [("nums", .tuple [.num 2, .num 3])] (.call "add2" [.num 1, .var "nums"] true)) (.err .dyn) = true := by decide
example : same (eval 6 [] (.call "cat" [] false)) (.ok (.str "")) = true := by decide
example : same (eval 6 [] (.call "cat" [.str "a", .num 1, .bool true] false)) (.ok (.str "a1true")) = true := by decide
example : same (eval 6 [] (.call "cat" [.null] false)) (.err .dyn) = true := by decide
example : same (eval 6 [] (.call "pick" [.num 1, .str "a", .null] false)) (.ok .null) = true := by decide
example : same (eval 6 [] (.call "pick" [.num 2, .str "a", .null] false)) (.err .dyn) = true := by decide
example : same (eval 6 [] (.call "neg1" [.str "1"] false)) (.ok (.bool false)) = true := by decide
example : same (eval 6 [] (.call "neg1" [.str "TRUE"] false)) (.err .dyn) = true := by decide
example : same (eval 6 [] (.call "neg1" [.tuple []] true)) (.err .dyn) = true := by decide
example : arityOk ⟨[.num, .num], none⟩ 1 = false ∧ arityOk ⟨[.num, .num], none⟩ 3 = false ∧ arityOk ⟨[], some .str⟩ 0 = true := by decide

end Call

/-! ### flush heredocs: the common indentation is cut, a line that starts with an interpolation pins it to 0 -/
namespace Flush

/-- whether the token after `ps` starts a line -/
def nlAfter : Bool → List E → Bool
  | nl, [] => nl
  | _, p :: ps => nlAfter (match p with | .str s => endsNl s | _ => false) ps

/-- the literals that start a counted line -/
def counted : Bool → List E → List String
  | _, [] => []
  | nl, p :: ps =>
    let here := match p with | .str s => if nl && !blankLine s then [s] else [] | _ => []
    here ++ counted (match p with | .str s => endsNl s | _ => false) ps

theorem flushCut_zero (nl : Bool) (ps : List E) : flushCut 0 nl ps = ps := by
  induction ps generalizing nl with
  | nil => rfl
  | cons p ps ih =>
    cases p <;> simp [flushCut, ih]

theorem flushMin_zero (nl : Bool) (ps : List E) : flushMin nl ps (some 0) = some 0 := by
  induction ps generalizing nl with
  | nil => rfl
  | cons p ps ih =>
    cases nl
    · simp only [flushMin, Bool.false_eq_true, if_false]; exact ih _
    · cases p with
      | str s =>
        by_cases hb : blankLine s = true
        · simp only [flushMin, if_true, hb]; exact ih _
        · simp only [flushMin, if_true, hb, minO, Nat.zero_min]; exact ih _
      | _ => simp only [flushMin, if_true]; exact ih _

theorem flushMin_append (nl : Bool) (a b : List E) (m : Option Nat) :
    flushMin nl (a ++ b) m = flushMin (nlAfter nl a) b (flushMin nl a m) := by
  induction a generalizing nl m with
  | nil => rfl
  | cons p a ih => simp only [List.cons_append, flushMin, nlAfter]; exact ih _ _

/-- the whole text is kept as written when some line starts with an interpolation (or a directive) -/
theorem interp_at_line_start_pins_zero (pre post : List E) (e : E) (hl : nlAfter true pre = true)
    (he : ∀ s, e ≠ .str s) : flushParts (pre ++ e :: post) = pre ++ e :: post := by
  have hm : flushMin true (pre ++ e :: post) none = some 0 := by
    rw [flushMin_append, hl]
    unfold flushMin
    have : (match e with
         | .str s => if blankLine s = true then flushMin true pre none else minO (flushMin true pre none) (leadBlanks s)
         | _ => some 0) = some 0 := by
      cases e <;> first | rfl | exact absurd rfl (he _)
    simp only [if_true, this]; exact flushMin_zero _ _
  unfold flushParts; rw [hm]; exact flushCut_zero _ _

theorem flushCut_length (n : Nat) (nl : Bool) (ps : List E) : (flushCut n nl ps).length = ps.length := by
  induction ps generalizing nl with
  | nil => rfl
  | cons p ps ih => simp [flushCut, ih]

theorem minO_le (m : Option Nat) (k n : Nat) (h : minO m k = some n) : n ≤ k ∧ ∀ j, m = some j → n ≤ j := by
  cases m with
  | none => simp [minO] at h; subst h; exact ⟨Nat.le_refl _, by simp⟩
  | some j => simp [minO] at h; subst h; exact ⟨Nat.min_le_right _ _, by intro j' hj; cases hj; exact Nat.min_le_left _ _⟩

/-- the running minimum never grows -/
theorem flushMin_le_acc (nl : Bool) (ps : List E) (m : Option Nat) (n j : Nat)
    (h : flushMin nl ps m = some n) (hm : m = some j) : n ≤ j := by
  induction ps generalizing nl m j with
  | nil => simp [flushMin] at h; rw [h] at hm; cases hm; exact Nat.le_refl _
  | cons p ps ih =>
    unfold flushMin at h
    subst hm
    by_cases hnl : nl = true
    · simp only [hnl, if_true] at h
      cases p with
      | str s =>
        by_cases hb : blankLine s = true
        · simp only [hb, if_true] at h; exact ih _ _ _ h rfl
        · simp only [hb] at h
          exact Nat.le_trans (ih _ _ _ h rfl) (Nat.min_le_left _ _)
      | _ => exact Nat.le_trans (ih _ _ _ h rfl) (Nat.zero_le _)
    · simp only [hnl] at h; exact ih _ _ _ h rfl

/-- only blanks are cut: the amount removed is at most the indentation of every counted line -/
theorem cut_at_most_indentation (nl : Bool) (ps : List E) (m : Option Nat) (n : Nat)
    (h : flushMin nl ps m = some n) : ∀ s ∈ counted nl ps, n ≤ leadBlanks s := by
  induction ps generalizing nl m with
  | nil => intro s hs; simp [counted] at hs
  | cons p ps ih =>
    intro s hs
    unfold flushMin at h
    simp only [counted, List.mem_append] at hs
    rcases hs with hs | hs
    · cases p with
      | str t =>
        by_cases hc : (nl && !blankLine t) = true
        · simp only [hc, if_true, List.mem_singleton] at hs
          subst hs
          simp only [Bool.and_eq_true, Bool.not_eq_true'] at hc
          simp only [hc.1, if_true, hc.2] at h
          cases hm : m with
          | none => rw [hm] at h; exact flushMin_le_acc _ _ _ _ _ h rfl
          | some j => rw [hm] at h; exact Nat.le_trans (flushMin_le_acc _ _ _ _ _ h rfl) (Nat.min_le_right _ _)
        · simp [hc] at hs
      | _ => simp at hs
    · exact ih _ _ h s hs

theorem flush_cuts_blanks_only (ps : List E) (n : Nat) (h : flushMin true ps none = some n) :
    ∀ s ∈ counted true ps, n ≤ leadBlanks s := cut_at_most_indentation true ps none n h

/-- `<<-EOT` / `    a` / `  ${x}` / `    b` / `EOT`: two blanks go -/
def lits (ps : List E) : List String := ps.map fun e => match e with | .str s => s | _ => "?"
example : lits (flushParts [.str "    a\n", .str "  ", .var "x", .str "\n", .str "    b\n"])
    = ["  a\n", "", "?", "\n", "  b\n"] := by decide
/-- … and none when the second line starts with the interpolation -/
example : lits (flushParts [.str "    a\n", .var "x", .str "\n", .str "    b\n"])
    = ["    a\n", "?", "\n", "    b\n"] := by decide
/-- a blank line neither counts nor is touched -/
example : lits (flushParts [.str "  a ", .var "x", .str "\n", .str "\n", .str "   b\n"])
    = ["a ", "?", "\n", "\n", " b\n"] := by decide
example : nlAfter true [E.str "    a\n"] = true := by decide

end Flush

namespace Prec
open Havoc.Prec Havoc.Hx

/-- **Precedence, associativity, independence of parentheses.**  Whatever way an expression tree is
    written - the fewest parentheses the grammar needs or any number of redundant ones - the parser
    returns exactly that tree and consumes the whole input (with enough fuel, and then with any more). -/
theorem parse_spelling {e : Ex} {ts : List Tok} (h : Spelling 0 e ts) :
    ∃ f, ∀ g, f ≤ g → parseLevel g 0 ts = some (e, []) := by
  have hp : PL 0 (ts ++ []) (e, []) := by
    apply spelling_parses h (by unfold nLevels; omega) 0 (Nat.le_refl _) [] trivial
    have : min (0 + 1) nLevels = 1 := by unfold nLevels; omega
    rw [this]
    exact Fin_extend 1 0 (fun _ _ _ => trivial) (by simp [Havoc.Prec.Fin])
  simp only [List.append_nil] at hp
  obtain ⟨f, hf⟩ := hp
  exact ⟨f, fun g hg => (mono_le hg).1 _ _ _ hf⟩

theorem parse_print (e : Ex) : ∃ f, ∀ g, f ≤ g → parseLevel g 0 (pr 0 e) = some (e, []) :=
  parse_spelling (pr_spelling e 0)

/-- two trees that are spelled the same are the same tree: a spelling determines its tree -/
theorem spelling_unique {e e' : Ex} {ts : List Tok} (h : Spelling 0 e ts) (h' : Spelling 0 e' ts) : e = e' := by
  obtain ⟨f, hf⟩ := parse_spelling h
  obtain ⟨f', hf'⟩ := parse_spelling h'
  have a := hf (max f f') (Nat.le_max_left _ _)
  have b := hf' (max f f') (Nat.le_max_right _ _)
  rw [a] at b
  exact (Prod.mk.inj (Option.some.inj b)).1

/-! kernel-checked instances: left associativity within a level, precedence across levels, parentheses -/
-- a - b - c  =  (a - b) - c
example : parseLevel 40 0 [.atom 1, .op .sub, .atom 2, .op .sub, .atom 3] =
    some (.bin .sub (.bin .sub (.atom 1) (.atom 2)) (.atom 3), []) := by decide
-- a + b * c == d && e  =  ((a + (b * c)) == d) && e
example : parseLevel 60 0 [.atom 1, .op .add, .atom 2, .op .mul, .atom 3, .op .eq, .atom 4, .op .and, .atom 5] =
    some (.bin .and (.bin .eq (.bin .add (.atom 1) (.bin .mul (.atom 2) (.atom 3))) (.atom 4)) (.atom 5), []) := by decide
-- a - (b - c) needs its parentheses, ((a)) - b does not
example : pr 0 (.bin .sub (.atom 1) (.bin .sub (.atom 2) (.atom 3))) = [.atom 1, .op .sub, .lp, .atom 2, .op .sub, .atom 3, .rp] := by decide
example : Spelling 0 (.bin .sub (.atom 1) (.atom 2)) [.lp, .lp, .atom 1, .rp, .rp, .op .sub, .atom 2] := by
  have a : Spelling 4 (.atom 1) [.lp, .lp, .atom 1, .rp, .rp] :=
    Spelling.paren 4 _ _ (Spelling.paren 0 _ _ (Spelling.atom 0 1))
  exact Spelling.bin 0 .sub _ _ _ _ (Nat.zero_le _) a (Spelling.atom 5 2)
/-! ### the tie to the source: the operator table and the shape of the recursion are regenerated -/

/-- the operation name of hclsyntax for each operator of the model -/
def goName : BinOp → String
  | .or => "OpLogicalOr" | .and => "OpLogicalAnd" | .eq => "OpEqual" | .ne => "OpNotEqual"
  | .lt => "OpLessThan" | .le => "OpLessThanOrEqual" | .gt => "OpGreaterThan" | .ge => "OpGreaterThanOrEqual"
  | .add => "OpAdd" | .sub => "OpSubtract" | .mul => "OpMultiply" | .div => "OpDivide" | .mod => "OpModulo"

/-- (regenerated) `binaryOps` has the model's six groups, every operator sits in the group the model gives it,
    and no group holds anything else -/
theorem levels_as_modelled :
    Gen.HclOps.levels.length = nLevels ∧
    (∀ o : BinOp, (Gen.HclOps.levels.getD (lvl o) []).any (fun p => p.2 == goName o) = true) ∧
    (Gen.HclOps.levels.map List.length).sum = 13 := by
  refine ⟨by decide, ?_, by decide⟩
  intro o; cases o <;> decide

/-- (regenerated) both operands of an operator are parsed with the table of the tighter levels only
    (`remaining`): operators of one level combine to the left; the condition of `? :` starts at the lowest level -/
theorem recursion_as_modelled :
    Gen.HclOps.recursionArgs = ["remaining", "remaining"] ∧ Gen.HclOps.ternaryArgs = ["binaryOps"] := by decide

end Prec

end Havoc.C18
