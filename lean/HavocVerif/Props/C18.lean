import HavocVerif.Model.Expr
/-
  C18 — yaotl expressions and templates evaluate as the language defines.
  The reference semantics is `Hx.eval` (Model/Expr.lean); the theorems below pin the clauses of
  the property on it for ALL operands; the correspondence run compares it with the real
  evaluator on generated trees, each printed with minimal and with redundant parentheses.
-/
namespace Havoc.C18
open Havoc.Hx

def same : Res → Res → Bool
  | .ok a, .ok b => V.beq a b
  | .err s, .err t => s == t
  | .inexact, .inexact => true
  | _, _ => false

/-! ### exact arbitrary-precision arithmetic and comparison -/

theorem add_exact (a b : Int) : binop .add (.num a) (.num b) = .ok (.num (a + b)) := rfl
theorem sub_exact (a b : Int) : binop .sub (.num a) (.num b) = .ok (.num (a - b)) := rfl
theorem mul_exact (a b : Int) : binop .mul (.num a) (.num b) = .ok (.num (a * b)) := rfl
theorem div_exact (a b : Int) (hb : b ≠ 0) (h : a % b = 0) : binop .div (.num a) (.num b) = .ok (.num (a / b)) := by
  simp [binop, asNum, arith, hb, h]
theorem zero_by_zero_is_error : binop .div (.num 0) (.num 0) = .err .num := rfl
theorem lt_exact (a b : Int) : binop .lt (.num a) (.num b) = .ok (.bool (decide (a < b))) := rfl
theorem ge_exact (a b : Int) : binop .ge (.num a) (.num b) = .ok (.bool (decide (a ≥ b))) := rfl

/-- no wrap-around anywhere: 2^64 * 2^64 + 1 -/
example : same (eval 5 [] (.bin .add (.bin .mul (.num 18446744073709551616) (.num 18446744073709551616)) (.num 1)))
    (.ok (.num 340282366920938463463374607431768211457)) = true := by decide

/-! ### equality across types is false, never an error -/

theorem eq_num_str (n : Int) (s : String) : binop .eq (.num n) (.str s) = .ok (.bool false) := rfl
theorem eq_bool_num (b : Bool) (n : Int) : binop .eq (.bool b) (.num n) = .ok (.bool false) := rfl
theorem eq_null_null : binop .eq .null .null = .ok (.bool true) := rfl
theorem ne_is_not_eq (a b : V) : binop .ne a b = .ok (.bool (!V.beq a b)) := rfl

/-! ### ill-typed operations, unknown names, missing attributes, out-of-range indexes: an error, not a value -/

theorem arith_on_bool_is_error (op : BinOp) (hop : op.ty = .num) (b : Bool) (v : V) : binop op (.bool b) v = .err .num := by
  cases op <;> simp [BinOp.ty] at hop <;> simp [binop, asNum, BinOp.ty]

theorem arith_on_null_is_error (v : V) : binop .add .null v = .err .num := by simp [binop, asNum, BinOp.ty]
theorem arith_on_tuple_is_error (vs : List V) (v : V) : binop .mul (.tuple vs) v = .err .num := by simp [binop, asNum, BinOp.ty]
theorem logic_on_num_is_error (n : Int) (v : V) : binop .and (.num n) v = .err .bool := by simp [binop, asBool]
theorem compare_bool_is_error (b : Bool) (v : V) : binop .lt (.bool b) v = .err .bool := by simp [binop, asNum, BinOp.ty]

theorem unknown_name_is_error (f : Nat) (env : Env) (x : String) (h : env.lookup x = none) :
    eval (f + 1) env (.var x) = .err .dyn := by simp [eval, h]

theorem index_out_of_range_is_error (vs : List V) (i : Int) (h : ¬ (0 ≤ i ∧ i.toNat < vs.length)) :
    indexV (.tuple vs) (.num i) = .err .dyn := by simp [indexV, asNum, h]

theorem index_in_range (vs : List V) (i : Nat) (h : i < vs.length) : indexV (.tuple vs) (.num i) = .ok (vs.getD i .null) := by
  simp [indexV, asNum, h]

theorem missing_attr_is_error (items : List (String × V)) (n : String) (h : items.lookup n = none) :
    attrV (.obj items) n = .err .dyn := by simp [attrV, h]

theorem attr_of_non_object_is_error (n : String) (k : Int) : attrV (.num k) n = .err .dyn := rfl
theorem index_of_number_is_error (k : Int) (i : V) : indexV (.num k) i = .err .dyn := rfl

/-- an error in an operand is an error of the operation (nothing is silently dropped) -/
theorem error_propagates (f : Nat) (env : Env) (op : BinOp) (l r : E) (t : Ty)
    (h : eval f env l = .err t) : eval (f + 1) env (.bin op l r) = .err op.ty := by
  simp [eval, h, Res.both]

/-! ### conditionals -/

/-- well-typed conditional: the chosen branch, converted to the common type of both -/
theorem cond_true (f : Nat) (env : Env) (c t e : E) (tv ev : V) (ut : Ty)
    (hc : eval f env c = .ok (.bool true)) (ht : eval f env t = .ok tv) (he : eval f env e = .ok ev)
    (hu : unifyTy tv.ty ev.ty = some ut) (hno : ut ≠ .other) :
    eval (f + 1) env (.cond c t e) = .ok (convTo ut tv) := by
  simp only [eval, ht, he, Res.ty, hu]
  cases ut <;> simp_all [asBool]

theorem cond_inconsistent_types (f : Nat) (env : Env) (c t e : E) (n : Int) (b : Bool)
    (ht : eval f env t = .ok (.num n)) (he : eval f env e = .ok (.bool b)) :
    eval (f + 1) env (.cond c t e) = .err .dyn := by
  simp [eval, ht, he, Res.ty, V.ty, unifyTy]

theorem number_and_string_unify_to_string (n : Int) : unifyTy .num .str = some .str ∧ convTo .str (.num n) = .str (toString n) :=
  ⟨rfl, rfl⟩

/-! ### templates -/

/-- `"${x}"` is x itself, whatever its type -/
theorem single_interpolation_is_the_value (f : Nat) (env : Env) (x : String) :
    eval (f + 2) env (.tmpl [.var x]) = eval (f + 1) env (.var x) := by
  simp [eval, normTmpl, E.unstrip]

/-- strip markers touch only the literal directly next to them -/
example : normTmpl none [.strip false true (.var "a"), .var "b", .str " z"] = [.var "a", .var "b", .str " z"] := rfl
example : (normTmpl none [.strip false true (.var "a"), .str " z"]).map (fun e => match e with | .str s => s | _ => "?") = ["?", "z"] := by decide
example : (normTmpl none [.str "y ", .strip true false (.var "a")]).map (fun e => match e with | .str s => s | _ => "?") = ["y", "?"] := by decide

/-! ### for expressions, tuples, objects (examples on the executable semantics) -/
example : same (eval 6 [("nums", .tuple [.num 1, .num 2, .num 3])]
    (.forE none "v" (.var "nums") none (.bin .mul (.var "v") (.num 10)) (some (.bin .ne (.var "v") (.num 2))) false)) (.ok (.tuple [.num 10, .num 30])) = true := by decide
example : same (eval 6 [] (.index (.tuple [.num 5, .num 6]) (.num 1))) (.ok (.num 6)) = true := by decide
example : same (eval 6 [] (.attr (.obj [("b", .num 2), ("a", .num 1)]) "a")) (.ok (.num 1)) = true := by decide
example : same (eval 5 [("t", .tuple [])] (.tmpl [.str "a", .var "t"])) (.err .str) = true := by decide
example : same (eval 5 [] (.tmpl [.str "a", .null])) (.err .str) = true := by decide
example : same (eval 5 [] (.cond (.bool false) (.index (.tuple []) (.num 3)) (.num 1))) (.ok (.num 1)) = true := by decide
example : same (eval 5 [] (.cond (.bool false) (.bin .add (.index (.tuple []) (.num 3)) (.num 1)) (.bool true))) (.err .dyn) = true := by decide

/-! ### splats -/

/-- a splat of (untyped) null has no elements, whatever is applied to them -/
theorem splat_of_null (f : Nat) (env : Env) (each : E) : eval (f + 2) env (.splat .null each) = .ok (.tuple []) := by
  simp [eval]

/-- a value that is not a sequence counts as a sequence of one: also an object and a map -/
theorem splat_of_scalar (f : Nat) (env : Env) (n : Int) :
    eval (f + 2) env (.splat (.num n) .anon) = .ok (.tuple [.num n]) := by
  simp [eval, anonName, Res.isErr]

example : same (eval 6 [("mp", .mapv [("a", .num 1), ("b", .num 2)])] (.splat (.var "mp") .anon))
    (.ok (.tuple [.mapv [("a", .num 1), ("b", .num 2)]])) = true := by decide
example : same (eval 6 [("mp", .mapv [("a", .num 1)])] (.splat (.var "mp") (.attr .anon "a"))) (.ok (.tuple [.num 1])) = true := by decide
/-- over a sequence the traversal is applied to every element, in order; one failing element fails the splat -/
example : same (eval 6 [("objs", .tuple [.obj [("a", .num 1)], .obj [("a", .num 2)]])] (.splat (.var "objs") (.attr .anon "a")))
    (.ok (.tuple [.num 1, .num 2])) = true := by decide
example : same (eval 6 [("objs", .tuple [.obj [("a", .num 1)], .obj [("b", .num 2)]])] (.splat (.var "objs") (.attr .anon "a")))
    (.err .other) = true := by decide

/-! ### for expressions: keys, filters, object results, grouping -/
example : same (eval 6 [("o", .obj [("a", .num 1), ("b", .num 2)])]
    (.forE (some "k") "v" (.var "o") none (.tuple [.var "k", .var "v"]) none false))
    (.ok (.tuple [.tuple [.str "a", .num 1], .tuple [.str "b", .num 2]])) = true := by decide
example : same (eval 6 [("nums", .tuple [.num 5, .num 6])]
    (.forE (some "i") "v" (.var "nums") none (.bin .add (.var "i") (.var "v")) none false)) (.ok (.tuple [.num 5, .num 7])) = true := by decide
/-- grouping collects the values of equal keys in iteration order; without it an equal key is an error -/
example : same (eval 7 [("nums", .tuple [.num 1, .num 2, .num 3])]
    (.forE none "v" (.var "nums") (some (.bin .mod (.var "v") (.num 2))) (.var "v") none true))
    (.ok (.obj [("0", .tuple [.num 2]), ("1", .tuple [.num 1, .num 3])])) = true := by decide
example : same (eval 7 [("nums", .tuple [.num 1, .num 2, .num 3])]
    (.forE none "v" (.var "nums") (some (.bin .mod (.var "v") (.num 2))) (.var "v") none false)) (.err .dyn) = true := by decide
/-- a null key, a null or non-boolean condition, iteration over null or a number: errors -/
example : same (eval 6 [("nums", .tuple [.num 1])] (.forE none "v" (.var "nums") (some .null) (.var "v") none false)) (.err .dyn) = true := by decide
example : same (eval 6 [("nums", .tuple [.num 1])] (.forE none "v" (.var "nums") none (.var "v") (some .null) false)) (.err .dyn) = true := by decide
example : same (eval 6 [] (.forE none "v" .null none (.var "v") none false)) (.err .dyn) = true := by decide
example : same (eval 6 [] (.forE none "v" (.num 3) none (.var "v") none false)) (.err .dyn) = true := by decide
/-- a filtered-out element's body is not evaluated (its error does not count) -/
example : same (eval 7 [("nums", .tuple [.num 1, .num 2])]
    (.forE none "v" (.var "nums") none (.index (.tuple [.num 9]) (.bin .sub (.var "v") (.num 1))) (some (.bin .lt (.var "v") (.num 2))) false))
    (.ok (.tuple [.num 9])) = true := by decide

/-! ### template directives -/
/-- `%{ for }`: the iteration results concatenated; a body that is one interpolation is still text -/
example : same (eval 7 [("nums", .tuple [.num 1, .num 2])]
    (.tmpl [.str "n:", .join (.forE none "v" (.var "nums") none (.tmplS [.var "v", .str ","]) none false)])) (.ok (.str "n:1,2,")) = true := by decide
example : same (eval 7 [("b", .bool true)] (.tmplS [.cond (.var "b") (.tmplS [.var "b"]) (.str "")])) (.ok (.str "true")) = true := by decide
example : same (eval 7 [("t", .tuple [.null])] (.join (.forE none "v" (.var "t") none (.var "v") none false))) (.err .str) = true := by decide

end Havoc.C18
