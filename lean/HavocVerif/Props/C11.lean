import HavocVerif.Lemmas.Events
import HavocVerif.Gen.SrcLines
import HavocVerif.Model.Locks
import HavocVerif.Gen.CallSeq
/-
  C11 — Operators get the full event stream in order; a dead one blocks nobody.
-/
namespace Havoc.C11
open Havoc

/-! ### well-formed client table -/

def KeysNodup (s : Hub) : Prop := (s.conns.map (·.1)).Nodup

theorem setState_keys (s : Hub) (c : Nat) (st : HConn) : (s.setState c st).conns.map (·.1) = s.conns.map (·.1) := by
  simp only [Hub.setState, List.map_map]
  congr 1; funext x; obtain ⟨k, v⟩ := x; simp only [Function.comp]; split <;> rfl

theorem lookup_none_of_not_mem (l : List (Nat × HConn)) (c : Nat) (h : l.lookup c = none) : c ∉ l.map (·.1) := by
  induction l with
  | nil => simp
  | cons x xs ih =>
    obtain ⟨k, v⟩ := x
    simp only [List.lookup_cons] at h
    split at h
    · cases h
    · rename_i hk
      simp only [List.map_cons, List.mem_cons, not_or]
      exact ⟨by simpa using hk, ih h⟩

theorem step_conns_keys (s : Hub) (op : HubOp) (h : KeysNodup s) : KeysNodup (hubStep s op) := by
  unfold KeysNodup at *
  cases op with
  | connect c =>
    simp only [hubStep]
    split
    · exact h
    · rename_i hn
      simp only [List.map_append, List.map_cons, List.map_nil]
      rw [List.nodup_append]
      refine ⟨h, (by simp), ?_⟩
      intro a ha b hb
      simp at hb; subst hb
      intro e; subst e
      have : s.conns.lookup a = none := by
        simp only [Hub.stateOf] at hn
        cases hl : s.conns.lookup a with
        | none => rfl
        | some v => simp [hl] at hn
      exact lookup_none_of_not_mem _ _ this ha
  | login c u =>
    simp only [hubStep]
    split
    · simp only [emitMany_conns, broadcast_conns, retain_conns]; rw [setState_keys]; exact h
    · exact h
  | record m one ex => simp only [hubStep, broadcast_conns]; split <;> exact h
  | chat c m => simp only [hubStep]; split <;> (try simp only [broadcast_conns, retain_conns]) <;> exact h
  | lAdd c n =>
    simp only [hubStep]; split
    · split
      · exact h
      · exact h
    · exact h
  | lRemove c n =>
    simp only [hubStep]; split
    · simp only [broadcast_conns, retain_conns]; split <;> exact h
    · exact h
  | lNotify n => simp only [hubStep, broadcast_conns, retain_conns]; exact h
  | register id => simp only [hubStep]; split <;> exact h
  | dead c id =>
    simp only [hubStep]; split
    · split <;> exact h
    · exact h
  | fail c => exact h
  | leave c =>
    simp only [hubStep]; split
    · simp only [broadcast_conns]; rw [setState_keys]; exact h
    · rw [setState_keys]; exact h
    · exact h

theorem run_keys (ops : List HubOp) : KeysNodup (hubRun ops) := by
  suffices h : ∀ s, KeysNodup s → KeysNodup (ops.foldl hubStep s) from h {} (by simp [KeysNodup])
  induction ops with
  | nil => intro s h; exact h
  | cons op ops ih => intro s h; exact ih _ (step_conns_keys s op h)

theorem filter_all (l : List Ev) : l.filter (fun _ => true) = l := by
  induction l with
  | nil => rfl
  | cons x xs ih => simp [List.filter_cons]

theorem filter_eq_of_nodup (l : List Nat) (c : Nat) (h : l.Nodup) : l.filter (· = c) = if c ∈ l then [c] else [] := by
  induction l with
  | nil => simp
  | cons x xs ih =>
    have hx := (List.nodup_cons.mp h)
    by_cases e : x = c
    · subst e
      have : xs.filter (· = x) = [] := by rw [ih hx.2]; simp [hx.1]
      simp [List.filter_cons, this]
    · have e' : ¬ c = x := fun q => e q.symm
      simp [List.filter_cons, e, ih hx.2, e']

theorem authedIds_nodup (s : Hub) (h : KeysNodup s) : s.authedIds.Nodup := by
  unfold Hub.authedIds KeysNodup at *
  exact h.sublist (List.Sublist.map _ List.filter_sublist)

/-! ### broadcast: exactly one frame to every authenticated operator except the excluded one -/

/-- `c` is a target of a broadcast excluding `ex` -/
def IsTarget (s : Hub) (c : Nat) (ex : Option Nat) : Prop :=
  c ∈ s.authedIds ∧ some c ≠ ex ∧ s.failed.contains c = false

instance (s : Hub) (c : Nat) (ex : Option Nat) : Decidable (IsTarget s c ex) := by unfold IsTarget; exact inferInstance

theorem broadcast_exact (s : Hub) (h : KeysNodup s) (e : Ev) (ex : Option Nat) (c : Nat) :
    (s.broadcast e ex).received c = s.received c ++ (if IsTarget s c ex then [e] else []) := by
  unfold Hub.broadcast
  rw [received_emit]
  congr 1
  have nd : ((s.authedIds.filter fun x => some x != ex).filter fun x => !s.failed.contains x).Nodup :=
    ((authedIds_nodup s h).sublist List.filter_sublist).sublist List.filter_sublist
  rw [filter_eq_of_nodup _ c nd]
  have key : c ∈ ((s.authedIds.filter fun x => some x != ex).filter fun x => !s.failed.contains x) ↔ IsTarget s c ex := by
    unfold IsTarget
    simp only [List.mem_filter, bne_iff_ne, ne_eq, Bool.not_eq_true', and_assoc]
  by_cases ht : IsTarget s c ex
  · rw [if_pos (key.mpr ht), if_pos ht]; rfl
  · rw [if_neg (fun q => ht (key.mp q)), if_neg ht]; rfl

/-- a recorded event reaches every authenticated operator except the excluded one exactly once
    and nobody else; unless it is one-shot it is retained, at the end of the log -/
theorem record_exact (s : Hub) (h : KeysNodup s) (m : String) (one : Bool) (ex : Option Nat) (c : Nat) :
    (hubStep s (.record m one ex)).received c = s.received c ++ (if IsTarget s c ex then [Ev.chat m] else []) ∧
    (hubStep s (.record m one ex)).retained = (if one then s.retained else s.retained ++ [Ev.chat m]) := by
  simp only [hubStep]
  cases one
  · refine ⟨?_, by simp⟩
    have hb := broadcast_exact (s.retain (.chat m)) h (.chat m) ex c
    simp only [Bool.false_eq_true, if_false]
    rw [hb, received_retain]
    by_cases ht : IsTarget s c ex
    · have ht' : IsTarget (s.retain (.chat m)) c ex := ht
      rw [if_pos ht, if_pos ht']
    · have ht' : ¬ IsTarget (s.retain (.chat m)) c ex := ht
      rw [if_neg ht, if_neg ht']
  · exact ⟨by simpa using broadcast_exact s h (.chat m) ex c, by simp⟩

/-- one-shot events are delivered but never replayed: they never enter the retained log -/
theorem oneshot_not_retained (s : Hub) (m : String) (ex : Option Nat) :
    (hubStep s (.record m true ex)).retained = s.retained := by simp [hubStep]

/-! ### replay to a newcomer -/

theorem login_replay (s : Hub) (c : Nat) (u : String) (hf : s.stateOf c = some .fresh)
    (hok : s.failed.contains c = false) :
    (hubStep s (.login c u)).received c =
      s.received c ++ [Ev.success] ++ (s.retained ++ [Ev.userOn u]) ++ s.activeSessions := by
  simp only [hubStep, hf, if_true]
  rw [received_emitMany]
  simp only [broadcast_failed, retain_failed, emitMany_failed, setState_failed, hok, and_self, if_true,
    broadcast_retained, retain_retained, emitMany_retained, setState_retained]
  unfold Hub.broadcast
  rw [received_emit]
  have hnone : (((((s.setState c (.authed u)).emitMany c [Ev.success]).retain (.userOn u)).authedIds.filter
      fun x => some x != some c).filter fun x => !(((s.setState c (.authed u)).emitMany c [Ev.success]).retain (.userOn u)).failed.contains x).filter (· = c) = [] := by
    rw [List.filter_eq_nil_iff]
    intro x hx
    simp only [List.mem_filter] at hx
    have := hx.1.2
    simp only [decide_eq_true_eq]
    intro e; subst e; simp at this
  rw [hnone]
  simp only [List.map_nil, List.append_nil, received_retain]
  rw [received_emitMany]
  simp only [setState_failed, hok, and_self, if_true, received_setState]
  simp [Hub.activeSessions, List.append_assoc]

/-! ### the retained log keeps its order -/

/-- every operation leaves the retained log in order: what was there stays in its order
    (minus the add events of a listener being removed) and new events go to the end -/
theorem retained_order (s : Hub) (op : HubOp) :
    ∃ (keep : Ev → Bool) (suffix : List Ev), (hubStep s op).retained = s.retained.filter keep ++ suffix := by
  have same : ∀ t : Hub, t.retained = s.retained → ∃ (keep : Ev → Bool) (suffix : List Ev), t.retained = s.retained.filter keep ++ suffix :=
    fun t h => ⟨fun _ => true, [], by simp [h, filter_all]⟩
  have app : ∀ (t : Hub) (suf : List Ev), t.retained = s.retained ++ suf →
      ∃ (keep : Ev → Bool) (suffix : List Ev), t.retained = s.retained.filter keep ++ suffix :=
    fun t suf h => ⟨fun _ => true, suf, by simp [h, filter_all]⟩
  cases op with
  | connect c => simp only [hubStep]; split <;> exact same _ rfl
  | login c u =>
    simp only [hubStep]; split
    · exact app _ [.userOn u] (by simp)
    · exact same _ rfl
  | record m one ex =>
    simp only [hubStep]; cases one
    · exact app _ [.chat m] (by simp)
    · exact same _ (by simp)
  | chat c m =>
    simp only [hubStep]; split
    · exact app _ [.chat m] (by simp)
    · exact same _ rfl
  | lAdd c n =>
    simp only [hubStep]; split
    · split
      · exact same _ rfl
      · exact app _ [.lAdd n] (by simp)
    · exact same _ rfl
  | lRemove c n =>
    simp only [hubStep]; split
    · split
      · exact ⟨fun e => e ≠ .lAdd n, [.lRemove n, .lRemove n], by simp [List.filter_append]⟩
      · exact app _ [.lRemove n, .lRemove n] (by simp)
    · exact same _ rfl
  | lNotify n => simp only [hubStep]; exact app _ [.lAdd n] (by simp)
  | register id => simp only [hubStep]; split <;> exact same _ (by simp)
  | dead c id =>
    simp only [hubStep]; split
    · split
      · exact app _ [.mark id, .mark id] (by simp)
      · exact app _ [.mark id] (by simp)
    · exact same _ rfl
  | fail c => exact same _ rfl
  | leave c =>
    simp only [hubStep]; split
    · rename_i u _; exact app _ [.userOff u] (by simp)
    · exact same _ (by simp)
    · exact same _ rfl

/-! ### removed listeners are not announced to newcomers -/

/-- every retained add event names a listener that still exists -/
def ListenerInv (s : Hub) : Prop := ∀ n, Ev.lAdd n ∈ s.retained → n ∈ s.listeners

/-- a status report names a listener that exists at that moment -/
def notifyOk (s : Hub) : HubOp → Prop
  | .lNotify n => n ∈ s.listeners
  | _ => True

/-- histories in which every status report arrives while its listener exists -/
def WellNotified : Hub → List HubOp → Prop
  | _, [] => True
  | s, op :: ops => notifyOk s op ∧ WellNotified (hubStep s op) ops

theorem step_listenerInv (s : Hub) (op : HubOp) (h : ListenerInv s) (hn : notifyOk s op) : ListenerInv (hubStep s op) := by
  have same : ∀ t : Hub, (∀ n, Ev.lAdd n ∈ t.retained → Ev.lAdd n ∈ s.retained) → (∀ n, n ∈ s.listeners → n ∈ t.listeners) → ListenerInv t :=
    fun t hr hl n hn => hl n (h n (hr n hn))
  cases op with
  | connect c => simp only [hubStep]; split <;> exact same _ (fun _ x => x) (fun _ x => x)
  | login c u =>
    simp only [hubStep]; split
    · exact same _ (fun n x => by simpa using x) (fun _ x => by simpa using x)
    · exact h
  | record m one ex =>
    simp only [hubStep]; cases one
    · exact same _ (fun n x => by simpa using x) (fun _ x => by simpa using x)
    · exact same _ (fun n x => by simpa using x) (fun _ x => by simpa using x)
  | chat c m =>
    simp only [hubStep]; split
    · exact same _ (fun n x => by simpa using x) (fun _ x => by simpa using x)
    · exact h
  | lAdd c n =>
    simp only [hubStep]; split
    · split
      · exact h
      · intro k hk
        simp only [broadcast_retained, retain_retained, List.mem_append, List.mem_singleton, Ev.lAdd.injEq, broadcast_listeners, retain_listeners] at hk ⊢
        rcases hk with hk | rfl
        · left; exact h k hk
        · right; rfl
    · exact h
  | lRemove c n =>
    simp only [hubStep]; split
    · split
      · intro k hk
        simp only [broadcast_retained, retain_retained, List.mem_append, List.mem_singleton, List.mem_filter,
          broadcast_listeners, retain_listeners, reduceCtorEq, or_false, decide_eq_true_eq, ne_eq] at hk ⊢
        obtain ⟨hk1, hk2⟩ := hk
        have hkn : k ≠ n := fun e => hk2 (by rw [e])
        exact ⟨h k hk1, hkn⟩
      · exact same _ (fun k x => by simpa using x) (fun _ x => by simpa using x)
    · exact h
  | lNotify n =>
    simp only [hubStep]
    intro k hk
    simp only [broadcast_retained, retain_retained, List.mem_append, List.mem_singleton, Ev.lAdd.injEq, broadcast_listeners, retain_listeners] at hk ⊢
    rcases hk with hk | rfl
    · exact h k hk
    · exact hn
  | register id => simp only [hubStep]; split <;> exact same _ (fun n x => by simpa using x) (fun _ x => by simpa using x)
  | dead c id =>
    simp only [hubStep]; split
    · split
      · exact same _ (fun n x => by simpa using x) (fun _ x => by simpa using x)
      · exact same _ (fun n x => by simpa using x) (fun _ x => by simpa using x)
    · exact h
  | fail c => exact h
  | leave c =>
    simp only [hubStep]; split
    · exact same _ (fun n x => by simpa using x) (fun _ x => by simpa using x)
    · exact same _ (fun n x => by simpa using x) (fun _ x => by simpa using x)
    · exact h

theorem foldl_listenerInv (ops : List HubOp) : ∀ s, ListenerInv s → WellNotified s ops → ListenerInv (ops.foldl hubStep s) := by
  induction ops with
  | nil => intro s h _; exact h
  | cons op ops ih =>
    intro s h hw
    simp only [List.foldl_cons]
    exact ih (hubStep s op) (step_listenerInv s op h hw.1) hw.2

theorem run_listenerInv (ops : List HubOp) (hw : WellNotified {} ops) : ListenerInv (hubRun ops) :=
  foldl_listenerInv ops {} (by intro n hn; simp at hn) hw

/-- For every history: once an operator has removed a listener, no add event of it is in the
    replay list any more (so no newcomer is told about it), whatever was recorded before. -/
theorem removed_listener_not_replayed (ops : List HubOp) (hw : WellNotified {} ops) (c : Nat) (n : String) (u : String)
    (hc : (hubRun ops).stateOf c = some (.authed u)) :
    Ev.lAdd n ∉ (hubStep (hubRun ops) (.lRemove c n)).retained := by
  intro hmem
  have inv := step_listenerInv _ (.lRemove c n) (run_listenerInv ops hw) trivial n hmem
  simp only [hubStep, hc] at inv
  split at inv
  · simp at inv
  · rename_i hno
    simp only [broadcast_listeners, retain_listeners] at inv
    simp at hno
    exact hno inv

/- the hypothesis is met by a history with an add, two status reports and more (non-vacuity) … -/
example : WellNotified {} [.connect 0, .login 0 "a", .lAdd 0 "L", .lNotify "L", .lNotify "L", .record "m" false none] := by
  simp [WellNotified, notifyOk, hubStep, Hub.stateOf, Hub.setState, Hub.emitMany, Hub.retain, Hub.broadcast, Hub.emit,
    Hub.authedIds, Hub.activeSessions, HConn.isAuthed]
example : Ev.lAdd "L" ∉ (hubRun [.connect 0, .login 0 "a", .lAdd 0 "L", .lNotify "L", .lNotify "L", .lRemove 0 "L"]).retained := by
  decide

/- … and it is needed: a status report for a listener that does not exist (any more) is recorded like any
   other and nothing ever prunes it.  The implementation does the same (ListenerStartNotify records
   unconditionally, ListenerRemove finds no listener of that name); only a third-party service can cause it. -/
example : Ev.lAdd "L" ∈ (hubRun [.connect 0, .login 0 "a", .lNotify "L", .lRemove 0 "L"]).retained := by decide

/-! ### a dead operator changes nothing for the others -/

theorem sameBut_with_listeners {d : Nat} {s t : Hub} (h : SameBut d s t) (f : List String → List String) :
    SameBut d { s with listeners := f s.listeners } { t with listeners := f t.listeners } :=
  ⟨h.conns, h.retained, h.sessions, by simp [h.listeners], h.failed, h.delivered⟩

theorem sameBut_with_sessions {d : Nat} {s t : Hub} (h : SameBut d s t) (f : List (String × Bool) → List (String × Bool)) :
    SameBut d { s with sessions := f s.sessions } { t with sessions := f t.sessions } :=
  ⟨h.conns, h.retained, by simp [h.sessions], h.listeners, h.failed, h.delivered⟩

theorem sameBut_with_conns {d : Nat} {s t : Hub} (h : SameBut d s t) (f : List (Nat × HConn) → List (Nat × HConn)) :
    SameBut d { s with conns := f s.conns } { t with conns := f t.conns } :=
  ⟨by simp [h.conns], h.retained, h.sessions, h.listeners, h.failed, h.delivered⟩

theorem sameBut_prune {d : Nat} {s t : Hub} (h : SameBut d s t) (f : List String → List String) (g : List Ev → List Ev) :
    SameBut d { s with listeners := f s.listeners, retained := g s.retained } { t with listeners := f t.listeners, retained := g t.retained } :=
  ⟨h.conns, by simp [h.retained], h.sessions, by simp [h.listeners], h.failed, h.delivered⟩

/-- the same operation applied to two states that differ only in d's transport -/
theorem step_sameBut {d : Nat} {s t : Hub} (h : SameBut d s t) (op : HubOp) : SameBut d (hubStep s op) (hubStep t op) := by
  cases op with
  | connect c =>
    simp only [hubStep, h.stateOf c]
    split
    · exact h
    · exact sameBut_with_conns h (· ++ [(c, .fresh)])
  | login c u =>
    simp only [hubStep, h.stateOf c]
    split
    · have h3 := ((((h.setState c (.authed u)).emitMany c [.success]).retain (.userOn u)).broadcast (.userOn u) (some c))
      have hr := h3.retained
      have ha := h3.activeSessions
      rw [hr, ha]
      exact h3.emitMany c _
    · exact h
  | record m one ex =>
    simp only [hubStep]
    cases one
    · exact (h.retain _).broadcast _ _
    · exact h.broadcast _ _
  | chat c m =>
    simp only [hubStep, h.stateOf c]
    split
    · exact (h.retain _).broadcast _ _
    · exact h
  | lAdd c n =>
    simp only [hubStep, h.stateOf c]
    split
    · simp only [h.listeners]
      by_cases hc : s.listeners.contains n = true
      · simp only [hc, ↓reduceIte]; exact h
      · simp only [hc, ↓reduceIte]
        have h2 := sameBut_with_listeners h (· ++ [n])
        rw [h.listeners] at h2
        exact (h2.retain _).broadcast _ _
    · exact h
  | lRemove c n =>
    simp only [hubStep, h.stateOf c]
    split
    · have h1 := h.retain (.lRemove n)
      simp only [retain_listeners, h.listeners]
      by_cases hc : s.listeners.contains n = true
      · simp only [hc, ↓reduceIte]
        have h2 := sameBut_prune h1 (·.filter (· ≠ n)) (·.filter (· ≠ .lAdd n))
        simp only [retain_listeners] at h2
        rw [h.listeners] at h2
        exact (h2.retain _).broadcast _ _
      · simp only [hc, ↓reduceIte]
        exact (h1.retain _).broadcast _ _
    · exact h
  | lNotify n => simp only [hubStep]; exact (h.retain _).broadcast _ _
  | register id =>
    simp only [hubStep, h.sessions]
    by_cases hc : (s.sessions.any fun x => x.1 == id) = true
    · simp only [hc, ↓reduceIte]; exact h
    · simp only [hc, ↓reduceIte]
      have h2 := sameBut_with_sessions h (· ++ [(id, true)])
      rw [h.sessions] at h2
      exact h2.broadcast _ _
  | dead c id =>
    simp only [hubStep, h.stateOf c]
    split
    · have h1 := h.retain (.mark id)
      simp only [retain_sessions, h.sessions]
      by_cases hc : (s.sessions.any fun x => x.1 == id) = true
      · simp only [hc, ↓reduceIte]
        have h2 := sameBut_with_sessions h1 (·.map fun (i, a) => if i == id then (i, false) else (i, a))
        simp only [retain_sessions] at h2
        rw [h.sessions] at h2
        exact (h2.retain _).broadcast _ _
      · simp only [hc, ↓reduceIte]; exact h1
    · exact h
  | fail c =>
    simp only [hubStep]
    refine ⟨h.conns, h.retained, h.sessions, h.listeners, ?_, h.delivered⟩
    intro x hx
    have := h.failed x hx
    simp only [List.contains_cons, this]
  | leave c =>
    simp only [hubStep, h.stateOf c]
    split
    · exact ((h.retain _).setState _ _).broadcast _ _
    · exact h.setState _ _
    · exact h

/-- cutting d's transport changes nothing but d's own future -/
theorem fail_sameBut (d : Nat) (s t : Hub) (h : SameBut d s t) : SameBut d s (hubStep t (.fail d)) := by
  refine ⟨h.conns, h.retained, h.sessions, h.listeners, ?_, h.delivered⟩
  intro x hx
  simp only [hubStep, List.contains_cons]
  have : (x == d) = false := by simp [hx]
  rw [this, Bool.false_or]; exact h.failed x hx

/-- a history with d's transport failures removed -/
def withoutFail (d : Nat) (ops : List HubOp) : List HubOp := ops.filter (· ≠ .fail d)

theorem run_sameBut (d : Nat) (ops : List HubOp) : ∀ s t, SameBut d s t →
    SameBut d ((withoutFail d ops).foldl hubStep s) (ops.foldl hubStep t) := by
  induction ops with
  | nil => intro s t h; exact h
  | cons op ops ih =>
    intro s t h
    by_cases hop : op = .fail d
    · subst hop
      have : withoutFail d (HubOp.fail d :: ops) = withoutFail d ops := by simp [withoutFail]
      rw [this]
      exact ih s _ (fail_sameBut d s t h)
    · have : withoutFail d (op :: ops) = op :: withoutFail d ops := by simp [withoutFail, hop]
      rw [this]
      exact ih _ _ (step_sameBut h op)

/-- For every history and every point at which operator d's transport is cut: every other
    connection receives exactly what it would have received had d stayed healthy, in the
    same order — event distribution to the others does not depend on d's failure. -/
theorem dead_operator_blocks_nobody (ops : List HubOp) (d c : Nat) (hcd : c ≠ d) :
    (hubRun ops).received c = (hubRun (withoutFail d ops)).received c := by
  have h := run_sameBut d ops {} {} (SameBut.refl d {})
  have hd := h.delivered
  unfold hubRun Hub.received
  have key : ∀ D : List (Nat × Ev), (D.filter (·.1 = c)) = (D.filter (fun p => decide (p.1 ≠ d))).filter (·.1 = c) := by
    intro D
    rw [List.filter_filter]
    congr 1; funext p
    by_cases hp : p.1 = c
    · simp [hp, hcd]
    · simp [hp]
  rw [key (List.foldl hubStep {} ops).delivered, key (List.foldl hubStep {} (withoutFail d ops)).delivered, hd]

/-- … and the retained log, the sessions and the listeners do not depend on it either -/
theorem dead_operator_same_log (ops : List HubOp) (d : Nat) :
    (hubRun ops).retained = (hubRun (withoutFail d ops)).retained :=
  (run_sameBut d ops {} {} (SameBut.refl d {})).retained

/-! ### regenerated facts: the per-client lock and the write deadline -/

open Gen.LockFacts in
/-- regenerated from cmd/server/teamserver.go on every run: `EventAppend` records under the list's mutex everything
    whose one-shot flag is not exactly "true" (`record`), and `SendAllPackagesToNewClient` replays a COPY of the
    retained list taken under the mutex and sends after releasing it (`login_replay`: the newcomer's replay is the list
    as it was at that moment, whatever is recorded or pruned meanwhile; a stalled newcomer holds no lock) -/
theorem record_and_replay_transcribed :
    Gen.SrcLines.eventAppend =
      [
       "EventAppend(event packager.Package) []packager.Package",
       "t.EventsListMtx.Lock()",
       "defer t.EventsListMtx.Unlock()",
       "if event.Head.Event == 0 { return t.EventsList }",
       "if event.Head.OneTime != \"true\" { t.EventsList = append(t.EventsList, event) return append(t.EventsList, event) }",
       "return nil"] ∧
    Gen.SrcLines.sendAllPackagesToNewClient =
      [
       "SendAllPackagesToNewClient(ClientID string)",
       "t.EventsListMtx.Lock()",
       "Packages := append([]packager.Package(nil), t.EventsList...)",
       "t.EventsListMtx.Unlock()",
       "for _, Package := range Packages { err := t.SendEvent(ClientID, Package) if err != nil { logger.Error(\"error while sending info to client(\"+ClientID+\"): \", err) return } }",
       "for _, demon := range t.Agents.Agents { if demon.Active == false { continue } pk := t.EventNewDemon(demon) err := t.SendEvent(ClientID, pk) if err != nil { logger.Error(\"error while sending info to client(\"+ClientID+\"): \", err) return } }"] :=
  ⟨rfl, rfl⟩

/-- regenerated (`Gen.TableWrites`): an `append(T[:i], …)` moves elements inside T's backing array even when its result
    is not stored back into T.  The only such expression on a shared table is the return value of `EventRemove`
    (it would drop a second retained event and duplicate the last one), and `EventRemove` is called from nowhere:
    no reachable code damages the retained list that way. -/
theorem detached_appends_unreachable :
    (Gen.TableWrites.detachedAppends.all fun (f, _) => f == "server/Teamserver.EventRemove") = true ∧
    Gen.TableWrites.detachedCallers = [] := by decide

/-- regenerated (`Gen.TableWrites`): every assignment to these tables anywhere in the teamserver is an append at the end,
    a delete of one index, the hand-out split, `nil` / an empty literal, or a slice built up freshly in a local - never a
    re-slice to length 0 or a filter in place, whose later appends would overwrite what an earlier reader still holds.
    The models' immutable lists are faithful to the Go slices only under this fact. -/
theorem events_writes_value_like :
    aliasingWrites ["EventsList"] = [] ∧ writtenTables ["EventsList"] = ["EventsList"] ∧ Gen.TableWrites.reslicesToZero = [] := by decide

/-- the same on every control-flow path separately (regenerated `Gen.LockPaths`): no early return, branch or case of
    any of these functions leaves a mutex held that a `defer` does not release -/
theorem server_locks_balanced_every_path : pathsUnbalancedIn ["server", "service"] = [] := by decide

/-- every function of cmd/server and pkg/service that takes a mutex releases it on every path
    (in particular SendEvent after a failed write) -/
theorem server_locks_balanced : unbalancedIn ["server", "service"] = [] := by decide

/-- the retained log is only touched with its mutex held — events recorded concurrently are
    not lost.  (The one exception listed is the value returned by ListenerRemove's database-error
    exit, which no caller uses.) -/
theorem events_list_guarded :
    unguardedIn ["server"] ["EventsList"] = [("server/Teamserver.ListenerRemove", ["EventsList"])] := by decide

open Gen.CallSeq in
/-- SendEvent sets a write deadline after taking the client's lock and before the write, and
    unlocks after the write -/
theorem sendEvent_deadline_before_write :
    (((Teamserver_SendEvent.dropWhile (· ≠ "Lock")).takeWhile (· ≠ "Unlock")).filter
      (fun c => c = "SetWriteDeadline" ∨ c = "WriteMessage")) = ["SetWriteDeadline", "WriteMessage"] := by decide

open Gen.CallSeq in
/-- the replay is: every retained package, then every live agent, each through SendEvent -/
theorem replay_shape : (Teamserver_SendAllPackagesToNewClient.filter (fun c => c = "SendEvent" ∨ c = "EventNewDemon"))
      = ["SendEvent", "EventNewDemon", "SendEvent"] := by decide

/-! non-vacuity -/
example : (hubRun [.connect 0, .login 0 "alice", .record "m" false none]).received 0 =
    [.success, .userOn "alice", .chat "m"] := by decide

end Havoc.C11
