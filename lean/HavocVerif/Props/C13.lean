import HavocVerif.Lemmas.Builder
import HavocVerif.Gen.Consts
import HavocVerif.Gen.CallSeq
import HavocVerif.Gen.DemonConfig
/-
  C13 — A generated payload is configured for exactly the chosen listener and options.
-/
namespace Havoc.C13
open Havoc

/-! ### what is packed is what the Demon reads -/

/-- For every configuration whose numbers fit their fields: the Demon, reading the block field
    by field the way DemonConfig() does, ends up with exactly that configuration and has then
    consumed exactly the block. -/
theorem config_roundtrip (c : DemonCfg) (h : WfCfg c) : readCfg c.transport.isSmb (packCfg c) = some (c, []) := by
  have := readCfg_packCfg c [] h
  simpa using this

/-! ### wide strings -/

theorem utf16Units_lt (c : Nat) (h : c < 0x110000) : ∀ u ∈ utf16Units c, u < 65536 := by
  intro u hu
  unfold utf16Units at hu
  split at hu
  · simp at hu; omega
  · simp at hu; omega

theorem utf16Units_len (c : Nat) : (utf16Units c).length ≤ 2 := by
  unfold utf16Units; split <;> simp

theorem flatMap_units_len (cs : List Nat) : (cs.flatMap utf16Units).length ≤ 2 * cs.length := by
  induction cs with
  | nil => simp
  | cons c cs ih =>
    have := utf16Units_len c
    simp only [List.flatMap_cons, List.length_append, List.length_cons]; omega

/-- an operator string of scalar values, shorter than 2^29 characters -/
def StrOk (cs : List Nat) : Prop := (∀ c ∈ cs, c < 0x110000) ∧ cs.length < 536870912

theorem wide_wf (cs : List Nat) (h : StrOk cs) : WfW (wide cs) := by
  unfold wide WfW
  constructor
  · intro u hu
    simp only [List.mem_flatMap] at hu
    obtain ⟨c, hc, hu⟩ := hu
    have hc' : c < 0x110000 := by
      split at hc
      · exact h.1 c hc
      · simp only [List.mem_append, List.mem_singleton] at hc
        rcases hc with hc | rfl
        · exact h.1 c hc
        · omega
    exact utf16Units_lt c hc' u hu
  · have := flatMap_units_len (if cs.getLast? = some 0 then cs else cs ++ [0])
    have hl : (if cs.getLast? = some 0 then cs else cs ++ [0]).length ≤ cs.length + 1 := by
      split <;> simp
    have := h.2
    omega

theorem strOk_append (a b : List Nat) (ha : StrOk a) (hb : StrOk b) (hl : a.length + b.length < 536870912) : StrOk (a ++ b) := by
  refine ⟨?_, by simpa using hl⟩
  intro c hc
  simp only [List.mem_append] at hc
  rcases hc with hc | hc
  · exact ha.1 c hc
  · exact hb.1 c hc

/-! ### working hours -/

/-- the five fields of the packed word, as the Demon's bit masks take them apart -/
def unpackHours (w : Nat) : Nat × Nat × Nat × Nat × Nat :=
  (w / 4194304 % 2, w / 131072 % 32, w / 2048 % 64, w / 64 % 32, w % 64)

/-- every accepted working-hours value survives the bit packing -/
theorem hours_roundtrip (sh sm eh em : Nat) (h : hoursOk sh sm eh em = true) :
    unpackHours (packHours sh sm eh em) = (1, sh, sm, eh, em) := by
  simp only [hoursOk, Bool.and_eq_true, decide_eq_true_eq] at h
  obtain ⟨⟨⟨⟨h1, h2⟩, h3⟩, h4⟩, _⟩ := h
  simp only [unpackHours, packHours, Prod.mk.injEq]
  refine ⟨by omega, by omega, by omega, by omega, by omega⟩

theorem packHours_lt (sh sm eh em : Nat) : packHours sh sm eh em < 4294967296 := by
  unfold packHours
  have a : ∀ x : Nat, x % 32 < 32 := fun x => Nat.mod_lt _ (by omega)
  have b : ∀ x : Nat, x % 64 < 64 := fun x => Nat.mod_lt _ (by omega)
  have := a sh; have := b sm; have := a eh; have := b em
  omega

theorem hours_word_fits (raw : List Nat) (w : Nat) (h : hoursWord raw = some w) : w < 4294967296 := by
  unfold hoursWord at h
  cases hp : parseHours raw with
  | none => rw [hp] at h; cases h
  | some o =>
    rw [hp] at h
    cases o with
    | none => simp at h; omega
    | some hh =>
      simp only at h
      split at h
      · cases h; exact packHours_lt _ _ _ _
      · cases h

/-- the grammar: what is accepted, what is refused -/
example : parseHours (asciiStr "8:00-17:00") = some (some ⟨8, 0, 17, 0⟩) := by decide
example : parseHours (asciiStr "24:60-29:69") = some (some ⟨24, 60, 29, 69⟩) := by decide
example : hoursWord (asciiStr "24:60-29:69") = none := by decide
example : hoursWord (asciiStr "17:00-8:00") = none := by decide
example : hoursWord (asciiStr "9:30-9:30") = none := by decide
example : parseHours (asciiStr "08:00-17:00") = none := by decide
example : parseHours (asciiStr "8:00-17:00 ") = none := by decide
example : hoursWord [] = some 0 := by decide

/-! ### the decision part: what fails the build -/

theorem bad_sleep_fails (o : BuildOpts) (l : ListenerL) (h : inI32 o.sleep = false) : patchConfig o l = none := by
  simp [patchConfig, specCfg, h]

theorem bad_jitter_fails (o : BuildOpts) (l : ListenerL) (h : ¬ (0 ≤ o.jitter ∧ o.jitter ≤ 100)) : patchConfig o l = none := by
  have : (decide (0 ≤ o.jitter) && decide (o.jitter ≤ 100)) = false := by
    rw [Bool.and_eq_false_iff]
    by_cases h0 : 0 ≤ o.jitter
    · right; simp; omega
    · left; simp; omega
  simp [patchConfig, specCfg, this]

theorem get_method_fails (o : BuildOpts) (h : HttpL) (hg : h.getMethod = true) : patchConfig o (.http h) = none := by
  unfold patchConfig specCfg
  split
  · rfl
  · split
    · rfl
    · simp only [Option.map_eq_none_iff]
      split
      · rename_i port hosts _ _
        simp [hg]
      · rfl

theorem bad_port_fails (o : BuildOpts) (h : HttpL) (p : Int) (hp : h.port = some p) (hb : portOk p = false) :
    patchConfig o (.http h) = none := by
  unfold patchConfig specCfg
  split
  · rfl
  · split
    · rfl
    · simp only [Option.map_eq_none_iff]
      split
      · rename_i port hosts hport _
        rw [hp] at hport; cases hport
        simp [hb]
      · rfl

theorem unparsable_port_fails (o : BuildOpts) (h : HttpL) (hp : h.port = none) : patchConfig o (.http h) = none := by
  unfold patchConfig specCfg
  split
  · rfl
  · split
    · rfl
    · simp only [Option.map_eq_none_iff]
      split
      · rename_i port hosts hport _
        rw [hp] at hport; cases hport
      · rfl

theorem bad_hours_fail (o : BuildOpts) (pipe : List Nat) (kd : Nat) (raw : List Nat) (h : hoursWord raw = none) :
    patchConfig o (.smb pipe kd raw) = none := by
  unfold patchConfig specCfg
  split
  · rfl
  · split
    · rfl
    · simp [h]

/-! ### the chosen options are the payload's options -/

/-- the option part of a successful build: every field the Demon reads is the operator's choice -/
theorem options_are_chosen (o : BuildOpts) (l : ListenerL) (c : DemonCfg) (h : specCfg o l = some c) :
    c.sleep = o.sleep.toNat ∧ c.jitter = o.jitter.toNat ∧ c.alloc = allocCode o.alloc ∧ c.execute = allocCode o.execute ∧
    c.spawn64 = wide o.spawn64 ∧ c.spawn32 = wide o.spawn32 ∧ c.technique = techniqueCode o.technique ∧
    c.bypass = (if techniqueCode o.technique = 0 then 0 else gadgetCode o.gadget) ∧
    c.stackSpoof = (if techniqueCode o.technique ≠ 0 && o.stackDup then 1 else 0) ∧
    c.proxyLoading = proxyLoadingCode o.proxyLoading ∧ c.sysIndirect = (if o.indirectSyscall then 1 else 0) ∧
    c.amsi = amsiCode o.amsi := by
  unfold specCfg at h
  split at h
  · cases h
  · split at h
    · cases h
    · simp only [Option.map_eq_some_iff] at h
      obtain ⟨t, _, rfl⟩ := h
      exact ⟨rfl, rfl, rfl, rfl, rfl, rfl, rfl, rfl, rfl, rfl, rfl, rfl⟩

/-- end to end: whenever a block is produced, the Demon reads from it exactly the
    configuration the operator chose (`specCfg`), provided it is well-formed (strings of
    scalar values, lists and numbers within their fields: `WfCfg`). -/
theorem payload_is_what_was_chosen (o : BuildOpts) (l : ListenerL) (bs : Bytes) (h : patchConfig o l = some bs) :
    ∃ c, specCfg o l = some c ∧ (WfCfg c → readCfg c.transport.isSmb bs = some (c, [])) := by
  unfold patchConfig at h
  simp only [Option.map_eq_some_iff] at h
  obtain ⟨c, hc, rfl⟩ := h
  exact ⟨c, hc, config_roundtrip c⟩

/-- the SMB listener: pipe name, kill date and working hours are the listener's, and the block is well-formed -/
theorem smb_payload (o : BuildOpts) (pipe : List Nat) (kd : Nat) (raw : List Nat) (c : DemonCfg)
    (h : specCfg o (.smb pipe kd raw) = some c) :
    ∃ w, hoursWord raw = some w ∧ c.transport = .smb (wide (asciiStr "\\\\.\\pipe\\" ++ pipe)) kd w := by
  unfold specCfg at h
  split at h
  · cases h
  · split at h
    · cases h
    · simp only [Option.map_eq_some_iff] at h
      obtain ⟨t, ht, rfl⟩ := h
      obtain ⟨w, hw, rfl⟩ := ht
      exact ⟨w, hw, rfl⟩

/-- For an SMB payload nothing is left to assume: for all options and every pipe name, kill
    date and working-hours string (strings of Unicode scalar values, kill date below 2^63),
    if the build succeeds the Demon reads exactly the chosen configuration. -/
theorem smb_payload_total (o : BuildOpts) (pipe : List Nat) (kd : Nat) (raw : List Nat) (bs : Bytes)
    (h64 : StrOk o.spawn64) (h32 : StrOk o.spawn32) (hp : StrOk pipe) (hpl : pipe.length < 268435456)
    (hkd : kd < 9223372036854775808)
    (h : patchConfig o (.smb pipe kd raw) = some bs) :
    ∃ c, specCfg o (.smb pipe kd raw) = some c ∧ readCfg true bs = some (c, []) := by
  obtain ⟨c, hc, hr⟩ := payload_is_what_was_chosen o _ bs h
  refine ⟨c, hc, ?_⟩
  have hopt := options_are_chosen o _ c hc
  obtain ⟨w, hw, ht⟩ := smb_payload o pipe kd raw c hc
  have hsmb : c.transport.isSmb = true := by rw [ht]; rfl
  rw [hsmb] at hr
  apply hr
  -- the bounds
  have hguard : inI32 o.sleep = true ∧ (0 ≤ o.jitter ∧ o.jitter ≤ 100) := by
    unfold specCfg at hc
    split at hc
    · cases hc
    · rename_i hg
      simp only [Bool.or_eq_true, Bool.not_eq_true', not_or, Bool.not_eq_false] at hg
      simp only [Bool.and_eq_true, decide_eq_true_eq] at hg
      exact ⟨hg.1, hg.2⟩
  have hs : o.sleep.toNat < 4294967296 := by
    have := hguard.1
    simp only [inI32, Bool.and_eq_true, decide_eq_true_eq] at this
    omega
  have hj : o.jitter.toNat < 4294967296 := by have := hguard.2; omega
  have codeA : ∀ s, allocCode s < 4294967296 := by intro s; unfold allocCode; split <;> (try split) <;> omega
  have codeT : ∀ s, techniqueCode s < 4294967296 := by
    intro s; unfold techniqueCode; split <;> (try split) <;> (try split) <;> omega
  have codeG : ∀ s, gadgetCode s < 4294967296 := by intro s; unfold gadgetCode; split <;> (try split) <;> omega
  have codeP : ∀ s, proxyLoadingCode s < 4294967296 := by
    intro s; unfold proxyLoadingCode; split <;> (try split) <;> (try split) <;> omega
  have codeM : ∀ s, amsiCode s < 4294967296 := by intro s; unfold amsiCode; split <;> omega
  obtain ⟨e1, e2, e3, e4, e5, e6, e7, e8, e9, e10, e11, e12⟩ := hopt
  refine ⟨by rw [e1]; exact hs, by rw [e2]; exact hj, by rw [e3]; exact codeA _, by rw [e4]; exact codeA _,
    by rw [e5]; exact wide_wf _ h64, by rw [e6]; exact wide_wf _ h32, by rw [e7]; exact codeT _,
    by rw [e8]; split
       · omega
       · exact codeG _,
    by rw [e9]; split <;> omega, by rw [e10]; exact codeP _,
    by rw [e11]; split <;> omega, by rw [e12]; exact codeM _, ?_⟩
  rw [ht]
  refine ⟨wide_wf _ (strOk_append _ _ ⟨by decide, by decide⟩ hp (by simp [asciiStr]; omega)), by omega, hours_word_fits raw w hw⟩

/-! ### regenerated facts: the model's shape is the code's shape -/

open Gen.DemonConfig in
/-- DemonConfig() reads, in this order (a `*` marks a read inside a counted loop) — the shape of `readCfg` -/
theorem demon_reads_http : readsHttp =
    ["ParserGetInt32", "ParserGetInt32", "ParserGetInt32", "ParserGetInt32", "ParserGetBytes", "ParserGetBytes",
     "ParserGetInt32", "ParserGetInt32", "ParserGetInt32", "ParserGetInt32", "ParserGetInt32", "ParserGetInt32",
     "ParserGetInt64", "ParserGetInt32", "ParserGetBytes", "ParserGetInt32", "ParserGetInt32", "ParserGetBytes*", "ParserGetInt32*",
     "ParserGetInt32", "ParserGetBytes", "ParserGetInt32", "ParserGetBytes*", "ParserGetInt32", "ParserGetBytes*",
     "ParserGetInt32", "ParserGetBytes", "ParserGetBytes", "ParserGetBytes"] := by decide

open Gen.DemonConfig in
theorem demon_reads_smb : readsSmb =
    ["ParserGetInt32", "ParserGetInt32", "ParserGetInt32", "ParserGetInt32", "ParserGetBytes", "ParserGetBytes",
     "ParserGetInt32", "ParserGetInt32", "ParserGetInt32", "ParserGetInt32", "ParserGetInt32", "ParserGetInt32",
     "ParserGetBytes", "ParserGetInt64", "ParserGetInt32"] := by decide

open Gen.DemonConfig in
theorem config_is_little_endian : configParserBigEndian = false := by decide

open Gen.CallSeq in
/-- PatchConfig packs, in source order -/
theorem patchconfig_packs :
    (Builder_PatchConfig.filter fun c => ["AddInt", "AddInt32", "AddInt64", "AddWString", "ParseWorkingHours"].contains c) =
    ["AddInt", "AddInt", "AddInt", "AddInt", "AddWString", "AddWString", "AddInt", "AddInt", "AddInt", "AddInt", "AddInt", "AddInt",
     "AddInt64", "ParseWorkingHours", "AddInt32", "AddWString", "AddInt", "AddInt", "AddInt", "AddInt", "AddWString", "AddInt",
     "AddWString", "AddInt", "AddInt", "AddInt", "AddWString", "AddInt", "AddWString", "AddWString", "AddInt", "AddWString",
     "AddInt", "AddWString", "AddInt", "AddWString", "AddInt", "AddWString", "AddInt", "AddWString", "AddWString", "AddWString",
     "AddInt", "AddWString", "AddInt64", "ParseWorkingHours", "AddInt32"] := by decide

open Gen.CallSeq in
/-- the service name is matched against the safe pattern before anything is appended to the compiler defines -/
theorem service_name_checked_first :
    ((Builder_PatchConfig.takeWhile (· ≠ "append")).contains "MatchString") = true := by decide

def lookupC (t : List (String × Nat)) (k : String) : Option Nat := t.lookup k

open Gen.Consts Gen.DemonConfig in
/-- teamserver and Demon agree on the enumerations, and the model's codes are those -/
theorem enums_agree :
    lookupC go_builder "SLEEPOBF_FOLIAGE" = lookupC enums "SLEEPOBF_FOLIAGE" ∧ lookupC enums "SLEEPOBF_FOLIAGE" = some (techniqueCode "Foliage") ∧
    lookupC go_builder "SLEEPOBF_EKKO" = lookupC enums "SLEEPOBF_EKKO" ∧ lookupC enums "SLEEPOBF_EKKO" = some (techniqueCode "Ekko") ∧
    lookupC go_builder "SLEEPOBF_ZILEAN" = lookupC enums "SLEEPOBF_ZILEAN" ∧ lookupC enums "SLEEPOBF_ZILEAN" = some (techniqueCode "Zilean") ∧
    lookupC go_builder "SLEEPOBF_NO_OBF" = lookupC enums "SLEEPOBF_NO_OBF" ∧ lookupC enums "SLEEPOBF_NO_OBF" = some (techniqueCode "WaitForSingleObjectEx") ∧
    lookupC go_builder "SLEEPOBF_BYPASS_JMPRAX" = lookupC enums "SLEEPOBF_BYPASS_JMPRAX" ∧ lookupC enums "SLEEPOBF_BYPASS_JMPRAX" = some (gadgetCode "jmp rax") ∧
    lookupC go_builder "SLEEPOBF_BYPASS_JMPRBX" = lookupC enums "SLEEPOBF_BYPASS_JMPRBX" ∧ lookupC enums "SLEEPOBF_BYPASS_JMPRBX" = some (gadgetCode "jmp rbx") ∧
    lookupC go_builder "PROXYLOADING_RTLREGISTERWAIT" = lookupC enums "PROXYLOAD_RTLREGISTERWAIT" ∧ lookupC enums "PROXYLOAD_RTLREGISTERWAIT" = some (proxyLoadingCode "RtlRegisterWait") ∧
    lookupC go_builder "PROXYLOADING_RTLCREATETIMER" = lookupC enums "PROXYLOAD_RTLCREATETIMER" ∧ lookupC enums "PROXYLOAD_RTLCREATETIMER" = some (proxyLoadingCode "RtlCreateTimer") ∧
    lookupC go_builder "PROXYLOADING_RTLQUEUEWORKITEM" = lookupC enums "PROXYLOAD_RTLQUEUEWORKITEM" ∧ lookupC enums "PROXYLOAD_RTLQUEUEWORKITEM" = some (proxyLoadingCode "RtlQueueWorkItem") ∧
    lookupC go_builder "AMSIETW_PATCH_HWBP" = lookupC enums "AMSIETW_PATCH_HWBP" ∧ lookupC enums "AMSIETW_PATCH_HWBP" = some (amsiCode "Hardware breakpoints") := by decide

/-! non-vacuity -/
def sampleOpts : BuildOpts :=
  ⟨2, 15, true, "Native/Syscall", "Win32", asciiStr "C:\\n.exe", asciiStr "C:\\m.exe", "Foliage", "jmp rax", true, "RtlCreateTimer", "Hardware breakpoints"⟩

example : (specCfg sampleOpts (.smb (asciiStr "p") 0 [])).map (fun c => (c.technique, c.bypass, c.stackSpoof, c.proxyLoading, c.amsi))
    = some (3, 1, 1, 2, 1) := by decide

end Havoc.C13
