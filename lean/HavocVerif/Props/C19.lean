import HavocVerif.Model.Body
/-
  C19 — Equivalent configurations decode to the same result.
  `Bd.decode` is what a body means under a schema.  It depends on the attributes only as a map and
  on the blocks only through the sequence of blocks of each type: every rewrite that keeps those
  (reordering attributes, moving blocks of different types past each other, cutting the file in two
  and merging, writing a run of blocks as a dynamic block, changing comments / spacing / syntax)
  keeps the decoded value AND keeps validity.
-/
namespace Havoc.C19
open Havoc.Bd

/-! ### attributes are a map -/

theorem lookup_perm {α : Type} (n : String) : ∀ (l l' : List (String × α)), l.Perm l' → (l.map (·.1)).Nodup →
    l.lookup n = l'.lookup n := by
  intro l l' h
  induction h with
  | nil => intro _; rfl
  | cons x _ ih =>
    intro hn
    obtain ⟨k, v⟩ := x
    simp only [List.map_cons, List.nodup_cons] at hn
    simp only [List.lookup_cons]
    split
    · rfl
    · exact ih hn.2
  | swap x y l =>
    intro hn
    obtain ⟨k1, v1⟩ := x
    obtain ⟨k2, v2⟩ := y
    simp only [List.map_cons, List.nodup_cons, List.mem_cons, not_or] at hn
    have hne : k2 ≠ k1 := hn.1.1
    simp only [List.lookup_cons]
    by_cases h1 : n = k1
    · subst h1
      have : (n == k2) = false := by
        cases h : (n == k2)
        · rfl
        · exact absurd (by simpa using h : n = k2).symm hne
      simp [this]
    · have : (n == k1) = false := by simpa using h1
      simp [this]
  | trans _ _ ih1 ih2 =>
    rename_i l1 l2 l3 p12 _
    intro hn
    have hn2 : (l2.map (·.1)).Nodup := (p12.map (·.1)).nodup_iff.mp hn
    rw [ih1 hn, ih2 hn2]

/-- reordering the attributes of a body changes neither its decoded value nor its validity -/
theorem attribute_order_irrelevant (fuel : Nat) (s : Sch) (label : Option String)
    (attrs attrs' : List (String × String)) (blocks : List (String × String × Cfg))
    (hp : attrs.Perm attrs') (hn : (attrs.map (·.1)).Nodup) :
    decode fuel s label (.mk attrs blocks) = decode fuel s label (.mk attrs' blocks) := by
  cases fuel with
  | zero => rfl
  | succ f =>
    have hall : ∀ p : String × String → Bool, attrs.all p = attrs'.all p := by
      intro p
      apply Bool.eq_iff_iff.mpr
      simp only [List.all_eq_true]
      exact ⟨fun h x hx => h x (hp.mem_iff.mpr hx), fun h x hx => h x (hp.mem_iff.mp hx)⟩
    have hl : ∀ n, attrs.lookup n = attrs'.lookup n := fun n => lookup_perm n attrs attrs' hp hn
    simp only [decode, Cfg.attrs, Cfg.blocks, hall, hl]
    try rfl

/-! ### blocks are per-type sequences -/

theorem mem_of_filters {bs bs' : List (String × String × Cfg)}
    (h : ∀ t, blocksOfType t bs = blocksOfType t bs') (b : String × String × Cfg) (hb : b ∈ bs) : b ∈ bs' := by
  have : b ∈ blocksOfType b.1 bs := by simp [blocksOfType, hb]
  rw [h b.1] at this
  simp only [blocksOfType, List.mem_filter] at this
  exact this.1

/-- Two bodies with the same attributes whose blocks agree type by type (same blocks of each type
    in the same order) decode alike: this is what block reordering across types, splitting a file
    and merging the parts, and expanding dynamic blocks in place all preserve. -/
theorem blocks_matter_per_type (fuel : Nat) (s : Sch) (label : Option String) (attrs : List (String × String))
    (bs bs' : List (String × String × Cfg)) (h : ∀ t, blocksOfType t bs = blocksOfType t bs') :
    decode fuel s label (.mk attrs bs) = decode fuel s label (.mk attrs bs') := by
  cases fuel with
  | zero => rfl
  | succ f =>
    have hall : ∀ p : String × String × Cfg → Bool, bs.all p = bs'.all p := by
      intro p
      apply Bool.eq_iff_iff.mpr
      simp only [List.all_eq_true]
      exact ⟨fun hh x hx => hh x (mem_of_filters (fun t => (h t).symm) x hx), fun hh x hx => hh x (mem_of_filters h x hx)⟩
    simp only [decode, Cfg.attrs, Cfg.blocks, hall, h]
    try rfl

/-- the items of a file in source order -/
inductive Item where
  | attr (n v : String)
  | block (b : String × String × Cfg)

def bodyOf (items : List Item) : Cfg :=
  .mk (items.filterMap fun | .attr n v => some (n, v) | _ => none) (items.filterMap fun | .block b => some b | _ => none)

/-- MergeFiles / MergeBodies: the attributes of both, the blocks of the first followed by those of the second -/
def merge (a b : Cfg) : Cfg := .mk (a.attrs ++ b.attrs) (a.blocks ++ b.blocks)

/-- cutting a file anywhere between two items and merging the two parts gives the same body -/
theorem cut_and_merge (l1 l2 : List Item) : merge (bodyOf l1) (bodyOf l2) = bodyOf (l1 ++ l2) := by
  simp [merge, bodyOf, Cfg.attrs, Cfg.blocks, List.filterMap_append]

theorem cut_and_merge_decodes_alike (fuel : Nat) (s : Sch) (label : Option String) (l1 l2 : List Item) :
    decode fuel s label (merge (bodyOf l1) (bodyOf l2)) = decode fuel s label (bodyOf (l1 ++ l2)) := by
  rw [cut_and_merge]

/-- moving a block of one type past a block of another type -/
theorem swap_different_types (fuel : Nat) (s : Sch) (label : Option String) (attrs : List (String × String))
    (pre post : List (String × String × Cfg)) (x y : String × String × Cfg) (hxy : x.1 ≠ y.1) :
    decode fuel s label (.mk attrs (pre ++ x :: y :: post)) = decode fuel s label (.mk attrs (pre ++ y :: x :: post)) := by
  apply blocks_matter_per_type
  intro t
  simp only [blocksOfType, List.filter_append, List.filter_cons]
  by_cases hx : (x.1 == t) = true <;> by_cases hy : (y.1 == t) = true
  · exact absurd ((by simpa using hx : x.1 = t).trans (by simpa using hy : y.1 = t).symm) hxy
  · simp [hx, hy]
  · simp [hx, hy]
  · simp [hx, hy]

/-! ### validity -/

theorem missing_required_is_invalid (f : Nat) (s : Sch) (label : Option String) (c : Cfg) (n t : String)
    (hreq : (n, t, true) ∈ s.attrs) (hmiss : c.attrs.lookup n = none) : decode (f + 1) s label c = none := by
  simp only [decode]
  split
  · rfl
  · split
    · rfl
    · rename_i h
      exfalso
      apply h
      simp only [Bool.not_eq_true', List.all_eq_false, Bool.not_eq_true]
      exact ⟨(n, t, true), hreq, by simp [hmiss]⟩

theorem unknown_attribute_is_invalid (f : Nat) (s : Sch) (label : Option String) (c : Cfg) (n v : String)
    (hin : (n, v) ∈ c.attrs) (hunk : s.attrs.any (·.1 == n) = false) : decode (f + 1) s label c = none := by
  simp only [decode]
  split
  · rfl
  · rename_i h
    exfalso
    apply h
    simp only [Bool.not_eq_true', List.all_eq_false, Bool.not_eq_true]
    exact ⟨(n, v), hin, by simpa using hunk⟩

/-! example -/
example : decode 5 (.mk [("a", "s", true), ("b", "n", false)] [("blk", false, true, .mk [("x", "b", false)] [])]) none
    (.mk [("b", "n7"), ("a", "s61")] [("blk", noLabel, .mk [("x", "b1")] []), ("blk", noLabel, .mk [] [])])
    = some "{a=s61,b=n7,blk=[{x=t},{}]}" := by decide

end Havoc.C19
