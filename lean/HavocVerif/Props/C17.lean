import HavocVerif.Model.Ranges
/-
  C17 — The yaotl parsers accept any input without crashing and report sane positions.
  Proved here: the structural consequences the property names — a covering token stream loses
  nothing (the input can be put together again from it), and in a nested tree every range lies
  inside the root; plus the range algebra of pos.go.  That the real scanners and parsers produce
  covering streams and nested trees for every input, and never panic or hang, is decided by the
  correspondence run (the scanners are generated state machines and are not modelled).
-/
namespace Havoc.C17
open Havoc Havoc.Rg

/-! ### lexing loses nothing -/

theorem take_drop_glue (l : Bytes) (a b : Nat) (h : a ≤ b) :
    (l.drop a).take (b - a) ++ l.drop b = l.drop a := by
  have : l.drop b = (l.drop a).drop (b - a) := by
    rw [List.drop_drop]; congr 1; omega
  rw [this, List.take_append_drop]

/-- If the tokens cover the input (in order, no overlap, each carrying the bytes of its range)
    then the skipped stretches and the tokens, put together, are exactly the input. -/
theorem covering_tokens_lose_nothing (inp : Bytes) : ∀ (toks : List Tok) (pos : Nat),
    covers inp pos toks = true → rebuild inp pos toks = inp.drop pos := by
  intro toks
  induction toks with
  | nil => intro pos _; rfl
  | cons t rest ih =>
    intro pos h
    simp only [covers, Bool.and_eq_true, decide_eq_true_eq, beq_iff_eq] at h
    obtain ⟨⟨⟨⟨h1, h2⟩, h3⟩, h4⟩, h5⟩ := h
    simp only [rebuild, ih t.hi h5, h4]
    rw [List.append_assoc, take_drop_glue inp t.lo t.hi h2, take_drop_glue inp pos t.lo h1]

theorem whole_input (inp : Bytes) (toks : List Tok) (h : covers inp 0 toks = true) : rebuild inp 0 toks = inp := by
  simpa using covering_tokens_lose_nothing inp toks 0 h

/-! ### children inside parents ⇒ everything inside the root -/

theorem within_trans {a b c : R} (h1 : a.within b) (h2 : b.within c) : a.within c :=
  ⟨Nat.le_trans h2.1 h1.1, Nat.le_trans h1.2 h2.2⟩

theorem within_refl (a : R) : a.within a := ⟨Nat.le_refl _, Nat.le_refl _⟩

mutual
  theorem nested_all_within : ∀ (t : Tree), nested t = true → ∀ r ∈ ranges t, r.within t.range
    | .node r kids, h => by
      intro x hx
      simp only [ranges, List.mem_cons] at hx
      rcases hx with rfl | hx
      · exact within_refl _
      · simp only [nested] at h
        exact nestedKids_all_within r kids h x hx
  theorem nestedKids_all_within : ∀ (r : R) (kids : List Tree), nestedKids r kids = true → ∀ x ∈ rangesKids kids, x.within r
    | _, [], _ => by intro x hx; simp [rangesKids] at hx
    | r, k :: ks, h => by
      intro x hx
      simp only [nestedKids, Bool.and_eq_true, decide_eq_true_eq] at h
      obtain ⟨⟨hk, hn⟩, hrest⟩ := h
      simp only [rangesKids, List.mem_append] at hx
      rcases hx with hx | hx
      · exact within_trans (nested_all_within k hn x hx) hk
      · exact nestedKids_all_within r ks hrest x hx
end

/-- a nested tree whose root lies inside the input has every range inside the input -/
theorem nested_in_bounds (t : Tree) (n : Nat) (h : nested t = true) (hr : t.range.within ⟨0, n⟩) :
    ∀ r ∈ ranges t, r.hi ≤ n := by
  intro r hm
  exact (within_trans (nested_all_within t h r hm) hr).2

/-! ### pos.go -/

theorem rangeOver_contains (a b : R) (ha : a.lo ≤ a.hi) (hb : b.lo ≤ b.hi) (hne : a.empty = false) (hnb : b.empty = false) :
    a.within (rangeOver a b) ∧ b.within (rangeOver a b) := by
  simp only [rangeOver, hne, hnb, Bool.false_eq_true, if_false, R.within]
  refine ⟨⟨?_, ?_⟩, ⟨?_, ?_⟩⟩ <;> split <;> omega

theorem rangeBetween_contains (s e : R) (h1 : s.lo ≤ e.lo) (h2 : s.hi ≤ e.hi) :
    s.within (rangeBetween s e) ∧ e.within (rangeBetween s e) := by
  simp only [rangeBetween, R.within]; omega

example : covers [97, 32, 61, 32, 49] 0 [⟨"id", 0, 1, [97]⟩, ⟨"eq", 2, 3, [61]⟩, ⟨"num", 4, 5, [49]⟩, ⟨"eof", 5, 5, []⟩] = true := by decide
example : nested (.node ⟨0, 9⟩ [.node ⟨0, 4⟩ [.node ⟨2, 4⟩ []], .node ⟨5, 9⟩ []]) = true := by decide
example : nested (.node ⟨0, 9⟩ [.node ⟨0, 4⟩ [.node ⟨2, 5⟩ []]]) = false := by decide

end Havoc.C17
