import HavocVerif.Model.Registry
import HavocVerif.Gen.CallSeq
import HavocVerif.Gen.LockFacts
import HavocVerif.Model.Locks
/-
  C16 — Listener and service registries never hold duplicates or leftovers.
-/
namespace Havoc.C16
open Havoc

/-! ### helper facts -/

theorem removeFirstName_eq_filter (n : String) : ∀ (l : List (String × LKind)), (l.map (·.1)).Nodup →
    removeFirstName n l = l.filter (fun x => x.1 ≠ n) := by
  intro l
  induction l with
  | nil => intro _; rfl
  | cons x xs ih =>
    intro h
    have hx := List.nodup_cons.mp h
    by_cases e : x.1 = n
    · have e' : (x.1 == n) = true := by simp [e]
      have keep : xs.filter (fun y => y.1 ≠ n) = xs := by
        rw [List.filter_eq_self]
        intro y hy
        have : y.1 ≠ n := by
          intro q
          apply hx.1
          show x.1 ∈ xs.map (·.1)
          rw [e, ← q]
          exact List.mem_map.mpr ⟨y, hy, rfl⟩
        simp [this]
      have drop : (x :: xs).filter (fun y => y.1 ≠ n) = xs.filter (fun y => y.1 ≠ n) := by
        simp [List.filter_cons, e]
      rw [drop, keep]
      simp only [removeFirstName, e', if_true]
    · have e' : (x.1 == n) = false := by simp [e]
      have cons : (x :: xs).filter (fun y => y.1 ≠ n) = x :: xs.filter (fun y => y.1 ≠ n) := by
        simp [List.filter_cons, e]
      rw [cons, ← ih hx.2]
      simp only [removeFirstName, e', Bool.false_eq_true, if_false]

theorem has_iff (r : Reg) (n : String) : r.has n = true ↔ n ∈ r.names := by
  simp only [Reg.has, Reg.names, List.any_eq_true, List.mem_map, beq_iff_eq]

/-! ### the invariant -/

structure Inv (r : Reg) : Prop where
  names_unique : r.names.Nodup
  db_unique : r.db.Nodup
  db_is_builtin : ∀ n, n ∈ r.db ↔ n ∈ r.builtinNames
  builtin_advertised : ∀ n, n ∈ r.builtinNames → n ∈ r.adv
  advertised_builtin : ∀ n, n ∈ r.adv → n ∈ r.builtinNames

theorem builtin_sub_names (r : Reg) (n : String) (h : n ∈ r.builtinNames) : n ∈ r.names := by
  simp only [Reg.builtinNames, Reg.names, List.mem_map, List.mem_filter] at *
  obtain ⟨x, ⟨hx, _⟩, rfl⟩ := h
  exact ⟨x, hx, rfl⟩

theorem addEndpoint_mem (r : Reg) (e n : String) : (r.addEndpoint e n).mem = r.mem := by
  unfold Reg.addEndpoint; split <;> rfl
theorem addEndpoint_db (r : Reg) (e n : String) : (r.addEndpoint e n).db = r.db := by
  unfold Reg.addEndpoint; split <;> rfl
theorem addEndpoint_adv (r : Reg) (e n : String) : (r.addEndpoint e n).adv = r.adv := by
  unfold Reg.addEndpoint; split <;> rfl

theorem inv_of_same_views {r t : Reg} (h : Inv r) (hm : t.mem = r.mem) (hd : t.db = r.db) (ha : t.adv = r.adv) : Inv t := by
  refine ⟨?_, ?_, ?_, ?_, ?_⟩
  · simp only [Reg.names, hm]; exact h.names_unique
  · rw [hd]; exact h.db_unique
  · intro n; simp only [Reg.builtinNames, hm, hd]; exact h.db_is_builtin n
  · intro n; simp only [Reg.builtinNames, hm, ha]; exact h.builtin_advertised n
  · intro n; simp only [Reg.builtinNames, hm, ha]; exact h.advertised_builtin n

/-- an operator's add request is of a built-in kind -/
def OpOk (_r : Reg) : RegOp → Prop
  | .add k _ _ => k.builtin = true
  | _ => True

theorem step_inv (r : Reg) (op : RegOp) (hk : OpOk r op) (h : Inv r) : Inv (regStep r op) := by
  cases op with
  | add kind name ep =>
    have hb : kind.builtin = true := hk
    simp only [regStep]
    by_cases hh : r.has name = true
    · simp only [hh, if_true]; exact h
    · simp only [hh, Bool.false_eq_true, if_false]
      split
      · exact h
      · have hnot : name ∉ r.names := fun q => hh ((has_iff r name).mpr q)
        have hndb : name ∉ r.db := fun q => hnot (builtin_sub_names r name ((h.db_is_builtin name).mp q))
        have hdbc : r.db.contains name = false := by simpa using hndb
        -- the state with the listener added
        have core : Inv { r with mem := r.mem ++ [(name, kind)], db := r.db ++ [name], adv := r.adv ++ [name] } := by
          refine ⟨?_, ?_, ?_, ?_, ?_⟩
          · simp only [Reg.names, List.map_append, List.map_cons, List.map_nil]
            rw [List.nodup_append]
            refine ⟨h.names_unique, by simp, ?_⟩
            intro a ha b hb'
            simp at hb'; subst hb'
            intro e; subst e; exact hnot ha
          · rw [List.nodup_append]
            refine ⟨h.db_unique, by simp, ?_⟩
            intro a ha b hb'
            simp at hb'; subst hb'
            intro e; subst e; exact hndb ha
          · intro n
            simp only [Reg.builtinNames, List.filter_append, List.map_append, List.mem_append, List.filter_cons, hb, if_true,
              List.filter_nil, List.map_cons, List.map_nil, List.mem_singleton]
            constructor
            · rintro (hn | rfl)
              · left; exact (h.db_is_builtin n).mp hn
              · right; rfl
            · rintro (hn | rfl)
              · left; exact (h.db_is_builtin n).mpr hn
              · right; rfl
          · intro n
            simp only [Reg.builtinNames, List.filter_append, List.map_append, List.mem_append, List.filter_cons, hb, if_true,
              List.filter_nil, List.map_cons, List.map_nil, List.mem_singleton]
            rintro (hn | rfl)
            · left; exact h.builtin_advertised n hn
            · right; rfl
          · intro n
            simp only [Reg.builtinNames, List.filter_append, List.map_append, List.mem_append, List.filter_cons, hb, if_true,
              List.filter_nil, List.map_cons, List.map_nil, List.mem_singleton]
            rintro (hn | rfl)
            · left; exact h.advertised_builtin n hn
            · right; rfl
        simp only [hdbc, Bool.false_eq_true, if_false]
        split
        · exact inv_of_same_views core (addEndpoint_mem _ _ _) (addEndpoint_db _ _ _) (addEndpoint_adv _ _ _)
        · exact core
  | remove name =>
    simp only [regStep]
    split
    · exact h
    · rename_i kind hfind
      have hf := removeFirstName_eq_filter name r.mem h.names_unique
      refine ⟨?_, ?_, ?_, ?_, ?_⟩
      · simp only [Reg.names, hf]
        exact h.names_unique.sublist (List.Sublist.map _ List.filter_sublist)
      · exact h.db_unique.sublist List.filter_sublist
      · intro n
        simp only [Reg.builtinNames, hf, List.mem_filter, List.mem_map, ne_eq, decide_eq_true_eq, Bool.and_eq_true]
        constructor
        · rintro ⟨hn, hne⟩
          have := (h.db_is_builtin n).mp hn
          simp only [Reg.builtinNames, List.mem_map, List.mem_filter] at this
          obtain ⟨x, ⟨hx, hbx⟩, rfl⟩ := this
          exact ⟨x, ⟨⟨hx, hne⟩, hbx⟩, rfl⟩
        · rintro ⟨x, ⟨⟨hx, hne⟩, hbx⟩, rfl⟩
          refine ⟨(h.db_is_builtin x.1).mpr ?_, hne⟩
          simp only [Reg.builtinNames, List.mem_map, List.mem_filter]
          exact ⟨x, ⟨hx, hbx⟩, rfl⟩
      · intro n
        simp only [Reg.builtinNames, hf, List.mem_filter, List.mem_map, ne_eq, decide_eq_true_eq, Bool.and_eq_true]
        rintro ⟨x, ⟨⟨hx, hne⟩, hbx⟩, rfl⟩
        refine ⟨h.builtin_advertised x.1 ?_, hne⟩
        simp only [Reg.builtinNames, List.mem_map, List.mem_filter]
        exact ⟨x, ⟨hx, hbx⟩, rfl⟩
      · intro n
        simp only [Reg.builtinNames, hf, List.mem_filter, List.mem_map, ne_eq, decide_eq_true_eq]
        rintro ⟨hn, hne⟩
        have := h.advertised_builtin n hn
        simp only [Reg.builtinNames, List.mem_map, List.mem_filter] at this
        obtain ⟨x, ⟨hx, hbx⟩, rfl⟩ := this
        exact ⟨x, ⟨⟨hx, hne⟩, hbx⟩, rfl⟩
  | svcExc2 owner name ep =>
    simp only [regStep]
    split
    · exact h
    · rename_i hh
      split
      · exact h
      have hnot : name ∉ r.names := fun q => hh ((has_iff r name).mpr q)
      have core : Inv { r with mem := r.mem ++ [(name, LKind.svcExt owner)] } := by
        refine ⟨?_, h.db_unique, ?_, ?_, ?_⟩
        · simp only [Reg.names, List.map_append, List.map_cons, List.map_nil]
          rw [List.nodup_append]
          refine ⟨h.names_unique, by simp, ?_⟩
          intro a ha b hb'
          simp at hb'; subst hb'
          intro e; subst e; exact hnot ha
        · intro n
          have : ({ r with mem := r.mem ++ [(name, LKind.svcExt owner)] } : Reg).builtinNames = r.builtinNames := by
            simp [Reg.builtinNames, List.filter_append, LKind.builtin]
          rw [this]; exact h.db_is_builtin n
        · intro n
          have : ({ r with mem := r.mem ++ [(name, LKind.svcExt owner)] } : Reg).builtinNames = r.builtinNames := by
            simp [Reg.builtinNames, List.filter_append, LKind.builtin]
          rw [this]; exact h.builtin_advertised n
        · intro n hn
          have : ({ r with mem := r.mem ++ [(name, LKind.svcExt owner)] } : Reg).builtinNames = r.builtinNames := by
            simp [Reg.builtinNames, List.filter_append, LKind.builtin]
          rw [this]; exact h.advertised_builtin n hn
      exact inv_of_same_views core (addEndpoint_mem _ _ _) (addEndpoint_db _ _ _) (addEndpoint_adv _ _ _)
  | svcGone owner =>
    simp only [regStep]
    have hbn : ((r.mem.filter (fun x => x.2 ≠ LKind.svcExt owner)).filter (·.2.builtin)).map (·.1) = r.builtinNames := by
      simp only [Reg.builtinNames, List.filter_filter]
      congr 1
      apply List.filter_congr
      intro x _
      cases hx : x.2 <;> simp [LKind.builtin, hx]
    refine ⟨?_, h.db_unique, ?_, ?_, ?_⟩
    · simp only [Reg.names]
      exact h.names_unique.sublist (List.Sublist.map _ List.filter_sublist)
    · intro n; simp only [Reg.builtinNames]; rw [hbn]; exact h.db_is_builtin n
    · intro n; simp only [Reg.builtinNames]; rw [hbn]; exact h.builtin_advertised n
    · intro n hn; simp only [Reg.builtinNames]; rw [hbn]; exact h.advertised_builtin n hn

/-! ### every history -/

/-- every operator add request in the history is of a built-in kind and does not name a
    service-registered listener at the moment it is made -/
def OpsOk : Reg → List RegOp → Prop
  | _, [] => True
  | r, op :: ops => OpOk r op ∧ OpsOk (regStep r op) ops

theorem run_inv_from : ∀ (ops : List RegOp) (r : Reg), Inv r → OpsOk r ops → Inv (ops.foldl regStep r) := by
  intro ops
  induction ops with
  | nil => intro r h _; exact h
  | cons op ops ih => intro r h hk; exact ih _ (step_inv r op hk.1 h) hk.2

theorem init_inv : Inv {} :=
  ⟨by simp [Reg.names], by simp, by intro n; simp [Reg.builtinNames], by intro n; simp [Reg.builtinNames], by intro n; simp⟩

/-- Through any sequence of add (new, duplicate, failed-start), remove (known, unknown),
    service registration and service disconnect: listener names stay unique, the persisted
    names are unique, and the running built-in set, the persisted set and the advertised set
    are the same set. -/
theorem three_views (ops : List RegOp) (hk : OpsOk {} ops) :
    (regRun ops).names.Nodup ∧ (regRun ops).db.Nodup ∧
    ∀ n, (n ∈ (regRun ops).db ↔ n ∈ (regRun ops).builtinNames) ∧ (n ∈ (regRun ops).adv ↔ n ∈ (regRun ops).builtinNames) := by
  have h := run_inv_from ops {} init_inv hk
  exact ⟨h.names_unique, h.db_unique, fun n => ⟨h.db_is_builtin n, ⟨h.advertised_builtin n, h.builtin_advertised n⟩⟩⟩

/-- a rejected add request (the name is taken — here by a service's listener — or the endpoint
    is) leaves no trace in any view -/
theorem rejected_add_leaves_no_trace :
    let r := regRun [.svcExc2 0 "L" "e", .add .smb "L" "", .add .ext "M" "e"]
    r.adv = [] ∧ r.db = [] ∧ r.builtinNames = [] ∧ r.names = ["L"] := by decide

/-! ### a service connection goes away -/

/-- exactly the listeners it registered disappear from the running set … -/
theorem svcGone_exact (r : Reg) (o : Nat) (x : String × LKind) :
    x ∈ (regStep r (.svcGone o)).mem ↔ x ∈ r.mem ∧ x.2 ≠ LKind.svcExt o := by
  simp [regStep, List.mem_filter]

/-- … with their endpoints; every endpoint of every other listener stays -/
theorem svcGone_endpoints (r : Reg) (o : Nat) (e n : String) :
    (e, n) ∈ (regStep r (.svcGone o)).endpoints ↔ (e, n) ∈ r.endpoints ∧ (n, LKind.svcExt o) ∉ r.mem := by
  simp only [regStep, List.mem_filter, List.contains_eq_mem, List.mem_map, Bool.not_eq_true', decide_eq_false_iff_not,
    not_exists, not_and, decide_eq_true_eq]
  constructor
  · rintro ⟨h1, h2⟩
    exact ⟨h1, fun hm => h2 (n, LKind.svcExt o) ⟨hm, rfl⟩ rfl⟩
  · rintro ⟨h1, h2⟩
    refine ⟨h1, ?_⟩
    rintro ⟨xn, xk⟩ ⟨hx, hk⟩ rfl
    simp only at hk; subst hk
    exact h2 hx

/-- the service registries: exactly the owner's agent types and listener kinds go, in place -/
theorem dropOwner_exact (s : Svc) (c : Nat) (x : Str × Nat) :
    (x ∈ (s.dropOwner c).agents ↔ x ∈ s.agents ∧ x.2 ≠ c) ∧
    (x ∈ (s.dropOwner c).listeners ↔ x ∈ s.listeners ∧ x.2 ≠ c) := by
  simp [Svc.dropOwner, List.mem_filter]

/-- nothing else about the registry changes when a service connection goes away -/
theorem svcGone_keeps_views (r : Reg) (o : Nat) :
    (regStep r (.svcGone o)).db = r.db ∧ (regStep r (.svcGone o)).adv = r.adv ∧
    (regStep r (.svcGone o)).builtinNames = r.builtinNames := by
  refine ⟨rfl, rfl, ?_⟩
  simp only [regStep, Reg.builtinNames, List.filter_filter]
  congr 1
  apply List.filter_congr
  intro x _
  cases hx : x.2 <;> simp [LKind.builtin, hx]

/-! ### regenerated facts -/

open Gen.LockFacts in
/-- regenerated (`Gen.TableWrites`): every assignment to these tables anywhere in the teamserver is an append at the end,
    a delete of one index, the hand-out split, `nil` / an empty literal, or a slice built up freshly in a local - never a
    re-slice to length 0 or a filter in place, whose later appends would overwrite what an earlier reader still holds.
    The models' immutable lists are faithful to the Go slices only under this fact. -/
theorem registry_writes_value_like :
    aliasingWrites ["Listeners", "Endpoints"] = [] ∧ writtenTables ["Listeners", "Endpoints"] = ["Listeners", "Endpoints"] ∧ Gen.TableWrites.reslicesToZero = [] := by decide

/-- the same on every control-flow path separately (regenerated `Gen.LockPaths`): no early return, branch or case of
    any of these functions leaves a mutex held that a `defer` does not release -/
theorem service_locks_balanced_every_path : pathsUnbalancedIn ["service"] = [] := by decide

theorem service_locks_balanced : unbalancedIn ["service"] = [] := by decide

open Gen.CallSeq in
/-- ListenerRemove: stop the server, then delete the row, and only then forget the listener -/
theorem remove_order :
    (Teamserver_ListenerRemove.filter (fun c => c = "Stop" ∨ c = "EndpointRemove" ∨ c = "ListenerRemove"))
      = ["Stop", "EndpointRemove", "ListenerRemove"] := by decide

/-! non-vacuity -/
example : OpsOk {} [.add .smb "a" "", .add .ext "b" "e", .add .smb "a" "", .remove "a", .svcExc2 1 "x" "e2", .svcGone 1] := by
  simp [OpsOk, OpOk, LKind.builtin]
example : (regRun [.add .smb "a" "", .add .ext "b" "e", .add .smb "a" "", .remove "a"]).adv = ["b"] := by decide

end Havoc.C16
