import HavocVerif.Model.Db
/-
  C10 — Sessions, links and listeners survive a restart or crash unchanged.
-/
namespace Havoc.C10
open Havoc Gen.SqlSchema

def declOf (table : List (String × String)) (col : String) : Option String := table.lookup col

/-- regenerated: every TS_Agents column that is read back into a Go `string` has TEXT affinity,
    every one read into an integer type has INTEGER affinity -/
theorem agent_columns_affinity :
    agentScanVars.all (fun (col, goType) =>
      match declOf table_TS_Agents col with
      | none => false
      | some decl =>
        if goType = "string" then affinityOf decl = .text
        else affinityOf decl = .integer) = true := by decide

theorem listener_columns_affinity :
    table_TS_Listeners.all (fun (_, decl) => affinityOf decl = .text) = true := by decide

theorem link_columns_affinity :
    table_TS_Links.all (fun (_, decl) => affinityOf decl = .integer) = true := by decide

/-- regenerated: INSERT column list, its placeholders and bound values, the SELECT list and the
    Scan targets of AgentAll line up position by position; UPDATE sets every column but the key -/
theorem columns_aligned :
    agentInsertCols = agentSelectCols ∧ agentInsertCols.length = agentInsertPlaceholders ∧
    agentInsertArgs.length = agentInsertPlaceholders ∧
    agentScanVars.map (·.1) = agentSelectCols ∧
    agentInsertCols = table_TS_Agents.map (·.1) ∧
    "AgentID" :: agentUpdateCols = agentInsertCols ∧
    agentUpdateArgs.length = agentUpdateCols.length + 1 ∧
    agentInsertArgs.drop 3 = (agentUpdateArgs.drop 2).dropLast := by decide

/-- a TEXT (or BLOB) column returns every string byte for byte -/
theorem text_column_roundtrip (s : String) : loadString (storeString .text s) = s := rfl

/-- … which a column declared `string` (NUMERIC affinity) does not: the reason for the fix -/
theorem string_decl_is_numeric : affinityOf "string" = .numeric := by decide
theorem numeric_column_alters : storeString (affinityOf "string") "007" = .int 7 := by decide

/-- every string field of every agent row round-trips through the schema as it is now -/
theorem schema_roundtrip (col goType : String) (h : (col, goType) ∈ agentScanVars) (hs : goType = "string")
    (decl : String) (hd : declOf table_TS_Agents col = some decl) (s : String) :
    loadString (storeString (affinityOf decl) s) = s := by
  have key := agent_columns_affinity
  rw [List.all_eq_true] at key
  have := key (col, goType) h
  simp only [hd, hs, if_true, decide_eq_true_eq] at this
  rw [this]; rfl

/-! ### histories -/

inductive DbOp where
  | agentAdd (id : Nat) (rec : List String)
  | agentUpdate (id : Nat) (active : Bool) (rec : List String)
  | linkAdd (p c : Nat) | linkRemove (p c : Nat)
  | listenerAdd (n p c : String) | listenerRemove (n : String)

def dbStep (d : Db) : DbOp → Db
  | .agentAdd id r => d.agentAdd id r
  | .agentUpdate id a r => d.agentUpdate id a r
  | .linkAdd p c => d.linkAdd p c
  | .linkRemove p c => d.linkRemove p c
  | .listenerAdd n p c => d.listenerAdd n p c
  | .listenerRemove n => d.listenerRemove n

def UniqueIds (d : Db) : Prop := (d.agents.map (·.id)).Nodup ∧ (d.listeners.map (·.1)).Nodup

theorem step_unique (d : Db) (h : UniqueIds d) (op : DbOp) : UniqueIds (dbStep d op) := by
  obtain ⟨ha, hl⟩ := h
  cases op with
  | agentAdd id r =>
    simp only [dbStep, Db.agentAdd]
    split
    · exact ⟨ha, hl⟩
    · rename_i hne
      refine ⟨?_, hl⟩
      simp only [List.map_append, List.map_cons, List.map_nil]
      rw [List.nodup_append]
      refine ⟨ha, by simp, ?_⟩
      intro a hm b hb
      simp at hb; subst hb
      intro e; subst e
      simp only [Db.agentExist, List.any_eq_true, not_exists, not_and] at hne
      simp only [List.mem_map] at hm
      obtain ⟨x, hx, hxe⟩ := hm
      exact hne x hx (by simp [hxe])
  | agentUpdate id a r =>
    refine ⟨?_, hl⟩
    simp only [dbStep, Db.agentUpdate, List.map_map]
    have : ((fun r : AgentRow => r.id) ∘ fun r' : AgentRow => if r'.id == id then ⟨id, a, r⟩ else r')
        = fun r' : AgentRow => r'.id := by
      funext r'; simp only [Function.comp]; split
      · rename_i h; simp at h; simp [h]
      · rfl
    rw [this]; exact ha
  | linkAdd p c => simp only [dbStep, Db.linkAdd]; split <;> exact ⟨ha, hl⟩
  | linkRemove p c => exact ⟨ha, hl⟩
  | listenerAdd n p c =>
    simp only [dbStep, Db.listenerAdd]
    split
    · exact ⟨ha, hl⟩
    · rename_i hne
      refine ⟨ha, ?_⟩
      simp only [List.map_append, List.map_cons, List.map_nil]
      rw [List.nodup_append]
      refine ⟨hl, by simp, ?_⟩
      intro a hm b hb
      simp at hb; subst hb
      intro e; subst e
      simp only [List.any_eq_true, not_exists, not_and] at hne
      simp only [List.mem_map] at hm
      obtain ⟨x, hx, hxe⟩ := hm
      exact hne x hx (by simp [hxe])
  | listenerRemove n =>
    refine ⟨ha, ?_⟩
    simp only [dbStep, Db.listenerRemove]
    exact (hl.sublist (List.Sublist.map _ List.filter_sublist))

/-- one row per agent id and per listener name, after any operation sequence -/
theorem ids_unique (ops : List DbOp) : UniqueIds (ops.foldl dbStep {}) := by
  suffices h : ∀ d : Db, UniqueIds d → UniqueIds (ops.foldl dbStep d) from h {} ⟨by simp, by simp⟩
  induction ops with
  | nil => intro d h; exact h
  | cons op ops ih => intro d h; exact ih _ (step_unique d h op)

/-- dead agents are not restored, active ones are — each with exactly its stored record -/
theorem restore_active_only (d : Db) (id : Nat) (rec : List String) :
    (id, rec) ∈ d.restore.agents ↔ ⟨id, true, rec⟩ ∈ d.agents := by
  simp only [Db.restore, List.mem_map, List.mem_filter]
  constructor
  · rintro ⟨r, ⟨hm, ha⟩, he⟩
    obtain ⟨rid, ract, rrec⟩ := r
    simp at he ha; subst ha; obtain ⟨rfl, rfl⟩ := he; exact hm
  · intro h; exact ⟨_, ⟨h, rfl⟩, rfl⟩

/-- an acknowledged registration is in the database from the moment AgentAdd returns, whatever
    happens afterwards short of an update of that very agent -/
theorem registered_is_restored (d : Db) (id : Nat) (rec : List String) (h : d.agentExist id = false) :
    (id, rec) ∈ (d.agentAdd id rec).restore.agents := by
  rw [restore_active_only]; simp [Db.agentAdd, h]

theorem update_is_restored (d : Db) (id : Nat) (rec : List String) (h : d.agentExist id = true) :
    (id, rec) ∈ (d.agentUpdate id true rec).restore.agents := by
  rw [restore_active_only]
  simp only [Db.agentExist, List.any_eq_true] at h
  obtain ⟨r, hr, he⟩ := h
  simp only [Db.agentUpdate, List.mem_map]
  exact ⟨r, hr, by simp [he]⟩

theorem died_not_restored (d : Db) (id : Nat) (rec rec' : List String) :
    (id, rec') ∉ (d.agentUpdate id false rec).restore.agents := by
  rw [restore_active_only]
  simp only [Db.agentUpdate, List.mem_map, not_exists, not_and]
  intro r _
  split
  · simp
  · rename_i hne; intro e; simp at hne; exact hne (by rw [e])

/-- regenerated: in the new-pivot-agent branch the agent row is written before the link row -/
theorem agent_row_before_link_row : connectNewCalls.takeWhile (· ≠ "LinkAdd") |>.contains "AgentAdd" := by decide

def activeIds (d : Db) : List Nat := (d.agents.filter (·.active)).map (·.id)

theorem dangling_nil_iff (d : Db) :
    d.restore.dangling = [] ↔ ∀ p c, (p, c) ∈ d.links → p ∈ activeIds d → c ∈ activeIds d := by
  simp only [Db.restore, List.filter_eq_nil_iff, activeIds]
  constructor
  · intro h p c hm hp
    have := h (p, c) hm
    simp only [Bool.and_eq_true, List.contains_eq_mem, decide_eq_true_eq, Bool.not_eq_true', decide_eq_false_iff_not,
      not_and, Decidable.not_not] at this
    exact this hp
  · intro h x hx
    obtain ⟨p, c⟩ := x
    simp only [Bool.and_eq_true, List.contains_eq_mem, decide_eq_true_eq, Bool.not_eq_true', decide_eq_false_iff_not,
      not_and, Decidable.not_not]
    exact h p c hx

theorem activeIds_agentAdd (d : Db) (c : Nat) (rec : List String) (hc : d.agentExist c = false) :
    activeIds (d.agentAdd c rec) = activeIds d ++ [c] := by
  simp [activeIds, Db.agentAdd, hc, List.filter_append]

/-- crash consistency of a pivot registration: whichever prefix of its statements made it to
    disk, no reloaded parent gets a link to an agent that is not reloaded -/
theorem connect_new_crash_consistent (d : Db) (p c : Nat) (rec : List String) (n : Nat)
    (hd : d.restore.dangling = []) (hc : d.agentExist c = false) (hl : ∀ q, (c, q) ∉ d.links) :
    (applyStmts d ((connectNewStmts p c rec).take n)).restore.dangling = [] := by
  have hs : connectNewStmts p c rec = [fun d => d.agentAdd c rec, fun d => d.linkAdd p c] := by
    simp [connectNewStmts, connectNewCalls]
  rw [hs]
  rw [dangling_nil_iff] at hd
  have hadd : ∀ x y, (x, y) ∈ (d.agentAdd c rec).links → x ∈ activeIds (d.agentAdd c rec) →
      y ∈ activeIds (d.agentAdd c rec) := by
    intro x y hm hx
    rw [activeIds_agentAdd d c rec hc] at hx ⊢
    have hm' : (x, y) ∈ d.links := by simpa [Db.agentAdd, hc] using hm
    simp only [List.mem_append, List.mem_singleton] at hx ⊢
    rcases hx with hx | hx
    · left; exact hd x y hm' hx
    · subst hx; exact absurd hm' (hl y)
  match n with
  | 0 => rw [dangling_nil_iff]; simpa [applyStmts] using hd
  | 1 => rw [dangling_nil_iff]; simpa [applyStmts] using hadd
  | n + 2 =>
    have e : applyStmts d (([fun d => d.agentAdd c rec, fun d => d.linkAdd p c] : List (Db → Db)).take (n + 2))
        = (d.agentAdd c rec).linkAdd p c := by simp [applyStmts]
    rw [e, dangling_nil_iff]
    intro x y hm hx
    have hids : activeIds ((d.agentAdd c rec).linkAdd p c) = activeIds (d.agentAdd c rec) := by
      simp only [Db.linkAdd]; split <;> rfl
    rw [hids] at hx ⊢
    simp only [Db.linkAdd] at hm
    split at hm
    · exact hadd x y hm hx
    · simp only [List.mem_append, List.mem_singleton, Prod.mk.injEq] at hm
      rcases hm with hm | ⟨rfl, rfl⟩
      · exact hadd x y hm hx
      · rw [activeIds_agentAdd d y rec hc]; simp

/-- with the order the other way round (link row first) the first prefix IS dangling:
    the model distinguishes the two orders (why `agent_row_before_link_row` matters) -/
example : ((({ agents := [⟨1, true, []⟩] } : Db).linkAdd 1 2).restore.dangling) = [(1, 2)] := by decide

end Havoc.C10
