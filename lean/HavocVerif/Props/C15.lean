import HavocVerif.Model.Socks
import HavocVerif.Model.Locks
import HavocVerif.Model.PortFwd
/-
  C15 — The SOCKS5 and port-forward relays speak the protocol and move bytes intact.
-/
namespace Havoc.C15
open Havoc

theorem readN_append (n : Nat) (a r : Bytes) (h : a.length = n) : readN n (a ++ r) = .ok a r := by
  subst h; simp [readN]

theorem beNat_portBytes (port : Nat) (h : port < 65536) : beNat (portBytes port) = port := by
  simp [portBytes, beNat, UInt8.toNat_ofNat']; omega

def validAddr (atyp : UInt8) (addr : Bytes) : Prop :=
  (atyp = 1 ∧ addr.length = 4) ∨ (atyp = 4 ∧ addr.length = 16) ∨ (atyp = 3 ∧ addr.length < 256)

/-- a SOCKS5 request as a client writes it (RFC 1928 §4) -/
def encodeReq (req : SocksReq) : Bytes :=
  [5, req.command, 0, req.atyp] ++
    ((if req.atyp = 3 then [UInt8.ofNat req.addr.length] else []) ++ (req.addr ++ portBytes req.port))

def greeting (methods : Bytes) : Bytes := [5, UInt8.ofNat methods.length] ++ methods

theorem subNegotiation_greeting (methods rest : Bytes) (h : methods.length < 256) :
    subNegotiation (greeting methods ++ rest) = .ok methods rest := by
  have hn : (UInt8.ofNat methods.length).toNat = methods.length := by
    rw [UInt8.toNat_ofNat']; exact Nat.mod_eq_of_lt h
  simp only [subNegotiation, greeting, List.cons_append, List.nil_append, readByte, Rd.bind]
  simp only [ne_eq, not_true_eq_false, if_false, hn]
  exact readN_append _ methods rest rfl

/-- method selection: no-authentication when offered, refusal (0xFF, nothing else) otherwise -/
theorem negotiation_rfc1928 (methods rest : Bytes) (h : methods.length < 256) :
    (methods.contains 0 = false → socksFrontEnd (greeting methods ++ rest) = .dropped [5, 0xff]) ∧
    (methods.contains 0 = true → ∃ s, (socksFrontEnd (greeting methods ++ rest) = .waiting s ∨
        socksFrontEnd (greeting methods ++ rest) = .dropped s ∨
        ∃ q r, socksFrontEnd (greeting methods ++ rest) = .connect s q r) ∧ s.take 2 = [5, 0]) := by
  constructor
  · intro hc
    unfold socksFrontEnd
    rw [subNegotiation_greeting methods rest h]
    simp only [hc, Bool.not_false, if_true]
  · intro hc
    unfold socksFrontEnd
    rw [subNegotiation_greeting methods rest h]
    simp only [hc, Bool.not_true, Bool.false_eq_true, if_false]
    cases readSocksHeader rest with
    | eof => exact ⟨[5, 0], Or.inl rfl, rfl⟩
    | bad w => exact ⟨[5, 0], Or.inr (Or.inl rfl), rfl⟩
    | ok req r2 =>
      simp only
      by_cases hcmd : req.command = 1
      · rw [if_neg (by simpa using hcmd)]; exact ⟨_, Or.inr (Or.inr ⟨_, _, rfl⟩), rfl⟩
      · rw [if_pos hcmd]; exact ⟨_, Or.inr (Or.inl rfl), rfl⟩

theorem readSocksHeader_encode (req : SocksReq) (rest : Bytes) (hv : validAddr req.atyp req.addr)
    (hp : req.port < 65536) : readSocksHeader (encodeReq req ++ rest) = .ok req rest := by
  obtain ⟨cmd, atyp, addr, port⟩ := req
  simp only at hv hp
  have tail : readN 2 (portBytes port ++ rest) = .ok (portBytes port) rest := readN_append 2 _ _ rfl
  have hb := beNat_portBytes port hp
  rcases hv with ⟨rfl, hl⟩ | ⟨rfl, hl⟩ | ⟨rfl, hl⟩
  · have ha : readN 4 (addr ++ (portBytes port ++ rest)) = .ok addr (portBytes port ++ rest) := readN_append 4 _ _ hl
    simp only [readSocksHeader, encodeReq, List.cons_append, List.nil_append, List.append_assoc, readByte, Rd.bind]
    simp [ha, tail, hb]
  · have ha : readN 16 (addr ++ (portBytes port ++ rest)) = .ok addr (portBytes port ++ rest) := readN_append 16 _ _ hl
    simp only [readSocksHeader, encodeReq, List.cons_append, List.nil_append, List.append_assoc, readByte, Rd.bind]
    simp [ha, tail, hb]
  · have hn : (UInt8.ofNat addr.length).toNat = addr.length := by
      rw [UInt8.toNat_ofNat']; exact Nat.mod_eq_of_lt hl
    have ha : readN addr.length (addr ++ (portBytes port ++ rest)) = .ok addr (portBytes port ++ rest) :=
      readN_append _ _ _ rfl
    simp only [readSocksHeader, encodeReq, List.cons_append, List.nil_append, List.append_assoc, readByte, Rd.bind]
    simp [hn, ha, tail, hb]

/-- the exact address type, address and port reach the agent; only CONNECT is accepted -/
theorem request_reported_exactly (methods : Bytes) (req : SocksReq) (rest : Bytes)
    (hm : methods.length < 256) (h0 : methods.contains 0 = true) (hv : validAddr req.atyp req.addr)
    (hp : req.port < 65536) :
    socksFrontEnd (greeting methods ++ (encodeReq req ++ rest)) =
      if req.command = 1 then .connect [5, 0] req rest
      else .dropped [5, 0, 5, 7, 0, 1, 0, 0, 0, 0, 0, 0] := by
  unfold socksFrontEnd
  rw [subNegotiation_greeting methods _ hm]
  simp only [h0, Bool.not_true, Bool.false_eq_true, if_false, readSocksHeader_encode req rest hv hp]
  by_cases hc : req.command = 1 <;> simp [hc]

/-- replies are well formed: a client reading one gets back exactly the reply code, address
    type, address and port (domain lengths 0…255 included) -/
theorem reply_wellformed (rep atyp : UInt8) (addr : Bytes) (port : Nat) (hv : validAddr atyp addr) (hp : port < 65536) :
    parseReply (createResponse rep atyp addr port) = some (rep, atyp, addr, port) := by
  have hb := beNat_portBytes port hp
  have hl2 : (portBytes port).length = 2 := rfl
  rcases hv with ⟨rfl, hl⟩ | ⟨rfl, hl⟩ | ⟨rfl, hl⟩
  · have : ¬ ((addr ++ portBytes port).length < 4) := by simp [hl]
    simp only [parseReply, createResponse, List.cons_append, List.nil_append]
    have hlt : ¬ (addr.length + 2 < addr.length) := by omega
    simp [← hl, hl2]
    simp only [hlt, if_false, hl2, if_true, hb]
  · have : ¬ ((addr ++ portBytes port).length < 16) := by simp [hl]
    simp only [parseReply, createResponse, List.cons_append, List.nil_append]
    have hlt : ¬ (addr.length + 2 < addr.length) := by omega
    simp [← hl, hl2]
    simp only [hlt, if_false, hl2, if_true, hb]
  · have hn : (UInt8.ofNat addr.length).toNat = addr.length := by
      rw [UInt8.toNat_ofNat']; exact Nat.mod_eq_of_lt hl
    simp only [parseReply, createResponse, List.cons_append, List.nil_append, if_true, List.singleton_append]
    have : ¬ ((addr ++ portBytes port).length < addr.length) := by simp
    simp only [hn, this, if_false, List.take_left', List.drop_left', hl2, if_true, hb]
    simp [hl2, hb]

/-- failure replies carry the RFC code that corresponds to the agent's error -/
theorem failure_codes : failureReply 10060 = 6 ∧ failureReply 10061 = 5 ∧ failureReply 10065 = 4 ∧
    failureReply 10051 = 3 ∧ failureReply 1234 = 1 := by decide

/-- relayed data does not depend on how it was chunked: the payloads of the write tasks,
    in order, concatenate to the stream -/
theorem relay_chunking_independent (chunks chunks' : List Bytes) (h : chunks.flatten = chunks'.flatten) :
    (chunks.map id).flatten = (chunks'.map id).flatten := by simpa using h

/-- regenerated (`Gen.TableWrites`): every assignment to these tables anywhere in the teamserver is an append at the end,
    a delete of one index, the hand-out split, `nil` / an empty literal, or a slice built up freshly in a local - never a
    re-slice to length 0 or a filter in place, whose later appends would overwrite what an earlier reader still holds.
    The models' immutable lists are faithful to the Go slices only under this fact. -/
theorem relay_table_writes_value_like :
    aliasingWrites ["SocksCli", "SocksSvr", "PortFwds"] = [] ∧ writtenTables ["SocksCli", "SocksSvr", "PortFwds"] = ["SocksCli", "SocksSvr", "PortFwds"] ∧ Gen.TableWrites.reslicesToZero = [] := by decide

/-- the same on every control-flow path separately (regenerated `Gen.LockPaths`): no early return, branch or case of
    any of these functions leaves a mutex held that a `defer` does not release -/
theorem table_locks_balanced_every_path : pathsUnbalancedIn ["agent", "socks"] = [] := by decide

/-- regenerated: every function of pkg/agent and pkg/socks that takes a table mutex releases it -/
theorem table_locks_balanced : unbalancedIn ["agent", "socks"] = [] := by decide

/-- regenerated: every access to the socket / proxy / forward tables happens with the
    table's own mutex held (source order scan of every function that touches them) -/
theorem table_accesses_guarded :
    unguardedIn ["agent", "socks", "handlers", "server", "service"] ["SocksCli", "SocksSvr", "PortFwds"] = [] := by decide

/-! non-vacuity -/
example : unguarded ["SocksCli"] [.lock "a.SocksCliMtx", .access "a.SocksCli", .unlock "a.SocksCliMtx", .access "a.SocksCli"]
    = ["SocksCli"] := by decide
/-- another object's mutex does not count -/
example : unguarded ["SocksCli"] [.lock "a.SocksCliMtx", .access "b.SocksCli", .unlock "a.SocksCliMtx"] = ["SocksCli"] := by decide
example : validAddr 3 [] ∧ validAddr 1 [127, 0, 0, 1] := by
  constructor
  · right; right; exact ⟨rfl, by decide⟩
  · left; exact ⟨rfl, rfl⟩
example : socksFrontEnd [5, 2, 2, 0, 5, 1, 0, 3, 2, 104, 105, 0, 80, 9] = .connect [5, 0] ⟨1, 3, [104, 105], 80⟩ [9] := by
  decide

section PortForward
open Havoc.PortFwd

/-! ### reverse port forwards -/

/-- data for a forward that is not in the table is written nowhere: the state does not change -/
theorem pf_unknown_inert (s : St) (sid : Nat) (data : Bytes) (h : s.find sid = none) :
    step s (.read sid data) = (s, .refused) := by
  simp [step, h]

/-- data for a connected forward reaches its target appended to what it has already received:
    unmodified and in order, whatever the chunking -/
theorem pf_write_appends (s : St) (f : Fwd) (data : Bytes) (h : s.find f.sid = some f) (hc : f.conn = true) :
    step s (.read f.sid data) = (s.set { f with got := f.got ++ data }, .written) := by
  simp [step, h, hc]

/-- a refused dial leaves the entry as it was (still closed), so the next data dials again -/
theorem pf_refused_dial_keeps_closed (s : St) (f : Fwd) (data : Bytes) (h : s.find f.sid = some f)
    (hc : f.conn = false) (hu : f.up = false) :
    step s (.read f.sid data) = (s, .refused) := by
  simp [step, h, hc, hu]

/-- … and once the target listens the same data is delivered on a fresh connection -/
theorem pf_dial_when_up (s : St) (f : Fwd) (data : Bytes) (h : s.find f.sid = some f)
    (hc : f.conn = false) (hu : f.up = true) :
    step s (.read f.sid data) = (s.set { f with conn := true, got := f.got ++ data, live := f.live + 1 }, .written) := by
  simp [step, h, hc, hu]

theorem find_filter_ne (l : List Fwd) (sid : Nat) : (l.filter (·.sid != sid)).find? (·.sid == sid) = none := by
  induction l with
  | nil => rfl
  | cons a l ih =>
    simp only [List.filter_cons]
    split
    · rename_i hne
      simp only [List.find?_cons]
      have : (a.sid == sid) = false := by simpa using hne
      simp [this, ih]
    · exact ih

/-- after the agent has reported the removal the forward is gone from the table -/
theorem pf_removed_gone (s : St) (sid : Nat) : ((step s (.remove sid)).1).find sid = none ∨ s.find sid = none := by
  cases h : s.find sid with
  | none => right; rfl
  | some f =>
    left
    have : (step s (.remove sid)).1.fwds = s.fwds.filter (·.sid != sid) := by simp [step, h]
    simp only [St.find, this]
    exact find_filter_ne _ _

/- a target that is down at first, comes up, gets both chunks of the second attempt in order; removal closes -/
example : (run [.open_ 7 false, .read 7 [1, 2], .up 7, .read 7 [3], .read 7 [4, 5], .remove 7]).targets.map (fun f => (f.got, f.live)) = [([3, 4, 5], 0)] := by
  decide

end PortForward

end Havoc.C15
