import HavocVerif.Lemmas.StrLit
import HavocVerif.Model.Profile
/-
  C14 — A profile file means what it says.
  Proved here: the string-literal layer of the dialect (every byte string has a spelling that reads
  back as exactly that string; the readable spelling does; escaped template markers), and facts
  about the regenerated profile schema.  The file-level round trip (write any configuration of the
  schema in any accepted spelling, load it, get it back; one-fault profiles are refused with a
  located error) is decided by the correspondence run against the real loader, with `expected`
  (Model/Profile.lean) as the oracle.
-/
namespace Havoc.C14
open Havoc Havoc.StrLit Havoc.Profile

/-! ### string literals -/

/-- every string (every byte sequence) can be written, and means exactly itself -/
theorem every_string_has_a_spelling (v : Bytes) : unquote (v.length + 1) (spellHex v) = some v :=
  unquote_spellHex v _ (Nat.le_refl _)

/-- raw text with the escapes \n \r \t \" \\ means exactly the string it spells
    (strings without `$` and `%`; those two are covered by the next three statements) -/
theorem readable_spelling (v : Bytes) (h : NoTemplateChar v) : unquote (v.length + 1) (spellPlain v) = some v :=
  unquote_spellPlain v h _ (Nat.le_refl _)

theorem escaped_dollar_brace (s : List UInt8) (f : Nat) :
    unquote (f + 1) (36 :: 36 :: 123 :: s) = (unquote f s).map ([36, 123] ++ ·) := unquote_dollar s f
theorem escaped_percent_brace (s : List UInt8) (f : Nat) :
    unquote (f + 1) (37 :: 37 :: 123 :: s) = (unquote f s).map ([37, 123] ++ ·) := unquote_percent s f
theorem unescaped_marker_is_not_text (s : List UInt8) (f : Nat) : unquote (f + 1) (36 :: 123 :: s) = none :=
  interpolation_is_not_literal s f

/-- the two spellings agree wherever both apply -/
theorem spellings_agree (v : Bytes) (h : NoTemplateChar v) :
    unquote (v.length + 1) (spellHex v) = unquote (v.length + 1) (spellPlain v) := by
  rw [every_string_has_a_spelling, readable_spelling v h]

/-- a bare quote, a bare newline and an unknown escape are refused -/
example : unquote 5 [97, 34, 98] = none := by decide
example : unquote 5 [97, 10] = none := by decide
example : unquote 5 [92, 113] = none := by decide
/-- `\x414|` : the greedy hexadecimal run decodes pairs and drops the odd digit -/
example : unquote 9 [92, 120, 52, 49, 52, 124] = some [65, 124] := by decide

/-! ### the regenerated schema -/

def allFields : List (String × Field) :=
  Gen.ProfileSchema.structs.flatMap fun (s, fs) => fs.map fun (a, b, c, d) => (s, ⟨a, b, c, d⟩)

/-- every block field refers to a struct of the schema -/
theorem blocks_resolve :
    (allFields.all fun (_, f) => f.kind != "block" || (fieldsOf (structOfType f.goType)).isSome) = true := by decide

/-- within a struct no yaotl name is used twice -/
theorem names_unique :
    (Gen.ProfileSchema.structs.all fun (_, fs) => ((fs.map fun (_, n, _, _) => n).eraseDups.length == fs.length)) = true := by decide

/-- the required settings of the profile (a change of this list changes what must be rejected) -/
theorem required_settings :
    (allFields.filter fun (_, f) => f.kind == "attr").map (fun (s, f) => s ++ "." ++ f.name) =
    ["WebHookDiscordConfig.Url", "ServiceConfig.Endpoint", "ServiceConfig.Password", "ServerProfile.Host", "ServerProfile.Port",
     "UsersBlock.Password", "ListenerHTTP.Name", "ListenerHTTP.Hosts", "ListenerHTTP.HostBind", "ListenerHTTP.HostRotation",
     "ListenerHTTP.PortBind", "ListenerSMB.Name", "ListenerSMB.PipeName", "ListenerExternal.Name", "ListenerExternal.Endpoint",
     "ListenerHttpProxy.Host", "ListenerHttpProxy.Port", "ListenerHttpCerts.Cert", "ListenerHttpCerts.Key"] := by decide

/-- the only labelled block is `user "<name>"` -/
theorem labels : (allFields.filter fun (_, f) => f.kind == "label").map (fun (s, f) => s ++ "." ++ f.name) = ["UsersBlock.Name"] := by decide

/-! ### the oracle -/

/-- loading keeps every written entry … -/
theorem written_entries_kept (es : List Entry) (e : Entry) (h : e ∈ es) : e ∈ expected es := by
  simp [expected, h]

/-- … and what it adds are zero values of attributes the file does not mention -/
theorem added_are_defaults (es : List Entry) (b : String) (e : Entry) (h : e ∈ defaultsFor es b) :
    ¬ es.any (·.path == e.path) = true ∧ (e.val = "s-" ∨ e.val = "i0" ∨ e.val = "b0" ∨ e.val = "m()" ∨ e.val = "l()") := by
  unfold defaultsFor at h
  split at h
  · simp at h
  · simp only [List.mem_filterMap] at h
    obtain ⟨f, _, hf⟩ := h
    split at hf
    · cases hf
    · split at hf
      · cases hf
      · rename_i hno
        cases hf
        refine ⟨by simpa using hno, ?_⟩
        simp only [zeroOf]
        split
        · left; rfl
        · split
          · right; left; rfl
          · split
            · right; right; left; rfl
            · split
              · right; right; right; left; rfl
              · right; right; right; right; rfl

example : structAt "HavocConfig" [⟨"Listeners", none⟩, ⟨"Http", some 0⟩, ⟨"Proxy", none⟩] = some "ListenerHttpProxy" := by decide
example : structAt "HavocConfig" [⟨"Listeners", none⟩, ⟨"Http", none⟩, ⟨"Proxy", none⟩] = none := by decide

end Havoc.C14
