import HavocVerif.Model.Forest
namespace Havoc

structure Forest.Inv (f : Forest) : Prop where
  linkIff : ∀ p c, c ∈ f.links p ↔ f.parent c = some p
  nodup : ∀ p, (f.links p).Nodup
  rowsIff : ∀ p c, (p, c) ∈ f.rows ↔ f.parent c = some p
  rowsNodup : f.rows.Nodup
  noSelf : ∀ a, f.parent a ≠ some a
  closed : ∀ c, c ∉ f.agents → f.parent c = none

theorem upd_same {β : Type} (f : Nat → β) (k : Nat) (v : β) : upd f k v k = v := by simp [upd]
theorem upd_other {β : Type} (f : Nat → β) (k x : Nat) (v : β) (h : x ≠ k) : upd f k v x = f x := by
  simp [upd, h]

theorem Forest.inv_init : ({} : Forest).Inv :=
  ⟨by intro p c; simp, by intro p; simp, by intro p c; simp, by simp, by intro a; simp, by intro c _; rfl⟩

/-- `LinkRemove(p, c, true)` keeps the forest consistent (whether or not `c` was a link of `p`) -/
theorem Forest.linkRemove_inv (f : Forest) (h : f.Inv) (p c : Nat) : (f.linkRemove p c true).Inv := by
  by_cases hpc : f.parent c = some p
  · have hmem : c ∈ f.links p := (h.linkIff p c).mpr hpc
    refine ⟨?_, ?_, ?_, ?_, ?_, ?_⟩
    · intro p' c'
      simp only [Forest.linkRemove, hpc, if_true]
      by_cases hp : p' = p
      · subst hp
        rw [upd_same, (h.nodup p').mem_erase_iff]
        by_cases hc : c' = c
        · subst hc; simp [upd_same]
        · rw [upd_other _ _ _ _ hc, h.linkIff]; simp [hc]
      · rw [upd_other _ _ _ _ hp]
        by_cases hc : c' = c
        · subst hc
          rw [upd_same, h.linkIff, hpc]
          simp; exact fun e => hp e.symm
        · rw [upd_other _ _ _ _ hc, h.linkIff]
    · intro p'
      simp only [Forest.linkRemove, if_true]
      by_cases hp : p' = p
      · subst hp; rw [upd_same]; exact (h.nodup p').erase c
      · rw [upd_other _ _ _ _ hp]; exact h.nodup p'
    · intro p' c'
      simp only [Forest.linkRemove, hpc, if_true, List.mem_filter, ne_eq, decide_not, Bool.not_eq_true',
        decide_eq_false_iff_not, Prod.mk.injEq, not_and]
      by_cases hc : c' = c
      · subst hc
        rw [upd_same, h.rowsIff, hpc]
        constructor
        · rintro ⟨e, hne⟩; exact absurd rfl (hne (Option.some.inj e).symm)
        · intro e; simp at e
      · rw [upd_other _ _ _ _ hc, h.rowsIff]
        constructor
        · exact fun x => x.1
        · exact fun x => ⟨x, fun _ e => hc e⟩
    · simp only [Forest.linkRemove]; exact h.rowsNodup.filter _
    · intro a
      simp only [Forest.linkRemove, hpc, if_true]
      by_cases ha : a = c
      · subst ha; rw [upd_same]; simp
      · rw [upd_other _ _ _ _ ha]; exact h.noSelf a
    · intro x hx
      simp only [Forest.linkRemove, hpc, if_true] at hx ⊢
      by_cases hxc : x = c
      · subst hxc; rw [upd_same]
      · rw [upd_other _ _ _ _ hxc]; exact h.closed x hx
  · have hnm : c ∉ f.links p := fun hm => hpc ((h.linkIff p c).mp hm)
    have hnr : (p, c) ∉ f.rows := fun hm => hpc ((h.rowsIff p c).mp hm)
    have e1 : (f.links p).erase c = f.links p := List.erase_of_not_mem hnm
    have e2 : f.rows.filter (· ≠ (p, c)) = f.rows := by
      apply List.filter_eq_self.mpr
      intro r hr; simp; intro e; exact hnr (e ▸ hr)
    have e3 : upd f.links p (f.links p) = f.links := by
      funext x; by_cases hx : x = p
      · subst hx; simp [upd]
      · simp [upd, hx]
    refine ⟨?_, ?_, ?_, ?_, ?_, ?_⟩ <;>
      simp only [Forest.linkRemove, hpc, if_false, if_true, e1, e2, e3]
    · exact h.linkIff
    · exact h.nodup
    · exact h.rowsIff
    · exact h.rowsNodup
    · exact h.noSelf
    · exact h.closed

/-- attaching a parentless agent `c` (new, or just detached) under `p ≠ c` -/
theorem Forest.attach_inv (f : Forest) (h : f.Inv) (p c : Nat) (hne : p ≠ c) (hnone : f.parent c = none)
    (ag : List Nat) (act : Nat → Bool) (hcin : c ∈ ag) (hsub : ∀ x ∈ f.agents, x ∈ ag) :
    ({ f with agents := ag, parent := upd f.parent c (some p), links := upd f.links p (f.links p ++ [c]),
              rows := addRow f.rows (p, c), active := act } : Forest).Inv := by
  have hnm : ∀ q, c ∉ f.links q := fun q hm => by
    have := (h.linkIff q c).mp hm; rw [hnone] at this; simp at this
  have hnr : ∀ q, (q, c) ∉ f.rows := fun q hm => by
    have := (h.rowsIff q c).mp hm; rw [hnone] at this; simp at this
  have hrows : addRow f.rows (p, c) = f.rows ++ [(p, c)] := by
    unfold addRow
    have : f.rows.contains (p, c) = false := by
      simpa using hnr p
    rw [this]; simp
  refine ⟨?_, ?_, ?_, ?_, ?_, ?_⟩
  · intro p' c'
    simp only
    by_cases hp : p' = p
    · subst hp
      rw [upd_same, List.mem_append, List.mem_singleton]
      by_cases hc : c' = c
      · subst hc; simp [upd_same]
      · rw [upd_other _ _ _ _ hc, h.linkIff]; simp [hc]
    · rw [upd_other _ _ _ _ hp, h.linkIff]
      by_cases hc : c' = c
      · subst hc; rw [upd_same, hnone]; simp; exact fun e => hp e.symm
      · rw [upd_other _ _ _ _ hc]
  · intro p'
    simp only
    by_cases hp : p' = p
    · subst hp
      rw [upd_same, List.nodup_append]
      exact ⟨h.nodup p', by simp, by intro a ha b hb; simp at hb; subst hb; intro e; subst e; exact hnm p' ha⟩
    · rw [upd_other _ _ _ _ hp]; exact h.nodup p'
  · intro p' c'
    simp only [hrows, List.mem_append, List.mem_singleton, Prod.mk.injEq]
    by_cases hc : c' = c
    · subst hc
      rw [upd_same]
      constructor
      · rintro (hm | ⟨e, _⟩)
        · exact absurd hm (hnr p')
        · rw [e]
      · intro e; right; exact ⟨(Option.some.inj e).symm, rfl⟩
    · rw [upd_other _ _ _ _ hc, h.rowsIff]
      constructor
      · rintro (hm | ⟨_, e⟩)
        · exact hm
        · exact absurd e hc
      · exact fun x => Or.inl x
  · simp only [hrows]
    rw [List.nodup_append]
    exact ⟨h.rowsNodup, by simp, by intro a ha b hb; simp at hb; subst hb; intro e; subst e; exact hnr p ha⟩
  · intro a
    simp only
    by_cases ha : a = c
    · subst ha; rw [upd_same]; simp; exact hne
    · rw [upd_other _ _ _ _ ha]; exact h.noSelf a
  · intro x hx
    simp only at hx ⊢
    by_cases hxc : x = c
    · subst hxc; exact absurd hcin hx
    · rw [upd_other _ _ _ _ hxc]
      exact h.closed x (fun hm => hx (hsub x hm))

theorem upReaches_self (f : Forest) (fuel : Nat) (p : Nat) : upReaches f (fuel + 1) p p = true := by
  simp [upReaches]

theorem Forest.linkRemove_parent_none (f : Forest) (q c : Nat) (h : f.parent c = some q) :
    (f.linkRemove q c true).parent c = none := by
  simp [Forest.linkRemove, h, upd]

theorem Forest.connect_inv (f : Forest) (h : f.Inv) (p c : Nat) : (f.connect p c).Inv := by
  unfold Forest.connect
  by_cases hp : f.agents.contains p = true
  · simp only [hp, not_true_eq_false, if_false]
    by_cases hc : f.agents.contains c = true
    · simp only [hc, not_true_eq_false, if_false]
      by_cases hg : upReaches f (f.agents.length + 1) p c = true
      · simp only [hg, if_true]; exact h
      · simp only [hg]
        have hne : p ≠ c := by
          intro e; subst e; exact hg (upReaches_self f _ p)
        have hcm : c ∈ f.agents := by simpa using hc
        cases hq : f.parent c with
        | none => exact Forest.attach_inv f h p c hne hq _ _ hcm (fun x hx => hx)
        | some q =>
          have h1 := Forest.linkRemove_inv f h q c
          have hn := Forest.linkRemove_parent_none f q c hq
          exact Forest.attach_inv _ h1 p c hne hn _ _ (by simpa [Forest.linkRemove] using hcm)
            (fun x hx => by simpa [Forest.linkRemove] using hx)
    · simp only [hc, if_true]
      have hcn : c ∉ f.agents := by simpa using hc
      have hne : p ≠ c := by
        intro e; subst e; exact hcn (by simpa using hp)
      exact Forest.attach_inv f h p c hne (h.closed c hcn) _ _ (by simp) (fun x hx => by simp [hx])
  · simp only [hp, not_false_eq_true, if_true]; exact h

end Havoc

namespace Havoc

/-- detaching, one consistent step at a time: every link of `a`, then `a` from its parent -/
def Forest.detachChildren (f : Forest) (a : Nat) : List Nat → Forest
  | [] => f
  | l :: ls => Forest.detachChildren (f.linkRemove a l true) a ls

def Forest.diedSpec (f : Forest) (a : Nat) : Forest :=
  if ¬ f.agents.contains a then f
  else
    let f1 := f.detachChildren a (f.links a)
    let f2 := match f1.parent a with
      | some q => f1.linkRemove q a true
      | none => f1
    { f2 with active := upd f2.active a false }

theorem Forest.detachChildren_inv (f : Forest) (h : f.Inv) (a : Nat) (ls : List Nat) :
    (f.detachChildren a ls).Inv := by
  induction ls generalizing f with
  | nil => exact h
  | cons l ls ih => exact ih _ (Forest.linkRemove_inv f h a l)

theorem Forest.inv_of_active (f : Forest) (h : f.Inv) (act : Nat → Bool) : ({ f with active := act } : Forest).Inv :=
  ⟨h.linkIff, h.nodup, h.rowsIff, h.rowsNodup, h.noSelf, h.closed⟩

theorem Forest.diedSpec_inv (f : Forest) (h : f.Inv) (a : Nat) : (f.diedSpec a).Inv := by
  unfold Forest.diedSpec
  by_cases ha : f.agents.contains a = true
  · simp only [ha, not_true_eq_false, if_false]
    have h1 := Forest.detachChildren_inv f h a (f.links a)
    apply Forest.inv_of_active
    cases hq : (f.detachChildren a (f.links a)).parent a with
    | none => simpa [hq] using h1
    | some q => simpa [hq] using Forest.linkRemove_inv _ h1 q a
  · simp only [ha, not_false_eq_true, if_true]; exact h

theorem Forest.detachChildren_links (f : Forest) (a : Nat) (ls : List Nat) :
    (f.detachChildren a ls).links a = ls.foldl List.erase (f.links a) := by
  induction ls generalizing f with
  | nil => rfl
  | cons l ls ih =>
    simp only [Forest.detachChildren, List.foldl_cons]
    rw [ih]
    simp [Forest.linkRemove, upd]

theorem foldl_erase_self (l : List Nat) : l.foldl List.erase l = [] := by
  induction l with
  | nil => rfl
  | cons x xs ih => simp [List.foldl_cons, ih]

/-- after `diedSpec` nothing is attached to the dead agent, in either direction -/
theorem Forest.diedSpec_detached (f : Forest) (h : f.Inv) (a : Nat) (ha : f.agents.contains a = true) :
    (f.diedSpec a).links a = [] ∧ (f.diedSpec a).parent a = none ∧ ∀ c, (f.diedSpec a).parent c ≠ some a := by
  have hinv := Forest.diedSpec_inv f h a
  have hl : (f.diedSpec a).links a = [] := by
    unfold Forest.diedSpec
    simp only [ha, not_true_eq_false, if_false]
    have e := Forest.detachChildren_links f a (f.links a)
    rw [foldl_erase_self] at e
    cases hq : (f.detachChildren a (f.links a)).parent a with
    | none => simpa [hq] using e
    | some q =>
      have hqa : q ≠ a := by
        intro e'; subst e'
        exact (Forest.detachChildren_inv f h q (f.links q)).noSelf q hq
      simp only [hq, Forest.linkRemove, if_true]
      rw [upd_other _ _ _ _ hqa.symm]
      exact e
  refine ⟨hl, ?_, ?_⟩
  · unfold Forest.diedSpec
    simp only [ha, not_true_eq_false, if_false]
    cases hq : (f.detachChildren a (f.links a)).parent a with
    | none => simpa [hq] using hq
    | some q => simp [hq, Forest.linkRemove, upd]
  · intro c hc
    have := (hinv.linkIff a c).mpr hc
    rw [hl] at this
    simp at this

end Havoc
