import HavocVerif.Model.Path
namespace Havoc

def NoSlash (c : Bytes) : Prop := slash ∉ c

def GoodComps (l : List Bytes) : Prop := ∀ c ∈ l, NoSlash c ∧ c ≠ []

/-- a tail that is empty or begins with a separator -/
def SepTail (t : Bytes) : Prop := t = [] ∨ ∃ r, t = slash :: r

theorem takeWhile_comp (c t : Bytes) (h : NoSlash c) (ht : SepTail t) :
    (c ++ t).takeWhile (· != slash) = c := by
  induction c with
  | nil =>
    rcases ht with rfl | ⟨r, rfl⟩
    · rfl
    · simp [List.takeWhile]
  | cons x xs ih =>
    have hx : x ≠ slash := fun e => h (by simp [e])
    have hxs : NoSlash xs := fun m => h (by simp [m])
    rw [List.cons_append, List.takeWhile_cons]
    simp [hx, ih hxs]

def sepJoin : List Bytes → Bytes
  | [] => []
  | c :: cs => slash :: joinByte slash (c :: cs)

theorem sepJoin_tail (cs : List Bytes) : SepTail (sepJoin cs) := by
  cases cs with
  | nil => left; rfl
  | cons _ _ => right; exact ⟨_, rfl⟩

theorem joinByte_decomp (c : Bytes) (cs : List Bytes) :
    joinByte slash (c :: cs) = c ++ sepJoin cs := by
  cases cs with
  | nil => simp [joinByte, sepJoin]
  | cons d ds => simp [joinByte, sepJoin]

theorem sepTail_append (a t : Bytes) (ha : SepTail a) (ht : SepTail t) : SepTail (a ++ t) := by
  rcases ha with rfl | ⟨r, rfl⟩
  · simpa using ht
  · right; exact ⟨r ++ t, by simp⟩

theorem join_prefix (ds : List Bytes) : ∀ (cs : List Bytes) (tail : Bytes), GoodComps cs → GoodComps ds →
    SepTail tail → joinByte slash cs = joinByte slash ds ++ tail → ds <+: cs := by
  induction ds with
  | nil => intro cs _ _ _ _ _; exact List.nil_prefix
  | cons d ds ih =>
    intro cs tail hcs hds ht h
    have hd := hds d (by simp)
    cases cs with
    | nil =>
      rw [joinByte_decomp] at h
      have : d = [] := by
        have := congrArg List.length h
        simp [joinByte] at this
        exact List.eq_nil_of_length_eq_zero (by omega)
      exact absurd this hd.2
    | cons c cs =>
      have hc := hcs c (by simp)
      rw [joinByte_decomp c cs, joinByte_decomp d ds, List.append_assoc] at h
      have l := takeWhile_comp c _ hc.1 (sepJoin_tail cs)
      have r := takeWhile_comp d _ hd.1 (sepTail_append _ _ (sepJoin_tail ds) ht)
      rw [h] at l
      have hcd : c = d := by rw [← l, r]
      subst hcd
      have h' := List.append_cancel_left h
      cases ds with
      | nil => exact ⟨cs, by simp⟩
      | cons e es =>
        cases cs with
        | nil => simp [sepJoin] at h'
        | cons f fs =>
          simp only [sepJoin, List.cons_append, List.cons.injEq, true_and] at h'
          have := ih (f :: fs) tail (fun x hx => hcs x (by simp [hx])) (fun x hx => hds x (by simp [hx])) ht h'
          obtain ⟨t, ht'⟩ := this
          exact ⟨t, by simp [← ht']⟩

theorem splitByte_noslash (p : Bytes) : ∀ c ∈ splitByte slash p, NoSlash c := by
  induction p with
  | nil => intro c hc; simp [splitByte] at hc; subst hc; simp [NoSlash]
  | cons b bs ih =>
    intro c hc
    simp only [splitByte] at hc
    cases hs : splitByte slash bs with
    | nil => rw [hs] at hc; simp at hc; subst hc; simp [NoSlash]
    | cons cur rest =>
      rw [hs] at hc ih
      simp only at hc
      split at hc
      · simp only [List.mem_cons] at hc
        rcases hc with rfl | rfl | hm
        · simp [NoSlash]
        · exact ih _ (by simp)
        · exact ih _ (by simp [hm])
      · rename_i hb
        simp only [List.mem_cons] at hc
        rcases hc with rfl | hm
        · intro m; simp only [List.mem_cons] at m
          rcases m with e | m
          · exact hb e.symm
          · exact ih cur (by simp) m
        · exact ih _ (by simp [hm])

/-- everything `resolveComps` returns is a non-empty input component or was on the stack -/
theorem resolveComps_mem (rooted : Bool) (cs : List Bytes) : ∀ (acc : List Bytes),
    ∀ c ∈ resolveComps rooted cs acc, (c ∈ cs ∧ c ≠ []) ∨ c ∈ acc := by
  induction cs with
  | nil => intro acc c hc; right; simpa [resolveComps] using hc
  | cons x xs ih =>
    intro acc c hc
    have lift : ∀ acc' : List Bytes, ((c ∈ xs ∧ c ≠ []) ∨ c ∈ acc') → (∀ y ∈ acc', y ∈ acc ∨ (y = x ∧ x ≠ [])) →
        (c ∈ x :: xs ∧ c ≠ []) ∨ c ∈ acc := by
      intro acc' h hsub
      rcases h with ⟨h1, h2⟩ | h
      · left; exact ⟨by simp [h1], h2⟩
      · rcases hsub c h with h | ⟨rfl, hx⟩
        · right; exact h
        · left; exact ⟨by simp, hx⟩
    simp only [resolveComps] at hc
    split at hc
    · exact lift acc (ih acc c hc) (fun y hy => Or.inl hy)
    · rename_i hne
      have hx : x ≠ [] := fun e => hne (Or.inl e)
      split at hc
      · split at hc
        · rename_i top rest
          split at hc
          · exact lift _ (ih _ c hc) (fun y hy => by
              simp only [List.mem_cons] at hy
              rcases hy with rfl | hy
              · right; exact ⟨rfl, hx⟩
              · left; simpa using hy)
          · exact lift _ (ih _ c hc) (fun y hy => Or.inl (by simp [hy]))
        · split at hc
          · exact lift [] (ih _ c hc) (fun y hy => by simp at hy)
          · exact lift _ (ih _ c hc) (fun y hy => by
              simp only [List.mem_singleton] at hy; right; exact ⟨hy, hx⟩)
      · exact lift _ (ih _ c hc) (fun y hy => by
          simp only [List.mem_cons] at hy
          rcases hy with rfl | hy
          · right; exact ⟨rfl, hx⟩
          · left; exact hy)

theorem cleanComps_good (p : Bytes) : GoodComps (cleanComps p).2 := by
  intro c hc
  simp only [cleanComps] at hc
  rcases resolveComps_mem _ _ [] c hc with ⟨h1, h2⟩ | h
  · exact ⟨splitByte_noslash p c h1, h2⟩
  · simp at h

/-- The containment test means containment: if a rooted path passes `insideDir` for a rooted
    directory, the directory's cleaned components are a prefix of the path's cleaned components. -/
theorem insideDir_components (path dir : Bytes) (hp : path.head? = some slash) (hd : dir.head? = some slash)
    (h : insideDir path dir = true) : (cleanComps dir).2 <+: (cleanComps path).2 := by
  unfold insideDir cleanPath at h
  have rp : (cleanComps path).1 = true := by simp [cleanComps, hp]
  have rd : (cleanComps dir).1 = true := by simp [cleanComps, hd]
  have gp := cleanComps_good path
  have gd := cleanComps_good dir
  generalize cleanComps path = cp at h rp gp
  generalize cleanComps dir = cd at h rd gd
  obtain ⟨r1, cs⟩ := cp
  obtain ⟨r2, ds⟩ := cd
  simp only at rp rd gp gd
  subst rp rd
  simp only [if_true, Bool.or_eq_true, beq_iff_eq, List.cons.injEq, true_and] at h
  rcases h with h | h
  · exact join_prefix ds cs [] gp gd (Or.inl rfl) (by simpa using h)
  · simp only [hasPrefixB, beq_iff_eq] at h
    have hsplit := List.take_append_drop (slash :: joinByte slash ds ++ [slash]).length (slash :: joinByte slash cs)
    rw [h] at hsplit
    simp only [List.cons_append, List.cons.injEq, true_and, List.append_assoc] at hsplit
    exact join_prefix ds cs _ gp gd (Or.inr ⟨_, rfl⟩) (by simpa using hsplit.symm)

end Havoc
