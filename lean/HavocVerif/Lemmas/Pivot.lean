import HavocVerif.Model.Pivot
import HavocVerif.Lemmas.Frame
namespace Havoc

theorem deliverDown_append (xs ys : List Hop) (t : Task) :
    deliverDown (xs ++ ys) t = (deliverDown xs t).bind (deliverDown ys) := by
  induction xs generalizing t with
  | nil => simp [deliverDown]
  | cons h hs ih =>
    simp only [List.cons_append, deliverDown]
    split
    · simp
    · rename_i id data _
      split
      · simp
      · split
        · rename_i t' _; exact ih t'
        · simp

theorem smbRecv_frame (id : Nat) (payload : Bytes) (hid : id < 4294967296)
    (hp : payload.length < 4294967296) (hne : payload.length > 0) :
    smbRecv id (packerFrame id payload) = some payload := by
  unfold smbRecv packerFrame
  rw [Nat.mod_eq_of_lt hid, Nat.mod_eq_of_lt hp]
  have l : ¬ ((le32 id ++ le32 payload.length ++ payload).length ≤ 8) := by simp; omega
  have t4 : (le32 id ++ le32 payload.length ++ payload).take 4 = le32 id := by simp [le32]
  have d4 : (le32 id ++ le32 payload.length ++ payload).drop 4 = le32 payload.length ++ payload := by
    simp [le32]
  have d8 : (le32 id ++ le32 payload.length ++ payload).drop 8 = payload := by simp [le32]
  have t44 : (le32 payload.length ++ payload).take 4 = le32 payload.length := by simp [le32]
  simp only [l, if_false, t4, d4, d8, t44, leNat_le32 _ hid, leNat_le32 _ hp, ne_eq,
    not_true_eq_false, Nat.lt_irrefl, gt_iff_lt, List.take_length]

/-- a layer built for hop `h` around job `j`, as the hop above sees and forwards it -/
theorem relayOf_pivotJob (id : Nat) (payload : Bytes) (hid : id < 4294967296)
    (hp : (packerFrame id payload).length < 4294967296) (hne : payload.length > 0) :
    relayOf (pivotJob id payload).view = some (id, packerFrame id payload) := by
  have hwf : ∀ a ∈ [Arg.int Gen.Consts.DEMON_PIVOT_SMB_COMMAND, Arg.uint32 id,
      Arg.bytes (packerFrame id payload)], a.wf := by
    intro a ha; simp at ha; rcases ha with rfl | rfl | rfl <;> simp [Arg.wf]; exact hp
  have := demonRead_args _ [] hwf
  simp only [List.append_nil] at this
  have hb : (pivotJob id payload).view.body =
      [Arg.int Gen.Consts.DEMON_PIVOT_SMB_COMMAND, Arg.uint32 id, Arg.bytes (packerFrame id payload)].flatMap Arg.encode := rfl
  have hk : [Arg.int Gen.Consts.DEMON_PIVOT_SMB_COMMAND, Arg.uint32 id, Arg.bytes (packerFrame id payload)].map Arg.ckind
      = [CKind.int32, CKind.int32, CKind.bytes] := rfl
  unfold relayOf
  rw [hb, ← hk, this]
  have hl : (packerFrame id payload).length ≠ 0 := by simp [packerFrame]
  simp [pivotJob, Job.view, Arg.cview, Nat.mod_eq_of_lt hid, hl, Gen.Consts.DEMON_PIVOT_SMB_COMMAND]

end Havoc
