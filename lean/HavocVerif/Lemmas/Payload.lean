import HavocVerif.Model.Payload
namespace Havoc

theorem xcryptFrom_length (ks : KeyStream) (i : Nat) (bs : Bytes) :
    (xcryptFrom ks i bs).length = bs.length := by
  induction bs generalizing i with
  | nil => rfl
  | cons b bs ih => simp [xcryptFrom, ih]

@[simp] theorem xcrypt_length (ks : KeyStream) (bs : Bytes) : (xcrypt ks bs).length = bs.length :=
  xcryptFrom_length ks 0 bs

theorem xcryptFrom_involutive (ks : KeyStream) (i : Nat) (bs : Bytes) :
    xcryptFrom ks i (xcryptFrom ks i bs) = bs := by
  induction bs generalizing i with
  | nil => rfl
  | cons b bs ih =>
    simp only [xcryptFrom, ih]
    congr 1
    rw [UInt8.xor_assoc, UInt8.xor_self, UInt8.xor_zero]

theorem xcrypt_involutive (ks : KeyStream) (bs : Bytes) : xcrypt ks (xcrypt ks bs) = bs :=
  xcryptFrom_involutive ks 0 bs

theorem take4_le32_append (v : Nat) (rest : Bytes) : (le32 v ++ rest).take 4 = le32 v := by
  simp [le32]
theorem drop4_le32_append (v : Nat) (rest : Bytes) : (le32 v ++ rest).drop 4 = rest := by
  simp [le32]

theorem cGetInt32_le (v : Nat) (rest : Bytes) (h : v < 4294967296) :
    cGetInt32 (le32 v ++ rest) = (v, rest) := by
  simp [cGetInt32, take4_le32_append, drop4_le32_append, leNat_le32 v h]
  omega

theorem cGetInt64_le (v : Nat) (rest : Bytes) (h : v < 18446744073709551616) :
    cGetInt64 (le64 v ++ rest) = (v, rest) := by
  have t : (le64 v ++ rest).take 8 = le64 v := by simp [le64, le32]
  have d : (le64 v ++ rest).drop 8 = rest := by simp [le64, le32]
  simp [cGetInt64, t, d, leNat_le64 v h]
  omega

theorem cGetInt16_le (v : Nat) (rest : Bytes) (h : v < 65536) :
    cGetInt16 (le16 v ++ rest) = (v, rest) := by
  have t : (le16 v ++ rest).take 2 = le16 v := by simp [le16]
  have d : (le16 v ++ rest).drop 2 = rest := by simp [le16]
  simp [cGetInt16, t, d, leNat_le16 v h]
  omega

theorem cGetBytes_le (b rest : Bytes) (h : b.length < 4294967296) :
    cGetBytes (le32 b.length ++ b ++ rest) = some (b, rest) := by
  have t : (le32 b.length ++ b ++ rest).take 4 = le32 b.length := by simp [le32]
  have d : (le32 b.length ++ b ++ rest).drop 4 = b ++ rest := by simp [le32]
  have l : ¬ ((le32 b.length ++ b ++ rest).length < 4) := by simp
  simp only [cGetBytes, l, if_false, t, d, leNat_le32 _ h]
  simp

theorem demonRead_arg (a : Arg) (ks : List CKind) (rest : Bytes) (h : a.wf) :
    demonRead (a.ckind :: ks) (a.encode ++ rest)
      = (demonRead ks rest).map fun (vs, r) => (a.cview :: vs, r) := by
  cases a with
  | int v => simp [Arg.ckind, Arg.encode, Arg.cview, demonRead, cGetInt32_le _ rest (Nat.mod_lt v (by decide))]
  | int32 v => simp [Arg.ckind, Arg.encode, Arg.cview, demonRead, cGetInt32_le _ rest (Nat.mod_lt v (by decide))]
  | uint32 v => simp [Arg.ckind, Arg.encode, Arg.cview, demonRead, cGetInt32_le _ rest (Nat.mod_lt v (by decide))]
  | int64 v => simp [Arg.ckind, Arg.encode, Arg.cview, demonRead, cGetInt64_le _ rest (Nat.mod_lt v (by decide))]
  | uint64 v => simp [Arg.ckind, Arg.encode, Arg.cview, demonRead, cGetInt64_le _ rest (Nat.mod_lt v (by decide))]
  | int16 v => simp [Arg.ckind, Arg.encode, Arg.cview, demonRead, cGetInt16_le _ rest (Nat.mod_lt v (by decide))]
  | uint16 v => simp [Arg.ckind, Arg.encode, Arg.cview, demonRead, cGetInt16_le _ rest (Nat.mod_lt v (by decide))]
  | str s =>
    have h' : (cstr s).length < 4294967296 := h
    have := cGetBytes_le (cstr s) rest h'
    simp only [Arg.ckind, Arg.encode, Arg.cview, demonRead, Nat.mod_eq_of_lt h', this]
  | bytes b =>
    have h' : b.length < 4294967296 := h
    have := cGetBytes_le b rest h'
    simp only [Arg.ckind, Arg.encode, Arg.cview, demonRead, Nat.mod_eq_of_lt h', this]
  | byte b => simp [Arg.ckind, Arg.encode, Arg.cview, demonRead, cGetByte]
  | bool b =>
    cases b <;> simp [Arg.ckind, Arg.encode, Arg.cview, demonRead, cGetInt32_le]

theorem demonRead_args (args : List Arg) (rest : Bytes) (h : ∀ a ∈ args, a.wf) :
    demonRead (args.map Arg.ckind) (args.flatMap Arg.encode ++ rest)
      = some (args.map Arg.cview, rest) := by
  induction args with
  | nil => simp [demonRead]
  | cons a as ih =>
    have ha := h a (by simp)
    have has : ∀ x ∈ as, x.wf := fun x hx => h x (by simp [hx])
    simp only [List.map_cons, List.flatMap_cons, List.append_assoc]
    rw [demonRead_arg a _ _ ha, ih has]
    rfl

end Havoc
