import HavocVerif.Model.Prec
/-
  Lemmas for the precedence theorem of C18: fuel monotonicity, the parser as a relation with its
  introduction rules, the remaining loops (`Fin`), and the main induction over spellings.
-/
namespace Havoc.Prec
open Havoc.Hx (BinOp)

/-! ### more fuel never changes a result -/

theorem mono_step : ∀ f,
    (∀ k ts r, parseLevel f k ts = some r → parseLevel (f + 1) k ts = some r) ∧
    (∀ k lhs ts r, parseLoop f k lhs ts = some r → parseLoop (f + 1) k lhs ts = some r) ∧
    (∀ ts r, parseTerm f ts = some r → parseTerm (f + 1) ts = some r) := by
  intro f
  induction f with
  | zero => exact ⟨fun _ _ _ h => by simp [parseLevel] at h, fun _ _ _ _ h => by simp [parseLoop] at h, fun _ _ h => by simp [parseTerm] at h⟩
  | succ f ih =>
    obtain ⟨ihL, ihP, ihT⟩ := ih
    refine ⟨?_, ?_, ?_⟩
    · intro k ts r h
      rw [parseLevel] at h ⊢
      by_cases hk : nLevels ≤ k
      · simp only [hk, if_true] at h ⊢; exact ihT _ _ h
      · simp only [hk, if_false] at h ⊢
        cases h1 : parseLevel f (k + 1) ts with
        | none => simp [h1] at h
        | some p =>
          obtain ⟨lhs, rest⟩ := p
          simp only [h1] at h
          rw [ihL _ _ _ h1]
          exact ihP _ _ _ _ h
    · intro k lhs ts r h
      cases ts with
      | nil => simp only [parseLoop] at h ⊢; exact h
      | cons t ts' =>
        cases t with
        | op o =>
          simp only [parseLoop] at h ⊢
          by_cases hl : lvl o = k
          · simp only [hl, if_true] at h ⊢
            cases h1 : parseLevel f (k + 1) ts' with
            | none => simp [h1] at h
            | some p =>
              obtain ⟨rhs, rest⟩ := p
              simp only [h1] at h
              rw [ihL _ _ _ h1]
              exact ihP _ _ _ _ h
          · simp only [hl, if_false] at h ⊢; exact h
        | atom n => simp only [parseLoop] at h ⊢; exact h
        | lp => simp only [parseLoop] at h ⊢; exact h
        | rp => simp only [parseLoop] at h ⊢; exact h
    · intro ts r h
      cases ts with
      | nil => simp [parseTerm] at h
      | cons t rest =>
        cases t with
        | atom n => simp only [parseTerm] at h ⊢; exact h
        | lp =>
          simp only [parseTerm] at h ⊢
          cases h1 : parseLevel f 0 rest with
          | none => simp [h1] at h
          | some p =>
            rw [ihL _ _ _ h1]
            simpa [h1] using h
        | op o => simp [parseTerm] at h
        | rp => simp [parseTerm] at h

theorem mono_le {f g : Nat} (hfg : f ≤ g) :
    (∀ k ts r, parseLevel f k ts = some r → parseLevel g k ts = some r) ∧
    (∀ k lhs ts r, parseLoop f k lhs ts = some r → parseLoop g k lhs ts = some r) ∧
    (∀ ts r, parseTerm f ts = some r → parseTerm g ts = some r) := by
  induction hfg with
  | refl => exact ⟨fun _ _ _ h => h, fun _ _ _ _ h => h, fun _ _ h => h⟩
  | step _ ih =>
    obtain ⟨a, b, c⟩ := ih
    obtain ⟨a', b', c'⟩ := mono_step _
    exact ⟨fun k ts r h => a' _ _ _ (a k ts r h), fun k l ts r h => b' _ _ _ _ (b k l ts r h), fun ts r h => c' _ _ (c ts r h)⟩

/-! ### the parser as a relation (some amount of fuel suffices) and its introduction rules -/

def PL (k : Nat) (ts : List Tok) (r : Ex × List Tok) : Prop := ∃ f, parseLevel f k ts = some r
def LP (k : Nat) (lhs : Ex) (ts : List Tok) (r : Ex × List Tok) : Prop := ∃ f, parseLoop f k lhs ts = some r
def PT (ts : List Tok) (r : Ex × List Tok) : Prop := ∃ f, parseTerm f ts = some r

theorem PL_term {k : Nat} {ts : List Tok} {r} (hk : nLevels ≤ k) (h : PT ts r) : PL k ts r := by
  obtain ⟨f, hf⟩ := h
  exact ⟨f + 1, by simp [parseLevel, hk, hf]⟩

theorem PL_step {k : Nat} {ts : List Tok} {x : Ex} {rest : List Tok} {r} (hk : k < nLevels)
    (h1 : PL (k + 1) ts (x, rest)) (h2 : LP k x rest r) : PL k ts r := by
  obtain ⟨f1, hf1⟩ := h1
  obtain ⟨f2, hf2⟩ := h2
  refine ⟨max f1 f2 + 1, ?_⟩
  have a := (mono_le (Nat.le_max_left f1 f2)).1 _ _ _ hf1
  have b := (mono_le (Nat.le_max_right f1 f2)).2.1 _ _ _ _ hf2
  have hk' : ¬ nLevels ≤ k := Nat.not_le.mpr hk
  simp [parseLevel, hk', a, b]

/-- the loop stops at a token that is not an operator of its level -/
def stopsAt (k : Nat) : List Tok → Prop
  | .op o :: _ => lvl o ≠ k
  | _ => True

theorem LP_stop {k : Nat} {lhs : Ex} {ts : List Tok} (h : stopsAt k ts) : LP k lhs ts (lhs, ts) := by
  refine ⟨1, ?_⟩
  cases ts with
  | nil => simp [parseLoop]
  | cons t ts' =>
    cases t with
    | op o => simp only [stopsAt] at h; simp [parseLoop, h]
    | atom n => simp [parseLoop]
    | lp => simp [parseLoop]
    | rp => simp [parseLoop]

theorem LP_step {k : Nat} {lhs y : Ex} {o : BinOp} {ts' rest : List Tok} {r} (ho : lvl o = k)
    (h1 : PL (k + 1) ts' (y, rest)) (h2 : LP k (.bin o lhs y) rest r) : LP k lhs (.op o :: ts') r := by
  obtain ⟨f1, hf1⟩ := h1
  obtain ⟨f2, hf2⟩ := h2
  refine ⟨max f1 f2 + 1, ?_⟩
  have a := (mono_le (Nat.le_max_left f1 f2)).1 _ _ _ hf1
  have b := (mono_le (Nat.le_max_right f1 f2)).2.1 _ _ _ _ hf2
  simp [parseLoop, ho, a, b]

theorem PT_atom (n : Nat) (rest : List Tok) : PT (.atom n :: rest) (.atom n, rest) := ⟨1, by simp [parseTerm]⟩

theorem PT_paren {ts : List Tok} {e : Ex} {rest : List Tok} (h : PL 0 ts (e, .rp :: rest)) : PT (.lp :: ts) (e, rest) := by
  obtain ⟨f, hf⟩ := h
  exact ⟨f + 1, by simp [parseTerm, hf]⟩

/-- the loops of the levels `m-1, m-2, …, j`, one after the other, starting from `lhs` -/
def Fin (j : Nat) : Nat → Ex → List Tok → Ex × List Tok → Prop
  | 0, lhs, rest, r => r = (lhs, rest)
  | m + 1, lhs, rest, r =>
    if m < j then r = (lhs, rest)
    else ∃ x rest', LP m lhs rest (x, rest') ∧ Fin j m x rest' r

theorem Fin_le {j m : Nat} (h : m ≤ j) (lhs : Ex) (rest : List Tok) : Fin j m lhs rest (lhs, rest) := by
  cases m with
  | zero => simp [Fin]
  | succ m => have : m < j := by omega
              simp [Fin, this]

/-- after an operand of level `m` the remaining loops give the result of level `j` -/
theorem PL_fin {j : Nat} : ∀ (m : Nat) {ts : List Tok} {x : Ex} {rest : List Tok} {r}, j ≤ m → m ≤ nLevels →
    PL m ts (x, rest) → Fin j m x rest r → PL j ts r := by
  intro m
  induction m with
  | zero =>
    intro ts x rest r hj _ h hf
    have : j = 0 := by omega
    subst this
    simp [Fin] at hf; subst hf; exact h
  | succ m ih =>
    intro ts x rest r hj hm h hf
    by_cases hlt : m < j
    · have : j = m + 1 := by omega
      subst this
      simp [Fin, hlt] at hf; subst hf; exact h
    · simp only [Fin, hlt, if_false] at hf
      obtain ⟨x', rest', hl, hf'⟩ := hf
      exact ih (by omega) (by omega) (PL_step (by omega) h hl) hf'

theorem headOK_stops {c i : Nat} {rest : List Tok} (h : headOK c rest) (hi : c < i) : stopsAt i rest := by
  cases rest with
  | nil => trivial
  | cons t ts =>
    cases t with
    | op o => simp only [headOK] at h; simp only [stopsAt]; omega
    | atom n => trivial
    | lp => trivial
    | rp => trivial

theorem headOK_mono {c d : Nat} {rest : List Tok} (h : headOK c rest) (hcd : c ≤ d) : headOK d rest := by
  cases rest with
  | nil => trivial
  | cons t ts =>
    cases t with
    | op o => simp only [headOK] at h ⊢; omega
    | atom n => trivial
    | lp => trivial
    | rp => trivial

theorem Fin_le_inv {j m : Nat} {x : Ex} {rest : List Tok} {r} (h : m ≤ j) (hf : Fin j m x rest r) : r = (x, rest) := by
  cases m with
  | zero => simpa [Fin] using hf
  | succ m => have : m < j := by omega
              simpa [Fin, this] using hf

/-- loops that stop at once can be added in front -/
theorem Fin_extend {j : Nat} {x : Ex} {rest : List Tok} {r} :
    ∀ (d m : Nat), (∀ i, m ≤ i → i < m + d → stopsAt i rest) → Fin j m x rest r → Fin j (m + d) x rest r := by
  intro d
  induction d with
  | zero => intro m _ h; simpa using h
  | succ d ih =>
    intro m hs h
    have h' := ih m (fun i h1 h2 => hs i h1 (by omega)) h
    show Fin j (m + d + 1) x rest r
    by_cases hlt : m + d < j
    · have := Fin_le_inv (by omega) h'
      subst this
      simp [Fin, hlt]
    · simp only [Fin, hlt, if_false]
      exact ⟨x, rest, LP_stop (hs (m + d) (by omega) (by omega)), h'⟩

/-- a term followed by something that stops the loops above level `c`: the loops of the levels ≤ `c` decide -/
theorem PL_of_term {c j : Nat} {ts : List Tok} {e : Ex} {rest : List Tok} {r} (hc : c ≤ nLevels) (hj : j ≤ c)
    (ht : PT ts (e, rest)) (hok : headOK c rest) (hf : Fin j (min (c + 1) nLevels) e rest r) : PL j ts r := by
  have h6 : PL nLevels ts (e, rest) := PL_term (Nat.le_refl _) ht
  have hm : min (c + 1) nLevels ≤ nLevels := Nat.min_le_right _ _
  have hext := Fin_extend (j := j) (x := e) (rest := rest) (r := r) (nLevels - min (c + 1) nLevels) (min (c + 1) nLevels)
    (fun i h1 _ => headOK_stops hok (by
      have : min (c + 1) nLevels = c + 1 ∨ min (c + 1) nLevels = nLevels := by omega
      rcases this with h | h
      · omega
      · unfold nLevels at *; omega)) hf
  have e6 : min (c + 1) nLevels + (nLevels - min (c + 1) nLevels) = nLevels := by omega
  rw [e6] at hext
  exact PL_fin nLevels (by unfold nLevels at *; omega) (Nat.le_refl _) h6 hext

/-- **Every spelling parses back to its tree.**  Stated with what follows (`rest`) so that it composes:
    after the spelling of `e`, the loops of the levels `c, c-1, …, j` continue with `e` as their left operand. -/
theorem spelling_parses {c : Nat} {e : Ex} {ts : List Tok} (hs : Spelling c e ts) :
    c ≤ nLevels → ∀ j, j ≤ c → ∀ rest, headOK c rest → ∀ r, Fin j (min (c + 1) nLevels) e rest r → PL j (ts ++ rest) r := by
  induction hs with
  | atom c n =>
    intro hc j hj rest hok r hf
    exact PL_of_term hc hj (PT_atom n rest) hok hf
  | paren c e ts _ ih =>
    intro hc j hj rest hok r hf
    have inner : PL 0 (ts ++ .rp :: rest) (e, .rp :: rest) := by
      apply ih (by unfold nLevels; omega) 0 (Nat.le_refl _) (.rp :: rest) trivial
      show Fin 0 (min (0 + 1) nLevels) e (.rp :: rest) (e, .rp :: rest)
      have : min (0 + 1) nLevels = 1 := by unfold nLevels; omega
      rw [this]
      simp only [Fin, Nat.lt_irrefl, if_false]
      exact ⟨e, .rp :: rest, LP_stop trivial, rfl⟩
    have ht : PT (.lp :: (ts ++ .rp :: rest)) (e, rest) := PT_paren inner
    have eq : ([Tok.lp] ++ ts ++ [Tok.rp]) ++ rest = .lp :: (ts ++ .rp :: rest) := by simp
    rw [eq]
    exact PL_of_term hc hj ht hok hf
  | bin c o l r tl tr hco _ _ ihl ihr =>
    intro hc j hj rest hok R hf
    have hp : lvl o < nLevels := lvl_lt o
    have eq : (tl ++ [Tok.op o] ++ tr) ++ rest = tl ++ (.op o :: (tr ++ rest)) := by simp
    rw [eq]
    -- the right operand, at level p + 1
    have hr : PL (lvl o + 1) (tr ++ rest) (r, rest) := by
      apply ihr (by omega) (lvl o + 1) (Nat.le_refl _) rest (headOK_mono hok (by omega))
      by_cases h6 : lvl o + 1 = nLevels
      · have : min (lvl o + 1 + 1) nLevels = nLevels := by omega
        rw [this, ← h6]; exact Fin_le (Nat.le_refl _) r rest
      · have : min (lvl o + 1 + 1) nLevels = lvl o + 1 + 1 := by omega
        rw [this]
        exact Fin_extend 1 (lvl o + 1) (fun i h1 h2 => headOK_stops hok (by omega)) (Fin_le (Nat.le_refl _) r rest)
    -- the left operand, then the loop of level p takes the operator and the right operand
    apply ihl (by omega) j (by omega) (.op o :: (tr ++ rest)) (by simp only [headOK]; omega)
    have : min (lvl o + 1) nLevels = lvl o + 1 := by omega
    rw [this]
    have hnlt : ¬ lvl o < j := by omega
    simp only [Fin, hnlt, if_false]
    by_cases hcp : c = lvl o
    · -- the loop of this level goes on with what follows
      subst hcp
      have hm : min (lvl o + 1) nLevels = lvl o + 1 := by omega
      rw [hm] at hf
      simp only [Fin, hnlt, if_false] at hf
      obtain ⟨x, rest', hl, hf'⟩ := hf
      exact ⟨x, rest', LP_step rfl hr hl, hf'⟩
    · -- what follows belongs to a lower level: this loop stops after one round
      have hlt : c < lvl o := by omega
      have hm : min (c + 1) nLevels = c + 1 := by omega
      rw [hm] at hf
      refine ⟨.bin o l r, rest, LP_step rfl hr (LP_stop (headOK_stops hok hlt)), ?_⟩
      have := Fin_extend (j := j) (x := Ex.bin o l r) (rest := rest) (r := R) (lvl o - (c + 1)) (c + 1)
        (fun i h1 _ => headOK_stops hok (by omega)) hf
      have e2 : c + 1 + (lvl o - (c + 1)) = lvl o := by omega
      rw [e2] at this
      exact this

theorem pr_spelling (e : Ex) : ∀ c, Spelling c e (pr c e) := by
  induction e with
  | atom n => intro c; exact Spelling.atom c n
  | bin o l r ihl ihr =>
    intro c
    unfold pr
    by_cases h : lvl o < c
    · simp only [h, if_true]
      exact Spelling.paren c _ _ (Spelling.bin 0 o l r _ _ (Nat.zero_le _) (ihl _) (ihr _))
    · simp only [h, if_false]
      exact Spelling.bin c o l r _ _ (by omega) (ihl _) (ihr _)


end Havoc.Prec
