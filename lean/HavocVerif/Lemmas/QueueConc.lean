import HavocVerif.Model.QueueConc
/-
  Helper lemmas for the schedule theorems of C04: what a schedule executes of every thread.
-/
namespace Havoc

theorem mem_interleave {β : Type} (ts : List (List β)) (sched : List Nat) (op : β)
    (h : op ∈ interleave ts sched) : ∃ t ∈ ts, op ∈ t := by
  induction sched generalizing ts with
  | nil => simp [interleave] at h
  | cons i sched ih =>
    simp only [interleave] at h
    split at h
    · rename_i o rest hi
      have hmem : (o :: rest) ∈ ts := List.mem_of_getElem? hi
      rcases List.mem_cons.mp h with rfl | h'
      · exact ⟨_, hmem, by simp⟩
      · obtain ⟨t, ht, hop⟩ := ih _ h'
        rcases List.mem_or_eq_of_mem_set ht with ht' | rfl
        · exact ⟨t, ht', hop⟩
        · exact ⟨_, hmem, by simp [hop]⟩
    · exact ih _ h

/-- every thread's items carry the thread's own index as tag -/
def WellTagged {γ : Type} (ts : List (List (QOp (Nat × γ)))) : Prop :=
  ∀ (i : Nat) (t : List (QOp (Nat × γ))), ts[i]? = some t → ∀ x : Nat × γ, QOp.enqueue x ∈ t → x.1 = i

theorem wellTagged_set {γ : Type} (ts : List (List (QOp (Nat × γ)))) (j : Nat) (o : QOp (Nat × γ))
    (rest : List (QOp (Nat × γ))) (hj : ts[j]? = some (o :: rest)) (h : WellTagged ts) :
    WellTagged (ts.set j rest) := by
  unfold WellTagged at h ⊢
  intro i t hi x hx
  by_cases e : j = i
  · subst e
    have hlt : j < ts.length := by
      rcases List.getElem?_eq_some_iff.mp hj with ⟨hl, _⟩; exact hl
    rw [List.getElem?_set_self hlt] at hi
    cases hi
    exact h j _ hj x (by simp [hx])
  · rw [List.getElem?_set_ne e] at hi
    exact h i t hi x hx

/-- the tasks of producer `i` inside the global history are exactly what `i` has executed, in `i`'s order -/
theorem enq_filter {γ : Type} (ts : List (List (QOp (Nat × γ)))) (sched : List Nat) (i : Nat)
    (h : WellTagged ts) :
    (enqueuedOf (interleave ts sched)).filter (fun x => x.1 == i) = enqueuedOf (executed ts sched i) := by
  induction sched generalizing ts with
  | nil => simp [interleave, executed, enqueuedOf]
  | cons j sched ih =>
    have h0 := h
    unfold WellTagged at h
    simp only [interleave]
    split
    · rename_i o rest hj
      have ih' := ih (ts.set j rest) (wellTagged_set ts j o rest hj h0)
      have hlt : j < ts.length := (List.getElem?_eq_some_iff.mp hj).1
      by_cases e : j = i
      · subst e
        have ex1 : executed ts (j :: sched) j = o :: executed (ts.set j rest) sched j := by
          simp [executed, hj, List.getElem?_set_self hlt, List.take_succ_cons]
        rw [ex1]
        cases o with
        | enqueue x =>
          have hx : x.1 = j := h j _ hj x (by simp)
          simp [enqueuedOf, hx, ih']
        | checkin a => simpa [enqueuedOf] using ih'
        | clear => simpa [enqueuedOf] using ih'
      · have ex2 : executed ts (j :: sched) i = executed (ts.set j rest) sched i := by
          simp [executed, List.getElem?_set_ne e, e]
        rw [ex2]
        cases o with
        | enqueue x =>
          have hx : x.1 = j := h j _ hj x (by simp)
          have : (x.1 == i) = false := by simp [hx, e]
          simp [enqueuedOf, this, ih']
        | checkin a => simpa [enqueuedOf] using ih'
        | clear => simpa [enqueuedOf] using ih'
    · rename_i hno
      have ih' := ih ts h0
      by_cases e : j = i
      · subst e
        have hnil : enqueuedOf (executed ts (j :: sched) j) = [] ∧ enqueuedOf (executed ts sched j) = [] := by
          unfold executed
          cases hj : ts[j]? with
          | none => simp [enqueuedOf]
          | some t =>
            cases t with
            | nil => simp [enqueuedOf]
            | cons o rest => exact (hno o rest hj).elim
        rw [ih', hnil.1, hnil.2]
      · have ex2 : executed ts (j :: sched) i = executed ts sched i := by
          simp [executed, e]
        rw [ex2]; exact ih'

end Havoc
