import HavocVerif.Model.ParserGo
namespace Havoc
open Parser

theorem goSlice_ok (s : Bytes) (lo hi : Nat) (h1 : hi ≤ s.length) (h2 : lo ≤ hi) :
    goSlice s lo hi = .ok ((s.take hi).drop lo) := by
  unfold goSlice
  have : ¬ (hi > s.length ∨ lo > hi) := by omega
  simp [this]

theorem goSlice_prefix (s : Bytes) (n : Nat) (h : n ≤ s.length) : goSlice s 0 n = .ok (s.take n) := by
  rw [goSlice_ok s 0 n h (by omega)]; simp

theorem goSlice_suffix (s : Bytes) (n : Nat) (h : n ≤ s.length) : goSlice s n s.length = .ok (s.drop n) := by
  rw [goSlice_ok s n s.length (by omega) h]; simp

theorem parseInt32_refines (p : Parser) : ParserGo.parseInt32 p = .ok (Parser.parseInt32 p) := by
  unfold ParserGo.parseInt32 Parser.parseInt32
  by_cases h4 : p.length ≥ 4
  · simp only [h4, if_true]
    by_cases he : p.length = 4
    · simp only [he, if_true]
      have : goSlice p.buf 0 4 = .ok (p.buf.take 4) := goSlice_prefix _ _ (by simp [Parser.length] at he; omega)
      simp only [this, bind, Except.bind, pure, Except.pure]
      have hd : p.buf.drop 4 = [] := by
        apply List.drop_eq_nil_of_le; simp [Parser.length] at he; omega
      simp [hd]
    · simp only [he, if_false]
      have a : goSlice p.buf 0 4 = .ok (p.buf.take 4) := goSlice_prefix _ _ (by simp [Parser.length] at h4; omega)
      have b : goSlice p.buf 4 p.length = .ok (p.buf.drop 4) := goSlice_suffix _ _ (by simp [Parser.length] at h4; omega)
      simp only [a, b, bind, Except.bind, pure, Except.pure]
  · simp only [h4, if_false]; rfl

theorem parseInt64_refines (p : Parser) : ParserGo.parseInt64 p = .ok (Parser.parseInt64 p) := by
  unfold ParserGo.parseInt64 Parser.parseInt64
  by_cases h8 : p.length ≥ 8
  · simp only [h8, if_true]
    by_cases he : p.length = 8
    · simp only [he, if_true]
      have : goSlice p.buf 0 8 = .ok (p.buf.take 8) := goSlice_prefix _ _ (by simp [Parser.length] at he; omega)
      simp only [this, bind, Except.bind, pure, Except.pure]
      have hd : p.buf.drop 8 = [] := by
        apply List.drop_eq_nil_of_le; simp [Parser.length] at he; omega
      simp [hd]
    · simp only [he, if_false]
      have a : goSlice p.buf 0 8 = .ok (p.buf.take 8) := goSlice_prefix _ _ (by simp [Parser.length] at h8; omega)
      have b : goSlice p.buf 8 p.length = .ok (p.buf.drop 8) := goSlice_suffix _ _ (by simp [Parser.length] at h8; omega)
      simp only [a, b, bind, Except.bind, pure, Except.pure]
  · simp only [h8, if_false]; rfl

theorem parseBytes_refines (p : Parser) : ParserGo.parseBytes p = .ok (Parser.parseBytes p) := by
  unfold ParserGo.parseBytes Parser.parseBytes
  by_cases h4 : p.length ≥ 4
  · simp only [h4, if_true, parseInt32_refines, bind, Except.bind]
    generalize Parser.parseInt32 p = r
    obtain ⟨size, p1⟩ := r
    simp only
    by_cases hs : size > p1.length
    · simp only [hs, if_true]
      have a : goSlice p1.buf 0 p1.length = .ok p1.buf := by
        rw [goSlice_prefix _ _ (by simp [Parser.length])]; simp [Parser.length]
      have b : goSlice p1.buf p1.length p1.length = .ok [] := by
        rw [goSlice_ok _ _ _ (by simp [Parser.length]) (by omega)]; simp [Parser.length]
      simp only [a, b, pure, Except.pure]
    · simp only [hs, if_false]
      have a : goSlice p1.buf 0 size = .ok (p1.buf.take size) := goSlice_prefix _ _ (by simp [Parser.length] at hs; omega)
      have b : goSlice p1.buf size p1.length = .ok (p1.buf.drop size) :=
        goSlice_suffix _ _ (by simp [Parser.length] at hs; omega)
      simp only [a, b, pure, Except.pure]
  · simp only [h4, if_false]; rfl

theorem parseAtLeastBytes_refines (p : Parser) (n : Nat) :
    ParserGo.parseAtLeastBytes p n = .ok (Parser.parseAtLeastBytes p n) := by
  unfold ParserGo.parseAtLeastBytes Parser.parseAtLeastBytes
  by_cases hn : n > p.length
  · simp only [hn, if_true]
    have a : goSlice p.buf 0 p.length = .ok p.buf := by
      rw [goSlice_prefix _ _ (by simp [Parser.length])]; simp [Parser.length]
    have b : goSlice p.buf p.length p.length = .ok [] := by
      rw [goSlice_ok _ _ _ (by simp [Parser.length]) (by omega)]; simp [Parser.length]
    simp only [a, b, bind, Except.bind, pure, Except.pure]
  · simp only [hn, if_false]
    have a : goSlice p.buf 0 n = .ok (p.buf.take n) := goSlice_prefix _ _ (by simp [Parser.length] at hn; omega)
    have b : goSlice p.buf n p.length = .ok (p.buf.drop n) := goSlice_suffix _ _ (by simp [Parser.length] at hn; omega)
    simp only [a, b, bind, Except.bind, pure, Except.pure]

theorem canIReadFrom_refines (p : Parser) (ts : List ReadType) (n : Nat) :
    ParserGo.canIReadFrom p ts n = .ok (Parser.canIReadFrom p ts n) := by
  induction ts generalizing n with
  | nil => rfl
  | cons t ts ih =>
    cases t <;> simp only [ParserGo.canIReadFrom, Parser.canIReadFrom]
    case int32 =>
      split
      · rfl
      · exact ih _
    case bool =>
      split
      · rfl
      · exact ih _
    case int64 =>
      split
      · rfl
      · exact ih _
    case pointer =>
      split
      · rfl
      · exact ih _
    case bytes =>
      split
      · rfl
      · rename_i h
        have hs : goSlice p.buf n (n + 4) = .ok ((p.buf.drop n).take 4) := by
          rw [goSlice_ok _ _ _ (by simp [Parser.length] at h; omega) (by omega)]
          congr 1
          rw [List.drop_take]; simp
        simp only [hs, bind, Except.bind]
        split
        · rfl
        · exact ih _

end Havoc
