import HavocVerif.Model.Sessions
import HavocVerif.Lemmas.CanIReadIff
import HavocVerif.Lemmas.Payload
namespace Havoc
open Parser

def ReadType.fixedWidth : ReadType → Nat
  | .int32 | .bool => 4
  | .int64 | .pointer => 8
  | .bytes => 0

def fixedTotal (ts : List ReadType) : Nat := (ts.map ReadType.fixedWidth).sum

/-- for fixed-width kinds the pre-flight check is a plain length comparison -/
theorem canIReadFrom_fixed (p : Parser) (ts : List ReadType) (hfix : ∀ t ∈ ts, t ≠ .bytes) (n : Nat)
    (hn : n ≤ p.length) : canIReadFrom p ts n = true ↔ n + fixedTotal ts ≤ p.length := by
  induction ts generalizing n with
  | nil => simp [canIReadFrom, fixedTotal, hn]
  | cons t ts ih =>
    have ht := hfix t (by simp)
    have hts : ∀ x ∈ ts, x ≠ .bytes := fun x hx => hfix x (by simp [hx])
    cases t <;> simp only [canIReadFrom, fixedTotal, List.map_cons, List.sum_cons, ReadType.fixedWidth] at *
    case bytes => exact absurd rfl ht
    all_goals
      split
      · constructor
        · intro h; exact absurd h (by simp)
        · intro h; omega
      · rename_i hlt
        rw [ih hts _ (by omega)]
        omega

theorem be32_inj (a b : Nat) (ha : a < 4294967296) (hb : b < 4294967296) (h : be32 a = be32 b) : a = b := by
  have := congrArg beNat h
  rwa [beNat_be32 a ha, beNat_be32 b hb] at this

/-- peeling one reference-encoded field off the front -/
theorem holdsFields_cons_encode (f : Field) (hf : f.wf) (ts : List ReadType) (rest : Bytes) :
    holdsFields (f.kind :: ts) (f.encode ++ rest) ↔ holdsFields ts rest := by
  cases f with
  | int32 v =>
    simp only [Field.kind, Field.encode, holdsFields]
    constructor
    · rintro ⟨w, r, hw, he, h⟩
      have := List.append_inj he (by simp [hw])
      rw [← this.2] at h; exact h
    · intro h; exact ⟨be32 v, rest, rfl, rfl, h⟩
  | bool b =>
    simp only [Field.kind, Field.encode, holdsFields]
    constructor
    · rintro ⟨w, r, hw, he, h⟩
      have := List.append_inj he (by simp [hw])
      rw [← this.2] at h; exact h
    · intro h; exact ⟨_, rest, rfl, rfl, h⟩
  | int64 v =>
    simp only [Field.kind, Field.encode, holdsFields]
    constructor
    · rintro ⟨w, r, hw, he, h⟩
      have := List.append_inj he (by simp [hw])
      rw [← this.2] at h; exact h
    · intro h; exact ⟨be64 v, rest, rfl, rfl, h⟩
  | pointer v =>
    simp only [Field.kind, Field.encode, holdsFields]
    constructor
    · rintro ⟨w, r, hw, he, h⟩
      have := List.append_inj he (by simp [hw])
      rw [← this.2] at h; exact h
    · intro h; exact ⟨be64 v, rest, rfl, rfl, h⟩
  | bytes d =>
    have hd : d.length < 4294967296 := hf
    simp only [Field.kind, Field.encode, holdsFields]
    constructor
    · rintro ⟨d', r, hd', he, h⟩
      rw [List.append_assoc, List.append_assoc] at he
      have h1 := List.append_inj he (by simp)
      have hl : d.length = d'.length := be32_inj _ _ hd hd' h1.1
      have h2 := List.append_inj h1.2 hl
      rw [← h2.2] at h; exact h
    · intro h; exact ⟨d, rest, hd, rfl, h⟩

theorem holdsFields_encode_append (fs : List Field) (hfs : ∀ f ∈ fs, f.wf) (ts : List ReadType) (rest : Bytes) :
    holdsFields (fs.map Field.kind ++ ts) (encodeFields fs ++ rest) ↔ holdsFields ts rest := by
  induction fs with
  | nil => simp [encodeFields]
  | cons f fs ih =>
    have e : encodeFields (f :: fs) ++ rest = f.encode ++ (encodeFields fs ++ rest) := by
      simp [encodeFields]
    rw [e, List.map_cons, List.cons_append, holdsFields_cons_encode f (hfs f (by simp))]
    exact ih (fun g hg => hfs g (by simp [hg]))

theorem encodeFields_fixed_length (fs : List Field) (hk : ∀ f ∈ fs, f.kind ≠ .bytes) :
    (encodeFields fs).length = fixedTotal (fs.map Field.kind) := by
  induction fs with
  | nil => simp [encodeFields, fixedTotal]
  | cons f fs ih =>
    have hf := hk f (by simp)
    have := ih (fun g hg => hk g (by simp [hg]))
    simp only [encodeFields, List.flatMap_cons, List.length_append, fixedTotal, List.map_cons,
      List.sum_cons] at this ⊢
    cases f <;> simp_all [Field.kind, Field.encode, ReadType.fixedWidth, encodeFields, fixedTotal]

end Havoc
