import HavocVerif.Lemmas.Payload
namespace Havoc

def Job.wf (j : Job) : Prop :=
  j.command < 4294967296 ∧ j.requestId < 4294967296 ∧ j.body.length < 4294967296 ∧
    j.command ≠ Gen.Consts.COMMAND_NOJOB

/-- the ciphertext part of a frame -/
def Job.cipher (ks : KeyStream) (j : Job) : Bytes := if j.body.length > 0 then xcrypt ks j.body else []

theorem Job.cipher_length (ks : KeyStream) (j : Job) : (j.cipher ks).length = j.body.length := by
  unfold Job.cipher; split
  · simp
  · simp; omega

theorem Job.frame_eq (ks : KeyStream) (j : Job) (h : j.wf) :
    j.frame ks = le32 j.command ++ (le32 j.requestId ++ (le32 (j.cipher ks).length ++ j.cipher ks)) := by
  obtain ⟨h1, h2, h3, _⟩ := h
  rw [Job.cipher_length]
  simp [Job.frame, Job.cipher, Nat.mod_eq_of_lt h1, Nat.mod_eq_of_lt h2, Nat.mod_eq_of_lt h3]

theorem Job.frame_length (ks : KeyStream) (j : Job) : (j.frame ks).length ≥ 12 := by
  simp [Job.frame]; omega

theorem buildPayload_cons (ks : KeyStream) (j : Job) (js : List Job) :
    buildPayload ks (j :: js) = j.frame ks ++ buildPayload ks js := by
  simp [buildPayload]

theorem buildPayload_length (ks : KeyStream) (js : List Job) :
    (buildPayload ks js).length ≥ 12 * js.length := by
  induction js with
  | nil => simp [buildPayload]
  | cons j js ih =>
    rw [buildPayload_cons, List.length_append, List.length_cons]
    have := Job.frame_length ks j
    omega

theorem Job.plain_of_cipher (ks : KeyStream) (j : Job) :
    (if (j.cipher ks).length ≠ 0 then xcrypt ks (j.cipher ks) else []) = j.body := by
  rw [Job.cipher_length]
  unfold Job.cipher
  by_cases h : j.body.length > 0
  · have : j.body.length ≠ 0 := by omega
    simp only [h, this, if_true, ne_eq, not_false_eq_true, xcrypt_involutive]
  · have h0 : j.body.length = 0 := by omega
    have : j.body = [] := List.eq_nil_of_length_eq_zero h0
    simp [this]

/-- one iteration of the Demon loop over a well-formed frame -/
theorem demonLoop_frame (ks : KeyStream) (fuel : Nat) (j : Job) (rest : Bytes) (acc : List Task)
    (h : j.wf) :
    demonLoop ks (fuel + 1) (j.frame ks ++ rest) acc =
      if Gen.Demon.dispatcherContinue rest.length then demonLoop ks fuel rest (acc ++ [j.view])
      else some (acc ++ [j.view]) := by
  obtain ⟨h1, h2, h3, h4⟩ := h
  have hc : (j.cipher ks).length < 4294967296 := by rw [Job.cipher_length]; exact h3
  rw [Job.frame_eq ks j ⟨h1, h2, h3, h4⟩]
  simp only [demonLoop, List.append_assoc, cGetInt32_le _ _ h1, cGetInt32_le _ _ h2]
  have := cGetBytes_le (j.cipher ks) rest hc
  simp only [List.append_assoc] at this
  simp only [this, h4, ne_eq, not_false_eq_true, if_true, Job.plain_of_cipher]
  rfl

theorem demonLoop_jobs (ks : KeyStream) (hcont : ∀ n, n ≥ 12 → Gen.Demon.dispatcherContinue n = true)
    (hstop : Gen.Demon.dispatcherContinue 0 = false)
    (js : List Job) (j : Job) (fuel : Nat) (acc : List Task)
    (hf : fuel ≥ js.length) (h : ∀ x ∈ j :: js, x.wf) :
    demonLoop ks (fuel + 1) (buildPayload ks (j :: js)) acc = some (acc ++ (j :: js).map Job.view) := by
  induction js generalizing j fuel acc with
  | nil =>
    rw [buildPayload_cons, demonLoop_frame ks fuel j _ acc (h j (by simp))]
    simp [buildPayload, hstop]
  | cons k ks' ih =>
    rw [buildPayload_cons, demonLoop_frame ks fuel j _ acc (h j (by simp))]
    have hl : (buildPayload ks (k :: ks')).length ≥ 12 := by
      have := buildPayload_length ks (k :: ks'); simp at this; omega
    rw [hcont _ hl, if_pos rfl]
    cases fuel with
    | zero => simp at hf
    | succ fuel' =>
      have hf' : fuel' ≥ ks'.length := by simp at hf; omega
      rw [ih k fuel' (acc ++ [j.view]) hf' (fun x hx => h x (by simp at hx ⊢; right; exact hx))]
      simp

/-- regenerated fact: the Demon's task loop goes on while at least one frame header is left -/
theorem loop_continues (n : Nat) (h : n ≥ 12) : Gen.Demon.dispatcherContinue n = true := by
  simp [Gen.Demon.dispatcherContinue]; omega

theorem loop_stops : Gen.Demon.dispatcherContinue 0 = false := by
  simp [Gen.Demon.dispatcherContinue]

theorem dispatch_roundtrip (ks : KeyStream) (j : Job) (js : List Job) (h : ∀ x ∈ j :: js, x.wf) :
    demonDispatch ks (buildPayload ks (j :: js)) = some ((j :: js).map Job.view) := by
  unfold demonDispatch
  have hl := buildPayload_length ks (j :: js)
  have := demonLoop_jobs ks loop_continues loop_stops js j (buildPayload ks (j :: js)).length []
    (by simp at hl ⊢; omega) h
  simpa using this

end Havoc
