import HavocVerif.Lemmas.Sessions
namespace Havoc
open Parser

def strKinds : List ReadType := [.bytes, .bytes, .bytes, .bytes, .bytes]
def numKinds : List ReadType :=
  [.int32, .int32, .int32, .int32, .int32, .int64, .int32, .int32, .int32, .int32, .int32, .int32,
   .int32, .int32, .int64, .int32]
def guardTail : List ReadType :=
  [.int32, .int32, .int32, .int32, .int32, .int32, .int32, .int32, .int32, .int32, .int32, .int32,
   .int64, .int32]

theorem registerKinds_eq : registerKinds = .int32 :: (strKinds ++ numKinds) := rfl
theorem registerGuard_eq : registerGuard = (.int32 :: strKinds) ++ guardTail := rfl

theorem registerOf_id (hdrId : Nat) (key iv body : Bytes) (s : Session)
    (h : registerOf hdrId key iv body = some s) : s.id = hdrId ∧ s.key = key ∧ s.iv = iv := by
  unfold registerOf at h
  simp only at h
  split at h
  · split at h
    · split at h
      · rename_i hne
        simp only [Option.some.injEq] at h
        rw [← h]; exact ⟨hne.symm, rfl, rfl⟩
      · simp at h
    · simp at h
  · simp at h

theorem parseRegister_id (hdrId : Nat) (ksFor : Bytes → Bytes → KeyStream) (buf : Bytes) (s : Session)
    (h : parseRegister hdrId ksFor buf = some s) : s.id = hdrId := by
  unfold parseRegister at h
  split at h
  · simp at h
  · exact (registerOf_id _ _ _ _ _ h).1

theorem guard_of_encoded (id : Nat) (strs nums : List Field) (hid : id < 4294967296)
    (hs : strs.map Field.kind = strKinds) (hn : nums.map Field.kind = numKinds)
    (hwf : ∀ f ∈ strs ++ nums, f.wf) :
    canIRead ⟨encodeFields (.int32 id :: (strs ++ nums)), true⟩ registerGuard = true := by
  rw [canIRead_iff, registerGuard_eq]
  have e : encodeFields (.int32 id :: (strs ++ nums))
      = encodeFields (.int32 id :: strs) ++ encodeFields nums := by
    simp [encodeFields]
  have hk : (Field.int32 id :: strs).map Field.kind = .int32 :: strKinds := by simp [Field.kind, hs]
  rw [e, ← hk, holdsFields_encode_append _ (by
    intro f hf; simp at hf; rcases hf with rfl | hf
    · exact hid
    · exact hwf f (by simp [hf]))]
  rw [← canIRead_iff]
  have hnb : ∀ f ∈ nums, f.kind ≠ .bytes := by
    intro f hf hb
    have : f.kind ∈ nums.map Field.kind := List.mem_map_of_mem hf
    rw [hn, hb] at this
    simp [numKinds] at this
  have hl := encodeFields_fixed_length nums hnb
  rw [hn] at hl
  have := (canIReadFrom_fixed ⟨encodeFields nums, true⟩ guardTail (by decide) 0 (by simp)).mpr
    (by simp only [Parser.length, hl]; decide)
  exact this

end Havoc
