import HavocVerif.Model.Queue
namespace Havoc

/-- the chunks read off the list of start offsets tile `file.drop start` -/
theorem chunks_tile (chunk : Nat) (hc : chunk > 0) (file : Bytes) :
    ∀ (fuel start : Nat), start ≤ file.length → fuel ≥ file.length - start + 1 →
      ((chunkStarts chunk file.length fuel start).map
          fun s => (file.drop s).take (min chunk (file.length - s))).flatten = file.drop start := by
  intro fuel
  induction fuel with
  | zero => intro start _ hf; omega
  | succ fuel ih =>
    intro start hs hf
    simp only [chunkStarts, hs, if_true, List.map_cons, List.flatten_cons]
    by_cases hn : start + chunk ≤ file.length
    · rw [ih (start + chunk) hn (by omega)]
      have hm : min chunk (file.length - start) = chunk := by omega
      rw [hm]
      have : file.drop (start + chunk) = (file.drop start).drop chunk := by
        rw [List.drop_drop]
      rw [this, List.take_append_drop]
    · have hnil : chunkStarts chunk file.length fuel (start + chunk) = [] := by
        cases fuel with
        | zero => rfl
        | succ f => simp [chunkStarts, hn]
      rw [hnil]
      have hm : min chunk (file.length - start) = file.length - start := by omega
      rw [hm]
      simp only [List.flatten_nil, List.map_nil, List.append_nil]
      exact List.take_of_length_le (by simp)

theorem memFileChunks_concat (chunk : Nat) (hc : chunk > 0) (file : Bytes) :
    (memFileChunks chunk file).flatten = file := by
  have := chunks_tile chunk hc file (file.length + 1) 0 (by omega) (by omega)
  simpa [memFileChunks, chunkRanges, List.map_map, Function.comp_def] using this

theorem memFileChunks_le (chunk : Nat) (file : Bytes) :
    ∀ c ∈ memFileChunks chunk file, c.length ≤ chunk := by
  intro c hc
  simp only [memFileChunks, chunkRanges, List.map_map, List.mem_map, Function.comp_def] at hc
  obtain ⟨s, _, rfl⟩ := hc
  simp
  omega

theorem memFileChunks_nonempty (chunk : Nat) (file : Bytes) : memFileChunks chunk file ≠ [] := by
  simp [memFileChunks, chunkRanges, chunkStarts]

end Havoc
