import HavocVerif.Model.Utf16
namespace Havoc

theorem u16sOf_le16 (v : Nat) (rest : Bytes) (h : v < 65536) :
    u16sOf (le16 v ++ rest) = v :: u16sOf rest := by
  simp [le16, u16sOf, UInt8.toNat_ofNat']; omega

theorem u16sOf_units (us : List Nat) (h : ∀ u ∈ us, u < 65536) :
    u16sOf (us.flatMap le16) = us := by
  induction us with
  | nil => simp [u16sOf]
  | cons u us ih =>
    have hu := h u (by simp)
    have hus : ∀ x ∈ us, x < 65536 := fun x hx => h x (by simp [hx])
    simp only [List.flatMap_cons, u16sOf_le16 u _ hu, ih hus]

theorem utf16Units_lt (c : Nat) (hc : isScalar c = true) : ∀ u ∈ utf16Units c, u < 65536 := by
  simp [isScalar] at hc
  intro u hu
  unfold utf16Units at hu
  split at hu
  · simp at hu; omega
  · simp at hu; omega

theorem utf16Decode_units (c : Nat) (rest : List Nat) (hc : isScalar c = true) :
    utf16Decode (utf16Units c ++ rest) = c :: utf16Decode rest := by
  simp [isScalar] at hc
  unfold utf16Units
  split
  · rename_i h
    have h1 : isHighSurr c = false := by simp [isHighSurr]; omega
    have h2 : isLowSurr c = false := by simp [isLowSurr]; omega
    cases rest with
    | nil => simp [utf16Decode, h1, h2]
    | cons b rest => rw [List.singleton_append, utf16Decode]; simp [h1, h2]
  · rename_i h
    have h1 : isHighSurr (0xD800 + (c - 0x10000) / 1024) = true := by simp [isHighSurr]; omega
    have h2 : isLowSurr (0xDC00 + (c - 0x10000) % 1024) = true := by simp [isLowSurr]; omega
    show utf16Decode ((0xD800 + (c - 0x10000) / 1024) :: (0xDC00 + (c - 0x10000) % 1024) :: rest) = _
    rw [utf16Decode]
    simp only [h1, h2, Bool.and_self, if_true]
    have e : (0xD800 + (c - 0x10000) / 1024 - 0xD800) * 1024
        + (0xDC00 + (c - 0x10000) % 1024 - 0xDC00) + 0x10000 = c := by omega
    rw [e]

theorem utf16Decode_flatMap (cs : List Nat) (h : ∀ c ∈ cs, isScalar c = true) :
    utf16Decode (cs.flatMap utf16Units) = cs := by
  induction cs with
  | nil => simp [utf16Decode]
  | cons c cs ih =>
    have hc := h c (by simp)
    have hcs : ∀ x ∈ cs, isScalar x = true := fun x hx => h x (by simp [hx])
    rw [List.flatMap_cons, utf16Decode_units c _ hc, ih hcs]

/-- every Unicode string (incl. astral planes) survives UTF-16LE → `DecodeUTF16`. -/
theorem decodeUTF16_encode (cs : List Nat) (h : ∀ c ∈ cs, isScalar c = true) :
    decodeUTF16 (encodeUTF16LE cs) = cs := by
  unfold decodeUTF16 encodeUTF16LE
  rw [u16sOf_units, utf16Decode_flatMap cs h]
  intro u hu
  simp only [List.mem_flatMap] at hu
  obtain ⟨c, hc, hu⟩ := hu
  exact utf16Units_lt c (h c hc) u hu

/-- a trailing odd byte is ignored, never a fault -/
theorem decodeUTF16_odd (cs : List Nat) (x : UInt8) (h : ∀ c ∈ cs, isScalar c = true) :
    decodeUTF16 (encodeUTF16LE cs ++ [x]) = cs := by
  have key : ∀ us : List Nat, (∀ u ∈ us, u < 65536) → u16sOf (us.flatMap le16 ++ [x]) = us := by
    intro us hus
    induction us with
    | nil => simp [u16sOf]
    | cons u us ih =>
      have hu := hus u (by simp)
      have hr : ∀ y ∈ us, y < 65536 := fun y hy => hus y (by simp [hy])
      simp only [List.flatMap_cons, List.append_assoc, u16sOf_le16 u _ hu, ih hr]
  unfold decodeUTF16 encodeUTF16LE
  rw [key, utf16Decode_flatMap cs h]
  intro u hu
  simp only [List.mem_flatMap] at hu
  obtain ⟨c, hc, hu⟩ := hu
  exact utf16Units_lt c (h c hc) u hu

end Havoc
