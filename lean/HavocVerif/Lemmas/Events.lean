import HavocVerif.Model.Events
namespace Havoc

/-! basic facts about the primitives -/

@[simp] theorem emit_conns (s : Hub) (t : List Nat) (e : Ev) : (s.emit t e).conns = s.conns := rfl
@[simp] theorem emit_retained (s : Hub) (t : List Nat) (e : Ev) : (s.emit t e).retained = s.retained := rfl
@[simp] theorem emit_sessions (s : Hub) (t : List Nat) (e : Ev) : (s.emit t e).sessions = s.sessions := rfl
@[simp] theorem emit_listeners (s : Hub) (t : List Nat) (e : Ev) : (s.emit t e).listeners = s.listeners := rfl
@[simp] theorem emit_failed (s : Hub) (t : List Nat) (e : Ev) : (s.emit t e).failed = s.failed := rfl
@[simp] theorem broadcast_conns (s : Hub) (e : Ev) (x : Option Nat) : (s.broadcast e x).conns = s.conns := rfl
@[simp] theorem broadcast_retained (s : Hub) (e : Ev) (x : Option Nat) : (s.broadcast e x).retained = s.retained := rfl
@[simp] theorem broadcast_sessions (s : Hub) (e : Ev) (x : Option Nat) : (s.broadcast e x).sessions = s.sessions := rfl
@[simp] theorem broadcast_listeners (s : Hub) (e : Ev) (x : Option Nat) : (s.broadcast e x).listeners = s.listeners := rfl
@[simp] theorem broadcast_failed (s : Hub) (e : Ev) (x : Option Nat) : (s.broadcast e x).failed = s.failed := rfl
@[simp] theorem retain_conns (s : Hub) (e : Ev) : (s.retain e).conns = s.conns := rfl
@[simp] theorem retain_retained (s : Hub) (e : Ev) : (s.retain e).retained = s.retained ++ [e] := rfl
@[simp] theorem retain_sessions (s : Hub) (e : Ev) : (s.retain e).sessions = s.sessions := rfl
@[simp] theorem retain_listeners (s : Hub) (e : Ev) : (s.retain e).listeners = s.listeners := rfl
@[simp] theorem retain_failed (s : Hub) (e : Ev) : (s.retain e).failed = s.failed := rfl
@[simp] theorem retain_delivered (s : Hub) (e : Ev) : (s.retain e).delivered = s.delivered := rfl
@[simp] theorem setState_retained (s : Hub) (c : Nat) (st : HConn) : (s.setState c st).retained = s.retained := rfl
@[simp] theorem setState_sessions (s : Hub) (c : Nat) (st : HConn) : (s.setState c st).sessions = s.sessions := rfl
@[simp] theorem setState_listeners (s : Hub) (c : Nat) (st : HConn) : (s.setState c st).listeners = s.listeners := rfl
@[simp] theorem setState_failed (s : Hub) (c : Nat) (st : HConn) : (s.setState c st).failed = s.failed := rfl
@[simp] theorem setState_delivered (s : Hub) (c : Nat) (st : HConn) : (s.setState c st).delivered = s.delivered := rfl

theorem emitMany_conns (s : Hub) (c : Nat) (es : List Ev) : (s.emitMany c es).conns = s.conns := by
  unfold Hub.emitMany; split <;> rfl
theorem emitMany_retained (s : Hub) (c : Nat) (es : List Ev) : (s.emitMany c es).retained = s.retained := by
  unfold Hub.emitMany; split <;> rfl
theorem emitMany_sessions (s : Hub) (c : Nat) (es : List Ev) : (s.emitMany c es).sessions = s.sessions := by
  unfold Hub.emitMany; split <;> rfl
theorem emitMany_listeners (s : Hub) (c : Nat) (es : List Ev) : (s.emitMany c es).listeners = s.listeners := by
  unfold Hub.emitMany; split <;> rfl
theorem emitMany_failed (s : Hub) (c : Nat) (es : List Ev) : (s.emitMany c es).failed = s.failed := by
  unfold Hub.emitMany; split <;> rfl
attribute [simp] emitMany_conns emitMany_retained emitMany_sessions emitMany_listeners emitMany_failed

/-- what a connection received after an `emit` -/
theorem filter_fst_map (xs : List Nat) (e : Ev) (c : Nat) :
    ((xs.map fun x => (x, e)).filter (fun p => decide (p.1 = c))).map (·.2) = (xs.filter (· = c)).map fun _ => e := by
  induction xs with
  | nil => rfl
  | cons x xs ih =>
    by_cases h : x = c
    · simp only [List.map_cons, List.filter_cons, h, decide_true, if_true]
      rw [← h] at ih ⊢
      simpa using ih
    · simp only [List.map_cons, List.filter_cons, h, decide_false, Bool.false_eq_true, if_false]
      exact ih

/-- what a connection received after an `emit` -/
theorem received_emit (s : Hub) (t : List Nat) (e : Ev) (c : Nat) :
    (s.emit t e).received c = s.received c ++ ((t.filter fun x => !s.failed.contains x).filter (· = c)).map fun _ => e := by
  simp only [Hub.received, Hub.emit, List.filter_append, List.map_append]
  rw [filter_fst_map]

theorem filter_snd_map (es : List Ev) (d c : Nat) :
    ((es.map fun e => (d, e)).filter (fun p => decide (p.1 = c))).map (·.2) = if d = c then es else [] := by
  by_cases h : d = c
  · simp only [h, if_true]
    induction es with
    | nil => rfl
    | cons e es ih => simp only [List.map_cons, List.filter_cons, decide_true, if_true, ih]
  · simp only [h, if_false]
    induction es with
    | nil => rfl
    | cons e es ih => simp only [List.map_cons, List.filter_cons, h, decide_false, Bool.false_eq_true, if_false, ih]

theorem received_emitMany (s : Hub) (c d : Nat) (es : List Ev) :
    (s.emitMany d es).received c = s.received c ++ (if d = c ∧ s.failed.contains d = false then es else []) := by
  unfold Hub.emitMany
  cases hf : s.failed.contains d
  · simp only [Bool.false_eq_true, if_false, Hub.received, List.filter_append, List.map_append, and_true]
    rw [filter_snd_map]
  · simp

theorem received_retain (s : Hub) (e : Ev) (c : Nat) : (s.retain e).received c = s.received c := rfl
theorem received_setState (s : Hub) (d : Nat) (st : HConn) (c : Nat) : (s.setState d st).received c = s.received c := rfl

end Havoc

namespace Havoc

/-! ### two runs that differ only in whether connection `d`'s transport has failed -/

structure SameBut (d : Nat) (s t : Hub) : Prop where
  conns : t.conns = s.conns
  retained : t.retained = s.retained
  sessions : t.sessions = s.sessions
  listeners : t.listeners = s.listeners
  failed : ∀ x, x ≠ d → t.failed.contains x = s.failed.contains x
  delivered : t.delivered.filter (fun p => decide (p.1 ≠ d)) = s.delivered.filter (fun p => decide (p.1 ≠ d))

theorem SameBut.refl (d : Nat) (s : Hub) : SameBut d s s := ⟨rfl, rfl, rfl, rfl, fun _ _ => rfl, rfl⟩

theorem SameBut.stateOf {d : Nat} {s t : Hub} (h : SameBut d s t) (c : Nat) : t.stateOf c = s.stateOf c := by
  simp only [Hub.stateOf, h.conns]

theorem SameBut.authedIds {d : Nat} {s t : Hub} (h : SameBut d s t) : t.authedIds = s.authedIds := by
  simp only [Hub.authedIds, h.conns]

theorem SameBut.activeSessions {d : Nat} {s t : Hub} (h : SameBut d s t) : t.activeSessions = s.activeSessions := by
  simp only [Hub.activeSessions, h.sessions]

theorem SameBut.retain {d : Nat} {s t : Hub} (h : SameBut d s t) (e : Ev) : SameBut d (s.retain e) (t.retain e) :=
  ⟨h.conns, by simp [h.retained], h.sessions, h.listeners, h.failed, h.delivered⟩

theorem SameBut.setState {d : Nat} {s t : Hub} (h : SameBut d s t) (c : Nat) (st : HConn) :
    SameBut d (s.setState c st) (t.setState c st) :=
  ⟨by simp [Hub.setState, h.conns], h.retained, h.sessions, h.listeners, h.failed, h.delivered⟩

theorem filter_targets_gen (d : Nat) (p q : Nat → Bool) (e : Ev) (hpq : ∀ x, x ≠ d → p x = q x) (targets : List Nat) :
    ((targets.filter p).map fun c => (c, e)).filter (fun r => decide (r.1 ≠ d)) =
    ((targets.filter q).map fun c => (c, e)).filter (fun r => decide (r.1 ≠ d)) := by
  induction targets with
  | nil => rfl
  | cons x xs ih =>
    by_cases hx : x = d
    · have drop : ∀ l : List (Nat × Ev), ((x, e) :: l).filter (fun r => decide (r.1 ≠ d)) = l.filter (fun r => decide (r.1 ≠ d)) := by
        intro l; simp [List.filter_cons, hx]
      cases h1 : p x <;> cases h2 : q x <;>
        simp only [List.filter_cons, h1, h2, Bool.false_eq_true, if_false, if_true, List.map_cons, drop] <;> exact ih
    · have := hpq x hx
      cases h2 : q x <;> simp only [List.filter_cons, this, h2, Bool.false_eq_true, if_false, if_true, List.map_cons, ih]

theorem filter_targets (d : Nat) (fs ft : List Nat) (e : Ev) (hf : ∀ x, x ≠ d → ft.contains x = fs.contains x) (targets : List Nat) :
    ((targets.filter fun c => !ft.contains c).map fun c => (c, e)).filter (fun p => decide (p.1 ≠ d)) =
    ((targets.filter fun c => !fs.contains c).map fun c => (c, e)).filter (fun p => decide (p.1 ≠ d)) :=
  filter_targets_gen d _ _ e (fun x hx => by rw [hf x hx]) targets

theorem SameBut.emit {d : Nat} {s t : Hub} (h : SameBut d s t) (targets : List Nat) (e : Ev) :
    SameBut d (s.emit targets e) (t.emit targets e) := by
  refine ⟨h.conns, h.retained, h.sessions, h.listeners, h.failed, ?_⟩
  simp only [Hub.emit, List.filter_append, h.delivered]
  rw [filter_targets d s.failed t.failed e h.failed targets]

theorem SameBut.broadcast {d : Nat} {s t : Hub} (h : SameBut d s t) (e : Ev) (ex : Option Nat) :
    SameBut d (s.broadcast e ex) (t.broadcast e ex) := by
  unfold Hub.broadcast; rw [h.authedIds]; exact h.emit _ e

theorem SameBut.emitMany {d : Nat} {s t : Hub} (h : SameBut d s t) (c : Nat) (es : List Ev) :
    SameBut d (s.emitMany c es) (t.emitMany c es) := by
  refine ⟨by simp [h.conns], by simp [h.retained], by simp [h.sessions], by simp [h.listeners], by simpa using h.failed, ?_⟩
  by_cases hc : c = d
  · subst hc
    have drop : ∀ (D : List (Nat × Ev)), (D ++ es.map fun e => (c, e)).filter (fun p => decide (p.1 ≠ c)) = D.filter (fun p => decide (p.1 ≠ c)) := by
      intro D
      rw [List.filter_append]
      have : (es.map fun e => (c, e)).filter (fun p => decide (p.1 ≠ c)) = [] := by
        rw [List.filter_eq_nil_iff]; intro p hp; simp only [List.mem_map] at hp; obtain ⟨e, _, rfl⟩ := hp; simp
      rw [this, List.append_nil]
    unfold Hub.emitMany
    split <;> split <;> (try simp only [drop]) <;> exact h.delivered
  · have := h.failed c hc
    unfold Hub.emitMany
    rw [this]
    split
    · exact h.delivered
    · simp only [List.filter_append, h.delivered]

end Havoc
