import HavocVerif.Lemmas.Parser
namespace Havoc
open Parser

theorem be32_beNat (bs : Bytes) (h : bs.length = 4) : be32 (beNat bs) = bs := by
  match bs, h with
  | [a, b, c, d], _ =>
    have ha := UInt8.toNat_lt a; have hb := UInt8.toNat_lt b
    have hc := UInt8.toNat_lt c; have hd := UInt8.toNat_lt d
    simp only [be32, beNat, List.foldl]
    congr 1
    · apply UInt8.toNat_inj.mp; (simp [UInt8.toNat_ofNat'] <;> omega)
    congr 1
    · apply UInt8.toNat_inj.mp; (simp [UInt8.toNat_ofNat'] <;> omega)
    congr 1
    · apply UInt8.toNat_inj.mp; (simp [UInt8.toNat_ofNat'] <;> omega)
    congr 1
    · apply UInt8.toNat_inj.mp; (simp [UInt8.toNat_ofNat'] <;> omega)

theorem beNat_lt_4 (bs : Bytes) (h : bs.length = 4) : beNat bs < 4294967296 := by
  have := beNat_lt bs; rw [h] at this; simpa using this

theorem beNat_lt_8 (bs : Bytes) (h : bs.length = 8) : beNat bs < 18446744073709551616 := by
  have := beNat_lt bs; rw [h] at this; simpa using this

theorem beNat_append (a b : Bytes) : beNat (a ++ b) = beNat a * 256 ^ b.length + beNat b := by
  suffices h : ∀ (acc : Nat),
      (a ++ b).foldl (fun acc x => acc * 256 + x.toNat) acc
        = (a.foldl (fun acc x => acc * 256 + x.toNat) acc) * 256 ^ b.length + beNat b by
    simpa [beNat] using h 0
  intro acc
  rw [List.foldl_append]
  generalize a.foldl (fun acc x => acc * 256 + x.toNat) acc = k
  induction b generalizing k with
  | nil => simp [beNat]
  | cons x xs ih =>
    simp only [List.foldl, List.length_cons, beNat]
    rw [ih (k * 256 + x.toNat)]
    have e2 : List.foldl (fun acc x => acc * 256 + x.toNat) (0 * 256 + x.toNat) xs
        = (0 * 256 + x.toNat) * 256 ^ xs.length + beNat xs := ih _
    rw [e2]
    simp [Nat.pow_succ, Nat.add_mul, Nat.mul_assoc, Nat.add_assoc, Nat.mul_comm 256]

theorem be64_beNat (bs : Bytes) (h : bs.length = 8) : be64 (beNat bs) = bs := by
  have e : bs = bs.take 4 ++ bs.drop 4 := (List.take_append_drop 4 bs).symm
  have h1 : (bs.take 4).length = 4 := by simp [h]
  have h2 : (bs.drop 4).length = 4 := by simp [h]
  have l1 := beNat_lt_4 _ h1
  have l2 := beNat_lt_4 _ h2
  have v : beNat bs = beNat (bs.take 4) * 4294967296 + beNat (bs.drop 4) := by
    conv => lhs; rw [e]
    rw [beNat_append, h2]
  have q1 : (beNat bs) / 4294967296 % 4294967296 = beNat (bs.take 4) := by omega
  have q2 : (beNat bs) % 4294967296 = beNat (bs.drop 4) := by omega
  unfold be64
  rw [q1, q2, be32_beNat _ h1, be32_beNat _ h2]
  exact e.symm

/-- shifting the cursor of `CanIRead` = dropping a prefix of the buffer -/
theorem canIReadFrom_shift (buf : Bytes) (be : Bool) (ts : List ReadType) (n m : Nat)
    (hn : n ≤ buf.length) :
    canIReadFrom ⟨buf, be⟩ ts (n + m) = canIReadFrom ⟨buf.drop n, be⟩ ts m := by
  induction ts generalizing m with
  | nil => simp [canIReadFrom]
  | cons t ts ih =>
    cases t <;> simp only [canIReadFrom, Parser.length, List.length_drop, Parser.u32]
    case int32 =>
      have := ih (m + 4); simp only [← Nat.add_assoc] at this
      rw [this]; congr 1; simp; omega
    case bool =>
      have := ih (m + 4); simp only [← Nat.add_assoc] at this
      rw [this]; congr 1; simp; omega
    case int64 =>
      have := ih (m + 8); simp only [← Nat.add_assoc] at this
      rw [this]; congr 1; simp; omega
    case pointer =>
      have := ih (m + 8); simp only [← Nat.add_assoc] at this
      rw [this]; congr 1; simp; omega
    case bytes =>
      have e : List.drop m (List.drop n buf) = List.drop (n + m) buf := by
        rw [List.drop_drop]
      rw [e]
      generalize (if be = true then beNat (List.take 4 (List.drop (n + m) buf))
        else leNat (List.take 4 (List.drop (n + m) buf))) = number
      have := ih (m + 4 + number); simp only [← Nat.add_assoc] at this
      rw [this]
      have c1 : (buf.length - (n + m) < 4) = (buf.length - n - m < 4) := by
        simp; omega
      have c2 : (buf.length - (n + m + 4) < number) = (buf.length - n - (m + 4) < number) := by
        simp; omega
      simp only [c1, c2]

theorem canIRead_cons_drop (buf : Bytes) (be : Bool) (ts : List ReadType) (n : Nat)
    (hn : n ≤ buf.length) :
    canIReadFrom ⟨buf, be⟩ ts n = canIRead ⟨buf.drop n, be⟩ ts := by
  have := canIReadFrom_shift buf be ts n 0 hn
  simpa [canIRead] using this

end Havoc
