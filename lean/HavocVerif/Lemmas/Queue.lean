import HavocVerif.Model.Queue
namespace Havoc

section
variable {α : Type} (size : α → Nat)

theorem countJobsBy_acc (maxLen : Nat) (q : List α) (sz num : Nat) :
    countJobsBy size maxLen q sz num = num + countJobsBy size maxLen q sz 0 := by
  induction q generalizing sz num with
  | nil => simp [countJobsBy]
  | cons j js ih =>
    simp only [countJobsBy]
    split
    · simp
    · rw [ih (sz + size j) (num + 1), ih (sz + size j) (0 + 1)]; omega

theorem countJobsBy_le (maxLen : Nat) (q : List α) (sz : Nat) :
    countJobsBy size maxLen q sz 0 ≤ q.length := by
  induction q generalizing sz with
  | nil => simp [countJobsBy]
  | cons j js ih =>
    simp only [countJobsBy]
    split
    · simp
    · rw [countJobsBy_acc]; have := ih (sz + size j); simp; omega

/-- the jobs counted by the loop stay strictly under the limit (cumulatively) -/
theorem countJobsBy_sum (maxLen : Nat) (q : List α) (sz : Nat) :
    countJobsBy size maxLen q sz 0 = 0 ∨
      sz + ((q.take (countJobsBy size maxLen q sz 0)).map size).sum < maxLen := by
  induction q generalizing sz with
  | nil => left; simp [countJobsBy]
  | cons j js ih =>
    simp only [countJobsBy]
    split
    · left; rfl
    · rename_i h
      right
      rw [countJobsBy_acc]
      have e : 0 + 1 + countJobsBy size maxLen js (sz + size j) 0
          = countJobsBy size maxLen js (sz + size j) 0 + 1 := by omega
      rw [e, List.take_succ_cons, List.map_cons, List.sum_cons]
      rcases ih (sz + size j) with h0 | hlt
      · rw [h0]; simp; omega
      · omega

/-- the loop stops only because the next job would reach the limit -/
theorem countJobsBy_maximal (maxLen : Nat) (q : List α) (sz : Nat) :
    countJobsBy size maxLen q sz 0 = q.length ∨
      ∃ j, q[countJobsBy size maxLen q sz 0]? = some j ∧
        sz + ((q.take (countJobsBy size maxLen q sz 0)).map size).sum + size j ≥ maxLen := by
  induction q generalizing sz with
  | nil => left; simp [countJobsBy]
  | cons j js ih =>
    simp only [countJobsBy]
    split
    · rename_i h; right; exact ⟨j, by simp, by simpa using h⟩
    · rw [countJobsBy_acc]
      have e : 0 + 1 + countJobsBy size maxLen js (sz + size j) 0
          = countJobsBy size maxLen js (sz + size j) 0 + 1 := by omega
      rw [e]
      rcases ih (sz + size j) with hall | ⟨k, hk, hs⟩
      · left; simp [hall]
      · right
        refine ⟨k, by simpa using hk, ?_⟩
        rw [List.take_succ_cons, List.map_cons, List.sum_cons]; omega

theorem getQueuedBy_partition (maxLen : Nat) (q : List α) :
    (getQueuedBy size maxLen q).1 ++ (getQueuedBy size maxLen q).2 = q := by
  simp [getQueuedBy]

theorem numJobsBy_pos (maxLen : Nat) (q : List α) (h : q ≠ []) : numJobsBy size maxLen q ≥ 1 := by
  unfold numJobsBy
  have : q.length > 0 := List.length_pos_iff.mpr h
  simp only
  split <;> omega

theorem numJobsBy_le (maxLen : Nat) (q : List α) : numJobsBy size maxLen q ≤ q.length := by
  unfold numJobsBy
  have := countJobsBy_le size maxLen q 0
  simp only
  split <;> omega

theorem getQueuedBy_nonempty (maxLen : Nat) (q : List α) (h : q ≠ []) :
    (getQueuedBy size maxLen q).1 ≠ [] := by
  have h1 := numJobsBy_pos size maxLen q h
  have : q.length > 0 := List.length_pos_iff.mpr h
  intro e
  have hl : ((getQueuedBy size maxLen q).1).length = min (numJobsBy size maxLen q) q.length := by
    simp [getQueuedBy]
  rw [e] at hl
  simp only [List.length_nil] at hl
  omega

/-- a reply stays under the limit, unless it is a single (oversized) job -/
theorem getQueuedBy_bound (maxLen : Nat) (q : List α) :
    (((getQueuedBy size maxLen q).1).map size).sum < maxLen ∨ (getQueuedBy size maxLen q).1.length ≤ 1 := by
  unfold getQueuedBy numJobsBy
  simp only
  split
  · right; simp; omega
  · rcases countJobsBy_sum size maxLen q 0 with h0 | hlt
    · right; simp [h0]
    · left; simpa using hlt

theorem getQueuedBy_big_alone (maxLen : Nat) (j : α) (js : List α) (h : size j ≥ maxLen) :
    getQueuedBy size maxLen (j :: js) = ([j], js) := by
  have : countJobsBy size maxLen (j :: js) 0 0 = 0 := by simp [countJobsBy, h]
  simp [getQueuedBy, numJobsBy, this]
end

/-! ### history: exactly once, in order -/

inductive QOp (α : Type) where
  | enqueue (j : α)
  | checkin (asked : Bool)
  | clear

structure QState (α : Type) where
  queue : List α := []
  delivered : List α := []   -- everything handed out so far, in hand-out order
  enqueued : List α := []    -- everything ever queued, in queueing order
  cleared : List α := []     -- jobs dropped by an operator's `task clear`

def qstep {α : Type} (size : α → Nat) (s : QState α) : QOp α → QState α
  | .enqueue j => { s with queue := s.queue ++ [j], enqueued := s.enqueued ++ [j] }
  | .checkin asked =>
    match checkinBy size asked s.queue with
    | (none, r) => { s with queue := r }
    | (some b, r) => { s with queue := r, delivered := s.delivered ++ b }
  | .clear => { s with queue := [], cleared := s.cleared ++ s.queue }

def qrun {α : Type} (size : α → Nat) (ops : List (QOp α)) : QState α :=
  ops.foldl (qstep size) {}

theorem checkinBy_partition {α : Type} (size : α → Nat) (asked : Bool) (q : List α) :
    ((checkinBy size asked q).1.getD []) ++ (checkinBy size asked q).2 = q := by
  unfold checkinBy
  split
  · simp
  · simp [getQueuedBy]

/-- without `clear`: delivered ++ queue = enqueued after every history -/
theorem qstep_inv {α : Type} (size : α → Nat) (s : QState α) (op : QOp α)
    (hop : ∀ (h : op = .clear), False)
    (h : s.delivered ++ s.queue = s.enqueued) :
    (qstep size s op).delivered ++ (qstep size s op).queue = (qstep size s op).enqueued := by
  cases op with
  | enqueue j => simp [qstep, ← h]
  | clear => exact (hop rfl).elim
  | checkin asked =>
    have p := checkinBy_partition size asked s.queue
    simp only [qstep]
    split
    · rename_i r e; rw [e] at p; simp at p; simp [p, h]
    · rename_i b r e; rw [e] at p; simp at p; simp [List.append_assoc, p, h]

end Havoc
