import HavocVerif.Lemmas.CanIRead
import HavocVerif.Lemmas.Parser
import HavocVerif.Spec.C03
namespace Havoc
open Parser

/-- "the packet holds the fields": the buffer starts with a well-formed big-endian
    encoding of one field of each listed kind (whatever follows). -/
def holdsFields : List ReadType → Bytes → Prop
  | [], _ => True
  | .int32 :: ts, buf => ∃ w rest, w.length = 4 ∧ buf = w ++ rest ∧ holdsFields ts rest
  | .bool :: ts, buf => ∃ w rest, w.length = 4 ∧ buf = w ++ rest ∧ holdsFields ts rest
  | .int64 :: ts, buf => ∃ w rest, w.length = 8 ∧ buf = w ++ rest ∧ holdsFields ts rest
  | .pointer :: ts, buf => ∃ w rest, w.length = 8 ∧ buf = w ++ rest ∧ holdsFields ts rest
  | .bytes :: ts, buf => ∃ d rest, d.length < 4294967296 ∧ buf = be32 d.length ++ d ++ rest
      ∧ holdsFields ts rest

theorem canIRead_nil (p : Parser) : canIRead p [] = true := rfl

private theorem fixed_step (buf : Bytes) (ts : List ReadType) (k : Nat) :
    (if buf.length - 0 < k then false else canIReadFrom ⟨buf, true⟩ ts (0 + k)) = true
      ↔ ∃ w rest, w.length = k ∧ buf = w ++ rest ∧ canIRead ⟨rest, true⟩ ts = true := by
  constructor
  · intro h
    by_cases hk : buf.length - 0 < k
    · exfalso; simp at h; omega
    · simp only [hk, if_false] at h
      have hle : k ≤ buf.length := by omega
      rw [Nat.zero_add, canIRead_cons_drop buf true ts k hle] at h
      exact ⟨buf.take k, buf.drop k, by simp; omega, (List.take_append_drop k buf).symm, h⟩
  · rintro ⟨w, rest, hw, rfl, h⟩
    have hk : ¬ ((w ++ rest).length - 0 < k) := by simp; omega
    simp only [hk, if_false]
    rw [Nat.zero_add, canIRead_cons_drop _ true ts k (by simp; omega)]
    simpa [← hw] using h

theorem canIRead_iff (ts : List ReadType) (buf : Bytes) :
    canIRead ⟨buf, true⟩ ts = true ↔ holdsFields ts buf := by
  induction ts generalizing buf with
  | nil => simp [canIRead_nil, holdsFields]
  | cons t ts ih =>
    cases t
    case int32 =>
      simp only [holdsFields, ← ih]
      exact fixed_step buf ts 4
    case bool =>
      simp only [holdsFields, ← ih]
      exact fixed_step buf ts 4
    case int64 =>
      simp only [holdsFields, ← ih]
      exact fixed_step buf ts 8
    case pointer =>
      simp only [holdsFields, ← ih]
      exact fixed_step buf ts 8
    case bytes =>
      simp only [holdsFields, ← ih]
      simp only [canIRead, canIReadFrom, Parser.length, Parser.u32, if_true, List.drop_zero]
      constructor
      · intro h
        by_cases h4 : buf.length - 0 < 4
        · exfalso; simp at h; omega
        · simp only [h4, if_false] at h
          by_cases hn : buf.length - (0 + 4) < beNat (buf.take 4)
          · exfalso; simp at h; omega
          · simp only [hn, if_false] at h
            have t4 : (buf.take 4).length = 4 := by simp; omega
            have hlt := beNat_lt_4 _ t4
            have hle : 0 + 4 + beNat (buf.take 4) ≤ buf.length := by omega
            rw [canIRead_cons_drop buf true ts _ hle] at h
            refine ⟨(buf.drop 4).take (beNat (buf.take 4)), buf.drop (0 + 4 + beNat (buf.take 4)), ?_, ?_, h⟩
            · simp <;> omega
            · have l : ((buf.drop 4).take (beNat (buf.take 4))).length = beNat (buf.take 4) := by
                simp <;> omega
              rw [l, be32_beNat _ t4]
              have e1 : buf = buf.take 4 ++ buf.drop 4 := (List.take_append_drop 4 buf).symm
              have e2 : buf.drop 4 = (buf.drop 4).take (beNat (buf.take 4)) ++
                  (buf.drop 4).drop (beNat (buf.take 4)) := (List.take_append_drop _ _).symm
              have e3 : (buf.drop 4).drop (beNat (buf.take 4)) = buf.drop (0 + 4 + beNat (buf.take 4)) := by
                rw [List.drop_drop]
              rw [← e3, List.append_assoc, ← e2, ← e1]
      · rintro ⟨d, rest, hd, rfl, h⟩
        have t4 : (be32 d.length ++ d ++ rest).take 4 = be32 d.length := by simp [be32]
        have h4 : ¬ ((be32 d.length ++ d ++ rest).length - 0 < 4) := by simp
        have hn : ¬ ((be32 d.length ++ d ++ rest).length - (0 + 4) < beNat (be32 d.length)) := by
          rw [beNat_be32 _ hd]; simp
        simp only [h4, if_false, t4, hn]
        rw [canIRead_cons_drop _ true ts _ (by rw [beNat_be32 _ hd]; simp)]
        rw [beNat_be32 _ hd]
        have : (be32 d.length ++ d ++ rest).drop (0 + 4 + d.length) = rest :=
          List.drop_left' (by simp)
        rw [this]; exact h

theorem holdsFields_encode (fs : List Field) (rest : Bytes) (h : ∀ f ∈ fs, f.wf) :
    holdsFields (fs.map Field.kind) (encodeFields fs ++ rest) := by
  induction fs with
  | nil => simp [holdsFields]
  | cons f fs ih =>
    have hf : f.wf := h f (by simp)
    have hfs : ∀ g ∈ fs, g.wf := fun g hg => h g (by simp [hg])
    have e : encodeFields (f :: fs) ++ rest = f.encode ++ (encodeFields fs ++ rest) := by
      simp [encodeFields]
    rw [e]
    cases f with
    | int32 v => exact ⟨be32 v, _, rfl, rfl, ih hfs⟩
    | int64 v => exact ⟨be64 v, _, rfl, rfl, ih hfs⟩
    | pointer v => exact ⟨be64 v, _, rfl, rfl, ih hfs⟩
    | bool b => exact ⟨be32 (if b then 1 else 0), _, rfl, rfl, ih hfs⟩
    | bytes d => exact ⟨d, _, hf, by simp [Field.encode], ih hfs⟩


open SpecC03 in
section
private theorem fixedB (k : Nat) (buf : Bytes) (P : Bytes → Prop) :
    (k ≤ buf.length ∧ P (buf.drop k)) ↔ ∃ w rest, w.length = k ∧ buf = w ++ rest ∧ P rest := by
  constructor
  · rintro ⟨h, hp⟩
    exact ⟨buf.take k, buf.drop k, by simp [List.length_take]; omega, by simp, hp⟩
  · rintro ⟨w, rest, hw, rfl, hp⟩
    refine ⟨by simp; omega, ?_⟩
    have : (w ++ rest).drop k = rest := by rw [← hw]; simp
    rw [this]; exact hp

theorem holdsFieldsB_iff (ts : List ReadType) (buf : Bytes) :
    holdsFieldsB ts buf = true ↔ holdsFields ts buf := by
  induction ts generalizing buf with
  | nil => simp [holdsFieldsB, holdsFields]
  | cons t ts ih =>
    cases t
    case int32 => simp only [holdsFieldsB, holdsFields, Bool.and_eq_true, decide_eq_true_eq, ih]; exact fixedB 4 buf _
    case bool => simp only [holdsFieldsB, holdsFields, Bool.and_eq_true, decide_eq_true_eq, ih]; exact fixedB 4 buf _
    case int64 => simp only [holdsFieldsB, holdsFields, Bool.and_eq_true, decide_eq_true_eq, ih]; exact fixedB 8 buf _
    case pointer => simp only [holdsFieldsB, holdsFields, Bool.and_eq_true, decide_eq_true_eq, ih]; exact fixedB 8 buf _
    case bytes =>
      simp only [holdsFieldsB, holdsFields, Bool.and_eq_true, decide_eq_true_eq, ih]
      constructor
      · rintro ⟨⟨h4, hn⟩, hp⟩
        have ht : (buf.take 4).length = 4 := by simp [List.length_take]; omega
        refine ⟨(buf.drop 4).take (beNat (buf.take 4)), buf.drop (4 + beNat (buf.take 4)), ?_, ?_, hp⟩
        · have := beNat_lt_4 _ ht
          simp [List.length_take]; omega
        · have hl : ((buf.drop 4).take (beNat (buf.take 4))).length = beNat (buf.take 4) := by
            simp [List.length_take]; omega
          rw [hl, be32_beNat _ ht]
          have : buf.drop (4 + beNat (buf.take 4)) = (buf.drop 4).drop (beNat (buf.take 4)) := by
            rw [List.drop_drop]
          rw [this, List.append_assoc, List.take_append_drop, List.take_append_drop]
      · rintro ⟨d, rest, hd, rfl, hp⟩
        have t4 : (be32 d.length ++ d ++ rest).take 4 = be32 d.length := by
          rw [List.append_assoc]; exact take4_be32_append _ _
        rw [t4, beNat_be32 _ hd]
        refine ⟨⟨by simp, by simp⟩, ?_⟩
        have : (be32 d.length ++ d ++ rest).drop (4 + d.length) = rest := by
          have hl : (be32 d.length ++ d).length = 4 + d.length := by simp
          rw [← hl, List.drop_left]
        rw [this]; exact hp

/-- the pre-flight check of the model agrees with the executable spec -/
theorem canIRead_eq_holdsFieldsB (ts : List ReadType) (buf : Bytes) :
    canIRead ⟨buf, true⟩ ts = holdsFieldsB ts buf := by
  have h1 := canIRead_iff ts buf
  have h2 := holdsFieldsB_iff ts buf
  cases hc : canIRead ⟨buf, true⟩ ts <;> cases hb : holdsFieldsB ts buf <;> simp_all
end

end Havoc
