import HavocVerif.Model.Parser
namespace Havoc
open Parser

theorem take4_be32_append (v : Nat) (rest : Bytes) : (be32 v ++ rest).take 4 = be32 v := by
  simp [be32]
theorem drop4_be32_append (v : Nat) (rest : Bytes) : (be32 v ++ rest).drop 4 = rest := by
  simp [be32]

theorem take8_be64_append (v : Nat) (rest : Bytes) : (be64 v ++ rest).take 8 = be64 v := by
  simp [be64, be32]
theorem drop8_be64_append (v : Nat) (rest : Bytes) : (be64 v ++ rest).drop 8 = rest := by
  simp [be64, be32]

theorem parseInt32_be (v : Nat) (rest : Bytes) (h : v < 4294967296) :
    parseInt32 ⟨be32 v ++ rest, true⟩ = (v, ⟨rest, true⟩) := by
  simp [parseInt32, Parser.length, Parser.u32, take4_be32_append, drop4_be32_append, beNat_be32 v h]

theorem parseInt64_be (v : Nat) (rest : Bytes) (h : v < 18446744073709551616) :
    parseInt64 ⟨be64 v ++ rest, true⟩ = (v, ⟨rest, true⟩) := by
  simp [parseInt64, Parser.length, Parser.u32, take8_be64_append, drop8_be64_append, beNat_be64 v h]

theorem parseBool_be (b : Bool) (rest : Bytes) :
    parseBool ⟨be32 (if b then 1 else 0) ++ rest, true⟩ = (b, ⟨rest, true⟩) := by
  cases b <;> simp [parseBool, parseInt32_be]

theorem parseBytes_be (d rest : Bytes) (h : d.length < 4294967296) :
    parseBytes ⟨be32 d.length ++ d ++ rest, true⟩ = (d, ⟨rest, true⟩) := by
  have h4 : (⟨be32 d.length ++ (d ++ rest), true⟩ : Parser).length ≥ 4 := by
    simp [Parser.length]
  simp only [parseBytes, List.append_assoc, h4, if_true, parseInt32_be _ _ h]
  simp [Parser.length]
  omega

theorem parseAtLeastBytes_append (d rest : Bytes) (be : Bool) :
    parseAtLeastBytes ⟨d ++ rest, be⟩ d.length = (d, ⟨rest, be⟩) := by
  simp [parseAtLeastBytes, Parser.length]
  omega

theorem readField_encode (f : Field) (rest : Bytes) (h : f.wf) :
    Parser.readField ⟨f.encode ++ rest, true⟩ f.kind = (f, ⟨rest, true⟩) := by
  cases f with
  | int32 v => simp [Field.encode, Field.kind, Parser.readField, parseInt32_be v rest h]
  | int64 v => simp [Field.encode, Field.kind, Parser.readField, parseInt64_be v rest h]
  | pointer v => simp [Field.encode, Field.kind, Parser.readField, parseInt64_be v rest h]
  | bool b => simp [Field.encode, Field.kind, Parser.readField, parseBool_be b rest]
  | bytes d =>
    have := parseBytes_be d rest h
    simp only [List.append_assoc] at this
    simp [Field.encode, Field.kind, Parser.readField, this]

theorem readFields_encode (fs : List Field) (rest : Bytes) (h : ∀ f ∈ fs, f.wf) :
    Parser.readFields ⟨encodeFields fs ++ rest, true⟩ (fs.map Field.kind) = (fs, ⟨rest, true⟩) := by
  induction fs with
  | nil => simp [encodeFields, Parser.readFields]
  | cons f fs ih =>
    have hf : f.wf := h f (by simp)
    have hfs : ∀ g ∈ fs, g.wf := fun g hg => h g (by simp [hg])
    have e : encodeFields (f :: fs) ++ rest = f.encode ++ (encodeFields fs ++ rest) := by
      simp [encodeFields]
    simp only [List.map_cons, Parser.readFields, e, readField_encode f _ hf, ih hfs]

end Havoc
