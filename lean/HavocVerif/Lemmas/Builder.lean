import HavocVerif.Model.Builder
import HavocVerif.Lemmas.Utf16
namespace Havoc

theorem getI32_le32 (v : Nat) (r : Bytes) (h : v < 4294967296) : getI32 (le32 v ++ r) = some (v, r) := by
  have hl : ¬ (le32 v ++ r).length < 4 := by simp
  have ht : (le32 v ++ r).take 4 = le32 v := by simp [le32]
  have hd : (le32 v ++ r).drop 4 = r := by simp [le32]
  simp only [getI32, hl, if_false, ht, hd, leNat_le32 v h]

theorem getI64_le64 (v : Nat) (r : Bytes) (h : v < 18446744073709551616) : getI64 (le64 v ++ r) = some (v, r) := by
  have hl : ¬ (le64 v ++ r).length < 8 := by simp
  have ht : (le64 v ++ r).take 8 = le64 v := by simp [le64, le32]
  have hd : (le64 v ++ r).drop 8 = r := by simp [le64, le32]
  simp only [getI64, hl, if_false, ht, hd, leNat_le64 v h]

theorem units16_length (us : List Nat) : (units16 us).length = 2 * us.length := by
  induction us with
  | nil => rfl
  | cons u us ih => simp [units16, List.flatMap_cons, le16] at *; omega

/-- wide strings: every unit fits 16 bits and the byte length fits the 32-bit prefix -/
def WfW (us : List Nat) : Prop := (∀ u ∈ us, u < 65536) ∧ 2 * us.length < 4294967296

theorem getW_packW (us : List Nat) (r : Bytes) (h : WfW us) : getW (packW us ++ r) = some (us, r) := by
  unfold getW packW
  rw [List.append_assoc, getI32_le32 _ _ h.2]
  have hl : ¬ (units16 us ++ r).length < 2 * us.length := by simp [units16_length]
  have ht : (units16 us ++ r).take (2 * us.length) = units16 us := by
    rw [← units16_length us]; simp
  have hd : (units16 us ++ r).drop (2 * us.length) = r := by
    rw [← units16_length us]; simp
  simp only [hl, if_false, ht, hd]
  rw [show units16 us = us.flatMap le16 from rfl, u16sOf_units us h.1]

theorem getHosts_pack (hs : List (List Nat × Nat)) (r : Bytes)
    (h : ∀ x ∈ hs, WfW x.1 ∧ x.2 < 4294967296) : getHosts hs.length (packHosts hs ++ r) = some (hs, r) := by
  induction hs with
  | nil => rfl
  | cons x xs ih =>
    obtain ⟨host, port⟩ := x
    have hx := h (host, port) (by simp)
    have hr : ∀ y ∈ xs, WfW y.1 ∧ y.2 < 4294967296 := fun y hy => h y (by simp [hy])
    simp only [List.length_cons, getHosts, packHosts, List.append_assoc]
    rw [getW_packW _ _ hx.1]
    simp only
    rw [getI32_le32 _ _ hx.2]
    simp only
    rw [ih hr]

theorem getList_pack (ss : List (List Nat)) (r : Bytes) (h : ∀ x ∈ ss, WfW x) :
    getList ss.length (packList ss ++ r) = some (ss, r) := by
  induction ss with
  | nil => rfl
  | cons x xs ih =>
    have hx := h x (by simp)
    have hr : ∀ y ∈ xs, WfW y := fun y hy => h y (by simp [hy])
    simp only [List.length_cons, getList, packList, List.append_assoc]
    rw [getW_packW _ _ hx]
    simp only
    rw [ih hr]

def WfT : Transport → Prop
  | .http kd wh m rot hosts sec ua hdrs uris proxy =>
    kd < 18446744073709551616 ∧ wh < 4294967296 ∧ WfW m ∧ rot < 4294967296 ∧ hosts.length < 4294967296 ∧
    (∀ x ∈ hosts, WfW x.1 ∧ x.2 < 4294967296) ∧ sec < 4294967296 ∧ WfW ua ∧
    hdrs.length < 4294967296 ∧ (∀ x ∈ hdrs, WfW x) ∧ uris.length < 4294967296 ∧ (∀ x ∈ uris, WfW x) ∧
    (match proxy with | some (a, b, c) => WfW a ∧ WfW b ∧ WfW c | none => True)
  | .smb pipe kd wh => WfW pipe ∧ kd < 18446744073709551616 ∧ wh < 4294967296

def Transport.isSmb : Transport → Bool
  | .smb _ _ _ => true
  | _ => false

theorem getHttp_pack (kd wh : Nat) (m : List Nat) (rot : Nat) (hosts : List (List Nat × Nat)) (sec : Nat) (ua : List Nat)
    (hdrs uris : List (List Nat)) (proxy : Option (List Nat × List Nat × List Nat)) (r : Bytes)
    (h : WfT (.http kd wh m rot hosts sec ua hdrs uris proxy)) :
    getHttp (packTransport (.http kd wh m rot hosts sec ua hdrs uris proxy) ++ r)
      = some (.http kd wh m rot hosts sec ua hdrs uris proxy, r) := by
  obtain ⟨h1, h2, h3, h4, h5, h6, h7, h8, h9, h10, h11, h12, h13⟩ := h
  simp only [getHttp, packTransport, List.append_assoc, bind, Option.bind]
  rw [getI64_le64 _ _ h1]; simp only
  rw [getI32_le32 _ _ h2]; simp only
  rw [getW_packW _ _ h3]; simp only
  rw [getI32_le32 _ _ h4]; simp only
  rw [getI32_le32 _ _ h5]; simp only
  rw [getHosts_pack _ _ h6]; simp only
  rw [getI32_le32 _ _ h7]; simp only
  rw [getW_packW _ _ h8]; simp only
  rw [getI32_le32 _ _ h9]; simp only
  rw [getList_pack _ _ h10]; simp only
  rw [getI32_le32 _ _ h11]; simp only
  rw [getList_pack _ _ h12]; simp only
  cases proxy with
  | none =>
    simp only [List.append_assoc]
    rw [getI32_le32 0 _ (by omega)]; simp [pure]
  | some p =>
    obtain ⟨a, b, c⟩ := p
    simp only at h13
    simp only [List.append_assoc]
    rw [getI32_le32 1 _ (by omega)]
    have one : ¬ (1 : Nat) = 0 := by omega
    simp only [one, if_false, bind, Option.bind]
    rw [getW_packW _ _ h13.1]; simp only
    rw [getW_packW _ _ h13.2.1]; simp only
    rw [getW_packW _ _ h13.2.2]; simp [pure]

theorem getSmb_pack (pipe : List Nat) (kd wh : Nat) (r : Bytes) (h : WfT (.smb pipe kd wh)) :
    getSmb (packTransport (.smb pipe kd wh) ++ r) = some (.smb pipe kd wh, r) := by
  obtain ⟨h1, h2, h3⟩ := h
  simp only [getSmb, packTransport, List.append_assoc, bind, Option.bind]
  rw [getW_packW _ _ h1]; simp only
  rw [getI64_le64 _ _ h2]; simp only
  rw [getI32_le32 _ _ h3]; simp [pure]

structure WfCfg (c : DemonCfg) : Prop where
  sleep : c.sleep < 4294967296
  jitter : c.jitter < 4294967296
  alloc : c.alloc < 4294967296
  execute : c.execute < 4294967296
  s64 : WfW c.spawn64
  s32 : WfW c.spawn32
  technique : c.technique < 4294967296
  bypass : c.bypass < 4294967296
  stackSpoof : c.stackSpoof < 4294967296
  proxyLoading : c.proxyLoading < 4294967296
  sysIndirect : c.sysIndirect < 4294967296
  amsi : c.amsi < 4294967296
  transport : WfT c.transport

/-- the Demon reads back exactly what was packed, and consumes exactly the block -/
theorem readCfg_packCfg (c : DemonCfg) (r : Bytes) (h : WfCfg c) :
    readCfg c.transport.isSmb (packCfg c ++ r) = some (c, r) := by
  obtain ⟨sleep, jitter, alloc, execute, s64, s32, tech, byp, spoof, pl, sys, amsi, t⟩ := c
  simp only [readCfg, packCfg, List.append_assoc, bind, Option.bind]
  rw [getI32_le32 _ _ h.sleep]; simp only
  rw [getI32_le32 _ _ h.jitter]; simp only
  rw [getI32_le32 _ _ h.alloc]; simp only
  rw [getI32_le32 _ _ h.execute]; simp only
  rw [getW_packW _ _ h.s64]; simp only
  rw [getW_packW _ _ h.s32]; simp only
  rw [getI32_le32 _ _ h.technique]; simp only
  rw [getI32_le32 _ _ h.bypass]; simp only
  rw [getI32_le32 _ _ h.stackSpoof]; simp only
  rw [getI32_le32 _ _ h.proxyLoading]; simp only
  rw [getI32_le32 _ _ h.sysIndirect]; simp only
  rw [getI32_le32 _ _ h.amsi]; simp only
  cases t with
  | http kd wh m rot hosts sec ua hdrs uris proxy =>
    simp only [Transport.isSmb, Bool.false_eq_true, if_false]
    rw [getHttp_pack _ _ _ _ _ _ _ _ _ _ _ h.transport]; simp [pure]
  | smb pipe kd wh =>
    simp only [Transport.isSmb, if_true]
    rw [getSmb_pack _ _ _ _ h.transport]; simp [pure]

end Havoc
