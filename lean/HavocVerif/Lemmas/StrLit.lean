import HavocVerif.Model.StrLit
namespace Havoc.StrLit

theorem hexDigit8_isHex (n : Nat) (h : n < 16) : isHex (hexDigit8 n) = true := by
  have : n = 0 ∨ n = 1 ∨ n = 2 ∨ n = 3 ∨ n = 4 ∨ n = 5 ∨ n = 6 ∨ n = 7 ∨ n = 8 ∨ n = 9 ∨ n = 10 ∨ n = 11 ∨ n = 12 ∨ n = 13 ∨ n = 14 ∨ n = 15 := by omega
  rcases this with h | h | h | h | h | h | h | h | h | h | h | h | h | h | h | h <;> subst h <;> decide

theorem hexVal8_hexDigit8 (n : Nat) (h : n < 16) : hexVal8 (hexDigit8 n) = n := by
  have : n = 0 ∨ n = 1 ∨ n = 2 ∨ n = 3 ∨ n = 4 ∨ n = 5 ∨ n = 6 ∨ n = 7 ∨ n = 8 ∨ n = 9 ∨ n = 10 ∨ n = 11 ∨ n = 12 ∨ n = 13 ∨ n = 14 ∨ n = 15 := by omega
  rcases this with h | h | h | h | h | h | h | h | h | h | h | h | h | h | h | h <;> subst h <;> decide

theorem byte_split (b : UInt8) : UInt8.ofNat (b.toNat / 16 * 16 + b.toNat % 16) = b := by
  have : b.toNat / 16 * 16 + b.toNat % 16 = b.toNat := by omega
  rw [this]; exact UInt8.ofNat_toNat

/-- a hex run stops at a backslash or at the end -/
theorem hexRun_spellHex (rest : Bytes) : hexRun (spellHex rest) = ([], spellHex rest) := by
  cases rest with
  | nil => rfl
  | cons b r => simp [spellHex, hexRun, isHex]

theorem unquote_spellHex (v : Bytes) : ∀ fuel, v.length + 1 ≤ fuel → unquote fuel (spellHex v) = some v := by
  induction v with
  | nil => intro fuel h; cases fuel with
    | zero => omega
    | succ f => rfl
  | cons b rest ih =>
    intro fuel h
    cases fuel with
    | zero => omega
    | succ f =>
      have hf : rest.length + 1 ≤ f := by simp at h; omega
      have h1 := hexDigit8_isHex (b.toNat / 16) (by have := UInt8.toNat_lt b; omega)
      have h2 := hexDigit8_isHex (b.toNat % 16) (by omega)
      have run : hexRun (hexDigit8 (b.toNat / 16) :: hexDigit8 (b.toNat % 16) :: spellHex rest)
          = ([hexDigit8 (b.toNat / 16), hexDigit8 (b.toNat % 16)], spellHex rest) := by
        simp only [hexRun, h1, h2, if_true, hexRun_spellHex]
      show unquote (f + 1) (92 :: 120 :: hexDigit8 (b.toNat / 16) :: hexDigit8 (b.toNat % 16) :: spellHex rest) = some (b :: rest)
      simp only [unquote]
      have e1 : ¬ ((120 : UInt8) = 110) := by decide
      have e2 : ¬ ((120 : UInt8) = 114) := by decide
      have e3 : ¬ ((120 : UInt8) = 116) := by decide
      have e4 : ¬ ((120 : UInt8) = 34) := by decide
      have e5 : ¬ ((120 : UInt8) = 92) := by decide
      simp only [e1, e2, e3, e4, e5, if_false, if_true, run, ih f hf, Option.map_some]
      have hv1 := hexVal8_hexDigit8 (b.toNat / 16) (by have := UInt8.toNat_lt b; omega)
      have hv2 := hexVal8_hexDigit8 (b.toNat % 16) (by omega)
      simp only [decodePairs, hv1, hv2, byte_split, List.cons_append, List.nil_append]

end Havoc.StrLit

namespace Havoc.StrLit

theorem unquote_raw (b : UInt8) (s : List UInt8) (f : Nat)
    (h : b ≠ 92 ∧ b ≠ 36 ∧ b ≠ 37 ∧ b ≠ 34 ∧ b ≠ 10 ∧ b ≠ 13) :
    unquote (f + 1) (b :: s) = (unquote f s).map (b :: ·) := by
  obtain ⟨h1, h2, h3, h4, h5, h6⟩ := h
  conv => lhs; unfold unquote
  split <;> simp_all

theorem unquote_esc (c out : UInt8) (s : List UInt8) (f : Nat)
    (h : (c = 110 ∧ out = 10) ∨ (c = 114 ∧ out = 13) ∨ (c = 116 ∧ out = 9) ∨ (c = 34 ∧ out = 34) ∨ (c = 92 ∧ out = 92)) :
    unquote (f + 1) (92 :: c :: s) = (unquote f s).map (out :: ·) := by
  rcases h with ⟨rfl, rfl⟩ | ⟨rfl, rfl⟩ | ⟨rfl, rfl⟩ | ⟨rfl, rfl⟩ | ⟨rfl, rfl⟩ <;> simp [unquote]

/-- `$${` and `%%{` stand for a literal `${` and `%{` -/
theorem unquote_dollar (s : List UInt8) (f : Nat) :
    unquote (f + 1) (36 :: 36 :: 123 :: s) = (unquote f s).map ([36, 123] ++ ·) := by simp [unquote]
theorem unquote_percent (s : List UInt8) (f : Nat) :
    unquote (f + 1) (37 :: 37 :: 123 :: s) = (unquote f s).map ([37, 123] ++ ·) := by simp [unquote]

/-- an unescaped `${` / `%{` is not part of a plain literal -/
theorem interpolation_is_not_literal (s : List UInt8) (f : Nat) : unquote (f + 1) (36 :: 123 :: s) = none := by simp [unquote]

/-- more fuel never changes a result -/
def NoTemplateChar (v : Bytes) : Prop := ∀ b ∈ v, b ≠ 36 ∧ b ≠ 37

theorem spellPlain_cons (b : UInt8) (rest : Bytes) (h : b ≠ 36 ∧ b ≠ 37) :
    spellPlain (b :: rest) =
      (if b = 10 then [92, 110] else if b = 13 then [92, 114] else if b = 9 then [92, 116]
       else if b = 34 then [92, 34] else if b = 92 then [92, 92] else [b]) ++ spellPlain rest := by
  conv => lhs; unfold spellPlain
  split <;> simp_all

/-- the readable spelling (raw bytes and the five short escapes) of any byte string without
    `$` and `%` reads back as that string -/
theorem unquote_spellPlain (v : Bytes) (hv : NoTemplateChar v) :
    ∀ fuel, v.length + 1 ≤ fuel → unquote fuel (spellPlain v) = some v := by
  induction v with
  | nil => intro fuel h; cases fuel with
    | zero => omega
    | succ f => rfl
  | cons b rest ih =>
    intro fuel h
    cases fuel with
    | zero => omega
    | succ f =>
      have hf : rest.length + 1 ≤ f := by simp at h; omega
      have hb := hv b (by simp)
      have hr : NoTemplateChar rest := fun x hx => hv x (by simp [hx])
      rw [spellPlain_cons b rest hb]
      have ihr := ih hr f hf
      by_cases c1 : b = 10
      · subst c1; simp only [if_true, List.cons_append, List.nil_append]
        rw [unquote_esc 110 10 _ f (by simp), ihr]; rfl
      by_cases c2 : b = 13
      · subst c2; simp only [show ¬ ((13 : UInt8) = 10) by decide, if_false, if_true, List.cons_append, List.nil_append]
        rw [unquote_esc 114 13 _ f (by simp), ihr]; rfl
      by_cases c3 : b = 9
      · subst c3; simp only [show ¬ ((9 : UInt8) = 10) by decide, show ¬ ((9 : UInt8) = 13) by decide, if_false, if_true, List.cons_append, List.nil_append]
        rw [unquote_esc 116 9 _ f (by simp), ihr]; rfl
      by_cases c4 : b = 34
      · subst c4; simp only [show ¬ ((34 : UInt8) = 10) by decide, show ¬ ((34 : UInt8) = 13) by decide, show ¬ ((34 : UInt8) = 9) by decide, if_false, if_true, List.cons_append, List.nil_append]
        rw [unquote_esc 34 34 _ f (by simp), ihr]; rfl
      by_cases c5 : b = 92
      · subst c5; simp only [show ¬ ((92 : UInt8) = 10) by decide, show ¬ ((92 : UInt8) = 13) by decide, show ¬ ((92 : UInt8) = 9) by decide, show ¬ ((92 : UInt8) = 34) by decide, if_false, if_true, List.cons_append, List.nil_append]
        rw [unquote_esc 92 92 _ f (by simp), ihr]; rfl
      · simp only [c1, c2, c3, c4, c5, if_false, List.cons_append, List.nil_append]
        rw [unquote_raw b _ f ⟨c5, hb.1, hb.2, c4, c1, c2⟩, ihr]; rfl

end Havoc.StrLit
