import HavocVerif.Basic.Proto
import HavocVerif.Model.Loot
import HavocVerif.Model.Utf16
/-
  Driver for C07.  Paths are relative to a sandbox directory two levels above the loot
  root (the model treats the sandbox as "/").
    agent <id>
    dlopen <a> <fid> <name> <size> | dlwrite <a> <fid> <chunk> | dlclose <a> <fid> <reason>
    bopen  … | bwrite … | bclose <a> <fid>
    svcdl <id> <name> <content> | shot <id> <name> | input <id> | raw <id> | output <id>
      => <ok|err|NOAGENT|REJECTED|PANIC:…> <+path=D|F<hex>|F#len , … | ->
-/
namespace Havoc.DriverC07
open Havoc

def str (s : String) : Bytes := s.toUTF8.toList   -- run-time only (ids, fixed names: ASCII)

def agentsDir : List Bytes := [str "x", str "y", str "loot", str "agents"]

def initFs : Fs :=
  [([str "x"], .dir), ([str "x", str "y"], .dir), ([str "x", str "y", str "loot"], .dir),
   (agentsDir, .dir), ([str "x", str "y", str "loot", str "listener"], .dir)]

structure Transfer where
  agent : Bytes
  fid : Nat
  path : List Bytes          -- file the implementation created at open
  chunks : Bytes             -- what was sent for this id since
  overlapped : Bool := false -- another transfer targeted the same file while this one was open
  deriving Repr, Inhabited

structure St where
  fs : Fs := initFs
  agents : List LootAgent := []
  impl : List (List Bytes × String) := []     -- files as the implementation has them (content token)
  transfers : List Transfer := []

structure Change where
  path : List Bytes
  val : String          -- "D", "F<hex>", "F#<len>", or "" for a removal
  deriving DecidableEq, Repr

def parseChanges (s : String) : Option (List Change) :=
  if s = "-" then some []
  else (s.splitOn ",").mapM fun t =>
    if t.startsWith "+" then
      match ((t.drop 1).toString).splitOn "=" with
      | [p, v] => (ofHex p).map fun pb => ⟨compsOf pb, v⟩
      | _ => none
    else if t.startsWith "-" then (ofHex ((t.drop 1).toString)).map fun pb => ⟨compsOf pb, ""⟩
    else none

def showPath (p : List Bytes) : String := "/".intercalate (p.map fun c => String.ofList (c.map fun b => Char.ofNat b.toNat))

/-- Spec: where may an operation for agent directory name `id` create or change anything? -/
def allowed (id : Bytes) (p : List Bytes) : Bool :=
  let base := agentsDir ++ [id]
  p == base ||
  (p.take (base.length + 1) == base ++ [str "Download"]) ||
  (p.take (base.length + 1) == base ++ [str "Screenshots"]) ||
  p == base ++ [str "Console_" ++ id ++ str ".log"]

def nodeToken : Node → String
  | .dir => "D"
  | .file c => if c.length > 400 then s!"F#{c.length}" else "F" ++ toHexP c

/-- entries of `b` that are new or different w.r.t. `a` -/
def fsDiff (a b : Fs) : List Change :=
  (b.filterMap fun (p, n) => if a.lookup p == some n then none else some ⟨p, nodeToken n⟩)

def sameChanges (x y : List Change) : Bool :=
  x.all (y.contains ·) && y.all (x.contains ·)

def findAgent (st : St) (id : Bytes) : Option LootAgent := st.agents.find? (·.id == id)
def setAgent (st : St) (a : LootAgent) : St := { st with agents := a :: st.agents.filter (·.id != a.id) }

def logFile (id : Bytes) : List Bytes := agentsDir ++ [id, str "Console_" ++ id ++ str ".log"]

/-- the model of one operation: new model state (fs, agents) -/
def modelStep (st : St) (op : String) (args : List String) : St :=
  match op, args with
  | "dlopen", [a, fid, name, _] | "bopen", [a, fid, name, _] =>
    match findAgent st (str a), fid.toNat?, ofHex name with
    | some ag, some f, some nm =>
      -- dlopen carries a wide string: what arrives is StripNull(decoded); bopen carries raw bytes
      let nm' := if op == "dlopen" then stripNull nm else nm
      if op == "bopen" ∧ nm.isEmpty then st      -- CALLBACK_FILE needs more than the 8 header bytes
      else
        let (fs', ag', _) := downloadAdd agentsDir st.fs ag f nm'
        setAgent { st with fs := fs' } ag'
    | _, _, _ => st
  | "dlwrite", [a, fid, chunk] | "bwrite", [a, fid, chunk] =>
    match findAgent st (str a), fid.toNat?, ofHex chunk with
    | some ag, some f, some ch =>
      let (fs', ag', _) := downloadWrite st.fs ag f ch
      setAgent { st with fs := fs' } ag'
    | _, _, _ => st
  | "dlclose", [a, fid, reason] =>
    match findAgent st (str a), fid.toNat?, reason.toNat? with
    | some ag, some f, some r =>
      -- mode 2: only when some download is tracked and the reason is 0 or 1
      if ag.downloads.length > 0 ∧ (r == 0 ∨ r == 1) then setAgent st (downloadClose ag f) else st
    | _, _, _ => st
  | "bclose", [a, fid] =>
    match findAgent st (str a), fid.toNat? with
    | some ag, some f => setAgent st (downloadClose ag f)
    | _, _ => st
  | "svcdl", [id, name, content] =>
    match ofHex id, ofHex name, ofHex content with
    | some i, some nm, some ct =>
      if !validAgentId i then st
      else
        let dirS := slash :: joinByte slash (agentsDir ++ [i, str "Download"])
        let target := dirS ++ [slash] ++ nm.filter (· ≠ 0)
        if !insideDir target dirS then st
        else
          let (fs1, _) := st.fs.mkdir (agentsDir ++ [i])
          let (fs2, _) := fs1.mkdir (agentsDir ++ [i, str "Download"])
          if fs2.get (agentsDir ++ [i, str "Download"]) ≠ some .dir then { st with fs := fs2 }
          else
            -- os.Create on the uncleaned string: resolved lexically (no symlinks)
            -- os.Create on the uncleaned string, walked the way the OS walks it
            let (fs3, ok) := fs2.createWalk (splitByte slash target)
            let p := (cleanComps target).2
            if ok then { st with fs := fs3.writeAt p 0 ct } else { st with fs := fs3 }
    | _, _, _ => st
  | "shot", [id, name] =>
    match ofHex id, ofHex name with
    | some i, some nm =>
      if !validAgentId i then st
      else
        let dirS := slash :: joinByte slash (agentsDir ++ [i, str "Screenshots"])
        let target := dirS ++ [slash] ++ nm
        if !insideDir target dirS then st
        else
          let (fs1, _) := st.fs.mkdir (agentsDir ++ [i])
          let (fs2, _) := fs1.mkdir (agentsDir ++ [i, str "Screenshots"])
          if fs2.get (agentsDir ++ [i, str "Screenshots"]) ≠ some .dir then { st with fs := fs2 }
          else
            let p := (cleanComps target).2
            let (fs3, ok) := fs2.createWalk (splitByte slash target)
            -- the PNG bytes are not modelled: content token is taken from the implementation
            if ok then { st with fs := fs3.set p (.file (str "<png>")) } else { st with fs := fs3 }
    | _, _ => st
  | "input", [id] | "raw", [id] | "output", [id] =>
    match ofHex id with
    | some i =>
      if !validAgentId i then st
      else
        let (fs1, _) := st.fs.mkdir (agentsDir ++ [i])
        if fs1.get (agentsDir ++ [i]) ≠ some .dir then { st with fs := fs1 }
        else
          let text := if op == "raw" then str "raw text\n"
            else if op == "input" then str "\n[Time: t] [User: op] [TaskID: 1234] Demon => whoami\n"
            else str "[t] [+] m\no"
          let (fs2, _) := fs1.append (logFile i) text
          { st with fs := fs2 }
    | none => st
  | _, _ => st

def step (st : St) (l : Line) : St × Verdict :=
  match l.op, l.impl with
  | "agent", _ =>
    match l.args with
    | [id] => ({ st with agents := st.agents ++ [{ id := str id }] }, .ok)
    | _ => (st, .bad "agent")
  | op, [res, chs] =>
    match parseChanges chs with
    | none => (st, .bad "changes")
    | some changes =>
      let st1 := modelStep st op l.args
      let implFiles := changes.foldl (fun acc c => (c.path, c.val) :: acc.filter (·.1 ≠ c.path)) st.impl
      let idOf : Option Bytes := match op, l.args with
        | "svcdl", id :: _ | "shot", id :: _ | "input", id :: _ | "raw", id :: _ | "output", id :: _ => ofHex id
        | _, a :: _ => some (str a)
        | _, _ => none
      -- bookkeeping of transfers for the content clause
      let fidOf := (l.args.getD 1 "").toNat?.getD 0
      let ag := str (l.args.headD "")
      let (transfers', contentErr) : List Transfer × Option (String × String) :=
        match op with
        | "dlopen" | "bopen" =>
          -- a transfer is open when the model's DownloadAdd succeeded (the created file may already
          -- have existed empty, so the tree diff alone does not show it)
          let before := ((findAgent st ag).map (·.downloads.length)).getD 0
          match (findAgent st1 ag).bind fun a => if a.downloads.length > before then a.downloads.getLast? else none with
          | some d =>
            let clash := st.transfers.any (·.path == d.path)
            ((st.transfers.map fun t => if t.path == d.path then { t with overlapped := true } else t)
              ++ [⟨ag, fidOf, d.path, [], clash⟩], none)
          | none => (st.transfers, none)
        | "dlwrite" | "bwrite" =>
          let ch := (ofHex (l.args.getD 2 "-")).getD []
          let mine := st.transfers.filter fun t => t.agent == ag ∧ t.fid == fidOf
          if mine.isEmpty then
            if changes ≠ [] then (st.transfers, some ("C07.stray-write", s!"chunk for unknown / closed file id {fidOf} of agent {l.args.headD ""} changed {changes.map (showPath ·.path)}"))
            else (st.transfers, none)
          else
            -- the first matching transfer receives the chunk (as DownloadWrite does)
            let first := mine.head!
            (st.transfers.map fun t => if t.agent == first.agent ∧ t.fid == first.fid ∧ t.path == first.path ∧ t.chunks == first.chunks
                then { t with chunks := t.chunks ++ ch } else t, none)
        | "dlclose" | "bclose" =>
          let mine := st.transfers.filter fun t => t.agent == ag ∧ t.fid == fidOf
          let closes := op == "bclose" || ((l.args.getD 2 "").toNat?.getD 9 ≤ 1)
          -- like DownloadClose: the first tracked transfer of this id goes
          let dropFirst : List Transfer → List Transfer := fun ts =>
            match ts.findIdx? (fun t => t.agent == ag ∧ t.fid == fidOf) with
            | some i => ts.eraseIdx i
            | none => ts
          if !closes then (st.transfers, none)
          else match mine with
          | [t] =>
            let shared := t.overlapped
            let have_ := (implFiles.lookup t.path).getD "?"
            let want := if t.chunks.length > 400 then s!"F#{t.chunks.length}" else "F" ++ toHexP t.chunks
            if have_ ≠ want then
              if shared then (dropFirst st.transfers, some ("C07.content.shared-path", s!"two overlapping transfers write {showPath t.path}: content is not the concatenation of the chunks of file id {fidOf}"))
              else (dropFirst st.transfers, some ("C07.content", s!"{showPath t.path} holds {have_.take 60} but the chunks sent for file id {fidOf} are {want.take 60}"))
            else (dropFirst st.transfers, none)
          | _ => (dropFirst st.transfers, none)
        | _ => (st.transfers, none)
      let st2 := { st1 with impl := implFiles, transfers := transfers' }
      if res.startsWith "PANIC" then (st2, .specFail ("C07.panic." ++ (res.drop 6).toString) s!"{op} panics")
      else
        -- containment (Spec, independent of the model)
        let escapes := match idOf with
          | some id =>
            if ¬ validAgentId id then changes
            else changes.filter fun c => !allowed id c.path
          | none => changes
        if !escapes.isEmpty then
          (st2, .specFail "C07.escape" s!"{op} for agent id {String.ofList ((idOf.getD []).map fun b => Char.ofNat b.toNat)} touched {escapes.map (showPath ·.path)}, outside that agent's download / screenshot / log locations")
        else match contentErr with
          | some (cls, e) => (st2, .specFail cls e)
          | none =>
            -- model vs implementation: same set of created / changed entries (PNG bytes not modelled)
            let norm := fun (cs : List Change) => cs.map fun c => if op == "shot" ∧ c.val.startsWith "F" then { c with val := "F" } else c
            let m := norm (fsDiff st.fs st1.fs)
            if !sameChanges m (norm changes) then
              -- resynchronise the model's file system with what the implementation did
              (st2, .diff s!"{m.map (fun c => (showPath c.path, c.val.take 24))}")
            else (st2, .ok)
  | _, _ => (st, .bad s!"unreadable {joinSp l.impl}")

end Havoc.DriverC07
