import HavocVerif.Basic.Proto
import HavocVerif.Model.Events
/-
  Driver for C11.  Lines (see harness/cmd/hv/c11.go):
    world success=1.1/… chat=4.1 useron=4.4 useroff=4.5 ladd=2.1 lremove=2.3 session=7.1 mark=7.5 agentbase=<n>
    conn|login|record|flood|chat|ladd|lremove|register|dead|close|cut|stall …
      => [call=done|TIMEOUT] <name>[open|closed]=<frames|-> … clients=<n> retained=<tags|->
-/
namespace Havoc.DriverC11
open Havoc

structure Codes where
  success : String := "1.1/Successful_Authenticated"
  chat : String := "4.1"
  userOn : String := "4.4"
  userOff : String := "4.5"
  lAdd : String := "2.1"
  lRemove : String := "2.3"
  session : String := "7.1"
  mark : String := "7.5"
  agentBase : Nat := 0

structure St where
  codes : Codes := {}
  hub : Hub := {}
  names : List String := []
  stalled : List Nat := []
  nreg : Nat := 0

def kv (key : String) (toks : List String) : Option String :=
  toks.findSome? fun t => if t.startsWith (key ++ "=") then some ((t.drop (key.length + 1)).toString) else none

def hex8 (n : Nat) : String :=
  String.ofList ((List.range 8).reverse.map fun i => hexDigit ((n / 16 ^ i) % 16))

def render (k : Codes) : Ev → String
  | .success => k.success
  | .chat m => k.chat ++ "/" ++ m
  | .userOn u => k.userOn ++ "/" ++ u
  | .userOff u => k.userOff ++ "/" ++ u
  | .lAdd n => k.lAdd ++ "/" ++ n
  | .lRemove n => k.lRemove ++ "/" ++ n
  | .session id => k.session ++ "/" ++ id
  | .mark id => k.mark ++ "/" ++ id

def csv (xs : List String) : String := if xs.isEmpty then "-" else ",".intercalate xs

def framesOf (name : String) (toks : List String) : Option (List String) :=
  toks.findSome? fun t =>
    if t.startsWith (name ++ "[") then
      match (t.splitOn "]=") with
      | [_, fs] => some (if fs = "-" then [] else fs.splitOn ",")
      | _ => none
    else none

def isSub : List String → List String → Bool
  | [], _ => true
  | _ :: _, [] => false
  | x :: xs, y :: ys => if x == y then isSub xs ys else isSub (x :: xs) ys

/-- frames newly delivered to connection `id` between two model states -/
def newFor (k : Codes) (before after : Hub) (id : Nat) : List String :=
  ((after.delivered.drop before.delivered.length).filter (·.1 = id)).map fun p => render k p.2

/-- bring the model's retained log into the order the implementation recorded concurrent events in
    (only if both hold the same events) -/
def adoptOrder (k : Codes) (h : Hub) (obs : List String) : Option Hub :=
  let rec pick (pool : List Ev) : List String → Option (List Ev)
    | [] => if pool.isEmpty then some [] else none
    | t :: ts =>
      match pool.find? (fun e => render k e == t) with
      | some e => (pick (pool.erase e) ts).map (e :: ·)
      | none => none
  (pick h.retained obs).map fun r => { h with retained := r }

def isAuthedNow (h : Hub) (id : Nat) : Bool :=
  match h.stateOf id with
  | some (.authed _) => true
  | _ => false

def step (st : St) (l : Line) : St × Verdict :=
  let k := st.codes
  let idOf (n : String) : Option Nat := st.names.idxOf? n
  match l.op, l.args with
  | "world", args =>
    let g (key dflt : String) := (kv key args).getD dflt
    ({ st with codes := { success := g "success" k.success, chat := g "chat" k.chat, userOn := g "useron" k.userOn,
                          userOff := g "useroff" k.userOff, lAdd := g "ladd" k.lAdd, lRemove := g "lremove" k.lRemove,
                          session := g "session" k.session, mark := g "mark" k.mark,
                          agentBase := ((kv "agentbase" args).bind String.toNat?).getD 0 } }, .ok)
  | op, args =>
    -- the model operations this line stands for
    let plan : Option (List HubOp × St) :=
      match op, args with
      | "conn", [n] => some ([.connect st.names.length], { st with names := st.names ++ [n] })
      | "login", [n, u] => (idOf n).map fun id => ([.login id u], st)
      | "record", [m, one, ex] =>
        let exId := if ex = "-" then none else idOf ex
        some ([.record m (one == "1") exId], st)
      | "flood", _ => some ([], st)
      | "slowreplay", [n, u, rm, ln, m, cnt, _kb] =>
        -- the replay of a newcomer is the log as it stood when it logged in, whatever happens to the log while it is under way
        (idOf rm).map fun rid =>
          let nid := st.names.length
          ((List.range (cnt.toNat?.getD 0)).map (fun i => HubOp.record s!"{m}.{i}" false none) ++ [.connect nid, .login nid u, .lRemove rid ln],
           { st with names := st.names ++ [n] })
      | "cutburst", [ns, m, cnt] => ((ns.splitOn "+").mapM idOf).map fun ids =>
          (ids.map HubOp.fail ++ (List.range (cnt.toNat?.getD 0)).map (fun i => HubOp.record s!"{m}.{i}" false none) ++ ids.map HubOp.leave, st)
      | "burst", [m, g, cnt] =>
          some ((List.range (g.toNat?.getD 0)).flatMap (fun gi => (List.range (cnt.toNat?.getD 0)).map fun i => HubOp.record s!"{m}.{gi}.{i}" false none), st)
      | "chat", [n, m] => (idOf n).map fun id => ([.chat id m], st)
      | "ladd", [n, ln] => (idOf n).map fun id => ([.lAdd id ln], st)
      | "lremove", [n, ln] => (idOf n).map fun id => ([.lRemove id ln], st)
      | "lnotify", [ln] => some ([.lNotify ln], st)
      | "register", [] => some ([.register (hex8 (k.agentBase + st.nreg + 1))], { st with nreg := st.nreg + 1 })
      | "dead", [n, i] => (idOf n).bind fun id => i.toNat?.map fun i => ([.dead id (hex8 (k.agentBase + i))], st)
      | "close", [n] => (idOf n).map fun id => ([.fail id, .leave id], st)
      | "cut", [n] => (idOf n).map fun id => ([.fail id, .leave id], st)
      | "stall", [n] => (idOf n).map fun id => ([], { st with stalled := id :: st.stalled })
      | _, _ => none
    match plan with
    | none => (st, .bad s!"unknown operation {op}")
    | some (ops, st1) =>
      let before := st.hub
      let after := ops.foldl hubStep before
      let st2 : St := { st1 with hub := after }
      let call := (kv "call" l.impl).getD "done"
      let obsRetained := (kv "retained" l.impl).getD "-"
      let obsRetList := if obsRetained = "-" then [] else obsRetained.splitOn ","
      if call ≠ "done" then
        (st2, .specFail "C11.blocked" s!"{op} did not complete ({call}): event distribution is blocked")
      else if op == "cutburst" || op == "burst" then
        -- events recorded concurrently with each other / with the disconnect: the order among them is
        -- the scheduler's; every event must be in the log once and reach every healthy operator once
        let wantLog := after.retained.map (render k)
        let missing := wantLog.find? fun t => obsRetList.count t != wantLog.count t
        let healthy := (List.range st.names.length).filter fun id => isAuthedNow after id && !st.stalled.contains id
        let newTags := (ops.filterMap fun o => match o with | .record m _ _ => some s!"{k.chat}/{m}" | _ => none)
        let lost := healthy.findSome? fun id =>
          let got := (framesOf (st.names.getD id "") l.impl).getD []
          (newTags.find? fun t => got.count t != 1).map fun t => (id, t)
        match missing, lost with
        | some t, _ => (st2, .specFail "C11.lost-event" s!"event {t} is in the retained log {obsRetList.count t} time(s) after {op}; it was recorded {wantLog.count t} time(s)")
        | _, some (id, t) => (st2, .specFail "C11.lost-frame" s!"{st.names.getD id ""} received {t} {(((framesOf (st.names.getD id "") l.impl).getD []).count t)} time(s) during {op}")
        | none, none =>
          match adoptOrder k after obsRetList with
          | some h' => ({ st2 with hub := h' }, .ok)
          | none => (st2, .diff s!"retained={csv wantLog}")
      else if op == "slowreplay" then
        -- the newcomer's replay is the log as it stood when it logged in - every retained event once, in order, then the live
        -- sessions - while the removal's live broadcast (sent frame by frame by another goroutine) may land anywhere in it
        match args with
        | [n, _, _, ln, _, _, _] =>
          let nid := st.names.length
          let live := render k (.lRemove ln)
          let wantNew := newFor k before after nid
          let gotNew := (framesOf n l.impl).getD []
          let strip := fun (fs : List String) => fs.filter (· ≠ live)
          if strip gotNew ≠ strip wantNew then
            (st2, .specFail "C11.replay" s!"{n} logged in while the log was long and a listener was removed meanwhile: it received {gotNew.length} frames; without the removal's own broadcast they should be the success answer, the {before.retained.length}+ retained events in order and the live sessions, each once (first difference at frame {((strip gotNew).zip (strip wantNew)).findIdx fun (a, b) => a ≠ b})")
          else if gotNew.count live ≠ wantNew.count live then
            (st2, .specFail "C11.broadcast" s!"{n} received the removal of {ln} {gotNew.count live} time(s), expected {wantNew.count live}")
          else
            let mism := (List.range st.names.length).find? fun id =>
              !st.stalled.contains id && (framesOf (st2.names.getD id "") l.impl).getD [] ≠ newFor k before after id
            match mism with
            | some id => (st2, .diff s!"{st2.names.getD id ""}={csv (newFor k before after id)}")
            | none =>
              if obsRetList ≠ after.retained.map (render k) then (st2, .diff s!"retained={csv (after.retained.map (render k))}")
              else (st2, .ok)
        | _ => (st2, .bad "slowreplay")
      else if op == "flood" then
        -- stalled operators are dropped by the write deadline at a point the model does not fix:
        -- every healthy operator must still have received every flood event, in order
        match args with
        | [m, cnt, _] =>
          let n := cnt.toNat?.getD 0
          let want := (List.range n).map fun i => s!"{k.chat}/{m}.{i}"
          let healthy := (List.range st.names.length).filter fun id => isAuthedNow before id && !st.stalled.contains id
          let bad := healthy.find? fun id => !(isSub want ((framesOf (st.names.getD id "") l.impl).getD []))
          -- the stalled ones are gone now
          let hub' := st.stalled.foldl (fun h id => hubStep (hubStep h (.fail id)) (.leave id)) before
          let st3 := { st2 with hub := hub', stalled := [] }
          -- besides the flood events a healthy operator is told once, per dropped operator, that it has disconnected - nothing else
          let offs := st.stalled.filterMap fun id => match before.stateOf id with
            | some (.authed u) => some (render k (.userOff u))
            | _ => none
          let extraBad := healthy.findSome? fun id =>
            let got := (framesOf (st.names.getD id "") l.impl).getD []
            let extras := got.filter fun t => !want.contains t
            if extras.all offs.contains && offs.all (fun o => extras.count o == offs.count o) then none
            else some (id, extras)
          match bad with
          | some id => (st3, .specFail "C11.broadcast" s!"{st.names.getD id ""} is healthy but did not receive all {n} events broadcast while another operator was stalled")
          | none =>
            if let some (id, extras) := extraBad then
              -- a frame that arrived twice, or one nobody sent, is not a matter of waiting longer; a missing one may be
              let tooMany := extras.any fun t => extras.count t > offs.count t
              (st3, .specFail (if tooMany then "C11.duplicate-frame" else "C11.broadcast") s!"{st.names.getD id ""} is healthy; while {st.stalled.length} stalled operator(s) were dropped it received, besides the {n} events, {csv extras} - expected exactly {csv offs} (one frame per event)")
            else
            -- (several stalled operators are dropped in an order the model does not fix: the log is adopted when it differs by order only)
            match adoptOrder k hub' obsRetList with
            | some h'' => ({ st3 with hub := h'' }, .ok)
            | none => (st3, .diff s!"retained={csv (hub'.retained.map (render k))}")
        | _ => (st2, .bad "flood")
      else
        -- Spec clauses, stated on what the implementation did
        let specErr : Option (String × String) :=
          match op, args with
          | "login", [n, _] =>
            match idOf n with
            | some id =>
              if before.stateOf id = some .fresh then
                let want := [k.success] ++ obsRetList ++ after.activeSessions.map (render k)
                let got := (framesOf n l.impl).getD []
                if got ≠ want then some ("C11.replay", s!"{n} logged in and received {csv got}; the success answer, the retained log {obsRetained} and the live sessions {csv (after.activeSessions.map (render k))} should have been replayed in this order")
                else none
              else none
            | none => none
          | "record", [m, one, _] =>
            if one == "1" ∧ obsRetList.contains s!"{k.chat}/{m}" then
              some ("C11.oneshot-retained", s!"one-shot event {m} is in the retained log and will be replayed")
            else
              let wrong := (List.range st.names.length).find? fun id =>
                let target := (after.delivered.drop before.delivered.length).any (·.1 = id) && !st.stalled.contains id
                let got := (framesOf (st.names.getD id "") l.impl).getD []
                !st.stalled.contains id && got ≠ (if target then [s!"{k.chat}/{m}"] else [])
              wrong.map fun id => ("C11.broadcast", s!"event {m}: {st.names.getD id ""} received {csv ((framesOf (st.names.getD id "") l.impl).getD [])}")
          | "lremove", [n, ln] =>
            match idOf n with
            | some id =>
              if isAuthedNow before id ∧ before.listeners.contains ln ∧ obsRetList.contains s!"{k.lAdd}/{ln}" then
                some ("C11.removed-listener-replayed", s!"listener {ln} was removed but an add event of it is still in the retained log {obsRetained}")
              else none
            | none => none
          | _, _ => none
        match specErr with
        | some (cls, d) => (st2, .specFail cls d)
        | none =>
          -- correspondence with the model: frames of every connection, and the retained log
          let mism := (List.range st2.names.length).find? fun id =>
            !st.stalled.contains id && (framesOf (st2.names.getD id "") l.impl).getD [] ≠ newFor k before after id
          match mism with
          | some id => (st2, .diff s!"{st2.names.getD id ""}={csv (newFor k before after id)}")
          | none =>
            if obsRetList ≠ after.retained.map (render k) then (st2, .diff s!"retained={csv (after.retained.map (render k))}")
            else (st2, .ok)

end Havoc.DriverC11
