import HavocVerif.Basic.Proto
import HavocVerif.Model.Tasks
/-
  Driver for C05.
    reset <logs 0|1>
    agent <id>
    issue <id> <cmd> <req>
    cb <id> <cmd> <req> <final 0|1|?> <body> => fx=<n> tasks=<csv|-> st=<0|1> files=<n>
-/
namespace Havoc.DriverC05
open Havoc

structure St where
  logs : Bool := false
  tasks : List (String × List Nat) := []

def St.get (s : St) (id : String) : List Nat := (s.tasks.lookup id).getD []
def St.put (s : St) (id : String) (t : List Nat) : St :=
  { s with tasks := (id, t) :: s.tasks.filter (·.1 != id) }

def kv (key : String) (toks : List String) : Option String :=
  toks.findSome? fun t => if t.startsWith (key ++ "=") then some ((t.drop (key.length + 1)).toString) else none

def showTasks (t : List Nat) : String := if t.isEmpty then "-" else ",".intercalate (t.map toString)

def step (s : St) (l : Line) : St × Verdict :=
  match l.op, l.args with
  | "world", [lg] => ({ logs := lg == "1", tasks := [] }, .ok)
  | "agent", id :: _ => (s.put id [], .ok)
  | "issue", [id, _cmd, req] =>
    match req.toNat? with
    | some r => (s.put id (s.get id ++ [r]), .ok)
    | none => (s, .bad "issue args")
  | "pfplant", [id, x] =>
    -- relay traffic is accepted without an outstanding task, but it is not a way to make an id outstanding
    match x.toNat?, (kv "tasks" l.impl).bind natCsv with
    | some xv, some after =>
      if after.count xv > (s.get id).count xv then
        (s.put id after, .specFail "C05.tasks" s!"relay traffic of {id} carried request id {xv}; afterwards that id is on the record of outstanding ids ({showTasks after}) although no task with it was issued")
      else (s.put id after, .ok)
    | _, _ => (s, .bad s!"pfplant output {joinSp l.impl}")
  | "handout", [id] =>
    -- the tasks leave for the agent: they stay outstanding exactly as recorded (nothing retired, nothing recorded again)
    match (kv "tasks" l.impl).bind natCsv with
    | some after =>
      if after == s.get id then (s, .ok)
      else (s.put id after, .specFail "C05.tasks" s!"handing the queued tasks of {id} out changed the record of outstanding ids: {showTasks (s.get id)} -> {showTasks after}")
    | none => (s, .bad s!"handout output {joinSp l.impl}")
  | "issuebof", [id, req] =>
    -- through TaskPrepare: the file chunks it queues carry request ids of their own, so the record is read back
    match req.toNat?, (kv "tasks" l.impl).bind natCsv with
    | some r, some after =>
      if after.contains r then (s.put id after, .ok)
      else (s.put id after, .specFail "C05.tasks" s!"task {r} was issued but its id is not on record ({showTasks after})")
    | _, _ => (s, .bad "issuebof output")
  | "cb", [id, cmd, req, final, _body] =>
    match cmd.toNat?, req.toNat?, kv "fx" l.impl, kv "tasks" l.impl, kv "st" l.impl, kv "files" l.impl with
    | some c, some r, some fx, some tk, some st, some files =>
      match natCsv tk with
      | none => (s, .bad "tasks csv")
      | some after =>
        let before := s.get id
        let known := isKnown s.logs before r c
        let s' := s.put id after
        if !known then
          -- Spec: dropped without console output, session change, loot write; nothing forgotten
          if fx ≠ "0" then (s', .specFail "C05.gate" s!"callback cmd={c} req={r} for agent {id} has no outstanding task (outstanding {showTasks before}) yet produced {fx} effect(s)")
          else if st ≠ "0" then (s', .specFail "C05.gate" s!"unsolicited callback cmd={c} req={r} changed session state")
          else if files ≠ "0" then (s', .specFail "C05.gate" s!"unsolicited callback cmd={c} req={r} wrote {files} loot file(s)")
          else if after ≠ before then (s', .specFail "C05.gate" s!"unsolicited callback cmd={c} req={r} changed the outstanding ids {showTasks before} -> {showTasks after}")
          else (s', .ok)
        else
          -- only this callback's id may be forgotten, nothing may be added
          -- (an id can be on record more than once - issued again, or 0 - and a handler may retire it more than once:
          --  that only makes the gate stricter; what may not happen is that any OTHER id changes, or that one appears)
          if after.filter (· ≠ r) ≠ before.filter (· ≠ r) ∨ after.count r > before.count r then
            (s', .specFail "C05.tasks" s!"callback cmd={c} req={r} turned the outstanding ids {showTasks before} into {showTasks after}")
          else if final == "1" ∧ before.contains r ∧ after.count r ≥ before.count r then
            (s', .specFail "C05.completed" s!"final callback cmd={c} req={r} processed but the id is still accepted (outstanding {showTasks after})")
          else if final == "0" ∧ after ≠ before then
            (s', .diff s!"tasks={showTasks before}")
          else (s', .ok)
    | _, _, _, _, _, _ => (s, .bad s!"cb output: {joinSp l.impl}")
  | op, _ => (s, .bad s!"unknown op {op}")

end Havoc.DriverC05
