import HavocVerif.Basic.Proto
import HavocVerif.Model.Http
import HavocVerif.Model.Registry
/-
  Driver for C16 (see harness/cmd/hv/c16.go for the line formats).
-/
namespace Havoc.DriverC16
open Havoc

structure St where
  tHttp : Nat := 1
  tSmb : Nat := 2
  tExt : Nat := 3
  reg : Reg := {}
  svc : Svc := {}
  snames : List String := []          -- service connections; index = owner id
  ua : List (String × String) := []   -- live HTTP listeners and their current user agent
  busy : List String := []            -- HTTP listeners whose port was taken
  prevNames : List String := []       -- running listeners the implementation reported on the previous line

def kv (key : String) (toks : List String) : Option String :=
  toks.findSome? fun t => if t.startsWith (key ++ "=") then some ((t.drop (key.length + 1)).toString) else none

def lst (s : Option String) : List String :=
  match s with
  | none => []
  | some "-" => []
  | some v => v.splitOn ","

def csv (xs : List String) : String := if xs.isEmpty then "-" else ",".intercalate xs

def typeOf (st : St) : LKind → Nat
  | .http => st.tHttp
  | .smb => st.tSmb
  | .ext => st.tExt
  | .svcExt _ => st.tExt

def strOf (s : Str) : String := String.ofList s

def hasDup : List String → Bool
  | [] => false
  | x :: xs => xs.contains x || hasDup xs

def sameSet (a b : List String) : Bool := a.all b.contains && b.all a.contains

def sortStr (l : List String) : List String := (l.toArray.qsort (· < ·)).toList

/-- what a request to listener `n` must meet, given the filter as last edited -/
def probeWant (ua : List (String × String)) (busy : List String) (n u path hdr : String) : String :=
  match ua.lookup n with
  | some cur =>
    let (cu, curis, chdr) := match cur.splitOn "|" with
      | [a, b, c] => (a, b, c)
      | _ => (cur, "-", "-")
    let cfg : HttpConfig := { uris := if curis == "-" then [] else (curis.splitOn "+").map String.toList,
                              headers := if chdr == "-" then [] else [((chdr.replace ":" ": ")).toList],
                              userAgent := cu.toList, respHeaders := [], behindRedir := false }
    let rq : HttpReq := { method := "POST".toList, requestUri := path.toList,
                          headers := [("User-Agent".toList, u.toList)] ++
                            (match hdr.splitOn ":" with | [k, v] => [(k.toList, v.toList)] | _ => []),
                          peerHost := [] }
    if admits cfg rq then "served" else "rejected"
  | none => if busy.contains n then "any" else "noconn"

def step (st : St) (l : Line) : St × Verdict :=
  match l.op, l.args with
  | "world", args =>
    let g (k : String) (d : Nat) := ((kv k args).bind String.toNat?).getD d
    ({ st with tHttp := g "http" 1, tSmb := g "smb" 2, tExt := g "ext" 3 }, .ok)
  | op, args =>
    let ownerOf (n : String) : Option Nat := st.snames.idxOf? n
    -- model transition
    let st1 : Option St :=
      match op, args with
      | "ladd", ["smb", n] => some { st with reg := regStep st.reg (.add .smb n "") }
      | "ladd", ["ext", n, e] => some { st with reg := regStep st.reg (.add .ext n e) }
      | "ladd", [k, n] =>
        if k == "http" || k == "httpbusy" then
          let fresh := !st.reg.has n
          some { st with reg := regStep st.reg (.add .http n ""),
                         ua := if fresh && k == "http" then (n, "ua-1") :: st.ua else st.ua,
                         busy := if fresh && k == "httpbusy" then n :: st.busy else st.busy }
        else none
      | "ledit", [n, u] => some { st with ua := st.ua.map fun (k, v) => if k == n then (k, u) else (k, v) }
      | "ledit", [n, u, uris, hdr] => some { st with ua := st.ua.map fun (k, v) => if k == n then (k, s!"{u}|{uris}|{hdr}") else (k, v) }
      | "probe", [_, _] => some st
      | "probe", [_, _, _, _] => some st
      | "halfopen", [_] => some st
      | "lremove", [n] => some { st with reg := regStep st.reg (.remove n), ua := st.ua.filter (·.1 ≠ n), busy := st.busy.filter (· ≠ n) }
      | "sconn", [n] =>
        let id := st.snames.length
        let s1 := svcStep (fun x => x) [] st.svc (.connect id)
        some { st with snames := st.snames ++ [n], svc := svcStep (fun x => x) [] s1 (.message id (some ⟨headRegister, []⟩) .other) }
      | "sreg", [c, "agent", t] => (ownerOf c).map fun id => { st with svc := svcStep (fun x => x) [] st.svc (.message id none (.registerAgent t.toList)) }
      | "sreg", [c, "listener", k] => (ownerOf c).map fun id => { st with svc := svcStep (fun x => x) [] st.svc (.message id none (.listenerAdd k.toList)) }
      | "sreg", [c, "exc2", n, e] => (ownerOf c).map fun id =>
          if st.svc.stateOf id = some .authed then { st with reg := regStep st.reg (.svcExc2 id n e) } else st
      | "sclose", [c] => (ownerOf c).map fun id =>
          { st with svc := svcStep (fun x => x) [] st.svc (.close id), reg := regStep st.reg (.svcGone id) }
      | "scloseall", [] =>
          some ((List.range st.snames.length).foldl (fun s id =>
            { s with svc := svcStep (fun x => x) [] s.svc (.close id), reg := regStep s.reg (.svcGone id) }) st)
      | _, _ => none
    match st1 with
    | none => (st, .bad s!"unknown operation {op} {args}")
    | some st1 =>
      let obsMem := lst (kv "mem" l.impl)
      let obsNames := obsMem.map fun t => (t.splitOn ":").headD ""
      let obsDb := lst (kv "db" l.impl)
      let obsAdv := lst (kv "adv" l.impl)
      let obsEps := lst (kv "endpoints" l.impl)
      let obsSa := lst (kv "sagents" l.impl)
      let obsSl := lst (kv "slisteners" l.impl)
      let r := st1.reg
      -- External listeners as the implementation reports them: name@endpoint, "!" = owned by a service connection
      let obsExts := (lst (kv "exts" l.impl)).map fun t =>
        let owned := t.endsWith "!"
        let t' := if owned then (t.dropEnd 1).toString else t
        match t'.splitOn "@" with
        | [n, e] => (n, e, owned)
        | _ => (t', "", owned)
      let svcOwned := (obsExts.filter (·.2.2)).map (·.1)
      let builtinObs := obsNames.filter fun n => !svcOwned.contains n
      let wantMem := r.mem.map fun (n, k) => s!"{n}:{typeOf st1 k}"
      let wantEps := r.endpoints.map (·.1)
      let wantSa := st1.svc.agents.map fun x => strOf x.1
      let wantSl := st1.svc.listeners.map fun x => strOf x.1
      -- Spec clauses on what the implementation did
      let st1 := { st1 with prevNames := obsNames }
      let removedStillThere : Option String := match op, args with
        | "lremove", [n] => if st.prevNames.contains n && (obsNames.contains n || obsDb.contains n || obsAdv.contains n) then some n else none
        | _, _ => none
      let orphan := obsExts.find? fun x => !obsEps.contains x.2.1
      if let some n := removedStillThere then
        (st1, .specFail "C16.remove-leftover" s!"listener {n} was removed by an operator but is still there: running {csv obsNames}, persisted {csv obsDb}, advertised {csv obsAdv}")
      else
      if let some (n, e, _) := orphan then
        (st1, .specFail "C16.listener-without-endpoint" s!"External listener {n} is listed as running but its endpoint {e} is not routed (endpoints: {csv obsEps}) after {op} {args}")
      else if hasDup obsNames then (st1, .specFail "C16.duplicate-name" s!"two running listeners share a name: {csv obsMem}")
      else if hasDup obsDb then (st1, .specFail "C16.duplicate-name" s!"two persisted listeners share a name: {csv obsDb}")
      else if !sameSet builtinObs obsDb then
        (st1, .specFail "C16.views-differ" s!"running built-in listeners {csv builtinObs} but persisted {csv obsDb} after {op} {args}")
      else if !(builtinObs.all obsAdv.contains) then
        (st1, .specFail "C16.views-differ" s!"running built-in listeners {csv builtinObs} but advertised {csv obsAdv} after {op} {args}")
      else if !(obsAdv.all builtinObs.contains) then
        if obsAdv.all (fun n => builtinObs.contains n || svcOwned.contains n) then
          (st1, .specFail "C16.advertised-phantom" s!"advertised {csv obsAdv} although the running built-in listeners are {csv builtinObs}: a rejected add request naming a service's listener is replayed")
        else (st1, .specFail "C16.views-differ" s!"advertised {csv obsAdv} but running built-in listeners {csv builtinObs} after {op} {args}")
      else
        let special : Option Verdict :=
          match op, args with
          | "lremove", [n] =>
            if (st.ua.any (·.1 == n)) && kv "tcp" l.impl == some "accepts" then
              some (.specFail "C16.removed-still-accepting" s!"HTTP listener {n} was removed but its port still accepts connections")
            else none
          | "probe", [n, u] =>
            let want := probeWant st.ua st.busy n u "/" "-"
            let got := l.impl.headD ""
            if want == "any" || got == want || (want == "noconn" && got == "nolistener") then none
            else some (.specFail "C16.edit-not-applied" s!"request with user agent {u} to listener {n} (configured: {st.ua.lookup n}) was {got}, expected {want}")
          | "probe", [n, u, path, hdr] =>
            let want := probeWant st.ua st.busy n u path hdr
            let got := l.impl.headD ""
            if want == "any" || got == want || (want == "noconn" && got == "nolistener") then none
            else some (.specFail "C16.edit-not-applied" s!"request {path} with user agent {u} and header {hdr} to listener {n} (filter as last edited: {st.ua.lookup n}) was {got}, expected {want}")
          | "ladd", ["http", n] =>
            if (st1.ua.any (·.1 == n)) && !(st.ua.any (·.1 == n)) && kv "tcp" l.impl == some "refused" then
              some (.diff s!"tcp=accepts")
            else none
          | _, _ => none
        match special with
        | some v => (st1, v)
        | none =>
          if op == "sclose" || op == "scloseall" then
            let closed : List Nat := if op == "scloseall" then List.range st.snames.length else (args.head?.bind ownerOf).toList
            let ownedBefore (sel : Svc → List (Str × Nat)) := ((sel st.svc).filter fun x => closed.contains x.2).map fun x => strOf x.1
            let leftover := (ownedBefore (·.agents)).filter obsSa.contains ++ (ownedBefore (·.listeners)).filter obsSl.contains
            let goneMem := (st.reg.mem.filter fun x => match x.2 with | .svcExt o => closed.contains o | _ => false).map (·.1)
            let leftMem := goneMem.filter obsNames.contains
            let goneEps := (st.reg.endpoints.filter fun x => goneMem.contains x.2).map (·.1)
            let leftEps := goneEps.filter obsEps.contains
            if !leftover.isEmpty then (st1, .specFail "C16.service-leftover" s!"registrations {csv leftover} of the closed service connection are still there")
            else if !leftMem.isEmpty || !leftEps.isEmpty then
              (st1, .specFail "C16.service-leftover-exc2" s!"External-C2 listeners {csv leftMem} / endpoints {csv leftEps} registered by the closed service connection are still there")
            else if !(wantSa.all obsSa.contains) || !(wantSl.all obsSl.contains) || !(wantMem.all obsMem.contains) || !(wantEps.all obsEps.contains) then
              (st1, .specFail "C16.service-collateral" s!"registrations of OTHER connections disappeared: agents {csv obsSa} (want {csv wantSa}), listener kinds {csv obsSl} (want {csv wantSl}), listeners {csv obsMem}, endpoints {csv obsEps}")
            else (st1, .ok)
          else if obsMem ≠ wantMem then (st1, .diff s!"mem={csv wantMem}")
          else if obsDb ≠ sortStr r.db then (st1, .diff s!"db={csv (sortStr r.db)}")
          else if obsAdv ≠ r.adv then (st1, .diff s!"adv={csv r.adv}")
          else if obsEps ≠ wantEps then (st1, .diff s!"endpoints={csv wantEps}")
          else if obsSa ≠ wantSa then (st1, .diff s!"sagents={csv wantSa}")
          else if obsSl ≠ wantSl then (st1, .diff s!"slisteners={csv wantSl}")
          else (st1, .ok)

end Havoc.DriverC16
