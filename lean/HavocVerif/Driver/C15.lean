import HavocVerif.Basic.Proto
import HavocVerif.Model.Socks
/-
  Driver for C15.
    hello <chunk,…> => recv=<hex> job=<connect:atyp:addr:port|-> clients=<n>
    agentconnect <ok> <errorcode> => recv=<hex> clients=<n>
    clientwrite <chunk,…> => tasks=<n> data=<hex> samesock=<bool>
    agentread <data> => recv=<hex>
    agentclose => closed=<bool> clients=<n>      clientclose => closetasks=<n> clients=<n>
-/
namespace Havoc.DriverC15
open Havoc

def kv (key : String) (toks : List String) : Option String :=
  toks.findSome? fun t => if t.startsWith (key ++ "=") then some ((t.drop (key.length + 1)).toString) else none

def chunks (s : String) : Option Bytes :=
  if s = "-" then some [] else ((s.splitOn ",").mapM ofHex).map List.flatten

structure St where
  req : Option SocksReq := none
  servers : List String := []
  base : Nat := 0          -- sockets in the table that do not belong to the current session

def step (st : St) (l : Line) : St × Verdict :=
  match l.op, l.args with
  | "hello", [cs] =>
    match chunks cs, kv "recv" l.impl, kv "job" l.impl with
    | some stream, some recv, some job =>
      let (sent, wantJob, req) : Bytes × String × Option SocksReq := match socksFrontEnd stream with
        | .waiting s => (s, "-", none)
        | .dropped s => (s, "-", none)
        | .connect s q _ => (s, s!"connect:{q.atyp.toNat}:{toHexP q.addr}:{q.port}", some q)
      let nclients := ((kv "clients" l.impl).bind String.toNat?).getD 0
      let st' : St := { st with req := req, base := if req.isSome then nclients - 1 else nclients }
      if recv ≠ toHexP sent then
        let cls := if sent.take 2 ≠ (((ofHex recv).getD []).take 2) then "C15.negotiation" else "C15.reply"
        (st', .specFail cls s!"client stream {toHexP stream} (any chunking): proxy answered {recv}, RFC 1928 prescribes {toHexP sent}")
      else if job ≠ wantJob then
        (st', .specFail "C15.request" s!"client stream {toHexP stream}: task for the agent is {job}, the request says {wantJob}")
      else (st', .ok)
    | _, _, _ => (st, .bad "hello")
  | "agentconnect", [ok, ec] =>
    match st.req, kv "recv" l.impl, ec.toNat? with
    | some q, some recv, some e =>
      let rep : UInt8 := if ok == "1" then 0 else failureReply e
      let want := createResponse rep q.atyp q.addr q.port
      if recv ≠ toHexP want then (st, .specFail "C15.reply" s!"reply to the client is {recv}, expected {toHexP want}")
      else if ok ≠ "1" ∧ kv "clients" l.impl ≠ some (toString st.base) then
        (st, .specFail "C15.close" "a refused connection stays in the socket table")
      else (st, .ok)
    | _, _, _ => (st, .bad "agentconnect")
  | "clientwrite", [cs] =>
    match chunks cs, kv "data" l.impl, kv "samesock" l.impl with
    | some data, some got, some same =>
      if got ≠ toHexP data then (st, .specFail "C15.relay" s!"client wrote {toHexP data}; the write tasks carry {got}")
      else if same ≠ "true" then (st, .specFail "C15.relay" "a write task carries another socket id")
      else (st, .ok)
    | _, _, _ => (st, .bad "clientwrite")
  | "agentread", [d] =>
    match kv "recv" l.impl with
    | some got => if got ≠ d then (st, .specFail "C15.relay" s!"agent returned {d}; the client received {got}") else (st, .ok)
    | none => (st, .bad "agentread")
  | "agentclose", _ =>
    if kv "closed" l.impl ≠ some "true" ∨ kv "clients" l.impl ≠ some (toString st.base) then
      (st, .specFail "C15.close" s!"agent closed the socket: {joinSp l.impl}") else (st, .ok)
  | "clientclose", _ =>
    if kv "clients" l.impl ≠ some (toString st.base) ∨ kv "closetasks" l.impl == some "0" then
      (st, .specFail "C15.close" s!"client closed the connection: {joinSp l.impl} (socket must leave the table and the agent must be told)")
    else (st, .ok)
  | "opsocks", [cmd, param] =>
    -- model of the proxy table under operator commands (ports are unique strings)
    let servers' : List String := match cmd with
      | "add" => if st.servers.contains param then st.servers else st.servers ++ [param]
      | "kill" => st.servers.erase param
      | "clear" => []
      | _ => st.servers
    let st' := { st with servers := servers' }
    match l.impl.head?, kv "servers" l.impl, kv "mutex" l.impl with
    | some res, some got, some mtx =>
      if res.startsWith "PANIC" then (st', .specFail ("C15.panic." ++ (res.drop 6).toString) s!"socks {cmd} with {st.servers.length} proxies panics")
      else if res == "TIMEOUT" then ({ st' with servers := [] }, .specFail "C15.lock" s!"socks {cmd} does not return (proxy table mutex never released)")
      else if mtx ≠ "free" then ({ st' with servers := [] }, .specFail "C15.lock" s!"socks {cmd} leaves the proxy table mutex held")
      else
        let want := if servers'.isEmpty then "-" else ",".intercalate servers'
        if got ≠ want then (st', .specFail "C15.table" s!"after socks {cmd} {param} the proxy table is {got}, expected {want}") else (st', .ok)
    | _, _, _ => (st', .bad "opsocks")
  | op, _ => (st, .bad s!"unknown op {op}")

end Havoc.DriverC15
