import HavocVerif.Basic.Proto
import HavocVerif.Model.Socks
import HavocVerif.Model.PortFwd
/-
  Driver for C15.
    hello <chunk,…> => recv=<hex> job=<connect:atyp:addr:port|-> clients=<n>
    agentconnect <ok> <errorcode> => recv=<hex> clients=<n>
    clientwrite <chunk,…> => tasks=<n> data=<hex> samesock=<bool>
    agentread <data> => recv=<hex>
    agentclose => closed=<bool> clients=<n>      clientclose => closetasks=<n> clients=<n>
-/
namespace Havoc.DriverC15
open Havoc

def kv (key : String) (toks : List String) : Option String :=
  toks.findSome? fun t => if t.startsWith (key ++ "=") then some ((t.drop (key.length + 1)).toString) else none

def chunks (s : String) : Option Bytes :=
  if s = "-" then some [] else ((s.splitOn ",").mapM ofHex).map List.flatten

structure St where
  req : Option SocksReq := none
  servers : List String := []
  base : Nat := 0          -- sockets in the table that do not belong to the current session
  pf : PortFwd.St := {}    -- the reverse port-forward half
  answered : List Nat := []  -- forwards whose target has answered (and half-closed) on the current connection

/-- the implementation's table `sid:open|closed,…` as a sorted list -/
def parseTable (s : String) : Option (List (Nat × Bool)) :=
  if s = "-" then some [] else
  ((s.splitOn ",").mapM fun (t : String) =>
    match t.splitOn ":" with
    | [i, st] => (String.toNat? i).map fun n => (n, st == "open")
    | _ => none).map fun (l : List (Nat × Bool)) => l.mergeSort fun a b => a.1 ≤ b.1

def modelTable (p : PortFwd.St) : List (Nat × Bool) :=
  (p.fwds.map fun f => (f.sid, f.conn)).mergeSort fun a b => a.1 ≤ b.1

def showTable (t : List (Nat × Bool)) : String :=
  if t.isEmpty then "-" else ",".intercalate (t.map fun (i, o) => s!"{i}:{if o then "open" else "closed"}")

def pfCheckTable (st : St) (l : Line) (what : String) : Verdict :=
  match (kv "table" l.impl).bind parseTable, kv "res" l.impl with
  | _, some r =>
    if r ≠ "ok" then .specFail "C15.portfwd" s!"{what}: handling ended with {r}"
    else match (kv "table" l.impl).bind parseTable with
      | some t => if t ≠ modelTable st.pf then .specFail "C15.portfwd" s!"{what}: the forward table is {showTable t}, expected {showTable (modelTable st.pf)}" else .ok
      | none => .bad "pf table"
  | _, none => .bad "pf output"

def step (st : St) (l : Line) : St × Verdict :=
  match l.op, l.args with
  | "pfreset", [] => ({ st with pf := {}, answered := [] }, .ok)
  | "pfopen", [sid, up] =>
    match sid.toNat? with
    | some i =>
      let st' := { st with pf := (PortFwd.step st.pf (.open_ i (up == "1"))).1 }
      (st', pfCheckTable st' l s!"client reported on forward {i}")
    | none => (st, .bad "pfopen")
  | "pfup", [sid] =>
    match sid.toNat? with
    | some i => ({ st with pf := (PortFwd.step st.pf (.up i)).1 }, .ok)
    | none => (st, .bad "pfup")
  | "pfread", [sid, data] =>
    match sid.toNat?, ofHex data with
    | some i, some d =>
      let (p', out) := PortFwd.step st.pf (.read i d)
      let st' := { st with pf := p' }
      let wantGot := match (p'.find i).orElse (fun _ => p'.targets.find? (·.sid == i)) with
        | some f => if f.got.isEmpty then "-" else toHexP f.got
        | none => "-"
      let errs := ((kv "errs" l.impl).bind String.toNat?).getD 0
      match pfCheckTable st' l s!"data for forward {i}" with
      | .ok =>
        if kv "got" l.impl ≠ some wantGot then
          (st', .specFail "C15.portfwd" s!"forward {i}: its target has received {(kv "got" l.impl).getD "?"}, the agent relayed {wantGot}")
        else if out == .refused ∧ errs = 0 then
          (st', .specFail "C15.portfwd" s!"forward {i}: the data could not be delivered but no error was reported")
        else if out == .written ∧ errs ≠ 0 then
          (st', .specFail "C15.portfwd" s!"forward {i}: the data was delivered, yet {errs} error(s) were reported")
        else (st', .ok)
      | v => (st', v)
    | _, _ => (st, .bad "pfread")
  | "pfreply", [sid, data] =>
    match sid.toNat?, kv "jobs" l.impl with
    | some i, some jobs =>
      let connected := match st.pf.find i with | some f => f.conn | none => false
      if connected && !st.answered.contains i then
        let want := s!"{i}:{data}"
        ({ st with answered := i :: st.answered },
          if jobs ≠ want then .specFail "C15.portfwd" s!"forward {i}: its target answered {data} and closed; socket-write tasks for the agent: {jobs}, expected {want}" else .ok)
      else (st, if jobs ≠ "-" then .specFail "C15.portfwd" s!"forward {i} has no open connection to answer on, yet tasks {jobs} were queued" else .ok)
    | _, _ => (st, .bad "pfreply")
  | "pfremove", sid :: _type =>      -- whichever socket type the agent reports the removal with
    match sid.toNat? with
    | some i =>
      let st' := { st with pf := (PortFwd.step st.pf (.remove i)).1, answered := st.answered.filter (· ≠ i) }
      match pfCheckTable st' l s!"removal of forward {i}" with
      | .ok =>
        match (kv "live" l.impl).map (·.splitOn "->") with
        | some [_, left] => if left ≠ "0" then (st', .specFail "C15.portfwd" s!"forward {i} was removed but {left} connection(s) to its target stay open") else (st', .ok)
        | _ => (st', .bad "pfremove live")
      | v => (st', v)
    | none => (st, .bad "pfremove")
  | "hello", [cs] =>
    match chunks cs, kv "recv" l.impl, kv "job" l.impl with
    | some stream, some recv, some job =>
      let (sent, wantJob, req) : Bytes × String × Option SocksReq := match socksFrontEnd stream with
        | .waiting s => (s, "-", none)
        | .dropped s => (s, "-", none)
        | .connect s q _ => (s, s!"connect:{q.atyp.toNat}:{toHexP q.addr}:{q.port}", some q)
      let nclients := ((kv "clients" l.impl).bind String.toNat?).getD 0
      let st' : St := { st with req := req, base := if req.isSome then nclients - 1 else nclients }
      if recv ≠ toHexP sent then
        let cls := if sent.take 2 ≠ (((ofHex recv).getD []).take 2) then "C15.negotiation" else "C15.reply"
        (st', .specFail cls s!"client stream {toHexP stream} (any chunking): proxy answered {recv}, RFC 1928 prescribes {toHexP sent}")
      else if job ≠ wantJob then
        (st', .specFail "C15.request" s!"client stream {toHexP stream}: task for the agent is {job}, the request says {wantJob}")
      else (st', .ok)
    | _, _, _ => (st, .bad "hello")
  | "agentconnect", [ok, ec] =>
    match st.req, kv "recv" l.impl, ec.toNat? with
    | some q, some recv, some e =>
      let rep : UInt8 := if ok == "1" then 0 else failureReply e
      let want := createResponse rep q.atyp q.addr q.port
      if recv ≠ toHexP want then (st, .specFail "C15.reply" s!"reply to the client is {recv}, expected {toHexP want}")
      else if ok ≠ "1" ∧ kv "clients" l.impl ≠ some (toString st.base) then
        (st, .specFail "C15.close" "a refused connection stays in the socket table")
      else (st, .ok)
    | _, _, _ => (st, .bad "agentconnect")
  | "clientwrite", [cs] =>
    match chunks cs, kv "data" l.impl, kv "samesock" l.impl with
    | some data, some got, some same =>
      if got ≠ toHexP data then (st, .specFail "C15.relay" s!"client wrote {toHexP data}; the write tasks carry {got}")
      else if same ≠ "true" then (st, .specFail "C15.relay" "a write task carries another socket id")
      else (st, .ok)
    | _, _, _ => (st, .bad "clientwrite")
  | "agentread", [d] =>
    match kv "recv" l.impl with
    | some got => if got ≠ d then (st, .specFail "C15.relay" s!"agent returned {d}; the client received {got}") else (st, .ok)
    | none => (st, .bad "agentread")
  | "slowread", _ =>
    if kv "sent" l.impl == kv "got" l.impl ∧ kv "firstdiff" l.impl == some "-1" then (st, .ok)
    else (st, .specFail "C15.relay" s!"the agent returned a large amount and then more while the client was not reading; once it read, the client got {joinSp l.impl}: not all of it, in order")
  | "agentclose", _ =>
    if kv "closed" l.impl ≠ some "true" ∨ kv "clients" l.impl ≠ some (toString st.base) then
      (st, .specFail "C15.close" s!"agent closed the socket: {joinSp l.impl}") else (st, .ok)
  | "clientclose", _ =>
    if kv "clients" l.impl ≠ some (toString st.base) ∨ kv "closetasks" l.impl == some "0" then
      (st, .specFail "C15.close" s!"client closed the connection: {joinSp l.impl} (socket must leave the table and the agent must be told)")
    else (st, .ok)
  | "opsocks", [cmd, param] =>
    -- model of the proxy table under operator commands (ports are unique strings)
    let servers' : List String := match cmd with
      | "add" => if st.servers.contains param then st.servers else st.servers ++ [param]
      | "kill" => st.servers.erase param
      | "clear" => []
      | _ => st.servers
    let st' := { st with servers := servers' }
    match l.impl.head?, kv "servers" l.impl, kv "mutex" l.impl with
    | some res, some got, some mtx =>
      if res.startsWith "PANIC" then (st', .specFail ("C15.panic." ++ (res.drop 6).toString) s!"socks {cmd} with {st.servers.length} proxies panics")
      else if res == "TIMEOUT" then ({ st' with servers := [] }, .specFail "C15.lock" s!"socks {cmd} does not return (proxy table mutex never released)")
      else if mtx ≠ "free" then ({ st' with servers := [] }, .specFail "C15.lock" s!"socks {cmd} leaves the proxy table mutex held")
      else
        let want := if servers'.isEmpty then "-" else ",".intercalate servers'
        if got ≠ want then (st', .specFail "C15.table" s!"after socks {cmd} {param} the proxy table is {got}, expected {want}") else (st', .ok)
    | _, _, _ => (st', .bad "opsocks")
  | op, _ => (st, .bad s!"unknown op {op}")

end Havoc.DriverC15
