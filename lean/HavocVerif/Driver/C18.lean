import HavocVerif.Basic.Proto
import HavocVerif.Model.Expr
/-
  Driver for C18.
    expr <tree> env=<name:val;…> min=<hex> red=<hex> => min:ast=<tree>;val=<val|ERR> red:ast=…;val=…
  tree: N<int> T F Z S<hex> V<name> U-(e) U!(e) B<op>(l,r) C(c,t,f) L(e,…) O(khex=e,…) I(e,i) A(e,name) R<var>(coll,body[,cond]) P(part,…)
  val:  n<int> t f z s<hex> l(v,…) o(khex=v,…) q<float> (a non-integer number)
-/
namespace Havoc.DriverC18
open Havoc Havoc.Hx

def hexStr (cs : List Char) : Option String :=
  (ofHex (String.ofList cs)).map fun bs => String.fromUTF8! (ByteArray.mk bs.toArray)

def takeWhileC (p : Char → Bool) : List Char → List Char × List Char
  | [] => ([], [])
  | c :: cs => if p c then let (a, b) := takeWhileC p cs; (c :: a, b) else ([], c :: cs)

def isHexC (c : Char) : Bool := c.isDigit || ('a' ≤ c && c ≤ 'f') || c == '-'
def isNameC (c : Char) : Bool := c.isAlphanum || c == '_'

def opOf : String → Option BinOp
  | "or" => some .or | "and" => some .and | "eq" => some .eq | "ne" => some .ne
  | "lt" => some .lt | "le" => some .le | "gt" => some .gt | "ge" => some .ge
  | "add" => some .add | "sub" => some .sub | "mul" => some .mul | "div" => some .div | "mod" => some .mod
  | _ => none

def parseIntC (cs : List Char) : Option (Int × List Char) :=
  let (neg, r) := match cs with | '-' :: r => (true, r) | r => (false, r)
  let (ds, rest) := takeWhileC Char.isDigit r
  if ds.isEmpty then none
  else
    let v : Nat := ds.foldl (fun acc c => acc * 10 + (c.toNat - 48)) 0
    some ((if neg then -(v : Int) else v), rest)

/-- the variables of a `for`: `v` or `k:v` -/
def parseVars (cs : List Char) : Option String × String × List Char :=
  let (a, r1) := takeWhileC isNameC cs
  match r1 with
  | ':' :: r2 => let (b, r3) := takeWhileC isNameC r2; (some (String.ofList a), String.ofList b, r3)
  | _ => (none, String.ofList a, r1)

mutual
  partial def parseE (cs : List Char) : Option (E × List Char) :=
    match cs with
    | 'N' :: r => (parseIntC r).map fun (n, r') => (E.num n, r')
    | 'T' :: r => some (.bool true, r)
    | 'F' :: r => some (.bool false, r)
    | 'Z' :: r => some (.null, r)
    | 'S' :: r => let (h, r') := takeWhileC isHexC r; (hexStr h).map fun s => (E.str s, r')
    | 'V' :: r => let (n, r') := takeWhileC isNameC r; some (.var (String.ofList n), r')
    | 'U' :: '-' :: '(' :: r => match parseE r with
      | some (e, ')' :: r') => some (.neg e, r')
      | _ => none
    | 'U' :: '!' :: '(' :: r => match parseE r with
      | some (e, ')' :: r') => some (.not e, r')
      | _ => none
    | 'B' :: r =>
      let (o, r1) := takeWhileC Char.isAlpha r
      match opOf (String.ofList o), r1 with
      | some op, '(' :: r2 => match parseE r2 with
        | some (l, ',' :: r3) => match parseE r3 with
          | some (rr, ')' :: r4) => some (.bin op l rr, r4)
          | _ => none
        | _ => none
      | _, _ => none
    | 'C' :: '(' :: r => match parseList r with
      | some ([c, t, f], r') => some (.cond c t f, r')
      | _ => none
    | 'L' :: '(' :: r => (parseList r).map fun (es, r') => (E.tuple es, r')
    | 'P' :: '(' :: r => (parseList r).map fun (es, r') => (E.tmpl es, r')
    | 'M' :: a :: b :: '(' :: r => match parseE r with
      | some (e, ')' :: r') => some (.strip (a == '1') (b == '1') e, r')
      | _ => none
    | 'I' :: '(' :: r => match parseList r with
      | some ([c, k], r') => some (.index c k, r')
      | _ => none
    | 'A' :: '(' :: r => match parseE r with
      | some (c, ',' :: r1) =>
        let (n, r2) := takeWhileC isNameC r1
        match r2 with
        | ')' :: r3 => some (.attr c (String.ofList n), r3)
        | _ => none
      | _ => none
    | 'R' :: r =>
      match parseVars r with
      | (k, v, '(' :: r2) => match parseList r2 with
        | some ([c, b], r') => some (.forE k v c none b none false, r')
        | some ([c, b, f], r') => some (.forE k v c none b (some f) false, r')
        | _ => none
      | _ => none
    | 'Q' :: r =>
      match parseVars r with
      | (k, v, '(' :: r2) => match parseList r2 with
        | some ([c, ke, b], r') => some (.forE k v c (some ke) b none false, r')
        | some ([c, ke, b, f], r') => some (.forE k v c (some ke) b (some f) false, r')
        | _ => none
      | _ => none
    | 'G' :: r =>
      match parseVars r with
      | (k, v, '(' :: r2) => match parseList r2 with
        | some ([c, ke, b], r') => some (.forE k v c (some ke) b none true, r')
        | some ([c, ke, b, f], r') => some (.forE k v c (some ke) b (some f) true, r')
        | _ => none
      | _ => none
    | '@' :: r => some (.anon, r)
    | 'X' :: '(' :: r => match parseList r with
      | some ([src, each], r') => some (.splat src each, r')
      | _ => none
    | 'W' :: '(' :: r => (parseList r).map fun (es, r') => (E.tmplS es, r')
    | 'K' :: r =>      -- a call: K<name>(args) / K<name>...(args)
      let (nm, r1) := takeWhileC (fun c => c.isAlphanum || c == '_') r
      match r1 with
      | '.' :: '.' :: '.' :: '(' :: r2 => (parseList r2).map fun (es, r') => (E.call (String.ofList nm) es true, r')
      | '(' :: r2 => (parseList r2).map fun (es, r') => (E.call (String.ofList nm) es false, r')
      | _ => none
    | 'H' :: '0' :: '(' :: r => (parseList r).map fun (es, r') => (E.heredoc false es, r')
    | 'H' :: '1' :: '(' :: r => (parseList r).map fun (es, r') => (E.heredoc true es, r')
    | 'J' :: '(' :: r => match parseE r with
      | some (e, ')' :: r') => some (.join e, r')
      | _ => none
    | 'O' :: '(' :: r => (parseItems r).map fun (its, r') => (E.obj its, r')
    | _ => none
  partial def parseList (cs : List Char) : Option (List E × List Char) :=
    match cs with
    | ')' :: r => some ([], r)
    | _ => match parseE cs with
      | some (e, ',' :: r) => (parseList r).map fun (es, r') => (e :: es, r')
      | some (e, ')' :: r) => some ([e], r)
      | _ => none
  partial def parseItems (cs : List Char) : Option (List (String × E) × List Char) :=
    match cs with
    | ')' :: r => some ([], r)
    | _ =>
      let (h, r1) := takeWhileC isHexC cs
      match hexStr h, r1 with
      | some k, '=' :: r2 => match parseE r2 with
        | some (e, ',' :: r3) => (parseItems r3).map fun (its, r') => ((k, e) :: its, r')
        | some (e, ')' :: r3) => some ([(k, e)], r3)
        | _ => none
      | _, _ => none
end

mutual
  partial def parseV (cs : List Char) : Option (V × List Char) :=
    match cs with
    | 'n' :: r => (parseIntC r).map fun (n, r') => (V.num n, r')
    | 't' :: r => some (.bool true, r)
    | 'f' :: r => some (.bool false, r)
    | 'z' :: r => some (.null, r)
    | 's' :: r => let (h, r') := takeWhileC isHexC r; (hexStr h).map fun s => (V.str s, r')
    | 'l' :: '(' :: r => (parseVs r).map fun (vs, r') => (V.tuple vs, r')
    | 'L' :: '(' :: r => (parseVs r).map fun (vs, r') => (V.listv vs, r')
    | 'm' :: '(' :: r => (parseVItems r).map fun (its, r') => (V.mapv (its.foldl (fun acc (k, v) => insertItem k v acc) []), r')
    | 'o' :: '(' :: r => (parseVItems r).map fun (its, r') => (V.obj (its.foldl (fun acc (k, v) => insertItem k v acc) []), r')
    | _ => none
  partial def parseVs (cs : List Char) : Option (List V × List Char) :=
    match cs with
    | ')' :: r => some ([], r)
    | _ => match parseV cs with
      | some (v, ',' :: r) => (parseVs r).map fun (vs, r') => (v :: vs, r')
      | some (v, ')' :: r) => some ([v], r)
      | _ => none
  partial def parseVItems (cs : List Char) : Option (List (String × V) × List Char) :=
    match cs with
    | ')' :: r => some ([], r)
    | _ =>
      let (h, r1) := takeWhileC isHexC cs
      match hexStr h, r1 with
      | some k, '=' :: r2 => match parseV r2 with
        | some (v, ',' :: r3) => (parseVItems r3).map fun (its, r') => ((k, v) :: its, r')
        | some (v, ')' :: r3) => some ([(k, v)], r3)
        | _ => none
      | _, _ => none
end

partial def showV : V → String
  | .num n => s!"n{n}"
  | .bool true => "t"
  | .bool false => "f"
  | .null | .tnull _ => "z"
  | .str s => "s" ++ (if s.isEmpty then "-" else toHex s.toUTF8.toList)
  | .tuple vs | .listv vs => "l(" ++ ",".intercalate (vs.map showV) ++ ")"      -- the harness prints sequences and mappings alike
  | .obj its | .mapv its => "o(" ++ ",".intercalate (its.map fun (k, v) => (if k.isEmpty then "-" else toHex k.toUTF8.toList) ++ "=" ++ showV v) ++ ")"

partial def showE : E → String
  | .num n => s!"N{n}"
  | .bool true => "T"
  | .bool false => "F"
  | .null => "Z"
  | .str s => "S" ++ (if s.isEmpty then "-" else toHex s.toUTF8.toList)
  | .var x => "V" ++ x
  | .neg e => "U-(" ++ showE e ++ ")"
  | .not e => "U!(" ++ showE e ++ ")"
  | .bin op l r => "B" ++ (match op with
      | .or => "or" | .and => "and" | .eq => "eq" | .ne => "ne" | .lt => "lt" | .le => "le" | .gt => "gt" | .ge => "ge"
      | .add => "add" | .sub => "sub" | .mul => "mul" | .div => "div" | .mod => "mod") ++ "(" ++ showE l ++ "," ++ showE r ++ ")"
  | .cond c t f => "C(" ++ showE c ++ "," ++ showE t ++ "," ++ showE f ++ ")"
  | .tuple es => "L(" ++ ",".intercalate (es.map showE) ++ ")"
  | .obj its => "O(" ++ ",".intercalate (its.map fun (k, e) => (if k.isEmpty then "-" else toHex k.toUTF8.toList) ++ "=" ++ showE e) ++ ")"
  | .index c k => "I(" ++ showE c ++ "," ++ showE k ++ ")"
  | .attr c n => "A(" ++ showE c ++ "," ++ n ++ ")"
  | .forE k v c ke b f g =>
    (match ke with | none => "R" | some _ => if g then "G" else "Q") ++ (match k with | some kn => kn ++ ":" | none => "") ++ v ++ "(" ++ showE c
      ++ (match ke with | some x => "," ++ showE x | none => "") ++ "," ++ showE b ++ (match f with | some x => "," ++ showE x | none => "") ++ ")"
  | .anon => "@"
  | .splat src each => "X(" ++ showE src ++ "," ++ showE each ++ ")"
  | .join e => "J(" ++ showE e ++ ")"
  | .tmplS ps =>
    match normTmpl none ps with
    | [.str s] => showE (.str s)
    | [] => "S-"
    | [p] => "W(" ++ showE p ++ ")"
    | ps' => "P(" ++ ",".intercalate (ps'.map showE) ++ ")"
  | .strip _ _ e => showE e
  | .heredoc fl ps => showE (.tmplS (heredocParts fl ps))
  | .call name args expand => "K" ++ name ++ (if expand then "..." else "") ++ "(" ++ ",".intercalate (args.map showE) ++ ")"
  | .tmpl ps =>
    -- as the parser builds it: markers applied, a template of one literal is that literal
    match normTmpl none ps with
    | [.str s] => showE (.str s)
    | [] => "S-"
    | ps' => "P(" ++ ",".intercalate (ps'.map showE) ++ ")"

def kv (key : String) (toks : List String) : Option String :=
  toks.findSome? fun t => if t.startsWith (key ++ "=") then some ((t.drop (key.length + 1)).toString) else none

def parseEnv (s : String) : Option Env :=
  (s.splitOn ";").mapM fun b =>
    match b.splitOn ":" with
    | [n, v] => (parseV v.toList).map fun (x, _) => (n, x)
    | _ => none

/-- one spelling's result: `ast=<tree>;val=<val>` -/
def judge (which : String) (tree : E) (expected : Res) (res : String) : Option Verdict :=
  if res.startsWith "PANIC" then
    some (.specFail "C18.panic" s!"{which} spelling: parsing / evaluating {showE tree} panicked: {res}")
  else
  match res.splitOn ";" with
  | [a, v] =>
    let ast := (a.drop 4).toString
    let val := (v.drop 4).toString
    if ast ≠ showE tree then
      some (.specFail "C18.parse" s!"{which} spelling: the parser built {ast}, the written tree is {showE tree}")
    else
      match expected with
      | .inexact => none
      | .err _ => if val == "ERR" then none else some (.specFail "C18.value" s!"{which} spelling: the language defines an error for {showE tree}, the evaluator returned {val}")
      | .ok x =>
        if val == showV x then none
        else if val == "ERR" then some (.specFail "C18.value" s!"{which} spelling: {showE tree} should evaluate to {showV x}, the evaluator reported an error")
        else if (val.replace "2d30" "30") == showV x then
          some (.specFail "C18.negative-zero" s!"{which} spelling: {showE tree} is zero, interpolated into a template it reads \"-0\" (expected {showV x}, got {val})")
        else some (.specFail "C18.value" s!"{which} spelling: {showE tree} should evaluate to {showV x}, the evaluator returned {val}")
  | _ => some (.bad "result format")

def step (l : Line) : Verdict :=
  match l.op, l.args with
  | "expr", tree :: rest =>
    match parseE tree.toList, (kv "env" rest).bind parseEnv with
    | some (t, []), some env =>
      let expected := eval 200 env t
      match l.impl with
      | [a, b] =>
        match judge "minimal" t expected ((a.drop 4).toString) with
        | some v => v
        | none => (judge "redundant" t expected ((b.drop 4).toString)).getD .ok
      | _ => .bad "output"
    | _, _ => .bad s!"cannot read tree/env"
  | _, _ => .bad "unknown operation"

end Havoc.DriverC18
