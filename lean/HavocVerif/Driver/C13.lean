import HavocVerif.Basic.Proto
import HavocVerif.Model.Builder
/-
  Driver for C13 (see harness/cmd/hv/c13.go).
    patch <k=v …> => <ok:hex|ERR> <ok:hex|ERR>      (two builds in a row with the same listener object)
    build svc=<hex> … => built=<bool> compilercalls=<n> define=<hex|none> marker=<bool>
-/
namespace Havoc.DriverC13
open Havoc

def kv (key : String) (toks : List String) : Option String :=
  toks.findSome? fun t => if t.startsWith (key ++ "=") then some ((t.drop (key.length + 1)).toString) else none

/-- hex of UTF-8 → code points (the operator's strings are valid UTF-8) -/
def utf8Dec : Bytes → List Nat
  | [] => []
  | b :: rest =>
    let n := b.toNat
    if n < 0x80 then n :: utf8Dec rest
    else if n < 0xE0 then
      match rest with
      | c :: r => ((n - 0xC0) * 64 + (c.toNat - 0x80)) :: utf8Dec r
      | _ => [0xFFFD]
    else if n < 0xF0 then
      match rest with
      | c :: d :: r => ((n - 0xE0) * 4096 + (c.toNat - 0x80) * 64 + (d.toNat - 0x80)) :: utf8Dec r
      | _ => [0xFFFD]
    else
      match rest with
      | c :: d :: e :: r => ((n - 0xF0) * 262144 + (c.toNat - 0x80) * 4096 + (d.toNat - 0x80) * 64 + (e.toNat - 0x80)) :: utf8Dec r
      | _ => [0xFFFD]

def str (toks : List String) (k : String) : List Nat := ((kv k toks).bind ofHex).map utf8Dec |>.getD []
def strS (toks : List String) (k : String) : String := String.ofList ((str toks k).map Char.ofNat)
def strList (toks : List String) (k : String) : List (List Nat) :=
  match kv k toks with
  | none => []
  | some "-" => []
  | some v => (v.splitOn ",").map fun h => ((ofHex h).map utf8Dec).getD []

def optsOf (t : List String) : Option BuildOpts :=
  -- Sleep: strconv.Atoi; Jitter: absent = 0
  match goAtoi (str t "sleep") with
  | none => none
  | some sleep =>
    let jitter : Option Int := if kv "jitter" t == some "absent" then some 0 else goAtoi (str t "jitter")
    jitter.map fun j =>
      { sleep := sleep, jitter := j, indirectSyscall := kv "sys" t == some "1",
        alloc := strS t "alloc", execute := strS t "exec", spawn64 := str t "s64", spawn32 := str t "s32",
        technique := strS t "tech", gadget := strS t "gadget", stackDup := kv "stack" t == some "1",
        proxyLoading := strS t "pl", amsi := strS t "amsi" }

def lower (s : String) : String := s.map Char.toLower

def listenerOf (t : List String) : Option ListenerL :=
  match kv "L" t with
  | some "smb" => some (.smb (str t "pipe") (((kv "kd" t).bind String.toNat?).getD 0) (str t "wh"))
  | some "http" =>
    let proxy := match strList t "proxy" with
      | [a, b, c, d, e] => some (a, b, c, d, e)
      | _ => none
    some (.http { portConn := str t "pconn", portBind := str t "pbind", killDate := ((kv "kd" t).bind String.toNat?).getD 0,
                  hours := str t "wh", getMethod := lower (strS t "method") == "get", rotation := strS t "rot",
                  hosts := strList t "hosts", secure := kv "sec" t == some "1", userAgent := str t "ua",
                  headers := strList t "hdrs", hostHeader := str t "hh", uris := strList t "uris", proxy := proxy })
  | _ => none

def showUnits (us : List Nat) : String :=
  String.ofList ((us.filter (· ≠ 0)).map fun u => if u < 0xD800 ∨ (0xE000 ≤ u ∧ u < 0x10000) then Char.ofNat u else '?')

/-- first field on which two configurations differ -/
def cfgDiff (want got : DemonCfg) : String :=
  if want.sleep ≠ got.sleep then s!"sleep: chosen {want.sleep}, payload {got.sleep}"
  else if want.jitter ≠ got.jitter then s!"jitter: chosen {want.jitter}, payload {got.jitter}"
  else if want.alloc ≠ got.alloc then s!"alloc: chosen {want.alloc}, payload {got.alloc}"
  else if want.execute ≠ got.execute then s!"execute: chosen {want.execute}, payload {got.execute}"
  else if want.spawn64 ≠ got.spawn64 then s!"spawn64: chosen {showUnits want.spawn64}, payload {showUnits got.spawn64}"
  else if want.spawn32 ≠ got.spawn32 then s!"spawn32: chosen {showUnits want.spawn32}, payload {showUnits got.spawn32}"
  else if want.technique ≠ got.technique then s!"sleep technique: chosen {want.technique}, payload {got.technique}"
  else if want.bypass ≠ got.bypass then s!"jump gadget: chosen {want.bypass}, payload {got.bypass}"
  else if want.stackSpoof ≠ got.stackSpoof then s!"stack duplication: chosen {want.stackSpoof}, payload {got.stackSpoof}"
  else if want.proxyLoading ≠ got.proxyLoading then s!"proxy loading: chosen {want.proxyLoading}, payload {got.proxyLoading}"
  else if want.sysIndirect ≠ got.sysIndirect then s!"indirect syscalls: chosen {want.sysIndirect}, payload {got.sysIndirect}"
  else if want.amsi ≠ got.amsi then s!"amsi/etw: chosen {want.amsi}, payload {got.amsi}"
  else match want.transport, got.transport with
    | .http kd wh m rot hosts sec ua hd ur px, .http kd' wh' m' rot' hosts' sec' ua' hd' ur' px' =>
      if kd ≠ kd' then s!"kill date: listener {kd}, payload {kd'}"
      else if wh ≠ wh' then s!"working hours word: listener {wh}, payload {wh'}"
      else if m ≠ m' then "method"
      else if rot ≠ rot' then s!"host rotation: listener {rot}, payload {rot'}"
      else if hosts ≠ hosts' then s!"hosts: listener {hosts.map fun h => (showUnits h.1, h.2)}, payload {hosts'.map fun h => (showUnits h.1, h.2)}"
      else if sec ≠ sec' then "secure flag"
      else if ua ≠ ua' then s!"user agent: listener {showUnits ua}, payload {showUnits ua'}"
      else if hd ≠ hd' then s!"headers: listener {hd.map showUnits}, payload {hd'.map showUnits}"
      else if ur ≠ ur' then s!"uris: listener {ur.map showUnits}, payload {ur'.map showUnits}"
      else if px ≠ px' then "proxy settings"
      else "?"
    | .smb p kd wh, .smb p' kd' wh' =>
      if p ≠ p' then s!"pipe name: listener {showUnits p}, payload {showUnits p'}"
      else if kd ≠ kd' then "kill date" else if wh ≠ wh' then "working hours" else "?"
    | _, _ => "transport kind"

def judge (spec : Option DemonCfg) (smb : Bool) (which : String) (res : String) : Option Verdict :=
  if res.startsWith "ok:" then
    match ofHex ((res.drop 3).toString) with
    | none => some (.bad "hex")
    | some bs =>
      match spec with
      | none => some (.specFail "C13.unencodable-accepted" s!"{which} build: these options / listener settings cannot be encoded, yet a configuration block of {bs.length} bytes was produced")
      | some want =>
        match readCfg smb bs with
        | some (got, []) =>
          if got = want then (if packCfg want = bs then none else some (.diff s!"{which}:{toHex (packCfg want)}"))
          else some (.specFail "C13.config-mismatch" s!"{which} build: the Demon reads a different configuration than was chosen — {cfgDiff want got}")
        | some (_, rest) => some (.specFail "C13.config-mismatch" s!"{which} build: {rest.length} bytes are left over after the Demon has read its configuration")
        | none => some (.specFail "C13.config-mismatch" s!"{which} build: the configuration block is too short for the Demon's reads")
  else
    match spec with
    | none => none
    | some _ => some (.diff s!"{which}:ok")

def safeName (s : List Nat) : Bool :=
  s.all fun c => (48 ≤ c ∧ c ≤ 57) ∨ (65 ≤ c ∧ c ≤ 90) ∨ (97 ≤ c ∧ c ≤ 122) ∨ c = 95 ∨ c = 45 ∨ c = 46

def step (l : Line) : Verdict :=
  match l.op with
  | "patch" =>
    let spec : Option DemonCfg := match optsOf l.args, listenerOf l.args with
      | some o, some li => specCfg o li
      | _, _ => none
    let smb := kv "L" l.args == some "smb"
    match l.impl with
    | [first, second] =>
      match judge spec smb "first" first with
      | some v => v
      | none => (judge spec smb "second" second).getD .ok
    | _ => .bad "patch output"
  | "build" =>
    let svc := str l.args "svc"
    let marker := kv "marker" l.impl == some "true"
    let define := kv "define" l.impl
    let calls := ((kv "compilercalls" l.impl).bind String.toNat?).getD 0
    let built := kv "built" l.impl == some "true"
    if marker then .specFail "C13.shell-injection" s!"the service name {repr (String.ofList (svc.map Char.ofNat))} was executed by the shell during the build (marker file created)"
    else if built then
      -- the compiler must have been given exactly -DSERVICE_NAME="<name>" (a random name when none was chosen)
      let want := toHex (utf8 ([34] ++ svc ++ [34]))
      if svc ≠ [] ∧ define ≠ some want then
        .specFail "C13.shell-injection" s!"service name {repr (String.ofList (svc.map Char.ofNat))}: the compiler received SERVICE_NAME={define} instead of the name as data"
      else if calls ≠ 1 then .diff s!"compilercalls=1"
      else .ok
    else
      -- a failed build is fine for a name that cannot be passed safely; a plain name must build
      if safeName svc then .diff "built=true" else .ok
  | "opbuild" =>
    -- the operator's build request through the teamserver: whatever the architecture, format and service name strings
    -- are, none of them is run by a shell
    if kv "marker" l.impl == some "true" then
      .specFail "C13.shell-injection" s!"a build request with architecture {repr (String.ofList ((str l.args "arch").map Char.ofNat))} / format {repr (String.ofList ((str l.args "format").map Char.ofNat))} / service name {repr (String.ofList ((str l.args "svc").map Char.ofNat))} made the teamserver's shell run a command of the operator's text (marker file created)"
    else if (kv "run" l.impl).map (·.startsWith "done") != some true then .bad s!"opbuild: {joinSp l.impl}"
    else if (kv "compilercalls" l.impl) != some "0" ∧ (kv "pipe" l.impl) != some "main" then
      -- two listeners whose names differ in case only exist; the request names the first: its pipe is the one compiled in
      .specFail "C13.config-mismatch" s!"the build request names listener smb1 (pipe main_pipe); the configuration compiled in is for: {(kv "pipe" l.impl).getD "?"}"
    else .ok
  | _ => .bad s!"unknown operation {l.op}"

end Havoc.DriverC13
