import HavocVerif.Basic.Proto
import HavocVerif.Model.Write
/-
  Driver for C20.
    edit ops=<op;…> src=<hex> => same=<b> fbytes=<b> idem=<b> toks=<b> tree=<b> ops=<status,…> in=<events> out=<events>
  events: {ev,ev,…}; ev = A<name>=<val> | C<hex> | L<hex> | T<hex> | B<type>[<hex>,…]{…}
-/
namespace Havoc.DriverC20
open Havoc Havoc.Wr

def kv (key : String) (toks : List String) : Option String :=
  toks.findSome? fun t => if t.startsWith (key ++ "=") then some ((t.drop (key.length + 1)).toString) else none

/-- split at commas that are not inside (), [] or {} -/
def splitTop (cs : List Char) : List (List Char) :=
  let rec go (depth : Nat) (cur : List Char) (acc : List (List Char)) : List Char → List (List Char)
    | [] => (cur.reverse :: acc).reverse
    | c :: rest =>
      if c == ',' && depth == 0 then go depth [] (cur.reverse :: acc) rest
      else if c == '(' || c == '[' || c == '{' then go (depth + 1) (c :: cur) acc rest
      else if c == ')' || c == ']' || c == '}' then go (depth - 1) (c :: cur) acc rest
      else go depth (c :: cur) acc rest
  go 0 [] [] cs

partial def parseBody (cs : List Char) : Option (List Item) :=
  -- cs = '{' … '}'
  match cs with
  | '{' :: rest =>
    let inner := rest.dropLast
    if rest.getLast? ≠ some '}' then none
    else if inner.isEmpty then some []
    else (splitTop inner).mapM parseItem
  | _ => none
where
  parseItem (cs : List Char) : Option Item :=
    match cs with
    | 'A' :: r =>
      let name := r.takeWhile (· ≠ '=')
      let val := (r.dropWhile (· ≠ '=')).drop 1
      some (.attr (String.ofList name) (String.ofList val))
    | 'C' :: r => some (.free (String.ofList r))
    | 'L' :: r => some (.lead (String.ofList r))
    | 'T' :: r => some (.trail (String.ofList r))
    | 'B' :: r =>
      let ty := r.takeWhile (· ≠ '[')
      let r1 := (r.dropWhile (· ≠ '[')).drop 1
      let ls := r1.takeWhile (· ≠ ']')
      let r2 := (r1.dropWhile (· ≠ ']')).drop 1
      (parseBody r2).map fun body =>
        .block (String.ofList ty) (if ls.isEmpty then [] else (String.ofList ls).splitOn ",") body
    | _ => none

partial def showBody (b : List Item) : String :=
  "{" ++ ",".intercalate (b.map fun it => match it with
    | .attr n v => "A" ++ n ++ "=" ++ v
    | .free t => "C" ++ t
    | .lead t => "L" ++ t
    | .trail t => "T" ++ t
    | .block ty ls body => "B" ++ ty ++ "[" ++ ",".intercalate ls ++ "]" ++ showBody body) ++ "}"

def parsePathS (s : String) : List Nat := if s == "-" || s == "" then [] else (s.splitOn ".").filterMap String.toNat?

/-- the canonical value text of what SetAttributeValue was given: n7 t f s<hex> l<hex>+<hex> -/
def canonVal (s : String) : String :=
  match s.toList with
  | 'n' :: r => "vn" ++ String.ofList r
  | ['t'] => "vt"
  | ['f'] => "vf"
  | 's' :: r => "vs" ++ String.ofList r
  | 'r' :: r => "t" ++ String.ofList r          -- a reference: the expression's tokens, as the harness renders an unevaluated value
  | 'l' :: r =>
    let parts := ((String.ofList r).splitOn "+").filter (· ≠ "")
    "vl(" ++ ",".intercalate (parts.map fun p => "s" ++ p) ++ ")"
  | _ => "?"

def parseOp (s : String) : Option Op :=
  match s.splitOn ":" with
  | ["set", p, n, v] => some (.set (parsePathS p) n (canonVal v))
  | ["rm", p, n] => some (.rm (parsePathS p) n)
  | ["addblock", p, ty, ls] => some (.addBlock (parsePathS p) ty (if ls == "" then [] else ls.splitOn "+"))
  | ["rmblock", p, i] => i.toNat?.map fun k => .rmBlock (parsePathS p) k
  | _ => none

def step (l : Line) : Verdict :=
  match l.op with
  | "edit" =>
    let flag (k : String) := kv k l.impl == some "true"
    if l.impl.headD "" == "PARSEERR" then .bad "the generated source does not parse"
    else if !flag "same" then .specFail "C20.tokens-not-identical" "the unformatted token stream of the loaded file is not the input"
    else if !flag "idem" then .specFail "C20.format-not-idempotent" "formatting the formatted file changes it again"
    else if !flag "toks" then .specFail "C20.format-changes-tokens" "formatting changed more than spaces, tabs and indentation"
    else if !flag "tree" then .specFail "C20.format-changes-meaning" "the formatted file does not parse to the same tree and values"
    else if !flag "fbytes" then .diff "fbytes=true"
    else
      match (kv "in" l.impl).bind (fun s => parseBody s.toList), kv "out" l.impl with
      | some body, some out =>
        let opsS := (kv "ops" l.args).getD "-"
        let ops := if opsS == "-" then some [] else (opsS.splitOn ";").mapM parseOp
        match ops with
        | none => .bad "ops"
        | some ops =>
          let want := showBody (ops.foldl apply body)
          if out == want then .ok
          else if out.startsWith "SYNTAXERR" then
            .specFail "C20.edit-breaks-file" s!"after {opsS} the file no longer parses"
          else .specFail "C20.edit-wrong" s!"after {opsS}: re-parsing shows {out}, the edits mean {want}"
      | _, _ => .bad "events"
  | _ => .bad "unknown operation"

end Havoc.DriverC20
