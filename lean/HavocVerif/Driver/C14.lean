import HavocVerif.Basic.Proto
import HavocVerif.Model.Profile
import HavocVerif.Model.StrLit
/-
  Driver for C14.
    load cfg=<entries> nfc=<entries> mut=<kind>:<path> lits=<name:spellinghex:valuehex,…> src=<hex>
      => ok:<entries> | ERR:<summaryhex>:<detailhex>:<line>:<lines in file>
-/
namespace Havoc.DriverC14
open Havoc Havoc.Profile

def kv (key : String) (toks : List String) : Option String :=
  toks.findSome? fun t => if t.startsWith (key ++ "=") then some ((t.drop (key.length + 1)).toString) else none

def sortStr (l : List String) : List String := (l.toArray.qsort (· < ·)).toList
def render (es : List Entry) : List String := sortStr (es.map fun e => e.path ++ "=" ++ e.val)

def hexText (h : String) : String := ((ofHex h).map fun bs => String.fromUTF8! (ByteArray.mk bs.toArray)).getD ""

def lastName (path : String) : String := ((parsePath path).getLast?.map (·.name)).getD ""

def firstDiff (want got : List String) : String :=
  match want.find? (fun w => !got.contains w), got.find? (fun g => !want.contains g) with
  | some w, some g => s!"written {w}, loaded {g}"
  | some w, none => s!"written {w}, not loaded"
  | none, some g => s!"loaded {g}, never written"
  | none, none => "order"

def step (l : Line) : Verdict :=
  match l.op with
  | "load" =>
    let cfg := parseEntries ((kv "cfg" l.args).getD "-")
    let nfc := parseEntries ((kv "nfc" l.args).getD "-")
    let mutS := (kv "mut" l.args).getD "none:-"
    let (kind, path) := match mutS.splitOn ":" with
      | [k, p] => (k, p)
      | _ => ("none", "-")
    -- the string literals the file was written with must mean what was intended (StrLit model)
    let lits := match kv "lits" l.args with
      | some "-" | none => []
      | some s => s.splitOn ","
    let badLit := lits.find? fun t =>
      match t.splitOn ":" with
      | [_, sp, v] =>
        match ofHex sp, ofHex v with
        | some spb, some vb => StrLit.unquote (spb.length + 2) spb != some vb
        | _, _ => true
      | _ => true
    match badLit with
    | some t => .diff s!"literal {t}: the model reads it differently"
    | none =>
      if !wellFormed cfg then .bad "the generated configuration does not fit the regenerated schema"
      else
        let res := l.impl.headD ""
        if res.startsWith "PANIC" then .specFail "C14.panic" s!"loading the profile ({kind} at {path}) crashes: {res.take 160}" else
        let isOk := res.startsWith "ok:"
        let got := if isOk then sortStr (((res.drop 3).toString.splitOn ";").filter (· ≠ "-")) else []
        -- what the fault makes of the configuration
        let fld := fieldOfEntry path
        let mustFail : Bool := match kind with
          | "none" => false
          | "dropattr" => (fld.map fun f => f.kind == "attr").getD false
          | "wrongkind" => true
          | "syntax" => true
          | "unknownattr" => true
          | "dupblock" =>
            -- a block that may appear once (a pointer field)
            (fld.map fun f => f.kind == "block" && !isRepeated f.goType).getD false
          | _ => false
        if mustFail then
          if isOk then .specFail "C14.fault-accepted" s!"{kind} at {path}: the profile is invalid, yet it was loaded without an error"
          else
            match (res.splitOn ":") with
            | [_, sh, dh, line, nl] =>
              let text := hexText sh ++ " " ++ (if dh == "-" then "" else hexText dh)
              let name := if kind == "unknownattr" then "NoSuchSetting" else lastName path
              let ln := line.toNat?.getD 0
              let n := nl.toNat?.getD 0
              let mline := ((kv "mline" l.args).bind String.toNat?).getD 0
              let named := (text.splitOn name).length > 1
              if ln < 1 ∨ ln > n then
                .specFail "C14.bad-diagnostic" s!"{kind} at {path}: the error points at line {ln} of a file with {n} lines"
              else if !named && (mline == 0 || ln != mline) then
                -- the problem must be named or located: neither the setting's name nor its line
                .specFail "C14.bad-diagnostic" s!"{kind} at {path} (line {mline}): the error neither names {name} nor points at its line (it says line {ln}): {text}"
              else .ok
            | _ => .bad "error format"
        else
          if !isOk then
            .specFail "C14.valid-rejected" s!"a valid profile ({kind}) was rejected: {hexText ((res.splitOn ":").getD 1 "")} {hexText ((res.splitOn ":").getD 2 "")}"
          else if kind == "dupblock" then .ok      -- one more element of a repeated block: indices shift, not compared
          else
            let drop (es : List Entry) := if kind == "dropattr" then es.filter (·.path ≠ path) else es
            let want := render (expected (drop cfg))
            let wantNfc := render (expected (drop nfc))
            if got == want then .ok
            else if got.length == want.length && (got.all fun g => want.contains g || wantNfc.contains g) then
              .specFail "C14.nfc-normalised" s!"a string came back in Unicode normalisation form C instead of as written: {firstDiff want got}"
            else .specFail "C14.value-changed" s!"the loaded configuration is not the written one: {firstDiff want got}"
  | _ => .bad "unknown operation"

end Havoc.DriverC14
