import HavocVerif.Basic.Proto
import HavocVerif.Model.Queue
/-
  Driver for C04 (queue discipline at job granularity; sizes are symbolic so that
  30 MB jobs cost nothing).
    agent <id>
    enq <id> <cmd> <req> <argspec>           argspec = kind[@len],…   (str@n: n bytes without NUL)
    checkin <id> <pkgs> => N | J cmd:req:bodylen;…       pkgs ∈ {G,O} list, G = COMMAND_GET_JOB
    clear <id> => <n>
    upload <id> <size> <req1,req2,…> <usecmd> <usereq> => <fileid> (the chunk jobs + using job are then queued)
    memfile … see `chunksOk`
-/
namespace Havoc.DriverC04
open Havoc

structure QJob where
  cmd : Nat
  req : Nat
  qsize : Nat
  bodyLen : Nat
  deriving DecidableEq, Repr

def parseSpecTok (s : String) : Option (Nat × Nat) :=   -- (queueSize, bodyLen)
  match s.splitOn "@" with
  | [k] =>
    match k with
    | "int" | "int32" | "uint32" | "bool" => some (4, 4)
    | "int64" | "uint64" => some (8, 8)
    | "int16" | "uint16" => some (2, 2)
    | "byte" => some (1, 1)
    | _ => none
  | [k, n] =>
    match k, n.toNat? with
    | "bytes", some n => some (4 + n, 4 + n)
    | "str", some n => some (4 + n, 4 + n + 1)       -- terminator added on the wire, not counted
    | "strz", some n => some (4 + n, 4 + n)          -- already NUL-terminated (n includes the NUL)
    | _, _ => none
  | _ => none

def parseSpec (s : String) : Option (Nat × Nat) :=
  if s = "-" then some (0, 0)
  else (s.splitOn ",").foldlM (fun (a, b) t => (parseSpecTok t).map fun (x, y) => (a + x, b + y)) (0, 0)

structure AgentSt where
  id : String
  queue : List QJob
  deriving Repr

structure St where
  agents : List AgentSt := []

def St.find (s : St) (id : String) : Option AgentSt := s.agents.find? (·.id == id)
def St.set (s : St) (a : AgentSt) : St := { s with agents := a :: s.agents.filter (·.id != a.id) }

def parseDelivered (s : String) : Option (List (Nat × Nat × Nat)) :=
  (s.splitOn ";").mapM fun t =>
    match t.splitOn ":" with
    | [c, r, l] => do pure ((← c.toNat?), (← r.toNat?), (← l.toNat?))
    | _ => none

def parseTagged (s : String) : Option (List (Nat × Nat)) :=
  if s = "-" then some [] else
  (s.splitOn ",").mapM fun t =>
    match t.splitOn "." with
    | [p, i] => do pure ((← p.toNat?), (← i.toNat?))
    | _ => none

/-- first thing wrong with a concurrent run, for the report -/
def concWhy (p k : Nat) (got : List (Nat × Nat)) : String :=
  let dup := got.find? fun x => (got.filter (· == x)).length > 1
  let missing := ((List.range p).flatMap fun i => (List.range k).map fun j => (i + 1, j)).find? fun x => !got.contains x
  let disorder := (List.range p).find? fun i =>
    let mine := (got.filter (fun x => x.1 == i + 1)).map (·.2)
    !(mine.zip mine.tail).all fun (a, b) => a < b
  s!"{p} producers x {k} tasks: {got.length} handed out" ++
    (match dup with | some x => s!"; task {x.1}.{x.2} handed out more than once" | none => "") ++
    (match missing with | some x => s!"; task {x.1}.{x.2} never handed out" | none => "") ++
    (match disorder with | some i => s!"; tasks of producer {i + 1} out of order" | none => "")

def showBatch (b : List QJob) : String :=
  ";".intercalate (b.map fun j => s!"{j.cmd}:{j.req}:{j.bodyLen}")

def step (s : St) (l : Line) : St × Verdict :=
  let implS := joinSp l.impl
  match l.op, l.args with
  | "agent", [id] => (s.set ⟨id, []⟩, .ok)
  | "enq", [id, cmd, req, spec] =>
    match s.find id, cmd.toNat?, req.toNat?, parseSpec spec with
    | some a, some c, some r, some (qs, bl) =>
      (s.set { a with queue := a.queue ++ [⟨c, r, qs, bl⟩] }, if implS = "ok" then .ok else .bad implS)
    | _, _, _, _ => (s, .bad "enq args")
  | "clear", [id] =>
    match s.find id with
    | some a =>
      let n := a.queue.length
      (s.set { a with queue := [] }, if implS = toString n then .ok else .diff (toString n))
    | none => (s, .bad "clear: unknown agent")
  | "checkin", [id, pkgs] =>
    match s.find id with
    | none => (s, .bad "checkin: unknown agent")
    | some a =>
      let asked := (pkgs.splitOn ",").contains "G"
      let (mb, mrest) := checkinBy QJob.qsize asked a.queue
      let modelS := match mb with
        | none => "N"
        | some b => "J " ++ showBatch b
      match l.impl with
      | ["N"] =>
        -- Spec: a no-job reply to a request that asks is allowed only if nothing is queued
        if asked && !a.queue.isEmpty then
          (s, .specFail "C04.nojob" s!"asked for jobs with {a.queue.length} queued but got the no-job reply")
        else if modelS ≠ "N" then (s, .diff modelS) else (s, .ok)
      | ["J", d] =>
        match parseDelivered d with
        | none => (s, .bad "delivered list")
        | some ds =>
          let want := (a.queue.take ds.length).map fun j => (j.cmd, j.req, j.bodyLen)
          let s' := s.set { a with queue := a.queue.drop ds.length }
          if !asked then
            (s', .specFail "C04.nojob" s!"tasks handed out to a request that did not ask for jobs: {d}")
          else if ds ≠ want || ds.length > a.queue.length then
            (s', .specFail "C04.fifo" s!"handed out {d} but the queue (in order) starts {showBatch (a.queue.take (ds.length + 1))}")
          else
            let batch := a.queue.take ds.length
            let total := (batch.map QJob.qsize).sum
            if total ≥ maxResponse && batch.length > 1 then
              (s', .specFail "C04.bound" s!"{batch.length} tasks with {total} bytes of data in one reply (limit {maxResponse})")
            else if modelS ≠ implS then (s', .diff (modelS.take 300).toString) else (s', .ok)
      | _ => (s, .bad s!"checkin impl output: {(implS.take 100).toString}")
  | "chunks", [size, chunk] =>
    -- impl: <n>:<len1>,<len2>,… sameid=<0|1> total=<0|1> concat=<0|1>
    match size.toNat?, chunk.toNat?, l.impl with
    | some sz, some ch, [lens, sid, tot, cat, bef] =>
      let want := (chunkRanges ch sz).map (·.2)
      let wantS := ",".intercalate (want.map toString)
      if sid ≠ "sameid=1" then (s, .specFail "C04.chunks" s!"size={sz}: chunks carry different file ids")
      else if tot ≠ "total=1" then (s, .specFail "C04.chunks" s!"size={sz}: a chunk carries a wrong total size")
      else if cat ≠ "concat=1" then (s, .specFail "C04.chunks" s!"size={sz}: chunks do not concatenate to the file (lens {lens})")
      else if bef ≠ "before=1" then (s, .specFail "C04.chunks" s!"size={sz}: the command using the file is queued before its chunks")
      else if lens ≠ wantS then (s, .diff wantS) else (s, .ok)
    | _, _, _ => (s, .bad "chunks args")
  | "conc", _id :: np :: each :: rest =>
    -- real goroutines: `np` producers queue `each` tasks tagged <producer>.<seq> while the listener side checks in
    -- until everything is out.  Spec (C04.fifo_all_schedules): whatever the schedule, every task is handed out
    -- exactly once and every producer's tasks come out in the order that producer queued them; every queued task
    -- has its request id on record (C05's gate relies on it).  An optional fourth argument: that many tasks for a
    -- pivot below the agent, queued by one more producer; their wrappers (tag 0.0) must all come out, once each.
    match np.toNat?, each.toNat?, (rest.head?.bind String.toNat?).getD 0, l.impl with
    | some p, some k, pv, [tasks, ds] =>
      match parseTagged ds with
      | none => (s, .bad "conc: delivered list")
      | some gotAll =>
        let got := gotAll.filter (fun x => x.1 != 0)
        let wrappers := (gotAll.filter (fun x => x.1 == 0)).length
        let perProducerOk := (List.range p).all fun i =>
          (got.filter (fun x => x.1 == i + 1)).map (·.2) == List.range k
        if got.length ≠ p * k || !perProducerOk then
          (s, .specFail "C04.concurrent" (concWhy p k got))
        else if wrappers ≠ pv then
          (s, .specFail "C04.concurrent" s!"{pv} tasks were queued for the pivot agent while the parent was tasked and checked in; {wrappers} wrapped tasks were handed out")
        else if tasks ≠ s!"tasks={p * k}" then
          (s, .specFail "C04.concurrent" s!"{p * k} tasks were queued concurrently but the request-id record holds {tasks}")
        else (s, .ok)
    | _, _, _, imp => (s, .specFail "C04.concurrent" s!"concurrent producers and check-ins ended with {(joinSp imp).take 160}")
  | op, _ => (s, .bad s!"unknown op {op}")

end Havoc.DriverC04
