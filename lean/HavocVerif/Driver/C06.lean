import HavocVerif.Basic.Proto
import HavocVerif.Model.Auth
import HavocVerif.Model.Service
/-
  Driver for C06.
    conn <name> | send <name> <text> <msg=event:sub:user:pwkind:pw|msg=nonjson> | bcast <m> | register | close <name>
      => <name>[open|closed]=<frame,…|-> … clients=<n> listeners=<n> events=<n>
  frames are Event.SubEvent[/marker]; 1.1 = login success, 1.2 = login error.
-/
namespace Havoc.DriverC06
open Havoc

def kv (key : String) (toks : List String) : Option String :=
  toks.findSome? fun t => if t.startsWith (key ++ "=") then some ((t.drop (key.length + 1)).toString) else none

def hexStr (s : String) : Option Str := (ofHex s).map fun bs => bs.map fun b => Char.ofNat b.toNat

/-- operators of the harness profile with the hex SHA3-256 of their passwords (given by the harness on the `world` line) -/
structure St where
  cfg : AuthCfg := ⟨[], 1, 3⟩
  conns : List (String × CState) := []
  events : Nat := 0
  svcPw : Str := []
  svc : Svc := {}
  spresented : List String := []
  snames : List String := []      -- service connections; the index is the model's connection id

def parseMsg (s : String) : Option LoginMsg :=
  if s = "nonjson" then some ⟨0, 0, [], none⟩
  else match s.splitOn ":" with
    | [e, sb, u, kind, pw] => do
      -- Go ints may be negative: codes are only ever compared for equality with the (small, regenerated)
      -- configured codes, so a negative code is mapped injectively to a number no configured code equals
      let code := fun (t : String) => t.toInt?.map fun (i : Int) => if i < 0 then 2 ^ 64 + i.natAbs else i.toNat
      let ev ← code e
      let sub ← code sb
      let user ← hexStr u
      let p ← hexStr pw
      pure ⟨ev, sub, user, if kind = "str" then some p else none⟩
    | _ => none

/-- frames of one connection in this operation -/
def framesOf (name : String) (toks : List String) : Option (List String) :=
  toks.findSome? fun t =>
    if t.startsWith (name ++ "[") then
      match (t.splitOn "]=") with
      | [_, fs] => some (if fs = "-" then [] else fs.splitOn ",")
      | _ => none
    else none

def isErrorFrame (f : String) : Bool := f.startsWith "1.2"
def isSuccessFrame (f : String) : Bool := f.startsWith "1.1"

def step (st : St) (l : Line) : St × Verdict :=
  match l.op, l.args with
  | "world", [initE, oauth, users, spw] =>
    -- users: name:hash,name:hash (hex)
    let us := (users.splitOn ",").filterMap fun p => match p.splitOn ":" with
      | [n, h] => do pure ((← hexStr n), (← hexStr h))
      | _ => none
    ({ st with cfg := ⟨us, initE.toNat?.getD 1, oauth.toNat?.getD 3⟩, svcPw := (hexStr spw).getD [] }, .ok)
  | "sconn", [name] =>
    let id := st.snames.length
    let st' := { st with snames := st.snames ++ [name], svc := svcStep (fun x => x) st.svcPw st.svc (.connect id) }
    match framesOf name l.impl with
    | some [] => (st', .ok)
    | fs => (st', .specFail "C06.service-preauth" s!"service connection {name} received {fs} before sending anything")
  | "ssend", name :: _hex :: rest =>
    match st.snames.idxOf? name, (kv "hello" rest), (kv "req" rest) with
    | some id, some hello, some req =>
      let hs : Option SvcHello := match hello.splitOn ":" with
        | [t, p] => do pure ⟨(← hexStr t), (← hexStr p)⟩
        | _ => none
      let rq : SvcReq := match req.splitOn ":" with
        | ["regagent", n] => match hexStr n with | some n => .registerAgent n | none => .other
        | _ => .other
      let before := st.svc.stateOf id
      let svc1 := svcStep (fun x => x) st.svcPw st.svc (.message id hs rq)
      -- an authenticated connection the server closed (e.g. unparsable message): ClientClose
      let closedNow := l.impl.any fun t => t.startsWith (name ++ "[closed]")
      let svc2 := if closedNow then svcStep (fun x => x) st.svcPw svc1 (.close id) else svc1
      let evNow := ((kv "events" l.impl).bind String.toNat?).getD st.events
      let st' := { st with svc := svc2, events := evNow }
      let fs := (framesOf name l.impl).getD []
      let sagents := (kv "sagents" l.impl).getD ""
      let expectAgents := ",".intercalate (svc2.agents.map fun (n, _) => if n.isEmpty then "-" else toHex (n.map fun ch => UInt8.ofNat ch.toNat))
      let wantFrames : List String := match before with
        | some .fresh => match svcAuth (fun x => x) st.svcPw hs with
          | some true => ["S.Register/true"] | some false => ["S.Register/false"] | none => []
        | _ => []
      -- the property's own condition: has this connection presented the password yet?
      let validNow := svcAuth (fun x => x) st.svcPw hs == some true
      let presented := st.spresented.contains name || validNow
      let st' := { st' with spresented := if validNow then name :: st.spresented else st.spresented }
      let prevAgents := ",".intercalate (st.svc.agents.map fun (n, _) => if n.isEmpty then "-" else toHex (n.map fun ch => UInt8.ofNat ch.toNat))
      if !presented && evNow != st.events then
        (st', .specFail "C06.service-preauth" s!"service connection {name} has not presented the password, yet its message recorded an event")
      else if !presented && sagents != prevAgents then
        (st', .specFail "C06.service-preauth" s!"service connection {name} has not presented the password, yet the agent registry went {prevAgents} -> {sagents}")
      else if !presented && fs.any (fun f => f != "S.Register/false") then
        (st', .specFail "C06.service-preauth" s!"service connection {name} has not presented the password, yet it received {fs}")
      else if before ≠ some .authed ∧ fs ≠ wantFrames then
        (st', .diff s!"{name}={wantFrames}")
      else if before = some .fresh ∧ (svc1.stateOf id ≠ some .authed) ∧ !closedNow then
        (st', .diff s!"{name}[closed]")
      else if sagents ≠ expectAgents then (st', .diff s!"sagents={expectAgents}")
      else (st', .ok)
    | _, _, _ => (st, .bad "ssend")
  | op, args =>
    let evNow := ((kv "events" l.impl).bind String.toNat?).getD st.events
    let lst := (kv "listeners" l.impl).getD "0"
    -- state transition of the connection named by the operation
    let target := args.headD ""
    let before := (st.conns.lookup target).getD .dead
    let (after, loginOk, firstMsg) : CState × Bool × Bool := match op with
      | "conn" => (.fresh, false, false)
      | "close" => (.dead, false, false)
      | "send" =>
        match before, (args.getD 2 "").drop 4 |>.toString |> parseMsg with
        | .fresh, some m => if loginAnswer st.cfg m == Frame.authSuccess then (.authed m.user, true, true) else (.dead, false, true)
        | s, _ => (s, false, false)
      | _ => (before, false, false)
    let conns' := if op == "conn" || op == "close" || op == "send" then (target, after) :: st.conns.filter (·.1 ≠ target) else st.conns
    let svc' := match (if op == "close" then st.snames.idxOf? target else none) with
      | some id => svcStep (fun x => x) st.svcPw st.svc (.close id)
      | none => st.svc
    let st' : St := { st with conns := conns', events := evNow, svc := svc' }
    -- Spec over every connection
    let bad := conns'.findSome? fun (name, cs) =>
      match framesOf name l.impl with
      | none => none
      | some fs =>
        let wasAuthed := match st.conns.lookup name with | some (.authed _) => true | _ => false
        let isAuthedNow := match cs with | .authed _ => true | _ => false
        if name == target && firstMsg then
          if loginOk then
            if fs.head?.map isSuccessFrame ≠ some true then some ("C06.login", s!"{name}: correct credentials but the first frame is {fs.head?}")
            else none
          else if decide (fs.length > 1) || (fs.any fun f => !isErrorFrame f) then
            some ("C06.preauth-leak", s!"{name}: its first message does not authenticate, yet it received {fs}")
          else none
        else if !(wasAuthed && isAuthedNow) && !(wasAuthed && name == target) then
          if !fs.isEmpty then some ("C06.preauth-leak", s!"{name} is not authenticated but received {fs} during {op}")
          else none
        else none
    match bad with
    | some (cls, e) => (st', .specFail cls e)
    | none =>
      if lst ≠ "0" then (st', .specFail "C06.preauth-action" s!"a listener exists although no operator added one ({op} {target})")
      else if op == "send" && !loginOk && !(match before with | .authed _ => true | _ => false) && evNow != st.events then
        (st', .specFail "C06.preauth-action" s!"a message from unauthenticated {target} changed the recorded events {st.events} -> {evNow}")
      else (st', .ok)

end Havoc.DriverC06
