import HavocVerif.Basic.Proto
import HavocVerif.Model.Pivot
import HavocVerif.Model.Tasks
import HavocVerif.Driver.C02
/-
  Driver for C08.
    agent <id> <key> <iv> <ks> [<parent id>]
    ptask <target> <cmd> <req> <args>             AddJobToQueue on a (pivot) agent
    rootcheckin <root> => <response hex>
    issue <id> <req>                               plain outstanding id (no queueing observed)
    relay <parent> <child> <wrapreq> <cmd> <req> <final> <body> => childfx=<n> tasksC=<csv> tasksP=<csv>
-/
namespace Havoc.DriverC08
open Havoc DriverC02

structure Ag where
  id : String
  nid : Nat
  ks : Bytes
  parent : Option String
  tasks : List Nat := []

structure Pending where
  root : String
  target : String
  job : Job

structure St where
  agents : List Ag := []
  pending : List Pending := []

def St.find (s : St) (id : String) : Option Ag := s.agents.find? (·.id == id)
def St.findN (s : St) (n : Nat) : Option Ag := s.agents.find? (·.nid == n)
def St.upd (s : St) (a : Ag) : St := { s with agents := s.agents.map fun x => if x.id == a.id then a else x }

def hexNat (s : String) : Option Nat :=
  s.toList.foldlM (fun acc c => (hexVal c).map (acc * 16 + ·)) 0

def rootOf (s : St) : Nat → String → Option String
  | 0, _ => none
  | f + 1, id =>
    match s.find id with
    | none => none
    | some a => match a.parent with
      | none => some id
      | some p => rootOf s f p

/-- follow one task handed to `cur` down the pivot links until it is not a relay any more -/
def follow (s : St) : Nat → Ag → Task → Except String (String × Task)
  | 0, _, _ => .error "relay nesting too deep"
  | f + 1, cur, t =>
    if t.command ≠ Gen.Consts.COMMAND_PIVOT then .ok (cur.id, t)
    else
      match relayOf t with
      | none => .ok (cur.id, t)
      | some (id, data) =>
        match s.findN id with
        | none => .error s!"layer handed to {cur.id} names agent {id}, which does not exist"
        | some nxt =>
          if nxt.parent != some cur.id then
            .error s!"layer handed to {cur.id} names {nxt.id}, which is not one of its pivots"
          else
            match hopRecv ⟨nxt.nid, ksOf nxt.ks⟩ data with
            | some [t'] => follow s f nxt t'
            | some ts => .error s!"hop {nxt.id} finds {ts.length} tasks in its layer"
            | none => .error s!"hop {nxt.id} cannot read the layer addressed to it with its own key"

def showTasks (t : List Nat) : String := if t.isEmpty then "-" else ",".intercalate (t.map toString)

def parsePkgs : List String → Option (List (Nat × Nat × String))
  | [] => some []
  | c :: r :: f :: _body :: rest => do
    let c ← c.toNat?
    let r ← r.toNat?
    let ps ← parsePkgs rest
    pure ((c, r, f) :: ps)
  | _ => none

def step (s : St) (l : Line) : St × Verdict :=
  match l.op, l.args with
  | "agent", id :: _key :: _iv :: ks :: rest =>
    match ofHex ks, hexNat id with
    | some k, some n => ({ s with agents := s.agents ++ [⟨id, n, k, rest.head?, []⟩] }, .ok)
    | _, _ => (s, .bad "agent args")
  | "reconnect", [parent, child] =>
    -- an existing agent connected again: it hangs below `parent` from now on, unless that would close a cycle
    match s.find parent, s.find child with
    | some _, some ca =>
      let rec isAnc : Nat → String → Bool
        | 0, _ => false
        | f + 1, x => x == child || (match (s.find x).bind (·.parent) with | some p => isAnc f p | none => false)
      if isAnc 12 parent then (s, .ok) else (s.upd { ca with parent := some parent }, .ok)
    | _, _ => (s, .bad "reconnect args")
  | "ptask", [target, cmd, req, args] =>
    match cmd.toNat?, req.toNat?, parseArgs args, rootOf s 10 target, s.find target with
    | some c, some r, some as, some root, some a =>
      let s := s.upd { a with tasks := a.tasks ++ [r] }
      ({ s with pending := s.pending ++ [⟨root, target, ⟨c, r, as⟩⟩] }, .ok)
    | _, _, _, _, _ => (s, .bad "ptask args")
  | "rootcheckin", [root] =>
    match s.find root, l.impl with
    | some ra, [rh] =>
      match ofHex rh with
      | none => (s, .bad "resp hex")
      | some resp =>
        let mine := s.pending.filter (·.root == root)
        let s' := { s with pending := s.pending.filter (·.root != root) }
        match demonDispatch (ksOf ra.ks) resp with
        | none => (s', .specFail "C08.wrap" s!"root {root} cannot read its own check-in response")
        | some ts =>
          let res := ts.map (follow s 10 ra)
          match res.find? (fun r => match r with | .error _ => true | .ok _ => false) with
          | some (.error e) => (s', .specFail "C08.wrap" e)
          | _ =>
            let got := res.filterMap fun r => match r with | .ok x => some x | .error _ => none
            let want := mine.map fun p => (p.target, p.job.view)
            if got == want then (s', .ok)
            else (s', .specFail "C08.wrap" s!"delivered {got.map (fun x => (x.1, x.2.command, x.2.requestId))} expected {want.map (fun x => (x.1, x.2.command, x.2.requestId))}")
    | _, _ => (s, .bad "rootcheckin")
  | "issue", [id, req] =>
    match s.find id, req.toNat? with
    | some a, some r => (s.upd { a with tasks := a.tasks ++ [r] }, .ok)
    | _, _ => (s, .bad "issue")
  | "relay", [parent, child, _wrapreq, cmd, req, final, _body] =>
    match s.find parent, s.find child, cmd.toNat?, req.toNat?,
        DriverC02.parseArgs "-", l.impl with
    | some pa, some ca, some c, some r, _, [fx, tc, tp] =>
      match natCsv ((tc.drop 7).toString), natCsv ((tp.drop 7).toString) with
      | some tcs, some tps =>
        let known := isKnown false ca.tasks r c
        let s' := (s.upd { ca with tasks := tcs }).upd { pa with tasks := tps }
        if tps ≠ pa.tasks then
          (s', .specFail "C08.relay" s!"relayed callback for {child} changed the relaying parent's outstanding ids {showTasks pa.tasks} -> {showTasks tps}")
        else if !known ∧ fx ≠ "childfx=0" then
          (s', .specFail "C08.relay" s!"relayed callback cmd={c} req={r} is not outstanding for {child} (has {showTasks ca.tasks}) but took effect ({fx})")
        else if !known ∧ tcs ≠ ca.tasks then
          (s', .specFail "C08.relay" s!"unsolicited relayed callback changed {child}'s outstanding ids")
        else if known ∧ final == "1" ∧ ca.tasks.contains r ∧ tcs ≠ ca.tasks.erase r then
          (s', .specFail "C08.relay" s!"final relayed callback req={r} not booked against {child}: {showTasks ca.tasks} -> {showTasks tcs}")
        else if known ∧ (final == "1" ∨ final == "0") ∧ c == 11 ∧ fx == "childfx=0" then
          (s', .specFail "C08.relay" s!"relayed callback cmd={c} req={r} outstanding for {child} had no effect attributed to it")
        else (s', .ok)
      | _, _ => (s, .bad "relay tasks csv")
    | _, _, _, _, _, _ => (s, .bad s!"relay: {joinSp l.impl}")
  | "relayn", parent :: child :: _wrapreq :: pkgs =>
    -- several packages of the child in one relayed frame: each is gated by the child's outstanding ids as they
    -- stand when it is reached (a final callback earlier in the frame retires its id), none by the parent's
    match s.find parent, s.find child, parsePkgs pkgs, l.impl with
    | some pa, some ca, some ps, [fx, tc, tp] =>
      match natCsv ((tc.drop 7).toString), natCsv ((tp.drop 7).toString), ((fx.drop 8).toString).toNat? with
      | some tcs, some tps, some nfx =>
        let (want, acted) := ps.foldl (fun (acc : List Nat × Nat) (p : Nat × Nat × String) =>
          let (cur, k) := acc
          let (c, r, final) := p
          if isKnown false cur r c then (if final == "1" then cur.erase r else cur, if c == 11 then k + 1 else k) else (cur, k)) (ca.tasks, 0)
        let anyKnown := want ≠ ca.tasks ∨ acted > 0 ∨ ps.any fun (c, r, _) => isKnown false ca.tasks r c
        let s' := (s.upd { ca with tasks := tcs }).upd { pa with tasks := tps }
        if tps ≠ pa.tasks then
          (s', .specFail "C08.relay" s!"relayed frame for {child} changed the relaying parent's outstanding ids {showTasks pa.tasks} -> {showTasks tps}")
        else if tcs ≠ want then
          (s', .specFail "C08.relay" s!"relayed frame of {ps.length} packages: {child}'s outstanding ids {showTasks ca.tasks} -> {showTasks tcs}, expected {showTasks want}")
        else if nfx < acted then
          (s', .specFail "C08.relay" s!"relayed frame: {acted} package(s) answer outstanding tasks of {child} but only {nfx} effect(s) were attributed to it")
        else if !anyKnown ∧ nfx ≠ 0 then
          (s', .specFail "C08.relay" s!"relayed frame without any outstanding id took effect ({fx})")
        else (s', .ok)
      | _, _, _ => (s, .bad "relayn tasks csv")
    | _, _, _, _ => (s, .bad s!"relayn: {joinSp l.impl}")
  | op, _ => (s, .bad s!"unknown op {op}")

end Havoc.DriverC08
