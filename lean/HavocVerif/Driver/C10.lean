import HavocVerif.Basic.Proto
import HavocVerif.Model.Db
/-
  Driver for C10.  Every operation line carries
     <ok|PANIC:…> Lagents=… Llinks=… Ragents=… Rlinks=… Rdangling=… Rlisteners=… Rwrite=<ok|LOST:…|-> mid=<call:dangling~…|->
  L = the live teamserver after the operation, R = what reopening a copy of the database
  file yields, mid = the same reopening at every interface-level database call inside the
  operation (kill points between statements).
-/
namespace Havoc.DriverC10
open Havoc

def kv (key : String) (toks : List String) : Option String :=
  toks.findSome? fun t => if t.startsWith (key ++ "=") then some ((t.drop (key.length + 1)).toString) else none

structure St where
  listeners : List (String × String × String) := []
  tl : List String := []        -- (hex) names of the listeners started through the teamserver (their names begin with "tl-")

def insertS (x : String) : List String → List String
  | [] => [x]
  | y :: ys => if x ≤ y then x :: y :: ys else y :: insertS x ys
def sortS (l : List String) : List String := l.foldr insertS []

def idsOf (agents : String) : List String :=
  if agents = "-" then [] else (agents.splitOn ";").map fun a => (a.splitOn "/").headD ""

def step (st : St) (l : Line) : St × Verdict :=
  -- the model of the listener table (the only part with no live counterpart in this harness)
  let d0 : Db := { listeners := st.listeners }
  let d1 : Db := match l.op, l.args with
    | "ladd", [n, p, c] => d0.listenerAdd n p c
    | "lrem", [n] => d0.listenerRemove n
    | _, _ => d0
  let tl' : List String := match l.op, l.args with
    | "tladd", n :: _ => if st.tl.contains n then st.tl else st.tl ++ [n]
    | "tlrem", n :: _ => st.tl.filter (· ≠ n)
    | _, _ => st.tl
  let st' : St := { listeners := d1.listeners, tl := tl' }
  match l.impl.head?, kv "Lagents" l.impl, kv "Llinks" l.impl, kv "Ragents" l.impl, kv "Rlinks" l.impl,
      kv "Rdangling" l.impl, kv "Rlisteners" l.impl, kv "mid" l.impl with
  | some res, some la, some ll, some ra, some rl, some rd, some rlst, some mid =>
    if res.startsWith "PANIC:" then (st', .specFail ("C10.panic." ++ (res.drop 6).toString) s!"{l.op} panics")
    else if l.op == "burst" then
      -- concurrent registrations on a teamserver of its own: a restart brings back exactly the acknowledged ones
      let acked := match kv "acked" l.impl with | some "-" | none => [] | some a => a.splitOn ";"
      if rd ≠ "-" then (st', .specFail "C10.dangling" s!"after {l.op}: TS_Links names {rd}")
      else if sortS (idsOf ra) ≠ sortS acked then
        (st', .specFail "C10.agents-set" s!"after {l.op} {l.args.take 2}: {acked.length} registrations were acknowledged ({sortS acked}); a restart reloads {sortS (idsOf ra)}")
      else (st', .ok)
    else if ((kv "Rwrite" l.impl).getD "ok").startsWith "LOST" then
      (st', .specFail "C10.restart-writes-lost" s!"after {l.op} {l.args.take 2}: the database was reopened and restored the way Teamserver.Start does; what is recorded afterwards is not there at the next restart ({(kv "Rwrite" l.impl).getD ""})")
    else if rd ≠ "-" then
      (st', .specFail "C10.dangling" s!"after {l.op} {l.args.take 2}: TS_Links names {rd}, an agent that a restart does not reload")
    else if idsOf ra ≠ idsOf la then
      (st', .specFail "C10.agents-set" s!"after {l.op} {l.args.take 2}: a restart reloads agents {idsOf ra} but the active sessions are {idsOf la}")
    else if ra ≠ la then
      (st', .specFail "C10.metadata" s!"after {l.op} {l.args.take 2}: a reloaded session's id/key/IV/metadata differs from the live one")
    else if rl ≠ ll then
      (st', .specFail "C10.links" s!"after {l.op} {l.args.take 2}: reloaded parent/child pairs {rl}, live {ll}")
    else
      let midBad := (mid.splitOn "~").find? fun m => m ≠ "-" ∧ ((m.splitOn ":").getD 1 "-") ≠ "-"
      match midBad with
      | some m => (st', .specFail "C10.crash-dangling" s!"killed inside {l.op} {l.args.take 2} right after {m}: TS_Links names an agent a restart does not reload")
      | none =>
        let want := sortS (d1.listeners.map fun (n, p, c) => s!"{n}|{p}|{c}")
        let gotAll := if rlst = "-" then [] else sortS (rlst.splitOn ";")
        -- listeners started through the teamserver (its own configuration text): compared by name
        let isTl (s : String) : Bool := ((s.splitOn "|").headD "").startsWith "746c2d"
        let gotTl := sortS ((gotAll.filter isTl).map fun s => (s.splitOn "|").headD "")
        let got := gotAll.filter (fun s => !isTl s)
        if gotTl ≠ sortS tl' then
          (st', .specFail "C10.listeners" s!"after {l.op} {l.args.take 2}: a restart brings back the listeners {gotTl} (hex names); started and not removed through the teamserver are {sortS tl'}")
        else
        if got ≠ want then
          if got.length ≠ want.length ∨ got.map (fun s => (s.splitOn "|").headD "") ≠ want.map (fun s => (s.splitOn "|").headD "") then
            (st', .specFail "C10.listeners" s!"after {l.op}: persisted listeners {got.map (fun s => (s.splitOn "|").headD "")} expected {want.map (fun s => (s.splitOn "|").headD "")}")
          else (st', .specFail "C10.listener-config" s!"after {l.op}: a persisted listener's protocol/config differs from what was added")
        else (st', .ok)
  | _, _, _, _, _, _, _, _ => (st', .bad s!"unreadable: {(joinSp l.impl).take 200}")

end Havoc.DriverC10
