import HavocVerif.Basic.Proto
import HavocVerif.Model.Queue
import HavocVerif.Model.TaskTable
/-
  Driver for C02 (and the job-level ops shared with C04/C08).
    agent <id> <key> <iv> <ks>          register an agent; ks = keystream prefix (hex)
    job <id> <cmd> <req> <args>          AddJobToQueue
    checkin <id> => <response hex>       COMMAND_GET_JOB through the real listener entry point
    build <ks> <jobs…> => <hex>          BuildPayloadMessage on an explicit batch:  cmd/req/args;…
-/
namespace Havoc.DriverC02
open Havoc

def parseArg (s : String) : Option Arg :=
  match s.splitOn ":" with
  | [k, v] =>
    match k with
    | "int" => v.toNat?.map Arg.int
    | "int64" => v.toNat?.map Arg.int64
    | "uint64" => v.toNat?.map Arg.uint64
    | "int32" => v.toNat?.map Arg.int32
    | "uint32" => v.toNat?.map Arg.uint32
    | "int16" => v.toNat?.map Arg.int16
    | "uint16" => v.toNat?.map Arg.uint16
    | "str" => (ofHex v).map Arg.str
    | "bytes" => (ofHex v).map Arg.bytes
    | "byte" => v.toNat?.map (fun n => Arg.byte (UInt8.ofNat n))
    | "bool" => v.toNat?.map (fun n => Arg.bool (n != 0))
    | _ => none
  | _ => none

def parseArgs (s : String) : Option (List Arg) :=
  if s = "-" then some [] else (s.splitOn ",").mapM parseArg

def ksOf (bs : Bytes) : KeyStream := fun i => bs.getD i 0

structure AgentSt where
  id : String
  ks : Bytes
  queue : List Job
  deriving Repr

structure St where
  agents : List AgentSt := []

def St.find (s : St) (id : String) : Option AgentSt := s.agents.find? (·.id == id)
def St.set (s : St) (a : AgentSt) : St :=
  { s with agents := a :: s.agents.filter (·.id != a.id) }

/-- Spec: what the Demon reads from the response is a non-empty in-order prefix of
    the outstanding jobs (or nothing when none is outstanding), each with the
    issued command, request id and argument bytes; bodies are under the keystream. -/
def specCheckin (ks : KeyStream) (queue : List Job) (resp : Bytes) : Option String × Nat :=
  match demonDispatch ks resp with
  | none => (some "C02.frame-decode demon reader runs out of bounds", 0)
  | some ts =>
    if queue.isEmpty then
      if ts.isEmpty then (none, 0) else (some "C02.frame-roundtrip tasks delivered although none queued", 0)
    else if ts.isEmpty then (some "C02.frame-roundtrip queued tasks but the Demon sees none", 0)
    else if ts == (queue.take ts.length).map Job.view then (none, ts.length)
    else
      -- classify: header mismatch vs body mismatch vs dropped
      let want := (queue.take ts.length).map Job.view
      let hdrOk := ts.map (fun t => (t.command, t.requestId)) == want.map (fun t => (t.command, t.requestId))
      if hdrOk then (some "C02.body-roundtrip task body differs from the issued arguments", ts.length)
      else (some "C02.frame-roundtrip command/request id sequence differs from the queue", ts.length)

/-- how many jobs the implementation put on the wire: count frames by walking sizes -/
def countFrames : Nat → Bytes → Nat
  | 0, _ => 0
  | fuel + 1, p =>
    if p.length < 12 then 0
    else
      let n := leNat ((p.drop 8).take 4)
      (if leNat (p.take 4) = Gen.Consts.COMMAND_NOJOB then 0 else 1) + countFrames fuel (p.drop (12 + n))

def step (s : St) (l : Line) : St × Verdict :=
  let implS := joinSp l.impl
  match l.op, l.args with
  | "agent", [id, _key, _iv, ks] =>
    match ofHex ks with
    | some k => (s.set ⟨id, k, []⟩, .ok)
    | none => (s, .bad "agent ks")
  | "job", [id, cmd, req, args] =>
    match s.find id, cmd.toNat?, req.toNat?, parseArgs args with
    | some a, some c, some r, some as =>
      (s.set { a with queue := a.queue ++ [⟨c, r, as⟩] }, .ok)
    | _, _, _, _ => (s, .bad "job args")
  | "task", [id, taskId, delay, jitter] =>
    -- the operator's path: TaskPrepare(COMMAND_SLEEP) + AddJobToQueue.  The request id on the wire must be
    -- the TaskID the operator was told (8 hexadecimal digits).
    match s.find id, (ofHex taskId).map beNat, delay.toNat?, jitter.toNat? with
    | some a, some tid, some d, some j =>
      let cmd := (Gen.Consts.go_agent.lookup "COMMAND_SLEEP").getD 11
      let s' := s.set { a with queue := a.queue ++ [⟨cmd, tid % 4294967296, [Arg.int d, Arg.int j]⟩] }
      match l.impl with
      | ["ok", req] =>
        if req == s!"req={tid % 4294967296}" then (s', .ok)
        else (s', .specFail "C02.request-id" s!"the operator was told task id {taskId} ({tid}), the queued job carries request id {req}")
      | _ => (s', .diff "ok")
    | _, _, _, _ => (s, .bad "task args")
  | "prep", name :: taskId :: _key :: _iv :: ksHex :: params =>
    -- an operator command through the real TaskPrepare on a fresh agent, queued and fetched by one check-in:
    -- read the way the Demon reads it (dispatch table -> handler -> its reads), it must carry the command, the task id
    -- the operator was told and the operator's parameters.  params are hex of the operator's (UTF-8) strings; "-" = empty.
    match TaskTable.find name, (ofHex taskId).map beNat, ofHex ksHex, params.mapM (fun p => if p == "-" then some [] else ofHex p), l.impl with
    | some e, some tid, some ksb, some ps, [rh] =>
      match ofHex rh with
      | some resp =>
        if resp.length > ksb.length then (s, .bad s!"prep: the key stream prefix on the line ({ksb.length} bytes) is shorter than the response ({resp.length})") else
        match demonDispatch (ksOf ksb) resp with
        | none => (s, .specFail "C02.frame-decode" s!"{name}: the Demon's reader runs out of bounds on the response")
        | some ts =>
          match ts.getLast? with
          | none => (s, .specFail "C02.operator-params" s!"{name}: the command was accepted but no task reached the agent")
          | some t =>
            if TaskTable.taskOk e ps tid t then
              if name == "fs.upload" && !TaskTable.uploadOk (ps.getD 1 []) ts then
                (s, .specFail "C02.operator-params" s!"fs.upload of {(ps.getD 1 []).length} bytes: the in-memory file the task refers to was not delivered before it, complete and with the operator's content ({ts.length - 1} task(s) precede it)")
              else (s, .ok)
            else
              let want := e.expected ps
              let got := e.kinds.bind fun ks => (demonRead ks t.body).map (·.1)
              if t.requestId ≠ tid % 4294967296 then
                (s, .specFail "C02.request-id" s!"{name}: the operator was told task id {taskId}, the frame carries request id {t.requestId}")
              else if some t.command ≠ e.commandId then
                (s, .specFail "C02.operator-params" s!"{name}: the frame carries command {t.command}; the Demon serves this command under {e.commandId} ({e.handler})")
              else
                (s, .specFail "C02.operator-params" s!"{name}: {e.handler} reads {repr got} from the task body, the operator asked for {repr want}")
      | none => (s, .specFail "C02.operator-params" s!"{name}: the operator's command ended with {implS.take 120}")
    | none, _, _, _, _ => (s, .bad s!"prep: unknown command {name}")
    | _, _, _, _, _ => (s, .bad "prep args")
  | "checkin", [id] =>
    match s.find id, l.impl with
    | some a, [rh] =>
      match ofHex rh with
      | some resp =>
        let ks := ksOf a.ks
        let (batch, rest) := checkinJobs true a.queue
        let m := buildPayload ks batch
        let (err, _) := specCheckin ks a.queue resp
        -- the implementation's own view of how much it took off the queue
        let taken := if a.queue.isEmpty then 0 else countFrames (resp.length + 1) resp
        let s' := s.set { a with queue := a.queue.drop taken }
        let err := match err with
          | some e => some e
          | none =>
            if !a.queue.isEmpty && taken ≠ ((demonDispatch ks resp).getD []).length then
              some s!"C02.frame-dropped the server put {taken} task frame(s) on the wire but the Demon's loop processes {((demonDispatch ks resp).getD []).length}"
            else none
        match err with
        | some e =>
          let cls := (e.splitOn " ").headD "C02.?"
          (s', .specFail cls s!"{e}; queued={a.queue.length} resp={rh.take 120}")
        | none =>
          if m ≠ resp then
            (s', .diff s!"{(toHexP m).take 200} batch={batch.length} rest={rest.length}")
          else (s', .ok)
      | none => (s, .bad "checkin resp hex")
    | _, _ => (s, .bad s!"checkin: unknown agent or panic: {implS}")
  | op, _ => (s, .bad s!"unknown op {op}")

end Havoc.DriverC02
