import HavocVerif.Basic.Proto
import HavocVerif.Spec.C03
namespace Havoc.DriverC03
open Havoc

def parseField (s : String) : Option Field :=
  match s.splitOn ":" with
  | [k, v] =>
    match k with
    | "i" => v.toNat?.map Field.int32
    | "q" => v.toNat?.map Field.int64
    | "p" => v.toNat?.map Field.pointer
    | "b" => v.toNat?.map (fun n => Field.bool (n != 0))
    | "y" => (ofHex v).map Field.bytes
    | _ => none
  | _ => none

def parseFields (s : String) : Option (List Field) :=
  if s = "-" then some [] else (s.splitOn ",").mapM parseField

def showField : Field → String
  | .int32 v => s!"i:{v}"
  | .int64 v => s!"q:{v}"
  | .pointer v => s!"p:{v}"
  | .bool b => if b then "b:1" else "b:0"
  | .bytes d => "y:" ++ toHexP d

def showFields (fs : List Field) : String :=
  if fs.isEmpty then "-" else ",".intercalate (fs.map showField)

def kindOfChar : Char → Option ReadType
  | 'i' => some .int32 | 'q' => some .int64 | 'p' => some .pointer
  | 'b' => some .bool | 'y' => some .bytes | _ => none

def parseKinds (s : String) : Option (List ReadType) :=
  if s = "-" then some [] else s.toList.mapM kindOfChar

def modelRead (kinds : List ReadType) (buf : Bytes) : String :=
  let p : Parser := ⟨buf, true⟩
  let can := p.canIRead kinds
  let (vals, q) := p.readFields kinds
  s!"{if can then 1 else 0} {showFields vals} {toHexP q.buf}"

def parseObs (impl : List String) : Option SpecC03.ReadObs :=
  match impl with
  | [c, vs, r] => do
    let fs ← parseFields vs
    let rest ← ofHex r
    pure ⟨c == "1", fs, rest⟩
  | _ => none

def step (l : Line) : Verdict :=
  let implS := joinSp l.impl
  match l.op, l.args with
  | "dec", [spec, rest, buf] =>
    match parseFields spec, ofHex rest, ofHex buf with
    | some fs, some rest, some buf =>
      if buf ≠ encodeFields fs ++ rest then .bad "harness encoding differs from reference encoder"
      else
        let m := modelRead (fs.map Field.kind) buf
        match parseObs l.impl with
        | some o =>
          if !SpecC03.decodeOk fs rest o then
            .specFail "C03.field-decode" s!"fields={spec} residue={rest.length} got={implS}"
          else if m ≠ implS then .diff m else .ok
        | none => .specFail "C03.field-decode" s!"fields={spec} residue={rest.length} got={implS}"
    | _, _, _ => .bad "dec args"
  | "raw", [kinds, buf] =>
    match parseKinds kinds, ofHex buf with
    | some ks, some buf =>
      let m := modelRead ks buf
      if m ≠ implS then .diff m else .ok
    | _, _ => .bad "raw args"
  | "atleast", [n, buf] =>
    match n.toNat?, ofHex buf with
    | some n, some buf =>
      let (d, q) := (⟨buf, true⟩ : Parser).parseAtLeastBytes n
      let m := s!"{toHexP d} {toHexP q.buf}"
      if m ≠ implS then .diff m else .ok
    | _, _ => .bad "atleast args"
  | "utf16", [cps, buf] =>
    match natCsv cps, ofHex buf with
    | some cs, some buf =>
      let m := toHexP (utf8 (decodeUTF16 buf))
      match l.impl with
      | [o] =>
        match ofHex o with
        | some shown =>
          if !SpecC03.utf16Ok cs shown then
            .specFail "C03.utf16-decode" s!"scalars={cps} bytes={buf.length} got={implS}"
          else if m ≠ implS then .diff m else .ok
        | none => .specFail "C03.utf16-decode" s!"scalars={cps} bytes={buf.length} got={implS}"
      | _ => .bad "utf16 impl"
    | _, _ => .bad "utf16 args"
  | "utf16raw", [buf] =>
    match ofHex buf with
    | some buf =>
      let m := toHexP (utf8 (decodeUTF16 buf))
      if (implS.startsWith "PANIC") then .specFail "C03.utf16-total" s!"bytes={buf.length} got={implS}"
      else if m ≠ implS then .diff m else .ok
    | none => .bad "utf16raw args"
  | "wstr", [buf] =>
    match ofHex buf with
    | some buf =>
      let (d, q) := (⟨buf, true⟩ : Parser).parseBytes
      let m := s!"{toHexP (stripNull (utf8 (decodeUTF16 d)))} {toHexP q.buf}"
      if (implS.startsWith "PANIC") then .specFail "C03.utf16-total" s!"got={implS}"
      else if m ≠ implS then .diff m else .ok
    | none => .bad "wstr args"
  | "str", [buf] =>
    match ofHex buf with
    | some buf =>
      let (d, q) := (⟨buf, true⟩ : Parser).parseBytes
      let m := s!"{toHexP (stripNull d)} {toHexP q.buf}"
      if m ≠ implS then .diff m else .ok
    | none => .bad "str args"
  | "stripnull", [buf] =>
    match ofHex buf with
    | some buf =>
      let m := toHexP (stripNull buf)
      if m ≠ implS then .diff m else .ok
    | none => .bad "stripnull args"
  | op, _ => .bad s!"unknown op {op}"

end Havoc.DriverC03
