import HavocVerif.Basic.Proto
import HavocVerif.Spec.C03
import HavocVerif.Model.Sessions
namespace Havoc.DriverC03
open Havoc

def parseField (s : String) : Option Field :=
  match s.splitOn ":" with
  | [k, v] =>
    match k with
    | "i" => v.toNat?.map Field.int32
    | "q" => v.toNat?.map Field.int64
    | "p" => v.toNat?.map Field.pointer
    | "b" => v.toNat?.map (fun n => Field.bool (n != 0))
    | "y" => (ofHex v).map Field.bytes
    | _ => none
  | _ => none

def parseFields (s : String) : Option (List Field) :=
  if s = "-" then some [] else (s.splitOn ",").mapM parseField

def showField : Field → String
  | .int32 v => s!"i:{v}"
  | .int64 v => s!"q:{v}"
  | .pointer v => s!"p:{v}"
  | .bool b => if b then "b:1" else "b:0"
  | .bytes d => "y:" ++ toHexP d

def showFields (fs : List Field) : String :=
  if fs.isEmpty then "-" else ",".intercalate (fs.map showField)

def kindOfChar : Char → Option ReadType
  | 'i' => some .int32 | 'q' => some .int64 | 'p' => some .pointer
  | 'b' => some .bool | 'y' => some .bytes | _ => none

def parseKinds (s : String) : Option (List ReadType) :=
  if s = "-" then some [] else s.toList.mapM kindOfChar

def modelRead (kinds : List ReadType) (buf : Bytes) : String :=
  let p : Parser := ⟨buf, true⟩
  let can := p.canIRead kinds
  let (vals, q) := p.readFields kinds
  s!"{if can then 1 else 0} {showFields vals} {toHexP q.buf}"

def parseObs (impl : List String) : Option SpecC03.ReadObs :=
  match impl with
  | [c, vs, r] => do
    let fs ← parseFields vs
    let rest ← ofHex r
    pure ⟨c == "1", fs, rest⟩
  | _ => none

def stepParser (l : Line) : Verdict :=
  let implS := joinSp l.impl
  match l.op, l.args with
  | "dec", [spec, rest, buf] =>
    match parseFields spec, ofHex rest, ofHex buf with
    | some fs, some rest, some buf =>
      if buf ≠ encodeFields fs ++ rest then .bad "harness encoding differs from reference encoder"
      else
        let m := modelRead (fs.map Field.kind) buf
        match parseObs l.impl with
        | some o =>
          if !SpecC03.decodeOk fs rest o then
            .specFail "C03.field-decode" s!"fields={spec} residue={rest.length} got={implS}"
          else if m ≠ implS then .diff m else .ok
        | none => .specFail "C03.field-decode" s!"fields={spec} residue={rest.length} got={implS}"
    | _, _, _ => .bad "dec args"
  | "raw", [kinds, buf] =>
    match parseKinds kinds, ofHex buf with
    | some ks, some buf =>
      let m := modelRead ks buf
      -- Spec: the pre-flight answer is "yes" exactly when the buffer holds the fields (whatever the readers then do)
      let want := SpecC03.holdsFieldsB ks buf
      match l.impl with
      | c :: _ =>
        if (c == "1") != want && (c == "1" || c == "0") then
          .specFail "C03.can-i-read" s!"kinds={kinds} buf={buf.length} bytes: the check answered {c} but the fields are {if want then "" else "not "}all there"
        else if m ≠ implS then .diff m else .ok
      | [] => .bad "raw impl"
    | _, _ => .bad "raw args"
  | "atleast", [n, buf] =>
    match n.toNat?, ofHex buf with
    | some n, some buf =>
      let (d, q) := (⟨buf, true⟩ : Parser).parseAtLeastBytes n
      let m := s!"{toHexP d} {toHexP q.buf}"
      if m ≠ implS then .diff m else .ok
    | _, _ => .bad "atleast args"
  | "utf16", [cps, buf] =>
    match natCsv cps, ofHex buf with
    | some cs, some buf =>
      let m := toHexP (utf8 (decodeUTF16 buf))
      match l.impl with
      | [o] =>
        match ofHex o with
        | some shown =>
          if !SpecC03.utf16Ok cs shown then
            .specFail "C03.utf16-decode" s!"scalars={cps} bytes={buf.length} got={implS}"
          else if m ≠ implS then .diff m else .ok
        | none => .specFail "C03.utf16-decode" s!"scalars={cps} bytes={buf.length} got={implS}"
      | _ => .bad "utf16 impl"
    | _, _ => .bad "utf16 args"
  | "utf16raw", [buf] =>
    match ofHex buf with
    | some buf =>
      let m := toHexP (utf8 (decodeUTF16 buf))
      if (implS.startsWith "PANIC") then .specFail "C03.utf16-total" s!"bytes={buf.length} got={implS}"
      else if m ≠ implS then .diff m else .ok
    | none => .bad "utf16raw args"
  | "wstr", [buf] =>
    match ofHex buf with
    | some buf =>
      let (d, q) := (⟨buf, true⟩ : Parser).parseBytes
      let m := s!"{toHexP (stripNull (utf8 (decodeUTF16 d)))} {toHexP q.buf}"
      if (implS.startsWith "PANIC") then .specFail "C03.utf16-total" s!"got={implS}"
      else if m ≠ implS then .diff m else .ok
    | none => .bad "wstr args"
  | "str", [buf] =>
    match ofHex buf with
    | some buf =>
      let (d, q) := (⟨buf, true⟩ : Parser).parseBytes
      let m := s!"{toHexP (stripNull d)} {toHexP q.buf}"
      if m ≠ implS then .diff m else .ok
    | none => .bad "str args"
  | "dirlist", [_explorer, ents] =>
    -- every entry of the agent's listing is shown to the operator with its own name and its own kind (file / directory)
    let want := (ents.splitOn ",").map fun e =>
      match e.splitOn ":" with
      | [n, d, _] => n ++ ":" ++ (if d == "1" then "d" else "f")
      | _ => "?"
    let got := ((implS.drop 6).toString.splitOn ",")
    if implS.startsWith "PANIC" then .specFail "C03.panic" s!"the directory listing callback panics: {implS.take 120}"
    else if got == want then .ok
    else .specFail "C03.console" s!"directory listing: the agent reported {want}, the operator is shown {got}"
  | "stripnull", [buf] =>
    match ofHex buf with
    | some buf =>
      let m := toHexP (stripNull buf)
      if m ≠ implS then .diff m else .ok
    | none => .bad "stripnull args"
  | op, _ => .bad s!"unknown op {op}"


/-! ### sessions (stateful) -/

def hexNat' (s : String) : Option Nat :=
  s.toList.foldlM (fun acc c => (hexVal c).map (acc * 16 + ·)) 0


structure ObsSession where
  id : String
  key : String
  iv : String
  rest : List String     -- host user domain ip procpath pid tid ppid sleep jitter killdate wh base
  deriving DecidableEq, Repr

structure SSt where
  model : Sessions := []
  obs : List ObsSession := []
  kss : List (String × Bytes) := []     -- keystream prefixes by key++iv hex

def parseObsSessions (s : String) : Option (List ObsSession) :=
  if s = "-" then some []
  else (s.splitOn ";").mapM fun t =>
    match t.splitOn "/" with
    | id :: key :: iv :: rest => some ⟨id, key, iv, rest⟩
    | _ => none

def hex8 (n : Nat) : String :=
  let h := toHex (be32 n)
  h

def ksLookup (st : SSt) : Bytes → Bytes → KeyStream := fun key iv =>
  match st.kss.lookup (toHexP key ++ toHexP iv) with
  | some k => fun i => k.getD i 0
  | none => fun _ => 0

def fieldBytes : Field → Bytes
  | .bytes d => d
  | _ => []
def fieldNat : Field → Nat
  | .int32 v | .int64 v | .pointer v => v
  | .bool b => if b then 1 else 0
  | .bytes _ => 0

/-- what the operator-visible session record must show for the metadata that was sent -/
def expectRest (info : List Field) : List String :=
  let g := fun i => info.getD i (.int32 0)
  [toHexP (stripNull (fieldBytes (g 0))), toHexP (stripNull (fieldBytes (g 1))), toHexP (stripNull (fieldBytes (g 2))),
   toHexP (stripNull (fieldBytes (g 3))), toHexP (stripNull (utf8 (decodeUTF16 (fieldBytes (g 4))))),
   toString (fieldNat (g 5)), toString (fieldNat (g 6)), toString (fieldNat (g 7)),
   toString (fieldNat (g 17)), toString (fieldNat (g 18)), toString (fieldNat (g 19)), toString (fieldNat (g 20)),
   toString (fieldNat (g 10))]

def dup (l : List String) : Bool := match l with
  | [] => false
  | x :: xs => xs.contains x || dup xs

def identityCheck (before after : List ObsSession) : Option String :=
  let ib := before.map (·.id)
  let ia := after.map (·.id)
  if dup ia then some s!"C03.identity two sessions share an id: {ia}"
  else if ia.take ib.length ≠ ib then some s!"C03.identity session ids changed: {ib} -> {ia}"
  else none

def sstep (st : SSt) (l0 : Line) : SSt × Verdict :=
  let l : Line := if l0.op == "sraw" then { l0 with op := "sreg" } else l0
  match l.op, l.args with
  | "sreg", hdr :: ks :: buf :: more =>
    match hexNat' hdr, ofHex ks, ofHex buf, l.impl with
    | some h, some k, some b, [reply, sess] =>
      match parseObsSessions ((sess.drop 9).toString) with
      | none => (st, .bad "sessions obs")
      | some after =>
        let keyiv := toHexP (b.take 32) ++ toHexP ((b.drop 32).take 16)
        let st1 := { st with kss := (keyiv, k) :: st.kss }
        let (m', res) := handleInit (ksLookup st1) st.model h b
        let st2 := { st1 with model := m', obs := after }
        match identityCheck st.obs after with
        | some e => (st2, .specFail ((e.splitOn " ").headD "C03.identity") e)
        | none =>
          -- structured expectations
          let structured := match more with
            | [inner, fields] => match hexNat' inner, parseFields fields with
              | some i, some fs => some (i, fs)
              | _, _ => none
            | _ => none
          let known := st.obs.any (·.id == hex8 h)
          let verdictModel : Verdict :=
            let mres := match res with
              | .registered r => toHexP r
              | .reconnected r => toHexP r
              | .rejected => "REJECTED"
            let mids := m'.map (fun s => hex8 s.id)
            if mres ≠ reply ∨ mids ≠ after.map (·.id) then .diff s!"{mres} ids={mids}" else .ok
          match structured with
          | some (inner, info) =>
            if known then
              if after ≠ st.obs then (st2, .specFail "C03.reregister" s!"re-registration of {hex8 h} changed the session table")
              else (st2, verdictModel)
            else if inner ≠ h then
              if after ≠ st.obs ∨ reply ≠ "REJECTED" then
                (st2, .specFail "C03.decrypt-check" s!"registration with header id {hex8 h} but inner id {hex8 inner} was not rejected")
              else (st2, verdictModel)
            else
              match after.getLast? with
              | some ns =>
                if after.length ≠ st.obs.length + 1 then
                  (st2, .specFail "C03.register" s!"registration of fresh id {hex8 h} created {after.length - st.obs.length} sessions (reply {reply})")
                else if ns.id ≠ hex8 h ∨ ns.key ≠ toHexP (b.take 32) ∨ ns.iv ≠ toHexP ((b.drop 32).take 16) then
                  (st2, .specFail "C03.register" s!"session id/key/IV differ from what was sent: {ns.id}")
                else if ns.rest ≠ expectRest info then
                  (st2, .specFail "C03.register-metadata" s!"recorded {ns.rest} sent {expectRest info}")
                else if reply ≠ toHexP (initReply (ksLookup st1) (b.take 32) ((b.drop 32).take 16) h) then
                  (st2, .specFail "C03.register" s!"registration reply is not the agent id under the session key: {reply}")
                else (st2, verdictModel)
              | none => (st2, .specFail "C03.register" s!"registration of fresh id {hex8 h} created no session")
          | none => (st2, verdictModel)
    | _, _, _, _ => (st, .bad "sreg args")
  | "sdie", _ =>
    -- the session goes inactive (agent exit / operator mark): it stays in the table under its id
    match l.impl with
    | [_, sess] =>
      match parseObsSessions ((sess.drop 9).toString) with
      | some after =>
        match identityCheck st.obs after with
        | some e => ({ st with obs := after }, .specFail "C03.identity" e)
        | none => ({ st with obs := after }, .ok)
      | none => (st, .bad "sessions obs")
    | _ => (st, .bad "sdie impl")
  | "sget", _ =>
    match l.impl with
    | [_, sess] =>
      match parseObsSessions ((sess.drop 9).toString) with
      | some after =>
        match identityCheck st.obs after with
        | some e => ({ st with obs := after }, .specFail "C03.identity" e)
        | none => if after ≠ st.obs then ({ st with obs := after }, .specFail "C03.identity" "a plain check-in changed the session table") else (st, .ok)
      | none => (st, .bad "sessions obs")
    | _ => (st, .bad "sget impl")
  | "schk", [id, ks, _req, body, inner, _fields] =>
    match hexNat' id, hexNat' inner, ofHex body, l.impl with
    | some a, some i, some b, [_, sess] =>
      let st := { st with kss := (toHexP (b.take 32) ++ toHexP ((b.drop 32).take 16), (ofHex ks).getD []) :: st.kss }
      match parseObsSessions ((sess.drop 9).toString) with
      | none => (st, .bad "sessions obs")
      | some after =>
        let st2 := { st with obs := after }
        match identityCheck st.obs after with
        | some e => (st2, .specFail "C03.identity" e)
        | none =>
          let valid := b.length ≥ 48 && (⟨b.drop 48, true⟩ : Parser).canIRead registerGuard && i == a
          -- key / IV of a session may only change through a complete check-in of that same agent
          let bad := (st.obs.zip after).any fun (o, n) =>
            (o.key ≠ n.key ∨ o.iv ≠ n.iv) ∧ !(valid ∧ o.id == hex8 a ∧ n.key == toHexP (b.take 32) ∧ n.iv == toHexP ((b.drop 32).take 16))
          if bad then (st2, .specFail "C03.session-key" s!"check-in callback for {hex8 a} (inner id {hex8 i}, complete={valid}) changed a session key")
          else
            let model' := st.model.map fun s => if s.id == a ∧ valid then { s with key := b.take 32, iv := (b.drop 32).take 16 } else s
            ({ st2 with model := model' }, .ok)
    | _, _, _, _ => (st, .bad "schk args")
  | _, _ => (st, stepParser l)

end Havoc.DriverC03
