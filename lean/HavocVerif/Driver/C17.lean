import HavocVerif.Basic.Proto
import HavocVerif.Model.Ranges
/-
  Driver for C17.
    parse <mode> <srchex> => toks=<ty:lo:hi:hex,…|-> tree=<(lo-hi(…)…)|-> diags=<lo-hi,…|-> errs=<n> eval=<ok|skip|PANIC…>
                            | PANIC:… | TIMEOUT
-/
namespace Havoc.DriverC17
open Havoc Havoc.Rg

def kv (key : String) (toks : List String) : Option String :=
  toks.findSome? fun t => if t.startsWith (key ++ "=") then some ((t.drop (key.length + 1)).toString) else none

def parseToks (s : String) : Option (List Tok) :=
  if s == "-" then some [] else (s.splitOn ",").mapM fun t =>
    match t.splitOn ":" with
    | [ty, lo, hi, h] => do pure ⟨ty, (← lo.toNat?), (← hi.toNat?), (← ofHex h)⟩
    | _ => none

def parseRange (s : String) : Option R :=
  match s.splitOn "-" with
  | [a, b] => do pure ⟨(← a.toNat?), (← b.toNat?)⟩
  | _ => none

/-- `(lo-hi` kids `)` … ; returns the trees of a forest -/
partial def parseForest (cs : List Char) : Option (List Tree × List Char) :=
  match cs with
  | '(' :: r =>
    let hd := r.takeWhile (fun c => c != '(' && c != ')')
    let rest := r.dropWhile (fun c => c != '(' && c != ')')
    -- `lo-hi@NodeType`
    match parseRange (String.ofList (hd.takeWhile (· != '@'))), parseForest rest with
    | some rg, some (kids, ')' :: rest') =>
      (parseForest rest').map fun (sibs, r'') => (Tree.node rg kids :: sibs, r'')
    | _, _ => none
  | _ => some ([], cs)

def isBlank (b : UInt8) : Bool := b == 32 || b == 9

def step (l : Line) : Verdict :=
  match l.op, l.args with
  | "parse", [mode, srcHex] =>
    match ofHex srcHex with
    | none => .bad "src"
    | some inp =>
      let n := inp.length
      let first := l.impl.headD ""
      if first.startsWith "PANIC" then .specFail "C17.panic" s!"{mode} parser panicked on a {n}-byte input: {first}"
      else if first.startsWith "TIMEOUT" then .specFail "C17.hang" s!"{mode} parser did not finish on a {n}-byte input within the time limit"
      else
        let evalR := (kv "eval" l.impl).getD "skip"
        if evalR.startsWith "PANIC" then .specFail "C17.panic" s!"{mode}: the input produced no error, yet evaluating / decoding it panicked: {evalR}"
        else
          match parseToks ((kv "toks" l.impl).getD "-") with
          | none => .bad "toks"
          | some toks =>
            if !(covers inp 0 toks) then
              .specFail "C17.tokens" s!"{mode}: the token stream does not cover the input in order (overlap, out of bounds, or bytes that are not the input's)"
            else if rebuild inp 0 toks != inp then .specFail "C17.tokens" s!"{mode}: tokens and gaps do not add up to the input"
            else if !toks.isEmpty && ((gaps inp 0 toks).zipIdx.any fun (g, i) =>
                -- a byte order mark at the very start of the input is skipped like a blank
                let g' := if i == 0 && g.take 3 == [0xEF, 0xBB, 0xBF] then g.drop 3 else g
                g'.any (fun b => !isBlank b)) then
              .specFail "C17.tokens" s!"{mode}: the lexer skipped something other than blanks"
            else
              let inBounds (r : R) := r.lo ≤ r.hi ∧ r.hi ≤ n
              let dr := (kv "diags" l.impl).getD "-"
              let diags := if dr == "-" then some [] else (dr.splitOn ",").mapM parseRange
              match diags with
              | none => .bad "diags"
              | some ds =>
                match ds.find? (fun r => !decide (inBounds r)) with
                | some r => .specFail "C17.ranges" s!"{mode}: a diagnostic points at {r.lo}-{r.hi} in an input of {n} bytes"
                | none =>
                  let tr := (kv "tree" l.impl).getD "-"
                  if tr == "-" then .ok
                  else match parseForest tr.toList with
                    | some (ts, []) =>
                      match ts.find? (fun t => !(nested t) || !decide (inBounds t.range)) with
                      | some t => .specFail "C17.ranges" s!"{mode}: a node range is outside its parent or outside the input (tree rooted at {t.range.lo}-{t.range.hi}, input {n} bytes)"
                      | none => .ok
                    | _ => .bad "tree"
  | _, _ => .bad "unknown operation"

end Havoc.DriverC17
