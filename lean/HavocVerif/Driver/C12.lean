import HavocVerif.Basic.Proto
import HavocVerif.Model.Http
/-
  Driver for C12.
    listener <uris> <headers> <ua> <respheaders> <redir>      (comma-separated hex items; "-" none; uris "e" = [""])
    req <peer 4|6> <method> <uri> <name=value,…> => status=<n> class=<decoy|reply|engine404|other> reached=<0|1> extip=<hex> headers=<name=value,…>
-/
namespace Havoc.DriverC12
open Havoc

def hexStr (s : String) : Option Str := (ofHex s).map fun bs => bs.map fun b => Char.ofNat b.toNat
def hexList (s : String) : Option (List Str) := if s = "-" then some [] else (s.splitOn ",").mapM hexStr
def hexPairs (s : String) : Option (List (Str × Str)) :=
  if s = "-" then some []
  else (s.splitOn ",").mapM fun kv => match kv.splitOn "=" with
    | [k, v] => do pure ((← hexStr k), (← hexStr v))
    | _ => none

def kv (key : String) (toks : List String) : Option String :=
  toks.findSome? fun t => if t.startsWith (key ++ "=") then some ((t.drop (key.length + 1)).toString) else none

def showS (s : Str) : String := String.ofList s

structure St where
  cfg : Option HttpConfig := none

def step (st : St) (l : Line) : St × Verdict :=
  match l.op, l.args with
  | "listener", uris :: hdrs :: ua :: resp :: redir :: _viaOperator =>
    match (if uris = "e" then some [[]] else hexList uris), hexList hdrs, hexStr ua, hexList resp with
    | some u, some h, some a, some r =>
      if l.impl == ["NOLISTEN"] then (st, .bad "listener did not come up")
      else ({ cfg := some ⟨u, h, a, r, redir == "1"⟩ }, .ok)
    | _, _, _, _ => (st, .bad "listener args")
  | "viaserver", [redir, edits] =>
    -- the listener as the teamserver runs it (started, then edited `edits` times): the recorded sender is the forwarded-for
    -- header exactly when the profile says the teamserver sits behind a redirector - whatever was edited in between
    let want := if redir == "1" then "sender=203.0.113.8" else "sender=127.0.0.1"
    if l.impl == [want] then (st, .ok)
    else if l.impl == ["STARTERR"] || l.impl == ["NOLISTEN"] then (st, .bad s!"viaserver: {l.impl}")
    else (st, .specFail "C12.sender-address" s!"behind a redirector = {redir}, listener edited {edits} time(s): a new agent that sent X-Forwarded-For: 203.0.113.8 from 127.0.0.1 is recorded with {l.impl}, expected {want}")
  | "req", peer :: method :: uri :: hs :: bodyKind =>
    match st.cfg, hexStr method, hexStr uri, hexPairs hs, kv "class" l.impl, kv "reached" l.impl, kv "extip" l.impl, kv "headers" l.impl with
    | some cfg, some m, some u, some hdrs, some cls, some reached, some ext, some rh =>
      let req : HttpReq := ⟨m, u, hdrs, if peer == "6" then "::1".toList else "127.0.0.1".toList⟩
      let want := admits cfg req
      if reached == "1" ∧ !want then
        (st, .specFail "C12.admission" s!"a {showS m} {showS u} request that does not match the listener profile reached the agent protocol")
      else if reached == "0" ∧ cls ≠ "decoy" then
        (st, .specFail "C12.decoy" s!"a rejected {showS m} request was answered with {cls} ({(kv "status" l.impl).getD "?"}), not the decoy 404")
      else if want ∧ !bodyKind.isEmpty then
        -- admitted by the profile, but the body is nothing the agent protocol can use: the decoy, and like every answer
        -- to an admitted request it carries the configured response headers
        match hexPairs rh with
        | some got =>
          -- the decoy page has a face of its own (Server, Content-Type, X-Havoc as fake404 sets them): a configured header of
          -- one of these names is not demanded on it; every other configured response header is
          let decoyOwn (n : Str) : Bool := ["server", "content-type", "x-havoc"].any fun d => eqFold n d.toList
          let missing := (responseHeaders cfg).filter fun (n, v) => !decoyOwn n && !(got.any fun (gn, gv) => eqFold gn n && gv == v)
          if reached == "1" then (st, .specFail "C12.admission" s!"a request with an unusable body ({bodyKind}) created a session")
          else if !missing.isEmpty then
            (st, .specFail "C12.response-headers" s!"the answer to an admitted request with an unusable body ({bodyKind}) lacks configured response header(s) {missing.map fun (n, v) => showS n ++ ": " ++ showS v}")
          else (st, .ok)
        | none => (st, .bad "headers hex")
      else if reached == "1" then
        match hexStr ext, hexPairs rh with
        | some e, some got =>
          let missing := (responseHeaders cfg).filter fun (n, v) => !(got.any fun (gn, gv) => eqFold gn n && gv == v)
          if e ≠ senderAddress cfg req then
            (st, .specFail "C12.sender-address" s!"recorded sender address {showS e}, expected {showS (senderAddress cfg req)} (redirector={cfg.behindRedir})")
          else if !missing.isEmpty then
            (st, .specFail "C12.response-headers" s!"admitted answer lacks configured response header(s) {missing.map fun (n, v) => showS n ++ ": " ++ showS v}")
          else (st, .ok)
        | _, _ => (st, .bad "extip/headers hex")
      else if want then (st, .diff "reached=1 (the request matches the profile)")
      else (st, .ok)
    | _, _, _, _, _, _, _, _ => (st, .bad s!"req: {joinSp l.impl}")
  | op, _ => (st, .bad s!"unknown op {op}")

end Havoc.DriverC12
