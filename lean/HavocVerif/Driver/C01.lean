import HavocVerif.Basic.Proto
import HavocVerif.Model.Ingress
/-
  Driver for C01.
    req <session ids csv|-> <service 0|1> <body> => <REJECTED|REPLY|PANIC:sig|TIMEOUT> locks=<n> changed=<0|1>
-/
namespace Havoc.DriverC01
open Havoc

def hexNat (s : String) : Option Nat :=
  s.toList.foldlM (fun acc c => (hexVal c).map (acc * 16 + ·)) 0

def parseIds (s : String) : Option (List Nat) :=
  if s = "-" then some [] else (s.splitOn ",").mapM hexNat

/-- what the model can say without the cipher: rejected / handled / a registration attempt -/
inductive Pred where | rejected | handled | init
  deriving DecidableEq

def predict (ids : List Nat) (body : Bytes) : Pred :=
  match parseHeader body with
  | none => .rejected
  | some h =>
    if h.data.length < 4 then .rejected
    else if h.magic = Gen.Consts.DEMON_MAGIC_VALUE then
      if ids.contains h.agentId then .handled
      else if ((⟨h.data, true⟩ : Parser).parseInt32).1 = Gen.Consts.DEMON_INIT then .init else .rejected
    else .rejected     -- no third-party agent type is registered in the harness worlds

def step (l : Line) : Verdict :=
  match l.op, l.args, l.impl with
  | "req", [ids, _svc, body], [res, locks, changed] =>
    match parseIds ids, ofHex body with
    | some is, some b =>
      if res.startsWith "PANIC:" then
        .specFail ("C01.panic." ++ (res.drop 6).toString) s!"request of {b.length} bytes panics the handler"
      else if res == "TIMEOUT" then .specFail "C01.hang" s!"request of {b.length} bytes does not terminate"
      else if locks ≠ "locks=0" then .specFail "C01.lock" s!"a mutex is still held after the request was answered ({locks})"
      else if res == "REJECTED" ∧ changed ≠ "changed=0" then
        .specFail "C01.reject-impure" "a rejected request changed sessions / queues / loot"
      else
        match predict is b with
        | .rejected => if res ≠ "REJECTED" then .diff "REJECTED" else .ok
        | .handled => if res ≠ "REPLY" then .diff "REPLY" else .ok
        | .init => .ok
    | _, _ => .bad "req args"
  | "http", raw :: _redir, [reply] =>
    -- a request over TCP to the real listener: however it is framed, it is answered (protocol reply or decoy)
    if reply == "reply=200" ∨ reply == "reply=404" ∨ reply == "reply=400" then .ok
    else .specFail "C01.no-reply" s!"a request of {raw.length / 2} bytes to the HTTP listener got no HTTP answer ({reply}): the handler did not end with a reply or the decoy"
  | "issue", _, _ => .ok
  | "task", _, _ => .ok      -- the operator queues tasks: state for the requests that follow
  | op, _, _ => .bad s!"unknown op {op} / output {joinSp l.impl}"

end Havoc.DriverC01
