import HavocVerif.Basic.Proto
import HavocVerif.Model.Body
/-
  Driver for C19.
    equiv schema=<sch> cfg=<cfg> fault=<…> cut=<n> seed=<n> => dyn=<0|1> dynamic=<r1|r2> formatted=… json=… jsont=… merged=… native=… shuffled=…
  sch: {a:<name>:<type>:<r|o>,b:<type>:<L?*?>{…},…}    cfg: {a:<name>=<val>,b:<type>[<labelhex>]{…},…}
-/
namespace Havoc.DriverC19
open Havoc Havoc.Bd

def kv (key : String) (toks : List String) : Option String :=
  toks.findSome? fun t => if t.startsWith (key ++ "=") then some ((t.drop (key.length + 1)).toString) else none

def splitTop (cs : List Char) : List (List Char) :=
  let rec go (depth : Nat) (cur : List Char) (acc : List (List Char)) : List Char → List (List Char)
    | [] => (cur.reverse :: acc).reverse
    | c :: rest =>
      if c == ',' && depth == 0 then go depth [] (cur.reverse :: acc) rest
      else if c == '(' || c == '[' || c == '{' then go (depth + 1) (c :: cur) acc rest
      else if c == ')' || c == ']' || c == '}' then go (depth - 1) (c :: cur) acc rest
      else go depth (c :: cur) acc rest
  go 0 [] [] cs

def inner (cs : List Char) : Option (List Char) :=
  match cs with
  | '{' :: r => if r.getLast? == some '}' then some r.dropLast else none
  | _ => none

partial def parseSch (cs : List Char) : Option Sch := do
  let body ← inner cs
  let items := if body.isEmpty then [] else splitTop body
  let mut attrs : List (String × String × Bool) := []
  let mut blocks : List (String × Bool × Bool × Sch) := []
  for it in items do
    match it with
    | 'a' :: ':' :: r =>
      match (String.ofList r).splitOn ":" with
      | [n, t, q] => attrs := attrs ++ [(n, t, q == "r")]
      | _ => none
    | 'b' :: ':' :: r =>
      let ty := r.takeWhile (· != ':')
      let r1 := (r.dropWhile (· != ':')).drop 1
      let flags := r1.takeWhile (· != '{')
      let rest := r1.dropWhile (· != '{')
      let s ← parseSch rest
      blocks := blocks ++ [(String.ofList ty, flags.contains 'L', flags.contains '*', s)]
    | _ => none
  pure (Sch.mk attrs blocks)

partial def parseCfg (cs : List Char) : Option Cfg := do
  let body ← inner cs
  let items := if body.isEmpty then [] else splitTop body
  let mut attrs : List (String × String) := []
  let mut blocks : List (String × String × Cfg) := []
  for it in items do
    match it with
    | 'a' :: ':' :: r =>
      let n := r.takeWhile (· != '=')
      let v := (r.dropWhile (· != '=')).drop 1
      attrs := attrs ++ [(String.ofList n, String.ofList v)]
    | 'b' :: ':' :: r =>
      let ty := r.takeWhile (· != '[')
      let r1 := (r.dropWhile (· != '[')).drop 1
      let lbl := String.ofList (r1.takeWhile (· != ']'))
      let rest := (r1.dropWhile (· != ']')).drop 1
      let c ← parseCfg rest
      blocks := blocks ++ [(String.ofList ty, if lbl == "006e6f6e65" then noLabel else lbl, c)]
    | _ => none
  pure (Cfg.mk attrs blocks)

def step (l : Line) : Verdict :=
  match l.op with
  | "equiv" =>
    match (kv "schema" l.args).bind (fun s => parseSch s.toList), (kv "cfg" l.args).bind (fun s => parseCfg s.toList) with
    | some sch, some cfg =>
      let forms := ["native", "shuffled", "json", "jsont", "formatted", "merged", "dynamic"].filterMap fun f =>
        (kv f l.impl).bind fun v => if v == "skip" then none else some (f, v)
      match forms.find? (fun (_, v) => v.startsWith "PANIC") with
      | some (f, v) => .specFail "C19.panic" s!"decoding the {f} form panicked: {v}"
      | none =>
        match forms.find? (fun (_, v) => v == "SYNTAX") with
        | some ("formatted", _) => .specFail "C19.validity-flips" "the shuffled form parses, after the formatter it does not"
        | some (f, _) => .bad s!"the {f} form does not parse (writer bug)"
        | none =>
          -- the two decoders on every form
          match forms.find? (fun (_, v) => match v.splitOn "|" with | a :: b :: rest => !((b :: rest).all (· == a)) | _ => true) with
          | some (f, v) => .specFail "C19.decoders-disagree" s!"{f} form: the spec-driven decoder, the tag-driven decoder and the tag-driven decoder in two steps (attributes from the left-over body) disagree: {v.take 300}"
          | none =>
            let results := forms.map fun (f, v) => (f, (v.splitOn "|").headD "")
            let ref := (results.headD ("", "")).2
            match results.find? (fun (_, v) => v != ref) with
            | some (f, v) =>
              if (v == "ERR") != (ref == "ERR") then
                .specFail "C19.validity-flips" s!"the native form {if ref == "ERR" then "is rejected" else "decodes"}, the {f} form {if v == "ERR" then "is rejected" else "decodes"}"
              else .specFail "C19.forms-disagree" s!"the {f} form decodes to {v.take 200}, the native form to {ref.take 200}"
            | none =>
              -- all forms and both decoders agree: is it what the configuration means?
              match decode 12 sch none cfg with
              | some d => if ref == d then .ok else .diff s!"{d.take 300}"
              | none => if ref == "ERR" then .ok else .diff "ERR"
    | _, _ => .bad "cannot read schema / cfg"
  | _ => .bad "unknown operation"

end Havoc.DriverC19
