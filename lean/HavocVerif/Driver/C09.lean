import HavocVerif.Basic.Proto
import HavocVerif.Model.Forest
import HavocVerif.Lemmas.Forest
/-
  Driver for C09.
    reg <id> | connect <p> <c> | disconnect <p> <c> | exit <id> | killdate <id> | markdead <id> | markalive <id>
      => <ok|NOAGENT|PANIC:sig> agents=<id:parent:links:active;…> rows=<p>c,…>
-/
namespace Havoc.DriverC09
open Havoc

def hexNat (s : String) : Option Nat :=
  s.toList.foldlM (fun acc c => (hexVal c).map (acc * 16 + ·)) 0

structure AObs where
  id : Nat
  parent : Option Nat
  links : List Nat
  active : Bool
  deriving DecidableEq, Repr

def parseAgents (s : String) : Option (List AObs) :=
  if s = "-" then some []
  else (s.splitOn ";").mapM fun t =>
    match t.splitOn ":" with
    | [id, par, lk, act] => do
      let i ← hexNat id
      let p ← if par = "-" then some none else (hexNat par).map some
      let ls ← if lk = "-" then some [] else (lk.splitOn "+").mapM hexNat
      pure ⟨i, p, ls, act == "1"⟩
    | _ => none

def parseRows (s : String) : Option (List (Nat × Nat)) :=
  if s = "-" then some []
  else (s.splitOn ",").mapM fun t =>
    match t.splitOn ">" with
    | [p, c] => do pure ((← hexNat p), (← hexNat c))
    | _ => none

def insertSorted (x : Nat × Nat) : List (Nat × Nat) → List (Nat × Nat)
  | [] => [x]
  | y :: ys => if x.1 < y.1 ∨ (x.1 = y.1 ∧ x.2 ≤ y.2) then x :: y :: ys else y :: insertSorted x ys
def sortRows (l : List (Nat × Nat)) : List (Nat × Nat) := l.foldr insertSorted []

def modelObs (f : Forest) : List AObs := f.agents.map fun a => ⟨a, f.parent a, f.links a, f.active a⟩

def climbs (obs : List AObs) : Nat → Nat → Nat → Bool   -- does the parent chain from a return to target within fuel steps
  | 0, _, _ => false
  | fuel + 1, a, target =>
    match (obs.find? (·.id == a)).bind (·.parent) with
    | none => false
    | some p => p == target || climbs obs fuel p target

/-- the forest clauses of the property, evaluated on what the implementation shows -/
def specForest (obs : List AObs) (rows : List (Nat × Nat)) : Option (String × String) :=
  let parentOf := fun c => (obs.find? (·.id == c)).bind (·.parent)
  let badLink := obs.findSome? fun p => p.links.findSome? fun c =>
    if parentOf c ≠ some p.id then some s!"{c} is listed among the links of {p.id} but its parent is {parentOf c}" else none
  let badParent := obs.findSome? fun c => match c.parent with
    | some p => if ((obs.find? (·.id == p)).map (·.links)).getD [] |>.contains c.id then none
                else some s!"{c.id} has parent {p} but is not among {p}'s links"
    | none => none
  let dupLink := obs.findSome? fun p => if p.links.eraseDups.length ≠ p.links.length then some s!"{p.id} lists a link twice: {p.links}" else none
  let cyc := obs.findSome? fun a => if climbs obs (obs.length + 1) a.id a.id then some s!"{a.id} is its own ancestor" else none
  let want := sortRows ((obs.filterMap fun c => c.parent.map fun p => (p, c.id)))
  match badLink, badParent, dupLink, cyc with
  | some e, _, _, _ => some ("C09.links-parent", e)
  | _, some e, _, _ => some ("C09.links-parent", e)
  | _, _, some e, _ => some ("C09.dup-link", e)
  | _, _, _, some e => some ("C09.cycle", e)
  | none, none, none, none =>
    if sortRows rows.eraseDups ≠ want ∨ rows.eraseDups.length ≠ rows.length then
      some ("C09.db-mirror", s!"TS_Links holds {sortRows rows} but the live links are {want}")
    else none

def kv (key : String) (toks : List String) : Option String :=
  toks.findSome? fun t => if t.startsWith (key ++ "=") then some ((t.drop (key.length + 1)).toString) else none

def step (f : Forest) (l : Line) : Forest × Verdict :=
  let ids := l.args.mapM hexNat
  match ids, l.impl.head?, (kv "agents" l.impl).bind parseAgents, (kv "rows" l.impl).bind parseRows with
  | some ids, some res, some obs, some rows =>
    let f' : Forest := match l.op, ids with
      | "reg", [a] => f.register a
      | "connect", [p, c] => f.connect p c
      | "disconnect", [p, c] => f.disconnect p c
      | "exit", [a] | "killdate", [a] | "markdead", [a] => f.died a
      | "markalive", [a] => f.markAlive a
      | _, _ => f
    let specForm : Forest := match l.op, ids with
      | "exit", [a] | "killdate", [a] | "markdead", [a] => f.diedSpec a
      | _, _ => f'
    if modelObs specForm ≠ modelObs f' ∨ sortRows specForm.rows ≠ sortRows f'.rows then
      (f', .bad "the loop form (UnlinkFromAll) and the proved form (diedSpec) of the model disagree on this state")
    else if res.startsWith "PANIC:" then (f', .specFail ("C09.panic." ++ (res.drop 6).toString) s!"{l.op} {l.args} panics")
    else
      match specForest obs rows with
      | some (cls, e) => (f', .specFail cls s!"after {l.op} {l.args}: {e}")
      | none =>
        let died := l.op == "exit" || l.op == "killdate" || l.op == "markdead"
        let a := ids.headD 0
        if died ∧ obs.any (fun o => o.id == a ∧ (o.links ≠ [] ∨ o.parent.isSome)) then
          (f', .specFail "C09.died-detach" s!"{a} died but keeps links / a parent")
        else if modelObs f' ≠ obs ∨ sortRows f'.rows ≠ sortRows rows then
          (f', .diff s!"agents={repr (modelObs f')} rows={sortRows f'.rows}")
        else (f', .ok)
  | _, _, _, _ => (f, .bad s!"unreadable: {joinSp l.impl}")

end Havoc.DriverC09
