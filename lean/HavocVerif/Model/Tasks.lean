import HavocVerif.Gen.Consts
/-
  Model of the callback gate: `Agent.IsKnownRequestID`, `AddRequest`,
  `RequestCompleted` (teamserver/pkg/agent/agent.go) and the gate at the top of
  `TaskDispatch` (demons.go).  A callback handler is abstracted to
  "produces effects, and is / is not the task's final callback".
-/
namespace Havoc

/-- kinds accepted without an outstanding task -/
def exemptCmd (sendLogs : Bool) (cmd : Nat) : Bool :=
  cmd == Gen.Consts.COMMAND_SOCKET || cmd == Gen.Consts.COMMAND_PIVOT ||
    (sendLogs && cmd == Gen.Consts.BEACON_OUTPUT)

/-- `IsKnownRequestID` -/
def isKnown (sendLogs : Bool) (tasks : List Nat) (req cmd : Nat) : Bool :=
  exemptCmd sendLogs cmd || tasks.contains req

/-- `RequestCompleted`: forget the first occurrence -/
def requestCompleted (tasks : List Nat) (req : Nat) : List Nat := tasks.erase req

/-! ### The same three functions statement by statement (the lines of `Gen.Dispatch.src_*`)

`for i := range a.Tasks { if a.Tasks[i].RequestID == RequestID { return true } }; return false` -/
def knownLoop : List Nat → Nat → Bool
  | [], _ => false
  | t :: ts, req => if t == req then true else knownLoop ts req

/-- `IsKnownRequestID` in the order of its statements: the command switch, the log-forwarding test, the loop -/
def isKnownGo (sendLogs : Bool) (tasks : List Nat) (req cmd : Nat) : Bool :=
  if cmd == Gen.Consts.COMMAND_SOCKET then true
  else if cmd == Gen.Consts.COMMAND_PIVOT then true
  else if sendLogs && cmd == Gen.Consts.BEACON_OUTPUT then true
  else knownLoop tasks req

/-- index at which the loop of `RequestCompleted` stops (`break` at the first match) -/
def firstIdx : List Nat → Nat → Option Nat
  | [], _ => none
  | t :: ts, req => if t == req then some 0 else (firstIdx ts req).map (· + 1)

/-- `RequestCompleted`: `a.Tasks = append(a.Tasks[:i], a.Tasks[i+1:]...)` at the first match, then `break` -/
def completedGo (tasks : List Nat) (req : Nat) : List Nat :=
  match firstIdx tasks req with
  | some i => tasks.take i ++ tasks.drop (i + 1)
  | none => tasks

/-- `AddRequest`: `a.Tasks = append(a.Tasks, job)` -/
def addRequestGo (tasks : List Nat) (req : Nat) : List Nat := tasks ++ [req]

structure Effect where
  agent : Nat
  req : Nat
  cmd : Nat
  deriving DecidableEq, Repr

/-- per-agent outstanding request ids -/
abbrev TaskTable := Nat → List Nat

inductive TOp where
  | issue (agent req : Nat)                        -- AddJobToQueue → AddRequest
  | callback (agent req cmd : Nat) (final : Bool)  -- a callback arrives; `final` = its handler calls RequestCompleted
  deriving Repr

structure TState where
  tasks : TaskTable := fun _ => []
  effects : List Effect := []

def tstep (sendLogs : Bool) (s : TState) : TOp → TState
  | .issue a r => { s with tasks := fun x => if x = a then s.tasks a ++ [r] else s.tasks x }
  | .callback a r c final =>
    if isKnown sendLogs (s.tasks a) r c then
      { tasks := fun x => if x = a ∧ final then requestCompleted (s.tasks a) r else s.tasks x,
        effects := s.effects ++ [⟨a, r, c⟩] }
    else s

def trun (sendLogs : Bool) (ops : List TOp) : TState := ops.foldl (tstep sendLogs) {}

end Havoc
